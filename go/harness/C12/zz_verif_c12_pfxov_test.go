//go:build verif

package overrides

// The prefix override file (C12, "the parameters in the response are the parameters the stations get"):
// text of the file -> ParsePrefixes -> prefixes.selectPrefix / barPrefix.selectPrefix on a reader with known
// bytes (crypto/rand.Int's rejection sampling included) -> PrefixOverride.Override writing into the response.
// The model (CJ.PrefixFile) gets the same text, the same reader bytes and strconv.ParseInt's results.
//
// Oracle (independent of the model, from the lines as they were generated): whatever is selected, and whatever
// Override writes into the response, is the (id, prefix) of a line of the file with max > 0 and bar > 0; a file
// whose lines all have bar <= 0 never applies; a file with one line and bar >= max > 0 always applies.

import (
	"bytes"
	"encoding/hex"
	"fmt"
	"strconv"
	"strings"
	"testing"

	"github.com/refraction-networking/conjure/internal/vlib"
	pb "github.com/refraction-networking/conjure/proto"
	"google.golang.org/protobuf/proto"
	"google.golang.org/protobuf/types/known/anypb"
)

type c12pLine struct {
	text     string
	gen      bool // a generated selector line (5 fields, integers as given below)
	max, bar int64
	id, port int64
	prefix   string
}

var c12pIntSpellings = []func(int64) string{
	func(v int64) string { return strconv.FormatInt(v, 10) },
	func(v int64) string {
		if v < 0 {
			return "-0x" + strconv.FormatInt(-v, 16)
		}
		return "0x" + strconv.FormatInt(v, 16)
	},
	func(v int64) string {
		if v < 0 {
			return "-0" + strconv.FormatInt(-v, 8)
		}
		return "0" + strconv.FormatInt(v, 8)
	},
	func(v int64) string {
		if v < 0 {
			return "-0b" + strconv.FormatInt(-v, 2)
		}
		return "+0b" + strconv.FormatInt(v, 2)
	},
}

var c12pJunkInts = []string{"abc", "1.5", "99999999999999999999", "-99999999999999999999", "1_0", "0x", "--1", "1e3", "0o7_7", "0b", "+", "1__0", "_1", "0_x1", "0X1f", "0B11"}

func c12pSpell(r *vlib.Rand, v int64) string {
	if r.Chance(3, 4) {
		return strconv.FormatInt(v, 10)
	}
	return c12pIntSpellings[r.Intn(len(c12pIntSpellings))](v)
}

func c12pGenLine(r *vlib.Rand, sink *vlib.Out) c12pLine {
	seps := []string{" ", "  ", "\t", " \t "}
	sep := func() string { return seps[r.Intn(len(seps))] }
	k := r.Intn(20)
	switch {
	case k == 0:
		sink.Count("pfx-line:empty")
		return c12pLine{text: ""}
	case k == 1:
		sink.Count("pfx-line:comment")
		return c12pLine{text: "# max bar id port prefix"}
	case k == 2:
		sink.Count("pfx-line:blank-only")
		return c12pLine{text: []string{" ", "\t", "  \t"}[r.Intn(3)]}
	case k == 3:
		sink.Count("pfx-line:indented-comment")
		return c12pLine{text: " # 10 10 1 80"}
	case k == 4:
		n := []int{1, 2, 3, 4, 6, 7}[r.Intn(6)]
		f := make([]string, n)
		for i := range f {
			f[i] = strconv.Itoa(r.Intn(20))
		}
		sink.Count("pfx-line:field-count")
		return c12pLine{text: strings.Join(f, " ")}
	case k == 5:
		// junk integers; sometimes in both of the first two columns (the zero/zero test sees 0, 0)
		f := []string{strconv.Itoa(r.Intn(5)), strconv.Itoa(r.Intn(5)), strconv.Itoa(r.Intn(50)), strconv.Itoa(r.Intn(500)), "JUNK"}
		j := c12pJunkInts[r.Intn(len(c12pJunkInts))]
		switch r.Intn(4) {
		case 0:
			f[0], f[1] = j, c12pJunkInts[r.Intn(len(c12pJunkInts))]
		case 1:
			f[0] = j
		case 2:
			f[1] = j
		default:
			f[2+r.Intn(2)] = j
		}
		// some of these spellings are numbers after all (base 0 accepts `1_0`, `0o7_7`): then the line is a selector
		l := c12pLine{text: strings.Join(f, " "), gen: true, prefix: f[4]}
		for i, dst := range []*int64{&l.max, &l.bar, &l.id, &l.port} {
			v, err := strconv.ParseInt(f[i], 0, 0)
			if err != nil {
				l.gen = false
			}
			*dst = v
		}
		if l.gen {
			sink.Count("pfx-line:unusual-int-spelling")
		} else {
			sink.Count("pfx-line:junk-int")
		}
		return l
	}
	l := c12pLine{gen: true}
	switch r.Intn(8) {
	case 0:
		l.max = int64(r.Intn(3))
	case 1:
		l.max = int64([]int{255, 256, 257, 65535, 65536, 65537, 1 << 24}[r.Intn(7)])
	case 2:
		l.max = -int64(r.Intn(5))
	default:
		l.max = int64(r.Range(1, 300))
	}
	switch r.Intn(6) {
	case 0:
		l.bar = 0
	case 1:
		l.bar = -int64(r.Intn(4))
	case 2:
		l.bar = l.max
	case 3:
		l.bar = l.max + int64(r.Intn(3))
	default:
		if l.max > 0 {
			l.bar = int64(r.Intn(int(l.max) + 1))
		} else {
			l.bar = int64(r.Intn(4))
		}
	}
	switch r.Intn(6) {
	case 0:
		l.id = int64(1<<31) + int64(r.Intn(4)) // does not fit the int32 of the parameters
	case 1:
		l.id = -int64(r.Intn(5))
	default:
		l.id = int64(r.Intn(100))
	}
	l.port = int64([]int{-1, 0, 22, 80, 443, 70000}[r.Intn(6)])
	l.prefix = []string{"HTT", "SSH-2.0", "GET", "\x16\x03\x01", "a#b", "0"}[r.Intn(6)]
	l.text = c12pSpell(r, l.max) + sep() + c12pSpell(r, l.bar) + sep() + c12pSpell(r, l.id) + sep() + c12pSpell(r, l.port) + sep() + l.prefix
	if r.Chance(1, 8) {
		l.text = " " + l.text + " "
	}
	if r.Chance(1, 10) {
		l.text += "\r"
	}
	sink.Count("pfx-line:selector")
	if l.max > 0 && l.bar >= l.max {
		sink.Count("pfx-bar:sure")
	} else if l.bar <= 0 || l.max <= 0 {
		sink.Count("pfx-bar:closed")
	} else {
		sink.Count("pfx-bar:drawn")
	}
	return l
}

// c12pInts: strconv.ParseInt's results for the lines that reach the conversions (the model's parameter).
func c12pInts(text string) string {
	var groups []string
	for _, line := range strings.Split(text, "\n") {
		line = strings.TrimSuffix(line, "\r")
		if len(line) == 0 || line[0] == '#' {
			continue
		}
		items := strings.Fields(line)
		if len(items) != 5 {
			break
		}
		g := make([]string, 4)
		for i := 0; i < 4; i++ {
			v, err := strconv.ParseInt(items[i], 0, 0)
			g[i] = fmt.Sprintf("%d:%s", v, vlib.B(err == nil))
		}
		groups = append(groups, strings.Join(g, ","))
	}
	if len(groups) == 0 {
		return "-"
	}
	return strings.Join(groups, ";")
}

func c12pPP(m *pb.PrefixTransportParams) string {
	f := []string{"-", "-", "-", "-"}
	if m.PrefixId != nil {
		f[0] = strconv.Itoa(int(*m.PrefixId))
	}
	if len(m.Prefix) > 0 {
		f[1] = hex.EncodeToString(m.Prefix)
	}
	if m.CustomFlushPolicy != nil {
		f[2] = strconv.Itoa(int(*m.CustomFlushPolicy))
	}
	if m.RandomizeDstPort != nil {
		f[3] = vlib.B(*m.RandomizeDstPort)
	}
	return strings.Join(f, ":")
}

func c12pResp(r *pb.RegistrationResponse) (string, *pb.PrefixTransportParams) {
	f := []string{"-", "-", "-", "-"}
	if r.DstPort != nil {
		f[2] = strconv.FormatUint(uint64(*r.DstPort), 10)
	}
	var m *pb.PrefixTransportParams
	if r.TransportParams != nil {
		m = &pb.PrefixTransportParams{}
		if err := proto.Unmarshal(r.TransportParams.Value, m); err != nil {
			f[3] = "O:" + hex.EncodeToString(r.TransportParams.Value)
			m = nil
		} else {
			f[3] = "P:" + c12pPP(m)
		}
	}
	return strings.Join(f, ","), m
}

func c12pCase(sink *vlib.Out, lines []c12pLine, stream []byte, cpID *int32, cpRand *bool, port0 *uint32, trailingNL bool) {
	var texts []string
	for _, l := range lines {
		texts = append(texts, l.text)
	}
	text := strings.Join(texts, "\n")
	if trailingNL {
		text += "\n"
	}
	cp := "-:-"
	{
		a, b := "-", "-"
		if cpID != nil {
			a = strconv.Itoa(int(*cpID))
		}
		if cpRand != nil {
			b = vlib.B(*cpRand)
		}
		cp = a + ":" + b
	}
	p0 := "-"
	if port0 != nil {
		p0 = strconv.FormatUint(uint64(*port0), 10)
	}
	line := strings.Join([]string{"pfxov", hex.EncodeToString([]byte(text)), c12pInts(text), hex.EncodeToString(stream), cp, p0}, "|")
	replay := fmt.Sprintf("file=%q reader=%x client-params=%s port-before=%s", text, stream, cp, p0)

	po, err := ParsePrefixes(strings.NewReader(text))
	if err != nil {
		kind := "perr other"
		if strings.HasPrefix(err.Error(), "malformed line") {
			kind = "perr malformed"
		} else if strings.HasPrefix(err.Error(), "prefix override parse error") {
			kind = "perr parse"
		}
		sink.Count("pfx-parse:" + kind)
		sink.Case(line, kind, false)
		return
	}
	sink.Count("pfx-parse:ok")

	// ground truth from the generated lines
	var eff []c12pLine
	for _, l := range lines {
		if l.gen && !(l.max == 0 && l.bar == 0) {
			eff = append(eff, l)
		}
	}
	fromFile := func(id int64, pre []byte) bool {
		for _, l := range eff {
			if l.max > 0 && l.bar > 0 && l.id == id && l.prefix == string(pre) {
				return true
			}
		}
		return false
	}
	allClosed, sure := true, len(eff) == 1 && eff[0].max > 0 && eff[0].bar >= eff[0].max
	for _, l := range eff {
		if l.bar > 0 && l.max > 0 {
			allClosed = false
		}
	}

	selS, rest := "", 0
	func() {
		defer func() {
			if r := recover(); r != nil {
				selS = "panic"
				sink.OracleFail("C12:override-selection-panics", fmt.Sprintf("prefixes.selectPrefix panicked: %v", r), replay)
			}
		}()
		rd := bytes.NewReader(stream)
		f, ok := po.prefixes.selectPrefix(rd, nil)
		rest = rd.Len()
		sink.Checked()
		if !ok || f == nil {
			selS = "-"
			sink.Count("pfx-select:none")
			if sure {
				sink.OracleFail("C12:sure-line-not-applied", fmt.Sprintf("the only line has bar %d >= max %d > 0 and was not applied", eff[0].bar, eff[0].max), replay)
			}
			return
		}
		sink.Count("pfx-select:some")
		pre := "-"
		if len(f.prefix) > 0 {
			pre = hex.EncodeToString(f.prefix)
		}
		selS = fmt.Sprintf("%d~%s~%d~%d", f.id, pre, f.port, f.flushPolicy)
		if allClosed {
			sink.OracleFail("C12:closed-line-applied", "every line of the file has bar <= 0 or max <= 0, yet a prefix was selected: "+selS, replay)
		} else if !fromFile(int64(f.id), f.prefix) {
			sink.OracleFail("C12:override-not-from-file", "the selected prefix is not a line of the file with max > 0 and bar > 0: "+selS, replay)
		}
	}()

	// Override on a Prefix registration, a fresh reader with the same bytes
	reg := &pb.C2SWrapper{SharedSecret: make([]byte, 32), RegistrationPayload: &pb.ClientToStation{Transport: pb.TransportType_Prefix.Enum()},
		RegistrationResponse: &pb.RegistrationResponse{DstPort: port0}}
	if cpID != nil || cpRand != nil {
		a, e := anypb.New(&pb.PrefixTransportParams{PrefixId: cpID, RandomizeDstPort: cpRand})
		if e != nil {
			panic(e)
		}
		reg.RegistrationPayload.TransportParams = a
	}
	respS := ""
	func() {
		defer func() {
			if r := recover(); r != nil {
				respS = "E"
				sink.OracleFail("C12:override-selection-panics", fmt.Sprintf("PrefixOverride.Override panicked: %v", r), replay)
			}
		}()
		if e := po.Override(reg, bytes.NewReader(stream)); e != nil {
			respS = "E"
			return
		}
		var m *pb.PrefixTransportParams
		respS, m = c12pResp(reg.RegistrationResponse)
		sink.Checked()
		if m != nil && (m.PrefixId != nil || len(m.Prefix) > 0) {
			// the response carries overridden parameters: they are a line of the file
			ok := false
			for _, l := range eff {
				if l.max > 0 && l.bar > 0 && m.PrefixId != nil && int32(l.id) == *m.PrefixId && l.prefix == string(m.Prefix) {
					ok = true
				}
			}
			if !ok {
				sink.OracleFail("C12:override-not-from-file", "the response's parameters are not a line of the file with max > 0 and bar > 0: "+respS, replay)
			}
			if cpRand != nil && (m.RandomizeDstPort == nil || *m.RandomizeDstPort != *cpRand) {
				sink.OracleFail("C12:override-drops-client-parameter", "the client's randomize_dst_port is not kept by the override: "+respS, replay)
			}
		}
	}()
	sink.Case(line, fmt.Sprintf("n=%d;sel=%s;rest=%d;resp=%s", len(*po.prefixes), selS, rest, respS), selS != "-")
}

func TestVerifC12Pfx(t *testing.T) {
	sink := vlib.Open("C12pfx")
	defer sink.Close()
	mk := func(max, bar, id, port int64, pre string) c12pLine {
		return c12pLine{gen: true, max: max, bar: bar, id: id, port: port, prefix: pre,
			text: fmt.Sprintf("%d %d %d %d %s", max, bar, id, port, pre)}
	}
	u32 := func(v uint32) *uint32 { return &v }
	i32 := func(v int32) *int32 { return &v }
	bl := func(v bool) *bool { return &v }
	// corpus: the repository's own test table, the shipped shapes, and the corners of rand.Int
	corpus := []struct {
		lines  []c12pLine
		stream string
	}{
		{[]c12pLine{mk(1000, 10, 0x21, 80, "HTT")}, "000000"},
		{[]c12pLine{mk(1000, 10, 0x21, 80, "HTT")}, "03e7"}, // 999: the last value below max
		{[]c12pLine{mk(1000, 10, 0x21, 80, "HTT")}, "03e8000a"}, // 1000 rejected, 10 = bar: not below
		{[]c12pLine{mk(1000, 10, 0x21, 80, "HTT")}, "ffff0009"}, // masked to 0x3ff = 1023 rejected, then 9
		{[]c12pLine{mk(1000, 10, 0x21, 80, "HTT")}, "00"},       // short read
		{[]c12pLine{mk(1000, 10, 0x21, 80, "HTT")}, ""},
		{[]c12pLine{mk(1, 1, 0x22, -1, "Foo")}, ""},
		{[]c12pLine{mk(1, 3, 0x22, -1, "Foo")}, ""},
		{[]c12pLine{mk(1, 0, 0x22, -1, "Foo")}, "00"},
		{[]c12pLine{mk(0, 0, 0x21, 80, "HTT"), mk(1000, 10, 0x22, 22, "SSH")}, "000000"},
		{[]c12pLine{mk(1000, 10, 0x21, 80, "HTT"), mk(1000, 10, 0x22, 22, "SSH")}, "000000"},
		{[]c12pLine{mk(1000, 10, 0x21, 80, "HTT"), mk(1000, 10, 0x22, 22, "SSH")}, "01000000"},
		{[]c12pLine{mk(1000, 10, 0x21, 80, "HTT"), mk(1000, 10, 0x22, 22, "SSH")}, "ff0000"}, // index byte masked to 1 bit
		{[]c12pLine{mk(256, 1, 1, 80, "A"), mk(257, 1, 2, 80, "B"), mk(255, 254, 3, 80, "C")}, "0200fe00fd"},
		{[]c12pLine{mk(10, 10, 1<<31+5, 1234, "HELLO")}, ""},
		{[]c12pLine{{text: "abc def 1 2 P"}, mk(10, 10, 77, 1234, "HELLO")}, ""}, // zero/zero before the errors
		{[]c12pLine{{text: "abc 1 1 2 P"}}, ""},
		{[]c12pLine{{text: "   "}}, ""},
		{[]c12pLine{{text: "# c"}, {text: ""}, mk(3, 2, 5, 0, "x")}, "0302"},
	}
	for _, c := range corpus {
		st, _ := hex.DecodeString(c.stream)
		c12pCase(sink, c.lines, st, nil, nil, nil, false)
		c12pCase(sink, c.lines, st, i32(3), bl(true), u32(443), true)
		c12pCase(sink, c.lines, st, nil, bl(false), u32(8080), true)
	}
	// every reader of one and two bytes against small max values: the rejection loop exhaustively
	for _, max := range []int64{2, 3, 5, 8, 9, 128, 129, 200, 255, 256} {
		for b0 := 0; b0 < 256; b0 += 5 {
			c12pCase(sink, []c12pLine{mk(max, max/2+1, 9, 80, "EX")}, []byte{byte(b0), byte(255 - b0), 1}, nil, nil, nil, true)
		}
	}
	N := vlib.Budget(4000, 60000)
	for i := 0; i < N; i++ {
		r := vlib.NewRand(fmt.Sprintf("C12/pfxov/%d", i))
		n := r.Intn(5)
		if r.Chance(1, 3) {
			n = 1
		}
		lines := make([]c12pLine, n)
		for j := range lines {
			lines[j] = c12pGenLine(r, sink)
			if r.Chance(3, 4) && !lines[j].gen {
				// mostly valid files: replace most irregular lines by harmless ones
				lines[j] = c12pLine{text: []string{"", "# comment"}[r.Intn(2)]}
			}
		}
		var stream []byte
		switch r.Intn(4) {
		case 0:
			stream = make([]byte, r.Intn(6))
		case 1:
			stream = r.Bytes(r.Intn(3))
		default:
			stream = r.Bytes(r.Range(2, 12))
			if r.Bool() {
				stream[0] &= 3
			}
		}
		var cpID *int32
		var cpRand *bool
		var port0 *uint32
		if r.Bool() {
			cpID = i32(int32(r.Intn(30)))
		}
		if r.Chance(1, 3) {
			cpRand = bl(r.Bool())
		}
		if r.Bool() {
			port0 = u32([]uint32{0, 443, 8443, 51000}[r.Intn(4)])
		}
		sink.Count(fmt.Sprintf("pfx-lines:%d", n))
		sink.Count(fmt.Sprintf("pfx-reader-bytes:%d", len(stream)))
		c12pCase(sink, lines, stream, cpID, cpRand, port0, r.Bool())
	}
}
