//go:build verif

package dnsregserver

// C12 at the DNS entry point: the real DNSRegServer.processRequest in front of a real RegProcessor
// (built by the real constructor; capturing sender, recording selector).  The BidirectionalResponse of
// the DnsResponse the client receives must be the response inside the message published to the stations.
// Oracle only (no model line).

import (
	"bufio"
	"fmt"
	"io"
	"os"
	"testing"

	"github.com/refraction-networking/conjure/internal/vlib"
	"github.com/refraction-networking/conjure/pkg/regserver/regprocessor"
	pb "github.com/refraction-networking/conjure/proto"
	log "github.com/sirupsen/logrus"
	"google.golang.org/protobuf/proto"
)

func c12dnsOne(s *DNSRegServer, i int) (fails [][2]string, desc string) {
	e := regprocessor.VerifC12EntryCase("C12dns", i, pb.RegistrationSource_BidirectionalDNS)
	body, _ := proto.Marshal(e.Req)
	s.processor = e.Proc
	ans, err := s.processRequest(body)
	if err != nil {
		return nil, "error " + e.Desc
	}
	d := &pb.DnsResponse{}
	if err := proto.Unmarshal(ans, d); err != nil {
		return [][2]string{{"C12:client-view-differs-from-forwarded", "the DNS answer does not decode: " + err.Error()}}, "undecodable " + e.Desc
	}
	if !d.GetSuccess() {
		if d.BidirectionalResponse != nil && len(e.Snd.Got) > 0 {
			fails = append(fails, [2]string{"C12:client-view-differs-from-forwarded", "a failed DNS registration carries a response and was published"})
		}
		return fails, "failed " + e.Desc
	}
	if d.BidirectionalResponse == nil {
		return [][2]string{{"C12:client-view-differs-from-forwarded", "a successful bidirectional DNS registration carries no response"}}, "ok " + e.Desc
	}
	// the DNS server does not replace the generation
	return e.Check(d.BidirectionalResponse, e.ClientGen), "ok " + e.Desc
}

func TestVerifC12DNS(t *testing.T) {
	m, cleanup := regprocessor.VerifC12EntrySetup()
	defer cleanup()
	out := vlib.Open("C12dns")
	defer out.Close()
	lg := log.New()
	lg.SetOutput(io.Discard)
	s := &DNSRegServer{latestCCGen: 3, logger: lg, metrics: m}
	only := map[int]bool{}
	if rp := vlib.Replay(); rp != "" {
		f, err := os.Open(rp)
		if err != nil {
			t.Fatal(err)
		}
		defer f.Close()
		scn := bufio.NewScanner(f)
		scn.Buffer(make([]byte, 1<<20), 1<<20)
		for scn.Scan() {
			var seed int64
			var n int
			if k, _ := fmt.Sscanf(scn.Text(), "c12dns|seed=%d|n=%d|", &seed, &n); k == 2 {
				os.Setenv("VERIF_SEED", fmt.Sprint(seed))
				only[n] = true
			}
		}
		if len(only) == 0 {
			return
		}
	}
	N := vlib.Budget(3000, 40000)
	for i := 0; i < N; i++ {
		if len(only) > 0 && !only[i] {
			continue
		}
		fails, desc := c12dnsOne(s, i)
		out.Checked()
		var first string
		fmt.Sscanf(desc, "%s", &first)
		out.Count("dns:" + first)
		if len(only) > 0 {
			fmt.Printf("replay dns #%d: %s\n", i, desc)
		}
		for _, f := range fails {
			if len(only) > 0 {
				fmt.Printf("  ORACLE %s: %s\n", f[0], f[1])
			}
			out.OracleFail(f[0], "DNS: "+f[1], fmt.Sprintf("c12dns|seed=%d|n=%d|%s", vlib.Seed(), i, desc))
		}
	}
}
