//go:build verif

package regprocessor

// Tie 1 for C12: extracts, from the source text of RegProcessor.processC2SWrapper (go/ast, standard
// library only), how the wrapper that is forwarded to the stations is put together, and writes it as a
// Lean value (CJ/Gen/C12Wrapper.lean, `CJ.Gen.c12Wrapper : CJ.Registrar.WrapperFacts`):
//
//   - the expression the wrapper variable starts from: an (almost) empty composite literal
//     `&pb.C2SWrapper{…}` / `new(pb.C2SWrapper)` (with the keyed fields), or anything else
//     (`proto.Clone(c2sPayload)`, the client's wrapper itself, …) printed as text;
//   - every assignment `wrapper.F = e`: the field, whether it is lexically guarded, and the fields of
//     the CLIENT's wrapper (first parameter) that `e` is computed from, followed through local variables;
//   - the fields assigned on every path that reaches the final proto.Marshal;
//   - every other use of the wrapper variable (passed to a function, re-assigned, aliased, method calls
//     other than getters).
//
// What the walker cannot classify makes the extraction fail rather than guess.

import (
	"bytes"
	"fmt"
	"go/ast"
	"go/parser"
	"go/printer"
	"go/token"
	"os"
	"path/filepath"
	"sort"
	"strings"
	"testing"
)

const (
	wfRecv   = "RegProcessor"
	wfMethod = "processC2SWrapper"
	wfType   = "C2SWrapper"
)

var wfFields = map[string]string{
	"SharedSecret":         ".sharedSecret",
	"RegistrationPayload":  ".registrationPayload",
	"RegistrationSource":   ".registrationSource",
	"RegistrationAddress":  ".registrationAddress",
	"DecoyAddress":         ".decoyAddress",
	"RegistrationResponse": ".registrationResponse",
	"RegRespBytes":         ".regRespBytes",
	"RegRespSignature":     ".regRespSignature",
}

var wfAllFields = []string{"SharedSecret", "RegistrationPayload", "RegistrationSource", "RegistrationAddress", "DecoyAddress",
	"RegistrationResponse", "RegRespBytes", "RegRespSignature"}

func wfLeanField(name string) string {
	if l, ok := wfFields[name]; ok {
		return l
	}
	return fmt.Sprintf("(.other %q)", name)
}

func wfLeanFields(names []string) string {
	var p []string
	for _, n := range names {
		p = append(p, wfLeanField(n))
	}
	return "[" + strings.Join(p, ", ") + "]"
}

type wfAssign struct {
	field   string
	guarded bool
	reads   []string
}

type wfEx struct {
	fset    *token.FileSet
	client  string // name of the parameter holding the client's wrapper
	wrapper string // name of the variable that is marshalled
	taint   map[string]map[string]bool
	errs    []string
}

func (x *wfEx) fail(n ast.Node, msg string) {
	x.errs = append(x.errs, fmt.Sprintf("%s: %s", x.fset.Position(n.Pos()), msg))
}

func (x *wfEx) text(n ast.Node) string {
	var b bytes.Buffer
	_ = printer.Fprint(&b, x.fset, n)
	return strings.Join(strings.Fields(b.String()), " ")
}

// reads: the fields of the client's wrapper an expression depends on (directly or through tainted locals).
func (x *wfEx) reads(e ast.Node) map[string]bool {
	out := map[string]bool{}
	if e == nil {
		return out
	}
	skip := map[*ast.Ident]bool{}
	ast.Inspect(e, func(n ast.Node) bool {
		switch v := n.(type) {
		case *ast.SelectorExpr:
			if id, ok := v.X.(*ast.Ident); ok && id.Name == x.client {
				skip[id] = true
				name := v.Sel.Name
				if strings.HasPrefix(name, "Get") && len(name) > 3 {
					name = name[3:]
				}
				known := false
				for _, f := range wfAllFields {
					if f == name {
						known = true
					}
				}
				if known {
					out[name] = true
				} else {
					// a method of the message other than a field getter (ProtoReflect, String, …): everything
					for _, f := range wfAllFields {
						out[f] = true
					}
				}
			}
		case *ast.Ident:
			if skip[v] {
				return true
			}
			if v.Name == x.client {
				// the whole client wrapper flows into the expression
				for _, f := range wfAllFields {
					out[f] = true
				}
			}
			for f := range x.taint[v.Name] {
				out[f] = true
			}
		}
		return true
	})
	return out
}

func wfSorted(m map[string]bool) []string {
	var l []string
	for _, f := range wfAllFields {
		if m[f] {
			l = append(l, f)
		}
	}
	var rest []string
	for f := range m {
		known := false
		for _, g := range wfAllFields {
			if f == g {
				known = true
			}
		}
		if !known {
			rest = append(rest, f)
		}
	}
	sort.Strings(rest)
	return append(l, rest...)
}

// always: the wrapper fields assigned on every path through the statement list that does not return.
func (x *wfEx) always(stmts []ast.Stmt) map[string]bool {
	out := map[string]bool{}
	for _, s := range stmts {
		switch v := s.(type) {
		case *ast.AssignStmt:
			for _, l := range v.Lhs {
				if f, ok := x.wrapperField(l); ok {
					out[f] = true
				}
			}
		case *ast.BlockStmt:
			for f := range x.always(v.List) {
				out[f] = true
			}
		case *ast.IfStmt:
			if v.Else == nil {
				continue
			}
			a := x.always(v.Body.List)
			var b map[string]bool
			switch e := v.Else.(type) {
			case *ast.BlockStmt:
				b = x.always(e.List)
			case *ast.IfStmt:
				b = x.always([]ast.Stmt{e})
			}
			for f := range a {
				if b[f] {
					out[f] = true
				}
			}
		}
	}
	return out
}

func (x *wfEx) wrapperField(e ast.Expr) (string, bool) {
	if se, ok := e.(*ast.SelectorExpr); ok {
		if id, ok := se.X.(*ast.Ident); ok && id.Name == x.wrapper {
			return se.Sel.Name, true
		}
	}
	return "", false
}

type wfFacts struct {
	baseFresh bool
	baseKeys  []string
	baseExpr  string
	assigns   []wfAssign
	always    []string
	other     []string
}

func wfExtract(dir string) (*wfFacts, []string) {
	fset := token.NewFileSet()
	pkgs, err := parser.ParseDir(fset, dir, func(fi os.FileInfo) bool {
		return !strings.HasSuffix(fi.Name(), "_test.go") && !strings.HasPrefix(fi.Name(), "zz_verif")
	}, 0)
	if err != nil {
		return nil, []string{err.Error()}
	}
	var fn *ast.FuncDecl
	for _, p := range pkgs {
		for _, f := range p.Files {
			for _, d := range f.Decls {
				fd, ok := d.(*ast.FuncDecl)
				if !ok || fd.Recv == nil || fd.Name.Name != wfMethod || len(fd.Recv.List) != 1 {
					continue
				}
				t := fd.Recv.List[0].Type
				if st, ok := t.(*ast.StarExpr); ok {
					t = st.X
				}
				if id, ok := t.(*ast.Ident); ok && id.Name == wfRecv {
					if fn != nil {
						return nil, []string{"two declarations of " + wfMethod}
					}
					fn = fd
				}
			}
		}
	}
	if fn == nil || fn.Body == nil {
		return nil, []string{"method " + wfRecv + "." + wfMethod + " not found"}
	}
	x := &wfEx{fset: fset, taint: map[string]map[string]bool{}}
	// the client's wrapper: the (only) parameter of type *pb.C2SWrapper
	for _, p := range fn.Type.Params.List {
		t := p.Type
		if st, ok := t.(*ast.StarExpr); ok {
			t = st.X
		}
		if se, ok := t.(*ast.SelectorExpr); ok && se.Sel.Name == wfType {
			if len(p.Names) != 1 || x.client != "" {
				x.fail(p, "expected exactly one parameter of type *pb."+wfType)
				continue
			}
			x.client = p.Names[0].Name
		}
	}
	if x.client == "" {
		x.fail(fn, "no parameter of type *pb."+wfType)
		return nil, x.errs
	}
	// the marshalled variable: every return whose first result is not nil must be `proto.Marshal(<ident>)`
	var marshalArgs []*ast.Ident
	ast.Inspect(fn.Body, func(n ast.Node) bool {
		if _, ok := n.(*ast.FuncLit); ok {
			x.fail(n, "function literal inside "+wfMethod+": not handled")
			return false
		}
		rs, ok := n.(*ast.ReturnStmt)
		if !ok || len(rs.Results) == 0 {
			return true
		}
		if id, ok := rs.Results[0].(*ast.Ident); ok && id.Name == "nil" {
			return true
		}
		call, ok := rs.Results[0].(*ast.CallExpr)
		if ok && len(rs.Results) == 1 && len(call.Args) == 1 {
			if se, ok := call.Fun.(*ast.SelectorExpr); ok && se.Sel.Name == "Marshal" {
				if id, ok := call.Args[0].(*ast.Ident); ok {
					marshalArgs = append(marshalArgs, id)
					if x.wrapper != "" && x.wrapper != id.Name {
						x.fail(rs, "two different variables are marshalled and returned")
					}
					x.wrapper = id.Name
					return true
				}
			}
		}
		x.fail(rs, "a return that yields bytes is not `return proto.Marshal(<variable>)`: "+x.text(rs))
		return true
	})
	if x.wrapper == "" {
		x.fail(fn, "no `return proto.Marshal(<variable>)` found")
		return nil, x.errs
	}
	if x.wrapper == x.client {
		// the client's message itself is forwarded
		return &wfFacts{baseExpr: x.client, always: nil}, x.errs
	}

	// taint of local variables: iterate the assignments to a fixpoint (flow-insensitive, conservative)
	for changed := true; changed; {
		changed = false
		ast.Inspect(fn.Body, func(n ast.Node) bool {
			add := func(name string, set map[string]bool) {
				if name == "_" || name == x.wrapper {
					return
				}
				if x.taint[name] == nil {
					x.taint[name] = map[string]bool{}
				}
				for f := range set {
					if !x.taint[name][f] {
						x.taint[name][f] = true
						changed = true
					}
				}
			}
			switch v := n.(type) {
			case *ast.AssignStmt:
				all := map[string]bool{}
				for _, r := range v.Rhs {
					for f := range x.reads(r) {
						all[f] = true
					}
				}
				for _, l := range v.Lhs {
					if id, ok := l.(*ast.Ident); ok {
						add(id.Name, all)
					}
				}
			case *ast.ValueSpec:
				all := map[string]bool{}
				for _, r := range v.Values {
					for f := range x.reads(r) {
						all[f] = true
					}
				}
				for _, id := range v.Names {
					add(id.Name, all)
				}
			case *ast.RangeStmt:
				all := x.reads(v.X)
				for _, e := range []ast.Expr{v.Key, v.Value} {
					if id, ok := e.(*ast.Ident); ok {
						add(id.Name, all)
					}
				}
			}
			return true
		})
	}

	facts := &wfFacts{}
	// definition, assignments and other uses of the wrapper variable
	accounted := map[*ast.Ident]bool{}
	for _, id := range marshalArgs {
		accounted[id] = true
	}
	defined := false
	var walk func(n ast.Node, guarded bool)
	walkList := func(l []ast.Stmt, guarded bool) {
		for _, s := range l {
			walk(s, guarded)
		}
	}
	walk = func(n ast.Node, guarded bool) {
		switch v := n.(type) {
		case nil:
			return
		case *ast.BlockStmt:
			walkList(v.List, guarded)
		case *ast.IfStmt:
			walk(v.Init, true)
			x.scanExpr(v.Cond, accounted, facts)
			walk(v.Body, true)
			walk(v.Else, true)
		case *ast.ForStmt:
			walk(v.Init, true)
			x.scanExpr(v.Cond, accounted, facts)
			walk(v.Post, true)
			walk(v.Body, true)
		case *ast.RangeStmt:
			x.scanExpr(v.X, accounted, facts)
			walk(v.Body, true)
		case *ast.SwitchStmt:
			walk(v.Init, true)
			x.scanExpr(v.Tag, accounted, facts)
			walk(v.Body, true)
		case *ast.TypeSwitchStmt:
			walk(v.Init, true)
			walk(v.Assign, true)
			walk(v.Body, true)
		case *ast.CaseClause:
			for _, e := range v.List {
				x.scanExpr(e, accounted, facts)
			}
			walkList(v.Body, true)
		case *ast.LabeledStmt:
			walk(v.Stmt, guarded)
		case *ast.AssignStmt:
			for i, l := range v.Lhs {
				if id, ok := l.(*ast.Ident); ok && id.Name == x.wrapper {
					accounted[id] = true
					if v.Tok == token.DEFINE && !defined && !guarded && len(v.Lhs) == len(v.Rhs) {
						defined = true
						x.base(v.Rhs[i], facts)
						continue
					}
					facts.other = append(facts.other, "re-assigned: "+x.text(v))
					continue
				}
				if f, ok := x.wrapperField(l); ok {
					accounted[l.(*ast.SelectorExpr).X.(*ast.Ident)] = true
					var rhs ast.Node
					if len(v.Lhs) == len(v.Rhs) {
						rhs = v.Rhs[i]
					} else if len(v.Rhs) == 1 {
						rhs = v.Rhs[0]
					}
					if v.Tok != token.ASSIGN {
						facts.other = append(facts.other, "compound assignment: "+x.text(v))
					}
					facts.assigns = append(facts.assigns, wfAssign{field: f, guarded: guarded, reads: wfSorted(x.reads(rhs))})
					continue
				}
				x.scanExpr(l, accounted, facts)
			}
			for _, r := range v.Rhs {
				x.scanExpr(r, accounted, facts)
			}
		case *ast.DeclStmt:
			gd, ok := v.Decl.(*ast.GenDecl)
			if !ok {
				return
			}
			for _, sp := range gd.Specs {
				vs, ok := sp.(*ast.ValueSpec)
				if !ok {
					continue
				}
				for i, id := range vs.Names {
					if id.Name == x.wrapper {
						accounted[id] = true
						if !defined && !guarded && len(vs.Values) == len(vs.Names) {
							defined = true
							x.base(vs.Values[i], facts)
						} else {
							x.fail(vs, "declaration of the wrapper variable without a value: not handled")
						}
					}
				}
				for _, e := range vs.Values {
					x.scanExpr(e, accounted, facts)
				}
			}
		case *ast.ExprStmt:
			x.scanExpr(v.X, accounted, facts)
		case *ast.ReturnStmt:
			for _, e := range v.Results {
				x.scanExpr(e, accounted, facts)
			}
		case *ast.DeferStmt:
			x.scanExpr(v.Call, accounted, facts)
		case *ast.GoStmt:
			x.scanExpr(v.Call, accounted, facts)
		case *ast.IncDecStmt:
			x.scanExpr(v.X, accounted, facts)
		case *ast.SendStmt:
			x.scanExpr(v.Chan, accounted, facts)
			x.scanExpr(v.Value, accounted, facts)
		case *ast.BranchStmt, *ast.EmptyStmt:
		default:
			x.fail(n, fmt.Sprintf("statement kind %T not handled", n))
		}
	}
	walk(fn.Body, false)
	if !defined {
		x.fail(fn, "no definition `"+x.wrapper+" := …` at the top level of "+wfMethod)
	}
	facts.always = wfSorted(x.always(fn.Body.List))
	sort.Strings(facts.other)
	return facts, x.errs
}

// base classifies the expression the wrapper variable starts from.
func (x *wfEx) base(e ast.Expr, facts *wfFacts) {
	isWrapperType := func(t ast.Expr) bool {
		se, ok := t.(*ast.SelectorExpr)
		return ok && se.Sel.Name == wfType
	}
	switch v := e.(type) {
	case *ast.UnaryExpr:
		if cl, ok := v.X.(*ast.CompositeLit); ok && v.Op == token.AND && isWrapperType(cl.Type) {
			facts.baseFresh = true
			for _, el := range cl.Elts {
				kv, ok := el.(*ast.KeyValueExpr)
				if !ok {
					facts.baseFresh = false
					break
				}
				k, ok := kv.Key.(*ast.Ident)
				if !ok {
					facts.baseFresh = false
					break
				}
				// a keyed field counts as "starts with the client's value" whatever its expression is
				facts.baseKeys = append(facts.baseKeys, k.Name)
			}
			if facts.baseFresh {
				return
			}
			facts.baseKeys = nil
		}
	case *ast.CallExpr:
		if id, ok := v.Fun.(*ast.Ident); ok && id.Name == "new" && len(v.Args) == 1 && isWrapperType(v.Args[0]) {
			facts.baseFresh = true
			return
		}
	}
	facts.baseExpr = x.text(e)
}

// scanExpr records uses of the wrapper variable inside an expression that are not plain field reads.
func (x *wfEx) scanExpr(e ast.Node, accounted map[*ast.Ident]bool, facts *wfFacts) {
	if e == nil {
		return
	}
	var parents []ast.Node
	ast.Inspect(e, func(n ast.Node) bool {
		if n == nil {
			parents = parents[:len(parents)-1]
			return true
		}
		defer func() { parents = append(parents, n) }()
		id, ok := n.(*ast.Ident)
		if !ok || id.Name != x.wrapper || accounted[id] {
			return true
		}
		accounted[id] = true
		if len(parents) > 0 {
			if se, ok := parents[len(parents)-1].(*ast.SelectorExpr); ok && se.X == id {
				// wrapper.Sel: a field read or a getter is harmless; `&wrapper.F` and other methods are not
				if len(parents) > 1 {
					switch p := parents[len(parents)-2].(type) {
					case *ast.CallExpr:
						if p.Fun == se && !strings.HasPrefix(se.Sel.Name, "Get") {
							facts.other = append(facts.other, "method call: "+x.text(p))
						}
						return true
					case *ast.UnaryExpr:
						if p.Op == token.AND {
							facts.other = append(facts.other, "address of a field: "+x.text(p))
						}
						return true
					}
				}
				return true
			}
			facts.other = append(facts.other, "used in: "+x.text(parents[len(parents)-1]))
			return true
		}
		facts.other = append(facts.other, "used: "+x.text(id))
		return true
	})
}

func wfLean(f *wfFacts) string {
	var b strings.Builder
	b.WriteString("import CJ.Model.Registrar\n")
	b.WriteString("/-! GENERATED on every run of `./check C12` by go/harness/C12/zz_verif_c12_gen_test.go from\n")
	b.WriteString("pkg/regserver/regprocessor/*.go (go/ast) — do not edit.  How `RegProcessor.processC2SWrapper` builds the\n")
	b.WriteString("wrapper it forwards: what the variable starts from, every assignment to one of its fields (field, lexically\n")
	b.WriteString("guarded?, fields of the client's wrapper the value is computed from), the fields assigned on every path,\n")
	b.WriteString("and every other use of the variable. -/\n")
	b.WriteString("namespace CJ.Gen\nopen CJ.Registrar\n\n")
	b.WriteString("def c12Wrapper : WrapperFacts :=\n")
	if f.baseFresh {
		b.WriteString("  { base := .fresh " + wfLeanFields(f.baseKeys) + ",\n")
	} else {
		b.WriteString(fmt.Sprintf("  { base := .derived %q,\n", f.baseExpr))
	}
	b.WriteString("    assigns := [")
	for i, a := range f.assigns {
		if i > 0 {
			b.WriteString(",")
		}
		g := "false"
		if a.guarded {
			g = "true"
		}
		b.WriteString(fmt.Sprintf("\n      ⟨%s, %s, %s⟩", wfLeanField(a.field), g, wfLeanFields(a.reads)))
	}
	b.WriteString("],\n")
	b.WriteString("    always := " + wfLeanFields(f.always) + ",\n")
	var o []string
	for _, s := range f.other {
		o = append(o, fmt.Sprintf("%q", s))
	}
	b.WriteString("    otherUses := [" + strings.Join(o, ", ") + "] }\n\n")
	b.WriteString("end CJ.Gen\n")
	return b.String()
}

func TestVerifC12Gen(t *testing.T) {
	facts, errs := wfExtract(".")
	if len(errs) > 0 || facts == nil {
		t.Fatalf("extraction of the wrapper facts failed:\n%s", strings.Join(errs, "\n"))
	}
	src := wfLean(facts)
	out := os.Getenv("VERIF_OUT")
	if out == "" {
		out = os.TempDir()
	}
	if err := os.WriteFile(filepath.Join(out, "C12Wrapper.lean"), []byte(src), 0o644); err != nil {
		t.Fatal(err)
	}
	t.Logf("\n%s", src)
}
