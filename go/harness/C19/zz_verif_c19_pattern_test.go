//go:build verif

package lib

// C19, pattern part: what RegConfig.ParseBlocklists / isBlocklistedCovertDomain do with a list of
// covert_blocklist_domains patterns, next to the Lean model (CJ.PatternList) in which the regular-expression engine
// is a parameter.  The harness plays the engine itself - regexp.Compile / MatchString called here, on the text of
// every entry *as written* and on every host *as given* - and puts its answers on the line:
//   pattern|<patterns>|<hosts>|<verdict per pattern o/e>|<per pattern: bit per host>
// the model answers what the code must do with them: err:<position of the first entry that does not compile> or
// ok:<refused? per host>; the real code's answer is taken from ParseBlocklists (the entry named in the error
// message) and isBlocklistedCovertDomain.
// Oracles (from the harness's own engine calls): a list all of whose entries compile must load; a list with an entry
// that does not compile must not; a host that an accepted entry as written matches must be refused.

import (
	"fmt"
	"regexp"
	"strings"

	"github.com/refraction-networking/conjure/internal/vlib"
)

// atoms a pattern is put together from: (class, text)
var c19PatAtoms = [][2]string{
	{"word", "localhost"}, {"word", "example"}, {"word", "com"}, {"word", "onion"}, {"word", "tor"}, {"word", "a1"}, {"word", "x-y"},
	{"Word", "Example"}, {"Word", "LOCALHOST"}, {"Word", "LocalHost"}, {"Word", "COM"},
	{"anchor", `\A`}, {"anchor", `\z`}, {"anchor", "^"}, {"anchor", "$"}, {"anchor", `\b`}, {"anchor", `\B`},
	{"class", `\S`}, {"class", `\s`}, {"class", `\D`}, {"class", `\d`}, {"class", `\W`}, {"class", `\w`},
	{"uni", `\pL`}, {"uni", `\PL`}, {"uni", `\p{Lu}`}, {"uni", `\P{Lu}`}, {"uni", `\p{Greek}`}, {"uni", `\pN`}, {"uni", `\PN`},
	{"set", "[A-Z]"}, {"set", "[a-z]+"}, {"set", "[^A-Z]"}, {"set", "[[:upper:]]"}, {"set", "[[:lower:]]+"}, {"set", "[0-9]+"},
	{"dot", "."}, {"dot", ".*"}, {"dot", `\.`}, {"dot", ".+"},
	{"flag", "(?i)"}, {"flag", "(?i:local)"}, {"flag", "(?s)"}, {"flag", "(?U)"},
	{"esc", `\x41`}, {"esc", `\x61`}, {"esc", `\Qa.B\E`}, {"esc", `\a`}, {"esc", `\t`}, {"esc", `\x{212A}`},
	{"rep", "?"}, {"rep", "*"}, {"rep", "{2}"}, {"rep", "|"},
	{"fold", "K"}, {"fold", "K"}, {"fold", "İ"}, {"fold", "ſ"}, {"fold", "ß"}, {"fold", "Σ"},
	{"empty", ""}, {"space", " "}, {"space", "\t"}, {"space", "\u00a0"},
}

// entries the engine refuses as written (some of them would compile in another letter case, or the other way round)
var c19PatBad = []string{"(", ")", "[a", "a{2,1}", "(?=x)", "a{2000}", `\8`, "*", "a**", `\p{Foo}`, "(?P<n>", `\`, "[z-a]", "(?z)", `\c`,
	`localhost\Z`, `\pl`, `\p{lu}`, `\G`, `\Q\E\`, `\P{GREEK}`, "x{1001}", "(?I)", `\X`, "[[:UPPER:]]"}

var c19PatHosts = []string{"localhost", "LocalHost", "LOCALHOST", "example.com", "Example.COM", "a1.example", "", " ", "\alocalhost", "tor.onion",
	"xn--e1afmkfd.xn--p1ai", "K", "k", "K", "İstanbul", "istanbul", "x y", "1234", "ABC", "abc", "localhost.", "notlocalhost.example", "a\nb", "a.B", "A.b", "σ", "ς", "ss", "s", "\t"}

func c19PatPattern(r *vlib.Rand, out *vlib.Out) string {
	var sb strings.Builder
	for i, n := 0, 1+r.Intn(3); i < n; i++ {
		a := c19PatAtoms[r.Intn(len(c19PatAtoms))]
		out.Count("pattern-atom:" + a[0])
		sb.WriteString(a[1])
	}
	return sb.String()
}

func c19PatMutate(r *vlib.Rand, p string) string {
	rs := []rune(p)
	meta := []rune(`\()[]{}*+?|^$.AaZzSsPpQE-,12:`)
	m := meta[r.Intn(len(meta))]
	if len(rs) == 0 {
		return string(m)
	}
	i := r.Intn(len(rs))
	switch r.Intn(3) {
	case 0:
		return string(rs[:i]) + string(rs[i+1:])
	case 1:
		return string(rs[:i]) + string(m) + string(rs[i:])
	default:
		rs[i] = m
		return string(rs)
	}
}

// the case: the real code and the model on the same list and hosts
func c19PatCase(out *vlib.Out, pats, hosts []string) {
	replay := fmt.Sprintf("c19pat|%s|%s", c19TextItems(pats), c19TextItems(hosts))
	// the engine, as the harness calls it: on the text as written, on the host as given
	var verdicts strings.Builder
	var rows []string
	own := make([]*regexp.Regexp, len(pats))
	firstBad := -1
	for i, p := range pats {
		re, err := regexp.Compile(p)
		own[i] = re
		row := make([]byte, len(hosts))
		for j, h := range hosts {
			row[j] = '0'
			if err == nil && re.MatchString(h) {
				row[j] = '1'
			}
		}
		rows = append(rows, string(row))
		if err != nil {
			verdicts.WriteString("e")
			if firstBad < 0 {
				firstBad = i
			}
		} else {
			verdicts.WriteString("o")
		}
	}
	v, m := verdicts.String(), strings.Join(rows, "/")
	if len(pats) == 0 {
		v, m = "-", "-"
	}
	line := fmt.Sprintf("pattern|%s|%s|%s|%s", c19TextItems(pats), c19TextItems(hosts), v, m)

	rc := &RegConfig{CovertBlocklistDomains: append([]string(nil), pats...)}
	var err error
	panicked := ""
	func() {
		defer func() {
			if r := recover(); r != nil {
				panicked = fmt.Sprint(r)
			}
		}()
		err = rc.ParseBlocklists()
	}()
	out.Checked()
	if panicked != "" {
		out.OracleFail("C19:load-panic", fmt.Sprintf("ParseBlocklists panicked (%s) on covert_blocklist_domains %q", panicked, pats), replay)
		out.Case(line, "panic", true)
		return
	}
	if err != nil {
		out.Count("pattern-load:err")
		named := "?"
		for i, p := range pats {
			if strings.HasPrefix(err.Error(), fmt.Sprintf("covert_blocklist_domains: bad entry %q: ", p)) {
				named = fmt.Sprint(i)
				break
			}
		}
		out.Case(line, "err:"+named, true)
		if firstBad < 0 {
			out.OracleFail("C19:valid-config-rejected", fmt.Sprintf("every covert_blocklist_domains entry of %q compiles as written, but the load failed: %v", pats, err), replay)
		}
		return
	}
	out.Count("pattern-load:ok")
	if firstBad >= 0 {
		out.OracleFail("C19:unparsable-entry-accepted", fmt.Sprintf("covert_blocklist_domains entry %q does not compile, but the list %q was loaded without error", pats[firstBad], pats), replay)
	}
	var dec strings.Builder
	for j, h := range hosts {
		b := false
		func() {
			defer func() {
				if r := recover(); r != nil {
					panicked = fmt.Sprint(r)
				}
			}()
			b = rc.isBlocklistedCovertDomain(h)
		}()
		dec.WriteString(vlib.B(b))
		out.Checked()
		if b {
			out.Count("pattern-host:refused")
		} else {
			out.Count("pattern-host:passes")
		}
		for i := range pats {
			if own[i] != nil && rows[i][j] == '1' && !b {
				out.OracleFail("C19:entry-not-enforced", fmt.Sprintf("covert_blocklist_domains entry %q matches the host %q, the list %q was accepted, and the host is not refused", pats[i], h, pats), replay)
				break
			}
		}
	}
	if panicked != "" {
		out.OracleFail("C19:housekeeping-panic", fmt.Sprintf("isBlocklistedCovertDomain panicked (%s) with covert_blocklist_domains %q", panicked, pats), replay)
	}
	out.Case(line, "ok:"+dec.String(), true)
}

func c19PatHostsFor(r *vlib.Rand, pats []string) []string {
	hosts := append([]string(nil), c19PatHosts...)
	for _, p := range pats {
		// the pattern text itself and its two case variants are hosts as well (a literal pattern matches itself)
		for _, h := range []string{p, strings.ToLower(p), strings.ToUpper(p)} {
			if r.Chance(1, 2) {
				hosts = append(hosts, h)
			}
		}
	}
	return hosts
}

func c19PatternPart(out *vlib.Out, r *vlib.Rand) {
	// corpus: every atom and every bad entry alone, then next to a good neighbour before / after it
	var corpus []string
	for _, a := range c19PatAtoms {
		corpus = append(corpus, a[1])
	}
	corpus = append(corpus, c19PatBad...)
	corpus = append(corpus, `\Alocalhost\z`, `^[^.]+\.onion$`, `(?i)^localhost$`, `\S+\.example\.com`, `^\D+$`, `\PLocal`, `[[:^alpha:]]`)
	for _, c := range corpus {
		c19PatCase(out, []string{c}, c19PatHostsFor(r, []string{c}))
		c19PatCase(out, []string{`^tor\.onion$`, c}, c19PatHosts)
		c19PatCase(out, []string{c, `^tor\.onion$`, c}, c19PatHosts)
		out.Count("pattern-corpus")
	}
	c19PatCase(out, nil, c19PatHosts)
	for i, n := 0, vlib.Budget(1500, 40000); i < n; i++ {
		var pats []string
		for j, k := 0, r.Intn(5); j < k; j++ {
			switch {
			case r.Chance(1, 8):
				pats = append(pats, c19PatBad[r.Intn(len(c19PatBad))])
				out.Count("pattern-entry:bad")
			case r.Chance(1, 6):
				pats = append(pats, c19PatMutate(r, c19PatPattern(r, out)))
				out.Count("pattern-entry:mutated")
			case len(pats) > 0 && r.Chance(1, 8):
				p := pats[r.Intn(len(pats))]
				switch r.Intn(3) {
				case 0:
					p = strings.ToLower(p)
				case 1:
					p = strings.ToUpper(p)
				}
				pats = append(pats, p)
				out.Count("pattern-entry:variant-of-earlier")
			default:
				pats = append(pats, c19PatPattern(r, out))
				out.Count("pattern-entry:built")
			}
		}
		c19PatCase(out, pats, c19PatHostsFor(r, pats))
	}
}
