//go:build verif

package liveness

// Extractor for C19 (tie 1): the nil tests that protect the optional caches of CachedLivenessTester.
// For every method of *CachedLivenessTester, every method call through a field of interface type
// `cache` (ipCacheLive / ipCacheNonLive: nil when the cache is not configured) is listed together
// with the fields that are known to be non-nil at that point of the program: the `x != nil`
// conditions of the enclosing if statements (also the left operands of `&&`), and `if x == nil
// { return }` guards earlier in the block.  Written as CJ/Gen/C19Guards.lean; the theorem
// CJ.Props.C19.every_cache_call_guarded is stated about the table.

import (
	"fmt"
	"go/ast"
	"go/parser"
	"go/token"
	"os"
	"path/filepath"
	"sort"
	"strings"
	"testing"
)

type c19gDeref struct {
	method string // the method of *CachedLivenessTester the call is in
	field  string
	call   string
	guards []string
}

type c19gCtx struct {
	recv     string
	optional map[string]bool
	method   string
	out      *[]c19gDeref
}

func c19gSet(m map[string]bool, add ...map[string]bool) map[string]bool {
	r := map[string]bool{}
	for k := range m {
		r[k] = true
	}
	for _, a := range add {
		for k := range a {
			r[k] = true
		}
	}
	return r
}

// field returns F when e is `recv.F` with F an optional cache field.
func (c *c19gCtx) field(e ast.Expr) (string, bool) {
	for {
		p, ok := e.(*ast.ParenExpr)
		if !ok {
			break
		}
		e = p.X
	}
	s, ok := e.(*ast.SelectorExpr)
	if !ok {
		return "", false
	}
	id, ok := s.X.(*ast.Ident)
	if !ok || id.Name != c.recv || !c.optional[s.Sel.Name] {
		return "", false
	}
	return s.Sel.Name, true
}

func c19gIsNil(e ast.Expr) bool {
	id, ok := e.(*ast.Ident)
	return ok && id.Name == "nil"
}

// nonNilIf returns the fields that are non-nil when cond evaluates to `val`.
func (c *c19gCtx) nonNilIf(cond ast.Expr, val bool) map[string]bool {
	r := map[string]bool{}
	switch x := cond.(type) {
	case *ast.ParenExpr:
		return c.nonNilIf(x.X, val)
	case *ast.UnaryExpr:
		if x.Op == token.NOT {
			return c.nonNilIf(x.X, !val)
		}
	case *ast.BinaryExpr:
		switch x.Op {
		case token.LAND:
			if val { // both operands are true
				return c19gSet(c.nonNilIf(x.X, true), c.nonNilIf(x.Y, true))
			}
		case token.LOR:
			if !val { // both operands are false
				return c19gSet(c.nonNilIf(x.X, false), c.nonNilIf(x.Y, false))
			}
		case token.NEQ, token.EQL:
			f, ok := c.field(x.X)
			other := x.Y
			if !ok {
				f, ok = c.field(x.Y)
				other = x.X
			}
			if ok && c19gIsNil(other) && (x.Op == token.NEQ) == val {
				r[f] = true
			}
		}
	}
	return r
}

func (c *c19gCtx) expr(e ast.Expr, g map[string]bool) {
	switch x := e.(type) {
	case nil:
	case *ast.BinaryExpr:
		c.expr(x.X, g)
		switch x.Op {
		case token.LAND:
			c.expr(x.Y, c19gSet(g, c.nonNilIf(x.X, true)))
		case token.LOR:
			c.expr(x.Y, c19gSet(g, c.nonNilIf(x.X, false)))
		default:
			c.expr(x.Y, g)
		}
	case *ast.CallExpr:
		if s, ok := x.Fun.(*ast.SelectorExpr); ok {
			if f, ok := c.field(s.X); ok {
				var gs []string
				for k := range g {
					gs = append(gs, k)
				}
				sort.Strings(gs)
				*c.out = append(*c.out, c19gDeref{c.method, f, s.Sel.Name, gs})
			}
		}
		c.expr(x.Fun, g)
		for _, a := range x.Args {
			c.expr(a, g)
		}
	case *ast.ParenExpr:
		c.expr(x.X, g)
	case *ast.UnaryExpr:
		c.expr(x.X, g)
	case *ast.StarExpr:
		c.expr(x.X, g)
	case *ast.SelectorExpr:
		c.expr(x.X, g)
	case *ast.IndexExpr:
		c.expr(x.X, g)
		c.expr(x.Index, g)
	case *ast.SliceExpr:
		c.expr(x.X, g)
		c.expr(x.Low, g)
		c.expr(x.High, g)
		c.expr(x.Max, g)
	case *ast.TypeAssertExpr:
		c.expr(x.X, g)
	case *ast.KeyValueExpr:
		c.expr(x.Key, g)
		c.expr(x.Value, g)
	case *ast.CompositeLit:
		for _, el := range x.Elts {
			c.expr(el, g)
		}
	case *ast.FuncLit:
		// a closure may run later, when nothing is known any more
		c.block(x.Body.List, map[string]bool{})
	}
}

func c19gTerminates(b *ast.BlockStmt) bool {
	if b == nil || len(b.List) == 0 {
		return false
	}
	switch x := b.List[len(b.List)-1].(type) {
	case *ast.ReturnStmt:
		return true
	case *ast.ExprStmt:
		if call, ok := x.X.(*ast.CallExpr); ok {
			if id, ok := call.Fun.(*ast.Ident); ok && id.Name == "panic" {
				return true
			}
		}
	}
	return false
}

// assigns reports whether the statement list writes one of the optional fields (then nothing is
// assumed about that field afterwards)
func (c *c19gCtx) assigned(n ast.Node) map[string]bool {
	r := map[string]bool{}
	ast.Inspect(n, func(m ast.Node) bool {
		if as, ok := m.(*ast.AssignStmt); ok {
			for _, l := range as.Lhs {
				if f, ok := c.field(l); ok {
					r[f] = true
				}
			}
		}
		return true
	})
	return r
}

func (c *c19gCtx) block(list []ast.Stmt, g map[string]bool) {
	g = c19gSet(g)
	for _, st := range list {
		c.stmt(st, g)
		// guards that outlive an if statement: `if x == nil { return }`
		if ifs, ok := st.(*ast.IfStmt); ok && ifs.Init == nil {
			if c19gTerminates(ifs.Body) && ifs.Else == nil {
				g = c19gSet(g, c.nonNilIf(ifs.Cond, false))
			}
		}
		for f := range c.assigned(st) {
			delete(g, f)
		}
	}
}

func (c *c19gCtx) stmt(st ast.Stmt, g map[string]bool) {
	switch x := st.(type) {
	case nil:
	case *ast.BlockStmt:
		c.block(x.List, g)
	case *ast.IfStmt:
		c.stmt(x.Init, g)
		c.expr(x.Cond, g)
		c.block(x.Body.List, c19gSet(g, c.nonNilIf(x.Cond, true)))
		if x.Else != nil {
			c.stmt(x.Else, c19gSet(g, c.nonNilIf(x.Cond, false)))
		}
	case *ast.ExprStmt:
		c.expr(x.X, g)
	case *ast.AssignStmt:
		for _, e := range x.Rhs {
			c.expr(e, g)
		}
		for _, e := range x.Lhs {
			c.expr(e, g)
		}
	case *ast.DeclStmt:
		if gd, ok := x.Decl.(*ast.GenDecl); ok {
			for _, sp := range gd.Specs {
				if vs, ok := sp.(*ast.ValueSpec); ok {
					for _, e := range vs.Values {
						c.expr(e, g)
					}
				}
			}
		}
	case *ast.ReturnStmt:
		for _, e := range x.Results {
			c.expr(e, g)
		}
	case *ast.IncDecStmt:
		c.expr(x.X, g)
	case *ast.SendStmt:
		c.expr(x.Chan, g)
		c.expr(x.Value, g)
	case *ast.DeferStmt:
		c.expr(x.Call, map[string]bool{})
	case *ast.GoStmt:
		c.expr(x.Call, map[string]bool{})
	case *ast.ForStmt:
		c.stmt(x.Init, g)
		c.expr(x.Cond, g)
		c.stmt(x.Post, g)
		c.block(x.Body.List, g)
	case *ast.RangeStmt:
		c.expr(x.X, g)
		c.block(x.Body.List, g)
	case *ast.SwitchStmt:
		c.stmt(x.Init, g)
		c.expr(x.Tag, g)
		for _, cc := range x.Body.List {
			if cl, ok := cc.(*ast.CaseClause); ok {
				for _, e := range cl.List {
					c.expr(e, g)
				}
				c.block(cl.Body, g)
			}
		}
	case *ast.TypeSwitchStmt:
		c.stmt(x.Init, g)
		c.stmt(x.Assign, g)
		for _, cc := range x.Body.List {
			if cl, ok := cc.(*ast.CaseClause); ok {
				c.block(cl.Body, g)
			}
		}
	case *ast.SelectStmt:
		for _, cc := range x.Body.List {
			if cl, ok := cc.(*ast.CommClause); ok {
				c.stmt(cl.Comm, g)
				c.block(cl.Body, g)
			}
		}
	case *ast.LabeledStmt:
		c.stmt(x.Stmt, g)
	}
}

func TestVerifC19Gen(t *testing.T) {
	fset := token.NewFileSet()
	pkgs, err := parser.ParseDir(fset, ".", func(fi os.FileInfo) bool { return !strings.HasSuffix(fi.Name(), "_test.go") }, 0)
	if err != nil {
		t.Fatal(err)
	}
	var files []*ast.File
	for _, p := range pkgs {
		var names []string
		for n := range p.Files {
			names = append(names, n)
		}
		sort.Strings(names)
		for _, n := range names {
			files = append(files, p.Files[n])
		}
	}
	const typ = "CachedLivenessTester"
	optional := map[string]bool{}
	for _, f := range files {
		ast.Inspect(f, func(n ast.Node) bool {
			ts, ok := n.(*ast.TypeSpec)
			if !ok || ts.Name.Name != typ {
				return true
			}
			if st, ok := ts.Type.(*ast.StructType); ok {
				for _, fl := range st.Fields.List {
					if id, ok := fl.Type.(*ast.Ident); ok && id.Name == "cache" {
						for _, n := range fl.Names {
							optional[n.Name] = true
						}
					}
				}
			}
			return false
		})
	}
	var derefs []c19gDeref
	var methods []string
	for _, f := range files {
		for _, d := range f.Decls {
			fd, ok := d.(*ast.FuncDecl)
			if !ok || fd.Recv == nil || len(fd.Recv.List) != 1 || fd.Body == nil {
				continue
			}
			rt := fd.Recv.List[0].Type
			if s, ok := rt.(*ast.StarExpr); ok {
				rt = s.X
			}
			if id, ok := rt.(*ast.Ident); !ok || id.Name != typ || len(fd.Recv.List[0].Names) != 1 {
				continue
			}
			methods = append(methods, fd.Name.Name)
			c := &c19gCtx{recv: fd.Recv.List[0].Names[0].Name, optional: optional, method: fd.Name.Name, out: &derefs}
			c.block(fd.Body.List, map[string]bool{})
		}
	}
	sort.SliceStable(derefs, func(i, j int) bool { return derefs[i].method < derefs[j].method })
	sort.Strings(methods)
	q := func(l []string) string {
		var o []string
		for _, s := range l {
			o = append(o, fmt.Sprintf("%q", s))
		}
		return "[" + strings.Join(o, ", ") + "]"
	}
	var opt []string
	for k := range optional {
		opt = append(opt, k)
	}
	sort.Strings(opt)
	var sb strings.Builder
	sb.WriteString("/-! GENERATED by /verif/go/harness/C19/zz_verif_c19_gen_test.go from pkg/station/liveness (methods of *CachedLivenessTester). Do not edit. -/\n")
	sb.WriteString("namespace CJ.Gen.C19Guards\n\n")
	sb.WriteString("/-- the fields of interface type `cache` (nil when that cache is not configured) -/\n")
	fmt.Fprintf(&sb, "def optionalFields : List String := %s\n", q(opt))
	sb.WriteString("/-- the methods of *CachedLivenessTester that were read -/\n")
	fmt.Fprintf(&sb, "def methods : List String := %s\n", q(methods))
	sb.WriteString("/-- every method call through an optional field: (enclosing method, field, called method, fields known to be non-nil there), per method in program order -/\n")
	sb.WriteString("def cacheCalls : List (String × String × String × List String) := [\n")
	for i, d := range derefs {
		sep := ","
		if i == len(derefs)-1 {
			sep = ""
		}
		fmt.Fprintf(&sb, "  (%q, %q, %q, %s)%s\n", d.method, d.field, d.call, q(d.guards), sep)
	}
	sb.WriteString("]\n\nend CJ.Gen.C19Guards\n")
	dir := os.Getenv("VERIF_OUT")
	if dir == "" {
		dir = os.TempDir()
	}
	if err := os.WriteFile(filepath.Join(dir, "C19Guards.lean"), []byte(sb.String()), 0o644); err != nil {
		t.Fatal(err)
	}
}
