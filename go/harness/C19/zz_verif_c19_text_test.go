//go:build verif

package lib

// C19, text part: RegConfig.ParseBlocklists on the text of its subnet entries, next to the Lean model that reads the
// same text (strings.TrimSpace + net.ParseCIDR + IPNet.Contains as modelled code: CJ.BlocklistText, CJ.NetAddr).
// Correspondence line  loadtext|<block>|<phantom>|<allow>|<probes>  (every item the hex of its UTF-8 text).
// Oracle, from the generator's own account of what it wrote (integers, never the code's parse):
//   - an entry built as <address>/<bits> from a base address and a prefix length, in any spelling and with any white
//     space around it, must be enforced: addresses made by integer arithmetic inside it are refused (blocklists) /
//     admitted (allowlist);
//   - a list containing an entry built to be no subnet (bare address, prefix length out of range, white space inside,
//     zone, empty) must make the load fail.

import (
	"fmt"
	"net"
	"strings"

	"github.com/refraction-networking/conjure/internal/vlib"
)

type c19TextEntry struct {
	text string
	kind string // good, bad, unknown
	net  *net.IPNet
}

var c19Spaces = []string{" ", "\t", "\n", "\r", "\v", "\f", "\u0085", "\u00a0", "\u1680", "\u2000", "\u2003", "\u200a", "\u2028", "\u2029", "\u202f", "\u205f", "\u3000"}

// characters that look like white space but are not (unicode.IsSpace says no): they must make the entry unparsable
var c19NotSpaces = []string{"\u200b", "\ufeff", "\x1c", "\x00", "\u180e", "\u2060"}

func c19TextHex(s string) string {
	if s == "" {
		return "."
	}
	return fmt.Sprintf("%x", s)
}

func c19TextItems(l []string) string {
	if len(l) == 0 {
		return "-"
	}
	var h []string
	for _, s := range l {
		h = append(h, c19TextHex(s))
	}
	return strings.Join(h, "/")
}

func c19SpaceRun(r *vlib.Rand, max int) string {
	var sb strings.Builder
	for i, n := 0, r.Intn(max+1); i < n; i++ {
		sb.WriteString(c19Spaces[r.Intn(len(c19Spaces))])
	}
	return sb.String()
}

// a well-formed entry from integers: base address, prefix length, one of several spellings, white space around it
func c19GoodEntry(r *vlib.Rand) c19TextEntry {
	var ip net.IP
	var bits, max int
	v6 := r.Chance(2, 5)
	if v6 {
		ip = make(net.IP, 16)
		copy(ip, r.Bytes(16))
		if r.Chance(1, 3) {
			copy(ip, []byte{0x20, 0x01, 0x0d, 0xb8})
		}
		if r.Chance(1, 4) { // a run of zero groups, so that "::" appears in different places
			z := r.Intn(12)
			for i := z; i < z+2+r.Intn(4) && i < 16; i++ {
				ip[i] = 0
			}
		}
		if ip.To4() != nil {
			ip[0] = 0x20
		}
		max = 128
	} else {
		ip = net.IP(r.Bytes(4))
		max = 32
	}
	switch r.Intn(6) {
	case 0:
		bits = 0
	case 1:
		bits = max
	case 2:
		bits = 8 * r.Intn(max/8+1)
	default:
		bits = r.Intn(max + 1)
	}
	mask := net.CIDRMask(bits, max)
	spelled := ip
	if r.Chance(1, 2) { // no host bits
		spelled = ip.Mask(mask)
	}
	text := ""
	e := c19TextEntry{kind: "good", net: &net.IPNet{IP: ip.Mask(mask), Mask: mask}}
	switch {
	case !v6 && r.Chance(1, 6): // IPv4-mapped spelling: the prefix length counts from the 128-bit address
		text = fmt.Sprintf("::ffff:%s/%d", spelled.String(), bits+96)
	case v6 && r.Chance(1, 5): // every group written out
		var g []string
		for i := 0; i < 16; i += 2 {
			g = append(g, fmt.Sprintf("%x", int(spelled[i])<<8|int(spelled[i+1])))
		}
		text = fmt.Sprintf("%s/%d", strings.Join(g, ":"), bits)
	case v6 && r.Chance(1, 5):
		text = fmt.Sprintf("%s/%d", strings.ToUpper(spelled.String()), bits)
	case r.Chance(1, 8): // leading zeros in the prefix length are digits like any other
		text = fmt.Sprintf("%s/0%d", spelled.String(), bits)
	default:
		text = fmt.Sprintf("%s/%d", spelled.String(), bits)
	}
	if r.Chance(1, 3) {
		text = c19SpaceRun(r, 3) + text + c19SpaceRun(r, 3)
	}
	e.text = text
	return e
}

// an entry built to be no subnet
func c19BadEntry(r *vlib.Rand) c19TextEntry {
	g := c19GoodEntry(r)
	t := strings.TrimFunc(g.text, func(c rune) bool { return strings.ContainsRune(strings.Join(c19Spaces, ""), c) })
	addr, bits, _ := strings.Cut(t, "/")
	v6 := strings.Contains(addr, ":")
	var text string
	switch r.Intn(10) {
	case 0:
		text = addr // bare address
	case 1:
		if v6 {
			text = addr + "/129"
		} else {
			text = addr + "/33"
		}
	case 2:
		text = addr + " /" + bits // white space inside
	case 3:
		text = addr + "/" + c19Spaces[r.Intn(len(c19Spaces))] + bits
	case 4:
		text = addr + "%eth0/" + bits // zone
	case 5:
		text = c19SpaceRun(r, 2) // empty or white space only
	case 6:
		text = c19NotSpaces[r.Intn(len(c19NotSpaces))] + t // not white space for TrimSpace
	case 7:
		text = t + c19NotSpaces[r.Intn(len(c19NotSpaces))]
	case 8:
		text = addr + "/-" + bits
	default:
		text = addr + "/" + bits + "/" + bits
	}
	return c19TextEntry{text: text, kind: "bad"}
}

// a well-formed entry with one character deleted, inserted or replaced: may or may not be a subnet
func c19MutatedEntry(r *vlib.Rand) c19TextEntry {
	t := []rune(c19GoodEntry(r).text)
	alphabet := []rune("0123456789abcdefF:./ %-x\t\u00a0\u2003\u200b\uff11")
	if len(t) == 0 {
		return c19TextEntry{text: "", kind: "bad"}
	}
	i := r.Intn(len(t))
	switch r.Intn(3) {
	case 0:
		t = append(t[:i], t[i+1:]...)
	case 1:
		t = append(t[:i], append([]rune{alphabet[r.Intn(len(alphabet))]}, t[i:]...)...)
	default:
		t[i] = alphabet[r.Intn(len(alphabet))]
	}
	return c19TextEntry{text: string(t), kind: "unknown"}
}

func c19TextList(r *vlib.Rand, max int, out *vlib.Out) []c19TextEntry {
	var l []c19TextEntry
	for i, n := 0, r.Intn(max+1); i < n; i++ {
		var e c19TextEntry
		switch x := r.Intn(20); {
		case x < 15:
			e = c19GoodEntry(r)
		case x < 17:
			e = c19BadEntry(r)
		default:
			e = c19MutatedEntry(r)
		}
		out.Count("text-entry:" + e.kind)
		l = append(l, e)
	}
	return l
}

func c19TextCase(out *vlib.Out, block, phantom, allow []c19TextEntry, extraProbes []string) {
	texts := func(l []c19TextEntry) []string {
		var t []string
		for _, e := range l {
			t = append(t, e.text)
		}
		return t
	}
	// probes: inside and next to every entry whose network the generator knows, plus fixed ones
	probes := append([]string{"127.0.0.1", "::1", "10.0.0.1", "::ffff:10.0.0.1", "fd00::1", "0.0.0.0", "256.1.1.1", "1.2.3.4%eth0", ""}, extraProbes...)
	type want struct {
		probe int
		list  string
		entry string
	}
	var inside []want
	for _, lst := range []struct {
		name string
		l    []c19TextEntry
	}{{"block", block}, {"phantom", phantom}, {"allow", allow}} {
		for _, e := range lst.l {
			if e.kind != "good" {
				continue
			}
			s := c19Samples(e.net, e.text)
			if len(s) > 3 {
				s = append(s[:2], s[len(s)-1])
			}
			for _, ip := range s {
				inside = append(inside, want{len(probes), lst.name, e.text})
				probes = append(probes, ip.String())
			}
			for _, ip := range c19Outside(e.net) {
				if ip != nil {
					probes = append(probes, ip.String())
				}
			}
		}
	}
	rc := &RegConfig{CovertBlocklistSubnets: texts(block), PhantomBlocklist: texts(phantom), CovertAllowlistSubnets: texts(allow)}
	replay := fmt.Sprintf("c19text|%s|%s|%s", c19TextItems(rc.CovertBlocklistSubnets), c19TextItems(rc.PhantomBlocklist), c19TextItems(rc.CovertAllowlistSubnets))
	var err error
	panicked := ""
	func() {
		defer func() {
			if r := recover(); r != nil {
				panicked = fmt.Sprint(r)
			}
		}()
		err = rc.ParseBlocklists()
	}()
	line := fmt.Sprintf("loadtext|%s|%s|%s|%s", c19TextItems(rc.CovertBlocklistSubnets), c19TextItems(rc.PhantomBlocklist), c19TextItems(rc.CovertAllowlistSubnets), c19TextItems(probes))
	out.Checked()
	if panicked != "" {
		out.OracleFail("C19:load-panic", fmt.Sprintf("ParseBlocklists panicked (%s) on block %q phantom %q allow %q", panicked, rc.CovertBlocklistSubnets, rc.PhantomBlocklist, rc.CovertAllowlistSubnets), replay)
		out.Case(line, "panic", true)
		return
	}
	anyBad := ""
	for _, l := range [][]c19TextEntry{block, phantom, allow} {
		for _, e := range l {
			if e.kind == "bad" {
				anyBad = e.text
			}
		}
	}
	if err != nil {
		out.Count("text-load:err")
		out.Case(line, "err", true)
		allGood := true
		for _, l := range [][]c19TextEntry{block, phantom, allow} {
			for _, e := range l {
				if e.kind != "good" {
					allGood = false
				}
			}
		}
		if allGood {
			out.OracleFail("C19:valid-config-rejected", fmt.Sprintf("every entry is <address>/<prefix length> written from integers, but the load failed: %v (block %q phantom %q allow %q)", err, rc.CovertBlocklistSubnets, rc.PhantomBlocklist, rc.CovertAllowlistSubnets), replay)
		}
		return
	}
	out.Count("text-load:ok")
	if anyBad != "" {
		out.OracleFail("C19:unparsable-entry-accepted", fmt.Sprintf("the entry %q is no subnet, but the lists were loaded without error (block %q phantom %q allow %q)", anyBad, rc.CovertBlocklistSubnets, rc.PhantomBlocklist, rc.CovertAllowlistSubnets), replay)
	}
	var cov, ph strings.Builder
	cb := make([]bool, len(probes))
	pb := make([]bool, len(probes))
	for i, p := range probes {
		ip := net.ParseIP(p)
		if ip == nil {
			cov.WriteString("x")
			ph.WriteString("x")
			continue
		}
		cb[i], pb[i] = rc.isBlocklistedCovertAddr(ip), rc.IsBlocklistedPhantom(ip)
		cov.WriteString(vlib.B(cb[i]))
		ph.WriteString(vlib.B(pb[i]))
	}
	out.Case(line, "ok:"+cov.String()+":"+ph.String(), true)
	for _, w := range inside {
		out.Checked()
		switch w.list {
		case "block":
			if len(allow) == 0 && !cb[w.probe] {
				out.OracleFail("C19:entry-not-enforced", fmt.Sprintf("covert_blocklist_subnets entry %q: %s lies inside it and is permitted as covert address (block %q)", w.entry, probes[w.probe], rc.CovertBlocklistSubnets), replay)
			}
		case "phantom":
			if !pb[w.probe] {
				out.OracleFail("C19:entry-not-enforced", fmt.Sprintf("phantom_blocklist entry %q: %s lies inside it and is not refused as phantom (phantom %q)", w.entry, probes[w.probe], rc.PhantomBlocklist), replay)
			}
		case "allow":
			if cb[w.probe] {
				out.OracleFail("C19:entry-not-enforced", fmt.Sprintf("covert_allowlist_subnets entry %q: %s lies inside it and is refused (allow %q)", w.entry, probes[w.probe], rc.CovertAllowlistSubnets), replay)
			}
		}
	}
}

func c19TextPart(out *vlib.Out, r *vlib.Rand) {
	lit := func(l ...string) []c19TextEntry {
		var e []c19TextEntry
		for _, s := range l {
			e = append(e, c19TextEntry{text: s, kind: "unknown"})
		}
		return e
	}
	// corpus: one entry at a time in each list, then together with a good neighbour before / after it
	corpus := []string{"10.0.0.0/8", "fc00::/7 ", " ", "", "10.0.0.1", "10.0.0.0/33", "10.0.0.0/-1", "::ffff:10.0.0.0/104", "::ffff:10.0.0.0/95", "1.2.3.4/032", "010.0.0.0/8",
		"10.0.0.0/8/8", "10.0.0.0 /8", "10.0.0.0/ 8", "\u00a010.0.0.0/8\u3000", "\u200b10.0.0.0/8", "\ufeff10.0.0.0/8", "\x1c10.0.0.0/8", "10.0.0.0/8\x00", "fe80::1%eth0/64",
		"::/0", "0.0.0.0/0", "2001:db8::/129", "2001:db8::/128", "1::2::3/64", "\uff11\uff10.0.0.0/8", "10.0.0.0/\uff18", "10.0.0.0/99999999999", "10.0.0.0/0000000000000000000008",
		"1:2:3:4:5:6:7:8/64", "1:2:3:4:5:6:7::/64", "::1.2.3.4/120", "1:2:3:4:5:6:1.2.3.4/128", "1.2.3/24", "1.2.3.4.5/24", "0x10.0.0.0/8", "/8", "/", "10.0.0.0/",
		"\t\n\v\f\r 10.0.0.0/8 \u0085\u00a0\u1680\u2000\u200a\u2028\u2029\u202f\u205f\u3000", "10.0.0.0/8\u180e", "10.0.0.0/8\u2007", "\u200910.0.0.0/8"}
	for _, c := range corpus {
		c19TextCase(out, lit(c), nil, nil, nil)
		c19TextCase(out, nil, lit(c), nil, nil)
		c19TextCase(out, lit("192.0.2.0/24"), nil, lit(c), []string{"192.0.2.1"})
		c19TextCase(out, lit("192.0.2.0/24", c), lit(c, "198.51.100.0/24"), nil, []string{"192.0.2.1", "198.51.100.9"})
		out.Count("text-corpus")
	}
	for i, n := 0, vlib.Budget(2500, 60000); i < n; i++ {
		var allow []c19TextEntry
		if r.Chance(1, 4) {
			allow = c19TextList(r, 2, out)
		}
		c19TextCase(out, c19TextList(r, 4, out), c19TextList(r, 3, out), allow, nil)
	}
	// the related-entry lists of the main generator, as text
	for i, n := 0, vlib.Budget(300, 6000); i < n; i++ {
		c19TextCase(out, lit(c19RandomRelated(r)...), lit(c19RandomRelated(r)...), nil, nil)
		out.Count("text-related")
	}
}

// c19TextReread: for replays (which carry the text only) - the network of an entry of the plain form
// <dotted quad>/<bits>, read with integer arithmetic; nil for every other spelling
func c19TextReread(text string) *net.IPNet {
	var a, b, c, d, bits int
	t := strings.Trim(text, " ")
	if n, err := fmt.Sscanf(t, "%d.%d.%d.%d/%d", &a, &b, &c, &d, &bits); n != 5 || err != nil {
		return nil
	}
	if fmt.Sprintf("%d.%d.%d.%d/%d", a, b, c, d, bits) != t || a > 255 || b > 255 || c > 255 || d > 255 || bits > 32 || a < 0 || b < 0 || c < 0 || d < 0 || bits < 0 {
		return nil
	}
	m := net.CIDRMask(bits, 32)
	return &net.IPNet{IP: net.IP{byte(a), byte(b), byte(c), byte(d)}.Mask(m), Mask: m}
}
