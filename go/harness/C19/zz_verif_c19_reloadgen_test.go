//go:build verif

package lib

// Extractor for C19 (tie 3): RegistrationManager.OnReload as a program.  The body of the method is
// flattened into its statements in source order, each with the conditions of the enclosing if statements
// (and whether it sits in the then or the else branch): calls of the two loaders
// (phantoms.NewPhantomIPSelector, geoip.New), assignments to fields of the manager / of its RegConfig,
// Lock / Unlock calls, return statements, logging.  `err` is resolved to the loader whose call assigned it
// last.  Anything else becomes an `unknown` step (the theorem onreload_program_understood then fails and
// the reload harness decides).  Also: the fields of RegConfig the three decision functions read, and the
// fields ParseBlocklists writes.  Written as CJ/Gen/C19Reload.lean; theorems in CJ/Props/C19Reload.lean.

import (
	"fmt"
	"go/ast"
	"go/parser"
	"go/token"
	"go/types"
	"os"
	"path/filepath"
	"sort"
	"strings"
	"testing"
)

type c19rGuard struct {
	cond string // Lean term
	pol  bool
}

type c19rStep struct {
	guards []c19rGuard
	act    string // Lean term
}

type c19rCtx struct {
	recv, conf string
	names      []string
	vars       map[string]string // local variable -> ".loaded .x" / "err .x"
	steps      []c19rStep
}

func (c *c19rCtx) name(s string) int {
	for i, n := range c.names {
		if n == s {
			return i
		}
	}
	c.names = append(c.names, s)
	return len(c.names) - 1
}

func c19rQ(s string) string { return fmt.Sprintf("%q", s) }

// path of a selector expression as identifiers: a.b.c -> [a b c]
func c19rPath(e ast.Expr) []string {
	switch x := e.(type) {
	case *ast.Ident:
		return []string{x.Name}
	case *ast.SelectorExpr:
		p := c19rPath(x.X)
		if p == nil {
			return nil
		}
		return append(p, x.Sel.Name)
	case *ast.ParenExpr:
		return c19rPath(x.X)
	}
	return nil
}

func (c *c19rCtx) loaderOf(call *ast.CallExpr) string {
	p := c19rPath(call.Fun)
	switch strings.Join(p, ".") {
	case "phantoms.NewPhantomIPSelector":
		return ".selector"
	case "geoip.New":
		return ".geoip"
	}
	return ""
}

func (c *c19rCtx) cond(e ast.Expr) (string, bool, bool) { // term, polarity, ok
	switch x := e.(type) {
	case *ast.ParenExpr:
		return c.cond(x.X)
	case *ast.UnaryExpr:
		if x.Op == token.NOT {
			t, pol, ok := c.cond(x.X)
			return t, !pol, ok
		}
	case *ast.BinaryExpr:
		if x.Op == token.NEQ || x.Op == token.EQL {
			var id *ast.Ident
			if a, ok := x.X.(*ast.Ident); ok && c19rIsNil(x.Y) {
				id = a
			} else if b, ok := x.Y.(*ast.Ident); ok && c19rIsNil(x.X) {
				id = b
			}
			if id != nil {
				if v, ok := c.vars[id.Name]; ok && strings.HasPrefix(v, "err ") {
					return "(.errNonNil " + strings.TrimPrefix(v, "err ") + ")", x.Op == token.NEQ, true
				}
			}
		}
	case *ast.CallExpr:
		if strings.Join(c19rPath(x.Fun), ".") == "errors.Is" && len(x.Args) == 2 {
			if id, ok := x.Args[0].(*ast.Ident); ok && strings.Join(c19rPath(x.Args[1]), ".") == "geoip.ErrMissingDB" {
				if v, ok := c.vars[id.Name]; ok && strings.HasPrefix(v, "err ") {
					return "(.errIsMissing " + strings.TrimPrefix(v, "err ") + ")", true, true
				}
			}
		}
	}
	return "(.unknown " + c19rQ(types.ExprString(e)) + ")", true, false
}

func c19rIsNil(e ast.Expr) bool {
	id, ok := e.(*ast.Ident)
	return ok && id.Name == "nil"
}

func (c *c19rCtx) emit(g []c19rGuard, act string) {
	c.steps = append(c.steps, c19rStep{append([]c19rGuard{}, g...), act})
}

func (c *c19rCtx) unknown(g []c19rGuard, fset *token.FileSet, n ast.Node) {
	c.emit(g, ".unknown "+c19rQ(fmt.Sprintf("line %d", fset.Position(n.Pos()).Line)))
}

// mutex call: recv.<path>.Lock() etc.
func (c *c19rCtx) lockCall(call *ast.CallExpr) (string, bool) {
	p := c19rPath(call.Fun)
	if len(p) < 3 || p[0] != c.recv || len(call.Args) != 0 {
		return "", false
	}
	m := strings.Join(p[1:len(p)-1], ".")
	switch p[len(p)-1] {
	case "Lock", "RLock":
		return fmt.Sprintf(".lock %d", c.name(m)), true
	case "Unlock", "RUnlock":
		return fmt.Sprintf(".unlock %d", c.name(m)), true
	}
	return "", false
}

func (c *c19rCtx) block(fset *token.FileSet, g []c19rGuard, stmts []ast.Stmt) {
	for _, s := range stmts {
		c.stmt(fset, g, s)
	}
}

func (c *c19rCtx) stmt(fset *token.FileSet, g []c19rGuard, s ast.Stmt) {
	switch x := s.(type) {
	case *ast.BlockStmt:
		c.block(fset, g, x.List)
	case *ast.ReturnStmt:
		c.emit(g, ".ret")
	case *ast.IfStmt:
		if x.Init != nil {
			c.stmt(fset, g, x.Init)
		}
		t, pol, _ := c.cond(x.Cond)
		c.block(fset, append(append([]c19rGuard{}, g...), c19rGuard{t, pol}), x.Body.List)
		if x.Else != nil {
			c.stmt(fset, append(append([]c19rGuard{}, g...), c19rGuard{t, !pol}), x.Else)
		}
	case *ast.DeferStmt:
		if a, ok := c.lockCall(x.Call); ok && strings.HasPrefix(a, ".unlock ") {
			c.emit(g, ".deferUnlock "+strings.TrimPrefix(a, ".unlock "))
			return
		}
		c.unknown(g, fset, s)
	case *ast.ExprStmt:
		call, ok := x.X.(*ast.CallExpr)
		if !ok {
			c.unknown(g, fset, s)
			return
		}
		if a, ok := c.lockCall(call); ok {
			c.emit(g, a)
			return
		}
		if p := c19rPath(call.Fun); len(p) == 3 && p[0] == c.recv && p[1] == "Logger" {
			c.emit(g, ".log")
			return
		}
		c.unknown(g, fset, s)
	case *ast.AssignStmt:
		// x, err := loader()
		if len(x.Rhs) == 1 {
			if call, ok := x.Rhs[0].(*ast.CallExpr); ok {
				if l := c.loaderOf(call); l != "" && len(x.Lhs) == 2 {
					v, ok1 := x.Lhs[0].(*ast.Ident)
					e, ok2 := x.Lhs[1].(*ast.Ident)
					if ok1 && ok2 {
						c.emit(g, ".load "+l)
						if v.Name != "_" {
							c.vars[v.Name] = ".loaded " + l
						}
						if e.Name != "_" {
							c.vars[e.Name] = "err " + l
						}
						return
					}
				}
			}
		}
		if x.Tok != token.ASSIGN || len(x.Lhs) != len(x.Rhs) {
			c.unknown(g, fset, s)
			return
		}
		for i := range x.Lhs {
			lp := c19rPath(x.Lhs[i])
			var target string
			switch {
			case len(lp) == 2 && lp[0] == c.recv:
				target = fmt.Sprintf("(.manager %d)", c.name(lp[1]))
			case len(lp) == 3 && lp[0] == c.recv && lp[1] == "RegConfig":
				target = fmt.Sprintf("(.regConfig %d)", c.name(lp[2]))
			default:
				c.unknown(g, fset, s)
				continue
			}
			src := "(.other " + c19rQ(types.ExprString(x.Rhs[i])) + ")"
			rp := c19rPath(x.Rhs[i])
			if len(rp) == 1 {
				if v, ok := c.vars[rp[0]]; ok && strings.HasPrefix(v, ".loaded ") {
					src = "(" + v + ")"
				}
			} else if len(rp) == 2 && rp[0] == c.conf {
				src = fmt.Sprintf("(.conf %d)", c.name(rp[1]))
			}
			c.emit(g, ".assign "+target+" "+src)
		}
	default:
		c.unknown(g, fset, s)
	}
}

// fields of the receiver that a method reads / writes (selector expressions recv.X)
func c19rFieldsOf(fn *ast.FuncDecl, writesOnly bool) []string {
	if fn == nil || fn.Recv == nil || len(fn.Recv.List) == 0 || len(fn.Recv.List[0].Names) == 0 {
		return nil
	}
	recv := fn.Recv.List[0].Names[0].Name
	set := map[string]bool{}
	add := func(e ast.Expr) {
		if p := c19rPath(e); len(p) >= 2 && p[0] == recv {
			set[p[1]] = true
		}
	}
	ast.Inspect(fn.Body, func(n ast.Node) bool {
		switch x := n.(type) {
		case *ast.AssignStmt:
			if writesOnly {
				for _, l := range x.Lhs {
					add(l)
				}
			}
		case *ast.SelectorExpr:
			if !writesOnly {
				add(x)
			}
		}
		return true
	})
	var out []string
	for k := range set {
		out = append(out, k)
	}
	sort.Strings(out)
	return out
}

type c19rFacts struct {
	names                                   []string
	steps                                   []c19rStep
	decisionFields, parsedFields, cfgFields []int
	special                                 []int // PhantomSelector, GeoIP, reloadMu, RegConfig.policyMu
}

func c19ReloadFacts(dir string) (*c19rFacts, error) {
	fset := token.NewFileSet()
	funcs := map[string]*ast.FuncDecl{}
	var regConfigType *ast.StructType
	for _, fn := range []string{"registration.go", "registration_config.go"} {
		f, err := parser.ParseFile(fset, filepath.Join(dir, fn), nil, 0)
		if err != nil {
			return nil, err
		}
		for _, d := range f.Decls {
			switch x := d.(type) {
			case *ast.FuncDecl:
				if x.Recv != nil && x.Body != nil {
					funcs[x.Name.Name] = x
				}
			case *ast.GenDecl:
				for _, sp := range x.Specs {
					if ts, ok := sp.(*ast.TypeSpec); ok && ts.Name.Name == "RegConfig" {
						regConfigType, _ = ts.Type.(*ast.StructType)
					}
				}
			}
		}
	}
	on := funcs["OnReload"]
	if on == nil || len(on.Recv.List[0].Names) != 1 || len(on.Type.Params.List) != 1 || len(on.Type.Params.List[0].Names) != 1 {
		return nil, fmt.Errorf("OnReload(conf) not found")
	}
	if regConfigType == nil {
		return nil, fmt.Errorf("type RegConfig not found")
	}
	c := &c19rCtx{recv: on.Recv.List[0].Names[0].Name, conf: on.Type.Params.List[0].Names[0].Name, vars: map[string]string{}}
	c.block(fset, nil, on.Body.List)
	facts := &c19rFacts{}
	idx := func(l []string) []int {
		var r []int
		for _, s := range l {
			if s == "policyMu" {
				continue
			}
			r = append(r, c.name(s))
		}
		return r
	}
	var dec []string
	seen := map[string]bool{}
	for _, fn := range []string{"isBlocklistedCovertAddr", "isBlocklistedCovertDomain", "IsBlocklistedPhantom"} {
		if funcs[fn] == nil {
			return nil, fmt.Errorf("decision function %s not found", fn)
		}
		for _, f := range c19rFieldsOf(funcs[fn], false) {
			if !seen[f] {
				seen[f] = true
				dec = append(dec, f)
			}
		}
	}
	sort.Strings(dec)
	facts.decisionFields = idx(dec)
	if funcs["ParseBlocklists"] == nil {
		return nil, fmt.Errorf("ParseBlocklists not found")
	}
	facts.parsedFields = idx(c19rFieldsOf(funcs["ParseBlocklists"], true))
	var cfg []string
	for _, f := range regConfigType.Fields.List {
		if len(f.Names) == 0 { // embedded: the field is named after the type
			if p := c19rPath(c19rDeref(f.Type)); len(p) > 0 {
				cfg = append(cfg, p[len(p)-1])
			}
			continue
		}
		for _, n := range f.Names {
			cfg = append(cfg, n.Name)
		}
	}
	facts.cfgFields = idx(cfg)
	facts.special = []int{c.name("PhantomSelector"), c.name("GeoIP"), c.name("reloadMu"), c.name("RegConfig.policyMu")}
	facts.names = c.names
	facts.steps = c.steps
	return facts, nil
}

func c19rDeref(e ast.Expr) ast.Expr {
	if s, ok := e.(*ast.StarExpr); ok {
		return s.X
	}
	return e
}

func TestVerifC19ReloadGen(t *testing.T) {
	facts, err := c19ReloadFacts(".")
	if err != nil {
		t.Fatal(err)
	}
	nums := func(l []int) string {
		var s []string
		for _, v := range l {
			s = append(s, fmt.Sprint(v))
		}
		return "[" + strings.Join(s, ", ") + "]"
	}
	var sb strings.Builder
	sb.WriteString("import CJ.Model.ReloadSteps\n")
	sb.WriteString("/-! GENERATED by /verif/go/harness/C19/zz_verif_c19_reloadgen_test.go from pkg/station/lib/registration.go (OnReload) and registration_config.go (RegConfig, ParseBlocklists, the three decision functions). Do not edit. -/\n")
	sb.WriteString("namespace CJ.Gen.C19Reload\nopen CJ.ReloadSteps\n\n")
	sb.WriteString("/-- fields and mutexes, by index -/\ndef names : List String := [")
	for i, n := range facts.names {
		if i > 0 {
			sb.WriteString(", ")
		}
		sb.WriteString(c19rQ(n))
	}
	sb.WriteString("]\n")
	sb.WriteString("/-- the body of OnReload: every statement in source order with the conditions that enclose it -/\ndef steps : List Step := [\n")
	for i, s := range facts.steps {
		var g []string
		for _, x := range s.guards {
			g = append(g, fmt.Sprintf("(%s, %v)", strings.TrimSuffix(strings.TrimPrefix(x.cond, "("), ")"), x.pol))
		}
		sep := ","
		if i == len(facts.steps)-1 {
			sep = ""
		}
		fmt.Fprintf(&sb, "  ⟨[%s], %s⟩%s\n", strings.Join(g, ", "), s.act, sep)
	}
	sb.WriteString("]\n")
	fmt.Fprintf(&sb, "/-- the fields of RegConfig that isBlocklistedCovertAddr / isBlocklistedCovertDomain / IsBlocklistedPhantom read -/\ndef decisionFields : List Nat := %s\n", nums(facts.decisionFields))
	fmt.Fprintf(&sb, "/-- the fields of RegConfig that ParseBlocklists writes -/\ndef parsedFields : List Nat := %s\n", nums(facts.parsedFields))
	fmt.Fprintf(&sb, "/-- all fields of RegConfig (embedded ones by type name), except the mutex -/\ndef regConfigFields : List Nat := %s\n", nums(facts.cfgFields))
	fmt.Fprintf(&sb, "/-- positions of the two reloadable fields of the manager and of the two mutexes in `names` -/\ndef selectorField : Nat := %d\ndef geoipField : Nat := %d\ndef reloadMu : Nat := %d\ndef policyMu : Nat := %d\n",
		facts.special[0], facts.special[1], facts.special[2], facts.special[3])
	sb.WriteString("\nend CJ.Gen.C19Reload\n")
	dir := os.Getenv("VERIF_OUT")
	if dir == "" {
		dir = os.TempDir()
	}
	if err := os.WriteFile(filepath.Join(dir, "C19Reload.lean"), []byte(sb.String()), 0o644); err != nil {
		t.Fatal(err)
	}
}
