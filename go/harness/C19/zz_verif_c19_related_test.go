//go:build verif

package lib

// C19, "every blocklist and allowlist entry of an accepted configuration is enforced": lists whose
// entries are related to one another (repetitions, the same network address with different prefix
// lengths in both orders, nested, adjacent, the two halves and their union, IPv4-mapped forms, host
// bits, other spellings; patterns that are prefixes / suffixes / case variants of one another), for every
// list, and the enforcement oracle that samples addresses inside every single entry.

import (
	"crypto/sha256"
	"fmt"
	"net"
	"regexp"
	"sort"
	"strings"

	"github.com/refraction-networking/conjure/internal/vlib"
	"github.com/refraction-networking/conjure/pkg/core"
	"github.com/refraction-networking/conjure/pkg/station/log"
	"github.com/refraction-networking/conjure/pkg/transports/wrapping/min"
	pb "github.com/refraction-networking/conjure/proto"
	"google.golang.org/protobuf/proto"
)

// ---------------------------------------------------------------------------------------------
// sampling one entry

// c19Samples: addresses inside subnet n — the first, the second, the last, the one before the last, the
// middle and two pseudo-random ones (derived from the entry's text, so that a replay sees the same).
// Every sample satisfies the library's own n.Contains.
func c19Samples(n *net.IPNet, text string) []net.IP {
	ip, mask := n.IP, n.Mask
	if len(ip) != len(mask) || len(ip) == 0 {
		return nil
	}
	h := sha256.Sum256([]byte(text))
	mk := func(host func(i int) byte) net.IP {
		a := make(net.IP, len(ip))
		for i := range ip {
			a[i] = ip[i]&mask[i] | host(i)&^mask[i]
		}
		return a
	}
	l := len(ip)
	cand := []net.IP{
		mk(func(i int) byte { return 0 }),
		mk(func(i int) byte {
			if i == l-1 {
				return 1
			}
			return 0
		}),
		mk(func(i int) byte { return 0xff }),
		mk(func(i int) byte {
			if i == l-1 {
				return 0xfe
			}
			return 0xff
		}),
		mk(func(i int) byte { return 0x80 }),
		mk(func(i int) byte { return h[i] }),
		mk(func(i int) byte { return h[16+i] }),
	}
	var out []net.IP
	seen := map[string]bool{}
	for _, c := range cand {
		if k := string(c); !seen[k] && n.Contains(c) {
			seen[k] = true
			out = append(out, c)
		}
	}
	return out
}

// c19Outside: the addresses next to subnet n on either side (nil where there is none)
func c19Outside(n *net.IPNet) []net.IP {
	ip, mask := n.IP, n.Mask
	if len(ip) != len(mask) {
		return nil
	}
	first, last := make(net.IP, len(ip)), make(net.IP, len(ip))
	for i := range ip {
		first[i], last[i] = ip[i]&mask[i], ip[i]&mask[i]|^mask[i]
	}
	var out []net.IP
	// first - 1
	b := append(net.IP(nil), first...)
	for i := len(b) - 1; i >= 0; i-- {
		b[i]--
		if b[i] != 0xff {
			break
		}
	}
	if !n.Contains(b) {
		out = append(out, b)
	}
	a := append(net.IP(nil), last...)
	for i := len(a) - 1; i >= 0; i-- {
		a[i]++
		if a[i] != 0 {
			break
		}
	}
	if !n.Contains(a) {
		out = append(out, a)
	}
	return out
}

// ---------------------------------------------------------------------------------------------
// related subnet entries

var c19Bases = []string{"10.0.0.0/8", "172.16.0.0/12", "192.168.0.0/16", "198.51.100.0/24", "203.0.113.64/26", "100.64.0.0/10",
	"169.254.0.0/16", "192.0.2.128/25", "8.8.8.8/31", "fc00::/7", "fe80::/10", "2001:db8::/32", "2001:db8:1::/48", "64:ff9b::/96", "2001:db8:0:1::/64", "::1/127"}

func c19CIDRText(ip net.IP, bits int) string { return fmt.Sprintf("%s/%d", ip.String(), bits) }

func c19Masked(ip net.IP, bits int) net.IP {
	return ip.Mask(net.CIDRMask(bits, 8*len(ip)))
}

func c19SetBit(ip net.IP, bit int, v bool) {
	if v {
		ip[bit/8] |= 0x80 >> (bit % 8)
	} else {
		ip[bit/8] &^= 0x80 >> (bit % 8)
	}
}

// c19Relations: lists of entries built around one base subnet; every relation in both orders where the
// order can matter. pick(n) chooses in [0,n) (random, or fixed for the enumerated corpus).
func c19Relations(base string, pick func(n int) int) map[string][]string {
	_, bn, err := net.ParseCIDR(base)
	if err != nil {
		panic("c19Bases must parse: " + base)
	}
	ip := bn.IP
	bits, total := bn.Mask.Size()
	B := c19CIDRText(ip, bits)
	rel := map[string][]string{}
	rel["single"] = []string{B}
	rel["dup"] = []string{B, B}
	rel["dup-thrice-apart"] = []string{B, "192.0.2.0/28", B}
	rel["dup-space"] = []string{B, " " + B + "\t"}
	// the same subnet written with host bits set
	hb := append(net.IP(nil), ip...)
	if bits < total {
		c19SetBit(hb, total-1, true)
		c19SetBit(hb, bits+pick(total-bits), true)
		rel["host-bits-after"] = []string{B, c19CIDRText(hb, bits)}
		rel["host-bits-before"] = []string{c19CIDRText(hb, bits), B}
		rel["host-bits-alone"] = []string{c19CIDRText(hb, bits)}
	}
	// the same network address with a longer prefix (a narrower subnet), in both orders, and three lengths
	if bits < total {
		d1 := bits + 1 + pick(total-bits)
		N := c19CIDRText(ip, d1)
		rel["same-base-narrow-first"] = []string{N, B}
		rel["same-base-wide-first"] = []string{B, N}
		rel["same-base-host-first"] = []string{c19CIDRText(ip, total), B}
		if d1 < total {
			N2 := c19CIDRText(ip, d1+1+pick(total-d1))
			rel["same-base-three-ascending"] = []string{N2, N, B}
			rel["same-base-three-mixed"] = []string{N, B, N2}
		}
	}
	// a wider subnet whose network address is the same (when the bit above is zero) or another one
	if bits > 1 {
		wb := bits - 1 - pick(bits-1)
		if wb < 1 {
			wb = 1
		}
		W := c19CIDRText(c19Masked(ip, wb), wb)
		rel["wider-after"] = []string{B, W}
		rel["wider-before"] = []string{W, B}
	}
	// nested with another network address
	if bits+1 < total {
		sb := bits + 1 + pick(total-bits-1)
		sub := append(net.IP(nil), ip...)
		c19SetBit(sub, bits+pick(sb-bits), true)
		S := c19CIDRText(c19Masked(sub, sb), sb)
		rel["nested-inner-first"] = []string{S, B}
		rel["nested-outer-first"] = []string{B, S}
		rel["nested-host"] = []string{c19CIDRText(hb, total), B}
	}
	// the neighbour of the same size, and the union of the two
	if bits > 0 {
		sib := append(net.IP(nil), ip...)
		sib[(bits-1)/8] ^= 0x80 >> ((bits - 1) % 8)
		S := c19CIDRText(sib, bits)
		U := c19CIDRText(c19Masked(ip, bits-1), bits-1)
		rel["adjacent"] = []string{B, S}
		rel["adjacent-reversed"] = []string{S, B}
		rel["halves-then-union"] = []string{B, S, U}
		rel["union-then-halves"] = []string{U, S, B}
	}
	if v4 := ip.To4(); v4 != nil && len(ip) == net.IPv4len {
		// the IPv4-mapped spelling of the same subnet
		M := fmt.Sprintf("::ffff:%s/%d", v4.String(), 96+bits)
		rel["mapped-alone"] = []string{M}
		rel["mapped-after"] = []string{B, M}
		rel["mapped-before"] = []string{M, B}
		if bits < 32 {
			rel["mapped-narrower-first"] = []string{fmt.Sprintf("::ffff:%s/%d", v4.String(), 96+bits+1+pick(32-bits)), B}
		}
		rel["zero-length-after"] = []string{B, "0.0.0.0/0"}
		rel["zero-length-before"] = []string{"0.0.0.0/0", B}
	} else {
		// other spellings of the same IPv6 subnet
		var parts []string
		for i := 0; i < 16; i += 2 {
			parts = append(parts, fmt.Sprintf("%04X", uint16(ip[i])<<8|uint16(ip[i+1])))
		}
		E := fmt.Sprintf("%s/%d", strings.Join(parts, ":"), bits)
		rel["expanded-alone"] = []string{E}
		rel["expanded-after"] = []string{B, E}
		rel["expanded-before"] = []string{E, B}
		rel["zero-length-after"] = []string{B, "::/0"}
		rel["zero-length-before"] = []string{"::/0", B}
	}
	return rel
}

var c19RelationNames = func() []string {
	seen := map[string]bool{}
	var names []string
	for _, b := range []string{"10.0.0.0/8", "2001:db8::/32"} {
		for k := range c19Relations(b, func(n int) int { return 0 }) {
			if !seen[k] {
				seen[k] = true
				names = append(names, k)
			}
		}
	}
	// map order is random: sort for reproducibility
	for i := range names {
		for j := i + 1; j < len(names); j++ {
			if names[j] < names[i] {
				names[i], names[j] = names[j], names[i]
			}
		}
	}
	return names
}()

// ---------------------------------------------------------------------------------------------
// related patterns: groups of patterns that overlap (substring, prefix, suffix, anchored, case variants,
// the empty pattern), each with hosts it must refuse

type c19Pat struct {
	pat     string
	samples []string
}

var c19PatternGroups = [][]c19Pat{
	{{`blocked\.com`, []string{"blocked.com", "x.blocked.com.au"}}, {`.*blocked\.com$`, []string{"x.blocked.com"}}, {`^blocked\.com$`, []string{"blocked.com"}},
		{`(?i)BLOCKED\.COM`, []string{"Blocked.Com"}}, {`BLOCKED\.com`, []string{"BLOCKED.com"}}, {`blocked\.co`, []string{"blocked.co.uk"}}},
	{{`localhost`, []string{"localhost", "my.localhost.example"}}, {`^localhost$`, []string{"localhost"}}, {`^local`, []string{"local.example"}},
		{`host$`, []string{"myhost"}}, {`LOCALHOST`, []string{"LOCALHOST"}}, {`^localhost\.?$`, []string{"localhost."}}},
	{{`^169\.254\.`, []string{"169.254.169.254", "169.254.0.1"}}, {`^169\.254\.169\.254$`, []string{"169.254.169.254"}}, {`169\.254`, []string{"10.169.254.1"}},
		{`^169\.`, []string{"169.1.1.1"}}},
	{{`:`, []string{"fd00::1", "2001:db8::7"}}, {`^fd00:`, []string{"fd00:ec2::254"}}, {`^fd00:ec2::`, []string{"fd00:ec2::254"}}, {`^FD00:`, []string{"FD00::1"}}},
	{{`internal$`, []string{"db.internal", "notinternal"}}, {`\.internal$`, []string{"db.internal"}}, {`^db\.`, []string{"db.example"}}, {``, []string{"anything.example", "192.0.2.1"}},
		{`^$`, []string{""}}},
}

var c19PatSamples = func() map[string][]string {
	m := map[string][]string{}
	for _, g := range c19PatternGroups {
		for _, p := range g {
			m[p.pat] = append(m[p.pat], p.samples...)
		}
	}
	for p, s := range c19PatternSample {
		m[p] = append(m[p], s)
	}
	return m
}()

// ---------------------------------------------------------------------------------------------
// configurations with related entries

type c19RelConf struct {
	block, allow, phantom, domains []string
	public                         bool
}

func (c c19RelConf) toml() string {
	d := c19Desc{block: c.block, allow: c.allow, phantom: c.phantom, domains: c.domains, public: c.public}
	var sb strings.Builder
	if d.block != nil {
		fmt.Fprintf(&sb, "covert_blocklist_subnets = %s\n", c19TomlList(d.block))
	}
	if d.domains != nil {
		fmt.Fprintf(&sb, "covert_blocklist_domains = %s\n", c19TomlList(d.domains))
	}
	if d.phantom != nil {
		fmt.Fprintf(&sb, "phantom_blocklist = %s\n", c19TomlList(d.phantom))
	}
	if d.allow != nil {
		fmt.Fprintf(&sb, "covert_allowlist_subnets = %s\n", c19TomlList(d.allow))
	}
	if d.public {
		sb.WriteString("covert_blocklist_public_addrs = true\n")
	}
	if sb.Len() == 0 {
		sb.WriteString("enable_v4 = true\n")
	}
	return sb.String()
}

func c19RandomRelated(r *vlib.Rand) []string {
	var l []string
	for g, n := 0, r.Range(1, 3); g < n; g++ {
		rel := c19Relations(c19Bases[r.Intn(len(c19Bases))], r.Intn)
		name := c19RelationNames[r.Intn(len(c19RelationNames))]
		e, ok := rel[name]
		if !ok {
			e = rel["dup"]
		}
		l = append(l, e...)
	}
	if r.Chance(1, 3) {
		for i := len(l) - 1; i > 0; i-- {
			j := r.Intn(i + 1)
			l[i], l[j] = l[j], l[i]
		}
	}
	return l
}

func c19RandomPatterns(r *vlib.Rand) []string {
	g := c19PatternGroups[r.Intn(len(c19PatternGroups))]
	var l []string
	for i, n := 0, r.Range(2, 4); i < n; i++ {
		l = append(l, g[r.Intn(len(g))].pat)
	}
	if r.Chance(1, 3) {
		o := c19PatternGroups[r.Intn(len(c19PatternGroups))]
		l = append(l, o[r.Intn(len(o))].pat)
	}
	return l
}

func c19RandomRelConf(r *vlib.Rand) c19RelConf {
	var c c19RelConf
	if r.Chance(3, 4) {
		c.block = c19RandomRelated(r)
	}
	if r.Chance(1, 3) {
		c.allow = c19RandomRelated(r)
	}
	if r.Chance(1, 2) {
		c.phantom = c19RandomRelated(r)
	}
	if r.Chance(1, 2) {
		c.domains = c19RandomPatterns(r)
	}
	c.public = r.Chance(1, 8)
	return c
}

// the enumerated part: every relation around every base for each of the three subnet lists, every ordered
// pair of patterns of every group (incl. a pattern with itself)
func c19EnumeratedRelConfs(each func(c c19RelConf, what string)) {
	fixed := func(n int) int { return n / 2 }
	for _, b := range c19Bases {
		rel := c19Relations(b, fixed)
		for _, name := range c19RelationNames {
			e, ok := rel[name]
			if !ok {
				continue
			}
			each(c19RelConf{block: e}, "block:"+name)
			each(c19RelConf{phantom: e}, "phantom:"+name)
			each(c19RelConf{allow: e}, "allow:"+name)
		}
	}
	for _, g := range c19PatternGroups {
		for _, a := range g {
			for _, b := range g {
				each(c19RelConf{domains: []string{a.pat, b.pat}}, "domains:pair")
			}
		}
	}
}

// ---------------------------------------------------------------------------------------------
// enforcement by sampling, on a parsed configuration

type c19Enforce struct {
	rc     *RegConfig
	raw    *RegConfig // as decoded (the harness's own decode of the file)
	fail   func(sig, what string)
	out    *vlib.Out
	pats   []*regexp.Regexp // the file's patterns, compiled by the harness
	logger *log.Logger
	ifaces []*net.IPNet
	seen   map[string]bool // policies whose ingest-level run was done already
}

func (en *c19Enforce) literalMatchesPattern(text string) bool {
	for _, re := range en.pats {
		if re.MatchString(text) {
			return true
		}
	}
	return false
}

// admitted: what ParseOrResolveBlocklisted answers for the literal ip:443
func (en *c19Enforce) admitted(ip net.IP) bool {
	got, _ := en.rc.ParseOrResolveBlocklisted(net.JoinHostPort(ip.String(), "443"))
	return got != ""
}

func (en *c19Enforce) run() {
	raw, rc := en.raw, en.rc
	for _, e := range raw.CovertBlocklistDomains {
		if re, err := regexp.Compile(e); err == nil {
			en.pats = append(en.pats, re)
		}
	}
	hasAllow := len(raw.CovertAllowlistSubnets) > 0
	each := func(list string, entries []string, f func(e string, n *net.IPNet)) {
		for _, e := range entries {
			_, n, err := net.ParseCIDR(strings.TrimSpace(e))
			if err != nil {
				en.fail("C19:unparsable-entry-accepted", fmt.Sprintf("%s entry %q cannot be parsed but the configuration was accepted", list, e))
				continue
			}
			f(e, n)
		}
	}
	each("covert_blocklist_subnets", raw.CovertBlocklistSubnets, func(e string, n *net.IPNet) {
		if hasAllow {
			// the allowlist overrides: enforcement of the blocklist is observable on the parsed list only
			found := false
			for _, m := range rc.covertBlocklistSubnets {
				if m.String() == n.String() {
					found = true
				}
			}
			if !found {
				en.fail("C19:entry-not-enforced", fmt.Sprintf("covert_blocklist_subnets entry %q is not in the parsed blocklist of the accepted configuration", e))
			}
			return
		}
		for _, ip := range c19Samples(n, e) {
			en.out.Checked()
			if !rc.isBlocklistedCovertAddr(ip) {
				en.fail("C19:entry-not-enforced", fmt.Sprintf("covert_blocklist_subnets entry %q is not enforced by the accepted configuration: %s lies inside it and is not refused", e, ip))
			} else if en.admitted(ip) {
				en.fail("C19:entry-not-enforced", fmt.Sprintf("covert_blocklist_subnets entry %q is not enforced by the accepted configuration: %s lies inside it and ParseOrResolveBlocklisted admits it", e, ip))
			}
		}
	})
	each("phantom_blocklist", raw.PhantomBlocklist, func(e string, n *net.IPNet) {
		for _, ip := range c19Samples(n, e) {
			en.out.Checked()
			if !rc.IsBlocklistedPhantom(ip) {
				en.fail("C19:entry-not-enforced", fmt.Sprintf("phantom_blocklist entry %q is not enforced by the accepted configuration: %s lies inside it and is not refused", e, ip))
			}
		}
	})
	each("covert_allowlist_subnets", raw.CovertAllowlistSubnets, func(e string, n *net.IPNet) {
		for _, ip := range c19Samples(n, e) {
			en.out.Checked()
			if rc.isBlocklistedCovertAddr(ip) {
				en.fail("C19:entry-not-enforced", fmt.Sprintf("covert_allowlist_subnets entry %q is not enforced by the accepted configuration: %s lies inside it and is refused", e, ip))
			} else if !ip.IsUnspecified() && !en.literalMatchesPattern(ip.String()) && !en.admitted(ip) {
				en.fail("C19:entry-not-enforced", fmt.Sprintf("covert_allowlist_subnets entry %q is not enforced by the accepted configuration: %s lies inside it and ParseOrResolveBlocklisted refuses it", e, ip))
			}
		}
	})
	if hasAllow {
		// an address outside every allowlisted subnet is refused: the neighbours of every entry, and a fixed one
		var nets []*net.IPNet
		for _, e := range raw.CovertAllowlistSubnets {
			if _, n, err := net.ParseCIDR(strings.TrimSpace(e)); err == nil {
				nets = append(nets, n)
			}
		}
		probes := []net.IP{net.ParseIP("203.0.113.250")}
		for _, n := range nets {
			probes = append(probes, c19Outside(n)...)
		}
		for _, probe := range probes {
			inside := false
			for _, n := range nets {
				if n.Contains(probe) {
					inside = true
				}
			}
			if inside {
				continue
			}
			en.out.Checked()
			if !rc.isBlocklistedCovertAddr(probe) || en.admitted(probe) {
				en.fail("C19:allowlist-not-enforced", fmt.Sprintf("an allowlist is configured but %s outside it is permitted", probe))
			}
		}
	}
	for _, e := range raw.CovertBlocklistDomains {
		if _, err := regexp.Compile(e); err != nil {
			en.fail("C19:unparsable-entry-accepted", fmt.Sprintf("covert_blocklist_domains entry %q does not compile but the configuration was accepted", e))
			continue
		}
		for _, s := range c19PatSamples[e] {
			en.out.Checked()
			if !rc.isBlocklistedCovertDomain(s) {
				en.fail("C19:entry-not-enforced", fmt.Sprintf("covert_blocklist_domains entry %q does not block %q", e, s))
			} else if got, _ := rc.ParseOrResolveBlocklisted(net.JoinHostPort(s, "443")); got != "" {
				en.fail("C19:entry-not-enforced", fmt.Sprintf("covert_blocklist_domains entry %q: ParseOrResolveBlocklisted admits the host %q as %q", e, s, got))
			}
		}
	}
	en.ingestLevel()
}

// ---------------------------------------------------------------------------------------------
// enforcement at the OUTCOME of the ingest, for every registration source

// c19Sources: every value of the RegistrationSource enum and values outside it
func c19Sources() []int32 {
	var l []int32
	maxV := int32(0)
	for v := range pb.RegistrationSource_name {
		l = append(l, v)
		if v > maxV {
			maxV = v
		}
	}
	sort.Slice(l, func(i, j int) bool { return l[i] < l[j] })
	return append(l, maxV+1, 99, -1)
}

// c19Ingester takes registrations through the real ValidateRegistration + ingestRegistration of a manager
// built around a parsed configuration, and reports whether they became connectable.
type c19Ingester struct {
	rm     *RegistrationManager
	secret uint64
}

func newC19Ingester(rc *RegConfig, logger *log.Logger) *c19Ingester {
	rm := &RegistrationManager{RegConfig: rc, RegistrationStats: newRegistrationStats(), Logger: logger, registeredDecoys: NewRegisteredDecoys()}
	rm.registeredDecoys.transports[pb.TransportType_Min] = min.Transport{}
	rm.registeredDecoys.registerForDetector = func(d *DecoyRegistration) {}
	rm.registeredDecoys.updateInDetector = func(d *DecoyRegistration) {}
	return &c19Ingester{rm: rm}
}

// ingest: one fresh registration (own secret) from source src with the given phantom and covert; the
// registration says it was scanned by the station that shared it (no liveness probe of the phantom).
// connectable: it is tracked and valid, or a connection to its phantom would find it. panicked != "": the ingest panicked.
func (g *c19Ingester) ingest(src int32, phantom net.IP, covert string) (connectable bool, panicked string) {
	g.secret++
	sec := make([]byte, 32)
	for i := 0; i < 8; i++ {
		sec[i] = byte(g.secret >> (8 * i))
	}
	sec[31] = 0x19
	s := pb.RegistrationSource(src)
	var tp Transport = min.Transport{}
	reg := &DecoyRegistration{PhantomIp: phantom, PhantomPort: 443, Keys: &core.ConjureSharedKeys{SharedSecret: sec}, Transport: pb.TransportType_Min,
		TransportPtr: &tp, RegistrationSource: &s, Covert: covert, Flags: &pb.RegistrationFlags{Prescanned: proto.Bool(true)}, DecoyListVersion: 7}
	// sharing with peer stations is not part of this observation
	share := g.rm.RegConfig.EnableShareOverAPI
	g.rm.RegConfig.EnableShareOverAPI = false
	defer func() {
		g.rm.RegConfig.EnableShareOverAPI = share
		if r := recover(); r != nil {
			panicked = fmt.Sprint(r)
		}
	}()
	g.rm.ingestRegistration(reg)
	if st := g.rm.registeredDecoys.RegistrationExists(reg); st != nil && st.Valid {
		connectable = true
	}
	if len(g.rm.GetRegistrations(phantom)) > 0 {
		connectable = true
	}
	// keep the maps small
	g.rm.registeredDecoys = NewRegisteredDecoys()
	g.rm.registeredDecoys.transports[pb.TransportType_Min] = min.Transport{}
	g.rm.registeredDecoys.registerForDetector = func(d *DecoyRegistration) {}
	g.rm.registeredDecoys.updateInDetector = func(d *DecoyRegistration) {}
	return connectable, panicked
}

// permittedCovert / permittedPhantom: an address the configuration (as the harness reads the file) permits
func (en *c19Enforce) permittedCovert() string {
	var block, allow []*net.IPNet
	for _, e := range en.raw.CovertBlocklistSubnets {
		if _, n, err := net.ParseCIDR(strings.TrimSpace(e)); err == nil {
			block = append(block, n)
		}
	}
	if en.raw.CovertBlocklistPublicAddrs {
		block = append(block, en.ifaces...)
	}
	for _, e := range en.raw.CovertAllowlistSubnets {
		if _, n, err := net.ParseCIDR(strings.TrimSpace(e)); err == nil {
			allow = append(allow, n)
		}
	}
	cands := []net.IP{net.ParseIP("93.184.216.34"), net.ParseIP("203.0.113.250"), net.ParseIP("2606:2800:220:1::1"), net.ParseIP("198.51.100.1"), net.ParseIP("8.8.4.4"), net.ParseIP("100.64.1.1")}
	for _, n := range allow {
		cands = append(cands, c19Samples(n, "covert")...)
	}
	in := func(l []*net.IPNet, ip net.IP) bool {
		for _, n := range l {
			if n.Contains(ip) {
				return true
			}
		}
		return false
	}
	for _, ip := range cands {
		if ip.IsUnspecified() || en.literalMatchesPattern(ip.String()) {
			continue
		}
		if (len(allow) > 0 && in(allow, ip)) || (len(allow) == 0 && !in(block, ip)) {
			return net.JoinHostPort(ip.String(), "443")
		}
	}
	return ""
}

func (en *c19Enforce) permittedPhantom() net.IP {
	var nets []*net.IPNet
	for _, e := range en.raw.PhantomBlocklist {
		if _, n, err := net.ParseCIDR(strings.TrimSpace(e)); err == nil {
			nets = append(nets, n)
		}
	}
	for _, c := range []string{"192.0.2.9", "192.122.190.77", "2001:48a8:687f:1::9", "198.18.200.9", "100.127.3.9"} {
		ip := net.ParseIP(c)
		ok := true
		for _, n := range nets {
			if n.Contains(ip) {
				ok = false
			}
		}
		if ok {
			return ip
		}
	}
	return nil
}

// ingestLevel: "enforced" one level up — no registration from ANY source whose phantom lies inside a
// phantom_blocklist entry, or whose covert address policy forbids, becomes connectable.
func (en *c19Enforce) ingestLevel() {
	raw := en.raw
	if len(raw.PhantomBlocklist) == 0 && len(raw.CovertBlocklistSubnets) == 0 && len(raw.CovertAllowlistSubnets) == 0 {
		return
	}
	// the outcome depends on the policy keys only: one run per distinct policy of this process
	key := fmt.Sprintf("%q|%q|%q|%q|%v", raw.CovertBlocklistSubnets, raw.CovertAllowlistSubnets, raw.PhantomBlocklist, raw.CovertBlocklistDomains, raw.CovertBlocklistPublicAddrs)
	if en.seen != nil {
		if en.seen[key] {
			return
		}
		en.seen[key] = true
	}
	g := newC19Ingester(en.rc, en.logger)
	sources := c19Sources()
	admittedBlocked := map[int32]bool{}
	covertOK := en.permittedCovert()
	phantomOK := en.permittedPhantom()
	stride := func(n int) int {
		if n > 40 {
			return n / 20
		}
		return 1
	}
	run := func(src int32, phantom net.IP, covert string, sig, what string) (connectable bool) {
		en.out.Checked()
		c, p := g.ingest(src, phantom, covert)
		if p != "" {
			en.fail("C19:ingest-panic", fmt.Sprintf("ingestRegistration panicked for a registration from source %d (%s) with phantom %s, covert %q: %s", src, pb.RegistrationSource(src), phantom, covert, p))
			return false
		}
		if c && sig != "" {
			en.fail(sig, fmt.Sprintf("%s: a registration from source %d (%s) with phantom %s and covert %q became connectable", what, src, pb.RegistrationSource(src), phantom, covert))
		}
		return c
	}
	if covertOK != "" {
		// every phantom_blocklist entry x sampled addresses x every source (the entries are IPv4 and IPv6)
		st := stride(len(raw.PhantomBlocklist))
		for i, e := range raw.PhantomBlocklist {
			if i%st != 0 {
				continue
			}
			_, n, err := net.ParseCIDR(strings.TrimSpace(e))
			if err != nil {
				continue
			}
			samples := c19Samples(n, e)
			if len(samples) > 3 {
				samples = []net.IP{samples[0], samples[2], samples[len(samples)-1]}
			}
			for _, ip := range samples {
				for _, src := range sources {
					if run(src, ip, covertOK, "C19:phantom-entry-not-enforced-for-source", fmt.Sprintf("phantom_blocklist entry %q is not enforced", e)) {
						admittedBlocked[src] = true
					}
					en.out.Count(fmt.Sprintf("ingest:phantom-blocked:source=%d", src))
				}
			}
		}
		if len(raw.PhantomBlocklist) > 0 {
			// one correspondence case per source: were all the sampled blocklisted phantoms refused
			for _, src := range sources {
				if src >= 0 {
					en.modelOutcome(fmt.Sprintf("ingestsrc|%d|1", src), admittedBlocked[src])
				}
			}
		}
		// the other direction, for the correspondence only: a phantom outside every entry is admitted from every source
		if phantomOK != nil {
			for _, src := range sources {
				c := run(src, phantomOK, covertOK, "", "")
				if src >= 0 {
					en.modelOutcome(fmt.Sprintf("ingestsrc|%d|0", src), c)
				}
			}
		}
	} else {
		en.out.Count("ingest:no-permitted-covert")
	}
	if phantomOK == nil {
		en.out.Count("ingest:no-permitted-phantom")
		return
	}
	// covert entries x every source: admission must not depend on where the registration came from
	if len(raw.CovertAllowlistSubnets) == 0 {
		st := stride(len(raw.CovertBlocklistSubnets))
		for i, e := range raw.CovertBlocklistSubnets {
			if i%st != 0 {
				continue
			}
			_, n, err := net.ParseCIDR(strings.TrimSpace(e))
			if err != nil {
				continue
			}
			samples := c19Samples(n, e)
			if len(samples) > 2 {
				samples = []net.IP{samples[0], samples[len(samples)-1]}
			}
			for _, ip := range samples {
				for _, src := range sources {
					run(src, phantomOK, net.JoinHostPort(ip.String(), "443"), "C19:covert-entry-not-enforced-for-source", fmt.Sprintf("covert_blocklist_subnets entry %q is not enforced", e))
				}
			}
		}
	} else {
		var nets []*net.IPNet
		for _, e := range raw.CovertAllowlistSubnets {
			if _, n, err := net.ParseCIDR(strings.TrimSpace(e)); err == nil {
				nets = append(nets, n)
			}
		}
		probes := []net.IP{net.ParseIP("203.0.113.250")}
		for i, n := range nets {
			if i < 6 {
				probes = append(probes, c19Outside(n)...)
			}
		}
		for _, ip := range probes {
			inside := false
			for _, n := range nets {
				if n.Contains(ip) {
					inside = true
				}
			}
			if inside {
				continue
			}
			for _, src := range sources {
				run(src, phantomOK, net.JoinHostPort(ip.String(), "443"), "C19:covert-entry-not-enforced-for-source", "the allowlist is not enforced (address outside every covert_allowlist_subnets entry)")
			}
		}
	}
}

// modelOutcome: a correspondence case whose implementation side is the observed outcome
func (en *c19Enforce) modelOutcome(line string, connectable bool) {
	en.out.Case(line, map[bool]string{true: "admitted", false: "refused"}[connectable], connectable)
}

// loadProbes: the probe set of one accepted configuration — samples of every entry and their neighbours
// (capped), for the correspondence line that carries the decisions of the loaded policy
func c19LoadProbes(raw *RegConfig) (c19Probes, bool) {
	total := len(raw.CovertBlocklistSubnets) + len(raw.CovertAllowlistSubnets) + len(raw.PhantomBlocklist) + len(raw.CovertBlocklistDomains)
	if total == 0 || total > 24 {
		return c19Probes{}, false
	}
	var p c19Probes
	add := func(dst *[]string, entries []string, capN int) {
		seen := map[string]bool{}
		for _, x := range *dst {
			seen[x] = true
		}
		for _, e := range entries {
			_, n, err := net.ParseCIDR(strings.TrimSpace(e))
			if err != nil {
				continue
			}
			s := c19Samples(n, e)
			if len(s) > 3 {
				s = append(s[:2:2], s[2], s[len(s)-1])
			}
			for _, ip := range append(s, c19Outside(n)...) {
				if t := ip.String(); !seen[t] && len(*dst) < capN {
					seen[t] = true
					*dst = append(*dst, t)
				}
			}
		}
	}
	p.addrs = []string{"203.0.113.250", "127.0.0.1"}
	add(&p.addrs, raw.CovertBlocklistSubnets, 40)
	add(&p.addrs, raw.CovertAllowlistSubnets, 64)
	p.phantoms = []string{"192.0.2.9"}
	add(&p.phantoms, raw.PhantomBlocklist, 40)
	p.hosts = []string{"example.com"}
	seen := map[string]bool{"example.com": true}
	for _, e := range raw.CovertBlocklistDomains {
		for _, s := range c19PatSamples[e] {
			if !seen[s] && s != "" && len(p.hosts) < 24 {
				seen[s] = true
				p.hosts = append(p.hosts, s)
			}
		}
	}
	return p, true
}
