//go:build verif

package liveness

// C19, liveness part: every combination of the four liveness keys through the real liveness.New, a few
// scripted queries, then every statistics entry point (PrintAndReset, PrintStats, Reset) under recover.
// The logged cache lengths are compared with the Lean model (`stats|…` lines).

import (
	"bytes"
	"fmt"
	golog "log"
	"os"
	"strconv"
	"strings"
	"testing"
	"time"

	"github.com/refraction-networking/conjure/internal/vlib"
	"github.com/refraction-networking/conjure/pkg/station/log"
)

func c19lDur(s string) string {
	if s == "" {
		return "-"
	}
	d, err := time.ParseDuration(s)
	if err != nil {
		return "E"
	}
	return strconv.FormatInt(int64(d), 10)
}

func c19lRun(out *vlib.Out, durL string, capL int, durN string, capN int, queries []bool) {
	line := fmt.Sprintf("stats|%s|%d|%s|%d|", c19lDur(durL), capL, c19lDur(durN), capN)
	replay := fmt.Sprintf("c19stats|%q|%d|%q|%d|%v", durL, capL, durN, capN, queries)
	tst, err := New(&Config{CacheDuration: durL, CacheCapacity: capL, CacheDurationNonLive: durN, CacheCapacityNonLive: capN})
	kind := "?"
	var live, nonLive cache
	switch tt := tst.(type) {
	case *UncachedLivenessTester:
		kind = "uncached"
	case *CachedLivenessTester:
		live, nonLive = tt.ipCacheLive, tt.ipCacheNonLive
		k := func(c cache) string {
			switch cc := c.(type) {
			case nil:
				return "none"
			case *mapCache:
				return "map"
			case *lruCache:
				return fmt.Sprintf("lru%d", cc.lruSize)
			}
			return "?"
		}
		kind = "cached L=" + k(live) + " N=" + k(nonLive)
	}
	if err != nil {
		if strings.Contains(err.Error(), "cacheExpirationLive") {
			kind += " err=live"
		} else {
			kind += " err=nonlive"
		}
		// the station does not start with this configuration (logger.Fatal in NewRegistrationManager)
		out.Case(line, kind+"|"+map[bool]string{true: "ok 0 0", false: "ok 0 0"}[true], false)
		out.Count("stats:not-accepted")
		return
	}
	// scripted probe answers, virtual times 10 s apart (well inside every lifetime used here)
	var ops []string
	i := 0
	probe := func(string) (bool, error) {
		v := queries[i%len(queries)]
		if v {
			return true, ErrLiveHost
		}
		return false, NotLive
	}
	switch tt := tst.(type) {
	case *UncachedLivenessTester:
		tt.phantomIsLive = probe
	case *CachedLivenessTester:
		tt.phantomIsLive = probe
	}
	elems := func() map[*cacheElement]bool {
		m := map[*cacheElement]bool{}
		for _, c := range []cache{live, nonLive} {
			switch cc := c.(type) {
			case *mapCache:
				for _, e := range cc.ipCache {
					m[e] = true
				}
			case *lruCache:
				for _, e := range cc.ipCache {
					m[e] = true
				}
			}
		}
		return m
	}
	vtime := map[*cacheElement]int64{}
	for i = 0; i < len(queries); i++ {
		now := int64(i+1) * int64(10*time.Second)
		real := time.Now()
		for e := range elems() {
			e.cachedTime = real.Add(-time.Duration(now - vtime[e]))
		}
		addr := fmt.Sprintf("192.0.2.%d", i%3+1)
		_, _ = tst.PhantomIsLive(addr, 443)
		for e := range elems() {
			if _, ok := vtime[e]; !ok {
				vtime[e] = now
			}
		}
		ops = append(ops, fmt.Sprintf("q,%d,%s,443,%s", now, addr, vlib.B(queries[i])))
	}
	line += strings.Join(ops, ";")
	var buf bytes.Buffer
	logger := log.New(&buf, "", golog.Lmsgprefix)
	res := ""
	func() {
		defer func() {
			if r := recover(); r != nil {
				res = "panic"
				out.OracleFail("C19:stats-panic", fmt.Sprintf("liveness statistics printer panicked (%s): %v", kind, r), replay)
			}
		}()
		out.Checked()
		tst.PrintStats(logger)
		s := strings.Fields(strings.TrimSpace(buf.String()))
		if _, ok := tst.(*CachedLivenessTester); ok && len(s) >= 4 {
			res = "ok " + s[len(s)-4] + " " + s[len(s)-2]
		} else {
			res = "ok 0 0"
		}
		tst.PrintAndReset(logger)
		tst.Reset()
		tst.PrintAndReset(logger)
	}()
	out.Case(line, kind+"|"+res, true)
	out.Count("stats:" + strings.Fields(res)[0])
}

func TestVerifC19L(t *testing.T) {
	out := vlib.Open("C19L")
	defer out.Close()
	if rp := vlib.Replay(); rp != "" {
		b, _ := os.ReadFile(rp)
		for _, l := range strings.Split(string(b), "\n") {
			if strings.HasPrefix(l, "c19stats|") {
				var durL, durN string
				var capL, capN int
				f := strings.Split(l, "|")
				if len(f) >= 6 {
					durL, _ = strconv.Unquote(f[1])
					capL, _ = strconv.Atoi(f[2])
					durN, _ = strconv.Unquote(f[3])
					capN, _ = strconv.Atoi(f[4])
					c19lRun(out, durL, capL, durN, capN, []bool{true, false, true})
				}
			}
		}
		return
	}
	durs := []string{"", "2.0h", "5m", "bogus", "0s"}
	caps := []int{0, 1, 3, -1}
	scripts := [][]bool{{true}, {false}, {true, false, true, false}, {false, false, true, true, false, true, false}}
	r := vlib.NewRand("C19L")
	for _, dl := range durs {
		for _, cl := range caps {
			for _, dn := range durs {
				for _, cn := range caps {
					for _, q := range scripts {
						c19lRun(out, dl, cl, dn, cn, q)
					}
				}
			}
		}
	}
	n := vlib.Budget(300, 5000)
	for i := 0; i < n; i++ {
		q := make([]bool, r.Range(1, 30))
		for j := range q {
			q[j] = r.Bool()
		}
		c19lRun(out, durs[r.Intn(len(durs))], caps[r.Intn(len(caps))], durs[r.Intn(len(durs))], caps[r.Intn(len(caps))], q)
	}
}
