//go:build verif

package lib

// Extractor for C19 (tie 5): what housekeeping there is.  Every time.NewTicker in pkg/station/lib,
// pkg/station/liveness and cmd/application (non-test files) with its period, the shape of the loop that receives
// from it and the calls of the tick body; the number of callers of CachedLivenessTester.ClearExpiredCache and of
// Stop() on a liveness tester (both: none in the pinned tree - the caches are never swept and the tester is never
// stopped, so neither is part of what "housekeeping" means for an accepted configuration); the fields of the
// manager the statistics printers / resets touch and the fields OnReload assigns (for the frame argument: a
// reload step cannot disturb a printer).  Written as CJ/Gen/C19Housekeeping.lean; theorems in
// CJ/Props/C19Housekeeping.lean.

import (
	"fmt"
	"go/ast"
	"go/parser"
	"go/token"
	"os"
	"path/filepath"
	"sort"
	"strconv"
	"strings"
	"testing"
)

type c19hLoop struct {
	where  string
	period int
	kind   string
	jobs   []string
}

func c19hPeriod(e ast.Expr) int {
	unit := func(x ast.Expr) int {
		p := c19pPath(x)
		if len(p) == 2 && p[0] == "time" {
			switch p[1] {
			case "Second":
				return 1
			case "Minute":
				return 60
			case "Hour":
				return 3600
			}
		}
		return 0
	}
	if b, ok := e.(*ast.BinaryExpr); ok && b.Op == token.MUL {
		for _, xy := range [][2]ast.Expr{{b.X, b.Y}, {b.Y, b.X}} {
			if l, ok := xy[0].(*ast.BasicLit); ok && l.Kind == token.INT {
				n, _ := strconv.Atoi(l.Value)
				return n * unit(xy[1])
			}
		}
	}
	return unit(e)
}

func c19hJobs(body []ast.Stmt) []string {
	var jobs []string
	for _, st := range body {
		job := ".other"
		if es, ok := st.(*ast.ExprStmt); ok {
			if c, ok := es.X.(*ast.CallExpr); ok {
				if s, ok := c.Fun.(*ast.SelectorExpr); ok {
					switch {
					case s.Sel.Name == "PrintStats" && len(c.Args) == 1 && c19pIsSel(c.Args[0], "true"):
						job = ".printStats true"
					case s.Sel.Name == "PrintStats" && len(c.Args) == 1 && c19pIsSel(c.Args[0], "false"):
						job = ".printStats false"
					case s.Sel.Name == "RemoveOldRegistrations" && len(c.Args) == 0:
						job = ".removeOld"
					}
				}
			}
		}
		jobs = append(jobs, job)
	}
	return jobs
}

func TestVerifC19HouseGen(t *testing.T) {
	root := os.Getenv("VERIF_SCRATCH_REPO")
	if root == "" {
		root = "../../.."
	}
	fset := token.NewFileSet()
	var loops []c19hLoop
	cleanup, stop := 0, 0
	printer := map[string]bool{}
	written := map[string]bool{}
	for _, dir := range []string{"pkg/station/lib", "pkg/station/liveness", "cmd/application"} {
		ents, err := os.ReadDir(filepath.Join(root, dir))
		if err != nil {
			t.Fatal(err)
		}
		for _, e := range ents {
			if !strings.HasSuffix(e.Name(), ".go") || strings.HasSuffix(e.Name(), "_test.go") || strings.HasPrefix(e.Name(), "zz_verif") {
				continue
			}
			f, err := parser.ParseFile(fset, filepath.Join(root, dir, e.Name()), nil, 0)
			if err != nil {
				t.Fatal(err)
			}
			ast.Inspect(f, func(n ast.Node) bool {
				if c, ok := n.(*ast.CallExpr); ok {
					if s, ok := c.Fun.(*ast.SelectorExpr); ok {
						if s.Sel.Name == "ClearExpiredCache" {
							cleanup++
						}
						if s.Sel.Name == "Stop" && strings.Contains(strings.Join(c19pPath(s.X), "."), "LivenessTester") {
							stop++
						}
					}
				}
				return true
			})
			for _, d := range f.Decls {
				fd, ok := d.(*ast.FuncDecl)
				if !ok || fd.Body == nil {
					continue
				}
				// tickers made in this function, and the loops that receive from them
				tick := map[string]int{}
				ast.Inspect(fd.Body, func(n ast.Node) bool {
					if as, ok := n.(*ast.AssignStmt); ok && len(as.Lhs) == 1 && len(as.Rhs) == 1 {
						if c, ok := as.Rhs[0].(*ast.CallExpr); ok && c19pIsSel(c.Fun, "time", "NewTicker") && len(c.Args) == 1 {
							if id, ok := as.Lhs[0].(*ast.Ident); ok {
								tick[id.Name] = c19hPeriod(c.Args[0])
							}
						}
					}
					return true
				})
				used := map[string]bool{}
				ast.Inspect(fd.Body, func(n ast.Node) bool {
					switch s := n.(type) {
					case *ast.RangeStmt:
						if p := c19pPath(s.X); len(p) == 2 && p[1] == "C" {
							if per, ok := tick[p[0]]; ok {
								used[p[0]] = true
								loops = append(loops, c19hLoop{dir + "/" + e.Name() + ":" + fd.Name.Name, per, ".rangeC", c19hJobs(s.Body.List)})
							}
						}
					case *ast.ForStmt:
						if s.Cond != nil || s.Init != nil || s.Post != nil || len(s.Body.List) != 1 {
							return true
						}
						sel, ok := s.Body.List[0].(*ast.SelectStmt)
						if !ok {
							return true
						}
						var l *c19hLoop
						done, others := false, 0
						for _, cc := range sel.Body.List {
							cl := cc.(*ast.CommClause)
							var rx ast.Expr
							if es, ok := cl.Comm.(*ast.ExprStmt); ok {
								if u, ok := es.X.(*ast.UnaryExpr); ok && u.Op == token.ARROW {
									rx = u.X
								}
							}
							if p := c19pPath(rx); len(p) == 2 && p[1] == "C" {
								if per, ok := tick[p[0]]; ok {
									used[p[0]] = true
									l = &c19hLoop{dir + "/" + e.Name() + ":" + fd.Name.Name, per, "", c19hJobs(cl.Body)}
									continue
								}
							}
							if c, ok := rx.(*ast.CallExpr); ok && c19pIsSel(c.Fun, "ctx", "Done") && len(cl.Body) == 1 {
								if r, ok := cl.Body[0].(*ast.ReturnStmt); ok && len(r.Results) == 0 {
									done = true
									continue
								}
							}
							others++
						}
						if l != nil {
							l.kind = ".other"
							if done && others == 0 {
								l.kind = ".selectDone"
							}
							loops = append(loops, *l)
						}
					}
					return true
				})
				for name, per := range tick {
					if !used[name] {
						loops = append(loops, c19hLoop{dir + "/" + e.Name() + ":" + fd.Name.Name, per, ".other", nil})
					}
				}
				// fields touched by the printers / resets of the manager and of the singleton, fields OnReload assigns
				if dir != "pkg/station/lib" || fd.Recv == nil || len(fd.Recv.List) != 1 || len(fd.Recv.List[0].Names) != 1 {
					continue
				}
				rn := fd.Recv.List[0].Names[0].Name
				rt := strings.Join(c19pPath(c19hDeref(fd.Recv.List[0].Type)), ".")
				isPrinter := (rt == "RegistrationManager" || rt == "RegistrationStats" || rt == "Stats") &&
					(fd.Name.Name == "PrintAndReset" || fd.Name.Name == "Reset" || fd.Name.Name == "PrintStats" || fd.Name.Name == "ResetAll")
				if isPrinter {
					ast.Inspect(fd.Body, func(n ast.Node) bool {
						if s, ok := n.(*ast.SelectorExpr); ok {
							if p := c19pPath(s); len(p) >= 2 && p[0] == rn {
								printer[p[1]] = true
								if p[1] == "RegConfig" && len(p) >= 3 {
									printer[p[2]] = true
								}
							}
						}
						return true
					})
				}
				if rt == "RegistrationManager" && fd.Name.Name == "OnReload" {
					ast.Inspect(fd.Body, func(n ast.Node) bool {
						if as, ok := n.(*ast.AssignStmt); ok {
							for _, l := range as.Lhs {
								if p := c19pPath(l); len(p) >= 2 && p[0] == rn {
									written[p[1]] = true
									if p[1] == "RegConfig" && len(p) >= 3 {
										written[p[2]] = true
									}
								}
							}
						}
						return true
					})
				}
			}
		}
	}
	sort.Slice(loops, func(i, j int) bool { return loops[i].period < loops[j].period || (loops[i].period == loops[j].period && loops[i].where < loops[j].where) })
	var names []string
	for n := range printer {
		names = append(names, n)
	}
	for n := range written {
		if !printer[n] {
			names = append(names, n)
		}
	}
	sort.Strings(names)
	idx := func(m map[string]bool) string {
		var l []string
		for i, n := range names {
			if m[n] {
				l = append(l, fmt.Sprint(i))
			}
		}
		return "[" + strings.Join(l, ", ") + "]"
	}
	var sb strings.Builder
	sb.WriteString("import CJ.Model.Housekeeping\n")
	sb.WriteString("/-! GENERATED by /verif/go/harness/C19/zz_verif_c19_housegen_test.go from pkg/station/lib, pkg/station/liveness and cmd/application (non-test files). Do not edit. -/\n")
	sb.WriteString("namespace CJ.Gen.C19Housekeeping\nopen CJ.Housekeeping\n\n")
	sb.WriteString("/-- every time.NewTicker with the loop that receives from it, by period -/\ndef loops : List Loop := [\n")
	for i, l := range loops {
		sep := ","
		if i == len(loops)-1 {
			sep = ""
		}
		fmt.Fprintf(&sb, "  ⟨%d, %s, [%s]⟩%s  -- %s\n", l.period, l.kind, strings.Join(l.jobs, ", "), sep, l.where)
	}
	sb.WriteString("]\n")
	fmt.Fprintf(&sb, "/-- call sites of CachedLivenessTester.ClearExpiredCache / of Stop() on a LivenessTester -/\ndef cleanupCallers : Nat := %d\ndef stopCallers : Nat := %d\n", cleanup, stop)
	var q []string
	for _, n := range names {
		q = append(q, fmt.Sprintf("%q", n))
	}
	fmt.Fprintf(&sb, "/-- fields, by index -/\ndef fieldNames : List String := [%s]\n", strings.Join(q, ", "))
	fmt.Fprintf(&sb, "/-- fields of the receiver that Stats.PrintStats / Reset / ResetAll, RegistrationStats.PrintAndReset / Reset and RegistrationManager.PrintAndReset mention -/\ndef printerFields : List Nat := %s\n", idx(printer))
	fmt.Fprintf(&sb, "/-- fields of the manager (and of its RegConfig) that OnReload assigns -/\ndef reloadWritten : List Nat := %s\n", idx(written))
	sb.WriteString("\nend CJ.Gen.C19Housekeeping\n")
	dir := os.Getenv("VERIF_OUT")
	if dir == "" {
		dir = os.TempDir()
	}
	if err := os.WriteFile(filepath.Join(dir, "C19Housekeeping.lean"), []byte(sb.String()), 0o644); err != nil {
		t.Fatal(err)
	}
}

func c19hDeref(e ast.Expr) ast.Expr {
	if s, ok := e.(*ast.StarExpr); ok {
		return s.X
	}
	return e
}
