//go:build verif

package lib

// White-box accessor for the C19 connection-statistics harness, which lives in package main of
// cmd/application. This file exists only in the scratch copy of the repository made by /verif/check
// (copied into pkg/station/lib), never in /repo.

// VerifC19StubDetector replaces the two detector announcements (Redis publish) of a registration
// manager by no-ops.
func VerifC19StubDetector(rm *RegistrationManager) {
	r := rm.registeredDecoys
	r.m.Lock()
	defer r.m.Unlock()
	r.registerForDetector = func(*DecoyRegistration) {}
	r.updateInDetector = func(*DecoyRegistration) {}
}
