//go:build verif

package lib

// Extractor for C19 (tie 4): what the code does with the covert_blocklist_domains patterns, read off the syntax
// tree of registration_config.go (and a count over the package).  The model (CJ.PatternList) applies the
// regular-expression engine - a parameter - to the text the code hands to it; the proof that every entry *as
// written* is enforced leans on the facts below: the argument of regexp.Compile is the range variable of the loop
// over c.CovertBlocklistDomains itself (never assigned to in the loop), the argument of MatchString is the
// parameter of isBlocklistedCovertDomain itself (never assigned to), the first error returns an error, the
// compiled expression is appended to the list the decision function ranges over, which was emptied before.
// Written as CJ/Gen/C19Pattern.lean; theorems in CJ/Props/C19Pattern.lean.

import (
	"fmt"
	"go/ast"
	"go/parser"
	"go/token"
	"os"
	"path/filepath"
	"strings"
	"testing"
)

type c19pShape struct {
	compileSites                                                      int
	rangesConfigured, resetBefore, errReturnsError, appendsCompiled   bool
	decisionRangesCompiled, matchReturnsTrue, endReturnsFalse         bool
	compileArg, hostArg                                               string // Lean terms of CJ.PatternList.Arg
	compileArgSrc, hostArgSrc                                         string // the source text, for the comment
}

func c19pIsSel(e ast.Expr, path ...string) bool {
	p := c19pPath(e)
	if len(p) != len(path) {
		return false
	}
	for i := range p {
		if path[i] != "*" && p[i] != path[i] {
			return false
		}
	}
	return true
}

func c19pPath(e ast.Expr) []string {
	switch x := e.(type) {
	case *ast.Ident:
		return []string{x.Name}
	case *ast.SelectorExpr:
		if p := c19pPath(x.X); p != nil {
			return append(p, x.Sel.Name)
		}
	case *ast.ParenExpr:
		return c19pPath(x.X)
	}
	return nil
}

// is the identifier `name` written to (assigned, ++/--, address taken) anywhere under n
func c19pWritten(n ast.Node, name string) bool {
	w := false
	ast.Inspect(n, func(x ast.Node) bool {
		switch s := x.(type) {
		case *ast.AssignStmt:
			for _, l := range s.Lhs {
				if id, ok := l.(*ast.Ident); ok && id.Name == name {
					w = true
				}
			}
		case *ast.IncDecStmt:
			if id, ok := s.X.(*ast.Ident); ok && id.Name == name {
				w = true
			}
		case *ast.UnaryExpr:
			if id, ok := s.X.(*ast.Ident); ok && s.Op == token.AND && id.Name == name {
				w = true
			}
		case *ast.RangeStmt:
			for _, l := range []ast.Expr{s.Key, s.Value} {
				if id, ok := l.(*ast.Ident); ok && id.Name == name && s.Tok == token.ASSIGN {
					w = true
				}
			}
		}
		return true
	})
	return w
}

// classify an argument expression: the variable itself / strings.ToLower(the variable) / anything else
func c19pArg(e ast.Expr, v string, written bool) string {
	if id, ok := e.(*ast.Ident); ok && id.Name == v && !written {
		return ".asWritten"
	}
	if c, ok := e.(*ast.CallExpr); ok && len(c.Args) == 1 && c19pIsSel(c.Fun, "strings", "ToLower") {
		if id, ok := c.Args[0].(*ast.Ident); ok && id.Name == v && !written {
			return ".lowered"
		}
	}
	return ".other"
}

func c19pSrc(fset *token.FileSet, src []byte, e ast.Expr) string {
	return string(src[fset.Position(e.Pos()).Offset:fset.Position(e.End()).Offset])
}

func c19PatternFacts(dir string) (*c19pShape, error) {
	sh := &c19pShape{compileArg: ".other", hostArg: ".other"}
	fset := token.NewFileSet()
	ents, err := os.ReadDir(dir)
	if err != nil {
		return nil, err
	}
	var parse, decide *ast.FuncDecl
	var cfgSrc []byte
	for _, e := range ents {
		if !strings.HasSuffix(e.Name(), ".go") || strings.HasSuffix(e.Name(), "_test.go") || strings.HasPrefix(e.Name(), "zz_verif") {
			continue
		}
		src, err := os.ReadFile(filepath.Join(dir, e.Name()))
		if err != nil {
			return nil, err
		}
		f, err := parser.ParseFile(fset, filepath.Join(dir, e.Name()), src, 0)
		if err != nil {
			return nil, err
		}
		// every way of making a *regexp.Regexp in the package
		ast.Inspect(f, func(n ast.Node) bool {
			if c, ok := n.(*ast.CallExpr); ok {
				if p := c19pPath(c.Fun); len(p) == 2 && p[0] == "regexp" && (strings.Contains(p[1], "Compile")) {
					sh.compileSites++
				}
			}
			return true
		})
		for _, d := range f.Decls {
			fd, ok := d.(*ast.FuncDecl)
			if !ok || fd.Recv == nil || fd.Body == nil {
				continue
			}
			switch fd.Name.Name {
			case "ParseBlocklists":
				parse, cfgSrc = fd, src
			case "isBlocklistedCovertDomain":
				decide = fd
				if cfgSrc == nil {
					cfgSrc = src
				}
			}
		}
	}
	if parse == nil || decide == nil {
		return nil, fmt.Errorf("ParseBlocklists / isBlocklistedCovertDomain not found")
	}
	recv := func(fd *ast.FuncDecl) string {
		if len(fd.Recv.List) == 1 && len(fd.Recv.List[0].Names) == 1 {
			return fd.Recv.List[0].Names[0].Name
		}
		return "?"
	}

	// ---- ParseBlocklists: the loop in which regexp.Compile is called
	rc := recv(parse)
	for i, st := range parse.Body.List {
		rs, ok := st.(*ast.RangeStmt)
		if !ok {
			continue
		}
		var call *ast.CallExpr
		var callStmt int = -1
		var resVar, errVar string
		for j, b := range rs.Body.List {
			as, ok := b.(*ast.AssignStmt)
			if !ok || len(as.Rhs) != 1 {
				continue
			}
			if c, ok := as.Rhs[0].(*ast.CallExpr); ok {
				if p := c19pPath(c.Fun); len(p) == 2 && p[0] == "regexp" && strings.Contains(p[1], "Compile") {
					call, callStmt = c, j
					if len(as.Lhs) == 2 {
						if a, ok := as.Lhs[0].(*ast.Ident); ok {
							resVar = a.Name
						}
						if a, ok := as.Lhs[1].(*ast.Ident); ok {
							errVar = a.Name
						}
					}
				}
			}
		}
		if call == nil {
			continue
		}
		sh.rangesConfigured = c19pIsSel(rs.X, rc, "CovertBlocklistDomains") && rs.Tok == token.DEFINE
		v := "?"
		if id, ok := rs.Value.(*ast.Ident); ok {
			v = id.Name
		}
		if len(call.Args) == 1 && c19pIsSel(call.Fun, "regexp", "Compile") {
			sh.compileArg = c19pArg(call.Args[0], v, c19pWritten(rs.Body, v))
			sh.compileArgSrc = c19pSrc(fset, cfgSrc, call.Args[0])
		}
		// the statement right after the call: if err != nil { ...; return <not nil> }
		if callStmt+1 < len(rs.Body.List) {
			if is, ok := rs.Body.List[callStmt+1].(*ast.IfStmt); ok && is.Init == nil {
				if be, ok := is.Cond.(*ast.BinaryExpr); ok && be.Op == token.NEQ && c19pIsSel(be.X, errVar) && c19pIsSel(be.Y, "nil") && len(is.Body.List) > 0 {
					if r, ok := is.Body.List[len(is.Body.List)-1].(*ast.ReturnStmt); ok && len(r.Results) == 1 && !c19pIsSel(r.Results[0], "nil") {
						sh.errReturnsError = true
					}
				}
			}
		}
		// c.covertBlocklistDomains = append(c.covertBlocklistDomains, <resVar>) after that, resVar not written in between
		for _, b := range rs.Body.List[callStmt+1:] {
			as, ok := b.(*ast.AssignStmt)
			if !ok || len(as.Lhs) != 1 || len(as.Rhs) != 1 || as.Tok != token.ASSIGN || !c19pIsSel(as.Lhs[0], rc, "covertBlocklistDomains") {
				continue
			}
			if c, ok := as.Rhs[0].(*ast.CallExpr); ok && c19pIsSel(c.Fun, "append") && len(c.Args) == 2 && c.Ellipsis == token.NoPos &&
				c19pIsSel(c.Args[0], rc, "covertBlocklistDomains") && c19pIsSel(c.Args[1], resVar) {
				sh.appendsCompiled = true
			}
		}
		// emptied before the loop: c.covertBlocklistDomains = []*regexp.Regexp{} as the last write before it
		for _, b := range parse.Body.List[:i] {
			as, ok := b.(*ast.AssignStmt)
			if !ok || len(as.Lhs) != 1 || !c19pIsSel(as.Lhs[0], rc, "covertBlocklistDomains") {
				continue
			}
			cl, ok := as.Rhs[0].(*ast.CompositeLit)
			sh.resetBefore = ok && len(cl.Elts) == 0
		}
	}

	// ---- isBlocklistedCovertDomain
	rd := recv(decide)
	param := "?"
	if len(decide.Type.Params.List) == 1 && len(decide.Type.Params.List[0].Names) == 1 {
		param = decide.Type.Params.List[0].Names[0].Name
	}
	nMatch := 0
	for _, st := range decide.Body.List {
		rs, ok := st.(*ast.RangeStmt)
		if !ok {
			continue
		}
		sh.decisionRangesCompiled = c19pIsSel(rs.X, rd, "covertBlocklistDomains")
		pv := "?"
		if id, ok := rs.Value.(*ast.Ident); ok {
			pv = id.Name
		}
		if len(rs.Body.List) == 1 {
			if is, ok := rs.Body.List[0].(*ast.IfStmt); ok && is.Init == nil && is.Else == nil {
				if c, ok := is.Cond.(*ast.CallExpr); ok && c19pIsSel(c.Fun, pv, "MatchString") && len(c.Args) == 1 {
					nMatch++
					sh.hostArg = c19pArg(c.Args[0], param, c19pWritten(decide.Body, param))
					sh.hostArgSrc = c19pSrc(fset, cfgSrc, c.Args[0])
					if len(is.Body.List) == 1 {
						if r, ok := is.Body.List[0].(*ast.ReturnStmt); ok && len(r.Results) == 1 && c19pIsSel(r.Results[0], "true") {
							sh.matchReturnsTrue = true
						}
					}
				}
			}
		}
	}
	if nMatch != 1 {
		sh.hostArg = ".other"
	}
	if n := len(decide.Body.List); n > 0 {
		if r, ok := decide.Body.List[n-1].(*ast.ReturnStmt); ok && len(r.Results) == 1 && c19pIsSel(r.Results[0], "false") {
			sh.endReturnsFalse = true
		}
	}
	// no other return in the function than the two above
	rets := 0
	ast.Inspect(decide.Body, func(n ast.Node) bool {
		if _, ok := n.(*ast.ReturnStmt); ok {
			rets++
		}
		return true
	})
	if rets != 2 {
		sh.matchReturnsTrue = false
	}
	return sh, nil
}

func TestVerifC19PatternGen(t *testing.T) {
	sh, err := c19PatternFacts(".")
	if err != nil {
		t.Fatal(err)
	}
	var sb strings.Builder
	sb.WriteString("import CJ.Model.PatternList\n")
	sb.WriteString("/-! GENERATED by /verif/go/harness/C19/zz_verif_c19_patgen_test.go from pkg/station/lib/registration_config.go (ParseBlocklists, isBlocklistedCovertDomain) and a count over the package. Do not edit. -/\n")
	sb.WriteString("namespace CJ.Gen.C19Pattern\nopen CJ.PatternList\n\n")
	fmt.Fprintf(&sb, "/-- argument of regexp.Compile in the source: `%s`; argument of MatchString: `%s` -/\n", strings.ReplaceAll(sh.compileArgSrc, "-/", "- /"), strings.ReplaceAll(sh.hostArgSrc, "-/", "- /"))
	fmt.Fprintf(&sb, "def shape : Shape :=\n  { compileSites := %d, rangesConfigured := %v, resetBefore := %v, compileArg := %s,\n    errReturnsError := %v, appendsCompiled := %v, decisionRangesCompiled := %v, hostArg := %s,\n    matchReturnsTrue := %v, endReturnsFalse := %v }\n",
		sh.compileSites, sh.rangesConfigured, sh.resetBefore, sh.compileArg, sh.errReturnsError, sh.appendsCompiled, sh.decisionRangesCompiled, sh.hostArg, sh.matchReturnsTrue, sh.endReturnsFalse)
	sb.WriteString("\nend CJ.Gen.C19Pattern\n")
	dir := os.Getenv("VERIF_OUT")
	if dir == "" {
		dir = os.TempDir()
	}
	if err := os.WriteFile(filepath.Join(dir, "C19Pattern.lean"), []byte(sb.String()), 0o644); err != nil {
		t.Fatal(err)
	}
}
