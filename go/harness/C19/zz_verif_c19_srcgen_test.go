//go:build verif

package lib

// Extractor for C19: where the phantom blocklist is applied to a registration, per registration source.
// ValidateRegistration refuses a blocklisted phantom EARLY unless the source is exempted; ingestRegistration
// refuses it LATE (after the registration may have been shared with peers) for some sources.  Both source
// sets are read off the syntax tree by evaluating the guarding conditions for every value of the
// RegistrationSource enum (and one value outside it) and written to CJ/Gen/C19Sources.lean; the theorem
// over them is "every source exempted early is checked late".
//
// The evaluator understands comparisons (== / !=) of the registration's source (`*reg.RegistrationSource`,
// `reg.GetRegistrationSource()`, a local variable assigned from one of them) with RegistrationSource_*
// constants, `&&`, `||`, `!`, parentheses, `IsBlocklistedPhantom(..)` (taken as true) and calls of
// package-level helper functions whose body is assignments followed by one `return <condition>`.
// Anything else is "unknown", which counts as exempt for the early check and as not checked for the late
// one (the theorem then fails although the code may be safe; the harness decides in that case).

import (
	"bytes"
	"fmt"
	"go/ast"
	"go/parser"
	"go/printer"
	"go/token"
	"os"
	"path/filepath"
	"sort"
	"strings"
	"testing"

	pb "github.com/refraction-networking/conjure/proto"
)

type c19Tri int

const (
	c19False c19Tri = iota
	c19True
	c19Unknown
)

func c19And(a, b c19Tri) c19Tri {
	if a == c19False || b == c19False {
		return c19False
	}
	if a == c19True && b == c19True {
		return c19True
	}
	return c19Unknown
}

func c19Not(a c19Tri) c19Tri {
	switch a {
	case c19True:
		return c19False
	case c19False:
		return c19True
	}
	return c19Unknown
}

type c19SrcEval struct {
	funcs   map[string]*ast.FuncDecl // package-level functions without receiver
	src     int32                    // the source value under evaluation
	srcVars map[string]bool          // local variables that hold the registration's source
	depth   int
}

func c19ContainsCall(n ast.Node, name string) bool {
	found := false
	if n == nil {
		return false
	}
	ast.Inspect(n, func(m ast.Node) bool {
		if c, ok := m.(*ast.CallExpr); ok {
			switch f := c.Fun.(type) {
			case *ast.SelectorExpr:
				if f.Sel.Name == name {
					found = true
				}
			case *ast.Ident:
				if f.Name == name {
					found = true
				}
			}
		}
		return true
	})
	return found
}

// isSource: the expression denotes the registration's source
func (e *c19SrcEval) isSource(x ast.Expr) bool {
	switch v := x.(type) {
	case *ast.ParenExpr:
		return e.isSource(v.X)
	case *ast.StarExpr:
		if s, ok := v.X.(*ast.SelectorExpr); ok && s.Sel.Name == "RegistrationSource" {
			return true
		}
	case *ast.CallExpr:
		if s, ok := v.Fun.(*ast.SelectorExpr); ok && s.Sel.Name == "GetRegistrationSource" && len(v.Args) == 0 {
			return true
		}
	case *ast.Ident:
		return e.srcVars[v.Name]
	}
	return false
}

// constant: the value of a RegistrationSource_* constant
func c19SourceConst(x ast.Expr) (int32, bool) {
	name := ""
	switch v := x.(type) {
	case *ast.ParenExpr:
		return c19SourceConst(v.X)
	case *ast.SelectorExpr:
		name = v.Sel.Name
	case *ast.Ident:
		name = v.Name
	}
	if !strings.HasPrefix(name, "RegistrationSource_") {
		return 0, false
	}
	v, ok := pb.RegistrationSource_value[strings.TrimPrefix(name, "RegistrationSource_")]
	return v, ok
}

func (e *c19SrcEval) eval(x ast.Expr) c19Tri {
	switch v := x.(type) {
	case *ast.ParenExpr:
		return e.eval(v.X)
	case *ast.UnaryExpr:
		if v.Op == token.NOT {
			return c19Not(e.eval(v.X))
		}
	case *ast.BinaryExpr:
		switch v.Op {
		case token.LAND:
			return c19And(e.eval(v.X), e.eval(v.Y))
		case token.LOR:
			return c19Not(c19And(c19Not(e.eval(v.X)), c19Not(e.eval(v.Y))))
		case token.EQL, token.NEQ:
			var c int32
			var ok bool
			if e.isSource(v.X) {
				c, ok = c19SourceConst(v.Y)
			} else if e.isSource(v.Y) {
				c, ok = c19SourceConst(v.X)
			}
			if !ok {
				return c19Unknown
			}
			if (c == e.src) == (v.Op == token.EQL) {
				return c19True
			}
			return c19False
		}
	case *ast.CallExpr:
		switch f := v.Fun.(type) {
		case *ast.SelectorExpr:
			if f.Sel.Name == "IsBlocklistedPhantom" {
				return c19True // the phantom under consideration is blocklisted
			}
		case *ast.Ident:
			if fd, ok := e.funcs[f.Name]; ok && e.depth < 3 {
				return e.evalHelper(fd)
			}
		}
	case *ast.Ident:
		if v.Name == "true" {
			return c19True
		}
		if v.Name == "false" {
			return c19False
		}
	}
	return c19Unknown
}

// evalHelper: a helper `func f(reg …) bool { src := *reg.RegistrationSource; return <condition> }`
func (e *c19SrcEval) evalHelper(fd *ast.FuncDecl) c19Tri {
	if fd.Body == nil || len(fd.Body.List) == 0 {
		return c19Unknown
	}
	saved := e.srcVars
	e.srcVars = map[string]bool{}
	e.depth++
	defer func() { e.srcVars = saved; e.depth-- }()
	for i, st := range fd.Body.List {
		last := i == len(fd.Body.List)-1
		switch s := st.(type) {
		case *ast.AssignStmt:
			if len(s.Lhs) == 1 && len(s.Rhs) == 1 {
				if id, ok := s.Lhs[0].(*ast.Ident); ok {
					if e.isSource(s.Rhs[0]) {
						e.srcVars[id.Name] = true
					} else {
						delete(e.srcVars, id.Name)
					}
					continue
				}
			}
			return c19Unknown
		case *ast.ReturnStmt:
			if last && len(s.Results) == 1 {
				return e.eval(s.Results[0])
			}
			return c19Unknown
		default:
			return c19Unknown
		}
	}
	return c19Unknown
}

func c19ExprText(fset *token.FileSet, n ast.Node) string {
	var b bytes.Buffer
	_ = printer.Fprint(&b, fset, n)
	return strings.Join(strings.Fields(b.String()), " ")
}

type c19CondStep struct {
	cond    ast.Expr
	negated bool
}

func c19EndsInReturn(b *ast.BlockStmt) bool {
	if b == nil || len(b.List) == 0 {
		return false
	}
	_, ok := b.List[len(b.List)-1].(*ast.ReturnStmt)
	return ok
}

// c19SourceFacts reads the two source sets off the package in dir.
func c19SourceFacts(dir string) (values []int32, names map[int32]string, exempt, late []int32, earlyText string, lateText []string, lateBeforeAdd bool, err error) {
	fset := token.NewFileSet()
	pkgs, perr := parser.ParseDir(fset, dir, func(fi os.FileInfo) bool { return !strings.HasSuffix(fi.Name(), "_test.go") }, 0)
	if perr != nil {
		return nil, nil, nil, nil, "", nil, false, perr
	}
	funcs := map[string]*ast.FuncDecl{}
	var validate, ingest *ast.FuncDecl
	for _, p := range pkgs {
		for _, f := range p.Files {
			for _, d := range f.Decls {
				fd, ok := d.(*ast.FuncDecl)
				if !ok {
					continue
				}
				if fd.Recv == nil {
					funcs[fd.Name.Name] = fd
					continue
				}
				switch fd.Name.Name {
				case "ValidateRegistration":
					validate = fd
				case "ingestRegistration":
					ingest = fd
				}
			}
		}
	}
	if validate == nil || ingest == nil {
		return nil, nil, nil, nil, "", nil, false, fmt.Errorf("ValidateRegistration / ingestRegistration not found")
	}
	names = map[int32]string{}
	maxV := int32(0)
	for v, n := range pb.RegistrationSource_name {
		values = append(values, v)
		names[v] = n
		if v > maxV {
			maxV = v
		}
	}
	values = append(values, maxV+1) // a value outside the enum
	names[maxV+1] = "<not in the enum>"
	sort.Slice(values, func(i, j int) bool { return values[i] < values[j] })

	// ---- early: if statements of ValidateRegistration whose condition consults the phantom blocklist and whose
	// body returns false
	type earlyGuard struct{ cond ast.Expr }
	var early []earlyGuard
	allRefuse := true
	ast.Inspect(validate.Body, func(n ast.Node) bool {
		ifs, ok := n.(*ast.IfStmt)
		if !ok {
			return true
		}
		returnsFalse := false
		if c19EndsInReturn(ifs.Body) {
			r := ifs.Body.List[len(ifs.Body.List)-1].(*ast.ReturnStmt)
			if len(r.Results) >= 1 {
				if id, ok := r.Results[0].(*ast.Ident); ok && id.Name == "false" {
					returnsFalse = true
				}
			}
		}
		if c19ContainsCall(ifs.Cond, "IsBlocklistedPhantom") {
			if returnsFalse {
				early = append(early, earlyGuard{ifs.Cond})
				earlyText += c19ExprText(fset, ifs.Cond) + " ; "
			}
		} else if !returnsFalse {
			allRefuse = false // a branch of the chain that does not refuse: be conservative
		}
		return true
	})
	for _, v := range values {
		checked := false
		if allRefuse {
			for _, g := range early {
				ev := &c19SrcEval{funcs: funcs, src: v, srcVars: map[string]bool{}}
				if ev.eval(g.cond) == c19True {
					checked = true
				}
			}
		}
		if !checked {
			exempt = append(exempt, v)
		}
	}

	// ---- late: in ingestRegistration, an if statement consulting the phantom blocklist whose body ends in a
	// return, under the conditions of the if statements that enclose it; the outermost must be a statement of the
	// function body that comes before the statement calling AddRegistration
	addIdx := -1
	for i, st := range ingest.Body.List {
		if c19ContainsCall(st, "AddRegistration") && addIdx < 0 {
			addIdx = i
		}
	}
	type lateGuard struct{ steps []c19CondStep }
	var lates []lateGuard
	var walk func(st ast.Stmt, stack []c19CondStep)
	walkBlock := func(b *ast.BlockStmt, stack []c19CondStep) {
		if b == nil {
			return
		}
		for _, s := range b.List {
			walk(s, stack)
		}
	}
	walk = func(st ast.Stmt, stack []c19CondStep) {
		switch s := st.(type) {
		case *ast.IfStmt:
			if s.Init != nil {
				// a condition over freshly computed values: not understood (conservative: not a late check)
				return
			}
			inner := append(append([]c19CondStep(nil), stack...), c19CondStep{s.Cond, false})
			if c19ContainsCall(s.Cond, "IsBlocklistedPhantom") && c19EndsInReturn(s.Body) {
				lates = append(lates, lateGuard{inner})
				var t []string
				for _, c := range inner {
					x := c19ExprText(fset, c.cond)
					if c.negated {
						x = "!(" + x + ")"
					}
					t = append(t, x)
				}
				lateText = append(lateText, strings.Join(t, " && "))
			}
			walkBlock(s.Body, inner)
			if s.Else != nil {
				neg := append(append([]c19CondStep(nil), stack...), c19CondStep{s.Cond, true})
				switch e := s.Else.(type) {
				case *ast.BlockStmt:
					walkBlock(e, neg)
				case *ast.IfStmt:
					walk(e, neg)
				}
			}
		case *ast.BlockStmt:
			walkBlock(s, stack)
		}
	}
	lateBeforeAdd = addIdx >= 0
	for i, st := range ingest.Body.List {
		before := len(lates)
		walk(st, nil)
		if len(lates) > before && (addIdx < 0 || i >= addIdx) {
			// a check at or after the statement that validates the registration is no check
			lates = lates[:before]
			lateBeforeAdd = false
		}
	}
	for _, v := range values {
		checked := false
		for _, g := range lates {
			all := c19True
			for _, c := range g.steps {
				ev := &c19SrcEval{funcs: funcs, src: v, srcVars: map[string]bool{}}
				r := ev.eval(c.cond)
				if c.negated {
					r = c19Not(r)
				}
				all = c19And(all, r)
			}
			if all == c19True {
				checked = true
			}
		}
		if checked {
			late = append(late, v)
		}
	}
	return values, names, exempt, late, strings.TrimSuffix(earlyText, " ; "), lateText, lateBeforeAdd, nil
}

func TestVerifC19SrcGen(t *testing.T) {
	values, names, exempt, late, earlyText, lateText, lateBeforeAdd, err := c19SourceFacts(".")
	if err != nil {
		t.Fatal(err)
	}
	nums := func(l []int32) string {
		var s []string
		for _, v := range l {
			s = append(s, fmt.Sprint(v))
		}
		return "[" + strings.Join(s, ", ") + "]"
	}
	var sb strings.Builder
	sb.WriteString("/-! GENERATED by /verif/go/harness/C19/zz_verif_c19_srcgen_test.go from pkg/station/lib (ValidateRegistration, ingestRegistration) and the RegistrationSource enum. Do not edit. -/\n")
	sb.WriteString("namespace CJ.Gen.C19Sources\n\n")
	sb.WriteString("/-- the values of the RegistrationSource enum, and one value outside it (the last) -/\ndef sources : List (String × Nat) := [")
	for i, v := range values {
		if i > 0 {
			sb.WriteString(", ")
		}
		fmt.Fprintf(&sb, "(%q, %d)", names[v], v)
	}
	sb.WriteString("]\n")
	fmt.Fprintf(&sb, "/-- the value that stands for every number outside the enum -/\ndef outsideEnum : Nat := %d\n", values[len(values)-1])
	fmt.Fprintf(&sb, "/-- sources for which ValidateRegistration does NOT refuse a blocklisted phantom (guards: %s) -/\ndef exemptEarly : List Nat := %s\n", strings.ReplaceAll(earlyText, "-/", "- /"), nums(exempt))
	fmt.Fprintf(&sb, "/-- sources for which ingestRegistration refuses a blocklisted phantom before AddRegistration -/\ndef checkedLate : List Nat := %s\n", nums(late))
	sb.WriteString("/-- the conditions under which the late check runs -/\ndef lateGuards : List String := [")
	for i, s := range lateText {
		if i > 0 {
			sb.WriteString(", ")
		}
		fmt.Fprintf(&sb, "%q", s)
	}
	sb.WriteString("]\n")
	fmt.Fprintf(&sb, "/-- AddRegistration is called in a statement of ingestRegistration's body that follows every late check -/\ndef lateBeforeAdd : Bool := %v\n", lateBeforeAdd)
	sb.WriteString("\nend CJ.Gen.C19Sources\n")
	dir := os.Getenv("VERIF_OUT")
	if dir == "" {
		dir = os.TempDir()
	}
	if err := os.WriteFile(filepath.Join(dir, "C19Sources.lean"), []byte(sb.String()), 0o644); err != nil {
		t.Fatal(err)
	}
}
