//go:build verif

package main

// C19, connection-statistics part: `connManager` is the fifth statistics module main registers (verbose
// list).  It is built the way main builds it (newConnManager(nil)), filled by the real connection handler
// run on scripted connections (every way a probe can end: closed, reset, timed out, other error, before
// and after data, with and without a registration on the phantom, IPv4 and IPv6 phantoms, GeoIP answers
// valid / "unk" / empty / failing) and by the exported tunnel-statistics entry points, and printed and
// reset in between — every call under recover(), and the statistics lock must be free after every call.
// Oracle only (no Lean model of these counters).

import (
	"errors"
	"fmt"
	"io"
	golog "log"
	"net"
	"os"
	"reflect"
	"runtime"
	"strings"
	"syscall"
	"testing"
	"time"

	"github.com/refraction-networking/conjure/internal/conjurepath"
	"github.com/refraction-networking/conjure/internal/vlib"
	"github.com/refraction-networking/conjure/pkg/core"
	cj "github.com/refraction-networking/conjure/pkg/station/lib"
	"github.com/refraction-networking/conjure/pkg/station/log"
	"github.com/refraction-networking/conjure/pkg/transports/wrapping/min"
	pb "github.com/refraction-networking/conjure/proto"
)

type c19mGeo struct {
	cc   string
	asn  uint
	fail string // "", "cc", "asn"
}

func (g *c19mGeo) CC(net.IP) (string, error) {
	if g.fail == "cc" {
		return "", errors.New("verif: cc lookup failed")
	}
	return g.cc, nil
}

func (g *c19mGeo) ASN(net.IP) (uint, error) {
	if g.fail == "asn" {
		return 0, errors.New("verif: asn lookup failed")
	}
	return g.asn, nil
}

type c19mRead struct {
	n   int
	err error
}

type c19mConn struct {
	remote net.Addr
	script []c19mRead
	i      int
}

func (c *c19mConn) Read(p []byte) (int, error) {
	if c.i >= len(c.script) {
		return 0, io.EOF
	}
	r := c.script[c.i]
	c.i++
	n := r.n
	if n > len(p) {
		n = len(p)
	}
	for j := 0; j < n; j++ {
		p[j] = byte(0x40 + j%23)
	}
	return n, r.err
}
func (c *c19mConn) Write(p []byte) (int, error)      { return len(p), nil }
func (c *c19mConn) Close() error                     { return nil }
func (c *c19mConn) LocalAddr() net.Addr              { return &net.TCPAddr{IP: net.IPv4(127, 0, 0, 1), Port: 41245} }
func (c *c19mConn) RemoteAddr() net.Addr             { return c.remote }
func (c *c19mConn) SetDeadline(time.Time) error      { return nil }
func (c *c19mConn) SetReadDeadline(time.Time) error  { return nil }
func (c *c19mConn) SetWriteDeadline(time.Time) error { return nil }

func c19mHead(blk string, n int) string {
	l := strings.Split(blk, "\n")
	if len(l) > n {
		l = l[:n]
	}
	return strings.ReplaceAll(strings.Join(l, " | "), "\t", " ")
}

type c19mTimeout struct{}

func (c19mTimeout) Error() string   { return "verif: i/o timeout" }
func (c19mTimeout) Timeout() bool   { return true }
func (c19mTimeout) Temporary() bool { return true }

func TestVerifC19M(t *testing.T) {
	out := vlib.Open("C19M")
	defer out.Close()
	if vlib.Replay() != "" {
		// the sequences below are fixed and cheap: a replay is the run itself
		fmt.Println("REPLAY: the connection-statistics run is repeated as a whole")
	}
	os.Setenv("PHANTOM_SUBNET_LOCATION", conjurepath.Root+"/pkg/station/lib/test/phantom_subnets.toml")
	logger := log.New(io.Discard, "", golog.Ldate)
	r := vlib.NewRand("C19M")

	rm := cj.NewRegistrationManager(&cj.RegConfig{})
	if rm == nil {
		t.Fatal("NewRegistrationManager returned nil for the zero configuration")
	}
	rm.Logger = logger
	cj.VerifC19StubDetector(rm)
	if err := rm.AddTransport(pb.TransportType_Min, min.Transport{}); err != nil {
		t.Fatal(err)
	}
	// phantoms with a registration (the handler reads and asks the transports) and without (it discards)
	withReg := []net.IP{net.ParseIP("192.122.190.77"), net.ParseIP("2001:48a8:687f:1::77")}
	without := []net.IP{net.ParseIP("192.122.190.78"), net.ParseIP("2001:48a8:687f:1::78")}
	for i, ph := range withReg {
		sec := make([]byte, 32)
		sec[0] = byte(i + 1)
		src := pb.RegistrationSource_API
		rm.AddRegistration(&cj.DecoyRegistration{PhantomIp: ph, Keys: &core.ConjureSharedKeys{SharedSecret: sec},
			Transport: pb.TransportType_Min, RegistrationSource: &src, DecoyListVersion: 7})
		if rm.CountRegistrations(ph) < 1 {
			t.Fatalf("registration on %v was not stored", ph)
		}
	}
	geo := &c19mGeo{cc: "US", asn: 64500}
	rm.GeoIP = geo

	fresh := func() *connManager { return newConnManager(nil) }
	var step string
	guard := func(sig, what string, cm *connManager, f func()) {
		defer func() {
			if p := recover(); p != nil {
				out.OracleFail(sig, fmt.Sprintf("%s panicked: %v", what, p), "c19conn|"+step)
			}
		}()
		out.Checked()
		f()
		if cm != nil {
			if !cm.connStats.m.TryLock() {
				out.OracleFail("C19:stats-lock-left-held", what+" returned with the connection-statistics lock held: the next statistics tick blocks for ever", "c19conn|"+step)
				cm.connStats = fresh().connStats // keep the run going on a usable object
			} else {
				cm.connStats.m.Unlock()
			}
		}
	}
	printAll := func(cm *connManager, when string) {
		step = when
		guard("C19:stats-panic", "connStats.PrintAndReset ("+when+")", cm, func() { cm.PrintAndReset(logger) })
		out.Count("conn:print")
	}

	// ---- the freshly built object, as the first ticks find it
	cm := fresh()
	printAll(cm, "fresh")
	guard("C19:stats-panic", "connStats.Reset (fresh)", cm, func() { cm.Reset() })
	printAll(cm, "fresh, after Reset")

	// ---- registered with the process-wide statistics exactly as main does, printed through them
	step = "through Stats.PrintStats(verbose)"
	cj.Stat().AddStatsModule(cm, true)
	guard("C19:stats-panic", "Stats.PrintStats(true) over connManager", cm, func() { cj.Stat().PrintStats(true) })

	// ---- connections: every ending × phantom kind × family × GeoIP answer
	endings := []struct {
		name string
		err  error
	}{{"eof", io.EOF}, {"closed", net.ErrClosed}, {"reset", &net.OpError{Op: "read", Net: "tcp", Err: syscall.ECONNRESET}},
		{"timeout", c19mTimeout{}}, {"deadline", os.ErrDeadlineExceeded}, {"other", errors.New("verif: some other error")},
		{"epipe", syscall.EPIPE}, {"refused", syscall.ECONNREFUSED}}
	geos := []c19mGeo{{cc: "US", asn: 64500}, {cc: "IR", asn: 197207}, {cc: "unk", asn: 0}, {cc: "", asn: 1}, {cc: "XYZ", asn: 2}, {cc: "us", asn: 3},
		{cc: "US", asn: 0}, {fail: "cc"}, {cc: "US", fail: "asn"}}
	peers := []net.Addr{&net.TCPAddr{IP: net.IPv4(203, 0, 113, 99).To4(), Port: 5555}, &net.TCPAddr{IP: net.ParseIP("2001:db8::99"), Port: 5555},
		&net.UDPAddr{IP: net.IPv4(203, 0, 113, 98), Port: 5}, &net.UnixAddr{Name: "/tmp/x", Net: "unix"}}
	blocked := 0
	conn := func(ph net.IP, peer net.Addr, script []c19mRead, g c19mGeo, what string) {
		if blocked >= 3 {
			return // reported three times already; every further run would wait out the watchdog
		}
		*geo = g
		step = what
		// a handler run takes microseconds (nothing here waits for the network or a clock); one that has
		// not returned after 20 s is blocked for good - on the statistics lock, the only thing it can wait for
		done := make(chan struct{})
		cur := cm
		go func() {
			defer close(done)
			guard("C19:conn-handler-panic", "handleNewTCPConn ("+what+")", cur, func() {
				cur.handleNewTCPConn(rm, &c19mConn{remote: peer, script: script}, ph)
			})
		}()
		select {
		case <-done:
		case <-time.After(20 * time.Second):
			buf := make([]byte, 1<<16)
			buf = buf[:runtime.Stack(buf, true)]
			where := ""
			for _, blk := range strings.Split(string(buf), "\n\n") {
				if strings.Contains(blk, "handleNewTCPConn") {
					where = c19mHead(blk, 7)
				}
			}
			out.OracleFail("C19:stats-lock-left-held", "handleNewTCPConn ("+what+") did not return: blocked on the connection-statistics lock, as the next statistics tick will be: "+where, "c19conn|"+what)
			// the blocked goroutine keeps the old object; go on with a new one
			cm = fresh()
			blocked++
		}
		out.Count("conn:handled")
	}
	n := 0
	for _, phs := range [][]net.IP{without, withReg} {
		for _, ph := range phs {
			for _, end := range endings {
				for gi, g := range geos {
					// data before the end: none, a few bytes (the transport wants more), enough for a verdict, several reads
					for si, reads := range [][]int{{}, {5}, {200}, {3, 4, 200}, {10, 0, 10}} {
						if gi >= 2 && si >= 2 && r.Chance(2, 3) {
							continue
						}
						var script []c19mRead
						for _, k := range reads {
							script = append(script, c19mRead{n: k})
						}
						script = append(script, c19mRead{err: end.err})
						if si == 4 {
							script[len(script)-1].n = 7 // data together with the error
						}
						what := fmt.Sprintf("phantom %v, ending %s, geo %+v, reads %v", ph, end.name, g, reads)
						conn(ph, peers[n%2], script, g, what)
						n++
						if n%37 == 0 {
							printAll(cm, "after "+what)
						}
					}
				}
			}
		}
	}
	conn(withReg[0], peers[2], []c19mRead{{n: 5}, {err: io.EOF}}, geos[0], "UDP peer address")
	conn(withReg[0], peers[3], []c19mRead{{n: 5}, {err: io.EOF}}, geos[0], "non-IP peer address")
	printAll(cm, "after all connections")
	printAll(cm, "twice in a row")

	// ---- the tunnel statistics entry points (cj.ConnectingTpStats), called by name so that a new one is covered
	tv := reflect.ValueOf(cm.connStats)
	var names []string
	for i := 0; i < tv.NumMethod(); i++ {
		m := tv.Type().Method(i)
		if m.Type.NumIn() == 4 && m.Type.In(1).Kind() == reflect.Uint && m.Type.In(2).Kind() == reflect.String && m.Type.In(3).Kind() == reflect.String {
			names = append(names, m.Name)
		}
	}
	if len(names) == 0 {
		out.OracleFail("C19:harness-found-no-tunnel-stats", "connStats has no (asn, cc, transport) entry point", "c19conn|reflect")
	}
	call := func(name string, asn uint, cc, tp string) {
		step = fmt.Sprintf("%s(%d, %q, %q)", name, asn, cc, tp)
		guard("C19:stats-panic", "connStats."+step, cm, func() {
			tv := reflect.ValueOf(cm.connStats)
			tv.MethodByName(name).Call([]reflect.Value{reflect.ValueOf(asn), reflect.ValueOf(cc), reflect.ValueOf(tp)})
		})
		out.Count("conn:tunnel-stat")
	}
	for round := 0; round < 4; round++ {
		// every entry point first on an object that has never seen the ASN (also right after a reset)
		for _, name := range names {
			for _, cc := range []string{"US", "unk", "", "IR"} {
				call(name, uint(64500+round), cc, "dtls")
			}
			if round%2 == 1 {
				printAll(cm, "after "+name)
			}
		}
		printAll(cm, fmt.Sprintf("tunnel statistics round %d", round))
	}
	for i, m := 0, vlib.Budget(400, 6000); i < m; i++ {
		switch r.Intn(12) {
		case 0:
			printAll(cm, "random")
		case 1:
			step = "random Reset"
			guard("C19:stats-panic", "connStats.Reset", cm, func() { cm.Reset() })
		case 2, 3, 4:
			g := geos[r.Intn(len(geos))]
			ph := append(append([]net.IP{}, without...), withReg...)[r.Intn(4)]
			end := endings[r.Intn(len(endings))]
			var script []c19mRead
			for j, k := 0, r.Intn(4); j < k; j++ {
				script = append(script, c19mRead{n: r.Range(0, 300)})
			}
			script = append(script, c19mRead{err: end.err})
			conn(ph, peers[r.Intn(2)], script, g, fmt.Sprintf("random: phantom %v, ending %s, geo %+v, %d reads", ph, end.name, g, len(script)-1))
		default:
			call(names[r.Intn(len(names))], uint(r.Range(0, 5)), []string{"US", "IR", "unk", ""}[r.Intn(4)], []string{"dtls", "min", ""}[r.Intn(3)])
		}
	}
	printAll(cm, "end")
	out.Note(fmt.Sprintf("connection statistics: %d handler runs, tunnel-statistics entry points %v", n, names))
}
