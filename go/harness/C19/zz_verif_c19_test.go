//go:build verif

package lib

// Correspondence + property oracle for C19 (package lib part): generated configuration files through the
// real ParseConfig / liveness.New / NewRegistrationManager, every statistics module printed through the
// real Stats.PrintStats, registration expiry, and reload sequences (the SIGHUP branch of main replayed on
// the real ParseConfig + OnReload) mixing valid, malformed and unreadable configuration and subnet files.

import (
	"context"
	"errors"
	"fmt"
	"go/ast"
	"go/parser"
	"go/token"
	"io"
	golog "log"
	"net"
	"os"
	"path/filepath"
	"reflect"
	"regexp"
	"sort"
	"runtime"
	"strings"
	"sync"
	"testing"
	"time"
	"unsafe"

	"github.com/BurntSushi/toml"
	"github.com/refraction-networking/conjure/internal/vlib"
	"github.com/refraction-networking/conjure/pkg/core"
	"github.com/refraction-networking/conjure/pkg/phantoms"
	"github.com/refraction-networking/conjure/pkg/station/geoip"
	"github.com/refraction-networking/conjure/pkg/station/liveness"
	"github.com/refraction-networking/conjure/pkg/station/log"
	"github.com/refraction-networking/conjure/pkg/transports/wrapping/min"
	pb "github.com/refraction-networking/conjure/proto"
)

// ---------------------------------------------------------------------------------------------
// configuration generator: every optional key has variants unset / zero / set / malformed

type c19Key struct {
	name     string
	variants []string // "" = unset, otherwise the TOML value text
}

var c19LivenessKeys = []c19Key{
	{"cache_expiration_time", []string{"", `""`, `"2.0h"`, `"bogus"`, `"0s"`}},
	{"cache_capacity", []string{"", "0", "3", "-1"}},
	{"cache_expiration_nonlive", []string{"", `""`, `"5m"`, `"1hh"`}},
	{"cache_capacity_nonlive", []string{"", "0", "2"}},
}

var c19PolicyKeys = []c19Key{
	{"covert_blocklist_subnets", []string{"", "[]", `["127.0.0.1/32", "10.0.0.0/8", "fe80::0/16"]`, `["10.0.0.0/8", "fc00::/7 ", "::1/128"]`, `["10.0.0.0/8", "bogus"]`, `["", "10.0.0.0/8"]`, "5"}},
	{"covert_allowlist_subnets", []string{"", "[]", `["198.51.100.0/24", "2001:db8::/32"]`, `[" 198.51.100.0/24"]`, `["198.51.100.0/33"]`}},
	{"covert_blocklist_domains", []string{"", "[]", `["localhost", ".*blocked\\.com$"]`, `["localhost", "("]`, `["[a-"]`}},
	{"phantom_blocklist", []string{"", "[]", `["192.168.0.0/16", "2001::0/64"]`, "[\"192.168.0.0/16\\t\"]", `["x"]`}},
	{"covert_blocklist_public_addrs", []string{"", "true", "false"}},
}

var c19OtherKeys = []c19Key{
	{"geoip_cc_db_path", []string{"", `""`, `"/nonexistent/cc.mmdb"`}},
	{"geoip_asn_db_path", []string{"", `""`, `"/nonexistent/asn.mmdb"`}},
	{"ingest_worker_count", []string{"", "0", "100", "-5"}},
	{"enable_v4", []string{"", "true", "false"}},
	{"enable_v6", []string{"", "true", "false"}},
	{"enable_share_over_api", []string{"", "true", "false"}},
	{"preshare_endpoint", []string{"", `""`, `"http://127.0.0.1:1/x"`}},
	{"log_level", []string{"", `"error"`, `"bogus"`}},
	{"socket_name", []string{"", `"zmq-proxy"`}},
	{"heartbeat_interval", []string{"", "30000", "0"}},
	{"privkey_path", []string{"", `""`}},
}

func c19Render(keys []c19Key, pick []int) string {
	var sb strings.Builder
	for i, k := range keys {
		if v := k.variants[pick[i]]; v != "" {
			fmt.Fprintf(&sb, "%s = %s\n", k.name, v)
		}
	}
	return sb.String()
}

// sample hosts for the domain patterns the generator uses (a string each pattern must match)
var c19PatternSample = map[string]string{"localhost": "localhost", `.*blocked\.com$`: "x.blocked.com", `^marker-`: "marker-"}

// ---------------------------------------------------------------------------------------------

type c19World struct {
	dir        string
	logger     *log.Logger
	subnetsOK  string // path of a valid phantom subnets file
	nextSecret uint64
	ifaceNets  int
	ifaces     []*net.IPNet // the harness's own reading of net.Interfaces()
	ingestSeen map[string]bool
}

func (w *c19World) write(name, content string) string {
	p := filepath.Join(w.dir, name)
	if err := os.WriteFile(p, []byte(content), 0o644); err != nil {
		panic(err)
	}
	return p
}

type c19Load struct {
	kind string // "ok", "err", "panic"
	conf *Config
	msg  string
}

// parseConfig runs the real ParseConfig on a path; a panic is an outcome, not a crash of the harness.
func (w *c19World) parseConfig(path string) (res c19Load) {
	defer func() {
		if r := recover(); r != nil {
			res = c19Load{kind: "panic", msg: fmt.Sprint(r)}
		}
	}()
	os.Setenv("CJ_STATION_CONFIG", path)
	c, err := ParseConfig()
	if err != nil {
		return c19Load{kind: "err", msg: err.Error()}
	}
	return c19Load{kind: "ok", conf: c}
}

func c19Outcomes(entries []string, parse func(string) error) string {
	if len(entries) == 0 {
		return "-"
	}
	var sb strings.Builder
	for _, e := range entries {
		if parse(e) == nil {
			sb.WriteByte('o')
		} else {
			sb.WriteByte('e')
		}
	}
	return sb.String()
}

func c19CIDR(s string) error {
	_, _, err := net.ParseCIDR(strings.TrimSpace(s)) // the oracle of the model: trim, then parse
	return err
}

func c19Regexp(s string) error {
	_, err := regexp.Compile(s)
	return err
}

// loadCase: one configuration file through ParseConfig; correspondence line + enforcement oracle.
func (w *c19World) loadCase(out *vlib.Out, content string) c19Load {
	path := w.write("conf.toml", content)
	replay := "c19load|" + vlib.Hex([]byte(content))
	fail := func(sig, what string) { out.OracleFail(sig, what+" — config "+fmt.Sprintf("%q", content), replay) }

	// what the decoder produces (oracle input of the model)
	var dec Config
	_, derr := toml.DecodeFile(path, &dec)
	decF, b, d, p, a, pub := "R", "-", "-", "-", "-", "0"
	var raw *RegConfig
	switch {
	case derr != nil:
		decF = "E"
	case dec.RegConfig == nil:
		decF = "N"
	default:
		raw = dec.RegConfig
		b = c19Outcomes(raw.CovertBlocklistSubnets, c19CIDR)
		d = c19Outcomes(raw.CovertBlocklistDomains, c19Regexp)
		p = c19Outcomes(raw.PhantomBlocklist, c19CIDR)
		a = c19Outcomes(raw.CovertAllowlistSubnets, c19CIDR)
		pub = vlib.B(raw.CovertBlocklistPublicAddrs)
	}
	line := strings.Join([]string{"load", decF, b, d, p, a, pub, fmt.Sprint(w.ifaceNets)}, "|")

	res := w.parseConfig(path)
	impl := res.kind
	if res.kind == "ok" {
		rc := res.conf.RegConfig
		if rc == nil {
			impl = "ok-without-regconfig"
		} else {
			impl = fmt.Sprintf("ok b=%d d=%d p=%d a=%d allow=%s", len(rc.covertBlocklistSubnets), len(rc.covertBlocklistDomains),
				len(rc.phantomBlocklist), len(rc.covertAllowlistSubnets), vlib.B(rc.enableCovertAllowlist))
		}
	}
	out.Case(line, impl, res.kind == "ok")
	out.Count("load:" + res.kind)

	// ---- property oracle
	out.Checked()
	if res.kind == "panic" {
		sig := "C19:load-panic"
		if strings.Contains(res.msg, "regexp") {
			sig = "C19:load-panic-pattern"
		} else if strings.Contains(res.msg, "nil pointer") {
			sig = "C19:load-panic-no-registration-keys"
		}
		fail(sig, "ParseConfig panicked: "+res.msg)
		return res
	}
	if res.kind != "ok" || raw == nil {
		return res
	}
	rc := res.conf.RegConfig
	// every entry of an accepted configuration is enforced; an entry that cannot be parsed must have failed the
	// load.  "Enforced" is observed on addresses sampled inside every single entry (first, last, middle,
	// pseudo-random) through the decision functions and through ParseOrResolveBlocklisted, so that an entry
	// that is shadowed, merged or dropped because of another entry of the list shows.
	if w.ingestSeen == nil {
		w.ingestSeen = map[string]bool{}
	}
	en := &c19Enforce{rc: rc, raw: raw, fail: fail, out: out, logger: w.logger, ifaces: w.ifaces, seen: w.ingestSeen}
	en.run()
	if raw.CovertBlocklistPublicAddrs && len(raw.CovertAllowlistSubnets) == 0 {
		// covert_blocklist_public_addrs: every address of a local interface is refused (the harness's own
		// reading of net.Interfaces, taken at start)
		for _, n := range w.ifaces {
			out.Checked()
			if !rc.isBlocklistedCovertAddr(n.IP) {
				fail("C19:public-addrs-not-enforced", fmt.Sprintf("covert_blocklist_public_addrs is set but the local interface address %s is permitted as covert address", n.IP))
			}
		}
		out.Count("load:public-addrs-checked")
	}
	// the decisions of the loaded policy on samples of its own entries, as a correspondence case (the reload
	// model with no reload: `ok:<decisions>`)
	if pr, ok := c19LoadProbes(raw); ok {
		ifs := "-"
		if len(w.ifaces) > 0 {
			var t []string
			for _, n := range w.ifaces {
				t = append(t, c19NetTok(n, pr.addrs))
			}
			ifs = strings.Join(t, "/")
		}
		out.Case(fmt.Sprintf("reload2|%d,%d,%d|%s|%s|", len(pr.addrs), len(pr.hosts), len(pr.phantoms), ifs, pr.confFields(path)), "ok:"+pr.observe(rc), true)
		out.Count("load:decisions-compared")
	}
	return res
}

// housekeeping: build the station objects main builds for an accepted configuration and run every
// statistics module, the registration expiry and the liveness construction under recover.
func (w *c19World) housekeeping(out *vlib.Out, content string, res c19Load) *RegistrationManager {
	replay := "c19house|" + vlib.Hex([]byte(content))
	fail := func(sig, what string) { out.OracleFail(sig, what+" — config "+fmt.Sprintf("%q", content), replay) }
	conf := res.conf
	if conf.RegConfig == nil {
		out.Count("accept:no-regconfig")
		return nil
	}
	// start-up: main calls logger.Fatal when liveness.New fails, and dereferences a nil manager when
	// NewRegistrationManager fails: such configurations are not accepted at start-up
	if _, err := liveness.New(conf.LivenessConfig()); err != nil {
		out.Count("accept:liveness-rejected")
		return nil
	}
	os.Setenv("PHANTOM_SUBNET_LOCATION", w.subnetsOK)
	var rm *RegistrationManager
	func() {
		defer func() {
			if r := recover(); r != nil {
				fail("C19:startup-panic", fmt.Sprintf("NewRegistrationManager panicked: %v", r))
			}
		}()
		rm = NewRegistrationManager(conf.RegConfig)
	}()
	if rm == nil {
		out.Count("accept:manager-rejected")
		return nil
	}
	out.Count("accept:accepted")
	rm.Logger = w.logger
	rm.registeredDecoys.transports[pb.TransportType_Min] = min.Transport{}
	rm.registeredDecoys.registerForDetector = func(d *DecoyRegistration) {}
	rm.registeredDecoys.updateInDetector = func(d *DecoyRegistration) {}
	// a little state: two registrations, one old enough to expire
	for i := 0; i < 2; i++ {
		w.nextSecret++
		sec := make([]byte, 32)
		sec[0], sec[1], sec[2] = byte(w.nextSecret), byte(w.nextSecret>>8), byte(w.nextSecret>>16)
		src := pb.RegistrationSource_API
		reg := &DecoyRegistration{PhantomIp: net.ParseIP("192.0.2.9"), Keys: &core.ConjureSharedKeys{SharedSecret: sec},
			Transport: pb.TransportType_Min, RegistrationSource: &src, DecoyListVersion: 7}
		rm.AddRegistration(reg)
		rm.AddRegStats(reg)
	}
	first := true
	for _, to := range rm.registeredDecoys.decoysTimeouts {
		if first {
			to.registrationTime = time.Now().Add(-7 * time.Hour)
			first = false
		}
	}
	guard := func(sig, what string, f func()) {
		defer func() {
			if r := recover(); r != nil {
				fail(sig, fmt.Sprintf("%s panicked: %v", what, r))
			}
		}()
		out.Checked()
		f()
	}
	// the statistics tick exactly as Stats.PrintStats runs it, on a private Stats object
	st := &Stats{logger: w.logger, generations: make(map[uint32]int64), genMutex: &sync.Mutex{}}
	st.AddStatsModule(&ZMQIngester{ZMQConfig: conf.ZMQConfig, epochStart: time.Now()}, false)
	st.AddStatsModule(rm.LivenessTester, false)
	st.AddStatsModule(GetProxyStats(), false)
	st.AddStatsModule(rm, false)
	guard("C19:stats-panic", "Stats.PrintStats", func() { st.PrintStats(false) })
	guard("C19:stats-panic", "Stats.PrintStats(verbose)", func() { st.PrintStats(true) })
	guard("C19:stats-panic", "LivenessTester.PrintStats", func() { rm.LivenessTester.PrintStats(w.logger) })
	guard("C19:stats-panic", "Stats.ResetAll", func() { st.ResetAll() })
	guard("C19:expiry-panic", "RemoveOldRegistrations", func() { rm.RemoveOldRegistrations() })
	guard("C19:stats-panic", "Stats.PrintStats after expiry", func() { st.PrintStats(false) })
	if n := rm.registeredDecoys.TotalRegistrations(); n != 1 {
		fail("C19:expiry-wrong", fmt.Sprintf("%d registrations left after expiry, expected 1", n))
	}
	return rm
}

// c19TickJobs: what the three ticker loops of the station do on a tick (Stats.PrintStats(false) over the modules
// main registers that exist here, Stats.PrintStats(true), RemoveOldRegistrations), over and over until stop is
// closed and once more after that; the text of a panic, or ""
func c19TickJobs(w *c19World, rm *RegistrationManager, stop chan struct{}) (panicked string) {
	defer func() {
		if r := recover(); r != nil {
			panicked = fmt.Sprint(r)
		}
	}()
	st := &Stats{logger: w.logger, generations: make(map[uint32]int64), genMutex: &sync.Mutex{}}
	st.AddStatsModule(rm.LivenessTester, false)
	st.AddStatsModule(GetProxyStats(), false)
	st.AddStatsModule(rm, false)
	for last := false; ; {
		st.PrintStats(false)
		st.PrintStats(true)
		rm.RemoveOldRegistrations()
		if last {
			return ""
		}
		select {
		case <-stop:
			last = true
		default:
			runtime.Gosched()
		}
	}
}

// ---------------------------------------------------------------------------------------------
// reload sequences

type c19GeoMarker struct {
	geoip.EmptyDatabase
	id int
}

// c19Desc: what a configuration file says about the address policies (the harness's own description of
// the file it writes; expectations are computed from it, never from the code's parsed lists)
type c19Desc struct {
	block, domains, phantom, allow []string
	public                         bool
	extra                          string // further lines of the file
}

func c19TomlList(l []string) string {
	var q []string
	for _, e := range l {
		q = append(q, fmt.Sprintf("%q", e))
	}
	return "[" + strings.Join(q, ", ") + "]"
}

func (d c19Desc) toml() string {
	var sb strings.Builder
	sb.WriteString("enable_v4 = true\n")
	if d.block != nil {
		fmt.Fprintf(&sb, "covert_blocklist_subnets = %s\n", c19TomlList(d.block))
	}
	if d.domains != nil {
		fmt.Fprintf(&sb, "covert_blocklist_domains = %s\n", c19TomlList(d.domains))
	}
	if d.phantom != nil {
		fmt.Fprintf(&sb, "phantom_blocklist = %s\n", c19TomlList(d.phantom))
	}
	if d.allow != nil {
		fmt.Fprintf(&sb, "covert_allowlist_subnets = %s\n", c19TomlList(d.allow))
	}
	if d.public {
		sb.WriteString("covert_blocklist_public_addrs = true\n")
	}
	sb.WriteString(d.extra)
	return sb.String()
}

// the valid configuration of reload k: every list carries a marker of k
func c19ValidDesc(k int) c19Desc {
	return c19Desc{
		block:   []string{"127.0.0.0/8", fmt.Sprintf("198.18.%d.0/24", k)},
		domains: []string{"localhost", fmt.Sprintf("^marker-%d\\.test$", k)},
		phantom: []string{fmt.Sprintf("203.0.113.%d/32", k)},
	}
}

func c19Subnets(k int) string {
	return fmt.Sprintf("[Networks]\n  [Networks.%d]\n    Generation = %d\n    [[Networks.%d.WeightedSubnets]]\n      Weight = 1\n      Subnets = [\"192.122.190.0/24\", \"2001:48a8:687f:1::/64\"]\n", 1000+k, 1000+k, 1000+k)
}

func c19SelectorVersion(rm *RegistrationManager, max int) int {
	if rm.PhantomSelector == nil {
		return -3
	}
	got := -1
	for k := 0; k <= max; k++ {
		if _, ok := rm.PhantomSelector.Networks[uint(1000+k)]; ok {
			if got >= 0 {
				return -2
			}
			got = k
		}
	}
	return got
}

// the probe set of one reload sequence: what "the policies in force" are observed on
type c19Probes struct {
	addrs, hosts, phantoms []string
}

func (w *c19World) probes(n int) c19Probes {
	p := c19Probes{addrs: []string{"127.0.0.1", "198.51.100.1", "192.0.2.77", "8.8.8.8", "2001:db8::1", "10.0.0.99", "198.51.100.200", "2001:db8:ffff::1", "192.0.2.1"},
		hosts: []string{"localhost", "example.com"}, phantoms: []string{"192.0.2.9"}}
	for k := 0; k <= n; k++ {
		// .1 lies in every entry that carries the marker of reload k, .200 only in the widest of them
		p.addrs = append(p.addrs, fmt.Sprintf("198.18.%d.1", k), fmt.Sprintf("198.18.%d.200", k))
		p.hosts = append(p.hosts, fmt.Sprintf("marker-%d.test", k), fmt.Sprintf("sub.marker-%d.test", k), fmt.Sprintf("MARKER-%d.test", k))
		p.phantoms = append(p.phantoms, fmt.Sprintf("203.0.113.%d", k))
	}
	seen := map[string]bool{}
	for _, a := range p.addrs {
		seen[a] = true
	}
	for _, n := range w.ifaces { // for covert_blocklist_public_addrs
		if a := n.IP.String(); !seen[a] {
			seen[a] = true
			p.addrs = append(p.addrs, a)
		}
	}
	return p
}

// decisions of the running manager on the probe set: one 0/1 per probe, "refused?"
func (p c19Probes) observe(rm *RegConfig) string {
	var a, h, ph strings.Builder
	for _, x := range p.addrs {
		a.WriteString(vlib.B(rm.isBlocklistedCovertAddr(net.ParseIP(x))))
	}
	for _, x := range p.hosts {
		h.WriteString(vlib.B(rm.isBlocklistedCovertDomain(x)))
	}
	for _, x := range p.phantoms {
		ph.WriteString(vlib.B(rm.IsBlocklistedPhantom(net.ParseIP(x))))
	}
	return a.String() + ":" + h.String() + ":" + ph.String()
}

// expect: the decisions the configuration described by d calls for (property reading: a configured
// allowlist decides alone; otherwise the blocklist, plus the local interfaces when asked for)
func (p c19Probes) expect(d c19Desc, ifaces []*net.IPNet) string {
	nets := func(l []string) []*net.IPNet {
		var r []*net.IPNet
		for _, e := range l {
			if _, n, err := net.ParseCIDR(strings.TrimSpace(e)); err == nil {
				r = append(r, n)
			}
		}
		return r
	}
	in := func(l []*net.IPNet, ip net.IP) bool {
		for _, n := range l {
			if n.Contains(ip) {
				return true
			}
		}
		return false
	}
	block, allow, phantom := nets(d.block), nets(d.allow), nets(d.phantom)
	if d.public {
		block = append(block, ifaces...)
	}
	var a, h, ph strings.Builder
	for _, x := range p.addrs {
		ip := net.ParseIP(x)
		if len(allow) > 0 {
			a.WriteString(vlib.B(!in(allow, ip)))
		} else {
			a.WriteString(vlib.B(in(block, ip)))
		}
	}
	for _, x := range p.hosts {
		m := false
		for _, e := range d.domains {
			if re, err := regexp.Compile(e); err == nil && re.MatchString(x) {
				m = true
			}
		}
		h.WriteString(vlib.B(m))
	}
	for _, x := range p.phantoms {
		ph.WriteString(vlib.B(in(phantom, net.ParseIP(x))))
	}
	return a.String() + ":" + h.String() + ":" + ph.String()
}

// admission: the decision a client's covert address actually meets after a (re)load —
// ParseOrResolveBlocklisted on the live manager, for the literal address probes (one 0/1 per probe: refused?)
func (p c19Probes) admission(rm *RegConfig) string {
	var a strings.Builder
	for _, x := range p.addrs {
		got, _ := rm.ParseOrResolveBlocklisted(net.JoinHostPort(x, "443"))
		a.WriteString(vlib.B(got == ""))
	}
	return a.String()
}

// expectAdmission: a literal is refused iff the address policy in force refuses the address or a domain
// pattern in force matches its text
func (p c19Probes) expectAdmission(d c19Desc, ifaces []*net.IPNet) string {
	b := []byte(strings.SplitN(p.expect(d, ifaces), ":", 2)[0])
	for i, x := range p.addrs {
		for _, e := range d.domains {
			if re, err := regexp.Compile(e); err == nil && re.MatchString(x) {
				b[i] = '1'
			}
		}
	}
	return string(b)
}

// tokens for the model: per configured entry what the real parser and the real Contains / MatchString
// answer on the probe set (`e`, or `o` + indices of the probes the entry covers)
func c19NetTok(n *net.IPNet, probes []string) string {
	var idx []string
	for i, x := range probes {
		if n.Contains(net.ParseIP(x)) {
			idx = append(idx, fmt.Sprint(i))
		}
	}
	return "o" + strings.Join(idx, ".")
}

func c19ListToks(entries []string, tok func(string) string) string {
	if len(entries) == 0 {
		return "-"
	}
	var t []string
	for _, e := range entries {
		t = append(t, tok(e))
	}
	return strings.Join(t, "/")
}

// confFields decodes the file a (re)load will find, as the model's oracle input:
// `<decode>,<block>,<domains>,<phantom>,<allow>,<public>`
func (p c19Probes) confFields(path string) string {
	var dec Config
	_, derr := toml.DecodeFile(path, &dec)
	switch {
	case derr != nil:
		return "E,-,-,-,-,0"
	case dec.RegConfig == nil:
		return "N,-,-,-,-,0"
	}
	raw := dec.RegConfig
	cidr := func(probes []string) func(string) string {
		return func(e string) string {
			_, n, err := net.ParseCIDR(strings.TrimSpace(e))
			if err != nil {
				return "e"
			}
			return c19NetTok(n, probes)
		}
	}
	pat := func(e string) string {
		re, err := regexp.Compile(e)
		if err != nil {
			return "e"
		}
		var idx []string
		for i, x := range p.hosts {
			if re.MatchString(x) {
				idx = append(idx, fmt.Sprint(i))
			}
		}
		return "o" + strings.Join(idx, ".")
	}
	return strings.Join([]string{"R", c19ListToks(raw.CovertBlocklistSubnets, cidr(p.addrs)), c19ListToks(raw.CovertBlocklistDomains, pat),
		c19ListToks(raw.PhantomBlocklist, cidr(p.phantoms)), c19ListToks(raw.CovertAllowlistSubnets, cidr(p.addrs)), vlib.B(raw.CovertBlocklistPublicAddrs)}, ",")
}

// c19HeldLocks: every sync.Mutex / sync.RWMutex reachable from the manager (its own fields, embedded
// structures, structures of this package it points to) must be free when no call is in progress.
func c19HeldLocks(root any) []string {
	var held []string
	seen := map[uintptr]bool{}
	pkg := reflect.TypeOf(RegistrationManager{}).PkgPath()
	var walk func(v reflect.Value, path string, depth int)
	walk = func(v reflect.Value, path string, depth int) {
		if depth > 3 || !v.IsValid() {
			return
		}
		switch v.Kind() {
		case reflect.Ptr:
			if v.IsNil() || v.Elem().Kind() != reflect.Struct || seen[v.Pointer()] {
				return
			}
			seen[v.Pointer()] = true
			walk(v.Elem(), path, depth)
		case reflect.Struct:
			if !v.CanAddr() {
				return
			}
			switch v.Type() {
			case reflect.TypeOf(sync.RWMutex{}):
				m := (*sync.RWMutex)(unsafe.Pointer(v.UnsafeAddr()))
				if !m.TryLock() {
					held = append(held, path)
				} else {
					m.Unlock()
				}
				return
			case reflect.TypeOf(sync.Mutex{}):
				m := (*sync.Mutex)(unsafe.Pointer(v.UnsafeAddr()))
				if !m.TryLock() {
					held = append(held, path)
				} else {
					m.Unlock()
				}
				return
			}
			if v.Type().PkgPath() != pkg {
				return
			}
			for i := 0; i < v.NumField(); i++ {
				f := v.Type().Field(i)
				walk(v.Field(i), path+"."+f.Name, depth+1)
			}
		}
	}
	walk(reflect.ValueOf(root), "rm", 0)
	sort.Strings(held)
	return held
}

// One reload.  Which of the three loading steps of a reload fail is a dimension of its own: the
// configuration file (conf: kinds that load / kinds that do not), the phantom subnets file (subnets) and
// the GeoIP databases the configuration names (geo) vary independently, so that every subset of
// {configuration, subnets, GeoIP} fails in some event, next to every kind of configuration.
type c19Event struct {
	conf    string // kind of configuration file, see c19ConfKinds
	subnets string // valid, bad-toml, unreadable, bad-generation
	geo     string // "" / none (no database named: ErrMissingDB, loads), nonexistent, garbage, garbage-asn, directory (fail)
}

func (e c19Event) String() string {
	if e.geo == "" {
		return e.conf + "/" + e.subnets
	}
	return e.conf + "/" + e.subnets + "/" + e.geo
}

func c19ParseEvent(s string) (c19Event, bool) {
	p := strings.Split(s, "/")
	switch len(p) {
	case 2:
		return c19Event{p[0], p[1], ""}, true
	case 3:
		return c19Event{p[0], p[1], p[2]}, true
	}
	return c19Event{}, false
}

// the GeoIP dimension: kinds that load (no database named) and kinds that fail
var c19GeoKinds = []string{"none", "nonexistent", "garbage", "garbage-asn", "directory"}

var c19ConfKinds = []string{"valid", "valid-allow", "valid-geobad", "valid-allow2", "valid-public", "toggle-allow", "valid-geogarbage",
	"valid-related", "valid-related-allow",
	"bad-subnet", "bad-allow", "bad-pattern", "bad-toml", "unreadable", "directory", "empty", "zmq-only", "bad-type", "bad-bare-ip", "bad-phantom", "bad-related"}

const c19ValidKinds = 9 // the first entries of c19ConfKinds load

func c19ConfLoads(kind string) bool {
	return strings.HasPrefix(kind, "valid") || kind == "toggle-allow" || kind == "empty" || kind == "zmq-only"
}

var c19SubnetKinds = []string{"valid", "valid", "bad-toml", "unreadable", "bad-generation"}

func (w *c19World) reloadCase(out *vlib.Out, evs []c19Event) {
	var desc []string
	for _, e := range evs {
		desc = append(desc, e.String())
	}
	replay := "c19reload|" + strings.Join(desc, ",")
	fail := func(sig, what string) { out.OracleFail(sig, what+" — reload sequence "+strings.Join(desc, ","), replay) }
	pr := w.probes(len(evs))

	// start-up with configuration 0 and subnets file 0
	os.Setenv("PHANTOM_SUBNET_LOCATION", w.write("subnets.toml", c19Subnets(0)))
	inForce := c19ValidDesc(0) // the harness's own account of the policies that must be in force
	startPath := w.write("conf.toml", inForce.toml())
	startFields := pr.confFields(startPath)
	res := w.parseConfig(startPath)
	if res.kind != "ok" {
		fail("C19:valid-config-rejected", "the start-up configuration of the reload harness was not accepted: "+res.msg)
		return
	}
	rm := NewRegistrationManager(res.conf.RegConfig)
	if rm == nil {
		fail("C19:valid-config-rejected", "NewRegistrationManager returned nil for a valid configuration")
		return
	}
	rm.Logger = w.logger
	var mline, outs []string
	dead := false
	sv, gv := 0, 0
	start := pr.observe(rm.RegConfig)
	out.Checked()
	if want := pr.expect(inForce, w.ifaces); start != want {
		fail("C19:entry-not-enforced", fmt.Sprintf("start-up: decisions %s on the probe set, the configuration calls for %s", start, want))
	}
	if adm, wantAdm := pr.admission(rm.RegConfig), pr.expectAdmission(inForce, w.ifaces); adm != wantAdm {
		fail("C19:admission-not-by-policy-in-force", fmt.Sprintf("start-up: ParseOrResolveBlocklisted refuses %s of the literal probes %v, the configuration calls for %s", adm, pr.addrs, wantAdm))
	}
	outs = append(outs, "ok:"+start)
	garbage := w.write("garbage.mmdb", "this is not a MaxMind database\n")
	for i, e := range evs {
		k := i + 1
		if dead {
			mline = append(mline, "E,-,-,-,-,0,e,e")
			outs = append(outs, "panic")
			continue
		}
		// the files this reload finds
		confPath := filepath.Join(w.dir, "conf.toml")
		nd := c19ValidDesc(k) // what the file of this reload describes
		switch e.conf {
		case "valid":
		case "valid-allow":
			nd.allow = []string{"198.51.100.0/24"}
		case "valid-allow2":
			nd.allow = []string{"192.0.2.0/24", "2001:db8::/32"}
		case "valid-public":
			nd.public = true
		case "valid-geobad":
			nd.extra = "geoip_cc_db_path = \"/nonexistent/cc.mmdb\"\n"
		case "valid-geogarbage":
			nd.extra = fmt.Sprintf("geoip_cc_db_path = %q\ngeoip_asn_db_path = %q\n", garbage, garbage)
		case "toggle-allow":
			// the configuration in force with nothing changed but the allowlist
			nd = inForce
			nd.extra = ""
			if len(nd.allow) > 0 {
				nd.allow = nil
			} else {
				nd.allow = []string{"198.51.100.0/24"}
			}
		case "valid-related":
			// entries that are related to one another: same network address with different prefix lengths
			// (narrow first), an exact repetition, a pattern that is a suffix / a case-insensitive form of another
			nd.block = []string{"127.0.0.0/8", fmt.Sprintf("198.18.%d.0/25", k), fmt.Sprintf("198.18.%d.0/24", k), fmt.Sprintf("198.18.%d.0/24", k)}
			nd.domains = []string{"localhost", fmt.Sprintf("^marker-%d\\.test$", k), fmt.Sprintf("marker-%d\\.test$", k), fmt.Sprintf("(?i)^marker-%d\\.test$", k)}
			nd.phantom = []string{fmt.Sprintf("203.0.113.%d/32", k), fmt.Sprintf("203.0.113.%d/31", k), fmt.Sprintf("203.0.113.%d/32", k)}
		case "valid-related-allow":
			nd.block = []string{fmt.Sprintf("198.18.%d.0/24", k), "127.0.0.0/8", fmt.Sprintf("198.18.%d.0/25", k)}
			nd.allow = []string{"198.51.100.0/30", "198.51.100.0/24", "2001:db8::/48", "2001:db8::/32", "198.51.100.0/30"}
		case "bad-subnet":
			nd.block = append(nd.block, "10.0.0.0/99")
		case "bad-phantom":
			nd.phantom = append(nd.phantom, "203.0.113.0/33")
		case "bad-related":
			// the malformed entry repeats the network address of a well-formed one
			nd.block = []string{fmt.Sprintf("198.18.%d.0/24", k), fmt.Sprintf("198.18.%d.0/240", k)}
		case "bad-bare-ip":
			nd.block = append(nd.block, "10.0.0.1")
		case "bad-allow":
			nd.allow = []string{"198.51.100.0/24", "not a subnet"}
		case "bad-pattern":
			nd.domains = append(nd.domains, "(unclosed")
		case "bad-toml":
			nd.extra = "this is = = not toml\n"
		case "bad-type":
			nd.extra = "ingest_worker_count = \"many\"\n"
		case "empty", "zmq-only":
			nd = c19Desc{}
		}
		// the GeoIP databases the file names: an independent dimension (the two kinds of configuration that
		// name databases themselves keep theirs)
		geoExtra := ""
		if e.conf != "valid-geobad" && e.conf != "valid-geogarbage" {
			switch e.geo {
			case "nonexistent":
				geoExtra = "geoip_cc_db_path = \"/nonexistent/cc.mmdb\"\n"
			case "garbage":
				geoExtra = fmt.Sprintf("geoip_cc_db_path = %q\ngeoip_asn_db_path = %q\n", garbage, garbage)
			case "garbage-asn":
				geoExtra = fmt.Sprintf("geoip_asn_db_path = %q\n", garbage)
			case "directory":
				geoExtra = fmt.Sprintf("geoip_cc_db_path = %q\n", w.dir)
			}
		}
		switch e.conf {
		case "unreadable":
			confPath = filepath.Join(w.dir, "does-not-exist.toml")
		case "directory":
			confPath = w.dir
		case "empty":
			w.write("conf.toml", geoExtra)
		case "zmq-only":
			w.write("conf.toml", "socket_name = \"zmq-proxy\"\nlog_level = \"error\"\n"+geoExtra)
		default:
			w.write("conf.toml", nd.toml()+geoExtra)
		}
		subPath := filepath.Join(w.dir, "subnets.toml")
		switch e.subnets {
		case "valid":
			w.write("subnets.toml", c19Subnets(k))
		case "bad-toml":
			w.write("subnets.toml", "[Networks\n  broken")
		case "bad-generation":
			w.write("subnets.toml", strings.Replace(c19Subnets(k), fmt.Sprintf("[Networks.%d]", 1000+k), "[Networks.abc]", 1))
		case "unreadable":
			subPath = filepath.Join(w.dir, "no-such-subnets.toml")
		}
		os.Setenv("PHANTOM_SUBNET_LOCATION", subPath)

		// what each loading step answers (oracle inputs of the model)
		pre := w.parseConfig(confPath)
		_, serr := phantoms.NewPhantomIPSelector()
		sf := "o"
		if serr != nil {
			sf = "e"
		}
		gf := "e"
		if pre.kind == "ok" && pre.conf.RegConfig != nil {
			if _, gerr := geoip.New(pre.conf.RegConfig.DBConfig); gerr == nil || errors.Is(gerr, geoip.ErrMissingDB) {
				gf = "m"
			}
		}
		cfields := pr.confFields(confPath)
		if pre.kind == "panic" {
			cfields = "R,p,-,-,-,0" // the model's way of saying: the parser panicked
		}
		mline = append(mline, cfields+","+sf+","+gf)

		// the SIGHUP branch of main, on the real functions
		before := pr.observe(rm.RegConfig)
		selBefore := rm.PhantomSelector
		marker := &c19GeoMarker{id: k}
		rm.GeoIP = marker
		panicked := ""
		reloaded := false
		cfgBefore := c19CfgRepr(rm.RegConfig)
		var newConf *Config
		// the periodic jobs of the station (the three ticker loops of CJ/Gen/C19Housekeeping.lean) keep running
		// while the reload is under way, and run once more after it
		tickStop, tickDone := make(chan struct{}), make(chan string, 1)
		go func() { tickDone <- c19TickJobs(w, rm, tickStop) }()
		func() {
			defer func() {
				if r := recover(); r != nil {
					panicked = fmt.Sprint(r)
				}
			}()
			var err error
			newConf, err = ParseConfig()
			if err != nil {
				return
			}
			reloaded = true
			rm.OnReload(newConf.RegConfig)
		}()
		close(tickStop)
		out.Checked()
		if p := <-tickDone; p != "" {
			fail("C19:housekeeping-panic", fmt.Sprintf("a periodic job panicked while / after reload %d (%s): %s", k, e.String(), p))
		}
		out.Count("tick-jobs-around-reload")
		if panicked != "" {
			sig := "C19:reload-panic"
			if strings.Contains(panicked, "regexp") {
				sig = "C19:reload-panic-pattern"
			} else if strings.Contains(panicked, "nil pointer") {
				sig = "C19:reload-panic-no-registration-keys"
			}
			fail(sig, fmt.Sprintf("reload %d (%s) panicked: %s", k, e.String(), panicked))
			dead = true
			outs = append(outs, "panic")
			continue
		}
		// OnReload field by field, next to the program extracted from its source (CJ/Gen/C19Reload.lean): where
		// the selector, the GeoIP database and every field of RegConfig come from after the call
		held := c19HeldLocks(rm)
		if reloaded && newConf != nil && newConf.RegConfig != nil {
			line, got := c19OnReloadCase(rm, cfgBefore, c19CfgRepr(newConf.RegConfig), selBefore, Database(marker), sf, gf, len(held))
			out.Case(line, got, true)
			out.Count("onreload:" + strings.SplitN(got, " cfg=", 2)[0])
		}
		// no lock may stay held once the reload has returned (the readers would block for ever)
		out.Checked()
		if len(held) > 0 {
			fail("C19:reload-left-lock-held", fmt.Sprintf("after reload %d (%s) these locks are still held: %s", k, e.String(), strings.Join(held, ", ")))
			dead = true
			outs = append(outs, "panic")
			continue
		}
		// observed versions
		if rm.GeoIPDatabase() != Database(marker) {
			gv = k
		}
		// the GeoIP part: replaced iff the configuration loaded and the databases it names loaded (or are not
		// named at all); a failed load must not install its (nil) result
		out.Checked()
		if geoNew := rm.GeoIPDatabase() != Database(marker); geoNew && (!reloaded || gf == "e") {
			fail("C19:failed-reload-changed-state", fmt.Sprintf("reload %d (%s): the GeoIP databases did not load (configuration loaded: %v) but the GeoIP database in force was replaced (by %v)", k, e.String(), reloaded, rm.GeoIPDatabase()))
		} else if !geoNew && reloaded && gf != "e" {
			fail("C19:reload-geoip-not-replaced", fmt.Sprintf("reload %d (%s): configuration and GeoIP databases loaded but the previous GeoIP database is still in force", k, e.String()))
		}
		nsv := c19SelectorVersion(rm, len(evs))
		if rm.PhantomSelector == nil {
			fail("C19:failed-reload-changed-state", fmt.Sprintf("after reload %d (%s) the station has no phantom selector at all (the next registration dereferences nil)", k, e.String()))
			dead = true
			outs = append(outs, "panic")
			continue
		}
		if rm.Selector() != rm.PhantomSelector {
			fail("C19:reload-part-torn", fmt.Sprintf("after reload %d Selector() does not return the selector in force", k))
		}
		after := pr.observe(rm.RegConfig)
		// ---- property oracle: each part is new only if its new version loaded, otherwise untouched
		if !reloaded {
			if after != before || rm.PhantomSelector != selBefore || rm.GeoIP != Database(marker) {
				fail("C19:failed-reload-changed-state", fmt.Sprintf("reload %d failed to load its configuration but the running state changed (decisions %s -> %s)", k, before, after))
			}
		} else {
			want := pr.expect(nd, w.ifaces)
			if after != want {
				// every part from one of the two versions = a mix; anything else = not what was loaded
				sig := "C19:reload-policy-not-replaced"
				ap, wp, bp := strings.Split(after, ":"), strings.Split(want, ":"), strings.Split(before, ":")
				mixed := after != before
				for x := range ap {
					if ap[x] != wp[x] && ap[x] != bp[x] {
						mixed = false
					}
				}
				if mixed {
					sig = "C19:reload-part-torn"
				}
				fail(sig, fmt.Sprintf("reload %d (%s) loaded without error: decisions on the probe set are %s, the new configuration calls for %s (before the reload: %s; probes %v / %v / %v)", k, e.String(), after, want, before, pr.addrs, pr.hosts, pr.phantoms))
			}
			inForce = nd
			if serr != nil && rm.PhantomSelector != selBefore {
				fail("C19:failed-reload-changed-state", fmt.Sprintf("reload %d: the subnets file did not load but the phantom selector was replaced", k))
			}
			if serr == nil && nsv != k {
				fail("C19:reload-selector-not-replaced", fmt.Sprintf("reload %d: the subnets file loaded but the selector in force is version %d", k, nsv))
			}
		}
		// the same on the path a client's covert address takes: ParseOrResolveBlocklisted on the live manager
		// decides by the version in force (the new one iff the configuration loaded — whatever happened to the
		// subnets file and the GeoIP databases of this reload)
		out.Checked()
		if adm, wantAdm := pr.admission(rm.RegConfig), pr.expectAdmission(inForce, w.ifaces); adm != wantAdm {
			fail("C19:admission-not-by-policy-in-force", fmt.Sprintf("after reload %d (%s, configuration loaded: %v): ParseOrResolveBlocklisted refuses %s of the literal probes %v, the version in force calls for %s",
				k, e.String(), reloaded, adm, pr.addrs, wantAdm))
		}
		// … and at the outcome of the ingest on the running manager: no registration, from whatever source, whose
		// phantom the version in force blocklists becomes connectable
		if wp := strings.Split(pr.expect(inForce, w.ifaces), ":"); len(wp) == 3 {
			covert := ""
			for i, x := range pr.addrs {
				if wp[0][i] == '0' && !net.ParseIP(x).IsUnspecified() {
					covert = net.JoinHostPort(x, "443")
					break
				}
			}
			if covert != "" {
				rm.registeredDecoys.transports[pb.TransportType_Min] = min.Transport{}
				ing := &c19Ingester{rm: rm, secret: uint64(k) << 32}
				for i, x := range pr.phantoms {
					if wp[2][i] != '1' {
						continue
					}
					for _, src := range c19Sources() {
						out.Checked()
						if c, p := ing.ingest(src, net.ParseIP(x), covert); p != "" {
							fail("C19:ingest-panic", fmt.Sprintf("after reload %d (%s): ingestRegistration panicked for source %d, phantom %s: %s", k, e.String(), src, x, p))
						} else if c {
							fail("C19:phantom-entry-not-enforced-for-source", fmt.Sprintf("after reload %d (%s, configuration loaded: %v) the phantom blocklist in force covers %s, but a registration from source %d (%s) with that phantom and covert %q became connectable",
								k, e.String(), reloaded, x, src, pb.RegistrationSource(src), covert))
						}
					}
				}
			}
		}
		if (strings.HasPrefix(e.conf, "bad-") || e.conf == "unreadable" || e.conf == "directory") && reloaded {
			fail("C19:malformed-reload-accepted", fmt.Sprintf("reload %d: a configuration with a malformed entry (%s) was loaded", k, e.conf))
		}
		if !reloaded {
			nsv = sv // nothing changed (checked above on the decisions and the pointers)
		} else if serr != nil {
			nsv = sv
		}
		sv = nsv
		outs = append(outs, fmt.Sprintf("s%dg%d:%s", sv, gv, after))
		out.Count("reload:" + e.conf + ":" + map[bool]string{true: "loaded", false: "refused"}[reloaded])
		// which loading steps failed in this event (observed): the subset of {configuration, subnets, GeoIP}
		out.Count("reload-failed-steps:{" + strings.Join([]string{map[bool]string{true: "", false: "conf"}[reloaded], map[bool]string{true: "", false: "subnets"}[serr == nil],
			map[bool]string{true: "geoip", false: ""}[geoExtra != "" || e.conf == "valid-geobad" || e.conf == "valid-geogarbage"]}, ",") + "}")
	}
	ifs := "-"
	if len(w.ifaces) > 0 {
		var t []string
		for _, n := range w.ifaces {
			t = append(t, c19NetTok(n, pr.addrs))
		}
		ifs = strings.Join(t, "/")
	}
	out.Case(fmt.Sprintf("reload2|%d,%d,%d|%s|%s|%s", len(pr.addrs), len(pr.hosts), len(pr.phantoms), ifs, startFields, strings.Join(mline, ";")),
		strings.Join(outs, ";"), true)
}

// c19CfgRepr: one comparable token per field of a RegConfig (the mutex excepted): slices by backing array and
// length (OnReload copies slice headers), pointers by address, everything else by value.  Read through reflect
// without Interface(), so unexported fields are included and a field added later is picked up by itself.
func c19CfgRepr(rc *RegConfig) map[string]string {
	m := map[string]string{}
	v := reflect.ValueOf(rc).Elem()
	for i := 0; i < v.NumField(); i++ {
		name := v.Type().Field(i).Name
		if name == "policyMu" {
			continue
		}
		f := v.Field(i)
		switch f.Kind() {
		case reflect.Slice:
			m[name] = fmt.Sprintf("s%x/%d", f.Pointer(), f.Len())
		case reflect.Ptr, reflect.Map, reflect.Chan, reflect.Func, reflect.UnsafePointer:
			m[name] = fmt.Sprintf("p%x", f.Pointer())
		case reflect.Interface:
			if f.IsNil() {
				m[name] = "inil"
			} else {
				m[name] = fmt.Sprintf("i%s/%v", f.Elem().Type(), f.Elem().Kind() == reflect.Ptr && f.Elem().Pointer() != 0)
			}
		case reflect.Bool:
			m[name] = fmt.Sprint(f.Bool())
		case reflect.Int, reflect.Int8, reflect.Int16, reflect.Int32, reflect.Int64:
			m[name] = fmt.Sprint(f.Int())
		case reflect.Uint, reflect.Uint8, reflect.Uint16, reflect.Uint32, reflect.Uint64:
			m[name] = fmt.Sprint(f.Uint())
		case reflect.String:
			m[name] = "q" + f.String()
		default:
			m[name] = "?" + f.Kind().String()
		}
	}
	return m
}

// c19OnReloadCase: the model line and the implementation's answer for one call of OnReload.  Only the fields in
// which the running and the new configuration differ can tell "copied" from "untouched"; their names go on the line.
func c19OnReloadCase(rm *RegistrationManager, before, fresh map[string]string, selBefore *phantoms.PhantomIPSelector, marker Database, sf, gf string, held int) (string, string) {
	after := c19CfgRepr(rm.RegConfig)
	var names []string
	for n := range before {
		if before[n] != fresh[n] {
			names = append(names, n)
		}
	}
	sort.Strings(names)
	var cfg []string
	for _, n := range names {
		switch after[n] {
		case fresh[n]:
			cfg = append(cfg, n+":n")
		case before[n]:
			cfg = append(cfg, n+":o")
		default:
			cfg = append(cfg, n+":x")
		}
	}
	sel := "new"
	if rm.PhantomSelector == nil {
		sel = "nil"
	} else if rm.PhantomSelector == selBefore {
		sel = "old"
	}
	geo := "new"
	if rm.GeoIP == nil {
		geo = "nil"
	} else if rm.GeoIP == marker {
		geo = "old"
	}
	fl := strings.Join(names, ",")
	if fl == "" {
		fl = "-"
	}
	return fmt.Sprintf("onreload|%s|%s|%s", sf, gf, fl), fmt.Sprintf("sel=%s geo=%s cfg=%s held=%d", sel, geo, strings.Join(cfg, ","), held)
}

// Database is the interface type of RegistrationManager.GeoIP (for comparing interface values)
type Database = geoip.Database

// the SIGHUP branch of main must have the shape the harness replays: OnReload only in the branch where
// ParseConfig returned no error.
func c19CheckMainReload(out *vlib.Out) {
	root := os.Getenv("VERIF_SCRATCH_REPO")
	if root == "" {
		root = "../../.."
	}
	fset := token.NewFileSet()
	f, err := parser.ParseFile(fset, filepath.Join(root, "cmd", "application", "main.go"), nil, 0)
	if err != nil {
		out.OracleFail("C19:main-unreadable", err.Error(), "source cmd/application/main.go")
		return
	}
	calls := func(n ast.Node, name string) bool {
		found := false
		if n == nil {
			return false
		}
		ast.Inspect(n, func(m ast.Node) bool {
			if c, ok := m.(*ast.CallExpr); ok {
				if s, ok := c.Fun.(*ast.SelectorExpr); ok && s.Sel.Name == name {
					found = true
				}
			}
			return true
		})
		return found
	}
	ok, onReloadCalls := false, 0
	ast.Inspect(f, func(n ast.Node) bool {
		if c, isCall := n.(*ast.CallExpr); isCall {
			if s, isSel := c.Fun.(*ast.SelectorExpr); isSel && s.Sel.Name == "OnReload" {
				onReloadCalls++
			}
		}
		blk, isBlk := n.(*ast.BlockStmt)
		if !isBlk {
			return true
		}
		for i, st := range blk.List {
			as, isAs := st.(*ast.AssignStmt)
			if !isAs || len(as.Rhs) != 1 || !calls(as.Rhs[0], "ParseConfig") || len(as.Lhs) != 2 || i+1 >= len(blk.List) {
				continue
			}
			ifs, isIf := blk.List[i+1].(*ast.IfStmt)
			if !isIf {
				continue
			}
			if be, isBin := ifs.Cond.(*ast.BinaryExpr); isBin && be.Op == token.NEQ && fmt.Sprint(be.X) == "err" && fmt.Sprint(be.Y) == "nil" {
				if !calls(ifs.Body, "OnReload") && calls(ifs.Else, "OnReload") {
					ok = true
				}
			}
		}
		return true
	})
	out.Checked()
	if !ok || onReloadCalls != 1 {
		out.OracleFail("C19:main-reload-shape", fmt.Sprintf("the SIGHUP branch of main no longer calls OnReload only when ParseConfig succeeded (OnReload calls: %d)", onReloadCalls), "source cmd/application/main.go")
	}
}

// ---------------------------------------------------------------------------------------------

func TestVerifC19(t *testing.T) {
	out := vlib.Open("C19")
	defer out.Close()
	dir, err := os.MkdirTemp("", "c19")
	if err != nil {
		t.Fatal(err)
	}
	defer os.RemoveAll(dir)
	w := &c19World{dir: dir, logger: log.New(io.Discard, "", golog.Ldate)}
	w.subnetsOK = w.write("subnets-ok.toml", c19Subnets(0))
	if ifs, err := net.Interfaces(); err == nil {
		for _, i := range ifs {
			if addrs, err := i.Addrs(); err == nil {
				for _, a := range addrs {
					if n, ok := a.(*net.IPNet); ok {
						w.ifaceNets++
						w.ifaces = append(w.ifaces, n)
					}
				}
			}
		}
	}
	if rp := vlib.Replay(); rp != "" {
		w.replay(t, out, rp)
		return
	}
	c19CheckMainReload(out)
	r := vlib.NewRand("C19")
	// no name of this harness needs the network: a lookup that gets as far as DNS fails at once
	defer func(old *net.Resolver) { net.DefaultResolver = old }(net.DefaultResolver)
	net.DefaultResolver = &net.Resolver{PreferGo: true, Dial: func(ctx context.Context, network, address string) (net.Conn, error) {
		return nil, errors.New("no DNS in the C19 harness")
	}}
	one := func(content string) {
		res := w.loadCase(out, content)
		if res.kind == "ok" {
			w.housekeeping(out, content, res)
		}
	}

	// ---- corpus: the shipped configuration and hand-written files
	root := os.Getenv("VERIF_SCRATCH_REPO")
	if root == "" {
		root = "../../.."
	}
	if b, err := os.ReadFile(filepath.Join(root, "cmd", "application", "app_config.toml")); err == nil {
		one(string(b))
		out.Count("corpus:shipped-app_config")
	} else {
		out.OracleFail("C19:shipped-config-unreadable", err.Error(), "cmd/application/app_config.toml")
	}
	for _, c := range []string{
		"", "log_level = \"error\"\n", "socket_name = \"zmq-proxy\"\n", "enable_v4 = true\n",
		"cache_expiration_time = \"2.0h\"\n", "cache_expiration_nonlive = \"5m\"\n",
		"cache_expiration_time = \"2.0h\"\ncache_capacity = 5\n", "cache_expiration_time = \"2.0h\"\ncache_expiration_nonlive = \"5m\"\ncache_capacity_nonlive = 5\n",
		"covert_blocklist_subnets = [\"fc00::/7 \"]\n", "covert_blocklist_subnets = [\" \"]\n", "covert_blocklist_domains = [\"(\"]\n",
		"covert_allowlist_subnets = [\"bogus\"]\n", "phantom_blocklist = [\"10.0.0.0/8\", \"10.0.0.0/-1\"]\n",
		"covert_blocklist_subnets = \"10.0.0.0/8\"\n", "garbage ==", "[[connect_sockets]]\naddress = \"tcp://x:1\"\n",
		"covert_blocklist_public_addrs = true\n", "covert_blocklist_public_addrs = true\ncovert_allowlist_subnets = [\"198.51.100.0/24\"]\n",
		"covert_blocklist_public_addrs = true\ncovert_blocklist_subnets = [\"10.0.0.0/8\"]\nphantom_blocklist = [\"192.168.0.0/16\"]\n",
		// an address without a mask is not a subnet
		"covert_blocklist_subnets = [\"10.0.0.1\"]\n", "covert_allowlist_subnets = [\"198.51.100.7\"]\n", "phantom_blocklist = [\"2001:db8::1\"]\n",
		// host bits set, IPv4-mapped form, zero-length prefix
		"covert_blocklist_subnets = [\"10.1.2.3/8\", \"2001:db8::1/32\"]\n", "covert_blocklist_subnets = [\"::ffff:10.0.0.0/104\"]\nphantom_blocklist = [\"::ffff:192.168.0.0/112\"]\n",
		"covert_allowlist_subnets = [\"0.0.0.0/0\"]\n", "covert_blocklist_subnets = [\"0.0.0.0/0\", \"::/0\"]\n",
		// white space the code trims: tab, newline, no-break space, ideographic space; and white space inside
		"covert_blocklist_subnets = [\"\\t10.0.0.0/8\\n\", \"\u00a0172.16.0.0/12\u00a0\", \"\u3000192.168.0.0/16\"]\n", "covert_blocklist_subnets = [\"10.0.0.0 /8\"]\n",
		// the decoder's own refusals: a key twice, an array of mixed types, a table where a list is expected
		"covert_blocklist_subnets = [\"10.0.0.0/8\"]\ncovert_blocklist_subnets = [\"172.16.0.0/12\"]\n", "covert_blocklist_subnets = [\"10.0.0.0/8\", 5]\n",
		"[covert_blocklist_subnets]\nx = 1\n", "covert_blocklist_domains = [[\"a\"]]\n", "phantom_blocklist = [\"10.0.0.0/8\", true]\n",
		// patterns: empty (matches everything), anchored, a character class, one that only RE2 refuses
		"covert_blocklist_domains = [\"\"]\n", "covert_blocklist_domains = [\"^localhost$\", \"[0-9]+\\\\.example\"]\n", "covert_blocklist_domains = [\"(?=x)\"]\n", "covert_blocklist_domains = [\"a{2000}\"]\n",
	} {
		one(c)
	}
	// very long lists, the last entry malformed or not
	for _, bad := range []bool{false, true} {
		var l []string
		for i := 0; i < 3000; i++ {
			l = append(l, fmt.Sprintf("\"10.%d.%d.0/24\"", i/256, i%256))
		}
		if bad {
			l = append(l, "\"10.300.0.0/24\"")
		}
		one("covert_blocklist_subnets = [" + strings.Join(l, ", ") + "]\nphantom_blocklist = [" + strings.Join(l[:1500], ", ") + "]\n")
	}

	// ---- lists whose entries are related to one another (every relation x every base x every subnet list, every
	// ordered pair of overlapping patterns; then random combinations over all four lists)
	c19EnumeratedRelConfs(func(c c19RelConf, what string) {
		w.loadCase(out, c.toml())
		out.Count("related:" + strings.SplitN(what, ":", 2)[0])
	})
	for i, nrel := 0, vlib.Budget(400, 12000); i < nrel; i++ {
		c := c19RandomRelConf(r)
		if i%16 == 0 {
			one(c.toml())
		} else {
			w.loadCase(out, c.toml())
		}
		out.Count("related:random")
	}

	// ---- ParseBlocklists on the text of the subnet entries, next to the model that reads the same text
	c19TextPart(out, r)

	// ---- the covert_blocklist_domains pattern list, next to the model in which the engine is a parameter
	c19PatternPart(out, vlib.NewRand("C19-pattern"))

	// ---- exhaustive over the liveness keys and over the policy keys, the other keys unset / random
	pick := make([]int, len(c19LivenessKeys))
	var rec func(keys []c19Key, i int, emit func())
	rec = func(keys []c19Key, i int, emit func()) {
		if i == len(keys) {
			emit()
			return
		}
		for v := range keys[i].variants {
			pick[i] = v
			rec(keys, i+1, emit)
		}
	}
	rec(c19LivenessKeys, 0, func() { one(c19Render(c19LivenessKeys, pick) + "enable_v4 = true\n") })
	pick = make([]int, len(c19PolicyKeys))
	sample := 4
	if vlib.Tier() == "thorough" {
		sample = 1
	}
	rec(c19PolicyKeys, 0, func() {
		if sample == 1 || r.Intn(sample) == 0 {
			one(c19Render(c19PolicyKeys, pick))
		}
	})

	// ---- random combinations over all keys
	all := append(append(append([]c19Key{}, c19LivenessKeys...), c19PolicyKeys...), c19OtherKeys...)
	n := vlib.Budget(1200, 20000)
	for i := 0; i < n; i++ {
		p := make([]int, len(all))
		for j, k := range all {
			if r.Chance(1, 2) {
				p[j] = r.Intn(len(k.variants))
				// malformed variants are rarer so that many combinations are accepted
				if j >= len(c19LivenessKeys) && j < len(c19LivenessKeys)+4 && p[j] >= 3 && r.Chance(2, 3) {
					p[j] = 2
				}
			}
		}
		one(c19Render(all, p))
	}

	// ---- reload sequences.  Which loading steps fail is a dimension of its own: every kind of configuration x
	// every kind of subnets file x every kind of GeoIP database (none named / failing), then every ordered pair
	// of failure subsets of {configuration, subnets, GeoIP} with random representatives, fixed triples around
	// the allowlist, random long ones
	geos := []string{"", "nonexistent", "garbage"}
	if vlib.Tier() == "thorough" {
		geos = append([]string{""}, c19GeoKinds...)
	}
	var singles []c19Event
	for _, c := range c19ConfKinds {
		for _, s := range []string{"valid", "bad-toml", "unreadable", "bad-generation"} {
			for _, g := range geos {
				if g != "" && (c == "valid-geobad" || c == "valid-geogarbage") {
					continue // these two name their own databases
				}
				singles = append(singles, c19Event{c, s, g})
			}
		}
	}
	for _, e := range singles {
		w.reloadCase(out, []c19Event{e})
	}
	// every ordered pair (triple in the thorough tier) of failure subsets: 8 x 8 (x 8), several representatives each
	reps := vlib.Budget(3, 30)
	for f1 := 0; f1 < 8; f1++ {
		for f2 := 0; f2 < 8; f2++ {
			for i := 0; i < reps; i++ {
				w.reloadCase(out, []c19Event{c19EventFor(r, f1), c19EventFor(r, f2)})
			}
			if vlib.Tier() == "thorough" {
				for f3 := 0; f3 < 8; f3++ {
					for i := 0; i < 4; i++ {
						w.reloadCase(out, []c19Event{c19EventFor(r, f1), c19EventFor(r, f2), c19EventFor(r, f3)})
					}
				}
			}
		}
	}
	for i, np := 0, vlib.Budget(250, 5000); i < np; i++ {
		w.reloadCase(out, []c19Event{singles[r.Intn(len(singles))], singles[r.Intn(len(singles))]})
	}
	// allowlist set / dropped / set again, allowlist as the only change, the public-address option toggled,
	// a failed load in between, related entries coming and going
	for _, t := range [][]string{
		{"valid-allow", "valid", "valid-allow"}, {"valid-allow", "toggle-allow", "toggle-allow"}, {"toggle-allow", "toggle-allow", "toggle-allow"},
		{"valid", "toggle-allow", "valid-allow2"}, {"valid-allow", "valid-allow2", "valid"}, {"valid-allow2", "bad-allow", "toggle-allow"},
		{"valid-public", "valid-allow", "valid-public"}, {"valid-public", "toggle-allow", "toggle-allow"}, {"valid-public", "valid", "valid-public"},
		{"valid-allow", "empty", "valid-allow"}, {"valid-allow", "zmq-only", "toggle-allow"}, {"valid-allow", "bad-toml", "valid"},
		{"toggle-allow", "unreadable", "toggle-allow"}, {"valid-geogarbage", "valid-allow", "valid-geobad"}, {"bad-bare-ip", "valid-allow", "bad-bare-ip"},
		{"valid-related", "valid", "valid-related"}, {"valid-related-allow", "toggle-allow", "valid-related"}, {"valid-related", "bad-related", "valid-related-allow"},
	} {
		for _, sub := range []string{"valid", "bad-toml"} {
			for _, g := range []string{"", "nonexistent"} {
				var evs []c19Event
				for _, c := range t {
					evs = append(evs, c19Event{c, sub, g})
				}
				w.reloadCase(out, evs)
			}
		}
	}
	m := vlib.Budget(300, 6000)
	for i := 0; i < m; i++ {
		var evs []c19Event
		for j, l := 0, r.Range(3, 12); j < l; j++ {
			e := c19Event{c19ConfKinds[r.Intn(len(c19ConfKinds))], c19SubnetKinds[r.Intn(len(c19SubnetKinds))], ""}
			if r.Chance(1, 2) {
				e.conf = c19ConfKinds[r.Intn(c19ValidKinds)] // mostly configurations that load
			}
			if r.Chance(1, 3) {
				e.geo = c19GeoKinds[r.Intn(len(c19GeoKinds))]
			}
			evs = append(evs, e)
		}
		w.reloadCase(out, evs)
	}
}

// c19EventFor: a random event in which exactly the loading steps of the subset f fail
// (bit 0: the configuration, bit 1: the subnets file, bit 2: the GeoIP databases)
func c19EventFor(r *vlib.Rand, f int) c19Event {
	var e c19Event
	if f&1 != 0 {
		bad := []string{"bad-subnet", "bad-allow", "bad-pattern", "bad-toml", "unreadable", "directory", "bad-type", "bad-bare-ip", "bad-phantom", "bad-related"}
		e.conf = bad[r.Intn(len(bad))]
	} else {
		good := []string{"valid", "valid-allow", "valid-allow2", "valid-public", "toggle-allow", "valid-related", "valid-related-allow", "empty", "zmq-only"}
		e.conf = good[r.Intn(len(good))]
	}
	e.subnets = "valid"
	if f&2 != 0 {
		e.subnets = []string{"bad-toml", "unreadable", "bad-generation"}[r.Intn(3)]
	}
	if f&4 != 0 {
		e.geo = []string{"nonexistent", "garbage", "garbage-asn", "directory"}[r.Intn(4)]
		if f&1 == 0 && r.Chance(1, 5) {
			e.conf, e.geo = []string{"valid-geobad", "valid-geogarbage"}[r.Intn(2)], ""
		}
	} else if r.Bool() {
		e.geo = "none"
	}
	return e
}

func (w *c19World) replay(t *testing.T, out *vlib.Out, path string) {
	b, err := os.ReadFile(path)
	if err != nil {
		t.Fatal(err)
	}
	unhex := func(s string) string {
		if s == "-" {
			return ""
		}
		var raw []byte
		fmt.Sscanf(s, "%x", &raw)
		return string(raw)
	}
	for _, line := range strings.Split(string(b), "\n") {
		switch {
		case strings.HasPrefix(line, "c19load|"), strings.HasPrefix(line, "c19house|"):
			content := unhex(strings.SplitN(line, "|", 2)[1])
			res := w.loadCase(out, content)
			fmt.Printf("REPLAY config %q -> %s %s\n", content, res.kind, res.msg)
			if res.kind == "ok" {
				w.housekeeping(out, content, res)
			}
		case strings.HasPrefix(line, "c19text|"):
			f := strings.Split(line, "|")
			if len(f) != 4 {
				continue
			}
			items := func(x string) []c19TextEntry {
				var l []c19TextEntry
				if x == "-" {
					return nil
				}
				for _, h := range strings.Split(x, "/") {
					if h == "." {
						h = "-"
					}
					e := c19TextEntry{text: unhex(h), kind: "unknown"}
					// the replay has the text only: an entry the harness's own reading takes for <address>/<bits> is "good"
					if n := c19TextReread(e.text); n != nil {
						e.kind, e.net = "good", n
					}
					l = append(l, e)
				}
				return l
			}
			c19TextCase(out, items(f[1]), items(f[2]), items(f[3]), nil)
			fmt.Printf("REPLAY text lists %q %q %q\n", f[1], f[2], f[3])
		case strings.HasPrefix(line, "c19pat|"):
			f := strings.Split(line, "|")
			if len(f) != 3 {
				continue
			}
			items := func(x string) []string {
				var l []string
				if x == "-" {
					return nil
				}
				for _, h := range strings.Split(x, "/") {
					if h == "." {
						h = "-"
					}
					l = append(l, unhex(h))
				}
				return l
			}
			c19PatCase(out, items(f[1]), items(f[2]))
			fmt.Printf("REPLAY pattern list %q on hosts %q\n", items(f[1]), items(f[2]))
		case strings.HasPrefix(line, "c19reload|"):
			var evs []c19Event
			for _, e := range strings.Split(strings.SplitN(line, "|", 2)[1], ",") {
				if ev, ok := c19ParseEvent(e); ok {
					evs = append(evs, ev)
				}
			}
			w.reloadCase(out, evs)
			fmt.Printf("REPLAY reload sequence %v\n", evs)
		}
	}
}
