//go:build verif

package lib

// Correspondence + property oracle for C08 (and the sequential part of C02/C09): operation
// histories against the real RegisteredDecoys, same histories as lines for the Lean registry model.
//
// A history is a sequence of: registrations / duplicates (Track, register — handed a new object, a new
// object whose Valid flag is already set, or the very object that was delivered for the registration
// before), connections (markActive, and lib.Proxy: a tunnel that finishes at once or stays open
// across later operations), bursts of registrations (population sizes from 1 to several thousand),
// let-time-pass, look-ups, and sweeps — the whole removeOldRegistrations, or its two critical sections
// with other operations in between (white-box: getExpiredRegistrations + removeRegistration per
// index; and the real removeOldRegistrations interrupted at its scheduling point before the first
// removal).

import (
	"fmt"
	"io"
	golog "log"
	"net"
	"os"
	"reflect"
	"runtime"
	"sort"
	"strconv"
	"strings"
	"sync"
	"sync/atomic"
	"testing"
	"time"
	"unsafe"

	"github.com/refraction-networking/conjure/internal/verifhook"
	"github.com/refraction-networking/conjure/internal/vlib"
	"github.com/refraction-networking/conjure/pkg/core"
	"github.com/refraction-networking/conjure/pkg/station/log"
	"github.com/refraction-networking/conjure/pkg/transports/connecting/dtls"
	"github.com/refraction-networking/conjure/pkg/transports/wrapping/min"
	"github.com/refraction-networking/conjure/pkg/transports/wrapping/prefix"
	pb "github.com/refraction-networking/conjure/proto"
)

type c08Key struct{ ph, sec, tr int }

type c08GT struct { // harness ground truth per (phantom, secret, transport)
	time  int64
	used  bool
	valid bool
}

type c08Tunnel struct {
	key    c08Key
	client net.Conn
	done   chan struct{}
}

type c08World struct {
	rd      *RegisteredDecoys
	ann     []string
	lastNow int64 // virtual clock (seconds); records are aged by shifting their real timestamps
	gt      map[c08Key]*c08GT
	logger  *log.Logger
	t0      time.Time // real time at which the history started (see c08SlowLimit)
	// quantum: every operation time of the history is a multiple of it (1 s; 60 s for histories over big
	// populations, which may take longer than a second of real time)
	quantum int64
	objs    map[c08Key]*DecoyRegistration // the object that was delivered last for a registration
	idb     map[c08Key]string             // transport identifier (raw) of a registration
	keyOf   map[string]c08Key             // phantom|identifier -> registration
	alias   map[string]string             // hex identifier -> the short name the model line uses (burst members)
	tunnels []*c08Tunnel
	// the instant a sweep would decide on a record that is exactly at a lifetime (left open by the
	// property): the history is discarded
	boundaryInstant bool
}

// The code reads the real clock: the age it sees is the virtual age plus the real time that has
// passed since the record was created, i.e. at most the real duration of the whole history. A history
// that took longer than this limit (a stalled machine) is discarded as a whole — no case, no oracle
// verdict — so that no verdict ever depends on timing: below the limit every age the code computes is
// in [virtual age, virtual age + 0.9 quantum), ages are probed no closer than one quantum to a lifetime,
// and the creation time of a record is recovered exactly by rounding its age down to whole quanta.
const c08SlowLimit = 900 * time.Millisecond

var c08Phantoms = []string{"10.0.0.1", "10.0.0.2", "2001:db8::1"}
var c08Transports = []pb.TransportType{pb.TransportType_Min, pb.TransportType_Prefix, pb.TransportType_DTLS, pb.TransportType_Obfs4}

func c08Secret(i int) []byte {
	if i >= c08SepSecBase && i < c08SepSecBase+4 {
		return c08SepSecret(i - c08SepSecBase)
	}
	s := make([]byte, 32)
	for j := range s {
		s[j] = byte(i*37 + j)
	}
	return s
}

// Secrets 12 … 15 are chosen so that the transports' identifiers (HMACs: arbitrary bytes) contain the byte
// 0x7c, the separator of the registry's timeout index: in the identifier of every transport (12), as the
// first byte of the min identifier (13), as its last byte (14), twice in it (15). Found by search, once.
const c08SepSecBase = 12

var c08SepSecrets struct {
	once sync.Once
	s    [4][]byte
}

func c08SepSecret(j int) []byte {
	c08SepSecrets.once.Do(func() {
		ids := func(sec []byte) [3]string {
			d := &DecoyRegistration{Keys: &core.ConjureSharedKeys{SharedSecret: sec}}
			return [3]string{min.Transport{}.GetIdentifier(d), prefix.Transport{}.GetIdentifier(d), dtls.Transport{}.GetIdentifier(d)}
		}
		want := [4]func(id [3]string) bool{
			func(id [3]string) bool {
				return strings.Contains(id[0], "|") && strings.Contains(id[1], "|") && strings.Contains(id[2], "|")
			},
			func(id [3]string) bool { return id[0][0] == '|' },
			func(id [3]string) bool { return id[0][len(id[0])-1] == '|' },
			func(id [3]string) bool { return strings.Count(id[0], "|") >= 2 },
		}
		for n, found := uint32(0), 0; found < 4; n++ {
			if n > 1<<22 {
				panic("no secret whose identifiers contain the separator byte was found")
			}
			sec := make([]byte, 32)
			for k := range sec {
				sec[k] = byte(0x5e ^ k)
			}
			sec[0], sec[1], sec[2], sec[3] = byte(n), byte(n>>8), byte(n>>16), 0x7c
			id := ids(sec)
			for j := range want {
				if c08SepSecrets.s[j] == nil && want[j](id) {
					c08SepSecrets.s[j] = sec
					found++
					break
				}
			}
		}
	})
	return c08SepSecrets.s[j]
}

// further generators / replay parsers register themselves here (files that are only in C08's copy list)
var c08Extra []func(out *vlib.Out, r *vlib.Rand)
var c08ReplayExtra []func(t *testing.T, out *vlib.Out, line string) bool

// members of bursts have secrets of their own: sec = c08BulkBase + index
const c08BulkBase = 1 << 20

func c08SecretOf(sec int) []byte {
	if sec < c08BulkBase {
		return c08Secret(sec)
	}
	i := sec - c08BulkBase
	s := make([]byte, 32)
	for j := range s {
		s[j] = byte(0xB0 ^ j)
	}
	s[0], s[1], s[2], s[3] = byte(i), byte(i>>8), byte(i>>16), 0xB7
	return s
}

// ---- covert destinations for tunnels: one that accepts and holds the connection until the tunnel
// is closed, one that refuses (the tunnel is counted and finishes at once)

var c08Covert struct {
	once     sync.Once
	open     string
	refused  string
	accepted int64
	opened   int // tunnels that used a real socket pair so far (bounded: ephemeral ports)
	start    time.Time
}

func c08CovertSetup() {
	c08Covert.once.Do(func() {
		c08Covert.start = time.Now()
		l, err := net.Listen("tcp", "127.0.0.1:0")
		if err != nil {
			panic(err)
		}
		c08Covert.open = l.Addr().String()
		go func() {
			for {
				c, err := l.Accept()
				if err != nil {
					return
				}
				atomic.AddInt64(&c08Covert.accepted, 1)
				go func() {
					_, _ = io.Copy(io.Discard, c)
					c.Close()
				}()
			}
		}()
		l2, err := net.Listen("tcp", "127.0.0.1:0")
		if err != nil {
			panic(err)
		}
		c08Covert.refused = l2.Addr().String()
		l2.Close()
	})
}

func newC08World() *c08World {
	c08CovertSetup()
	w := &c08World{rd: NewRegisteredDecoys(), gt: map[c08Key]*c08GT{}, t0: time.Now(), quantum: 1,
		objs: map[c08Key]*DecoyRegistration{}, idb: map[c08Key]string{}, keyOf: map[string]c08Key{}, alias: map[string]string{}}
	w.rd.transports[pb.TransportType_Min] = min.Transport{}
	w.rd.transports[pb.TransportType_Prefix] = prefix.Transport{}
	w.rd.transports[pb.TransportType_DTLS] = dtls.Transport{}
	// Obfs4 deliberately not enabled: exercises the unknown-transport error path
	w.rd.registerForDetector = func(d *DecoyRegistration) { w.ann = append(w.ann, "new") }
	w.rd.updateInDetector = func(d *DecoyRegistration) { w.ann = append(w.ann, "upd") }
	w.logger = log.New(io.Discard, "", golog.Ldate)
	return w
}

func (w *c08World) mkReg(ph, sec, tr int) *DecoyRegistration {
	// who registered it, which decoy list generation and client library it came with, and the flags a
	// client / another station may set must not influence tracking, visibility or expiry
	src := []pb.RegistrationSource{pb.RegistrationSource_API, pb.RegistrationSource_Detector, pb.RegistrationSource_BidirectionalAPI,
		pb.RegistrationSource_DetectorPrescan, pb.RegistrationSource_DNS}[sec%5]
	pre := sec%2 == 1
	d := &DecoyRegistration{
		PhantomIp:          net.ParseIP(c08Phantoms[ph]),
		PhantomPort:        uint16(443 + sec%3),
		DecoyListVersion:   uint32(sec % 4),
		clientLibVer:       uint32(sec % 7),
		Keys:               &core.ConjureSharedKeys{SharedSecret: c08SecretOf(sec)},
		Transport:          c08Transports[tr],
		RegistrationSource: &src,
		Flags:              &pb.RegistrationFlags{Prescanned: &pre},
		Covert:             c08Covert.open,
	}
	if t, ok := w.rd.transports[d.Transport]; ok {
		d.TransportPtr = &t
	}
	return d
}

// identRaw is the transport identifier of a registration ("" for the disabled transport).
func (w *c08World) identRaw(k c08Key) string {
	if id, ok := w.idb[k]; ok {
		return id
	}
	d := w.mkReg(k.ph, k.sec, k.tr)
	id := ""
	if t, ok := w.rd.transports[d.Transport]; ok {
		id = t.GetIdentifier(d)
	}
	w.idb[k] = id
	if id != "" {
		w.keyOf[c08Phantoms[k.ph]+"|"+id] = k
	}
	return id
}

// identK is the identifier as the model line spells it: hex, or the short name of a burst member
// (the model treats identifiers as opaque; the harness checks that the renaming is injective).
func (w *c08World) identK(k c08Key) string {
	if k.tr == 3 {
		// any fixed text: the model never stores a registration of a disabled transport
		return "00"
	}
	h := vlib.Hex([]byte(w.identRaw(k)))
	if k.sec >= c08BulkBase {
		a := fmt.Sprintf("b%d_%d", int(c08Transports[k.tr]), k.sec-c08BulkBase)
		if old, ok := w.alias[h]; ok && old != a {
			panic("two burst members share a transport identifier: " + old + " " + a)
		}
		w.alias[h] = a
		return a
	}
	return h
}

func (w *c08World) ident(d *DecoyRegistration) string {
	t, ok := w.rd.transports[d.Transport]
	if !ok {
		return "00"
	}
	return w.spell(t.GetIdentifier(d))
}

func (w *c08World) spell(rawID string) string {
	h := vlib.Hex([]byte(rawID))
	if a, ok := w.alias[h]; ok {
		return a
	}
	return h
}

// ---- the timeout record, reached without naming its bookkeeping fields.
// The harness needs three things of a record: which registration it belongs to, how old the code thinks it
// is, and a way to let virtual time pass. The first comes from the key the registry itself stores the
// record under (timeoutIndex is the code's own key function: the phantom address is free of its separator,
// so the first one ends it; the answer is confirmed by calling timeoutIndex again, and found by a scan of
// the tracked registrations otherwise); the other two go over whatever time.Time fields the record has.
// A refactor of the record's internal bookkeeping leaves the harness compiling and observing.

func c08RecKey(rd *RegisteredDecoys, ix string) (string, string) {
	if i := strings.IndexByte(ix, '|'); i >= 0 && timeoutIndex(ix[:i], ix[i+1:]) == ix {
		return ix[:i], ix[i+1:]
	}
	for ph, m := range rd.decoys {
		for id := range m {
			if timeoutIndex(ph, id) == ix {
				return ph, id
			}
		}
	}
	return "?", ix
}

var c08TimeT = reflect.TypeOf(time.Time{})

// c08RecClocks: the time.Time fields of a record (the one called registrationTime first, if there is one).
func c08RecClocks(to *DecoyTimeout) []*time.Time {
	v := reflect.ValueOf(to).Elem()
	var l []*time.Time
	for i := 0; i < v.NumField(); i++ {
		if f := v.Field(i); f.Type() == c08TimeT {
			p := (*time.Time)(unsafe.Pointer(f.UnsafeAddr()))
			if v.Type().Field(i).Name == "registrationTime" {
				l = append([]*time.Time{p}, l...)
			} else {
				l = append(l, p)
			}
		}
	}
	if len(l) == 0 {
		panic("the timeout record has no time field: the harness cannot drive the virtual clock")
	}
	return l
}

// c08Shift lets d of virtual time pass for every record (relative shifts only).
func c08Shift(rd *RegisteredDecoys, d time.Duration) {
	for _, to := range rd.decoysTimeouts {
		for _, p := range c08RecClocks(to) {
			*p = p.Add(-d)
		}
	}
}

func c08RecUsed(to *DecoyTimeout) bool { return to.status == regStatusUsed }

// advance moves the virtual clock to `now`: every timeout record is aged by the elapsed virtual time.
// Only relative shifts are applied, so whatever the code itself writes into registrationTime
// (creation, or a change a mutation introduces) is preserved and observed.
func (w *c08World) advance(now int64) {
	if d := now - w.lastNow; d > 0 {
		c08Shift(w.rd, time.Duration(d)*time.Second)
		w.lastNow = now
	}
}

// vcreated is the virtual time at which the record's clock started, as the code sees it now.
func (w *c08World) vcreated(to *DecoyTimeout) int64 {
	age := time.Since(*c08RecClocks(to)[0])
	q := time.Duration(w.quantum) * time.Second
	return w.lastNow - int64(age/q)*w.quantum
}

func (w *c08World) dump() string {
	var d, t []string
	for ph, m := range w.rd.decoys {
		for id, r := range m {
			d = append(d, fmt.Sprintf("%s,%s,%d,%s,%d", ph, w.spell(id), int(r.Transport), vlib.B(r.Valid), r.regCount))
		}
	}
	for ix, to := range w.rd.decoysTimeouts {
		ph, id := c08RecKey(w.rd, ix)
		t = append(t, fmt.Sprintf("%s,%s,%d,%s", ph, w.spell(id), w.vcreated(to), vlib.B(c08RecUsed(to))))
	}
	sort.Strings(d)
	sort.Strings(t)
	// the outer level of the nested map: which per-phantom buckets are stored (also empty ones)
	var p []string
	for ph := range w.rd.decoys {
		p = append(p, ph)
	}
	sort.Strings(p)
	var u []string
	for _, tn := range w.tunnels {
		u = append(u, c08Phantoms[tn.key.ph]+","+w.identK(tn.key))
	}
	sort.Strings(u)
	return "D:" + strings.Join(d, "/") + "|T:" + strings.Join(t, "/") + "|P:" + strings.Join(p, ",") + "|U:" + strings.Join(u, "/")
}

// c08Cfg is the head of the model line: the lifetimes are the ones the code under test uses (whole
// seconds), so the model is driven by the code's own limits while the oracle keeps the property's.
func (w *c08World) cfg() string {
	return fmt.Sprintf("registryx|%d|%d|1,4,3|", int64(w.rd.timeoutUnused/time.Second), int64(w.rd.timeoutActive/time.Second))
}

type c08Op struct {
	kind        byte
	ph, sec, tr int
	now         int64
	// 't' / 'r': which object is handed over — 0 a new one, 1 a new one whose Valid flag is already set,
	// 2 the object that was delivered for this registration the last time (whatever it carries by now)
	obj byte
	// 'P': 0 the covert refuses (the tunnel is counted and finishes at once), 1 the tunnel stays open
	// 'B': the number of registrations of the burst (their secrets are sec, sec+1, …; sec >= c08BulkBase)
	n int
	// 'B': 't', 'r' or 'm'
	sub byte
	// 'C' / 'S': what happens between the sweep's collection and its removals
	mid []c08Op
	// 'C' / 'S': the interruption happens before the pos-th removal (0: before the first)
	pos int
	// held: the operation arrives while a stand-in holds the registry's own lock — 'r' a reader (a look-up in
	// progress), 'w' a writer (a track / markActive in progress). For 's' the lock is held from before the
	// sweep starts, for 'S' from its holdAt-th scheduling point on (-1: from the start); it is released as
	// soon as the operation is seen waiting for it (or has gone through without waiting).
	held   byte
	holdAt int
}

const c08Unused, c08Active = 600, 21600

func c08Alive(g *c08GT, now int64) bool {
	age := now - g.time
	return age <= c08Active && (g.used || age <= c08Unused)
}

// ---- tunnels: the real lib.Proxy on the registration object

// proxyOnce runs a tunnel that finishes at once (the covert refuses the connection); reports whether
// the tunnel was counted on the registration object.
func (w *c08World) proxyOnce(reg *DecoyRegistration) bool {
	before := atomic.LoadInt64(&reg.tunnelCount)
	saved := reg.Covert
	reg.Covert = c08Covert.refused
	c1, c2 := net.Pipe()
	c2.Close() // the client is gone already: the call returns at once even if something answers at the covert address
	Proxy(reg, c1, w.logger)
	c1.Close()
	reg.Covert = saved
	return atomic.LoadInt64(&reg.tunnelCount) == before+1
}

// proxyOpen starts a tunnel that stays open (client side: a pipe; covert side: a TCP connection to the
// harness's listener) and returns once it is counted and connected.
func (w *c08World) proxyOpen(k c08Key, reg *DecoyRegistration) bool {
	before := atomic.LoadInt64(&reg.tunnelCount)
	acc := atomic.LoadInt64(&c08Covert.accepted)
	c1, c2 := net.Pipe()
	tn := &c08Tunnel{key: k, client: c2, done: make(chan struct{})}
	go func() {
		defer close(tn.done)
		Proxy(reg, c1, w.logger)
	}()
	deadline := time.Now().Add(2 * time.Second)
	for time.Now().Before(deadline) {
		if atomic.LoadInt64(&reg.tunnelCount) > before && atomic.LoadInt64(&c08Covert.accepted) > acc {
			break
		}
		select {
		case <-tn.done:
			deadline = time.Now()
		default:
			runtime.Gosched()
		}
	}
	w.tunnels = append(w.tunnels, tn)
	c08Covert.opened++
	return atomic.LoadInt64(&reg.tunnelCount) == before+1
}

func (w *c08World) closeTunnel(i int) {
	tn := w.tunnels[i]
	w.tunnels = append(w.tunnels[:i], w.tunnels[i+1:]...)
	tn.client.Close()
	select {
	case <-tn.done:
	case <-time.After(5 * time.Second):
	}
}

// realTunnelAllowed bounds the number of tunnels that use a TCP connection (each leaves a socket in
// TIME_WAIT for a minute).
func realTunnelAllowed() bool {
	return c08Covert.opened < 1200+int(time.Since(c08Covert.start).Seconds()*12)
}

// ---- lock-holder stand-ins and the sweep controller

// The layout of sync.RWMutex, to see a goroutine WAITING for a lock the harness holds for writing (for a
// lock held for reading the public TryRLock tells: a queued writer refuses new readers). Where the layout
// is not the expected one the harness falls back to giving the other goroutine a bounded number of
// scheduler yields — that can only cost detection power, never raise an alarm.
var c08RW = func() (l struct {
	ok            bool
	state, rcount uintptr
}) {
	t := reflect.TypeOf(sync.RWMutex{})
	fw, ok1 := t.FieldByName("w")
	frc, ok2 := t.FieldByName("readerCount")
	if !ok1 || !ok2 || fw.Type != reflect.TypeOf(sync.Mutex{}) || frc.Type.Size() != 4 {
		return
	}
	fs, ok3 := fw.Type.FieldByName("state")
	if !ok3 || fs.Type.Kind() != reflect.Int32 {
		return
	}
	l.ok, l.state, l.rcount = true, fw.Offset+fs.Offset, frc.Offset
	return
}()

// c08Waiting reports whether some goroutine is waiting for m, which the caller holds in mode held.
func c08Waiting(m *sync.RWMutex, held byte, spins *int) bool {
	if held == 'r' {
		if m.TryRLock() {
			m.RUnlock()
			return false
		}
		return true // a writer is queued behind the reader
	}
	if c08RW.ok {
		base := unsafe.Pointer(m)
		state := atomic.LoadInt32((*int32)(unsafe.Add(base, c08RW.state)))
		rc := atomic.LoadInt32((*int32)(unsafe.Add(base, c08RW.rcount)))
		return state>>3 > 0 || (rc < 0 && rc+(1<<30) > 0) // waiting writers (mutexWaiterShift) / waiting readers (rwmutexMaxReaders)
	}
	*spins++
	return *spins > 20000
}

// c08UnderHold runs f in a goroutine while the harness holds the registry lock in mode held, releases
// the lock as soon as f is seen waiting for it (or has finished without needing it), and waits for f.
// Reports "blocked" / "passed".
func c08UnderHold(rd *RegisteredDecoys, held byte, f func()) string {
	if held == 'r' {
		rd.m.RLock()
	} else {
		rd.m.Lock()
	}
	release := func() {
		if held == 'r' {
			rd.m.RUnlock()
		} else {
			rd.m.Unlock()
		}
	}
	done := make(chan struct{})
	go func() {
		defer close(done)
		f()
	}()
	spins := 0
	for {
		select {
		case <-done:
			release()
			return "passed"
		default:
		}
		if c08Waiting(&rd.m, held, &spins) {
			release()
			<-done
			return "blocked"
		}
		runtime.Gosched()
	}
}

type c08SweepOpts struct {
	held   byte   // 0, 'r', 'w'
	holdAt int    // -1: from before the sweep starts; j: from its j-th scheduling point (before the j-th removal)
	midAt  int    // the interruption by other operations: before the midAt-th removal
	mid    func() // nil: no interruption; runs on the caller's goroutine while the sweeper is parked
	// before is called just before mid with the timeout indices the removal loop has handled so far
	before func(handled [][2]string) // (phantom, raw identifier) of each
}

type c08SweepRes struct {
	n, v    int
	yields  int
	midRan  bool   // false: the sweep had fewer scheduling points than midAt+1 — the caller runs the operations afterwards
	holdMet string // "", "blocked" (the step waited for the lock), "passed" (it went through without waiting: it needed no exclusive access, or it was refused), "not-reached"
}

// c08SweepWith runs the real removeOldRegistrations in a goroutine that is parked at every scheduling
// point (verifhook "sweep:before-remove"), so that other operations / a lock holder can be placed at any
// position of the removal loop.
func c08SweepWith(rd *RegisteredDecoys, logger *log.Logger, o c08SweepOpts) c08SweepRes {
	var res c08SweepRes
	yield, resume, done := make(chan struct{}), make(chan struct{}), make(chan struct{})
	verifhook.SetScheduler(func(point string) {
		if point == "sweep:before-remove" {
			yield <- struct{}{}
			<-resume
		}
	})
	defer verifhook.SetScheduler(nil)
	holding := false
	take := func() {
		if o.held == 'r' {
			rd.m.RLock()
		} else {
			rd.m.Lock()
		}
		holding = true
	}
	release := func(met string) {
		if o.held == 'r' {
			rd.m.RUnlock()
		} else {
			rd.m.Unlock()
		}
		holding = false
		if res.holdMet == "" {
			res.holdMet = met
		}
	}
	if o.held != 0 && o.holdAt < 0 {
		take()
	}
	// the indices that are expired when the sweep collects: observed at the first scheduling point
	type coll struct {
		ix string
		to *DecoyTimeout
	}
	var collected []coll
	go func() {
		defer close(done)
		res.n, res.v = rd.removeOldRegistrations(logger)
	}()
	spins := 0
	for {
		ev := ""
		if holding {
			select {
			case <-yield:
				ev = "yield"
			case <-done:
				ev = "done"
			default:
				if c08Waiting(&rd.m, o.held, &spins) {
					release("blocked")
				} else {
					runtime.Gosched()
				}
				continue
			}
		} else {
			select {
			case <-yield:
				ev = "yield"
			case <-done:
				ev = "done"
			}
		}
		if holding {
			release("passed")
		}
		if ev == "done" {
			if o.held != 0 && res.holdMet == "" {
				res.holdMet = "not-reached"
			}
			return res
		}
		j := res.yields
		res.yields++
		if j == 0 {
			for _, ix := range rd.getExpiredRegistrations() {
				collected = append(collected, coll{ix, rd.decoysTimeouts[ix]})
			}
		}
		if o.mid != nil && j == o.midAt {
			if o.before != nil {
				var handled [][2]string
				for _, c := range collected {
					if cur, ok := rd.decoysTimeouts[c.ix]; !ok || cur != c.to {
						ph, id := c08RecKey(rd, c.ix)
						handled = append(handled, [2]string{ph, id})
					}
				}
				o.before(handled)
			}
			o.mid()
			res.midRan = true
		}
		if o.held != 0 && j == o.holdAt {
			spins = 0
			take()
		}
		resume <- struct{}{}
	}
}

// runC08 executes one history on the implementation; returns the model line, the implementation's
// answer (outs + final dump) and whether the history counts (false: it was slower than the limit, or
// a sweep fell on a boundary instant, and is discarded together with whatever the oracles said).
func runC08(out *vlib.Out, ops []c08Op) (string, string, bool) {
	return runC08Q(out, ops, 1)
}

func runC08Q(out *vlib.Out, ops []c08Op, quantum int64) (string, string, bool) {
	w := newC08World()
	w.quantum = quantum
	var mops, outs []string
	type c08Fail struct{ sig, what string }
	var fails []c08Fail
	checks := 0
	fail := func(sig, what string) { fails = append(fails, c08Fail{sig, what}) }
	annot := "" // `@…` annotation of the head token of the next emitted operation (lock-holder stand-in)
	emit := func(m, o string) {
		if annot != "" {
			if i := strings.IndexByte(m, ','); i >= 0 {
				m = m[:i] + "@" + annot + m[i:]
			} else {
				m += "@" + annot
			}
			annot = ""
		}
		mops = append(mops, m)
		outs = append(outs, o)
		first := strings.SplitN(o, " ", 2)[0]
		if _, err := strconv.Atoi(first); err == nil && len(first) > 1 {
			first = "number"
		}
		out.Count("out:" + first)
	}
	annOut := func(none string) string {
		switch {
		case len(w.ann) == 0:
			return none
		case len(w.ann) == 1:
			return w.ann[0]
		}
		return "ann?" + strings.Join(w.ann, "+")
	}

	// ---- property oracle after a completed sweep at `now`: the age rule, evaluated against the
	// harness ground truth; nothing of an expired registration is left
	sweepOracle := func(now int64) {
		visible := map[int]map[string]*DecoyRegistration{}
		for key, g := range w.gt {
			if age := now - g.time; age == c08Unused || age == c08Active {
				w.boundaryInstant = true
			}
			dd := w.mkReg(key.ph, key.sec, key.tr)
			tracked := w.rd.RegistrationExists(dd) != nil
			want := c08Alive(g, now)
			name := func() string { return fmt.Sprintf("%d/%d/%d", key.ph, key.sec, key.tr) }
			checks++
			if tracked && !want {
				fail("C08:kept-past-lifetime", fmt.Sprintf("%s tracked after sweep at %d: age %d used %v", name(), now, now-g.time, g.used))
			}
			if !tracked && want {
				fail("C08:expired-early", fmt.Sprintf("%s gone after sweep at %d: age %d used %v", name(), now, now-g.time, g.used))
			}
			if !want {
				// still matching a connection?
				if visible[key.ph] == nil {
					visible[key.ph] = w.rd.getRegistrations(dd.PhantomIp)
				}
				if _, ok := visible[key.ph][w.identRaw(key)]; ok {
					fail("C08:expired-still-matches", name())
				}
				delete(w.gt, key)
			}
		}
		// no residue: both maps hold exactly the ground-truth set
		if w.rd.totalRegistrations() != len(w.gt) || len(w.rd.decoysTimeouts) != len(w.gt) {
			fail("C08:residue", fmt.Sprintf("after sweep at %d: regs=%d timeouts=%d expected=%d", now, w.rd.totalRegistrations(), len(w.rd.decoysTimeouts), len(w.gt)))
		}
		// forgotten entirely: the nested map keeps one inner map per phantom that still has a tracked
		// registration — an inner map left behind empty (or kept for a phantom whose registrations
		// have all expired) is residue that grows with every phantom address ever used
		gtPh := map[int]bool{}
		for key := range w.gt {
			gtPh[key.ph] = true
		}
		checks++
		empty := 0
		for _, m := range w.rd.decoys {
			if len(m) == 0 {
				empty++
			}
		}
		if empty > 0 || len(w.rd.decoys) != len(gtPh) {
			fail("C08:residue-phantom-bucket", fmt.Sprintf("after sweep at %d: %d per-phantom maps stored (%d of them empty), %d phantoms have a tracked registration", now, len(w.rd.decoys), empty, len(gtPh)))
		}
	}

	// settle: the removal loop of a sweep at `now` has handled this collected index (observed: removeRegistration
	// returned for it) before other operations interrupt the sweep — the age rule for this one registration,
	// on the state the removal found; what happens to the registration afterwards starts from there
	settle := func(phs, rawID string, now int64) {
		key, ok := w.keyOf[phs+"|"+rawID]
		if !ok {
			return
		}
		g := w.gt[key]
		if g == nil {
			return
		}
		if age := now - g.time; age == c08Unused || age == c08Active {
			w.boundaryInstant = true
		}
		tracked := w.rd.RegistrationExists(w.mkReg(key.ph, key.sec, key.tr)) != nil
		want := c08Alive(g, now)
		checks++
		if tracked && !want {
			fail("C08:kept-past-lifetime", fmt.Sprintf("%d/%d/%d tracked after its removal step of the sweep at %d: age %d used %v", key.ph, key.sec, key.tr, now, now-g.time, g.used))
		}
		if !tracked && want {
			fail("C08:expired-early", fmt.Sprintf("%d/%d/%d gone after its removal step of the sweep at %d: age %d used %v", key.ph, key.sec, key.tr, now, now-g.time, g.used))
		}
		if !want {
			delete(w.gt, key)
		}
	}

	// deliver hands Track / register the object the operation asks for
	deliver := func(op c08Op, key c08Key) *DecoyRegistration {
		var d *DecoyRegistration
		switch {
		case op.obj == 2 && w.objs[key] != nil:
			d = w.objs[key]
		case op.obj == 1:
			d = w.mkReg(key.ph, key.sec, key.tr)
			d.Valid = true
		default:
			d = w.mkReg(key.ph, key.sec, key.tr)
		}
		w.objs[key] = d
		return d
	}

	track := func(op c08Op, key c08Key) string {
		d := deliver(op, key)
		err := w.rd.Track(d)
		if key.tr != 3 && w.gt[key] == nil {
			w.gt[key] = &c08GT{time: op.now}
		}
		if err != nil {
			return "err"
		}
		return "ok"
	}
	register := func(op c08Op, key c08Key) string {
		d := deliver(op, key)
		w.ann = w.ann[:0]
		err := w.rd.register(c08Phantoms[key.ph], d)
		o := "err"
		if err == nil {
			o = annOut("dup")
		}
		if key.tr != 3 {
			g := w.gt[key]
			if g == nil {
				g = &c08GT{time: op.now}
				w.gt[key] = g
			}
			// oracle (C09 announce-once, sequential part): announced iff it was not valid before
			checks++
			if (len(w.ann) == 1) == g.valid {
				fail("C08:announce-once", fmt.Sprintf("register announced=%v although valid-before=%v", len(w.ann) == 1, g.valid))
			}
			g.valid = true
		}
		return o
	}
	markActive := func(key c08Key) string {
		d := w.mkReg(key.ph, key.sec, key.tr)
		// a connection handler marks the object it got from the lookup when there is one
		if m, ok := w.rd.decoys[c08Phantoms[key.ph]]; ok {
			if stored, ok := m[w.identRaw(key)]; ok && key.tr != 3 {
				d = stored
			}
		}
		w.ann = w.ann[:0]
		w.rd.markActive(d)
		if g := w.gt[key]; g != nil {
			g.used = true
		}
		return annOut("none")
	}

	var exec func(op c08Op, inSweep bool)
	exec = func(op c08Op, inSweep bool) {
		key := c08Key{op.ph, op.sec, op.tr}
		phs := c08Phantoms[op.ph]
		tr := int(c08Transports[op.tr])
		w.advance(op.now)
		if op.held != 0 && strings.IndexByte("trmlenT", op.kind) >= 0 && !(op.kind == 'T' && inSweep) {
			// the operation arrives while a stand-in holds the registry lock: it has to wait, not to fail
			inner := op
			inner.held = 0
			annot = string(op.held)
			met := c08UnderHold(w.rd, op.held, func() { exec(inner, inSweep) })
			out.Count(fmt.Sprintf("lock-held:%c:%c:%s", op.held, op.kind, met))
			return
		}
		out.Count("op:" + string(op.kind))
		switch op.kind {
		case 't', 'r':
			id := w.identK(key)
			var spelled string
			if op.obj == 2 && w.objs[key] != nil {
				spelled = "r" + vlib.B(w.objs[key].Valid)
				out.Count("object:delivered-again-valid=" + vlib.B(w.objs[key].Valid))
			} else if op.obj == 1 {
				spelled = "1"
				out.Count("object:new-valid-preset")
			}
			var o string
			if op.kind == 't' {
				o = track(op, key)
			} else {
				o = register(op, key)
			}
			if spelled == "" {
				emit(fmt.Sprintf("%c,%s,%s,%d,%d", op.kind, phs, id, tr, op.now), o)
			} else {
				emit(fmt.Sprintf("%co,%s,%s,%d,%d,%s", op.kind, phs, id, tr, op.now, spelled), o)
			}
		case 'm':
			emit(fmt.Sprintf("m,%s,%s,%d", phs, w.identK(key), tr), markActive(key))
		case 'B':
			// a burst: n deliveries for n distinct registrations (one model operation)
			hist := map[string]int{}
			for i := 0; i < op.n; i++ {
				k := c08Key{op.ph, op.sec + i, op.tr}
				w.identK(k) // registers the short name
				var o string
				switch op.sub {
				case 't':
					o = track(c08Op{now: op.now}, k)
				case 'r':
					o = register(c08Op{now: op.now}, k)
				default:
					o = markActive(k)
				}
				hist[o]++
			}
			var hs []string
			for k, v := range hist {
				hs = append(hs, fmt.Sprintf("%s=%d", k, v))
			}
			sort.Strings(hs)
			emit(fmt.Sprintf("B,%c,%s,b%d_,%d,%d,%d,%d", op.sub, phs, tr, op.sec-c08BulkBase, op.n, tr, op.now),
				strings.TrimRight("bulk "+strings.Join(hs, " "), " "))
			out.Count(fmt.Sprintf("burst-size:<=%d", c08SizeClass(op.n)))
		case 'P':
			// lib.Proxy on the registration object a connection handler would hold: the stored one when
			// there is one, else the object delivered last
			if op.tr == 3 {
				return
			}
			reg := w.objs[key]
			if m, ok := w.rd.decoys[phs]; ok {
				if stored, ok := m[w.identRaw(key)]; ok {
					reg = stored
				}
			}
			if reg == nil || reg.TransportPtr == nil {
				return
			}
			id := w.identK(key)
			if op.n == 1 && realTunnelAllowed() {
				ok := w.proxyOpen(key, reg)
				emit(fmt.Sprintf("P,%s,%s", phs, id), map[bool]string{true: "ok", false: "tunnel-not-counted"}[ok])
				out.Count("tunnel:open")
			} else {
				ok := w.proxyOnce(reg)
				emit(fmt.Sprintf("P,%s,%s", phs, id), map[bool]string{true: "ok", false: "tunnel-not-counted"}[ok])
				emit(fmt.Sprintf("Q,%s,%s", phs, id), "ok")
				out.Count("tunnel:finished-at-once")
			}
		case 'Q':
			if op.tr == 3 {
				return
			}
			id := w.identK(key)
			for i, tn := range w.tunnels {
				if tn.key == key {
					w.closeTunnel(i)
					emit(fmt.Sprintf("Q,%s,%s", phs, id), "ok")
					return
				}
			}
			emit(fmt.Sprintf("Q,%s,%s", phs, id), "none")
		case 's':
			n, v := w.rd.removeOldRegistrations(w.logger)
			emit(fmt.Sprintf("s,%d", op.now), fmt.Sprintf("swept %d %d", n, v))
			sweepOracle(op.now)
		case 'C':
			// white-box: the sweeper's two critical sections, other operations in between
			idx := w.rd.getExpiredRegistrations()
			var keys []string
			for _, ix := range idx {
				if _, ok := w.rd.decoysTimeouts[ix]; ok {
					ph, id := c08RecKey(w.rd, ix)
					keys = append(keys, ph+","+w.spell(id))
				} else {
					keys = append(keys, "?"+ix)
				}
			}
			sort.Strings(keys)
			emit(fmt.Sprintf("c,%d", op.now), strings.TrimRight("keys "+strings.Join(keys, " "), " "))
			type cand struct{ name, ix, decoy, rawID string }
			var cands []cand
			for _, ix := range idx {
				if _, ok := w.rd.decoysTimeouts[ix]; ok {
					ph, id := c08RecKey(w.rd, ix)
					cands = append(cands, cand{ph + "," + w.spell(id), ix, ph, id})
				}
			}
			sort.Slice(cands, func(i, j int) bool { return cands[i].name < cands[j].name })
			midDone := false
			runMid := func() {
				midDone = true
				for _, m := range op.mid {
					m.now = op.now
					exec(m, true)
				}
			}
			for i, c := range cands {
				if i == op.pos && !midDone {
					runMid()
				}
				var st *regExpireLogMsg
				if op.held != 0 && i == op.holdAt {
					// this removal arrives while a stand-in holds the registry lock
					annot = string(op.held)
					met := c08UnderHold(w.rd, op.held, func() { st = w.rd.removeRegistration(c.ix) })
					out.Count(fmt.Sprintf("lock-held:%c:x:%s", op.held, met))
				} else {
					st = w.rd.removeRegistration(c.ix)
				}
				o := "none"
				if st != nil {
					o = vlib.B(st.Valid)
				}
				emit(fmt.Sprintf("x,%s,%d", c.name, op.now), o)
				if !midDone {
					settle(c.decoy, c.rawID, op.now)
				}
			}
			if !midDone {
				runMid()
			}
			emit("T", fmt.Sprint(w.rd.TotalRegistrations()))
			posClass := "0"
			if op.pos > 0 {
				posClass = ">0"
			}
			out.Count(fmt.Sprintf("split-sweep:whitebox:mid=%d:pos%s", len(op.mid), posClass))
			sweepOracle(op.now)
		case 'S':
			// the real removeOldRegistrations, parked at its scheduling points: other operations before its
			// pos-th removal, a lock holder from its holdAt-th scheduling point (or its start) on
			head := "sb"
			if op.held != 0 {
				head += fmt.Sprintf("@%c%d", op.held, op.holdAt)
			}
			emit(fmt.Sprintf("%s,%d", head, op.now), "ok")
			runMid := func() {
				for _, m := range op.mid {
					m.now = op.now
					exec(m, true)
				}
			}
			o := c08SweepOpts{held: op.held, holdAt: op.holdAt, midAt: op.pos}
			if len(op.mid) > 0 {
				o.mid = runMid
				o.before = func(handled [][2]string) {
					if len(handled) == 0 {
						return
					}
					var ks []string
					for _, k := range handled {
						ks = append(ks, k[0]+","+w.spell(k[1]))
					}
					sort.Strings(ks)
					emit("xs,"+strings.Join(ks, ","), "ok")
					for _, k := range handled {
						settle(k[0], k[1], op.now)
					}
				}
			}
			res := c08SweepWith(w.rd, w.logger, o)
			emit("se", fmt.Sprintf("swept %d %d", res.n, res.v))
			if len(op.mid) > 0 && !res.midRan {
				// the sweep had fewer removals than that: it is complete, the operations come after it
				sweepOracle(op.now)
				runMid()
			}
			posClass := "0"
			if op.pos > 0 {
				posClass = ">0"
			}
			out.Count(fmt.Sprintf("split-sweep:real:mid=%d:pos%s:interrupted=%v", len(op.mid), posClass, res.midRan))
			if op.held != 0 {
				at := "start"
				if op.holdAt >= 0 {
					at = "removal"
				}
				out.Count(fmt.Sprintf("lock-held:%c:sweep-%s:%s", op.held, at, res.holdMet))
			}
			sweepOracle(op.now)
		case 'l':
			var ids []string
			for id2 := range w.rd.getRegistrations(net.ParseIP(phs)) {
				ids = append(ids, w.spell(id2))
			}
			sort.Strings(ids)
			emit(fmt.Sprintf("l,%s", phs), strings.TrimRight("regs "+strings.Join(ids, " "), " "))
			// oracle: a lookup returns exactly the registrations of this phantom that were validated
			// and not expired by a sweep since (ground truth)
			want := map[string]bool{}
			for k, g := range w.gt {
				if k.ph == op.ph && g.valid {
					want[w.identK(k)] = true
				}
			}
			checks++
			for _, id2 := range ids {
				if !want[id2] {
					fail("C08:lookup-returns-unvalidated-or-forgotten", "lookup on "+phs+" returned "+id2+" which is not a validated, tracked registration")
				}
				delete(want, id2)
			}
			for id2 := range want {
				fail("C08:lookup-misses-valid", "lookup on "+phs+" did not return the validated, tracked registration "+id2)
			}
		case 'e':
			d := w.mkReg(op.ph, op.sec, op.tr)
			emit(fmt.Sprintf("e,%s,%s,%d", phs, w.identK(key), tr), vlib.B(w.rd.RegistrationExists(d) != nil))
		case 'n':
			emit(fmt.Sprintf("n,%s", phs), fmt.Sprint(w.rd.countRegistrations(net.ParseIP(phs))))
		case 'T':
			if inSweep {
				return // `T` closes a white-box sweep in the model line
			}
			emit("T", fmt.Sprint(w.rd.TotalRegistrations()))
		}
	}
	for _, op := range ops {
		exec(op, false)
	}
	model, impl := w.cfg()+strings.Join(mops, ";"), strings.Join(outs, ";")+"|"+w.dump()
	for len(w.tunnels) > 0 {
		w.closeTunnel(0)
	}
	if time.Since(w.t0) >= c08SlowLimit*time.Duration(w.quantum) {
		out.Count("discarded:slow-history")
		return model, impl, false
	}
	if w.boundaryInstant {
		out.Count("discarded:sweep-on-a-boundary-instant")
		return model, impl, false
	}
	for i := 0; i < checks; i++ {
		out.Checked()
	}
	for _, f := range fails {
		out.OracleFail(f.sig, f.what, model)
	}
	c08LastFails = len(fails)
	return model, impl, true
}

// c08LastFails: the number of oracle failures of the history runC08Q ran last
var c08LastFails int

func c08SizeClass(n int) int {
	for _, c := range []int{1, 10, 100, 999, 1000, 1024, 2000, 5000, 10000, 100000} {
		if n <= c {
			return c
		}
	}
	return 1 << 30
}

// c08Case runs one history and records it as a correspondence case unless it was discarded.
func c08Case(out *vlib.Out, h []c08Op) {
	if m, i, ok := runC08(out, h); ok {
		out.Case(m, i, true)
	}
}

func mustUnhex(s string) []byte {
	if s == "-" {
		return nil
	}
	b := make([]byte, len(s)/2)
	fmt.Sscanf(s, "%x", &b)
	return b
}

// c08SafeSweep moves a sweep time off every instant at which something that was (possibly) tracked at
// one of the times in `starts` would be exactly as old as a lifetime (the property leaves that instant
// open).
func c08SafeSweep(at int64, starts []int64) int64 {
	for again := true; again; {
		again = false
		for _, s := range starts {
			if at-s == c08Unused || at-s == c08Active {
				at++
				again = true
			}
		}
	}
	return at
}

func c08RandomHistory(r *vlib.Rand, n, nph, nsec int) []c08Op {
	ops := make([]c08Op, 0, n)
	now := int64(0)
	var starts []int64 // times at which something was tracked / registered: candidate creation times
	type pk struct{ ph, sec, tr int }
	var open []pk
	randKey := func() (int, int, int) {
		tr := r.Intn(3)
		if r.Chance(1, 25) {
			tr = 3 // disabled transport
		}
		return r.Intn(nph), r.Intn(nsec), tr
	}
	obj := func() byte {
		switch k := r.Intn(10); {
		case k < 6:
			return 0
		case k < 7:
			return 1
		}
		return 2
	}
	// what may happen between a sweep's collection and its removals
	midOps := func(at int64) []c08Op {
		var mid []c08Op
		for j, k := 0, r.Range(0, 3); j < k; j++ {
			m := c08Op{now: at}
			m.ph, m.sec, m.tr = randKey()
			switch q := r.Intn(10); {
			case q < 5:
				m.kind = 'm'
			case q < 6:
				m.kind, m.obj = 't', obj()
				starts = append(starts, at)
			case q < 7:
				m.kind, m.obj = 'r', obj()
				starts = append(starts, at)
			case q < 8:
				m.kind = 'l'
			case q < 9:
				m.kind = 'P'
			default:
				m.kind = 'e'
			}
			if m.kind != 'P' && r.Chance(1, 10) {
				m.held = []byte{'r', 'w'}[r.Intn(2)]
			}
			mid = append(mid, m)
		}
		return mid
	}
	for i := 0; i < n; i++ {
		// time advances in whole minutes; ordinary sweeps happen on the half minute, boundary sweeps one
		// second before / after a record reaches a lifetime: no record is ever exactly at a limit (the
		// property leaves that instant open)
		switch r.Intn(10) {
		case 0:
			now += 60 * int64(r.Range(1, 12))
		case 1:
			now += 60 * int64(r.Range(30, 400))
		case 2, 3:
			now += 60
		}
		op := c08Op{now: now}
		op.ph, op.sec, op.tr = randKey()
		switch k := r.Intn(24); {
		case k < 4:
			op.kind, op.obj = 't', obj()
			starts = append(starts, now)
		case k < 9:
			op.kind, op.obj = 'r', obj()
			starts = append(starts, now)
		case k < 12:
			op.kind = 'm'
		case k < 15:
			op.kind = 's'
			op.now = now + 30
			if len(starts) > 0 && r.Chance(1, 2) {
				// aim at a lifetime boundary of something that was tracked earlier
				at := starts[r.Intn(len(starts))] + []int64{c08Unused, c08Active}[r.Intn(2)] + []int64{-1, 1}[r.Intn(2)]
				if at > now {
					op.now = at
				}
			}
			op.now = c08SafeSweep(op.now, starts)
			switch r.Intn(4) {
			case 0:
				op.kind, op.mid, op.pos = 'C', midOps(op.now), []int{0, 0, 1, 2, 3}[r.Intn(5)]
			case 1:
				op.kind, op.mid, op.pos = 'S', midOps(op.now), []int{0, 0, 1, 2, 3}[r.Intn(5)]
			}
			if r.Chance(1, 4) {
				// a look-up / a writer is inside the registry lock when the sweep (or one of its removals) arrives
				if op.kind == 's' {
					op.kind = 'S'
				}
				op.held, op.holdAt = []byte{'r', 'w'}[r.Intn(2)], r.Range(-1, 3)
				if op.kind == 'C' && op.holdAt < 0 {
					op.holdAt = 0
				}
			}
			// the clock never runs backwards; later operations are on whole minutes again
			now = (op.now/60 + 1) * 60
		case k < 17:
			op.kind = 'l'
		case k < 18:
			op.kind = 'e'
		case k < 19:
			op.kind = 'n'
		case k < 20:
			op.kind = 'T'
		case k < 23:
			// a connection carries a tunnel: usually on the registration that was marked last
			op.kind = 'P'
			if len(ops) > 0 && ops[len(ops)-1].kind == 'm' && r.Chance(3, 4) {
				l := ops[len(ops)-1]
				op.ph, op.sec, op.tr = l.ph, l.sec, l.tr
			}
			if r.Chance(1, 4) {
				op.n = 1
				open = append(open, pk{op.ph, op.sec, op.tr})
			}
		default:
			op.kind = 'Q'
			if len(open) > 0 && r.Chance(3, 4) {
				j := r.Intn(len(open))
				op.ph, op.sec, op.tr = open[j].ph, open[j].sec, open[j].tr
				open = append(open[:j], open[j+1:]...)
			}
		}
		if strings.IndexByte("trmlenT", op.kind) >= 0 && r.Chance(1, 12) {
			op.held = []byte{'r', 'w'}[r.Intn(2)]
		}
		ops = append(ops, op)
	}
	return ops
}

// c08Exhaustive runs every history of length ≤ L over the alphabet; a non-sweep letter happens 60 s
// after the previous operation, a sweep letter `now` seconds after it.
func c08Exhaustive(out *vlib.Out, alpha []c08Op, L int) {
	var rec func(prefix []c08Op)
	rec = func(prefix []c08Op) {
		if len(prefix) > 0 {
			h := make([]c08Op, len(prefix))
			now := int64(0)
			for i, o := range prefix {
				h[i] = o
				if o.kind == 's' || o.kind == 'C' || o.kind == 'S' {
					now += o.now
				} else {
					now += 60
				}
				h[i].now = now
			}
			c08Case(out, h)
		}
		if len(prefix) == L {
			return
		}
		for _, a := range alpha {
			rec(append(append([]c08Op(nil), prefix...), a))
		}
	}
	rec(nil)
}

// c08Boundaries: every lifetime boundary from both sides, one second away, for each way a record can
// come into being and be touched before the sweep: created by track or register (the object new or
// carrying a Valid flag already), a duplicate in between (must not refresh the clock), a connection
// before the sweep or between the sweep's collection and its removals (must extend the lifetime to 6 h,
// must not restart the clock), a sibling registration of the same secret under another transport; the
// sweep as one call, as its two critical sections, and interrupted at its scheduling point.
func c08Boundaries(out *vlib.Out) {
	for tr := 0; tr < 3; tr++ {
		for _, create := range []byte{'t', 'r'} {
			for _, obj := range []byte{0, 1} {
				for dup := 0; dup < 3; dup++ { // 0 none, 1 duplicate track, 2 duplicate register
					for used := 0; used < 3; used++ { // 0 no connection, 1 before the sweep, 2 during the sweep
						for _, sibling := range []bool{false, true} {
							for _, lim := range []int64{c08Unused, c08Active} {
								for _, d := range []int64{-1, 1} {
									for _, skh := range []string{"s", "C", "S", "Cr", "Cw", "Sr", "Sw"} {
										sk := skh[0]
										var held byte
										if len(skh) > 1 {
											held = skh[1]
										}
										if used == 2 && sk == 's' {
											continue
										}
										h := []c08Op{{kind: create, tr: tr, now: 0, obj: obj}}
										if sibling {
											h = append(h, c08Op{kind: 'r', tr: (tr + 1) % 3, now: 0})
										}
										if dup > 0 {
											h = append(h, c08Op{kind: []byte{'t', 'r'}[dup-1], tr: tr, now: 60})
										}
										if used == 1 {
											h = append(h, c08Op{kind: 'm', tr: tr, now: 120}, c08Op{kind: 'P', tr: tr, now: 120})
										}
										// the interruption / the lock holder sits before the first or the second removal
										// (with a sibling two registrations expire together)
										where := (tr + dup + used + int(obj)) % 2
										sw := c08Op{kind: sk, now: lim + d, held: held, holdAt: where, pos: where}
										if used == 2 {
											sw.mid = []c08Op{{kind: 'm', tr: tr}, {kind: 'P', tr: tr}}
										}
										h = append(h, sw, c08Op{kind: 'l', now: lim + d}, c08Op{kind: 'n', now: lim + d},
											c08Op{kind: sk, now: c08Active + d, held: held, holdAt: 0}, c08Op{kind: 'l', now: c08Active + d}, c08Op{kind: 'n', now: c08Active + d})
										c08Case(out, h)
										out.Count("boundary")
									}
								}
							}
						}
					}
				}
			}
		}
	}
}

// c08Populations: the age rule on big populations — bursts of registrations that expire together, and
// a steady registration rate over many sweep intervals. Times are whole minutes (registrations on even
// minutes, sweeps on odd ones, so no record is ever exactly at a lifetime) and the history may take up
// to 54 s of real time (quantum 60 s).
func c08Populations(out *vlib.Out, r *vlib.Rand) {
	sizes := []int{1, 2, 10, 100, 999, 1000, 1001, 1023, 1024, 1025, 2000, 2500, 4096, 5000, 8192, 10000}
	for i := 0; i < vlib.Budget(6, 30); i++ {
		sizes = append(sizes, r.Range(1, 6000))
	}
	if vlib.Tier() == "thorough" {
		sizes = append(sizes, 16384, 20000, 50000, 100000)
	}
	// The model's per-phantom bucket bookkeeping makes the Lean driver quadratic in the population, so
	// histories over more than c08CorrMax registrations are evaluated by the property oracle only (the
	// age rule on the implementation); up to that size they are correspondence cases as well.
	const c08CorrMax = 2600
	run := func(h []c08Op) {
		big := false
		for _, o := range h {
			if o.kind == 'B' && o.n > c08CorrMax {
				big = true
			}
		}
		m, i, ok := runC08Q(out, h, 60)
		switch {
		case !ok:
			out.Count("population-history:discarded")
		case big:
			out.Count("population-history:oracle-only")
		default:
			out.Case(m, i, true)
			out.Count("population-history:oracle+correspondence")
		}
	}
	for si, n := range sizes {
		ph, tr := si%3, (si/3)%3
		base := c08BulkBase
		// burst: n validated registrations (and n/3+1 that are only tracked) at t=0; a few of them carry a
		// connection; everything unused must be gone after the sweep at 11 min, everything after 6 h
		nUsed := r.Range(0, 5)
		if si%4 == 3 {
			nUsed = n // every one of them carried a connection: they all expire together after 6 h
		}
		h := []c08Op{
			{kind: 'B', sub: 'r', ph: ph, tr: tr, sec: base, n: n, now: 0},
			{kind: 'B', sub: 't', ph: (ph + 1) % 3, tr: tr, sec: base + n, n: n/3 + 1, now: 0},
			{kind: 'B', sub: 'r', ph: ph, tr: tr, sec: base + n/2, n: n/4 + 1, now: 120}, // duplicates: must not renew anything
			{kind: 'T', now: 120}, {kind: 'n', ph: ph, now: 120},
		}
		if nUsed == n {
			h = append(h, c08Op{kind: 'B', sub: 'm', ph: ph, tr: tr, sec: base, n: n, now: 240})
		} else {
			for j := 0; j < nUsed; j++ {
				m := r.Intn(n)
				h = append(h, c08Op{kind: 'm', ph: ph, tr: tr, sec: base + m, now: 240})
				if j%2 == 0 {
					h = append(h, c08Op{kind: 'P', ph: ph, tr: tr, sec: base + m, now: 240, n: j % 4 / 2})
				}
			}
		}
		sk := []byte{'s', 'C', 'S'}[si%3]
		first := c08Op{kind: sk, now: 660}
		if sk != 's' {
			// a member is matched by a connection after the sweep collected it, anywhere in the removal loop
			first.mid = []c08Op{{kind: 'm', ph: ph, tr: tr, sec: base + r.Intn(n)}}
			first.pos = r.Intn(n)
			if si%2 == 1 {
				// … and one of the removals arrives while a look-up / a writer is inside the registry lock
				first.held, first.holdAt = []byte{'r', 'w'}[si/2%2], r.Range(-1, n-1)
				if sk == 'C' && first.holdAt < 0 {
					first.holdAt = 0
				}
			}
		}
		h = append(h, c08Op{kind: 's', now: 540}, c08Op{kind: 'T', now: 540}, // 9 min: nothing has expired
			first, c08Op{kind: 'T', now: 660}, c08Op{kind: 'n', ph: ph, now: 660})
		if nUsed != n {
			h = append(h, c08Op{kind: 'l', ph: ph, now: 660})
		}
		if si%2 == 0 {
			// a second generation of the same registrations (new lifetime) while the used ones live on
			h = append(h, c08Op{kind: 'B', sub: 'r', ph: ph, tr: tr, sec: base, n: n, now: 720},
				c08Op{kind: 's', now: 1380}, c08Op{kind: 'T', now: 1380})
		}
		h = append(h, c08Op{kind: 's', now: 21540}, c08Op{kind: 'T', now: 21540},
			c08Op{kind: sk, now: 21660}, c08Op{kind: 'T', now: 21660},
			c08Op{kind: 's', now: 21660 + 21600 + 120}, c08Op{kind: 'T', now: 21660 + 21600 + 120})
		run(h)
	}
	// steady rate: `rate` new registrations every 6 minutes, a sweep one minute after each batch, over
	// many intervals; after every sweep exactly the batches younger than 10 minutes (and the handful of
	// used registrations younger than 6 h) are tracked — tracked state is bounded by the rate
	rates := []int{7, 300, 1200}
	if vlib.Tier() == "thorough" {
		rates = append(rates, 2500, 6000)
	}
	for ri, rate := range rates {
		var h []c08Op
		next := c08BulkBase
		for b := 0; b < 12; b++ {
			at := int64(b) * 360
			h = append(h, c08Op{kind: 'B', sub: []byte{'r', 't'}[b%2], ph: b % 3, tr: ri % 3, sec: next, n: rate, now: at})
			if b%3 == 0 {
				h = append(h, c08Op{kind: 'm', ph: b % 3, tr: ri % 3, sec: next + r.Intn(rate), now: at})
			}
			next += rate
			sw := c08Op{kind: []byte{'s', 'S', 'C'}[b%3], now: at + 60}
			if b%4 == 1 && sw.kind != 's' {
				sw.held, sw.holdAt = []byte{'r', 'w'}[b/4%2], r.Range(0, 3)
			}
			h = append(h, sw, c08Op{kind: 'T', now: at + 60})
		}
		run(h)
	}
}

func TestVerifC08(t *testing.T) {
	out := vlib.Open("C08")
	defer out.Close()
	// ---- the lifetimes themselves: the property says 10 minutes and 6 hours
	{
		rd := NewRegisteredDecoys()
		out.Checked()
		if rd.timeoutUnused != 10*time.Minute || rd.timeoutActive != 6*time.Hour ||
			defaultUnusedTimeout != 10*time.Minute || defaultActiveTimeout != 6*time.Hour {
			out.OracleFail("C08:lifetime-not-10min-6h", fmt.Sprintf("the registry expires unused registrations after %v (default %v) and used ones after %v (default %v); the property says 10m and 6h",
				rd.timeoutUnused, defaultUnusedTimeout, rd.timeoutActive, defaultActiveTimeout), "limits: NewRegisteredDecoys().timeoutUnused/timeoutActive, defaultUnusedTimeout/defaultActiveTimeout")
		}
	}
	if rp := vlib.Replay(); rp != "" {
		c08Replay(t, out, rp)
		return
	}
	// corpus first: one secret used with two transports on one phantom, then 7 h pass
	corpus := [][]c08Op{
		{{kind: 'r', ph: 0, sec: 0, tr: 0, now: 0}, {kind: 'r', ph: 0, sec: 0, tr: 1, now: 60}, {kind: 'm', ph: 0, sec: 0, tr: 0},
			{kind: 's', now: 3630}, {kind: 'l', ph: 0}, {kind: 's', now: 25230}, {kind: 'l', ph: 0}, {kind: 'T'}},
		{{kind: 't', ph: 0, sec: 0, tr: 0, now: 0}, {kind: 't', ph: 0, sec: 0, tr: 0, now: 60}, {kind: 'l', ph: 0}, {kind: 'r', ph: 0, sec: 0, tr: 0, now: 120},
			{kind: 'r', ph: 0, sec: 0, tr: 0, now: 120}, {kind: 'l', ph: 0}, {kind: 's', now: 630}, {kind: 's', now: 750}, {kind: 'l', ph: 0}},
		{{kind: 'r', ph: 2, sec: 1, tr: 2, now: 0}, {kind: 'r', ph: 0, sec: 1, tr: 2, now: 0}, {kind: 'm', ph: 2, sec: 1, tr: 2}, {kind: 's', now: 21630}, {kind: 'T'}},
		// every registration of a phantom expires while another phantom keeps one: the emptied inner map must go
		{{kind: 'r', ph: 0, sec: 0, tr: 0, now: 0}, {kind: 't', ph: 0, sec: 1, tr: 1, now: 0}, {kind: 'r', ph: 1, sec: 0, tr: 0, now: 0}, {kind: 'm', ph: 1, sec: 0, tr: 0},
			{kind: 's', now: 630}, {kind: 'n', ph: 0}, {kind: 'T'}, {kind: 'r', ph: 0, sec: 0, tr: 0, now: 720}, {kind: 's', now: 21630}, {kind: 'T'}},
		// a registration object that lived before is delivered again after the sweep forgot it: tracked,
		// not visible until it is validated again, announced again exactly once; it then carries a
		// connection with a tunnel and still expires after 6 h, the tunnel open or not
		{{kind: 'r', now: 0}, {kind: 'l'}, {kind: 's', now: 630}, {kind: 't', now: 720, obj: 2}, {kind: 'l', now: 720}, {kind: 'r', now: 780, obj: 2}, {kind: 'l', now: 780},
			{kind: 'm', now: 840}, {kind: 'P', now: 840}, {kind: 'P', now: 840, n: 1}, {kind: 's', now: 720 + 21570}, {kind: 'l', now: 720 + 21570},
			{kind: 's', now: 720 + 21630}, {kind: 'l', now: 720 + 21630}, {kind: 'T', now: 720 + 21630}, {kind: 'Q', now: 720 + 21690}},
		// an object constructed with the Valid flag set is tracked: not visible
		{{kind: 't', now: 0, obj: 1}, {kind: 'l'}, {kind: 'r', now: 60, obj: 1, sec: 1}, {kind: 'l', now: 60}, {kind: 'r', now: 120}, {kind: 'l', now: 120}},
		// a duplicate delivery must not renew the lifetime: expiry counts from the first delivery
		{{kind: 'r', now: 0}, {kind: 'r', now: 300}, {kind: 't', now: 540, obj: 1}, {kind: 's', now: 630}, {kind: 'l', now: 630}, {kind: 'T', now: 630}},
		// a connection between the sweep's collection and its removals keeps the registration (6 h from the registration)
		{{kind: 'r', now: 0}, {kind: 'r', sec: 1, now: 0}, {kind: 'C', now: 660, mid: []c08Op{{kind: 'm'}, {kind: 'P'}}}, {kind: 'l', now: 660},
			{kind: 'S', now: 21570, mid: []c08Op{{kind: 'm', sec: 1}}}, {kind: 'l', now: 21570}, {kind: 'S', now: 21630, mid: []c08Op{{kind: 'm'}}}, {kind: 'T', now: 21630}},
		{{kind: 'r', now: 0}, {kind: 'r', sec: 1, now: 0}, {kind: 'S', now: 660, mid: []c08Op{{kind: 'm'}, {kind: 't', sec: 2}, {kind: 'r', sec: 1}}}, {kind: 'l', now: 660}, {kind: 'T', now: 660}},
	}
	corpus = append(corpus,
		// three registrations expire together; a connection on one of them arrives before the first / second /
		// third removal: that one lives on, the other two are forgotten, whatever the order of the loop
		[]c08Op{{kind: 'r', now: 0}, {kind: 'r', sec: 1, now: 0}, {kind: 'r', sec: 2, now: 0}, {kind: 'S', now: 660, pos: 0, mid: []c08Op{{kind: 'm', sec: 1}}}, {kind: 'l', now: 660}, {kind: 'T', now: 660}},
		[]c08Op{{kind: 'r', now: 0}, {kind: 'r', sec: 1, now: 0}, {kind: 'r', sec: 2, now: 0}, {kind: 'S', now: 660, pos: 1, mid: []c08Op{{kind: 'm', sec: 1}}}, {kind: 'l', now: 660}, {kind: 'T', now: 660}},
		[]c08Op{{kind: 'r', now: 0}, {kind: 'r', sec: 1, now: 0}, {kind: 'r', sec: 2, now: 0}, {kind: 'S', now: 660, pos: 2, mid: []c08Op{{kind: 'm', sec: 2}, {kind: 'P', sec: 2}}}, {kind: 'l', now: 660}, {kind: 'T', now: 660}},
		[]c08Op{{kind: 'r', now: 0}, {kind: 'r', sec: 1, now: 0}, {kind: 'r', sec: 2, now: 0}, {kind: 'C', now: 660, pos: 1, mid: []c08Op{{kind: 'm', sec: 0}}}, {kind: 'l', now: 660}, {kind: 'T', now: 660}},
		// a look-up (reader) / a writer is inside the registry lock when the sweep starts, when its first / second
		// removal arrives, when a connection / a registration / a look-up arrives: everything waits, nothing is skipped
		[]c08Op{{kind: 'r', now: 0}, {kind: 'r', sec: 1, now: 0}, {kind: 'S', now: 660, held: 'r', holdAt: 0}, {kind: 'l', now: 660}, {kind: 'T', now: 660}},
		[]c08Op{{kind: 'r', now: 0}, {kind: 'r', sec: 1, now: 0}, {kind: 'S', now: 660, held: 'r', holdAt: 1}, {kind: 'l', now: 660}, {kind: 'T', now: 660}},
		[]c08Op{{kind: 'r', now: 0}, {kind: 'r', sec: 1, now: 0}, {kind: 'S', now: 660, held: 'w', holdAt: -1}, {kind: 'l', now: 660}, {kind: 'T', now: 660}},
		[]c08Op{{kind: 'r', now: 0}, {kind: 'r', sec: 1, now: 0}, {kind: 'S', now: 660, held: 'w', holdAt: 1}, {kind: 'l', now: 660}, {kind: 'T', now: 660}},
		[]c08Op{{kind: 'r', now: 0}, {kind: 'r', sec: 1, now: 0}, {kind: 'C', now: 660, held: 'r', holdAt: 0}, {kind: 'l', now: 660}, {kind: 'T', now: 660}},
		[]c08Op{{kind: 'r', now: 0, held: 'r'}, {kind: 'm', now: 60, held: 'w'}, {kind: 'm', sec: 1, now: 60, held: 'r'}, {kind: 't', sec: 1, now: 60, held: 'w'}, {kind: 'l', now: 60, held: 'w'}, {kind: 'l', now: 60, held: 'r'},
			{kind: 'S', now: 660, held: 'r', holdAt: 0, mid: []c08Op{{kind: 'm', sec: 1, held: 'r'}}}, {kind: 'l', now: 660}, {kind: 's', now: 21660}, {kind: 'T', now: 21660}},
	)
	for _, h := range corpus {
		c08Case(out, h)
	}
	c08Boundaries(out)
	// exhaustive: every history of length ≤ L over a small alphabet (1 phantom, 1 secret, 2 transports).
	// `s+30` lets unused registrations survive a sweep, `t` on the second transport gives a tracked but
	// never validated sibling.
	alpha10 := []c08Op{
		{kind: 'r', tr: 0}, {kind: 'r', tr: 1}, {kind: 't', tr: 0}, {kind: 'm', tr: 0}, {kind: 'm', tr: 1},
		{kind: 's', now: 630}, {kind: 's', now: 21630}, {kind: 'l'}, {kind: 's', now: 30}, {kind: 't', tr: 1},
	}
	// second alphabet: the registration object is delivered again / arrives with Valid set, the
	// connection carries a tunnel, the sweep is interrupted by a connection
	alphaX := []c08Op{
		{kind: 'r', obj: 2}, {kind: 't', obj: 2}, {kind: 't', obj: 1}, {kind: 'm'}, {kind: 'P'},
		{kind: 's', now: 630}, {kind: 's', now: 21630}, {kind: 'l'},
		{kind: 'C', now: 630, mid: []c08Op{{kind: 'm'}}}, {kind: 'S', now: 21630, mid: []c08Op{{kind: 'm'}}},
		{kind: 'S', now: 630, mid: []c08Op{{kind: 'r', obj: 2}}},
		// a second registration, so that two expire in one sweep; the interruption before the second removal;
		// a look-up / a writer inside the registry lock when a removal / a connection arrives
		{kind: 'r', tr: 1}, {kind: 'S', now: 630, pos: 1, mid: []c08Op{{kind: 'm'}}},
		{kind: 'S', now: 630, held: 'r', holdAt: 0}, {kind: 'm', held: 'w'},
	}
	if vlib.Tier() == "thorough" {
		c08Exhaustive(out, alpha10, 6) // 1.1 million histories
		c08Exhaustive(out, alphaX, 5)  // 814 thousand
	} else {
		c08Exhaustive(out, alpha10, 4)
		c08Exhaustive(out, alphaX, 4)
	}
	r := vlib.NewRand("C08")
	// big populations
	c08Populations(out, r)
	// random long histories over larger alphabets
	n := vlib.Budget(600, 20000)
	for i := 0; i < n; i++ {
		c08Case(out, c08RandomHistory(r, r.Range(5, 400), r.Range(1, 3), r.Range(1, 4)))
	}
	for _, f := range c08Extra {
		f(out, r)
	}
}

// c08ParseLine turns a model line (`registry|…` or `registryx|…`) back into a history.
func c08ParseLine(t *testing.T, line string) ([]c08Op, int64) {
	f := strings.Split(line, "|")
	idents := map[string][3]int{}
	w := newC08World()
	for ph := range c08Phantoms {
		for sec := 0; sec < 16; sec++ {
			for tr := 0; tr < 3; tr++ {
				idents[c08Phantoms[ph]+","+w.identK(c08Key{ph, sec, tr})] = [3]int{ph, sec, tr}
			}
		}
	}
	phIdx := map[string]int{}
	for i, p := range c08Phantoms {
		phIdx[p] = i
	}
	trIdx := map[int]int{}
	for i, x := range c08Transports {
		trIdx[int(x)] = i
	}
	phOf := func(ph string) int {
		pi, ok := phIdx[ph]
		if !ok {
			t.Fatalf("replay: unknown phantom %q in %q", ph, line)
		}
		return pi
	}
	// an identifier or phantom the replay does not know must not silently become (0,0,0)
	lookup := func(ph, id, tr string) [3]int {
		if tr == "2" { // the disabled transport: its identifier is a placeholder
			return [3]int{phOf(ph), 0, 3}
		}
		if strings.HasPrefix(id, "b") && strings.Contains(id, "_") { // a burst member: b<transport>_<index>
			var trn, i int
			if _, err := fmt.Sscanf(id, "b%d_%d", &trn, &i); err == nil {
				return [3]int{phOf(ph), c08BulkBase + i, trIdx[trn]}
			}
		}
		k, ok := idents[ph+","+id]
		if !ok {
			t.Fatalf("replay: identifier %s on %s is none of the harness's registrations (line %q)", id, ph, line)
		}
		return k
	}
	objOf := func(s string) byte {
		switch s {
		case "1":
			return 1
		case "r0", "r1":
			return 2
		}
		return 0
	}
	quantum := int64(1)
	var ops []c08Op
	toks := strings.Split(f[4], ";")
	var parse func(i int, stop func(string) bool) ([]c08Op, int)
	parse = func(i int, stop func(string) bool) ([]c08Op, int) {
		var res []c08Op
		for i < len(toks) {
			p := strings.Split(toks[i], ",")
			// the head token may carry the annotation of a lock-holder stand-in: m@w, sb@r2, x@r
			ann := ""
			if k := strings.IndexByte(p[0], '@'); k >= 0 {
				p[0], ann = p[0][:k], p[0][k+1:]
			}
			if stop != nil && stop(p[0]) {
				return res, i
			}
			op := c08Op{kind: p[0][0]}
			if ann != "" {
				op.held = ann[0]
				if len(ann) > 1 {
					op.holdAt, _ = strconv.Atoi(ann[1:])
				}
			}
			switch p[0] {
			case "t", "r", "to", "ro":
				k := lookup(p[1], p[2], p[3])
				op.ph, op.sec, op.tr = k[0], k[1], k[2]
				op.now, _ = strconv.ParseInt(p[4], 10, 64)
				if len(p) > 5 {
					op.obj = objOf(p[5])
				}
			case "m", "e":
				k := lookup(p[1], p[2], p[3])
				op.ph, op.sec, op.tr = k[0], k[1], k[2]
			case "P":
				k := lookup(p[1], p[2], "")
				op.ph, op.sec, op.tr = k[0], k[1], k[2]
				// a tunnel that finishes at once is spelled `P;Q`
				if i+1 < len(toks) && toks[i+1] == "Q,"+p[1]+","+p[2] {
					i++
				} else {
					op.n = 1
				}
			case "Q":
				k := lookup(p[1], p[2], "")
				op.ph, op.sec, op.tr = k[0], k[1], k[2]
			case "B":
				op.sub = p[1][0]
				op.ph = phOf(p[2])
				start, _ := strconv.Atoi(p[4])
				op.sec = c08BulkBase + start
				op.n, _ = strconv.Atoi(p[5])
				trn, _ := strconv.Atoi(p[6])
				op.tr = trIdx[trn]
				op.now, _ = strconv.ParseInt(p[7], 10, 64)
				quantum = 60
			case "s":
				op.now, _ = strconv.ParseInt(p[1], 10, 64)
			case "l", "n":
				op.ph = phOf(p[1])
			case "T":
			case "sb":
				op.kind = 'S'
				op.now, _ = strconv.ParseInt(p[1], 10, 64)
				// either `sb; mid…; se` (interrupted) or `sb; se; mid…` (nothing was collected: the
				// operations follow the sweep, which is what replaying them as plain operations does)
				j := i + 1
				if j < len(toks) && strings.HasPrefix(toks[j], "xs,") {
					// the removals the loop had made before it was interrupted
					op.pos = (len(strings.Split(toks[j], ",")) - 1) / 2
					j++
				}
				op.mid, j = parse(j, func(s string) bool { return s == "se" })
				i = j
			case "c":
				op.kind = 'C'
				op.now, _ = strconv.ParseInt(p[1], 10, 64)
				// c; x…(pos removals); mid…; x…; T — one of the x may be annotated x@r / x@w
				j, nx := i+1, 0
				op.held = 0
				isX := func(t string) bool { return strings.HasPrefix(t, "x,") || strings.HasPrefix(t, "x@") }
				noteX := func(t string) {
					if strings.HasPrefix(t, "x@") {
						op.held, op.holdAt = t[2], nx
					}
					nx++
				}
				for j < len(toks) && isX(toks[j]) {
					noteX(toks[j])
					j++
				}
				op.pos = nx
				op.mid, j = parse(j, func(s string) bool { return s == "x" || s == "T" })
				for j < len(toks) && isX(toks[j]) {
					noteX(toks[j])
					j++
				}
				if len(op.mid) == 0 {
					op.pos = 0
				}
				i = j // the closing T
			default:
				t.Fatalf("replay: unknown operation %q in %q", toks[i], line)
			}
			res = append(res, op)
			i++
		}
		return res, i
	}
	ops, _ = parse(0, nil)
	// operations inside a sweep and the ones that carry no time of their own happen at the current time
	now := int64(0)
	for i := range ops {
		if ops[i].now < now {
			ops[i].now = now
		}
		now = ops[i].now
	}
	return ops, quantum
}

// c08Replay re-runs a replay file (model lines) against the implementation.
func c08Replay(t *testing.T, out *vlib.Out, path string) {
	b, err := os.ReadFile(path)
	if err != nil {
		t.Fatal(err)
	}
	for _, line := range strings.Split(string(b), "\n") {
		if !strings.HasPrefix(line, "registry|") && !strings.HasPrefix(line, "registryx|") {
			for _, f := range c08ReplayExtra {
				if f(t, out, line) {
					break
				}
			}
			continue
		}
		ops, quantum := c08ParseLine(t, line)
		// A history with an interrupted sweep depends on the order in which Go's map iteration hands the
		// collected indices to the removal loop: it is run until the oracle fails, at most 12 times.
		for try, good := 0, 0; try < 40 && good < 12; try++ {
			m, i, ok := runC08Q(out, ops, quantum)
			if !ok {
				continue // slower than the limit: run it again
			}
			good++
			out.Case(m, i, true)
			fmt.Println("REPLAY model-line:", m)
			fmt.Println("REPLAY impl      :", i)
			if c08LastFails > 0 || !strings.Contains(line, "sb") {
				break
			}
		}
	}
}
