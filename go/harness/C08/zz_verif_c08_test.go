//go:build verif

package lib

// Correspondence + property oracle for C08 (and the sequential part of C02/C09): operation
// histories against the real RegisteredDecoys, same histories as lines for the Lean registry model.

import (
	"fmt"
	"io"
	golog "log"
	"net"
	"os"
	"sort"
	"strings"
	"testing"
	"time"

	"github.com/refraction-networking/conjure/internal/vlib"
	"github.com/refraction-networking/conjure/pkg/core"
	"github.com/refraction-networking/conjure/pkg/station/log"
	"github.com/refraction-networking/conjure/pkg/transports/connecting/dtls"
	"github.com/refraction-networking/conjure/pkg/transports/wrapping/min"
	"github.com/refraction-networking/conjure/pkg/transports/wrapping/prefix"
	pb "github.com/refraction-networking/conjure/proto"
)

type c08GT struct { // harness ground truth per (phantom, secret, transport)
	time  int64
	used  bool
	valid bool
}

type c08World struct {
	rd      *RegisteredDecoys
	ann     []string
	lastNow int64 // virtual clock (seconds); records are aged by shifting their real timestamps
	gt      map[string]*c08GT
	logger  *log.Logger
	t0      time.Time // real time at which the history started (see c08SlowLimit)
}

// The code reads the real clock: the age it sees is the virtual age plus the real time that has
// passed since the record was created, i.e. at most the real duration of the whole history. A history
// that took longer than this limit (a stalled machine) is discarded as a whole — no case, no oracle
// verdict — so that no verdict ever depends on timing: below the limit every age the code computes is
// in [virtual age, virtual age + 0.9 s), ages are probed no closer than 1 s to a lifetime, and the
// creation time of a record is recovered exactly by rounding its age down to whole seconds.
const c08SlowLimit = 900 * time.Millisecond

var c08Phantoms = []string{"10.0.0.1", "10.0.0.2", "2001:db8::1"}
var c08Transports = []pb.TransportType{pb.TransportType_Min, pb.TransportType_Prefix, pb.TransportType_DTLS, pb.TransportType_Obfs4}

func c08Secret(i int) []byte {
	s := make([]byte, 32)
	for j := range s {
		s[j] = byte(i*37 + j)
	}
	return s
}

func newC08World() *c08World {
	w := &c08World{rd: NewRegisteredDecoys(), gt: map[string]*c08GT{}, t0: time.Now()}
	w.rd.transports[pb.TransportType_Min] = min.Transport{}
	w.rd.transports[pb.TransportType_Prefix] = prefix.Transport{}
	w.rd.transports[pb.TransportType_DTLS] = dtls.Transport{}
	// Obfs4 deliberately not enabled: exercises the unknown-transport error path
	w.rd.registerForDetector = func(d *DecoyRegistration) { w.ann = append(w.ann, "new") }
	w.rd.updateInDetector = func(d *DecoyRegistration) { w.ann = append(w.ann, "upd") }
	w.logger = log.New(io.Discard, "", golog.Ldate)
	return w
}

func (w *c08World) mkReg(ph, sec, tr int) *DecoyRegistration {
	src := pb.RegistrationSource_API
	// flags a client / another station may set must not influence tracking, visibility or expiry
	pre := sec%2 == 1
	return &DecoyRegistration{
		PhantomIp:          net.ParseIP(c08Phantoms[ph]),
		Keys:               &core.ConjureSharedKeys{SharedSecret: c08Secret(sec)},
		Transport:          c08Transports[tr],
		RegistrationSource: &src,
		Flags:              &pb.RegistrationFlags{Prescanned: &pre},
	}
}

func (w *c08World) ident(d *DecoyRegistration) string {
	t, ok := w.rd.transports[d.Transport]
	if !ok {
		// any fixed text: the model never stores a registration of a disabled transport
		return "00"
	}
	return vlib.Hex([]byte(t.GetIdentifier(d)))
}

func gtKey(ph, sec, tr int) string { return fmt.Sprintf("%d/%d/%d", ph, sec, tr) }

// advance moves the virtual clock to `now`: every timeout record is aged by the elapsed virtual time.
// Only relative shifts are applied, so whatever the code itself writes into registrationTime
// (creation, or a change a mutation introduces) is preserved and observed.
func (w *c08World) advance(now int64) {
	if d := now - w.lastNow; d > 0 {
		for _, to := range w.rd.decoysTimeouts {
			to.registrationTime = to.registrationTime.Add(-time.Duration(d) * time.Second)
		}
		w.lastNow = now
	}
}

// vcreated is the virtual time at which the record's clock started, as the code sees it now.
func (w *c08World) vcreated(to *DecoyTimeout) int64 {
	age := time.Since(to.registrationTime)
	return w.lastNow - int64(age/time.Second)
}

func (w *c08World) dump() string {
	var d, t []string
	for ph, m := range w.rd.decoys {
		for id, r := range m {
			d = append(d, fmt.Sprintf("%s,%s,%d,%s,%d", ph, vlib.Hex([]byte(id)), int(r.Transport), vlib.B(r.Valid), r.regCount))
		}
	}
	for _, to := range w.rd.decoysTimeouts {
		t = append(t, fmt.Sprintf("%s,%s,%d,%s", to.decoy, vlib.Hex([]byte(to.identifier)), w.vcreated(to), vlib.B(to.status == regStatusUsed)))
	}
	sort.Strings(d)
	sort.Strings(t)
	// the outer level of the nested map: which per-phantom buckets are stored (also empty ones)
	var p []string
	for ph := range w.rd.decoys {
		p = append(p, ph)
	}
	sort.Strings(p)
	return "D:" + strings.Join(d, "/") + "|T:" + strings.Join(t, "/") + "|P:" + strings.Join(p, ",")
}

// c08Cfg is the head of the model line: the lifetimes are the ones the code under test uses (whole
// seconds), so the model is driven by the code's own limits while the oracle keeps the property's.
func (w *c08World) cfg() string {
	return fmt.Sprintf("registry|%d|%d|1,4,3|", int64(w.rd.timeoutUnused/time.Second), int64(w.rd.timeoutActive/time.Second))
}

type c08Op struct {
	kind        byte
	ph, sec, tr int
	now         int64
}

const c08Unused, c08Active = 600, 21600

func c08Alive(g *c08GT, now int64) bool {
	age := now - g.time
	return age <= c08Active && (g.used || age <= c08Unused)
}

// runC08 executes one history on the implementation; returns the model line, the implementation's
// answer (outs + final dump) and whether the history counts (false: it was slower than c08SlowLimit
// and is discarded, together with whatever the oracles said about it).
func runC08(out *vlib.Out, ops []c08Op) (string, string, bool) {
	w := newC08World()
	var mops, outs []string
	type c08Fail struct{ sig, what, replay string }
	var fails []c08Fail
	checks := 0
	fail := func(sig, what string) {
		fails = append(fails, c08Fail{sig, what, w.cfg() + strings.Join(mops, ";")})
	}
	for _, op := range ops {
		d := w.mkReg(op.ph, op.sec, op.tr)
		id := w.ident(d)
		phs := c08Phantoms[op.ph]
		tr := int(c08Transports[op.tr])
		enabled := op.tr != 3
		g := w.gt[gtKey(op.ph, op.sec, op.tr)]
		w.ann = w.ann[:0]
		w.advance(op.now)
		switch op.kind {
		case 't':
			mops = append(mops, fmt.Sprintf("t,%s,%s,%d,%d", phs, id, tr, op.now))
			w.advance(op.now)
			err := w.rd.Track(d)
			if err != nil {
				outs = append(outs, "err")
			} else {
				outs = append(outs, "ok")
			}
			if enabled && g == nil {
				w.gt[gtKey(op.ph, op.sec, op.tr)] = &c08GT{time: op.now}
			}
		case 'r':
			mops = append(mops, fmt.Sprintf("r,%s,%s,%d,%d", phs, id, tr, op.now))
			w.advance(op.now)
			err := w.rd.register(phs, d)
			switch {
			case err != nil:
				outs = append(outs, "err")
			case len(w.ann) == 1 && w.ann[0] == "new":
				outs = append(outs, "new")
			case len(w.ann) == 0:
				outs = append(outs, "dup")
			default:
				outs = append(outs, "ann?"+strings.Join(w.ann, "+"))
			}
			if enabled {
				if g == nil {
					g = &c08GT{time: op.now}
					w.gt[gtKey(op.ph, op.sec, op.tr)] = g
				}
				// oracle (C09 announce-once, sequential part): announced iff it was not valid before
				checks++
				if (len(w.ann) == 1) == g.valid {
					fail("C08:announce-once", fmt.Sprintf("register announced=%v although valid-before=%v", len(w.ann) == 1, g.valid))
				}
				g.valid = true
			}
		case 'm':
			mops = append(mops, fmt.Sprintf("m,%s,%s,%d", phs, id, tr))
			// a connection handler marks the object it got from the lookup when there is one
			if m, ok := w.rd.decoys[phs]; ok {
				if stored, ok := m[string(mustUnhex(id))]; ok {
					d = stored
				}
			}
			w.rd.markActive(d)
			if len(w.ann) == 1 && w.ann[0] == "upd" {
				outs = append(outs, "upd")
			} else if len(w.ann) == 0 {
				outs = append(outs, "none")
			} else {
				outs = append(outs, "ann?"+strings.Join(w.ann, "+"))
			}
			if g != nil {
				g.used = true
			}
		case 's':
			mops = append(mops, fmt.Sprintf("s,%d", op.now))
			w.advance(op.now)
			n, v := w.rd.removeOldRegistrations(w.logger)
			outs = append(outs, fmt.Sprintf("swept %d %d", n, v))
			// ---- property oracle: the age rule, evaluated against the harness ground truth
			for key, g := range w.gt {
				var ph, sec, tr int
				fmt.Sscanf(key, "%d/%d/%d", &ph, &sec, &tr)
				dd := w.mkReg(ph, sec, tr)
				tracked := w.rd.RegistrationExists(dd) != nil
				want := c08Alive(g, op.now)
				checks++
				if tracked && !want {
					fail("C08:kept-past-lifetime", fmt.Sprintf("%s tracked after sweep at %d: age %d used %v", key, op.now, op.now-g.time, g.used))
				}
				if !tracked && want {
					fail("C08:expired-early", fmt.Sprintf("%s gone after sweep at %d: age %d used %v", key, op.now, op.now-g.time, g.used))
				}
				if !want {
					// still matching a connection?
					for id2 := range w.rd.getRegistrations(dd.PhantomIp) {
						if vlib.Hex([]byte(id2)) == w.ident(dd) {
							fail("C08:expired-still-matches", key)
						}
					}
					delete(w.gt, key)
				}
			}
			// no residue: both maps hold exactly the ground-truth set
			if w.rd.totalRegistrations() != len(w.gt) || len(w.rd.decoysTimeouts) != len(w.gt) {
				fail("C08:residue", fmt.Sprintf("after sweep at %d: regs=%d timeouts=%d expected=%d", op.now, w.rd.totalRegistrations(), len(w.rd.decoysTimeouts), len(w.gt)))
			}
			// forgotten entirely: the nested map keeps one inner map per phantom that still has a tracked
			// registration — an inner map left behind empty (or kept for a phantom whose registrations
			// have all expired) is residue that grows with every phantom address ever used
			gtPh := map[int]bool{}
			for key := range w.gt {
				var ph, sec, tr int
				fmt.Sscanf(key, "%d/%d/%d", &ph, &sec, &tr)
				gtPh[ph] = true
			}
			checks++
			empty := 0
			for _, m := range w.rd.decoys {
				if len(m) == 0 {
					empty++
				}
			}
			if empty > 0 || len(w.rd.decoys) != len(gtPh) {
				fail("C08:residue-phantom-bucket", fmt.Sprintf("after sweep at %d: %d per-phantom maps stored (%d of them empty), %d phantoms have a tracked registration", op.now, len(w.rd.decoys), empty, len(gtPh)))
			}
		case 'l':
			mops = append(mops, fmt.Sprintf("l,%s", phs))
			var ids []string
			for id2 := range w.rd.getRegistrations(net.ParseIP(phs)) {
				ids = append(ids, vlib.Hex([]byte(id2)))
			}
			sort.Strings(ids)
			outs = append(outs, strings.TrimRight("regs "+strings.Join(ids, " "), " "))
			// oracle: a lookup returns exactly the registrations of this phantom that were validated
			// and not expired by a sweep since (ground truth)
			want := map[string]bool{}
			for key, g := range w.gt {
				var ph, sec, tr int
				fmt.Sscanf(key, "%d/%d/%d", &ph, &sec, &tr)
				if ph == op.ph && g.valid {
					want[w.ident(w.mkReg(ph, sec, tr))] = true
				}
			}
			checks++
			for _, id2 := range ids {
				if !want[id2] {
					fail("C08:lookup-returns-unvalidated-or-forgotten", "lookup on "+phs+" returned "+id2+" which is not a validated, tracked registration")
				}
				delete(want, id2)
			}
			for id2 := range want {
				fail("C08:lookup-misses-valid", "lookup on "+phs+" did not return the validated, tracked registration "+id2)
			}
		case 'e':
			mops = append(mops, fmt.Sprintf("e,%s,%s,%d", phs, id, tr))
			outs = append(outs, vlib.B(w.rd.RegistrationExists(d) != nil))
		case 'n':
			mops = append(mops, fmt.Sprintf("n,%s", phs))
			outs = append(outs, fmt.Sprint(w.rd.countRegistrations(net.ParseIP(phs))))
		case 'T':
			mops = append(mops, "T")
			outs = append(outs, fmt.Sprint(w.rd.TotalRegistrations()))
		}
		out.Count("op:" + string(op.kind))
		out.Count("out:" + strings.SplitN(outs[len(outs)-1], " ", 2)[0])
	}
	model, impl := w.cfg()+strings.Join(mops, ";"), strings.Join(outs, ";")+"|"+w.dump()
	if time.Since(w.t0) >= c08SlowLimit {
		out.Count("discarded:slow-history")
		return model, impl, false
	}
	for i := 0; i < checks; i++ {
		out.Checked()
	}
	for _, f := range fails {
		out.OracleFail(f.sig, f.what, f.replay)
	}
	return model, impl, true
}

// c08Case runs one history and records it as a correspondence case unless it was discarded.
func c08Case(out *vlib.Out, h []c08Op) {
	if m, i, ok := runC08(out, h); ok {
		out.Case(m, i, true)
	}
}

func mustUnhex(s string) []byte {
	if s == "-" {
		return nil
	}
	b := make([]byte, len(s)/2)
	fmt.Sscanf(s, "%x", &b)
	return b
}

func c08RandomHistory(r *vlib.Rand, n, nph, nsec int) []c08Op {
	ops := make([]c08Op, 0, n)
	now := int64(0)
	var starts []int64 // times at which something was tracked / registered: candidate creation times
	for i := 0; i < n; i++ {
		// time advances in whole minutes; ordinary sweeps happen on the half minute, boundary sweeps one
		// second before / after a record reaches a lifetime: no record is ever exactly at a limit (the
		// property leaves that instant open)
		switch r.Intn(10) {
		case 0:
			now += 60 * int64(r.Range(1, 12))
		case 1:
			now += 60 * int64(r.Range(30, 400))
		case 2, 3:
			now += 60
		}
		op := c08Op{ph: r.Intn(nph), sec: r.Intn(nsec), tr: r.Intn(3), now: now}
		if r.Chance(1, 25) {
			op.tr = 3 // disabled transport
		}
		switch k := r.Intn(20); {
		case k < 4:
			op.kind = 't'
			starts = append(starts, now)
		case k < 9:
			op.kind = 'r'
			starts = append(starts, now)
		case k < 12:
			op.kind = 'm'
		case k < 15:
			op.kind = 's'
			op.now = now + 30
			if len(starts) > 0 && r.Chance(1, 2) {
				// aim at a lifetime boundary of something that was tracked earlier
				at := starts[r.Intn(len(starts))] + []int64{c08Unused, c08Active}[r.Intn(2)] + []int64{-1, 1}[r.Intn(2)]
				if at > now {
					op.now = at
				}
			}
			// the clock never runs backwards; later operations are on whole minutes again
			now = (op.now/60 + 1) * 60
		case k < 17:
			op.kind = 'l'
		case k < 18:
			op.kind = 'e'
		case k < 19:
			op.kind = 'n'
		default:
			op.kind = 'T'
		}
		ops = append(ops, op)
	}
	return ops
}

// c08Exhaustive runs every history of length ≤ L over the alphabet; a non-sweep letter happens 60 s
// after the previous operation, a sweep letter `now` seconds after it.
func c08Exhaustive(out *vlib.Out, alpha []c08Op, L int) {
	var rec func(prefix []c08Op)
	rec = func(prefix []c08Op) {
		if len(prefix) > 0 {
			h := make([]c08Op, len(prefix))
			now := int64(0)
			for i, o := range prefix {
				h[i] = o
				if o.kind == 's' {
					now += o.now
				} else {
					now += 60
				}
				h[i].now = now
			}
			c08Case(out, h)
		}
		if len(prefix) == L {
			return
		}
		for _, a := range alpha {
			rec(append(append([]c08Op(nil), prefix...), a))
		}
	}
	rec(nil)
}

// c08Boundaries: every lifetime boundary from both sides, one second away, for each way a record can
// come into being and be touched before the sweep: created by track or register, a duplicate in
// between (must not refresh the clock), a connection (must extend the lifetime to 6 h, must not
// restart the clock), a sibling registration of the same secret under another transport.
func c08Boundaries(out *vlib.Out) {
	for tr := 0; tr < 3; tr++ {
		for _, create := range []byte{'t', 'r'} {
			for dup := 0; dup < 3; dup++ { // 0 none, 1 duplicate track, 2 duplicate register
				for _, used := range []bool{false, true} {
					for _, sibling := range []bool{false, true} {
						for _, lim := range []int64{c08Unused, c08Active} {
							for _, d := range []int64{-1, 1} {
								h := []c08Op{{kind: create, tr: tr, now: 0}}
								if sibling {
									h = append(h, c08Op{kind: 'r', tr: (tr + 1) % 3, now: 0})
								}
								if dup > 0 {
									h = append(h, c08Op{kind: []byte{'t', 'r'}[dup-1], tr: tr, now: 60})
								}
								if used {
									h = append(h, c08Op{kind: 'm', tr: tr, now: 120})
								}
								h = append(h, c08Op{kind: 's', now: lim + d}, c08Op{kind: 'l'}, c08Op{kind: 'T'},
									c08Op{kind: 's', now: c08Active + d}, c08Op{kind: 'l'}, c08Op{kind: 'T'})
								c08Case(out, h)
								out.Count("boundary")
							}
						}
					}
				}
			}
		}
	}
}

func TestVerifC08(t *testing.T) {
	out := vlib.Open("C08")
	defer out.Close()
	// ---- the lifetimes themselves: the property says 10 minutes and 6 hours
	{
		rd := NewRegisteredDecoys()
		out.Checked()
		if rd.timeoutUnused != 10*time.Minute || rd.timeoutActive != 6*time.Hour ||
			defaultUnusedTimeout != 10*time.Minute || defaultActiveTimeout != 6*time.Hour {
			out.OracleFail("C08:lifetime-not-10min-6h", fmt.Sprintf("the registry expires unused registrations after %v (default %v) and used ones after %v (default %v); the property says 10m and 6h",
				rd.timeoutUnused, defaultUnusedTimeout, rd.timeoutActive, defaultActiveTimeout), "limits: NewRegisteredDecoys().timeoutUnused/timeoutActive, defaultUnusedTimeout/defaultActiveTimeout")
		}
	}
	if rp := vlib.Replay(); rp != "" {
		c08Replay(t, out, rp)
		return
	}
	// corpus first: one secret used with two transports on one phantom, then 7 h pass
	corpus := [][]c08Op{
		{{kind: 'r', ph: 0, sec: 0, tr: 0, now: 0}, {kind: 'r', ph: 0, sec: 0, tr: 1, now: 60}, {kind: 'm', ph: 0, sec: 0, tr: 0},
			{kind: 's', now: 3630}, {kind: 'l', ph: 0}, {kind: 's', now: 25230}, {kind: 'l', ph: 0}, {kind: 'T'}},
		{{kind: 't', ph: 0, sec: 0, tr: 0, now: 0}, {kind: 't', ph: 0, sec: 0, tr: 0, now: 60}, {kind: 'l', ph: 0}, {kind: 'r', ph: 0, sec: 0, tr: 0, now: 120},
			{kind: 'r', ph: 0, sec: 0, tr: 0, now: 120}, {kind: 'l', ph: 0}, {kind: 's', now: 630}, {kind: 's', now: 750}, {kind: 'l', ph: 0}},
		{{kind: 'r', ph: 2, sec: 1, tr: 2, now: 0}, {kind: 'r', ph: 0, sec: 1, tr: 2, now: 0}, {kind: 'm', ph: 2, sec: 1, tr: 2}, {kind: 's', now: 21630}, {kind: 'T'}},
		// every registration of a phantom expires while another phantom keeps one: the emptied inner map must go
		{{kind: 'r', ph: 0, sec: 0, tr: 0, now: 0}, {kind: 't', ph: 0, sec: 1, tr: 1, now: 0}, {kind: 'r', ph: 1, sec: 0, tr: 0, now: 0}, {kind: 'm', ph: 1, sec: 0, tr: 0},
			{kind: 's', now: 630}, {kind: 'n', ph: 0}, {kind: 'T'}, {kind: 'r', ph: 0, sec: 0, tr: 0, now: 720}, {kind: 's', now: 21630}, {kind: 'T'}},
	}
	for _, h := range corpus {
		c08Case(out, h)
	}
	c08Boundaries(out)
	// exhaustive: every history of length ≤ L over a small alphabet (1 phantom, 1 secret, 2 transports).
	// `s+30` lets unused registrations survive a sweep, `t` on the second transport gives a tracked but
	// never validated sibling.
	alpha10 := []c08Op{
		{kind: 'r', tr: 0}, {kind: 'r', tr: 1}, {kind: 't', tr: 0}, {kind: 'm', tr: 0}, {kind: 'm', tr: 1},
		{kind: 's', now: 630}, {kind: 's', now: 21630}, {kind: 'l'}, {kind: 's', now: 30}, {kind: 't', tr: 1},
	}
	if vlib.Tier() == "thorough" {
		c08Exhaustive(out, alpha10, 6) // 1.1 million histories
	} else {
		c08Exhaustive(out, alpha10, 4)
	}
	// random long histories over larger alphabets
	r := vlib.NewRand("C08")
	n := vlib.Budget(600, 20000)
	for i := 0; i < n; i++ {
		c08Case(out, c08RandomHistory(r, r.Range(5, 400), r.Range(1, 3), r.Range(1, 4)))
	}
}

// c08Replay re-runs a replay file (a `registry|…` model line) against the implementation.
func c08Replay(t *testing.T, out *vlib.Out, path string) {
	b, err := os.ReadFile(path)
	if err != nil {
		t.Fatal(err)
	}
	for _, line := range strings.Split(string(b), "\n") {
		if !strings.HasPrefix(line, "registry|") {
			continue
		}
		f := strings.Split(line, "|")
		var ops []c08Op
		idents := map[string][3]int{}
		w := newC08World()
		for ph := range c08Phantoms {
			for sec := 0; sec < 16; sec++ {
				for tr := 0; tr < 3; tr++ {
					idents[c08Phantoms[ph]+","+w.ident(w.mkReg(ph, sec, tr))] = [3]int{ph, sec, tr}
				}
			}
		}
		phIdx := map[string]int{}
		for i, p := range c08Phantoms {
			phIdx[p] = i
		}
		// an identifier or phantom the replay does not know must not silently become (0,0,0)
		lookup := func(ph, id, tr string) [3]int {
			if tr == "2" { // the disabled transport: its identifier is a placeholder
				pi, ok := phIdx[ph]
				if !ok {
					t.Fatalf("replay: unknown phantom %q in %q", ph, line)
				}
				return [3]int{pi, 0, 3}
			}
			k, ok := idents[ph+","+id]
			if !ok {
				t.Fatalf("replay: identifier %s on %s is none of the harness's registrations (line %q)", id, ph, line)
			}
			return k
		}
		for _, s := range strings.Split(f[4], ";") {
			p := strings.Split(s, ",")
			op := c08Op{kind: p[0][0]}
			switch op.kind {
			case 't', 'r':
				k := lookup(p[1], p[2], p[3])
				op.ph, op.sec, op.tr = k[0], k[1], k[2]
				fmt.Sscan(p[4], &op.now)
			case 'm', 'e':
				k := lookup(p[1], p[2], p[3])
				op.ph, op.sec, op.tr = k[0], k[1], k[2]
			case 's':
				fmt.Sscan(p[1], &op.now)
			case 'l', 'n':
				pi, ok := phIdx[p[1]]
				if !ok {
					t.Fatalf("replay: unknown phantom %q in %q", p[1], line)
				}
				op.ph = pi
			}
			ops = append(ops, op)
		}
		for try := 0; try < 5; try++ {
			m, i, ok := runC08(out, ops)
			if !ok {
				continue // slower than c08SlowLimit: run it again
			}
			out.Case(m, i, true)
			fmt.Println("REPLAY model-line:", m)
			fmt.Println("REPLAY impl      :", i)
			break
		}
	}
}
