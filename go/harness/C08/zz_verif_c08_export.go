//go:build verif

package lib

// White-box accessors for the C08 harness that drives the station's real connection handler: it lives in
// package main of cmd/application and cannot reach the unexported registry fields. This file exists only
// in the scratch copy of the repository made by /verif/check (copied into pkg/station/lib), never in /repo.

import (
	"fmt"
	"sort"
	"strings"
	"time"
)

// VerifC08Advance lets virtual time pass: every timeout record is aged by d (relative shift, so whatever
// the code wrote into registrationTime is preserved).
func VerifC08Advance(rm *RegistrationManager, d time.Duration) {
	r := rm.registeredDecoys
	r.m.Lock()
	defer r.m.Unlock()
	for _, to := range r.decoysTimeouts {
		to.registrationTime = to.registrationTime.Add(-d)
	}
}

// VerifC08Sweep runs the clean-up sweep the way RemoveOldRegistrations does and returns its two counts.
func VerifC08Sweep(rm *RegistrationManager) (int, int) {
	expired, valid := rm.registeredDecoys.removeOldRegistrations(rm.Logger)
	rm.AddExpiredRegs(int64(expired), int64(valid))
	return expired, valid
}

// VerifC08Limits: the two lifetimes the registry uses, in whole seconds.
func VerifC08Limits(rm *RegistrationManager) (int64, int64) {
	r := rm.registeredDecoys
	return int64(r.timeoutUnused / time.Second), int64(r.timeoutActive / time.Second)
}

// VerifC08Identifier: the transport identifier under which the registration is (or would be) tracked.
func VerifC08Identifier(rm *RegistrationManager, reg *DecoyRegistration) (string, bool) {
	t, ok := rm.registeredDecoys.transports[reg.Transport]
	if !ok {
		return "", false
	}
	return t.GetIdentifier(reg), true
}

// VerifC08Dump renders both maps and the stored per-phantom buckets the way the registry model's driver
// does (`D:…|T:…|P:…`); creation times are virtual (now minus the age in whole quanta).
func VerifC08Dump(rm *RegistrationManager, now, quantum int64, hex func(string) string) (dump string, regs, timeouts, buckets, emptyBuckets int) {
	r := rm.registeredDecoys
	r.m.RLock()
	defer r.m.RUnlock()
	var d, t, p []string
	for ph, m := range r.decoys {
		p = append(p, ph)
		if len(m) == 0 {
			emptyBuckets++
		}
		for id, reg := range m {
			v := "0"
			if reg.Valid {
				v = "1"
			}
			d = append(d, fmt.Sprintf("%s,%s,%d,%s,%d", ph, hex(id), int(reg.Transport), v, reg.regCount))
		}
	}
	q := time.Duration(quantum) * time.Second
	for ix, to := range r.decoysTimeouts {
		// the registration a record belongs to, from the key the registry stores it under (the phantom
		// address is free of the separator of timeoutIndex): no field of the record's bookkeeping is named
		tph, tid := "?", ix
		if i := strings.IndexByte(ix, '|'); i >= 0 && timeoutIndex(ix[:i], ix[i+1:]) == ix {
			tph, tid = ix[:i], ix[i+1:]
		}
		u := "0"
		if to.status == regStatusUsed {
			u = "1"
		}
		t = append(t, fmt.Sprintf("%s,%s,%d,%s", tph, hex(tid), now-int64(time.Since(to.registrationTime)/q)*quantum, u))
	}
	sort.Strings(d)
	sort.Strings(t)
	sort.Strings(p)
	return "D:" + strings.Join(d, "/") + "|T:" + strings.Join(t, "/") + "|P:" + strings.Join(p, ","), len(d), len(t), len(p), emptyBuckets
}
