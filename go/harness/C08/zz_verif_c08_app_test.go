//go:build verif

package main

// C08 through the station's real connection path: registrations in a real RegistrationManager, clients
// of the real min / prefix transports connecting through the real handleNewTCPConn (which identifies the
// registration, says "this registration has carried a connection" and proxies to a loopback covert),
// sessions that stay open across sweeps, a virtual clock (records aged by relative shifts), sweeps,
// look-ups, second connections. The same history goes to the Lean registry model: a matched connection
// is `markActive` at the moment it is matched followed by a tunnel that stays open (`m`, `P` … `Q`).
//
// Oracle (the property's iff, harness ground truth): after every sweep a registration is tracked iff it
// is at most 10 minutes old, or has carried a connection — from the moment the connection was matched,
// the session open or not — and is at most 6 hours old; nothing of an expired one is left; an expired one
// no longer matches a connection.
//
// Times are whole minutes (registrations on even minutes, sweeps on odd ones, so that no record is ever
// exactly as old as a lifetime); a history that takes longer than 54 s of real time is discarded as a
// whole, so no verdict depends on timing.

import (
	"bytes"
	"fmt"
	"io"
	"net"
	"os"
	"sort"
	"strconv"
	"strings"
	"sync/atomic"
	"testing"
	"time"

	"github.com/refraction-networking/conjure/internal/vlib"
	cj "github.com/refraction-networking/conjure/pkg/station/lib"
	"github.com/refraction-networking/conjure/pkg/transports/wrapping/prefix"
	pb "github.com/refraction-networking/conjure/proto"
)

type c08aOp struct {
	kind byte // r register, t track only, O a client connects, X its oldest open session ends, s sweep, l look-up, T total
	reg  int
	now  int64
}

type c08aGT struct {
	time        int64
	used, valid bool
}

type c08aSess struct {
	reg  int
	a    net.Conn
	done chan struct{}
}

type c08aWorld struct {
	w        *c34World
	trs      []pb.TransportType // transport of registration i
	regs     map[int]*c34Reg
	gt       map[int]*c08aGT
	sess     []*c08aSess
	lastNow  int64
	newN     atomic.Int64
	updN     atomic.Int64
	t0       time.Time
	trouble  string // the harness itself failed (a client could not be built, a handler hung): no verdict
	boundary bool
}

const c08aQuantum = 60
const c08aUnused, c08aActive = 600, 21600

func c08aAlive(g *c08aGT, now int64) bool {
	age := now - g.time
	return age <= c08aActive && (g.used || age <= c08aUnused)
}

func (aw *c08aWorld) phantom(i int) string {
	if i%2 == 0 {
		return c34PhMany
	}
	return c34PhOne(0)
}

func (aw *c08aWorld) ident(i int) string {
	id, _ := cj.VerifC08Identifier(aw.w.rm, aw.regs[i].reg)
	return vlib.Hex([]byte(id))
}

func (aw *c08aWorld) advance(now int64) {
	if d := now - aw.lastNow; d > 0 {
		cj.VerifC08Advance(aw.w.rm, time.Duration(d)*time.Second)
		aw.lastNow = now
	}
}

// connect: a client with registration i's secret connects to its phantom through the real handler.
// patient: wait for the echo of the covert (the session is then established and stays open); otherwise
// the client hangs up right after its first flight. Returns the index of the registration the handler
// matched (-1: none) and whether the session is open.
func (aw *c08aWorld) connect(i int, patient bool) (matched int, open bool) {
	w := aw.w
	reg := aw.regs[i]
	ct, err := w.clientTransport(reg, -2)
	if err != nil {
		aw.trouble = "client transport: " + err.Error()
		return -1, false
	}
	a, b := net.Pipe()
	conn := newC34Real(b, c34Peer(50123))
	_, done := w.start(conn, reg.phantom, "ok")
	ping := []byte(fmt.Sprintf("ping-%d-%d", i, len(aw.sess)))
	echo := make(chan bool, 1)
	go func() {
		_ = a.SetDeadline(time.Now().Add(12 * time.Second))
		cw, err := ct.WrapConn(a)
		if err != nil {
			echo <- false
			return
		}
		if _, err := cw.Write(ping); err != nil {
			echo <- false
			return
		}
		if !patient {
			echo <- false
			return
		}
		buf := make([]byte, len(ping))
		_, err = io.ReadFull(cw, buf)
		echo <- err == nil && bytes.Equal(buf, ping)
	}()
	got := false
	select {
	case got = <-echo:
	case <-done:
	}
	found := func() int {
		f := -1
		for _, e := range conn.log.snapshot() {
			if e.kind == 'Q' && e.reg >= 0 {
				f = e.reg
			}
		}
		return f
	}
	if got {
		_ = a.SetDeadline(time.Time{})
		aw.sess = append(aw.sess, &c08aSess{reg: i, a: a, done: done})
		return found(), true
	}
	a.Close()
	select {
	case <-done:
	case <-time.After(20 * time.Second):
		aw.trouble = "handler did not return after the client hung up"
	}
	return found(), false
}

func (aw *c08aWorld) closeSess(k int) {
	s := aw.sess[k]
	aw.sess = append(aw.sess[:k], aw.sess[k+1:]...)
	s.a.Close()
	select {
	case <-s.done:
	case <-time.After(20 * time.Second):
		aw.trouble = "handler did not return after the session was closed"
	}
}

// c08aRun executes one history; returns model line, implementation answer, ok (false: no verdict).
func c08aRun(out *vlib.Out, stream string, trs []pb.TransportType, ops []c08aOp) (string, string, bool) {
	w, err := newC34World(stream, "127.0.0.1")
	if err != nil {
		return "", "", false
	}
	aw := &c08aWorld{w: w, trs: trs, regs: map[int]*c34Reg{}, gt: map[int]*c08aGT{}, t0: time.Now()}
	cj.VerifC34StubDetector(w.rm, func(*cj.DecoyRegistration) { aw.newN.Add(1) }, func(*cj.DecoyRegistration) { aw.updN.Add(1) })
	unused, active := cj.VerifC08Limits(w.rm)
	replay := c08aEncode(stream, trs, ops)
	var mops, outs []string
	type failT struct{ sig, what string }
	var fails []failT
	checks := 0
	fail := func(sig, what string) { fails = append(fails, failT{sig, what}) }
	emit := func(m, o string) { mops, outs = append(mops, m), append(outs, o) }
	spell := func(raw string) string { return vlib.Hex([]byte(raw)) }
	for _, op := range ops {
		if aw.trouble != "" {
			break
		}
		aw.advance(op.now)
		out.Count("op:" + string(op.kind))
		switch op.kind {
		case 'r', 't':
			before := aw.newN.Load()
			reg, known := aw.regs[op.reg]
			o := "ok"
			if !known {
				tt := trs[op.reg]
				var pid, flush int32
				if tt == pb.TransportType_Prefix {
					pid, flush = c34PrefixIDs[op.reg%len(c34PrefixIDs)], prefix.DefaultFlush
				}
				reg, err = w.addReg(tt, pid, flush, false, aw.phantom(op.reg), op.kind == 'r', w.newSecret())
				if err != nil {
					aw.trouble = "addReg: " + err.Error()
					continue
				}
				aw.regs[op.reg] = reg
			} else if op.kind == 'r' {
				w.rm.AddRegistration(reg.reg)
			} else if err := w.rm.TrackRegistration(reg.reg); err != nil {
				o = "err"
			}
			g := aw.gt[op.reg]
			if g == nil {
				g = &c08aGT{time: op.now}
				aw.gt[op.reg] = g
			}
			if op.kind == 'r' {
				o = "dup"
				if aw.newN.Load() == before+1 {
					o = "new"
				}
				g.valid = true
			}
			emit(fmt.Sprintf("%c,%s,%s,%d,%d", op.kind, reg.phantom, aw.ident(op.reg), int(reg.tt), op.now), o)
		case 'O':
			reg, known := aw.regs[op.reg]
			if !known {
				continue
			}
			g := aw.gt[op.reg]
			expect := g != nil && g.valid
			before := aw.updN.Load()
			matched, open := aw.connect(op.reg, expect)
			if aw.trouble != "" {
				continue
			}
			checks++
			if matched >= 0 && matched != reg.idx {
				fail("C08:connection-matched-another-registration", fmt.Sprintf("client %d was matched to registration %d", op.reg, matched))
				continue
			}
			if matched >= 0 {
				if g == nil {
					fail("C08:expired-still-matches", fmt.Sprintf("registration %d was forgotten by a sweep and still matches a connection at %d", op.reg, op.now))
				} else {
					g.used = true // it has carried a connection from the moment the connection was matched
				}
				o := "none"
				if n := aw.updN.Load() - before; n == 1 {
					o = "upd"
				} else if n > 1 {
					o = fmt.Sprintf("upd*%d", n)
				}
				emit(fmt.Sprintf("m,%s,%s,%d", reg.phantom, aw.ident(op.reg), int(reg.tt)), o)
				emit(fmt.Sprintf("P,%s,%s", reg.phantom, aw.ident(op.reg)), "ok")
				if !open {
					emit(fmt.Sprintf("Q,%s,%s", reg.phantom, aw.ident(op.reg)), "ok")
					out.Count("connection:matched-session-not-established")
				} else {
					out.Count("connection:session-open")
				}
			} else {
				out.Count("connection:not-matched")
			}
		case 'X':
			reg, known := aw.regs[op.reg]
			if !known {
				continue
			}
			for k, s := range aw.sess {
				if s.reg == op.reg {
					before := aw.updN.Load()
					aw.closeSess(k)
					o := "ok"
					if aw.updN.Load() != before {
						o = "announced-when-the-session-ended"
					}
					emit(fmt.Sprintf("Q,%s,%s", reg.phantom, aw.ident(op.reg)), o)
					break
				}
			}
		case 's':
			n, v := cj.VerifC08Sweep(w.rm)
			emit(fmt.Sprintf("s,%d", op.now), fmt.Sprintf("swept %d %d", n, v))
			open := map[int]int{}
			for _, s := range aw.sess {
				open[s.reg]++
			}
			for i, g := range aw.gt {
				if age := op.now - g.time; age == c08aUnused || age == c08aActive {
					aw.boundary = true
				}
				tracked := w.rm.RegistrationExists(aw.regs[i].reg)
				want := c08aAlive(g, op.now)
				checks++
				if tracked && !want {
					fail("C08:kept-past-lifetime", fmt.Sprintf("registration %d tracked after sweep at %d: age %d used %v", i, op.now, op.now-g.time, g.used))
				}
				if !tracked && want {
					fail("C08:expired-early", fmt.Sprintf("registration %d gone after sweep at %d: age %d, has carried a connection %v, sessions open %d", i, op.now, op.now-g.time, g.used, open[i]))
				}
				if !want {
					delete(aw.gt, i)
				}
			}
			_, regs, tos, buckets, empty := cj.VerifC08Dump(w.rm, op.now, c08aQuantum, spell)
			phs := map[string]bool{}
			for i := range aw.gt {
				phs[aw.regs[i].phantom] = true
			}
			checks++
			if regs != len(aw.gt) || tos != len(aw.gt) || empty > 0 || buckets != len(phs) {
				fail("C08:residue", fmt.Sprintf("after sweep at %d: regs=%d timeouts=%d buckets=%d (empty %d), expected %d registrations on %d phantoms", op.now, regs, tos, buckets, empty, len(aw.gt), len(phs)))
			}
		case 'l':
			reg, known := aw.regs[op.reg]
			if !known {
				continue
			}
			var ids []string
			for id := range w.rm.GetRegistrations(net.ParseIP(reg.phantom)) {
				ids = append(ids, spell(id))
			}
			sort.Strings(ids)
			emit("l,"+reg.phantom, strings.TrimRight("regs "+strings.Join(ids, " "), " "))
			want := map[string]bool{}
			for i, g := range aw.gt {
				if g.valid && aw.regs[i].phantom == reg.phantom {
					want[aw.ident(i)] = true
				}
			}
			checks++
			for _, id := range ids {
				if !want[id] {
					fail("C08:lookup-returns-unvalidated-or-forgotten", "look-up on "+reg.phantom+" returned "+id)
				}
				delete(want, id)
			}
			for id := range want {
				fail("C08:lookup-misses-valid", "look-up on "+reg.phantom+" did not return "+id)
			}
		case 'T':
			_, regs, _, _, _ := cj.VerifC08Dump(w.rm, op.now, c08aQuantum, spell)
			emit("T", fmt.Sprint(regs))
		}
	}
	dump, _, _, _, _ := cj.VerifC08Dump(w.rm, aw.lastNow, c08aQuantum, spell)
	var u []string
	for _, s := range aw.sess {
		u = append(u, aw.regs[s.reg].phantom+","+aw.ident(s.reg))
	}
	sort.Strings(u)
	for len(aw.sess) > 0 {
		aw.closeSess(0)
	}
	if w.covert != nil {
		w.covert.ln.Close()
	}
	if w.tcpLn != nil {
		w.tcpLn.Close()
	}
	model := fmt.Sprintf("registryx|%d|%d|1,2,4|%s", unused, active, strings.Join(mops, ";"))
	impl := strings.Join(outs, ";") + "|" + dump + "|U:" + strings.Join(u, "/")
	switch {
	case aw.trouble != "":
		out.Count("discarded:harness-trouble")
		out.Note("C08app: history without verdict: " + aw.trouble)
		return model, impl, false
	case time.Since(aw.t0) >= 54*time.Second:
		out.Count("discarded:slow-history")
		return model, impl, false
	case aw.boundary:
		out.Count("discarded:sweep-on-a-boundary-instant")
		return model, impl, false
	}
	for i := 0; i < checks; i++ {
		out.Checked()
	}
	for _, f := range fails {
		out.OracleFail(f.sig, f.what, replay)
	}
	return model, impl, true
}

func c08aTrName(t pb.TransportType) string {
	if t == pb.TransportType_Min {
		return "min"
	}
	return "prefix"
}

// replay text: c08app|<world stream>|<transports>|<op>.<reg>.<now>,…
func c08aEncode(stream string, trs []pb.TransportType, ops []c08aOp) string {
	var t, o []string
	for _, x := range trs {
		t = append(t, c08aTrName(x))
	}
	for _, x := range ops {
		o = append(o, fmt.Sprintf("%c.%d.%d", x.kind, x.reg, x.now))
	}
	return "c08app|" + stream + "|" + strings.Join(t, "+") + "|" + strings.Join(o, ",")
}

func c08aDecode(line string) (string, []pb.TransportType, []c08aOp, bool) {
	f := strings.Split(line, "|")
	if len(f) != 4 || f[0] != "c08app" {
		return "", nil, nil, false
	}
	var trs []pb.TransportType
	for _, t := range strings.Split(f[2], "+") {
		if t == "min" {
			trs = append(trs, pb.TransportType_Min)
		} else {
			trs = append(trs, pb.TransportType_Prefix)
		}
	}
	var ops []c08aOp
	for _, o := range strings.Split(f[3], ",") {
		p := strings.Split(o, ".")
		if len(p) != 3 || len(p[0]) != 1 {
			return "", nil, nil, false
		}
		reg, err1 := strconv.Atoi(p[1])
		now, err2 := strconv.ParseInt(p[2], 10, 64)
		if err1 != nil || err2 != nil || reg < 0 || reg >= len(trs) {
			return "", nil, nil, false
		}
		ops = append(ops, c08aOp{kind: p[0][0], reg: reg, now: now})
	}
	return f[1], trs, ops, true
}

// c08aRandom: one to three registrations, each with its own life: registered (or only tracked) on an even
// minute, perhaps delivered again, a first connection some minutes later (inside the 10 minutes) whose
// session ends before the 10-minute mark, after the first sweep, after the 6-hour mark or never; sweeps on
// odd minutes around the 10-minute and the 6-hour marks; look-ups and further connections after them.
func c08aRandom(r *vlib.Rand) ([]pb.TransportType, []c08aOp) {
	n := r.Range(1, 3)
	var trs []pb.TransportType
	var ops []c08aOp
	for i := 0; i < n; i++ {
		trs = append(trs, []pb.TransportType{pb.TransportType_Min, pb.TransportType_Prefix}[r.Intn(2)])
		t0 := int64(120 * r.Intn(2))
		kind := byte('r')
		if r.Chance(1, 6) {
			kind = 't'
		}
		ops = append(ops, c08aOp{kind, i, t0})
		if r.Chance(1, 3) {
			ops = append(ops, c08aOp{[]byte{'r', 't'}[r.Intn(2)], i, t0 + 120*int64(r.Range(1, 3))})
		}
		if r.Chance(3, 4) {
			tc := t0 + 60*int64(r.Range(1, 8))
			ops = append(ops, c08aOp{'O', i, tc})
			switch r.Intn(5) {
			case 0:
				ops = append(ops, c08aOp{'X', i, tc + 60})
			case 1:
				ops = append(ops, c08aOp{'X', i, t0 + 840})
			case 2:
				ops = append(ops, c08aOp{'X', i, t0 + 21600 + 300})
			}
		}
		if r.Chance(1, 2) {
			// a connection after the first sweep: a second one, or the first one of a registration that has expired
			ops = append(ops, c08aOp{'O', i, t0 + 720 + 120*int64(r.Intn(3))})
		}
		if r.Chance(1, 3) {
			ops = append(ops, c08aOp{'O', i, 21720 + 120*int64(r.Intn(3))})
		}
	}
	for _, t := range []int64{540, 660, 780, 900, 21540, 21660, 21780, 21900} {
		if t == 660 || t == 21780 || r.Chance(1, 2) {
			ops = append(ops, c08aOp{'s', 0, t}, c08aOp{'l', r.Intn(n), t}, c08aOp{'T', 0, t})
		}
	}
	ops = append(ops, c08aOp{'s', 0, 43380}, c08aOp{'T', 0, 43380})
	sort.SliceStable(ops, func(i, j int) bool { return ops[i].now < ops[j].now })
	return trs, ops
}

func TestVerifC08App(t *testing.T) {
	defer c34Silence()()
	out := vlib.Open("C08app")
	defer out.Close()
	run := func(stream string, trs []pb.TransportType, ops []c08aOp) bool {
		m, i, ok := c08aRun(out, stream, trs, ops)
		if ok {
			out.Case(m, i, true)
		}
		return ok
	}
	if rp := vlib.Replay(); rp != "" {
		b, err := os.ReadFile(rp)
		if err != nil {
			t.Fatal(err)
		}
		for _, line := range strings.Split(string(b), "\n") {
			if stream, trs, ops, ok := c08aDecode(strings.TrimSpace(line)); ok {
				m, i, ok := c08aRun(out, stream, trs, ops)
				if ok {
					out.Case(m, i, true)
				}
				fmt.Println("REPLAY model-line:", m)
				fmt.Println("REPLAY impl      :", i)
			}
		}
		return
	}
	mn, px := pb.TransportType_Min, pb.TransportType_Prefix
	// corpus: the first session of a registration is still open when the registration passes the 10-minute
	// mark and a sweep runs; it ends later; the registration lives 6 hours from its registration
	corpus := []struct {
		trs []pb.TransportType
		ops []c08aOp
	}{
		{[]pb.TransportType{mn}, []c08aOp{{'r', 0, 0}, {'O', 0, 300}, {'s', 0, 660}, {'l', 0, 660}, {'O', 0, 720}, {'X', 0, 780}, {'X', 0, 780}, {'s', 0, 21540}, {'l', 0, 21540}, {'s', 0, 21660}, {'l', 0, 21660}, {'O', 0, 21720}, {'T', 0, 21720}}},
		{[]pb.TransportType{px, mn}, []c08aOp{{'r', 0, 0}, {'r', 1, 0}, {'O', 0, 540}, {'s', 0, 660}, {'l', 0, 660}, {'l', 1, 660}, {'O', 1, 720}, {'s', 0, 21660}, {'X', 0, 21720}, {'T', 0, 21720}}},
		{[]pb.TransportType{mn, px}, []c08aOp{{'r', 0, 0}, {'t', 1, 0}, {'O', 0, 60}, {'X', 0, 120}, {'O', 1, 120}, {'s', 0, 660}, {'l', 0, 660}, {'r', 1, 720}, {'O', 1, 780}, {'s', 0, 1380}, {'s', 0, 21660}, {'s', 0, 22380}, {'T', 0, 22380}}},
	}
	for i, c := range corpus {
		run(fmt.Sprintf("c08app/corpus/%d", i), c.trs, c.ops)
	}
	r := vlib.NewRand("C08app")
	n := vlib.Budget(40, 500)
	bad := 0
	for i := 0; i < n; i++ {
		trs, ops := c08aRandom(r)
		if !run(fmt.Sprintf("c08app/%d/%d", vlib.Seed(), i), trs, ops) {
			bad++
		}
	}
	if bad > n/2 {
		out.Note(fmt.Sprintf("C08app: %d of %d histories without verdict", bad, n))
	}
}
