//go:build verif

package lib

// C08 — the timeout map as the code keys it (model `regidx`, CJ/Model/RegistryIndex.lean).
//
// The registry keys decoysTimeouts by ONE string, timeoutIndex(phantom, identifier); identifiers are what
// the transports return, arbitrary bytes. Here the real RegisteredDecoys is driven with transports whose
// identifier is the registration's secret itself, so a history chooses the identifier bytes: empty, the
// separator alone, separators at either end, texts that look like a phantom address followed by a
// separator, random 32-byte strings with and without 0x7c. The implementation answer prints the index
// strings the code stores (hex) with the record fields under each, the model computes them.
// Second part: histories of the main harness over secrets whose real HMAC identifiers contain 0x7c.

import (
	"fmt"
	"io"
	golog "log"
	"net"
	"reflect"
	"sort"
	"strconv"
	"strings"
	"testing"
	"time"

	"github.com/refraction-networking/conjure/internal/vlib"
	"github.com/refraction-networking/conjure/pkg/core"
	"github.com/refraction-networking/conjure/pkg/station/log"
	"github.com/refraction-networking/conjure/pkg/transports"
	"github.com/refraction-networking/conjure/pkg/transports/wrapping/min"
	pb "github.com/refraction-networking/conjure/proto"
)

func init() {
	c08Extra = append(c08Extra, c08IndexCases, c08SeparatorHistories)
	c08ReplayExtra = append(c08ReplayExtra, c08IndexReplay)
}

// c08RawID: a transport whose identifier is the secret of the registration, byte for byte
type c08RawID struct{ min.Transport }

func (c08RawID) GetIdentifier(d transports.Registration) string { return string(d.SharedSecret()) }

type ixOp struct {
	kind byte // t r m s c x l T U
	ph   int
	id   string // raw identifier bytes
	tr   int    // pb.TransportType number: 1, 4 enabled; 2 not
	now  int64
	ix   string // 'x': the raw index handed to removeRegistration
}

type ixKey struct {
	ph int
	id string
}

// recField reads a string field of the timeout record if the record has it (ok=false otherwise).
func recField(to *DecoyTimeout, name string) (string, bool) {
	f := reflect.ValueOf(to).Elem().FieldByName(name)
	if !f.IsValid() || f.Kind() != reflect.String {
		return "", false
	}
	return f.String(), true
}

func c08IndexRun(out *vlib.Out, ops []ixOp) (string, string, bool, int) {
	rd := NewRegisteredDecoys()
	rd.transports[pb.TransportType_Min] = c08RawID{}
	rd.transports[pb.TransportType_Prefix] = c08RawID{}
	var ann []string
	rd.registerForDetector = func(d *DecoyRegistration) { ann = append(ann, "new") }
	rd.updateInDetector = func(d *DecoyRegistration) { ann = append(ann, "upd") }
	t0 := time.Now()
	var lastNow int64
	type gtRec struct {
		time        int64
		used, valid bool
	}
	gt := map[ixKey]*gtRec{}
	type failT struct{ sig, what string }
	var fails []failT
	checks := 0
	fail := func(sig, what string) { fails = append(fails, failT{sig, what}) }
	boundary := false
	mk := func(ph int, id string, tr int) *DecoyRegistration {
		src := pb.RegistrationSource_API
		d := &DecoyRegistration{
			PhantomIp:          net.ParseIP(c08Phantoms[ph]),
			PhantomPort:        443,
			Keys:               &core.ConjureSharedKeys{SharedSecret: []byte(id)},
			Transport:          pb.TransportType(tr),
			RegistrationSource: &src,
		}
		if t, ok := rd.transports[d.Transport]; ok {
			d.TransportPtr = &t
		}
		return d
	}
	hx := func(s string) string { return vlib.Hex([]byte(s)) }
	alive := func(g *gtRec, now int64) bool {
		age := now - g.time
		return age <= c08Active && (g.used || age <= c08Unused)
	}
	tracked := func(k ixKey) bool {
		_, ok := rd.decoys[c08Phantoms[k.ph]][k.id]
		return ok
	}
	sizes := func(when string) {
		checks++
		if rd.totalRegistrations() != len(rd.decoysTimeouts) || rd.totalRegistrations() != len(gt) {
			fail("C08:residue", fmt.Sprintf("%s: regs=%d timeout records=%d expected=%d (two registrations sharing a record, or a record without its registration)",
				when, rd.totalRegistrations(), len(rd.decoysTimeouts), len(gt)))
		}
	}
	sweepOracle := func(now int64) {
		for k, g := range gt {
			if age := now - g.time; age == c08Unused || age == c08Active {
				boundary = true
			}
			want := alive(g, now)
			is := tracked(k)
			checks++
			if is && !want {
				fail("C08:kept-past-lifetime", fmt.Sprintf("%s|%x tracked after sweep at %d: age %d used %v", c08Phantoms[k.ph], k.id, now, now-g.time, g.used))
			}
			if !is && want {
				fail("C08:expired-early", fmt.Sprintf("%s|%x gone after sweep at %d: age %d used %v", c08Phantoms[k.ph], k.id, now, now-g.time, g.used))
			}
			if !want {
				if _, ok := rd.getRegistrations(net.ParseIP(c08Phantoms[k.ph]))[k.id]; ok {
					fail("C08:expired-still-matches", fmt.Sprintf("%s|%x", c08Phantoms[k.ph], k.id))
				}
				delete(gt, k)
			}
		}
		sizes(fmt.Sprintf("after sweep at %d", now))
	}
	var mops, outs []string
	emit := func(m, o string) { mops = append(mops, m); outs = append(outs, o) }
	for _, op := range ops {
		if d := op.now - lastNow; d > 0 {
			c08Shift(rd, time.Duration(d)*time.Second)
			lastNow = op.now
		}
		out.Count("ix-op:" + string(op.kind))
		if op.kind == 't' || op.kind == 'r' {
			out.Count("ix-identifier:" + c08IdentClass(op.id))
		}
		if op.kind == 'x' {
			if _, stored := rd.decoysTimeouts[op.ix]; stored {
				out.Count("ix-remove:stored-index")
			} else {
				out.Count("ix-remove:unknown-index")
			}
		}
		k := ixKey{op.ph, op.id}
		phs := c08Phantoms[op.ph]
		enabled := op.tr == 1 || op.tr == 4
		switch op.kind {
		case 't':
			err := rd.Track(mk(op.ph, op.id, op.tr))
			if enabled && gt[k] == nil {
				gt[k] = &gtRec{time: op.now}
			}
			emit(fmt.Sprintf("t,%s,%s,%d,%d", hx(phs), hx(op.id), op.tr, op.now), map[bool]string{true: "ok", false: "err"}[err == nil])
			sizes("after track")
		case 'r':
			ann = ann[:0]
			err := rd.register(phs, mk(op.ph, op.id, op.tr))
			o := "err"
			if err == nil {
				o = "dup"
				if len(ann) == 1 {
					o = ann[0]
				}
			}
			if enabled {
				if gt[k] == nil {
					gt[k] = &gtRec{time: op.now}
				}
				gt[k].valid = true
			}
			emit(fmt.Sprintf("r,%s,%s,%d,%d", hx(phs), hx(op.id), op.tr, op.now), o)
			sizes("after register")
		case 'm':
			ann = ann[:0]
			rd.markActive(mk(op.ph, op.id, op.tr))
			if g := gt[k]; g != nil && enabled {
				g.used = true
			}
			o := "none"
			if len(ann) == 1 {
				o = ann[0]
			}
			emit(fmt.Sprintf("m,%s,%s,%d", hx(phs), hx(op.id), op.tr), o)
		case 's':
			n, v := rd.removeOldRegistrations(log0())
			emit(fmt.Sprintf("s,%d", op.now), fmt.Sprintf("swept %d %d", n, v))
			sweepOracle(op.now)
		case 'c':
			var l []string
			for _, ix := range rd.getExpiredRegistrations() {
				l = append(l, hx(ix))
			}
			sort.Strings(l)
			emit(fmt.Sprintf("c,%d", op.now), strings.TrimRight("idx "+strings.Join(l, " "), " "))
		case 'x':
			st := rd.removeRegistration(op.ix)
			o := "none"
			if st != nil {
				o = vlib.B(st.Valid)
			}
			emit(fmt.Sprintf("x,%s,%d", hx(op.ix), op.now), o)
			// ground truth follows the age rule for whatever registration went away
			for k2, g := range gt {
				if !tracked(k2) {
					checks++
					if alive(g, op.now) {
						fail("C08:expired-early", fmt.Sprintf("%s|%x gone after removeRegistration(%x) at %d: age %d used %v", c08Phantoms[k2.ph], k2.id, op.ix, op.now, op.now-g.time, g.used))
					}
					delete(gt, k2)
				}
			}
			sizes("after removeRegistration")
		case 'l':
			var ids []string
			got := map[string]bool{}
			// through the manager's GetRegistrations (what the connection handlers call): the same set, the same objects
			inner := rd.getRegistrations(net.ParseIP(phs))
			outer := (&RegistrationManager{registeredDecoys: rd}).GetRegistrations(net.ParseIP(phs))
			checks++
			same := len(inner) == len(outer)
			for id, reg := range inner {
				if o, ok := outer[id]; !ok || o != transports.Registration(reg) {
					same = false
				}
			}
			if !same {
				fail("C08:lookup-wrapper-differs", fmt.Sprintf("GetRegistrations(%s) returns %d registrations, the registry's look-up %d (or other objects)", phs, len(outer), len(inner)))
			}
			for id := range outer {
				ids = append(ids, hx(id))
				got[id] = true
			}
			sort.Strings(ids)
			emit("l,"+hx(phs), strings.TrimRight("regs "+strings.Join(ids, " "), " "))
			checks++
			want := map[string]bool{}
			for k2, g := range gt {
				if k2.ph == op.ph && g.valid {
					want[k2.id] = true
				}
			}
			for id := range got {
				if !want[id] {
					fail("C08:lookup-returns-unvalidated-or-forgotten", fmt.Sprintf("lookup on %s returned %x which is not a validated, tracked registration", phs, id))
				}
			}
			for id := range want {
				if !got[id] {
					fail("C08:lookup-misses-valid", fmt.Sprintf("lookup on %s did not return the validated, tracked registration %x", phs, id))
				}
			}
		case 'T':
			emit("T", strconv.Itoa(rd.TotalRegistrations()))
		case 'U':
			emit("U", strconv.Itoa(rd.totalTimeouts()))
		}
	}
	// dump: registrations, and the index strings with the record stored under each
	var d, ti []string
	for ph, m := range rd.decoys {
		for id, r := range m {
			d = append(d, fmt.Sprintf("%s,%s,%d,%s,%d", hx(ph), hx(id), int(r.Transport), vlib.B(r.Valid), r.regCount))
		}
	}
	for ix, to := range rd.decoysTimeouts {
		ph, ok1 := recField(to, "decoy")
		id, ok2 := recField(to, "identifier")
		if !ok1 || !ok2 {
			ph, id = c08RecKey(rd, ix)
		}
		created := lastNow - int64(time.Since(*c08RecClocks(to)[0])/time.Second)
		ti = append(ti, fmt.Sprintf("%s=%s,%s,%d,%s", hx(ix), hx(ph), hx(id), created, vlib.B(c08RecUsed(to))))
	}
	sort.Strings(d)
	sort.Strings(ti)
	model := fmt.Sprintf("regidx|%d|%d|1,4|", int64(rd.timeoutUnused/time.Second), int64(rd.timeoutActive/time.Second)) + strings.Join(mops, ";")
	impl := strings.Join(outs, ";") + "|D:" + strings.Join(d, "/") + "|I:" + strings.Join(ti, "/")
	if time.Since(t0) >= c08SlowLimit {
		out.Count("discarded:slow-history")
		return model, impl, false, 0
	}
	if boundary {
		out.Count("discarded:sweep-on-a-boundary-instant")
		return model, impl, false, 0
	}
	for i := 0; i < checks; i++ {
		out.Checked()
	}
	for _, f := range fails {
		out.OracleFail(f.sig, f.what, model)
	}
	return model, impl, true, len(fails)
}

// c08IdentClass: where the separator byte sits in an identifier (input distribution of the evidence)
func c08IdentClass(id string) string {
	n := strings.Count(id, "|")
	switch {
	case id == "":
		return "empty"
	case n == 0:
		return "no-separator"
	case n == len(id):
		return "separators-only"
	case n > 1:
		return "several-separators"
	case id[0] == '|':
		return "separator-first"
	case id[len(id)-1] == '|':
		return "separator-last"
	}
	return "separator-inside"
}

var c08Log0 = log.New(io.Discard, "", golog.Ldate)

func log0() *log.Logger { return c08Log0 }

func c08IndexCase(out *vlib.Out, h []ixOp) {
	if m, i, ok, _ := c08IndexRun(out, h); ok {
		out.Case(m, i, true)
	}
}

// the identifiers a history may use
func c08IndexIdents(r *vlib.Rand) []string {
	ids := []string{"", "|", "||", "a|b", "|a", "a|", "ab", "10.0.0.2", "10.0.0.2|x", "|10.0.0.1|", "x|10.0.0.1|y", "\x00", "\xff|\xfe", "\x00|\x00"}
	for i := 0; i < 6; i++ {
		b := r.Bytes(32)
		for j := range b {
			if b[j] == '|' {
				b[j] = 'z'
			}
		}
		for j := 0; j < i%4; j++ { // 0 … 3 separators at random places
			b[r.Intn(32)] = '|'
		}
		if i == 4 {
			b[0] = '|'
		}
		if i == 5 {
			b[31] = '|'
		}
		ids = append(ids, string(b))
	}
	return ids
}

func c08IndexCases(out *vlib.Out, r *vlib.Rand) {
	ids := c08IndexIdents(r)
	// every identifier: registered, a neighbour that shares a prefix up to a separator, connection or not,
	// a sweep on either side of each lifetime, as one call or as collection + removal per collected index
	// (plus indices nothing is stored under: cut elsewhere, the bare phantom, the empty string)
	for ii, id := range ids {
		for _, used := range []bool{false, true} {
			for _, lim := range []int64{c08Unused, c08Active} {
				for _, d := range []int64{-30, 30} {
					for _, wb := range []bool{false, true} {
						nb := ids[(ii+1)%len(ids)]
						h := []ixOp{{kind: 'r', id: id, tr: 1, now: 0}, {kind: 't', id: nb, tr: 4, now: 0}, {kind: 'r', ph: 2, id: id, tr: 4, now: 60}, {kind: 'U'}}
						if used {
							h = append(h, ixOp{kind: 'm', id: id, tr: 1, now: 120})
						}
						at := lim + d
						if wb {
							h = append(h, ixOp{kind: 'c', now: at},
								ixOp{kind: 'x', now: at, ix: c08Phantoms[0]}, ixOp{kind: 'x', now: at, ix: ""},
								ixOp{kind: 'x', now: at, ix: c08Phantoms[0] + "|" + id + "|"}, ixOp{kind: 'x', now: at, ix: c08Phantoms[0] + "||" + id},
								ixOp{kind: 'x', now: at, ix: timeoutIndex(c08Phantoms[0], id)}, ixOp{kind: 'x', now: at, ix: timeoutIndex(c08Phantoms[0], nb)},
								ixOp{kind: 'x', now: at, ix: timeoutIndex(c08Phantoms[2], id)}, ixOp{kind: 'x', now: at, ix: timeoutIndex(c08Phantoms[1], id)})
						}
						h = append(h, ixOp{kind: 's', now: at}, ixOp{kind: 'l', now: at}, ixOp{kind: 'l', ph: 2, now: at}, ixOp{kind: 'T', now: at}, ixOp{kind: 'U', now: at},
							ixOp{kind: 's', now: c08Active + 90}, ixOp{kind: 'T', now: c08Active + 90}, ixOp{kind: 'U', now: c08Active + 90})
						c08IndexCase(out, h)
						out.Count("ix-boundary")
					}
				}
			}
		}
	}
	// random histories: registration times on whole minutes, sweeps / collections half a minute off
	n := vlib.Budget(300, 6000)
	for c := 0; c < n; c++ {
		var h []ixOp
		now := int64(0)
		pool := []string{ids[r.Intn(len(ids))], ids[r.Intn(len(ids))], ids[r.Intn(len(ids))], ids[r.Intn(14)]}
		var lastIdx []string
		for j, m := 0, r.Range(4, 40); j < m; j++ {
			op := ixOp{ph: r.Intn(3), id: pool[r.Intn(len(pool))], tr: []int{1, 4, 1, 4, 2}[r.Intn(5)]}
			switch q := r.Intn(20); {
			case q < 5:
				op.kind = 'r'
			case q < 8:
				op.kind = 't'
			case q < 11:
				op.kind = 'm'
			case q < 14:
				op.kind = 's'
			case q < 15:
				op.kind = 'c'
			case q < 17:
				op.kind = 'x'
				switch r.Intn(4) {
				case 0:
					op.ix = timeoutIndex(c08Phantoms[op.ph], op.id)
				case 1:
					op.ix = c08Phantoms[op.ph] + "|" + op.id + "|"
				case 2:
					op.ix = op.id
				default:
					if len(lastIdx) > 0 {
						op.ix = lastIdx[r.Intn(len(lastIdx))]
					}
				}
			case q < 18:
				op.kind = 'l'
			case q < 19:
				op.kind = 'T'
			default:
				op.kind = 'U'
			}
			if op.kind == 's' || op.kind == 'c' || op.kind == 'x' {
				// aimed at a lifetime half of the time
				step := int64(r.Range(1, 12)) * 60
				if r.Bool() {
					step = []int64{c08Unused, c08Active}[r.Intn(2)]
				}
				now = (now+step)/60*60 + 30
				if op.kind == 'x' {
					lastIdx = append(lastIdx, op.ix)
				}
			} else if r.Chance(1, 2) {
				now = (now/60 + int64(r.Range(1, 5))) * 60
			} else {
				now = (now + 59) / 60 * 60
			}
			op.now = now
			h = append(h, op)
		}
		c08IndexCase(out, h)
		out.Count("ix-random")
	}
	// the index function itself on arbitrary halves (phantom texts are separator-free: the code's contract)
	for c := 0; c < 200; c++ {
		id := string(r.Bytes(r.Intn(40)))
		ph := c08Phantoms[r.Intn(3)]
		out.Checked()
		ix := timeoutIndex(ph, id)
		if i := strings.IndexByte(ix, '|'); i < 0 || ix[:i] != ph || ix[i+1:] != id {
			out.OracleFail("C08:timeout-index-not-invertible", fmt.Sprintf("timeoutIndex(%q, %x) = %x", ph, id, ix), fmt.Sprintf("timeoutIndex %q %x", ph, id))
		}
	}
}

// c08SeparatorHistories: histories of the main harness (real transports, model `registryx`) over the
// secrets whose HMAC identifiers contain the separator byte
func c08SeparatorHistories(out *vlib.Out, r *vlib.Rand) {
	for sec := c08SepSecBase; sec < c08SepSecBase+4; sec++ {
		for tr := 0; tr < 3; tr++ {
			for _, create := range []byte{'t', 'r'} {
				for used := 0; used < 2; used++ {
					for _, lim := range []int64{c08Unused, c08Active} {
						for _, d := range []int64{-1, 1} {
							for _, sk := range []byte{'s', 'C', 'S'} {
								h := []c08Op{{kind: create, sec: sec, tr: tr, now: 0}, {kind: 'r', sec: 0, tr: tr, now: 0}, {kind: 'r', ph: 2, sec: sec, tr: (tr + 1) % 3, now: 0}}
								if used == 1 {
									h = append(h, c08Op{kind: 'm', sec: sec, tr: tr, now: 120})
								}
								h = append(h, c08Op{kind: sk, now: lim + d}, c08Op{kind: 'l', now: lim + d}, c08Op{kind: 'e', sec: sec, tr: tr, now: lim + d}, c08Op{kind: 'T', now: lim + d},
									c08Op{kind: sk, now: c08Active + d}, c08Op{kind: 'l', now: c08Active + d}, c08Op{kind: 'T', now: c08Active + d})
								c08Case(out, h)
								out.Count("separator-identifier:boundary")
							}
						}
					}
				}
			}
		}
	}
	var shift func(ops []c08Op)
	shift = func(ops []c08Op) {
		for i := range ops {
			if ops[i].sec < 4 {
				ops[i].sec += c08SepSecBase
			}
			shift(ops[i].mid)
		}
	}
	n := vlib.Budget(80, 3000)
	for i := 0; i < n; i++ {
		h := c08RandomHistory(r, r.Range(5, 200), r.Range(1, 3), r.Range(1, 4))
		shift(h)
		c08Case(out, h)
		out.Count("separator-identifier:random")
	}
}

// c08IndexReplay re-runs a `regidx|…` line (the line spells phantom and identifier bytes in hex).
func c08IndexReplay(t *testing.T, out *vlib.Out, line string) bool {
	if !strings.HasPrefix(line, "regidx|") {
		return false
	}
	f := strings.Split(line, "|")
	if len(f) != 5 {
		t.Fatalf("replay: malformed regidx line %q", line)
	}
	unhex := func(s string) string {
		if s == "-" {
			return ""
		}
		return string(mustUnhex(s))
	}
	phOf := func(h string) int {
		for i, p := range c08Phantoms {
			if p == unhex(h) {
				return i
			}
		}
		t.Fatalf("replay: unknown phantom %q", h)
		return 0
	}
	num := func(s string) int64 {
		v, err := strconv.ParseInt(s, 10, 64)
		if err != nil {
			t.Fatalf("replay: bad number %q in %q", s, line)
		}
		return v
	}
	var ops []ixOp
	now := int64(0)
	for _, o := range strings.Split(f[4], ";") {
		a := strings.Split(o, ",")
		op := ixOp{kind: a[0][0], now: now}
		switch a[0] {
		case "t", "r":
			op.ph, op.id, op.tr, op.now = phOf(a[1]), unhex(a[2]), int(num(a[3])), num(a[4])
		case "m":
			op.ph, op.id, op.tr = phOf(a[1]), unhex(a[2]), int(num(a[3]))
		case "s", "c":
			op.now = num(a[1])
		case "x":
			op.ix, op.now = unhex(a[1]), num(a[2])
		case "l":
			op.ph = phOf(a[1])
		case "T", "U":
		default:
			t.Fatalf("replay: unknown operation %q", o)
		}
		now = op.now
		ops = append(ops, op)
	}
	for try := 0; try < 20; try++ {
		m, i, ok, _ := c08IndexRun(out, ops)
		if !ok {
			continue
		}
		out.Case(m, i, true)
		fmt.Println("REPLAY model-line:", m)
		fmt.Println("REPLAY impl      :", i)
		break
	}
	return true
}
