//go:build verif

package main

// C04 — valid client first flights are recognised under any TCP segmentation, the registration is
// marked used, the application bytes reach the covert exactly once and in order, the reply reaches
// the client.
//
// End to end on the real code: real client transports (min, prefix every id x flush policy x port
// mode, obfs4) produce the first flight for a registered secret; flight + early data are fed to the
// real handleNewTCPConn -> real Proxy -> a loopback echo covert, under exhaustive / sampled 1- and
// 2-cut segmentations of the flight plus random k-cuts, with the client's registration alone on its
// phantom or among ~130 others. Two carriers: a scripted virtual-time connection (min, prefix) and
// a synchronous net.Pipe with a segmenting, pacing writer on the client side (all transports; the
// only option for obfs4, whose handshake is interactive).
//
// Oracle (independent of the Lean model): the covert received exactly the client's application
// bytes, the client received exactly the echo, the registration's timeout record is marked used, the
// registration found is the client's. Correspondence: the observed call trace of the handler vs the
// trace the Lean model computes from the same read results and transport verdicts.

import (
	"bytes"
	"errors"
	"fmt"
	"io"
	"net"
	"os"
	"runtime"
	"strconv"
	"strings"
	"sync"
	"sync/atomic"
	"testing"
	"time"

	"github.com/refraction-networking/conjure/internal/vlib"
	cj "github.com/refraction-networking/conjure/pkg/station/lib"
	"github.com/refraction-networking/conjure/pkg/transports/wrapping/prefix"
	pb "github.com/refraction-networking/conjure/proto"
)

type c04Job struct {
	client  int    // index into the world's client list (2k: many-phantom, 2k+1: alone)
	mode    string // script | pipe | tcp (a loopback TCP connection, its station end handed to the handler raw)
	early   int    // application bytes sent right behind the flight (same stream position)
	later   []int  // sizes of further application writes
	cuts    []int  // cut positions in flight++early (negative: from the end of the flight)
	natural bool   // also cut where the client transport itself flushed
	delayUs int    // pacing between segments (pipe mode)
	seed    uint64 // application data generator
	hsMin   int    // obfs4: wanted range of the handshake length (0 = any)
	hsMax   int
	world   int    // filled by the worker (for the replay line)
	script  string // replay only: exact event script (script mode)
}

func (j c04Job) replay(seed int64) string {
	s := fmt.Sprintf("c04|seed=%d|world=%d|client=%d|mode=%s|early=%d|later=%s|cuts=%s|natural=%s|delay=%d|dseed=%d|hsmin=%d|hsmax=%d",
		seed, j.world, j.client, j.mode, j.early, c34IntsString(j.later), c34IntsString(j.cuts), vlib.B(j.natural), j.delayUs, j.seed, j.hsMin, j.hsMax)
	if j.script != "" {
		s += "|script=" + j.script
	}
	return s
}

func c04AppData(seed uint64, n int) []byte {
	b := make([]byte, n)
	s := seed*0x9E3779B97F4A7C15 + 0x1234567
	for i := range b {
		s ^= s << 13
		s ^= s >> 7
		s ^= s << 17
		b[i] = byte(s >> 24)
	}
	return b
}

// segmenting writer on the client side of a pipe
type c04SegConn struct {
	net.Conn
	hold    bool // buffer writes until flush (min / prefix: flight and early data form one stream to cut)
	buf     []byte
	bounds  []int // natural write boundaries inside buf
	first   bool  // obfs4: only the first write (the client handshake) is cut
	cuts    []int
	natural bool
	delay   time.Duration
	flight  int // length of the flight inside buf (set by the caller before flush)
	// obfs4: the client draws its handshake padding from crypto/rand; a handshake whose length is
	// outside [hsMin, hsMax] is refused locally (nothing is sent) so that the caller can draw again
	hsMin, hsMax int
	hsLen        int
	// called once, just before the first byte is put on the wire: the station's handler (and with it the
	// real 5-10 s classification deadline) is started only now, not while handshakes are still being drawn
	onFirst func()
}

var errC04HsLen = errors.New("verif: handshake length outside the wanted range")
var errC04NoHandshake = errors.New("verif: no handshake of the wanted length was drawn")

func c04Resolve(cuts []int, flightLen, total int, extra []int) []int {
	seen := map[int]bool{}
	var out []int
	for _, c := range append(append([]int(nil), cuts...), extra...) {
		if c < 0 {
			c = flightLen + c
		}
		if c > 0 && c < total && !seen[c] {
			seen[c] = true
			out = append(out, c)
		}
	}
	for i := 1; i < len(out); i++ {
		for k := i; k > 0 && out[k] < out[k-1]; k-- {
			out[k], out[k-1] = out[k-1], out[k]
		}
	}
	return out
}

func (s *c04SegConn) emit(b []byte, flightLen int, bounds []int) error {
	var extra []int
	if s.natural {
		extra = bounds
	}
	for i, ch := range c34Cut(b, c04Resolve(s.cuts, flightLen, len(b), extra)) {
		if i > 0 && s.delay > 0 {
			time.Sleep(s.delay)
		}
		if _, err := s.Conn.Write(ch); err != nil {
			return err
		}
	}
	return nil
}

func (s *c04SegConn) Write(p []byte) (int, error) {
	if s.hold {
		s.buf = append(s.buf, p...)
		s.bounds = append(s.bounds, len(s.buf))
		return len(p), nil
	}
	if s.first {
		if (s.hsMin > 0 && len(p) < s.hsMin) || (s.hsMax > 0 && len(p) > s.hsMax) {
			return 0, errC04HsLen
		}
		s.first = false
		s.hsLen = len(p)
		if s.onFirst != nil {
			s.onFirst()
		}
		if err := s.emit(p, len(p), nil); err != nil {
			return 0, err
		}
		return len(p), nil
	}
	return s.Conn.Write(p)
}

// Close: the obfs4 dialer closes the connection when its handshake write fails; while the harness is
// still drawing a handshake of the wanted length nothing has been sent and the pipe must stay open.
func (s *c04SegConn) Close() error {
	if s.first && (s.hsMin > 0 || s.hsMax > 0) {
		return nil
	}
	return s.Conn.Close()
}

func (s *c04SegConn) flush() error {
	s.hold = false
	b := s.buf
	s.buf = nil
	if len(b) == 0 {
		return nil
	}
	return s.emit(b, s.flight, s.bounds)
}

type c04Result struct {
	canon      c34Canon
	covertGot  []byte
	covertN    int // covert-side connections opened
	covertDone bool
	clientGot  []byte
	used       bool
	exists     bool
	handlerErr string
	clientErr  string
	hung       bool // the handler goroutine never returned (it is abandoned; the world is not used again)
	raw        bool // the handler was given the raw *net.TCPConn: no call log, only MarkActive is observed
}

// c04AwaitHandler waits for the handler to return after the client side is gone. A handler that has not
// returned 30 s later gets its connection closed under it; if even that does not end it within 5 s it is
// blocked on something that is not the connection (a lock): the goroutine is abandoned and reported
// with its stack.
func c04AwaitHandler(w *c34World, done chan struct{}, closeConn func(), res *c04Result) {
	select {
	case <-done:
		return
	case <-time.After(30 * time.Second):
	}
	res.handlerErr = "handler did not return within 30 s after the client closed"
	closeConn()
	select {
	case <-done:
	case <-time.After(5 * time.Second):
		res.hung = true
		res.handlerErr = "handler blocked for good (not on the connection, which was closed under it): " + c04HandlerStack()
		w.dead = res.handlerErr
	}
}

// c04HandlerStack: the frames of the goroutine(s) that sit in handleNewTCPConn
func c04HandlerStack() string {
	buf := make([]byte, 1<<20)
	buf = buf[:runtime.Stack(buf, true)]
	var out []string
	for _, g := range strings.Split(string(buf), "\n\n") {
		if !strings.Contains(g, "handleNewTCPConn") {
			continue
		}
		var fr []string
		for _, l := range strings.Split(g, "\n") {
			if l != "" && l[0] != '\t' && !strings.HasPrefix(l, "created by") {
				if i := strings.LastIndexByte(l, '('); i > 0 && !strings.HasPrefix(l, "goroutine ") {
					l = l[:i]
				}
				if j := strings.LastIndexByte(l, '/'); j >= 0 {
					l = l[j+1:]
				}
				fr = append(fr, l)
			}
			if len(fr) >= 8 {
				break
			}
		}
		out = append(out, strings.Join(fr, " < "))
		if len(out) >= 2 {
			break
		}
	}
	return strings.Join(out, " || ")
}

var c04Remote = &net.TCPAddr{IP: net.IPv4(203, 0, 113, 7), Port: 50123}

func c04RunScript(w *c34World, reg *c34Reg, j *c04Job, app []byte) (*c04Result, error) {
	res := &c04Result{}
	var evs []c34Ev
	if j.script != "" {
		var err error
		if evs, err = c34ParseEvs(j.script); err != nil {
			return nil, err
		}
	} else {
		writes, err := w.flightWrites(reg, -2)
		if err != nil {
			return nil, err
		}
		flight := c34Concat(writes)
		S := append(append([]byte(nil), flight...), app[:j.early]...)
		var extra []int
		if j.natural {
			n := 0
			for _, wr := range writes {
				n += len(wr)
				extra = append(extra, n)
			}
		}
		// now and then a read that returns no bytes and no error between two segments (the theorem covers
		// empty reads; a loop that gives up on n == 0 must not pass)
		zr := vlib.NewRand(fmt.Sprintf("C04/zero-reads/%d", j.seed))
		for _, ch := range c34Cut(S, c04Resolve(j.cuts, len(flight), len(S), extra)) {
			if len(evs) > 0 && zr.Chance(1, 20) {
				evs = append(evs, c34Ev{kind: "d"})
			}
			evs = append(evs, c34Ev{kind: "d", data: ch})
		}
		off := j.early
		for _, n := range j.later {
			evs = append(evs, c34Ev{kind: "d", data: app[off : off+n]})
			off += n
		}
		j.script = c34EvString(evs)
	}
	cj.VerifC34ResetUnused(w.rm, reg.reg)
	conn := newC34Scripted(evs, c34Peer(50123))
	run, done := w.start(conn, reg.phantom, "ok")
	// the "client" waits for the whole echo, then closes
	got := make(chan bool, 1)
	go func() { got <- conn.waitWritten(len(app), 8*time.Second) }()
	select {
	case <-got:
	case <-done:
	}
	close(conn.finish)
	c04AwaitHandler(w, done, func() { conn.Close() }, res)
	if !res.hung && run.panicked != nil {
		res.handlerErr = fmt.Sprint("panic: ", run.panicked)
	}
	res.clientGot = conn.writtenCopy()
	c04Collect(w, reg, run, res)
	return res, nil
}

func c04Collect(w *c34World, reg *c34Reg, run *c34Run, res *c04Result) {
	res.canon = w.canon(run)
	expect := 0
	if res.canon.found >= 0 || res.canon.marked >= 0 {
		expect = 1
	}
	ccs := w.covert.take(expect, 5*time.Second)
	res.covertN = len(ccs)
	res.covertDone = true
	for _, cc := range ccs {
		b, ok := cc.received(10 * time.Second)
		res.covertGot = append(res.covertGot, b...)
		res.covertDone = res.covertDone && ok
	}
	res.exists, res.used = cj.VerifC34TimeoutUsed(w.rm, reg.reg)
}

func c04RunPipe(w *c34World, reg *c34Reg, j *c04Job, app []byte) (*c04Result, error) {
	res := &c04Result{}
	ct, err := w.clientTransport(reg, -2)
	if err != nil {
		return nil, err
	}
	var a, b net.Conn
	if j.mode == "tcp" {
		// the type the station's accept loop passes: code behind a `.(*net.TCPConn)` assertion in the handler,
		// the transports or the relay runs only for it
		if a, b, err = w.tcpPair(); err != nil {
			return nil, err
		}
		res.raw = true
	} else {
		a, b = net.Pipe()
	}
	conn := newC34Real(b, c34Peer(50123))
	var hc net.Conn = conn
	if res.raw {
		hc = b
		defer b.Close() // what handleNewConn's deferred Close does
	}
	// The handler — and with it the station's real 5-10 s classification deadline — starts when the first
	// byte is about to go on the wire: an obfs4 client may first have to draw hundreds of handshakes
	// until one has the wanted length, which must not eat into that deadline.
	var run *c34Run
	var done chan struct{}
	var startOnce sync.Once
	startHandler := func() {
		startOnce.Do(func() {
			cj.VerifC34ResetUnused(w.rm, reg.reg)
			_ = a.SetDeadline(time.Now().Add(20 * time.Second))
			run, done = w.startOn(hc, conn, reg.phantom, "ok")
		})
	}
	seg := &c04SegConn{Conn: a, cuts: j.cuts, natural: j.natural, delay: time.Duration(j.delayUs) * time.Microsecond, hsMin: j.hsMin, hsMax: j.hsMax, onFirst: startHandler}
	obfs := reg.tt == pb.TransportType_Obfs4
	if obfs {
		seg.first = true
	} else {
		seg.hold = true
		startHandler() // min / prefix: nothing is drawn, the flight is written at once
	}
	var cwg sync.WaitGroup
	cwg.Add(1)
	go func() {
		defer cwg.Done()
		defer a.Close()
		wrapped, err := ct.WrapConn(seg)
		for try := 0; err != nil && errors.Is(err, errC04HsLen) && try < 200000; try++ {
			wrapped, err = ct.WrapConn(seg) // nothing was sent: draw another handshake
		}
		if err != nil {
			res.clientErr = "wrap: " + c34ErrKind(err)
			return
		}
		// reader: collects the echo while the writer is still sending
		rdone := make(chan struct{})
		go func() {
			defer close(rdone)
			buf := make([]byte, len(app))
			n, _ := io.ReadFull(wrapped, buf)
			res.clientGot = buf[:n]
		}()
		if !obfs {
			seg.flight = len(seg.buf)
		}
		if j.early > 0 {
			if _, err := wrapped.Write(app[:j.early]); err != nil {
				res.clientErr = "write: " + c34ErrKind(err)
			}
		}
		if !obfs {
			if err := seg.flush(); err != nil {
				res.clientErr = "flush: " + c34ErrKind(err)
			}
		}
		off := j.early
		for _, n := range j.later {
			if seg.delay > 0 {
				time.Sleep(seg.delay)
			}
			if _, err := wrapped.Write(app[off : off+n]); err != nil {
				res.clientErr = "write: " + c34ErrKind(err)
				break
			}
			off += n
		}
		<-rdone
	}()
	cwg.Wait()
	if run == nil {
		b.Close()
		return nil, errC04NoHandshake
	}
	c04AwaitHandler(w, done, func() { b.Close() }, res)
	if !res.hung && run.panicked != nil {
		res.handlerErr = fmt.Sprint("panic: ", run.panicked)
	}
	c04Collect(w, reg, run, res)
	return res, nil
}

// c04Check evaluates the property on one finished case.
func c04Check(out *vlib.Out, w *c34World, reg *c34Reg, j *c04Job, app []byte, res *c04Result) {
	tn := reg.tname()
	rp := j.replay(vlib.Seed())
	fail := func(what, detail string) {
		c04FailMu.Lock()
		c04Fails = append(c04Fails, "C04:"+tn+":"+what+" — "+detail)
		c04FailMu.Unlock()
		out.OracleFail("C04:"+tn+":"+what, fmt.Sprintf("%s: %s (client %d %s prefix=%d flush=%d randport=%v phantom=%s mode=%s early=%d later=%v cuts=%v)",
			what, detail, j.client, tn, reg.prefixID, reg.flush, reg.randPort, reg.phantom, j.mode, j.early, j.later, j.cuts), rp)
	}
	out.Checked()
	if res.hung {
		fail("handler-hung", res.handlerErr)
		return
	}
	if res.handlerErr != "" {
		fail("handler", res.handlerErr)
		return
	}
	found := res.canon.found
	if res.raw {
		found = res.canon.marked // no call log on a raw connection: the registration that was marked active
	}
	if found < 0 {
		fail("not-recognised", "no transport found the client's registration")
		return
	}
	if found != reg.idx {
		fail("wrong-registration", fmt.Sprintf("matched registration %d, the client's is %d", found, reg.idx))
		return
	}
	if !res.exists || !res.used {
		fail("not-marked-used", fmt.Sprintf("timeout record exists=%v used=%v", res.exists, res.used))
	}
	if res.covertN != 1 {
		fail("covert-connections", fmt.Sprintf("%d connections to the covert, expected 1", res.covertN))
	}
	if !bytes.Equal(res.covertGot, app) {
		fail("covert-bytes-differ", c04Diff(res.covertGot, app))
	} else if !res.covertDone {
		fail("covert-not-closed", "covert connection still open 10 s after the tunnel ended")
	}
	if !bytes.Equal(res.clientGot, app) {
		fail("reply-differs", c04Diff(res.clientGot, app)+" "+res.clientErr)
	}
}

var (
	c04FailMu sync.Mutex
	c04Fails  []string
	// cases that took more than 3 s of real time (a tunnel that stalls instead of relaying): after a
	// couple of dozen the generator stops, so that the run ends and its findings are written out
	c04Slow atomic.Int32
)

func c04Failed() bool {
	c04FailMu.Lock()
	defer c04FailMu.Unlock()
	return len(c04Fails) > 0
}

// c04GiveUp: the generator may stop early only when the run already has an oracle failure to report (a
// tunnel that stalls makes every further case take seconds); slowness alone never reduces coverage.
func c04GiveUp() bool { return c04Slow.Load() >= 24 && c04Failed() }

func c04Diff(got, want []byte) string {
	n := 0
	for n < len(got) && n < len(want) && got[n] == want[n] {
		n++
	}
	return fmt.Sprintf("got %d bytes, expected %d, first difference at offset %d", len(got), len(want), n)
}

func c04Flightlen(reg *c34Reg) int {
	switch reg.tt {
	case pb.TransportType_Min:
		return 32
	case pb.TransportType_Prefix:
		return len(prefix.DefaultPrefixes[prefix.PrefixID(reg.prefixID)].Bytes()) + 64
	}
	return 0
}

var c04Earlies = []int{0, 0, 1, 2, 13, 13, 100, 100, 100, 1000}
var c04BigEarlies = []int{4011, 4031, 4032, 4033, 4095, 4096, 4097, 8192, 20000, 65536}

func c04RunJob(out *vlib.Out, w *c34World, clients []*c34Reg, j *c04Job) error {
	reg := clients[j.client]
	total := j.early
	for _, n := range j.later {
		total += n
	}
	app := c04AppData(j.seed, total)
	var res *c04Result
	var err error
	began := time.Now()
	defer func() {
		if time.Since(began) > 3*time.Second {
			c04Slow.Add(1)
			out.Count("slow-case(>3s)")
		}
	}()
	if j.mode == "pipe" || j.mode == "tcp" {
		res, err = c04RunPipe(w, reg, j, app)
	} else {
		res, err = c04RunScript(w, reg, j, app)
	}
	if errors.Is(err, errC04NoHandshake) {
		out.Count("obfs4:no-handshake-of-the-wanted-length-drawn")
		return nil
	}
	if err != nil {
		return err
	}
	c04Check(out, w, reg, j, app, res)
	if !res.raw {
		out.Case(res.canon.modelLine, res.canon.implOut, res.canon.found >= 0)
	}
	out.Count("mode:" + j.mode)
	out.Count("transport:" + reg.tname())
	if reg.tt == pb.TransportType_Prefix {
		out.Count(fmt.Sprintf("prefix:%s/flush%d/randport%v", prefix.PrefixID(reg.prefixID).Name(), reg.flush, reg.randPort))
	}
	out.Count(fmt.Sprintf("cuts:%d", len(j.cuts)))
	switch {
	case total == 0:
		out.Count("app:0")
	case total <= 4096:
		out.Count("app:<=4096")
	default:
		out.Count("app:>4096")
	}
	if reg.phantom == c34PhMany {
		out.Count("phantom:many")
	} else {
		out.Count("phantom:alone")
	}
	if res.canon.found >= 0 || (res.raw && res.canon.marked >= 0) {
		out.Count("branch:found")
	} else {
		out.Count("branch:not-found")
	}
	return nil
}

func TestVerifC04(t *testing.T) {
	out := vlib.Open("C04")
	defer out.Close()
	restore := c34Silence()
	defer restore()
	if rp := vlib.Replay(); rp != "" {
		c04Replay(t, out, rp, restore)
		return
	}
	thorough := vlib.Tier() == "thorough"
	out.Note("C04: every case runs the real client transport, handleNewTCPConn, Proxy and a loopback echo covert; obfs4 only over net.Pipe (interactive handshake)")
	nW := 12
	jobs := make(chan c04Job, 256)
	var wg sync.WaitGroup
	var live atomic.Int32 // worlds whose handlers all returned so far
	live.Store(int32(nW))
	errs := make(chan error, nW)
	// every world registers the same structure of clients (its own secrets)
	probe, err := newC34World("C04/0", "127.0.0.1")
	if err != nil {
		t.Fatal(err)
	}
	pclients, err := probe.populate()
	if err != nil {
		t.Fatal(err)
	}
	for wi := 0; wi < nW; wi++ {
		wg.Add(1)
		go func(wi int) {
			defer wg.Done()
			w, clients := probe, pclients
			if wi > 0 {
				var err error
				if w, err = newC34World(fmt.Sprintf("C04/%d", wi), fmt.Sprintf("127.0.0.%d", 1+wi)); err != nil {
					errs <- err
					for range jobs { // the run fails; do not block the generator
					}
					return
				}
				if clients, err = w.populate(); err != nil {
					errs <- err
					for range jobs {
					}
					return
				}
			}
			for {
				if w.dead != "" {
					// a handler of this world never returned: its connection manager cannot be used any more.
					// The other worlds take over its share; the last one standing drains the queue.
					if live.Add(-1) > 0 {
						return
					}
					for range jobs {
						out.Count("skipped:every-world-has-a-hung-handler")
					}
					return
				}
				j, ok := <-jobs
				if !ok {
					return
				}
				if c04GiveUp() {
					out.Count("skipped-after-24-slow-cases-and-an-oracle-failure")
					continue
				}
				j.world = wi
				if err := c04RunJob(out, w, clients, &j); err != nil {
					errs <- fmt.Errorf("world %d client %d: %w", wi, j.client, err)
					for range jobs {
					}
					return
				}
			}
		}(wi)
	}

	r := vlib.NewRand("C04")
	// client groups by transport
	var minC, obfsC, prefC []int
	byPrefix := map[int32][]int{}
	for i, c := range pclients {
		switch c.tt {
		case pb.TransportType_Min:
			minC = append(minC, i)
		case pb.TransportType_Obfs4:
			obfsC = append(obfsC, i)
		default:
			prefC = append(prefC, i)
			byPrefix[c.prefixID] = append(byPrefix[c.prefixID], i)
		}
	}
	pickEarly := func() int {
		if r.Chance(1, 25) {
			return c04BigEarlies[r.Intn(len(c04BigEarlies))]
		}
		return c04Earlies[r.Intn(len(c04Earlies))]
	}
	emit := func(j c04Job) {
		j.seed = r.U64()
		if c04GiveUp() {
			out.Count("skipped-after-24-slow-cases-and-an-oracle-failure")
			return
		}
		jobs <- j
	}
	// ---- corpus: the cases of the property text, hand-picked
	for _, ci := range []int{minC[0], minC[1], prefC[0], prefC[1], byPrefix[int32(prefix.OpenSSH2)][0], byPrefix[int32(prefix.GetLong)][5]} {
		fl := c04Flightlen(pclients[ci])
		emit(c04Job{client: ci, mode: "script", early: 13})                                 // one segment: tag and data together
		emit(c04Job{client: ci, mode: "script", early: 13, cuts: []int{fl}})                // cut exactly behind the tag
		emit(c04Job{client: ci, mode: "script", early: 13, cuts: []int{fl - 1}})            // last tag byte travels with the data
		emit(c04Job{client: ci, mode: "script", early: 13, cuts: []int{1}})                 // first byte alone
		emit(c04Job{client: ci, mode: "script", early: 0, later: []int{5, 0, 7}})           // data only later
		emit(c04Job{client: ci, mode: "script", early: 65536, cuts: []int{fl / 2}})         // 64 KiB behind the tag
		emit(c04Job{client: ci, mode: "script", early: 4096 - fl, natural: true})           // stream = exactly one read buffer
		emit(c04Job{client: ci, mode: "pipe", early: 13, cuts: []int{fl / 2}, delayUs: 200}) // paced, real connection
		emit(c04Job{client: ci, mode: "pipe", early: 65536, natural: true})
		emit(c04Job{client: ci, mode: "tcp", early: 13, cuts: []int{fl / 2}, delayUs: 200}) // raw *net.TCPConn
		emit(c04Job{client: ci, mode: "tcp", early: 65536, natural: true})
		emit(c04Job{client: ci, mode: "tcp", early: 0, later: []int{5, 0, 7}, cuts: []int{1, fl - 1}})
		all := make([]int, 0, fl)
		for c := 1; c <= fl; c++ {
			all = append(all, c)
		}
		emit(c04Job{client: ci, mode: "script", early: 3, cuts: all}) // one byte per segment
	}
	for _, ci := range obfsC {
		emit(c04Job{client: ci, mode: "pipe", early: 13})
		emit(c04Job{client: ci, mode: "pipe", early: 0})
		emit(c04Job{client: ci, mode: "pipe", early: 65536})
		emit(c04Job{client: ci, mode: "pipe", early: 100, later: []int{1, 4096, 50}, cuts: []int{32, 64, -32, -16}, delayUs: 100})
		emit(c04Job{client: ci, mode: "tcp", early: 13})
		emit(c04Job{client: ci, mode: "tcp", early: 100, later: []int{1, 4096, 50}, cuts: []int{32, 64, -32, -16}, delayUs: 100})
	}
	// ---- every 1-cut of the first flight: min and every prefix id x flush policy x port mode x both phantom kinds
	for _, ci := range append(append([]int(nil), minC...), prefC...) {
		fl := c04Flightlen(pclients[ci])
		step := 1
		if !thorough && pclients[ci].tt == pb.TransportType_Prefix && pclients[ci].phantom != c34PhMany {
			step = 3 // quick: the alone-phantom prefix variants take every third position (rotating start)
		}
		for c := 1 + r.Intn(step); c <= fl; c += step {
			emit(c04Job{client: ci, mode: "script", early: pickEarly(), cuts: []int{c}})
		}
	}
	// ---- every 2-cut of the first flight. thorough: exhaustive for min and every prefix id x flush
	//      policy x port mode among the other registrations of the many-phantom, sampled for the same
	//      clients alone on their phantom; quick: sampled for every client
	all := append(append([]int(nil), minC...), prefC...)
	for _, ci := range all {
		fl := c04Flightlen(pclients[ci])
		if thorough && pclients[ci].phantom == c34PhMany {
			for c1 := 1; c1 < fl; c1++ {
				for c2 := c1 + 1; c2 <= fl; c2++ {
					emit(c04Job{client: ci, mode: "script", early: pickEarly(), cuts: []int{c1, c2}})
				}
			}
			continue
		}
		for i := vlib.Budget(20, 300); i > 0; i-- {
			c1 := r.Range(1, fl-1)
			emit(c04Job{client: ci, mode: "script", early: pickEarly(), cuts: []int{c1, r.Range(c1+1, fl)}})
		}
	}
	// ---- random k-cuts anywhere in flight ++ early, later writes, both carriers
	nk := vlib.Budget(1500, 40000)
	for i := 0; i < nk; i++ {
		ci := append(append([]int(nil), minC...), prefC...)[r.Intn(len(minC)+len(prefC))]
		fl := c04Flightlen(pclients[ci])
		j := c04Job{client: ci, mode: "script", early: pickEarly(), natural: r.Bool()}
		if r.Chance(1, 40) {
			j.early = r.Range(20000, 65536)
		}
		for k := r.Range(0, 8); k > 0; k-- {
			if r.Bool() {
				j.cuts = append(j.cuts, r.Range(1, fl))
			} else {
				j.cuts = append(j.cuts, r.Range(1, fl+j.early))
			}
		}
		for k := r.Intn(3); k > 0; k-- {
			j.later = append(j.later, []int{0, 1, 100, 5000}[r.Intn(4)])
		}
		if r.Chance(1, 6) {
			j.mode = []string{"pipe", "pipe", "tcp"}[r.Intn(3)]
			j.delayUs = []int{0, 0, 50, 300}[r.Intn(4)]
			if j.early > 20000 {
				j.early = 20000
			}
		}
		emit(j)
	}
	// ---- obfs4 (interactive, real connection): boundaries of the handshake, then every 1-cut position
	//      in turn (thorough), sampled 2-cuts and k-cuts
	special := []int{1, 31, 32, 33, 63, 64, 65, 100, 4095, 4096, 4097, -65, -33, -32, -31, -17, -16, -15, -1}
	for _, c := range special {
		for _, ci := range obfsC {
			if !thorough && ci != obfsC[0] && ci != obfsC[1] {
				continue
			}
			emit(c04Job{client: ci, mode: "pipe", early: []int{0, 13, 1000}[r.Intn(3)], cuts: []int{c}})
		}
	}
	// the extremes of the obfs4 handshake length (the client pads to anything up to 8192 bytes; the
	// longest and shortest handshakes are each a fraction of a percent of real connections)
	for k, ci := range obfsC {
		if !thorough && k > 1 {
			break
		}
		for _, rng := range [][2]int{{8161, 0}, {8185, 0}, {0, 160}, {0, 145}} {
			emit(c04Job{client: ci, mode: "pipe", early: []int{0, 13}[r.Intn(2)], hsMin: rng[0], hsMax: rng[1]})
			emit(c04Job{client: ci, mode: "pipe", early: 100, hsMin: rng[0], hsMax: rng[1], cuts: []int{r.Range(1, 140), -r.Range(1, 40)}})
		}
	}
	no := vlib.Budget(120, 20000)
	for i := 0; i < no; i++ {
		ci := obfsC[r.Intn(len(obfsC))]
		j := c04Job{client: ci, mode: "pipe", early: []int{0, 1, 13, 100, 1000, 5000}[r.Intn(6)]}
		switch {
		case thorough && i < 8191:
			j.cuts = []int{i + 1} // clipped to the actual handshake length by the writer
		case r.Bool():
			j.cuts = []int{r.Range(1, 8191), -r.Range(1, 200)}
		default:
			for k := r.Range(1, 8); k > 0; k-- {
				j.cuts = append(j.cuts, []int{r.Range(1, 8191), r.Range(1, 200), -r.Range(1, 200)}[r.Intn(3)])
			}
		}
		if r.Chance(1, 4) {
			j.delayUs = []int{50, 300}[r.Intn(2)]
		}
		if r.Chance(1, 5) {
			j.later = []int{r.Range(0, 3000)}
		}
		if r.Chance(1, 50) {
			j.early = 65536
		}
		if r.Chance(1, 6) {
			j.mode = "tcp"
		}
		emit(j)
	}
	close(jobs)
	wg.Wait()
	select {
	case err := <-errs:
		restore()
		t.Fatal(err)
	default:
	}
}

// c04Replay re-runs `c04|…` lines of a replay file on the implementation.
func c04Replay(t *testing.T, out *vlib.Out, path string, restore func()) {
	lines, err := c34ReplayLines(path, "c04")
	if err != nil {
		t.Fatal(err)
	}
	worlds := map[string]*c34World{}
	clientsOf := map[string][]*c34Reg{}
	for _, m := range lines {
		os.Setenv("VERIF_SEED", m["seed"])
		key := m["seed"] + "/" + m["world"]
		w := worlds[key]
		if w == nil {
			wi, _ := strconv.Atoi(m["world"])
			if w, err = newC34World(fmt.Sprintf("C04/%d", wi), "127.0.0.1"); err != nil {
				t.Fatal(err)
			}
			if clientsOf[key], err = w.populate(); err != nil {
				t.Fatal(err)
			}
			worlds[key] = w
		}
		j := c04Job{mode: m["mode"], later: c34Ints(m["later"]), cuts: c34Ints(m["cuts"]), natural: m["natural"] == "1", script: m["script"]}
		j.client, _ = strconv.Atoi(m["client"])
		j.early, _ = strconv.Atoi(m["early"])
		j.delayUs, _ = strconv.Atoi(m["delay"])
		j.seed, _ = strconv.ParseUint(m["dseed"], 10, 64)
		j.hsMin, _ = strconv.Atoi(m["hsmin"])
		j.hsMax, _ = strconv.Atoi(m["hsmax"])
		j.world, _ = strconv.Atoi(m["world"])
		if j.client >= len(clientsOf[key]) {
			t.Fatalf("replay: client %d out of range", j.client)
		}
		if err := c04RunJob(out, w, clientsOf[key], &j); err != nil {
			t.Fatal(err)
		}
		reg := clientsOf[key][j.client]
		fmt.Fprintf(os.Stderr, "REPLAY c04 client=%d (%s prefix=%d flush=%d phantom=%s) mode=%s early=%d later=%v cuts=%v\n",
			j.client, reg.tname(), reg.prefixID, reg.flush, reg.phantom, j.mode, j.early, j.later, j.cuts)
	}
	if len(c04Fails) == 0 {
		fmt.Fprintln(os.Stderr, "REPLAY c04: the property held on every replayed case")
	}
	for _, f := range c04Fails {
		fmt.Fprintln(os.Stderr, "REPLAY c04 ORACLE FAILURE:", f)
	}
}
