//go:build verif

package lib

// Source fact for C04's "every byte reaches the other end": how the relay path closes a TCP connection.
// Close with SO_LINGER on and a zero timeout aborts the connection — the kernel throws away what is still
// in the send queue and sends RST — so the tail of a transfer to a slow reader is lost; with a positive
// timeout (or SO_LINGER off) Close lets the queue drain.  This generator lists every `x.SetLinger(arg)`
// call in the files of the relay path with the value of its argument, resolved with go/ast over literals,
// package-level and local constants (`none`: not an integer constant expression), and writes
// lean/CJ/Gen/RelayClose.lean; CJ/Props/C04Close.lean states over it that every value is positive.
// Standard library only.

import (
	"fmt"
	"go/ast"
	"go/parser"
	"go/token"
	"os"
	"path/filepath"
	"sort"
	"strconv"
	"strings"
	"testing"
)

// files of the relay path, relative to the repository root
var c04xFiles = []string{"pkg/station/lib/proxies.go", "cmd/application/conns.go", "pkg/transports/transports.go"}

type c04xConsts map[string]ast.Expr

// constants declared at package level in the (non-test) files of dir
func c04xPkgConsts(fset *token.FileSet, dir string) c04xConsts {
	cs := c04xConsts{}
	ents, _ := os.ReadDir(dir)
	for _, e := range ents {
		if e.IsDir() || !strings.HasSuffix(e.Name(), ".go") || strings.HasSuffix(e.Name(), "_test.go") {
			continue
		}
		f, err := parser.ParseFile(fset, filepath.Join(dir, e.Name()), nil, 0)
		if err != nil {
			continue
		}
		for _, d := range f.Decls {
			if gd, ok := d.(*ast.GenDecl); ok && gd.Tok == token.CONST {
				c04xAddConsts(cs, gd)
			}
		}
	}
	return cs
}

func c04xAddConsts(cs c04xConsts, gd *ast.GenDecl) {
	for _, sp := range gd.Specs {
		vs, ok := sp.(*ast.ValueSpec)
		if !ok {
			continue
		}
		for i, n := range vs.Names {
			if i < len(vs.Values) {
				cs[n.Name] = vs.Values[i]
			} else {
				delete(cs, n.Name) // iota-style repetition: not resolved
			}
		}
	}
}

// c04xEval: value of an integer constant expression (literals, constants, + - * / %, parentheses,
// conversions to an integer type)
func c04xEval(e ast.Expr, local, pkg c04xConsts, depth int) (int64, bool) {
	if depth > 20 {
		return 0, false
	}
	switch t := e.(type) {
	case *ast.BasicLit:
		if t.Kind != token.INT {
			return 0, false
		}
		v, err := strconv.ParseInt(t.Value, 0, 64)
		return v, err == nil
	case *ast.ParenExpr:
		return c04xEval(t.X, local, pkg, depth+1)
	case *ast.Ident:
		if d, ok := local[t.Name]; ok {
			return c04xEval(d, local, pkg, depth+1)
		}
		if d, ok := pkg[t.Name]; ok {
			return c04xEval(d, c04xConsts{}, pkg, depth+1)
		}
		return 0, false
	case *ast.UnaryExpr:
		v, ok := c04xEval(t.X, local, pkg, depth+1)
		switch t.Op {
		case token.SUB:
			return -v, ok
		case token.ADD:
			return v, ok
		}
		return 0, false
	case *ast.BinaryExpr:
		a, ok1 := c04xEval(t.X, local, pkg, depth+1)
		b, ok2 := c04xEval(t.Y, local, pkg, depth+1)
		if !ok1 || !ok2 {
			return 0, false
		}
		switch t.Op {
		case token.ADD:
			return a + b, true
		case token.SUB:
			return a - b, true
		case token.MUL:
			return a * b, true
		case token.QUO:
			if b != 0 {
				return a / b, true
			}
		case token.REM:
			if b != 0 {
				return a % b, true
			}
		}
		return 0, false
	case *ast.CallExpr:
		if id, ok := t.Fun.(*ast.Ident); ok && len(t.Args) == 1 {
			switch id.Name {
			case "int", "int8", "int16", "int32", "int64", "uint", "uint8", "uint16", "uint32", "uint64":
				return c04xEval(t.Args[0], local, pkg, depth+1)
			}
		}
	}
	return 0, false
}

func TestVerifC04CloseExtract(t *testing.T) {
	root := os.Getenv("VERIF_SCRATCH_REPO")
	if root == "" {
		root = "../../.."
	}
	fset := token.NewFileSet()
	var rows []string
	for _, rel := range c04xFiles {
		path := filepath.Join(root, rel)
		file, err := parser.ParseFile(fset, path, nil, 0)
		if err != nil {
			t.Fatalf("%s: %v", rel, err)
		}
		pkg := c04xPkgConsts(fset, filepath.Dir(path))
		for _, d := range file.Decls {
			fd, ok := d.(*ast.FuncDecl)
			if !ok || fd.Body == nil {
				continue
			}
			local := c04xConsts{}
			// a variable (not a constant) of the same name shadows: anything assigned or declared with var
			// in the function is not a constant
			shadow := map[string]bool{}
			ast.Inspect(fd, func(n ast.Node) bool {
				switch s := n.(type) {
				case *ast.DeclStmt:
					if gd, ok := s.Decl.(*ast.GenDecl); ok {
						if gd.Tok == token.CONST {
							c04xAddConsts(local, gd)
						} else if gd.Tok == token.VAR {
							for _, sp := range gd.Specs {
								if vs, ok := sp.(*ast.ValueSpec); ok {
									for _, nm := range vs.Names {
										shadow[nm.Name] = true
									}
								}
							}
						}
					}
				case *ast.AssignStmt:
					for _, l := range s.Lhs {
						if id, ok := l.(*ast.Ident); ok {
							shadow[id.Name] = true
						}
					}
				case *ast.Field:
					for _, nm := range s.Names {
						shadow[nm.Name] = true
					}
				}
				return true
			})
			ast.Inspect(fd, func(n ast.Node) bool {
				c, ok := n.(*ast.CallExpr)
				if !ok {
					return true
				}
				sel, ok := c.Fun.(*ast.SelectorExpr)
				if !ok || sel.Sel.Name != "SetLinger" {
					return true
				}
				where := filepath.Base(rel) + ":" + fd.Name.Name
				val := "none"
				if len(c.Args) == 1 {
					usesShadowed := false
					ast.Inspect(c.Args[0], func(m ast.Node) bool {
						if id, ok := m.(*ast.Ident); ok && shadow[id.Name] {
							usesShadowed = true
						}
						return true
					})
					if v, ok := c04xEval(c.Args[0], local, pkg, 0); ok && !usesShadowed {
						val = fmt.Sprintf("some (%d)", v)
					}
				}
				rows = append(rows, fmt.Sprintf("(%q, %s)", where, val))
				return true
			})
		}
	}
	sort.Strings(rows)
	var b strings.Builder
	b.WriteString("/-! GENERATED on every run by go/harness/C04/zz_verif_c04_close_extract_test.go from the files of the relay path of the\ntree under check (" + strings.Join(c04xFiles, ", ") + "): every `SetLinger(arg)` call, the function it\nstands in, and the value of `arg` in seconds (`none`: not an integer constant expression).  Do not edit. -/\n")
	b.WriteString("namespace CJ.Gen\n\n")
	b.WriteString("def closeLingerCalls : List (String × Option Int) := [\n")
	for i, r := range rows {
		b.WriteString("  " + r)
		if i+1 < len(rows) {
			b.WriteString(",")
		}
		b.WriteString("\n")
	}
	b.WriteString("]\n\nend CJ.Gen\n")
	out := os.Getenv("VERIF_OUT")
	if out == "" {
		out = os.TempDir()
	}
	if err := os.WriteFile(filepath.Join(out, "RelayClose.lean"), []byte(b.String()), 0o644); err != nil {
		t.Fatal(err)
	}
}
