//go:build verif

package main

// C04 — histories of connections on ONE station (CJ/Model/ConnStation.lean, `connseq|…` lines).
//
// A sequence is 2-6 connections served one after the other by the real handleNewTCPConn of one station:
// probers that send garbage (short: nothing is ruled out; 40-300 bytes: min and prefix rule themselves out;
// more than 8192: every transport does and the handler discards), connections to a phantom without
// registrations, and registered min / prefix clients (real client transports, first flight cut at random
// places, early data of 0 … 9000 bytes so that single segments exceed the handler's 4096-byte buffer).
// The last connection of every sequence is a registered client.
//
// Oracle (own bookkeeping): every registered client of the sequence is recognised as itself, marked used,
// the covert receives exactly its application bytes and the client the echo — whatever came before it; and
// the station's set of wrapping transports (keys of GetWrappingTransports()) is the same after every
// connection. Correspondence: the segments and observed verdicts of every connection go to
// ConnStation.run, which serves each on the station's full set and splits segments at the regenerated
// buffer length; its traces and station sets are compared with the observed ones.

import (
	"bytes"
	"fmt"
	"os"
	"sort"
	"strconv"
	"strings"
	"sync"
	"testing"
	"time"

	"github.com/refraction-networking/conjure/internal/vlib"
)

type c04Step struct {
	kind   string // g garbage prober | n phantom without registrations | c registered client
	n      int    // g: number of garbage bytes
	end    string // g, n: how the peer ends: eof rst to
	client int    // c
	early  int
	cuts   []int
	later  []int
	seed   uint64
}

func (s c04Step) String() string {
	switch s.kind {
	case "c":
		return fmt.Sprintf("c.%d.%d.%s.%s.%d", s.client, s.early, c04Dots(s.cuts), c04Dots(s.later), s.seed)
	default:
		return fmt.Sprintf("%s.%d.%s.%d", s.kind, s.n, s.end, s.seed)
	}
}

func c04Dots(l []int) string {
	if len(l) == 0 {
		return "-"
	}
	p := make([]string, len(l))
	for i, x := range l {
		p[i] = strconv.Itoa(x)
	}
	return strings.Join(p, "_")
}

func c04Undots(s string) []int {
	if s == "-" || s == "" {
		return nil
	}
	var out []int
	for _, f := range strings.Split(s, "_") {
		x, _ := strconv.Atoi(f)
		out = append(out, x)
	}
	return out
}

func c04ParseStep(s string) (c04Step, error) {
	f := strings.Split(s, ".")
	switch {
	case len(f) == 6 && f[0] == "c":
		st := c04Step{kind: "c", cuts: c04Undots(f[3]), later: c04Undots(f[4])}
		st.client, _ = strconv.Atoi(f[1])
		st.early, _ = strconv.Atoi(f[2])
		st.seed, _ = strconv.ParseUint(f[5], 10, 64)
		return st, nil
	case len(f) == 4 && (f[0] == "g" || f[0] == "n"):
		st := c04Step{kind: f[0], end: f[2]}
		st.n, _ = strconv.Atoi(f[1])
		st.seed, _ = strconv.ParseUint(f[3], 10, 64)
		return st, nil
	}
	return c04Step{}, fmt.Errorf("bad step %q", s)
}

func c04StationSet(w *c34World) string {
	var ks []int
	for k := range w.rm.GetWrappingTransports() {
		ks = append(ks, int(k))
	}
	sort.Ints(ks)
	p := make([]string, len(ks))
	for i, k := range ks {
		p[i] = strconv.Itoa(k)
	}
	return strings.Join(p, ",")
}

// c04SeqConn turns a canonical single-connection model line (conn|geo|count|tids|events|passes) and the
// segments that were scripted into the connection field of a connseq line
func c04SeqConn(modelLine, segments string) string {
	f := strings.Split(modelLine, "|")
	if len(f) != 6 {
		return "?"
	}
	return f[1] + "~" + f[2] + "~" + segments + "~" + f[5]
}

// c04RunSeq serves the steps one after the other on w and evaluates the oracle. Returns false when the
// world must not be used again (an oracle failure or a hung handler).
func c04RunSeq(out *vlib.Out, w *c34World, clients []*c34Reg, wi int, steps []c04Step) (bool, error) {
	var specs []string
	for _, s := range steps {
		specs = append(specs, s.String())
	}
	rp := fmt.Sprintf("c04seq|seed=%d|world=%d|steps=%s", vlib.Seed(), wi, strings.Join(specs, "/"))
	clean := true
	fail := func(sig, what string) {
		clean = false
		c04FailMu.Lock()
		c04Fails = append(c04Fails, sig+" — "+what)
		c04FailMu.Unlock()
		out.OracleFail(sig, what+" (sequence "+strings.Join(specs, " / ")+")", rp)
	}
	own0 := c04StationSet(w)
	if own0 != c04SortedInts(w.tids) {
		fail("C04:history:station-transports-changed", fmt.Sprintf("before the sequence the station offers transports {%s}, it was set up with {%s}", own0, c04SortedInts(w.tids)))
		return false, nil
	}
	var conns, impls []string
	for si, s := range steps {
		var canon c34Canon
		var segs string
		switch s.kind {
		case "c":
			reg := clients[s.client]
			j := &c04Job{client: s.client, mode: "script", early: s.early, cuts: s.cuts, later: s.later, seed: s.seed, world: wi}
			total := j.early
			for _, n := range j.later {
				total += n
			}
			app := c04AppData(j.seed, total)
			res, err := c04RunScript(w, reg, j, app)
			if err != nil {
				return false, err
			}
			canon, segs = res.canon, j.script
			out.Checked()
			tn := reg.tname()
			after := fmt.Sprintf("connection %d of the sequence, client %d (%s prefix=%d phantom=%s)", si+1, s.client, tn, reg.prefixID, reg.phantom)
			switch {
			case res.hung:
				fail("C04:history:"+tn+":handler-hung", after+": "+res.handlerErr)
				return false, nil
			case res.handlerErr != "":
				fail("C04:history:"+tn+":handler", after+": "+res.handlerErr)
			case res.canon.found < 0:
				fail("C04:history:"+tn+":not-recognised", after+": no transport found the client's registration")
			case res.canon.found != reg.idx:
				fail("C04:history:"+tn+":wrong-registration", fmt.Sprintf("%s: matched registration %d, the client's is %d", after, res.canon.found, reg.idx))
			default:
				if !res.exists || !res.used {
					fail("C04:history:"+tn+":not-marked-used", fmt.Sprintf("%s: timeout record exists=%v used=%v", after, res.exists, res.used))
				}
				if !bytes.Equal(res.covertGot, app) {
					fail("C04:history:"+tn+":covert-bytes-differ", after+": "+c04Diff(res.covertGot, app))
				}
				if !bytes.Equal(res.clientGot, app) {
					fail("C04:history:"+tn+":reply-differs", after+": "+c04Diff(res.clientGot, app))
				}
			}
			out.Count("seq-step:client:" + tn)
			if s.early > 4096 {
				out.Count("seq-step:client:segment>buffer")
			}
		default:
			phantom := c34PhMany
			if s.kind == "n" {
				phantom = c34PhNone
			}
			g := vlib.NewRand(fmt.Sprintf("C04seq/garbage/%d", s.seed))
			var evs []c34Ev
			left := s.n
			for left > 0 {
				k := left
				if left > 1 && g.Chance(1, 2) {
					k = g.Range(1, left)
				}
				evs = append(evs, c34Ev{kind: "d", data: g.Bytes(k)})
				left -= k
			}
			evs = append(evs, c34Ev{kind: s.end})
			segs = c34EvString(evs)
			conn := newC34Scripted(evs, c34Peer(50123))
			run, done := w.start(conn, phantom, "ok")
			select {
			case <-done:
			case <-time.After(30 * time.Second):
				conn.Close()
				select {
				case <-done:
				case <-time.After(5 * time.Second):
					w.dead = "prober connection: handler never returned"
					fail("C04:history:handler-hung", fmt.Sprintf("connection %d of the sequence (%s): the handler did not return", si+1, s.String()))
					return false, nil
				}
			}
			canon = w.canon(run)
			out.Count("seq-step:" + map[string]string{"g": "garbage", "n": "no-registration-phantom"}[s.kind])
			switch {
			case s.kind == "g" && s.n > 8192:
				out.Count("seq-step:garbage:rules-out-every-transport")
			case s.kind == "g" && s.n >= 100:
				out.Count("seq-step:garbage:rules-out-min-and-prefix")
			}
		}
		own := c04StationSet(w)
		out.Checked()
		if own != own0 {
			fail("C04:history:station-transports-changed", fmt.Sprintf("after connection %d the station offers transports {%s}, before the sequence {%s}", si+1, own, own0))
		}
		conns = append(conns, c04SeqConn(canon.modelLine, segs))
		impls = append(impls, canon.implOut+" own="+own)
	}
	out.Case("connseq|"+c04SortedInts(w.tids)+"|"+strings.Join(conns, "#"), strings.Join(impls, " # "), true)
	out.Count(fmt.Sprintf("seq-length:%d", len(steps)))
	return clean, nil
}

func c04SortedInts(l []int) string {
	c := append([]int(nil), l...)
	sort.Ints(c)
	p := make([]string, len(c))
	for i, x := range c {
		p[i] = strconv.Itoa(x)
	}
	return strings.Join(p, ",")
}

func c04SeqWorld(wi int) (*c34World, []*c34Reg, error) {
	w, err := newC34World(fmt.Sprintf("C04seq/%d", wi), fmt.Sprintf("127.0.1.%d", 1+wi))
	if err != nil {
		return nil, nil, err
	}
	clients, err := w.populate()
	return w, clients, err
}

func TestVerifC04Seq(t *testing.T) {
	out := vlib.Open("C04seq")
	defer out.Close()
	restore := c34Silence()
	defer restore()
	if rp := vlib.Replay(); rp != "" {
		lines, err := c34ReplayLines(rp, "c04seq")
		if err != nil {
			t.Fatal(err)
		}
		for _, m := range lines {
			os.Setenv("VERIF_SEED", m["seed"])
			wi, _ := strconv.Atoi(m["world"])
			w, clients, err := c04SeqWorld(wi)
			if err != nil {
				t.Fatal(err)
			}
			var steps []c04Step
			for _, f := range strings.Split(m["steps"], "/") {
				s, err := c04ParseStep(f)
				if err != nil {
					t.Fatal(err)
				}
				if s.kind == "c" && s.client >= len(clients) {
					t.Fatalf("replay: client %d out of range", s.client)
				}
				steps = append(steps, s)
			}
			if _, err := c04RunSeq(out, w, clients, wi, steps); err != nil {
				t.Fatal(err)
			}
			fmt.Fprintf(os.Stderr, "REPLAY c04seq world=%d steps=%s\n", wi, m["steps"])
		}
		if len(c04Fails) == 0 {
			fmt.Fprintln(os.Stderr, "REPLAY c04seq: the property held on every replayed sequence")
		}
		for _, f := range c04Fails {
			fmt.Fprintln(os.Stderr, "REPLAY c04seq ORACLE FAILURE:", f)
		}
		return
	}
	out.Note("C04seq: histories of 2-6 connections on one station (garbage probers, phantoms without registrations, registered min / prefix clients); a station on which an oracle failed is replaced by a fresh one with the same registrations, so that every reported sequence starts from a clean station")
	nW := 4
	type seq struct{ steps []c04Step }
	jobs := make(chan seq, 64)
	errs := make(chan error, nW)
	var wg sync.WaitGroup
	probe, pclients, err := c04SeqWorld(0)
	if err != nil {
		t.Fatal(err)
	}
	for wi := 0; wi < nW; wi++ {
		wg.Add(1)
		go func(wi int) {
			defer wg.Done()
			w, clients := probe, pclients
			var err error
			if wi > 0 {
				if w, clients, err = c04SeqWorld(wi); err != nil {
					errs <- err
					for range jobs {
					}
					return
				}
			}
			retired := 0
			for s := range jobs {
				if retired >= 3 {
					out.Count("skipped:three-stations-of-this-worker-retired-after-oracle-failures")
					continue
				}
				ok, err := c04RunSeq(out, w, clients, wi, s.steps)
				if err != nil {
					errs <- err
					for range jobs {
					}
					return
				}
				if !ok {
					retired++
					if w, clients, err = c04SeqWorld(wi); err != nil {
						errs <- err
						for range jobs {
						}
						return
					}
				}
			}
		}(wi)
	}
	r := vlib.NewRand("C04seq")
	var simple []int // min and prefix clients (script carrier), on the many-phantom and alone
	var minC, prefC []int
	for i, c := range pclients {
		switch c.tname() {
		case "min":
			minC = append(minC, i)
			simple = append(simple, i)
		case "prefix":
			prefC = append(prefC, i)
			simple = append(simple, i)
		}
	}
	pick := func() int { // a third of the clients are min clients (there are far fewer of them than prefix variants)
		if r.Chance(1, 3) {
			return minC[r.Intn(len(minC))]
		}
		return simple[r.Intn(len(simple))]
	}
	client := func(ci int) c04Step {
		fl := c04Flightlen(pclients[ci])
		if fl == 0 {
			fl = 32
		}
		s := c04Step{kind: "c", client: ci, seed: r.U64(), early: []int{0, 1, 13, 100, 1000, 4096, 5000, 9000}[r.Intn(8)]}
		for k := r.Intn(4); k > 0; k-- {
			s.cuts = append(s.cuts, r.Range(1, fl))
		}
		if r.Chance(1, 3) {
			s.later = []int{r.Range(0, 6000)}
		}
		return s
	}
	garbage := func() c04Step {
		return c04Step{kind: "g", n: []int{1, 20, 40, 100, 300, 5000, 8200, 9000}[r.Intn(8)], end: []string{"eof", "rst", "to"}[r.Intn(3)], seed: r.U64()}
	}
	// corpus: the histories in which a connection rules transports out before a client of those transports
	// connects
	jobs <- seq{[]c04Step{{kind: "g", n: 300, end: "eof", seed: 1}, client(minC[0])}}
	jobs <- seq{[]c04Step{{kind: "g", n: 300, end: "to", seed: 2}, client(prefC[0])}}
	jobs <- seq{[]c04Step{{kind: "g", n: 9000, end: "rst", seed: 3}, client(minC[1]), client(prefC[3])}}
	jobs <- seq{[]c04Step{client(prefC[5]), client(minC[0])}}                       // a prefix client rules min out (more than 32 bytes that are no identifier)
	jobs <- seq{[]c04Step{client(minC[0]), client(prefC[7]), client(minC[1])}}      // and the other way round
	jobs <- seq{[]c04Step{{kind: "n", n: 50, end: "eof", seed: 4}, client(minC[2])}} // no-registration phantom first
	jobs <- seq{[]c04Step{{kind: "c", client: minC[0], early: 9000, seed: 5}, {kind: "c", client: prefC[0], early: 9000, cuts: []int{1}, seed: 6}}}
	n := vlib.Budget(400, 2000)
	for i := 0; i < n; i++ {
		var steps []c04Step
		for k := r.Range(1, 5); k > 0; k-- {
			switch r.Intn(6) {
			case 0, 1:
				steps = append(steps, garbage())
			case 2:
				steps = append(steps, c04Step{kind: "n", n: r.Range(1, 200), end: []string{"eof", "rst", "to"}[r.Intn(3)], seed: r.U64()})
			default:
				steps = append(steps, client(pick()))
			}
		}
		steps = append(steps, client(pick()))
		jobs <- seq{steps}
	}
	close(jobs)
	wg.Wait()
	select {
	case err := <-errs:
		restore()
		t.Fatal(err)
	default:
	}
}
