//go:build verif

package lib

// Source facts for C04's "recognition depends on the connection alone" (CJ/Props/C04Station.lean):
//
//   - what every `return` of RegistrationManager.GetWrappingTransports returns (a map made in the call, a
//     field of the station, something else);
//   - how handleNewTCPConn binds and uses its candidate map `possibleTransports`;
//   - the length of the read buffer and the top-level statements of the body of the read loop.
//
// go/ast only, standard library only. Writes CJ/Gen/ConnCandidates.lean. Anything the extractor does not
// recognise becomes `.other` / `.unknown` / an escape, which fails source_getter_fresh or
// read_loop_offers_every_read.

import (
	"fmt"
	"go/ast"
	"go/parser"
	"go/token"
	"os"
	"path/filepath"
	"strconv"
	"strings"
	"testing"
)

func c04cFunc(file *ast.File, name string) *ast.FuncDecl {
	for _, d := range file.Decls {
		if fd, ok := d.(*ast.FuncDecl); ok && fd.Name.Name == name && fd.Body != nil {
			return fd
		}
	}
	return nil
}

func c04cExpr(e ast.Expr) string {
	switch t := e.(type) {
	case *ast.Ident:
		return t.Name
	case *ast.SelectorExpr:
		return c04cExpr(t.X) + "." + t.Sel.Name
	case *ast.CallExpr:
		return c04cExpr(t.Fun) + "()"
	case *ast.UnaryExpr:
		return t.Op.String() + c04cExpr(t.X)
	case *ast.SliceExpr:
		s := c04cExpr(t.X) + "["
		if t.Low != nil {
			s += c04cExpr(t.Low)
		}
		s += ":"
		if t.High != nil {
			s += c04cExpr(t.High)
		}
		return s + "]"
	case *ast.BasicLit:
		return t.Value
	}
	return "?"
}

// c04cGetterReturns classifies what each return statement of the getter returns.
func c04cGetterReturns(fd *ast.FuncDecl) []string {
	// locals bound by `x := make(map…)`, and how often each local is assigned as a whole
	madeBy := map[string]bool{}
	assigns := map[string]int{}
	ast.Inspect(fd.Body, func(n ast.Node) bool {
		switch s := n.(type) {
		case *ast.AssignStmt:
			for i, l := range s.Lhs {
				id, ok := l.(*ast.Ident)
				if !ok {
					continue
				}
				assigns[id.Name]++
				if s.Tok == token.DEFINE && len(s.Lhs) == len(s.Rhs) {
					if c, ok := s.Rhs[i].(*ast.CallExpr); ok {
						if f, ok := c.Fun.(*ast.Ident); ok && f.Name == "make" && len(c.Args) >= 1 {
							if _, ok := c.Args[0].(*ast.MapType); ok {
								madeBy[id.Name] = true
							}
						}
					}
				}
			}
		case *ast.RangeStmt:
			for _, l := range []ast.Expr{s.Key, s.Value} {
				if id, ok := l.(*ast.Ident); ok {
					assigns[id.Name]++
				}
			}
		case *ast.UnaryExpr:
			if s.Op == token.AND {
				if id, ok := s.X.(*ast.Ident); ok {
					assigns[id.Name] += 100 // address taken: could be rebound through the pointer
				}
			}
		}
		return true
	})
	var out []string
	ast.Inspect(fd.Body, func(n ast.Node) bool {
		if _, ok := n.(*ast.FuncLit); ok {
			return false
		}
		r, ok := n.(*ast.ReturnStmt)
		if !ok {
			return true
		}
		if len(r.Results) != 1 {
			out = append(out, ".other")
			return true
		}
		switch t := r.Results[0].(type) {
		case *ast.Ident:
			if madeBy[t.Name] && assigns[t.Name] == 1 {
				out = append(out, ".makeLocal")
			} else {
				out = append(out, ".other")
			}
		case *ast.SelectorExpr:
			out = append(out, ".field")
		default:
			out = append(out, ".other")
		}
		return true
	})
	return out
}

// containsBranch: a return / break / continue / goto anywhere inside
func c04cContainsBranch(n ast.Node) bool {
	found := false
	ast.Inspect(n, func(m ast.Node) bool {
		switch m.(type) {
		case *ast.ReturnStmt, *ast.BranchStmt:
			found = true
		}
		return !found
	})
	return found
}

// everyPathReturns: the block's last statement is a return, or an if/else chain whose every arm does
func c04cEndsInReturn(b *ast.BlockStmt) bool {
	if b == nil || len(b.List) == 0 {
		return false
	}
	switch s := b.List[len(b.List)-1].(type) {
	case *ast.ReturnStmt:
		return true
	case *ast.IfStmt:
		for {
			if !c04cEndsInReturn(s.Body) {
				return false
			}
			switch e := s.Else.(type) {
			case *ast.BlockStmt:
				return c04cEndsInReturn(e)
			case *ast.IfStmt:
				s = e
			default:
				return false
			}
		}
	}
	return false
}

// harmless: no branch inside; buf / clientConn not mentioned; received only as received.Len();
// possibleTransports only as len(possibleTransports); n, err not assigned
func c04cHarmless(s ast.Stmt, cand string) bool {
	if c04cContainsBranch(s) {
		return false
	}
	ok := true
	allowed := map[*ast.Ident]bool{}
	ast.Inspect(s, func(m ast.Node) bool {
		switch t := m.(type) {
		case *ast.CallExpr:
			if sel, isSel := t.Fun.(*ast.SelectorExpr); isSel && sel.Sel.Name == "Len" && len(t.Args) == 0 {
				if id, isID := sel.X.(*ast.Ident); isID && id.Name == "received" {
					allowed[id] = true
				}
			}
			if f, isID := t.Fun.(*ast.Ident); isID && f.Name == "len" && len(t.Args) == 1 {
				if id, isID := t.Args[0].(*ast.Ident); isID && id.Name == cand {
					allowed[id] = true
				}
			}
		case *ast.AssignStmt:
			for _, l := range t.Lhs {
				if id, isID := l.(*ast.Ident); isID && (id.Name == "n" || id.Name == cand || id.Name == "received" || id.Name == "buf") {
					ok = false
				}
			}
		}
		return true
	})
	ast.Inspect(s, func(m ast.Node) bool {
		if id, isID := m.(*ast.Ident); isID && !allowed[id] {
			switch id.Name {
			case "buf", "clientConn", "received", cand:
				ok = false
			}
		}
		return true
	})
	return ok
}

func c04cLoopStmt(s ast.Stmt, cand string) string {
	switch t := s.(type) {
	case *ast.IfStmt:
		cond := ""
		if b, ok := t.Cond.(*ast.BinaryExpr); ok {
			cond = c04cExpr(b.X) + b.Op.String() + c04cExpr(b.Y)
		}
		if t.Init == nil && cond == "len()<1" && t.Else == nil && c04cEndsInReturn(t.Body) {
			if c, ok := t.Cond.(*ast.BinaryExpr).X.(*ast.CallExpr); ok && len(c.Args) == 1 && c04cExpr(c.Args[0]) == cand {
				return ".exhaustedCheck"
			}
		}
		if t.Init == nil && cond == "err!=nil" && t.Else == nil && c04cEndsInReturn(t.Body) {
			return ".errReturn"
		}
	case *ast.AssignStmt:
		if len(t.Lhs) == 2 && len(t.Rhs) == 1 && c04cExpr(t.Lhs[0]) == "n" && c04cExpr(t.Lhs[1]) == "err" {
			if c, ok := t.Rhs[0].(*ast.CallExpr); ok && c04cExpr(c.Fun) == "clientConn.Read" && len(c.Args) == 1 {
				return fmt.Sprintf(".read %v", c04cExpr(c.Args[0]) == "buf[:]")
			}
		}
	case *ast.ExprStmt:
		if c, ok := t.X.(*ast.CallExpr); ok && c04cExpr(c.Fun) == "received.Write" && len(c.Args) == 1 {
			return fmt.Sprintf(".append %v", c04cExpr(c.Args[0]) == "buf[:n]")
		}
	case *ast.LabeledStmt:
		return c04cLoopStmt(t.Stmt, cand)
	case *ast.RangeStmt:
		if c04cExpr(t.X) == cand {
			// the first statement of the body offers the buffer and the connection to the transport
			if len(t.Body.List) > 0 {
				if a, ok := t.Body.List[0].(*ast.AssignStmt); ok && len(a.Rhs) == 1 {
					if c, ok := a.Rhs[0].(*ast.CallExpr); ok && strings.HasSuffix(c04cExpr(c.Fun), ".WrapConnection") &&
						len(c.Args) >= 2 && c04cExpr(c.Args[0]) == "&received" && c04cExpr(c.Args[1]) == "clientConn" {
						return ".offer"
					}
				}
			}
		}
		return ".unknown"
	}
	if c04cHarmless(s, cand) {
		return ".other"
	}
	return ".unknown"
}

func TestVerifC04CandExtract(t *testing.T) {
	root := os.Getenv("VERIF_SCRATCH_REPO")
	if root == "" {
		root = "../../.."
	}
	fset := token.NewFileSet()
	regFile, err := parser.ParseFile(fset, filepath.Join(root, "pkg/station/lib/registration.go"), nil, 0)
	if err != nil {
		t.Fatal(err)
	}
	connFile, err := parser.ParseFile(fset, filepath.Join(root, "cmd/application/conns.go"), nil, 0)
	if err != nil {
		t.Fatal(err)
	}
	getter := c04cFunc(regFile, "GetWrappingTransports")
	handler := c04cFunc(connFile, "handleNewTCPConn")
	if getter == nil || handler == nil {
		t.Fatal("GetWrappingTransports / handleNewTCPConn not found")
	}
	rets := c04cGetterReturns(getter)

	// the handler's candidate map: the variable ranged over by the loop that calls WrapConnection
	cand := ""
	ast.Inspect(handler.Body, func(n ast.Node) bool {
		if r, ok := n.(*ast.RangeStmt); ok && cand == "" {
			calls := false
			ast.Inspect(r.Body, func(m ast.Node) bool {
				if c, ok := m.(*ast.CallExpr); ok && strings.HasSuffix(c04cExpr(c.Fun), ".WrapConnection") {
					calls = true
				}
				return true
			})
			if id, ok := r.X.(*ast.Ident); ok && calls {
				cand = id.Name
			}
		}
		return true
	})
	if cand == "" {
		t.Fatal("no range loop over an identifier that calls WrapConnection")
	}
	var binds []string
	deletes, escapes := 0, 0
	accounted := map[*ast.Ident]bool{}
	ast.Inspect(handler.Body, func(n ast.Node) bool {
		switch s := n.(type) {
		case *ast.AssignStmt:
			for i, l := range s.Lhs {
				if id, ok := l.(*ast.Ident); ok && id.Name == cand {
					accounted[id] = true
					b := ".other"
					if len(s.Lhs) == len(s.Rhs) {
						if c, ok := s.Rhs[i].(*ast.CallExpr); ok && strings.HasSuffix(c04cExpr(c.Fun), ".GetWrappingTransports") && len(c.Args) == 0 {
							b = ".getterCall"
						}
					}
					binds = append(binds, b)
				}
			}
		case *ast.ValueSpec:
			for _, id := range s.Names {
				if id.Name == cand {
					accounted[id] = true
					binds = append(binds, ".other")
				}
			}
		case *ast.RangeStmt:
			if id, ok := s.X.(*ast.Ident); ok && id.Name == cand {
				accounted[id] = true
			}
		case *ast.CallExpr:
			if f, ok := s.Fun.(*ast.Ident); ok {
				if f.Name == "len" && len(s.Args) == 1 {
					if id, ok := s.Args[0].(*ast.Ident); ok && id.Name == cand {
						accounted[id] = true
					}
				}
				if f.Name == "delete" && len(s.Args) == 2 {
					if id, ok := s.Args[0].(*ast.Ident); ok && id.Name == cand {
						accounted[id] = true
						deletes++
					}
				}
			}
		}
		return true
	})
	ast.Inspect(handler.Body, func(n ast.Node) bool {
		if id, ok := n.(*ast.Ident); ok && id.Name == cand && !accounted[id] {
			escapes++
		}
		return true
	})

	// the read buffer and the loop body
	bufLen := int64(0)
	var loopBody *ast.BlockStmt
	ast.Inspect(handler.Body, func(n ast.Node) bool {
		switch s := n.(type) {
		case *ast.ValueSpec:
			for _, id := range s.Names {
				if id.Name == "buf" {
					if at, ok := s.Type.(*ast.ArrayType); ok && at.Len != nil {
						if bl, ok := at.Len.(*ast.BasicLit); ok && bl.Kind == token.INT {
							bufLen, _ = strconv.ParseInt(bl.Value, 0, 64)
						}
					}
				}
			}
		case *ast.LabeledStmt:
			if s.Label.Name == "readLoop" {
				if f, ok := s.Stmt.(*ast.ForStmt); ok && f.Init == nil && f.Cond == nil && f.Post == nil {
					loopBody = f.Body
				}
			}
		}
		return true
	})
	var stmts []string
	if loopBody != nil {
		for _, s := range loopBody.List {
			stmts = append(stmts, c04cLoopStmt(s, cand))
		}
	}

	var b strings.Builder
	b.WriteString("import CJ.Model.ConnStation\n/-! GENERATED on every run by go/harness/C04/zz_verif_c04_cand_extract_test.go from cmd/application/conns.go\n(handleNewTCPConn) and pkg/station/lib/registration.go (GetWrappingTransports) of the tree under check.  Do not edit. -/\n")
	b.WriteString("namespace CJ.Gen.ConnCandidates\nopen CJ.ConnStation\n\n")
	b.WriteString("/-- what each `return` of `GetWrappingTransports` returns -/\n")
	b.WriteString("def getterReturns : List MapSrc := [" + strings.Join(rets, ", ") + "]\n")
	b.WriteString("/-- every assignment to the handler's candidate map `" + cand + "` -/\n")
	b.WriteString("def candidateBinds : List CandBind := [" + strings.Join(binds, ", ") + "]\n")
	b.WriteString("/-- `delete(" + cand + ", …)` calls in the handler -/\n")
	b.WriteString(fmt.Sprintf("def candidateDeletes : Nat := %d\n", deletes))
	b.WriteString("/-- uses of `" + cand + "` other than `len(…)`, `range …`, `delete(…, _)` and its binding -/\n")
	b.WriteString(fmt.Sprintf("def candidateEscapes : Nat := %d\n", escapes))
	b.WriteString("/-- `var buf [N]byte` -/\n")
	b.WriteString(fmt.Sprintf("def readBufLen : Nat := %d\n", bufLen))
	b.WriteString("/-- top-level statements of the read loop's body, in source order -/\n")
	b.WriteString("def readLoopBody : List RStmt := [\n")
	for i, s := range stmts {
		b.WriteString("  " + s)
		if i+1 < len(stmts) {
			b.WriteString(",")
		}
		b.WriteString("\n")
	}
	b.WriteString("]\n\nend CJ.Gen.ConnCandidates\n")
	out := os.Getenv("VERIF_OUT")
	if out == "" {
		out = os.TempDir()
	}
	if err := os.WriteFile(filepath.Join(out, "ConnCandidates.lean"), []byte(b.String()), 0o644); err != nil {
		t.Fatal(err)
	}
}
