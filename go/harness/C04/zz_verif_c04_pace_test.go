//go:build verif

package main

// C04, consumption pace — "every application byte the client sends … reaches the covert destination
// exactly once and in order, and the covert's reply reaches the client likewise" must not depend on how
// fast the receiving end consumes, nor on how soon the sending end goes away after its last byte.
//
// End to end over real loopback TCP, through the real client transports, handleNewTCPConn (given the raw
// *net.TCPConn, as the accept loop does) and Proxy:
//
//   upload    the client writes flight + early data in one segment, then the rest of 48–384 KiB, and ends
//             its stream (Close right after the last byte / CloseWrite and wait for the station / Close after
//             a short while); the covert is a sink that starts reading at once, after a delay, or only when
//             the client is gone, and reads in sips (256 B … 32 KiB, optional pause), with a 4 KiB or the
//             default SO_RCVBUF;
//   download  the client sends a short request; the covert answers — at once, or 250 ms after the client's
//             transport has put the last byte belonging to the request on the wire — with 48–384 KiB
//             and ends its stream (Close at once / CloseWrite and wait); the client starts reading at once,
//             after a delay, or only when the covert is gone, in sips, with a 4 KiB or the default SO_RCVBUF.
//
// Oracle: everything the sender wrote before its orderly end of stream has arrived at the receiver, in
// order, by the time the receiver's read loop ends (EOF, reset or error).  No assertion on timing: every
// wait is bounded by a generous timeout whose expiry is itself reported (nothing arrives for half a minute).
//
// One input class has its own signature: an obfs4 download whose covert answers at once.  The obfs4 client
// (iat-mode 1, as the real client transport sets it) sends the padding that follows its request in pieces
// with pauses of up to 10 ms; when the covert has answered and closed before the last piece is out, the
// station — which closes the client connection as soon as the covert's stream ends — receives that piece
// on a closed socket, the kernel answers with a reset and drops the part of the reply it had not sent yet.

import (
	"bytes"
	"context"
	"errors"
	"fmt"
	"io"
	"net"
	"os"
	"strconv"
	"sync"
	"sync/atomic"
	"syscall"
	"testing"
	"time"

	"github.com/refraction-networking/conjure/internal/vlib"
	cj "github.com/refraction-networking/conjure/pkg/station/lib"
	"github.com/refraction-networking/conjure/pkg/transports/wrapping/prefix"
	pb "github.com/refraction-networking/conjure/proto"
)

type c04pPace struct {
	start   string // "now" | "delay" (a fixed short delay) | "peer" (when the sender is gone, plus a grace period)
	sip     int    // bytes asked for per Read
	pauseUs int    // pause after each Read
}

type c04pScn struct {
	dir    string // up | down
	tr     int    // 0 min, 1 prefix, 2 obfs4
	small  bool   // the receiver's SO_RCVBUF is 4096
	size   int    // bulk bytes
	early  int    // upload: bytes that share the first segment with the flight
	chunk  int    // sender's write size
	end    string // close | closewrite | linger
	think  int    // download: 0 = the covert answers as soon as it has the request; > 0 = it waits until the client's
	// transport has finished writing the request (padding included) and then that many milliseconds
	pace   c04pPace
	dseed  uint64
	origin string
}

func (s *c04pScn) replay() string {
	return fmt.Sprintf("c04pace|dir=%s|tr=%d|small=%s|size=%d|early=%d|chunk=%d|end=%s|think=%d|start=%s|sip=%d|pause=%d|dseed=%d",
		s.dir, s.tr, vlib.B(s.small), s.size, s.early, s.chunk, s.end, s.think, s.pace.start, s.pace.sip, s.pace.pauseUs, s.dseed)
}

func c04pParse(m map[string]string) (*c04pScn, error) {
	s := &c04pScn{origin: "replay"}
	geti := func(k string) int {
		v, _ := strconv.Atoi(m[k])
		return v
	}
	s.dir, s.tr, s.small, s.size, s.early, s.chunk, s.end = m["dir"], geti("tr"), m["small"] == "1", geti("size"), geti("early"), geti("chunk"), m["end"]
	s.think = geti("think")
	s.pace = c04pPace{start: m["start"], sip: geti("sip"), pauseUs: geti("pause")}
	d, _ := strconv.ParseUint(m["dseed"], 10, 64)
	s.dseed = d
	if (s.dir != "up" && s.dir != "down") || s.tr < 0 || s.tr > 2 || s.size <= 0 || s.pace.sip <= 0 || s.chunk <= 0 {
		return nil, fmt.Errorf("bad c04pace line %v", m)
	}
	return s, nil
}

// ---------------------------------------------------------------------------------------------
// paced reader (the covert of an upload, the client of a download)

const (
	c04pFallback = 1500 * time.Millisecond // "peer" start: the sender cannot finish while nobody reads and every buffer is full
	c04pGrace    = 400 * time.Millisecond  // after the sender is gone: let the station's tear-down reach the socket
	c04pDelay    = 150 * time.Millisecond
	c04pPatience = 30 * time.Second
)

func c04pDrain(c net.Conn, p c04pPace, peerGone <-chan struct{}) ([]byte, error) {
	switch p.start {
	case "peer":
		select {
		case <-peerGone:
		case <-time.After(c04pFallback):
		}
		time.Sleep(c04pGrace)
	case "delay":
		time.Sleep(c04pDelay)
	}
	buf := make([]byte, p.sip)
	var got []byte
	for {
		_ = c.SetReadDeadline(time.Now().Add(c04pPatience))
		n, err := c.Read(buf)
		got = append(got, buf[:n]...)
		if err != nil {
			return got, err
		}
		if p.pauseUs > 0 {
			time.Sleep(time.Duration(p.pauseUs) * time.Microsecond)
		}
	}
}

func c04pRcvbuf(small bool) func(network, address string, c syscall.RawConn) error {
	return func(network, address string, c syscall.RawConn) error {
		if !small {
			return nil
		}
		var serr error
		if err := c.Control(func(fd uintptr) {
			serr = syscall.SetsockoptInt(int(fd), syscall.SOL_SOCKET, syscall.SO_RCVBUF, 4096)
		}); err != nil {
			return err
		}
		return serr
	}
}

// ---------------------------------------------------------------------------------------------
// covert destination whose behaviour is set per connection

type c04pJob struct {
	scn      *c04pScn
	peerGone chan struct{} // upload: closed when the client has ended its stream
	reqLen   int           // download: bytes to wait for before answering
	reply    []byte
	gone     chan struct{} // download: closed when the covert has ended its stream
	reqOut   chan struct{} // download: closed when the client's Write of the request has returned
	got      []byte
	endErr   error
	wrote    int
	werr     error
	done     chan struct{}
}

type c04pCovert struct {
	ln   net.Listener
	addr string
	mu   sync.Mutex
	next *c04pJob
}

func newC04pCovert(small bool) (*c04pCovert, error) {
	lc := net.ListenConfig{Control: c04pRcvbuf(small)}
	ln, err := lc.Listen(context.Background(), "tcp4", "127.0.0.1:0")
	if err != nil {
		return nil, err
	}
	cv := &c04pCovert{ln: ln, addr: ln.Addr().String()}
	go func() {
		for {
			c, err := ln.Accept()
			if err != nil {
				return
			}
			cv.mu.Lock()
			j := cv.next
			cv.next = nil
			cv.mu.Unlock()
			if j == nil {
				c.Close()
				continue
			}
			go j.serve(c)
		}
	}()
	return cv, nil
}

func (j *c04pJob) serve(c net.Conn) {
	defer close(j.done)
	defer c.Close()
	if j.scn.dir == "up" {
		j.got, j.endErr = c04pDrain(c, j.scn.pace, j.peerGone)
		return
	}
	// download: the request, then the reply, then the end of the stream
	req := make([]byte, j.reqLen)
	_ = c.SetDeadline(time.Now().Add(c04pPatience))
	n, err := io.ReadFull(c, req)
	j.got = req[:n]
	if err != nil {
		j.endErr = err
		close(j.gone)
		return
	}
	if j.scn.think > 0 {
		// not a timing assumption about the client: wait for its Write to have returned, then leave the
		// station ample time to take those bytes off its socket
		select {
		case <-j.reqOut:
		case <-time.After(c04pPatience):
		}
		time.Sleep(time.Duration(j.scn.think) * time.Millisecond)
	}
	for off := 0; off < len(j.reply); off += j.scn.chunk {
		end := off + j.scn.chunk
		if end > len(j.reply) {
			end = len(j.reply)
		}
		_ = c.SetWriteDeadline(time.Now().Add(c04pPatience))
		m, err := c.Write(j.reply[off:end])
		j.wrote += m
		if err != nil {
			j.werr = err
			break
		}
	}
	switch j.scn.end {
	case "closewrite":
		_ = c.(*net.TCPConn).CloseWrite()
		close(j.gone)
		_ = c.SetReadDeadline(time.Now().Add(c04pPatience))
		_, _ = io.Copy(io.Discard, c) // until the station closes
	case "linger":
		time.Sleep(c04pDelay)
		c.Close()
		close(j.gone)
	default:
		c.Close()
		close(j.gone)
	}
}

// ---------------------------------------------------------------------------------------------
// world: one registration per (transport, covert flavour)

type c04pWorld struct {
	w       *c34World
	coverts [2]*c04pCovert // [0] default receive buffer, [1] 4 KiB
	regs    [3][2]*c34Reg
}

func newC04pWorld(i int) (*c04pWorld, error) {
	w, err := newC34World(fmt.Sprintf("C04pace/%d", i), "")
	if err != nil {
		return nil, err
	}
	pw := &c04pWorld{w: w}
	for k := 0; k < 2; k++ {
		if pw.coverts[k], err = newC04pCovert(k == 1); err != nil {
			return nil, err
		}
	}
	n := 0
	for tr, tt := range []pb.TransportType{pb.TransportType_Min, pb.TransportType_Prefix, pb.TransportType_Obfs4} {
		for k := 0; k < 2; k++ {
			w.covert = &c34Covert{addr: pw.coverts[k].addr} // addReg reads the covert address from here
			pid := c34PrefixIDs[(i*3+k)%len(c34PrefixIDs)]
			r, err := w.addReg(tt, pid, prefix.DefaultFlush, false, c34PhOne(n), true, w.newSecret())
			if err != nil {
				return nil, err
			}
			pw.regs[tr][k] = r
			n++
		}
	}
	w.covert = nil
	return pw, nil
}

// pair: client end (with the wanted receive buffer) and station end of a fresh loopback connection
func c04pPair(small bool) (net.Conn, net.Conn, error) {
	ln, err := net.Listen("tcp4", "127.0.0.1:0")
	if err != nil {
		return nil, nil, err
	}
	defer ln.Close()
	d := net.Dialer{Control: c04pRcvbuf(small), Timeout: 10 * time.Second}
	a, err := d.Dial("tcp4", ln.Addr().String())
	if err != nil {
		return nil, nil, err
	}
	b, err := ln.Accept()
	if err != nil {
		a.Close()
		return nil, nil, err
	}
	return a, b, nil
}

type c04pRes struct {
	want, got []byte
	endErr    error  // how the receiver's read loop ended
	senderErr string // the sender could not write everything / end its stream in order
	setupErr  string
	handler   string
	timedOut  string
}

func (pw *c04pWorld) run(s *c04pScn) *c04pRes {
	res := &c04pRes{}
	w := pw.w
	k := 0
	if s.dir == "up" && s.small {
		k = 1
	}
	reg := pw.regs[s.tr][k]
	app := c04AppData(s.dseed, s.size)
	job := &c04pJob{scn: s, peerGone: make(chan struct{}), gone: make(chan struct{}), reqOut: make(chan struct{}), done: make(chan struct{})}
	req := c04AppData(s.dseed+1, 64)
	if s.dir == "down" {
		job.reqLen, job.reply = len(req), app
	}
	pw.coverts[k].mu.Lock()
	pw.coverts[k].next = job
	pw.coverts[k].mu.Unlock()

	a, b, err := c04pPair(s.dir == "down" && s.small)
	if err != nil {
		res.setupErr = "pair: " + err.Error()
		return res
	}
	defer b.Close() // what handleNewConn's deferred Close does
	ct, err := w.clientTransport(reg, -2)
	if err != nil {
		a.Close()
		res.setupErr = "client transport: " + err.Error()
		return res
	}
	conn := newC34Real(b, c34Peer(50123))
	cj.VerifC34ResetUnused(w.rm, reg.reg)
	_, done := w.startOn(b, conn, reg.phantom, "ok")

	res.want = app
	var clientGot []byte
	var clientEnd error
	cdone := make(chan struct{})
	go func() {
		defer close(cdone)
		defer a.Close()
		_ = a.SetWriteDeadline(time.Now().Add(c04pPatience))
		var under net.Conn = a
		var seg *c04SegConn
		if s.tr != 2 {
			seg = &c04SegConn{Conn: a, hold: true} // flight and early data leave in one segment
			under = seg
		}
		wrapped, err := ct.WrapConn(under)
		if err != nil {
			res.senderErr = "wrap: " + c34ErrKind(err)
			close(job.peerGone)
			close(job.reqOut)
			return
		}
		write := func(p []byte) bool {
			_ = a.SetWriteDeadline(time.Now().Add(c04pPatience))
			if _, err := wrapped.Write(p); err != nil {
				res.senderErr = "write: " + err.Error()
				return false
			}
			return true
		}
		first := req
		if s.dir == "up" {
			first = app[:s.early]
		}
		ok := len(first) == 0 || write(first)
		if seg != nil {
			seg.flight = len(seg.buf)
			if err := seg.flush(); err != nil {
				res.senderErr = "flush: " + err.Error()
				ok = false
			}
		}
		if s.dir == "down" {
			close(job.reqOut)
			// paced reading of the reply, until the stream ends
			clientGot, clientEnd = c04pDrain(c04pDeadliner{wrapped, a}, s.pace, job.gone)
			return
		}
		for off := s.early; ok && off < len(app); off += s.chunk {
			end := off + s.chunk
			if end > len(app) {
				end = len(app)
			}
			ok = write(app[off:end])
		}
		switch s.end {
		case "closewrite":
			if err := a.(*net.TCPConn).CloseWrite(); err != nil && res.senderErr == "" {
				res.senderErr = "closewrite: " + err.Error()
			}
			close(job.peerGone)
			_ = a.SetReadDeadline(time.Now().Add(c04pPatience))
			_, _ = io.Copy(io.Discard, a) // until the station closes its side
		case "linger":
			time.Sleep(c04pDelay)
			a.Close()
			close(job.peerGone)
		default:
			a.Close()
			close(job.peerGone)
		}
	}()

	wait := func(ch <-chan struct{}, what string) bool {
		select {
		case <-ch:
			return true
		case <-time.After(c04pPatience + 15*time.Second):
			if res.timedOut == "" {
				res.timedOut = what
			}
			return false
		}
	}
	if !wait(cdone, "the client side did not finish") {
		a.Close()
	}
	if !wait(job.done, "the covert side did not finish") {
		pw.coverts[k].mu.Lock()
		pw.coverts[k].next = nil
		pw.coverts[k].mu.Unlock()
	}
	select {
	case <-done:
	case <-time.After(40 * time.Second):
		res.handler = "handler did not return within 40 s after both ends were done"
		b.Close()
		select {
		case <-done:
		case <-time.After(5 * time.Second):
			res.handler = "handler blocked for good: " + c04HandlerStack()
			w.dead = res.handler
		}
	}
	if s.dir == "up" {
		res.got, res.endErr = job.got, job.endErr
	} else {
		res.got, res.endErr = clientGot, clientEnd
		if job.werr != nil || job.wrote != len(app) {
			res.senderErr = fmt.Sprintf("covert wrote %d of %d bytes: %v", job.wrote, len(app), job.werr)
		}
		if !bytes.Equal(job.got, req) && res.senderErr == "" {
			res.senderErr = fmt.Sprintf("covert received %d of the %d request bytes: %v", len(job.got), len(req), job.endErr)
		}
	}
	return res
}

// c04pDeadliner reads through the transport's connection and sets read deadlines on the socket under it
// (the obfs4 client connection does not take deadlines).
type c04pDeadliner struct {
	net.Conn
	sock net.Conn
}

func (d c04pDeadliner) SetReadDeadline(t time.Time) error { return d.sock.SetReadDeadline(t) }

func c04pEnd(err error) string {
	switch {
	case err == nil:
		return "none"
	case errors.Is(err, io.EOF):
		return "eof"
	case errors.Is(err, syscall.ECONNRESET):
		return "reset"
	case errors.Is(err, os.ErrDeadlineExceeded):
		return "nothing-for-half-a-minute"
	case errors.Is(err, net.ErrClosed):
		return "closed"
	}
	return "error"
}

func c04pCheck(out *vlib.Out, s *c04pScn, res *c04pRes) {
	tn := []string{"min", "prefix", "obfs4"}[s.tr]
	fail := func(what, detail string) {
		c04pFailed.Add(1)
		out.OracleFail("C04:"+what, fmt.Sprintf("%s: %s (%s %s of %d bytes, receiver starts %q, reads %d bytes at a time pausing %d µs, small receive buffer %v, sender ends with %q)",
			what, detail, tn, s.dir, s.size, s.pace.start, s.pace.sip, s.pace.pauseUs, s.small, s.end), s.replay())
	}
	out.Checked()
	out.Count("pace:" + s.dir + ":" + tn)
	out.Count("pace:start-" + s.pace.start)
	out.Count("pace:end-" + s.end)
	out.Count("pace:receiver-saw-" + c04pEnd(res.endErr))
	if s.dir == "down" {
		out.Count(fmt.Sprintf("pace:covert-thinks-%dms", s.think))
	}
	if s.small {
		out.Count("pace:small-receive-buffer")
	}
	switch {
	case res.setupErr != "":
		// the harness could not set the case up (no socket …): not an observation about the relay
		out.Count("pace:setup-failed")
		out.Note("C04pace: setup failed: " + res.setupErr)
		return
	case res.handler != "":
		fail("handler-hung", res.handler)
		return
	}
	what := "upload-tail-lost"
	who := "covert"
	if s.dir == "down" {
		what, who = "reply-tail-lost", "client"
		if s.tr == 2 && s.think == 0 {
			// the class described at the top of the file: the covert may be gone before the obfs4 client has
			// sent the last piece of the padding of its request
			what = "obfs4:reply-tail-lost:covert-closes-while-client-padding-in-flight"
		}
	}
	if res.senderErr != "" && !bytes.Equal(res.got, res.want) {
		// the sender itself was cut off: what it managed to write is unknown; still a failed transfer
		fail(what, fmt.Sprintf("the sender was cut off (%s); the %s received %d of %d bytes, its read loop ended with %q (%v)", res.senderErr, who, len(res.got), len(res.want), c04pEnd(res.endErr), res.endErr))
		return
	}
	if !bytes.Equal(res.got, res.want) {
		d := c04Diff(res.got, res.want)
		fail(what, fmt.Sprintf("everything was written and the stream ended in order, yet the %s received %d of %d bytes before its read loop ended with %q (%v); %s%s",
			who, len(res.got), len(res.want), c04pEnd(res.endErr), res.endErr, d, map[bool]string{true: "; " + res.timedOut, false: ""}[res.timedOut != ""]))
	}
}

// ---------------------------------------------------------------------------------------------
// generators

func c04pCorpus() []*c04pScn {
	var l []*c04pScn
	k := uint64(0)
	add := func(s c04pScn) {
		k++
		s.dseed = 1000 + k
		s.origin = "corpus"
		if s.chunk == 0 {
			s.chunk = 16 * 1024
		}
		l = append(l, &s)
	}
	for tr := 0; tr < 3; tr++ {
		// the echo-style baseline: a prompt reader
		add(c04pScn{dir: "up", tr: tr, size: 64 * 1024, early: 1000, end: "close", pace: c04pPace{"now", 32 * 1024, 0}})
		// a covert with a small window that reads only once the client is gone; the client leaves at once /
		// half-closes and waits / leaves a little later
		add(c04pScn{dir: "up", tr: tr, small: true, size: 64 * 1024, early: 1000, end: "closewrite", pace: c04pPace{"peer", 4096, 0}})
		add(c04pScn{dir: "up", tr: tr, small: true, size: 128 * 1024, early: 13, end: "close", pace: c04pPace{"peer", 1024, 50}})
		add(c04pScn{dir: "up", tr: tr, small: false, size: 256 * 1024, early: 0, end: "linger", pace: c04pPace{"peer", 32 * 1024, 0}})
		// a covert that sips while the upload is still arriving
		add(c04pScn{dir: "up", tr: tr, small: true, size: 96 * 1024, early: 4096, end: "close", pace: c04pPace{"delay", 512, 100}})
		// the same towards a slow client
		add(c04pScn{dir: "down", tr: tr, size: 64 * 1024, end: "close", pace: c04pPace{"now", 32 * 1024, 0}})
		add(c04pScn{dir: "down", tr: tr, small: true, size: 128 * 1024, end: "close", pace: c04pPace{"peer", 2048, 50}})
		add(c04pScn{dir: "down", tr: tr, small: true, size: 96 * 1024, end: "closewrite", pace: c04pPace{"delay", 700, 100}})
		// a covert that takes a moment to answer
		add(c04pScn{dir: "down", tr: tr, small: true, size: 128 * 1024, end: "close", think: 250, pace: c04pPace{"peer", 32 * 1024, 0}})
		add(c04pScn{dir: "down", tr: tr, small: false, size: 200000, end: "closewrite", think: 250, pace: c04pPace{"delay", 1024, 20}})
	}
	return l
}

func c04pRandom(r *vlib.Rand) *c04pScn {
	s := &c04pScn{origin: "random", dir: "up", tr: r.Intn(3), small: r.Chance(2, 3), dseed: r.U64() % 1000000}
	if r.Chance(1, 3) {
		s.dir = "down"
	}
	s.size = []int{48 * 1024, 64 * 1024, 100000, 128 * 1024, 200000, 256 * 1024, 384 * 1024}[r.Intn(7)]
	s.early = []int{0, 1, 13, 1000, 4096, 20000}[r.Intn(6)]
	if s.dir == "down" {
		s.early = 0
		if r.Chance(1, 2) {
			s.think = 250
		}
	}
	s.chunk = []int{1024, 4096, 16 * 1024, 32 * 1024, 1 << 20}[r.Intn(5)]
	s.end = []string{"close", "close", "closewrite", "linger"}[r.Intn(4)]
	s.pace.start = []string{"now", "delay", "peer", "peer"}[r.Intn(4)]
	s.pace.sip = []int{256, 700, 1024, 4096, 32 * 1024}[r.Intn(5)]
	if r.Chance(1, 2) {
		s.pace.pauseUs = []int{20, 50, 100}[r.Intn(3)]
	}
	// keep the slowest readers to the smaller transfers: the total time spent pausing stays well below a second
	for s.pace.pauseUs > 0 && s.size/s.pace.sip > 600 {
		s.pace.sip *= 2
	}
	return s
}

var c04pSlow, c04pFailed atomic.Int32

func TestVerifC04Pace(t *testing.T) {
	out := vlib.Open("C04pace")
	defer out.Close()
	restore := c34Silence()
	defer restore()
	out.Note("C04pace: uploads and downloads of 48-384 KiB over real loopback TCP through the real client transports, handleNewTCPConn and Proxy, with receivers that start late, read in sips and have a 4 KiB receive buffer, and senders that leave right after their last byte")
	var scns []*c04pScn
	if rp := vlib.Replay(); rp != "" {
		lines, err := c34ReplayLines(rp, "c04pace")
		if err != nil {
			t.Fatal(err)
		}
		for _, m := range lines {
			s, err := c04pParse(m)
			if err != nil {
				t.Fatal(err)
			}
			scns = append(scns, s)
		}
		if len(scns) == 0 {
			return
		}
	} else {
		scns = c04pCorpus()
		r := vlib.NewRand("C04pace")
		for i, n := 0, vlib.Budget(24, 400); i < n; i++ {
			scns = append(scns, c04pRandom(r))
		}
	}
	nW := 6
	if len(scns) < nW {
		nW = len(scns)
	}
	jobs := make(chan *c04pScn, len(scns))
	for _, s := range scns {
		jobs <- s
	}
	close(jobs)
	var wg sync.WaitGroup
	errs := make(chan error, nW)
	for wi := 0; wi < nW; wi++ {
		wg.Add(1)
		go func(wi int) {
			defer wg.Done()
			pw, err := newC04pWorld(wi)
			if err != nil {
				errs <- err
				return
			}
			for s := range jobs {
				if pw.w.dead != "" {
					out.Count("pace:skipped-world-has-a-hung-handler")
					continue
				}
				// transfers that do not complete take the whole patience; once a failure is on record and a
				// few cases have been that slow the rest adds nothing (the generators stop early only then)
				if c04pSlow.Load() >= 3 && c04pFailed.Load() > 0 {
					out.Count("pace:skipped-after-3-slow-cases-and-an-oracle-failure")
					continue
				}
				t0 := time.Now()
				res := pw.run(s)
				if time.Since(t0) > 20*time.Second {
					c04pSlow.Add(1)
				}
				c04pCheck(out, s, res)
				if vlib.Replay() != "" {
					restore()
					fmt.Printf("REPLAY %s\nREPLAY received %d of %d bytes, receiver's read loop ended with %q (%v) sender: %q\n", s.replay(), len(res.got), len(res.want), c04pEnd(res.endErr), res.endErr, res.senderErr)
				}
			}
		}(wi)
	}
	wg.Wait()
	select {
	case err := <-errs:
		t.Fatal(err)
	default:
	}
}
