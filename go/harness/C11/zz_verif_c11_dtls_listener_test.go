//go:build verif

package dtls

// C11, the DTLS listener on a phantom's UDP port: datagrams from anybody reach pkg/dtls.Listener
// (acceptLoop, the certificate lookup by ClientHello random, certificate verification, the SCTP layer).
// A real listener on a loopback socket is offered (a) handshakes of a real client whose datagrams are
// bent, cut, repeated, dropped, replaced and reordered on the way, for registered and for unknown
// secrets, and (b) single datagrams from fresh sockets: noise, and a recorded ClientHello truncated at
// every length and with every byte bent. Oracle: the process survives (everything runs in goroutines
// of the listener, so this is a child process), every AcceptWithContext returns once its context is
// over, and after all of it an untouched handshake still succeeds.

import (
	"bufio"
	"bytes"
	"context"
	"encoding/hex"
	"fmt"
	"net"
	"os"
	"os/exec"
	"path/filepath"
	"strconv"
	"strings"
	"sync"
	"testing"
	"time"

	"github.com/refraction-networking/conjure/internal/vlib"
)

type c11Mitm struct {
	r        *vlib.Rand
	mu       sync.Mutex
	first    []byte // the first datagram of the client: its ClientHello
	mutate   bool
	toServer *net.UDPConn
	toClient *net.UDPConn
	client   net.Addr
	done     chan struct{}
}

// c11NewMitm: a UDP relay between a client and the listener that damages what the client sends
func c11NewMitm(r *vlib.Rand, server *net.UDPAddr, mutate bool) (*c11Mitm, *net.UDPAddr, error) {
	front, err := net.ListenUDP("udp", &net.UDPAddr{IP: net.IPv4(127, 0, 0, 1)})
	if err != nil {
		return nil, nil, err
	}
	back, err := net.DialUDP("udp", nil, server)
	if err != nil {
		front.Close()
		return nil, nil, err
	}
	m := &c11Mitm{r: r, mutate: mutate, toServer: back, toClient: front, done: make(chan struct{})}
	go func() { // client -> server
		buf := make([]byte, 65536)
		var held []byte
		for {
			n, addr, err := front.ReadFrom(buf)
			if err != nil {
				return
			}
			d := append([]byte(nil), buf[:n]...)
			m.mu.Lock()
			m.client = addr
			if m.first == nil {
				m.first = d
			}
			var out [][]byte
			if !m.mutate {
				out = [][]byte{d}
			} else {
				switch m.r.Intn(9) {
				case 0, 1:
					out = [][]byte{d}
				case 2: // one byte bent
					if len(d) > 0 {
						d[m.r.Intn(len(d))] ^= byte(1 + m.r.Intn(255))
					}
					out = [][]byte{d}
				case 3: // cut
					out = [][]byte{d[:m.r.Intn(len(d)+1)]}
				case 4: // twice
					out = [][]byte{d, d}
				case 5: // lost
				case 6: // something else entirely
					out = [][]byte{m.r.Bytes(m.r.Intn(200))}
				case 7: // held back and sent after the next one
					if held == nil {
						held = d
					} else {
						out = [][]byte{d, held}
						held = nil
					}
				default: // a length field pushed up or down (record header: bytes 11-12; handshake header: 14-16)
					if len(d) > 16 {
						d[[]int{11, 12, 14, 15, 16}[m.r.Intn(5)]] = byte(m.r.U64())
					}
					out = [][]byte{d}
				}
			}
			m.mu.Unlock()
			for _, o := range out {
				_, _ = back.Write(o)
			}
		}
	}()
	go func() { // server -> client, untouched
		buf := make([]byte, 65536)
		for {
			n, err := back.Read(buf)
			if err != nil {
				return
			}
			m.mu.Lock()
			c := m.client
			m.mu.Unlock()
			if c != nil {
				_, _ = front.WriteTo(buf[:n], c)
			}
		}
	}()
	return m, front.LocalAddr().(*net.UDPAddr), nil
}

func (m *c11Mitm) close() { m.toServer.Close(); m.toClient.Close() }

func TestVerifC11DTLSChild(t *testing.T) {
	progPath := os.Getenv("VERIF_C11D_PROGRESS")
	if progPath == "" {
		t.Skip("child of TestVerifC11DTLS only")
	}
	progress, err := os.OpenFile(progPath, os.O_CREATE|os.O_WRONLY|os.O_TRUNC, 0o644)
	if err != nil {
		t.Fatal(err)
	}
	defer progress.Close()
	var pmu sync.Mutex
	say := func(f string, a ...any) { pmu.Lock(); fmt.Fprintf(progress, f+"\n", a...); pmu.Unlock() }
	start, _ := strconv.Atoi(os.Getenv("VERIF_C11D_START"))
	rounds, _ := strconv.Atoi(os.Getenv("VERIF_C11D_ROUNDS"))
	raws, _ := strconv.Atoi(os.Getenv("VERIF_C11D_RAW"))
	nothing := func(*net.IP) {}
	ln, err := Listen("udp", &net.UDPAddr{IP: net.IPv4(127, 0, 0, 1)}, &Config{LogAuthFail: nothing, LogOther: nothing})
	if err != nil {
		say("NOLISTEN %v", err)
		return
	}
	defer ln.Close()
	server := ln.Addr().(*net.UDPAddr)
	// one handshake: the listener side waits for the secret, a client dials through the relay
	handshake := func(r *vlib.Rand, round int, mutate, registered bool, limit time.Duration) (accepted, dialled bool, hello []byte) {
		secret := r.Bytes(32)
		ctx, cancel := context.WithTimeout(context.Background(), limit)
		defer cancel()
		accDone := make(chan bool, 1)
		if registered {
			go func() {
				c, err := ln.AcceptWithContext(ctx, &Config{PSK: secret, SCTP: ServerAccept})
				if c != nil {
					c.Close()
				}
				accDone <- err == nil
			}()
			time.Sleep(20 * time.Millisecond)
		}
		m, via, err := c11NewMitm(r, server, mutate)
		if err != nil {
			say("NOSOCKET %v", err)
			return false, false, nil
		}
		defer m.close()
		c, err := DialWithContext(ctx, via, &Config{PSK: secret, SCTP: ClientOpen})
		dialled = err == nil
		if c != nil { // the listener's side is complete once the stream carries something
			_, _ = c.Write([]byte("hello"))
		}
		if registered {
			select {
			case accepted = <-accDone:
			case <-time.After(limit + 15*time.Second):
				say("STUCK %d AcceptWithContext had not returned 15 s after its context ended", round)
			}
		}
		if c != nil {
			c.Close()
		}
		m.mu.Lock()
		hello = m.first
		m.mu.Unlock()
		return accepted, dialled, hello
	}
	// control: an untouched handshake must work here, otherwise nothing below says anything
	var ok bool
	var hello []byte
	for try := 0; try < 3 && !(ok && hello != nil); try++ {
		ok, _, hello = handshake(vlib.NewRand(fmt.Sprintf("C11-dtls-control-%d", try)), -1, false, true, 10*time.Second)
	}
	if !ok || hello == nil {
		say("NOCONTROL")
		return
	}
	mode := os.Getenv("VERIF_C11D_MODE") // "mitm": damaged handshakes only; "raw": stray datagrams only
	if mode == "raw" {
		start = rounds
	}
	var wg sync.WaitGroup
	sem := make(chan struct{}, 16)
	for round := start; round < rounds; round++ {
		say("%d", round)
		sem <- struct{}{}
		wg.Add(1)
		go func(round int) {
			defer wg.Done()
			defer func() { <-sem }()
			r := vlib.NewRand(fmt.Sprintf("C11-dtls-%d", round))
			acc, _, _ := handshake(r, round, true, round%4 != 3, 2500*time.Millisecond)
			if acc {
				say("COUNT dtls:damaged-handshake-accepted")
			} else {
				say("COUNT dtls:damaged-handshake-refused")
			}
		}(round)
	}
	wg.Wait()
	// the listener gives a handshake 5 s (defaultAcceptTimeout): let the ones that were left hanging end,
	// so that what they do at their end is not charged to the stray datagrams below
	if start < rounds {
		time.Sleep(defaultAcceptTimeout + 500*time.Millisecond)
	}
	say("MITM-DONE")
	if mode == "mitm" {
		raws = 0
	}
	// single datagrams from fresh sockets
	r := vlib.NewRand("C11-dtls-raw")
	// first the ones that have done damage before: a record of a content type that does not exist
	// (in a record header that is otherwise in order), application data before any key exists
	corpus := [][]byte{{0x1f, 0xfe, 0xfd, 0, 0, 0, 0, 0, 0, 0, 0, 0, 1, 0}, {0x17, 0xfe, 0xfd, 0, 0, 0, 0, 0, 0, 0, 0, 0, 1, 0},
		append([]byte{0x1f}, hello[1:]...), {0x1f, 0xfe, 0xfd, 0, 0, 0, 0, 0, 0, 0, 0, 0, 0}, append([]byte{0x00}, hello[1:]...),
		{0x14, 0xfe, 0xfd, 0, 0, 0, 0, 0, 0, 0, 0, 0, 1, 1}, {0x15, 0xfe, 0xfd, 0, 0, 0, 0, 0, 0, 0, 0, 0, 2, 2, 40}, {0x15, 0xfe, 0xfd, 0, 0, 0, 0, 0, 0, 0, 0, 0, 2, 1, 0}}
	send := func(d []byte) {
		c, err := net.DialUDP("udp", nil, server)
		if err != nil {
			return
		}
		_, _ = c.Write(d)
		if r.Chance(1, 3) { // and a second datagram on the same "connection"
			_, _ = c.Write(r.Bytes(r.Intn(60)))
		}
		c.Close()
	}
	rawStart, _ := strconv.Atoi(os.Getenv("VERIF_C11D_RAWSTART"))
	var given [][]byte
	if f := os.Getenv("VERIF_C11D_RAWFILE"); f != "" { // replay: these datagrams instead of generated ones
		b, _ := os.ReadFile(f)
		for _, l := range strings.Fields(string(b)) {
			d, _ := hex.DecodeString(l)
			given = append(given, d)
		}
		raws = len(given)
	}
	for i := 0; i < raws; i++ {
		var d []byte
		switch {
		case given != nil:
			d = given[i]
		case i < len(corpus):
			d = corpus[i]
		case i-len(corpus) <= len(hello): // the recorded ClientHello cut at every length
			d = hello[:i-len(corpus)]
		case i%3 == 0:
			d = r.Bytes(r.Intn(120))
		default: // the ClientHello with bytes bent, lengths included
			d = append([]byte(nil), hello...)
			for k := r.Intn(3); k >= 0; k-- {
				d[r.Intn(len(d))] = byte(r.U64())
			}
			if r.Chance(1, 4) {
				d = append(d, r.Bytes(r.Intn(40))...)
			}
		}
		if i < rawStart { // the draws are made all the same: datagram i does not depend on where a child starts
			continue
		}
		say("R%d %s", i, hex.EncodeToString(d))
		send(d)
		if i%16 == 15 {
			time.Sleep(5 * time.Millisecond)
		}
	}
	// whatever the listener started for them is given the time of a handshake to end
	if raws > 0 {
		time.Sleep(defaultAcceptTimeout + 500*time.Millisecond)
	}
	say("RAW-DONE")
	// and the listener still hears
	alive := false
	for try := 0; try < 3 && !alive; try++ {
		alive, _, _ = handshake(vlib.NewRand(fmt.Sprintf("C11-dtls-after-%d", try)), -2, false, true, 10*time.Second)
	}
	if !alive {
		say("DEAF")
	}
	say("DONE")
}

func TestVerifC11DTLS(t *testing.T) {
	if os.Getenv("VERIF_C11D_PROGRESS") != "" {
		t.Skip("child mode")
	}
	out := vlib.Open("C11c")
	defer out.Close()
	rounds, raws := vlib.Budget(48, 600), vlib.Budget(400, 6000)
	dir := t.TempDir()
	progPath := filepath.Join(dir, "progress.txt")
	if o := os.Getenv("VERIF_OUT"); o != "" {
		progPath = filepath.Join(o, "C11c.child-progress.txt")
	}
	start, replayRounds := 0, false
	if rp := vlib.Replay(); rp != "" { // dtls|<first round>: the rounds are functions of seed and number
		b, _ := os.ReadFile(rp)
		found := false
		for _, l := range strings.Split(string(b), "\n") {
			if p := strings.Split(l, "|"); len(p) >= 2 && p[0] == "dtls" {
				start, _ = strconv.Atoi(p[1])
				found, replayRounds = true, true
			}
		}
		if !found && !strings.Contains(string(b), "dtlsraw|") {
			fmt.Println("replay (DTLS listener): not a DTLS case")
			return
		}
	}
	rawFile := ""
	if rp := vlib.Replay(); rp != "" { // dtlsraw|<hex>,<hex>…: these datagrams; dtls|<round>: from that round on
		b, _ := os.ReadFile(rp)
		for _, l := range strings.Split(string(b), "\n") {
			if p := strings.Split(l, "|"); len(p) >= 2 && p[0] == "dtlsraw" {
				rawFile = filepath.Join(dir, "raw.txt")
				_ = os.WriteFile(rawFile, []byte(strings.ReplaceAll(p[1], ",", "\n")), 0o644)
				start = rounds
				break
			}
		}
	}
	// the two kinds of input run against a listener each, in two processes side by side: what a handshake
	// that was left hanging does when its 5 s are over is then never charged to a stray datagram
	var both sync.WaitGroup
	for _, mode := range []string{"mitm", "raw"} {
		if (mode == "raw" && replayRounds) || (mode == "mitm" && rawFile != "") {
			continue
		}
		both.Add(1)
		go func(mode string, start int) {
			defer both.Done()
			c11SuperviseDTLS(t, out, mode, progPath+"."+mode, dir, start, rounds, raws, rawFile)
		}(mode, start)
	}
	both.Wait()
}

func c11SuperviseDTLS(t *testing.T, out *vlib.Out, mode, progPath, dir string, start, rounds, raws int, rawFile string) {
	rawStart := 0
	crashes := 0
	for attempt := 0; attempt < 12; attempt++ {
		cmd := exec.Command(os.Args[0], "-test.run=^TestVerifC11DTLSChild$", "-test.timeout=20m")
		cmd.Env = append(os.Environ(), "VERIF_C11D_MODE="+mode, "VERIF_C11D_PROGRESS="+progPath, "VERIF_C11D_START="+strconv.Itoa(start),
			"VERIF_C11D_ROUNDS="+strconv.Itoa(rounds), "VERIF_C11D_RAW="+strconv.Itoa(raws), "VERIF_C11D_RAWSTART="+strconv.Itoa(rawStart),
			"VERIF_C11D_RAWFILE="+rawFile, "VERIF_OUT="+dir, "GOTRACEBACK=all")
		var stderr bytes.Buffer
		cmd.Stderr, cmd.Stdout = &stderr, &stderr
		err := cmd.Run()
		prog, _ := os.ReadFile(progPath)
		last, lastRaw, done, mitmDone := -1, -1, false, false
		var recent []string
		sc := bufio.NewScanner(bytes.NewReader(prog))
		sc.Buffer(make([]byte, 1<<20), 1<<24)
		for sc.Scan() {
			l := sc.Text()
			switch {
			case strings.HasPrefix(l, "NOLISTEN"), strings.HasPrefix(l, "NOSOCKET"), l == "NOCONTROL":
				if crashes > 0 {
					continue
				}
				// a clause of the property that is not exercised must not look like a pass
				t.Errorf("the DTLS listener cannot be exercised here: %s\n%s", l, stderr.String())
				return
			case strings.HasPrefix(l, "STUCK "):
				out.OracleFail("C11:dtls-listener:accept-ignores-context", l, "dtls|"+strings.Fields(l)[1])
			case l == "DEAF":
				out.OracleFail("C11:dtls-listener:deaf-after-bad-input", "after the damaged handshakes and the stray datagrams an untouched handshake with a registered secret no longer succeeds (three attempts of 10 s)", "dtls|"+strconv.Itoa(start))
			case strings.HasPrefix(l, "COUNT "):
				out.Count(strings.TrimPrefix(l, "COUNT "))
			case l == "MITM-DONE":
				mitmDone = true
			case l == "RAW-DONE":
			case l == "DONE":
				done = true
			case strings.HasPrefix(l, "R"):
				f := strings.Fields(l[1:])
				lastRaw, _ = strconv.Atoi(f[0])
				if len(f) > 1 {
					recent = append(recent, f[1])
					if len(recent) > 24 {
						recent = recent[1:]
					}
				}
				out.Checked()
				out.Count("dtls:stray-datagram")
			default:
				if k, e := strconv.Atoi(l); e == nil {
					last = k
					out.Checked()
				}
			}
		}
		if done && err == nil {
			out.Count("dtls:child-completed")
			return
		}
		crashes++
		// the report: what, where, and on which side (the listener's goroutines, or the client the harness runs)
		report := stderr.String()
		msg, frame, side := "unknown", "unknown", "unknown"
		blocks := strings.Split(report, "\n\n")
		for _, l := range strings.Split(report, "\n") {
			if strings.HasPrefix(l, "panic: ") || strings.HasPrefix(l, "fatal error: ") {
				msg = l
				break
			}
		}
		for bi, b := range blocks {
			if !strings.Contains(b, "[running]") {
				continue
			}
			for _, l := range strings.Split(b, "\n") {
				if strings.HasPrefix(l, "goroutine ") || strings.HasPrefix(l, "\t") || strings.HasPrefix(l, "panic") || strings.HasPrefix(l, "[signal") || strings.HasPrefix(l, "runtime.") || strings.HasPrefix(l, "created by") || !strings.Contains(l, "(") {
					continue
				}
				frame = l
				if i := strings.Index(l, "refraction-networking/conjure/"); i >= 0 {
					frame = l[i+len("refraction-networking/conjure/"):]
				} else if i := strings.Index(l, "github.com/"); i >= 0 {
					frame = l[i+len("github.com/"):]
				}
				if j := strings.LastIndex(frame, "("); j > 0 {
					frame = frame[:j]
				}
				break
			}
			// follow "created by … in goroutine N" up to a goroutine that tells the side
			cur := b
			for hop := 0; hop < 6 && side == "unknown"; hop++ {
				switch {
				case strings.Contains(cur, "(*Listener).acceptLoop"), strings.Contains(cur, "(*Listener).Accept"):
					side = "listener"
				case strings.Contains(cur, "DialWithContext"), strings.Contains(cur, "zz_verif"):
					side = "client"
				}
				i := strings.LastIndex(cur, " in goroutine ")
				if side != "unknown" || i < 0 {
					break
				}
				id := strings.Fields(cur[i+len(" in goroutine "):])[0]
				next := ""
				for _, b2 := range blocks {
					if strings.HasPrefix(strings.TrimLeft(b2, "\n"), "goroutine "+id+" ") {
						next = b2
					}
				}
				if next == "" {
					break
				}
				cur = next
			}
			_ = bi
			break
		}
		cls := "panic"
		switch {
		case strings.Contains(msg, "nil pointer"):
			cls = "nil-deref"
		case strings.Contains(msg, "out of range"):
			cls = "out-of-range"
		case strings.Contains(msg, "deadlock"):
			cls = "deadlock"
		}
		entry := "dtls-listener"
		if side == "client" {
			entry = "dtls-harness-client"
		}
		where := fmt.Sprintf("during the damaged handshakes (rounds up to %d were running)", last)
		replay := "dtls|" + strconv.Itoa(max(0, last-16))
		if mitmDone {
			where = fmt.Sprintf("while it dealt with stray datagrams (number %d was the last one sent; the replay holds the last %d)", lastRaw, len(recent))
			replay = "dtlsraw|" + strings.Join(recent, ",")
		}
		if len(report) > 1800 {
			report = report[:1800]
		}
		out.OracleFail("C11:"+entry+":"+cls+"@"+frame, "the process died "+where+"; side: "+side+"; "+msg+" ⏎ "+strings.ReplaceAll(strings.ReplaceAll(report, "\t", " "), "\n", " ⏎ "), replay)
		out.Count("dtls:child-died")
		if rawFile != "" {
			return
		}
		if mitmDone || last+1 >= rounds {
			start, rawStart = rounds, lastRaw+1
			if rawStart >= raws {
				return
			}
			continue
		}
		start = last + 1
	}
	out.Note("DTLS listener: the child process died 12 times; the remaining datagrams were not offered")
}
