//go:build verif

package apiregserver

// C11, registrar side, 3a': the writer half of the DNS channel codec, driven by C11's own check. The
// responder answers every datagram with bytes it builds itself out of what the parser returned
// (AddResponseFormat → EncodeRDataTXT → NewName-checked names → messageBuilder / WireFormat), and the
// requester half (AddRequestFormat, NewName, TrimSuffix inside recvEncoded) decides what reaches the
// parsers. These rows of the coverage map used to be corresponded through the C15 harness only; here
// each of them is run on the real code under Guard and answered by the same Lean definitions
// (`codec|addreq`, `addresp`, `enctxt`, `newname`, `wire`, `recvenc`).

import (
	"bytes"
	"errors"
	"fmt"
	"strings"

	"github.com/refraction-networking/conjure/internal/vlib"
	"github.com/refraction-networking/conjure/internal/vlibc11"
	"github.com/refraction-networking/conjure/pkg/registrars/dns-registrar/dns"
	"github.com/refraction-networking/conjure/pkg/registrars/dns-registrar/msgformat"
	"github.com/refraction-networking/conjure/pkg/regserver/dnsregserver"
	pb "github.com/refraction-networking/conjure/proto"
	"google.golang.org/protobuf/proto"
	"google.golang.org/protobuf/types/known/anypb"
)

func c11Labels(labels [][]byte) string {
	if len(labels) == 0 {
		return "@"
	}
	l := make([]string, len(labels))
	for i := range labels {
		l[i] = vlib.Hex(labels[i])
	}
	return strings.Join(l, ".")
}

// c11Label: a label of n bytes; a third of them letters and digits (what base32 text looks like)
func (c *c11Reg) c11Label(n int) []byte {
	b := c.r.Bytes(n)
	if c.r.Chance(1, 3) {
		for i := range b {
			b[i] = "abcdefghijklmnopqrstuvwxyz234567"[int(b[i])%32]
		}
	}
	return b
}

func (c *c11Reg) newNameCase(labels [][]byte) (dns.Name, bool) {
	var n dns.Name
	var err error
	c.parser("newname", "codec|newname|"+c11Labels(labels), true, func() string {
		n, err = dns.NewName(labels)
		if err != nil {
			return "err " + vlibc11.CodecErr(err)
		}
		return "ok " + vlibc11.ShowName(n)
	})
	return n, err == nil
}

func (c *c11Reg) wireCase(m *dns.Message) {
	c.parser("wire", "codec|wire|"+vlibc11.ShowMsg(m), true, func() string { return vlibc11.OkOrErr(m.WireFormat()) })
}

// trimSuffix as recvEncoded uses it: the labels in front of the domain, joined
func (c *c11Reg) recvEncCase(n, domain dns.Name) {
	c.parser("trimsuffix", "codec|trimsuffix|"+vlibc11.ShowName(n)+"|"+vlibc11.ShowName(domain), true, func() string {
		prefix, ok := n.TrimSuffix(domain)
		if !ok {
			return "none"
		}
		return "ok " + vlibc11.ShowName(prefix)
	})
	for _, l := range n { // the model's upper-casing is byte-wise; bytes.ToUpper is that on ASCII only (elsewhere the text is not base32 anyway)
		for _, b := range l {
			if b >= 0x80 {
				return
			}
		}
	}
	c.parser("recvenc", "codec|recvenc|"+vlibc11.ShowName(n)+"|"+vlibc11.ShowName(domain), true, func() string {
		prefix, ok := n.TrimSuffix(domain)
		if !ok {
			return "none"
		}
		return "ok " + vlib.Hex(bytes.ToUpper(bytes.Join(prefix, nil)))
	})
}

func (c *c11Reg) writers() {
	// the frame writers: every length around the one-byte and two-byte limits, and random payloads
	for _, n := range []int{0, 1, 2, 127, 128, 254, 255, 256, 257, 300} {
		p := c.r.Bytes(n)
		c.parser("addreq", "codec|addreq|"+vlib.Hex(p), true, func() string { return vlibc11.OkOrErr(msgformat.AddRequestFormat(p)) })
		c.parser("addresp", "codec|addresp|"+vlib.Hex(p), true, func() string { return vlibc11.OkOrErr(msgformat.AddResponseFormat(p)) })
		c.parser("enctxt", "codec|enctxt|"+vlib.Hex(p), true, func() string { return "ok " + vlib.Hex(dns.EncodeRDataTXT(p)) })
	}
	for _, n := range []int{65534, 65535, 65536, 65537} {
		p := c.r.Bytes(n)
		c.parser("addresp", "codec|addresp|"+vlib.Hex(p), true, func() string { return vlibc11.OkOrErr(msgformat.AddResponseFormat(p)) })
	}
	for i := 0; i < vlib.Budget(150, 2500); i++ {
		p := c.r.Bytes(c.r.Intn(600))
		c.parser("addreq", "codec|addreq|"+vlib.Hex(p), true, func() string { return vlibc11.OkOrErr(msgformat.AddRequestFormat(p)) })
		c.parser("addresp", "codec|addresp|"+vlib.Hex(p), true, func() string { return vlibc11.OkOrErr(msgformat.AddResponseFormat(p)) })
		c.parser("enctxt", "codec|enctxt|"+vlib.Hex(p), true, func() string { return "ok " + vlib.Hex(dns.EncodeRDataTXT(p)) })
	}
	// NewName: every label length around 63, totals around 255, empty labels, no labels
	domain, _ := dns.ParseName(c11Domain)
	var pool []dns.Name
	keep := func(n dns.Name, ok bool) {
		if ok {
			pool = append(pool, n)
		}
	}
	keep(c.newNameCase(nil))
	for n := 0; n <= 66; n++ {
		keep(c.newNameCase([][]byte{c.c11Label(n)}))
		keep(c.newNameCase(append([][]byte{c.c11Label(2), c.c11Label(n)}, domain...)))
	}
	for last := 57; last <= 63; last++ {
		for mid := 59; mid <= 63; mid++ {
			keep(c.newNameCase([][]byte{c.c11Label(63), c.c11Label(63), c.c11Label(mid), c.c11Label(last)}))
		}
	}
	for i := 0; i < vlib.Budget(300, 5000); i++ {
		var ls [][]byte
		for k := c.r.Intn(6); k > 0; k-- {
			ls = append(ls, c.c11Label([]int{0, 1, 3, 8, 62, 63, 64}[c.r.Intn(7)]))
		}
		if c.r.Bool() {
			ls = append(ls, domain...)
		}
		keep(c.newNameCase(ls))
	}
	// TrimSuffix as the responder uses it: names under the domain, the domain itself, foreign names, names
	// that are a suffix of the domain, case differences
	for i := 0; i < vlib.Budget(300, 5000); i++ {
		n := pool[c.r.Intn(len(pool))]
		switch c.r.Intn(5) {
		case 0:
			n = domain
		case 1:
			n = domain[c.r.Intn(len(domain)):]
		case 2:
			up := make(dns.Name, len(n))
			for j := range n {
				up[j] = bytes.ToUpper(n[j])
			}
			n = up
		}
		c.recvEncCase(n, domain)
	}
	// the message writer on what the responder hands it: messages over accepted names (shared suffixes, so
	// that the compression table is used), and whatever the parser returned for a generated query
	pick := func() dns.Name { return pool[c.r.Intn(len(pool))] }
	data := func() []byte {
		if c.r.Chance(1, 12) {
			return c.r.Bytes(c.r.Range(250, 1200))
		}
		return c.r.Bytes(c.r.Intn(24))
	}
	for i := 0; i < vlib.Budget(500, 9000); i++ {
		var m *dns.Message
		if c.r.Chance(1, 3) {
			buf := queryFor(c.r.Bytes(c.r.Intn(100)), domain, uint16(i), nil)
			if c.r.Bool() {
				buf = c.g.Mutate(buf)
			}
			back, err := dns.MessageFromWireFormat(buf)
			if err != nil {
				continue
			}
			m = &back
		} else {
			m = &dns.Message{ID: uint16(c.r.U64()), Flags: uint16(c.r.U64())}
			for k := c.r.Intn(3); k > 0; k-- {
				m.Question = append(m.Question, dns.Question{Name: pick(), Type: uint16(c.r.Intn(300)), Class: uint16(c.r.Intn(5))})
			}
			for _, dst := range []*[]dns.RR{&m.Answer, &m.Authority, &m.Additional} {
				for k := c.r.Intn(4); k > 0; k-- {
					*dst = append(*dst, dns.RR{Name: pick(), Type: uint16(c.r.U64()), Class: uint16(c.r.U64()), TTL: uint32(c.r.U64()), Data: data()})
				}
			}
		}
		c.wireCase(m)
	}
	c.out.Note(fmt.Sprintf("C11 writers: %d accepted names in the pool", len(pool)))
}

// ---------------------------------------------------------------------------------------------
// 3b'. dnsregserver.processRequest against its model (CJ/Model/DnsHandler.lean, `ingress|dnsreq`): the real handler in
// front of a scripted processor that answers with every combination of response / no response / a response that
// proto.Marshal refuses x error / no error, on request bytes that decode or not, with and without payload and
// generation, with every source value.

type c11ScriptReg struct {
	resp  *pb.RegistrationResponse
	err   error
	calls []string
}

func (s *c11ScriptReg) RegisterUnidirectional(w *pb.C2SWrapper, src pb.RegistrationSource, addr []byte) error {
	if w != nil && src == pb.RegistrationSource_DNS && addr == nil {
		s.calls = append(s.calls, "uni")
	} else {
		s.calls = append(s.calls, fmt.Sprintf("uni(%v,%v,%x)", w != nil, src, addr))
	}
	return s.err
}

func (s *c11ScriptReg) RegisterBidirectional(w *pb.C2SWrapper, src pb.RegistrationSource, addr []byte) (*pb.RegistrationResponse, error) {
	if w != nil && src == pb.RegistrationSource_BidirectionalDNS && addr == nil {
		s.calls = append(s.calls, "bd")
	} else {
		s.calls = append(s.calls, fmt.Sprintf("bd(%v,%v,%x)", w != nil, src, addr))
	}
	return s.resp, s.err
}

func (c *c11Reg) dnsHandlerCase(b []byte, latest uint32, respKind int, regErr bool) {
	// the parameters of the model, from a decoding of our own
	wl := "X"
	w := &pb.C2SWrapper{}
	if proto.Unmarshal(b, w) == nil {
		pl := "N"
		if w.RegistrationPayload != nil {
			pl = "PN"
			if w.RegistrationPayload.DecoyListGeneration != nil {
				pl = fmt.Sprintf("P%d", *w.RegistrationPayload.DecoyListGeneration)
			}
		}
		wl = pl + ";" + vlib.B(w.GetRegistrationSource() == pb.RegistrationSource_BidirectionalDNS)
	}
	script := &c11ScriptReg{}
	respF, marshals := "N", true
	switch respKind {
	case 1:
		script.resp = &pb.RegistrationResponse{Ipv4Addr: proto.Uint32(7 + latest)}
	case 2: // a string that is not UTF-8 inside the Any: proto.Marshal refuses the message
		script.resp = &pb.RegistrationResponse{Ipv4Addr: proto.Uint32(9), TransportParams: &anypb.Any{TypeUrl: "\xff"}}
	}
	if script.resp != nil {
		respF = fmt.Sprint(script.resp.GetIpv4Addr())
		_, merr := proto.Marshal(script.resp)
		marshals = merr == nil
	}
	if regErr {
		script.err = errors.New("scripted")
	}
	line := fmt.Sprintf("ingress|dnsreq|%s|%d|%s|%s|%s", wl, latest, respF, vlib.B(marshals), vlib.B(regErr))
	s := dnsregserver.NewVerifDNSRegServerOn(script, latest, c.logger, c.m)
	var ans string
	res := vlibc11.Guard(func() {
		out, err := s.VerifProcessRequest(b)
		call := "-"
		if len(script.calls) > 0 {
			call = strings.Join(script.calls, "+")
		}
		if err != nil || out == nil {
			ans = "err call=" + call
			if err == nil || out != nil {
				ans = fmt.Sprintf("odd out=%x err=%v call=%s", out, err, call)
			}
			return
		}
		d := &pb.DnsResponse{}
		if uerr := proto.Unmarshal(out, d); uerr != nil {
			ans = "undecodable " + vlib.Hex(out)
			return
		}
		bd := "N"
		if d.BidirectionalResponse != nil {
			bd = fmt.Sprint(d.BidirectionalResponse.GetIpv4Addr())
		}
		ans = fmt.Sprintf("resp success=%s outdated=%s bd=%s call=%s", vlib.B(d.GetSuccess()), vlib.B(d.GetClientconfOutdated()), bd, call)
	})
	c.out.Checked()
	if res.Hang {
		ans = "hang"
	} else if res.Panic != "" {
		ans = "panic " + res.Panic
	}
	c.out.Case(line, ans, strings.HasPrefix(ans, "resp"))
	c.out.Count("dnsreq:" + strings.Fields(ans + " x")[0] + ":" + strings.SplitN(wl, ";", 2)[0][:1])
	if res.Bad() {
		c.fail("dns-handler", res, line+"|"+vlib.Hex(b))
	}
}

func (c *c11Reg) dnsHandler() {
	gens := []uint32{0, 1, 956, 957, 958, 1000000, 4294967295}
	one := func(b []byte) {
		c.dnsHandlerCase(b, gens[c.r.Intn(len(gens))], c.r.Intn(3), c.r.Chance(1, 3))
	}
	// the corners by hand: empty request (decodes to a wrapper without payload), payload without generation,
	// generation at, below and above the registrar's, each source value, against every script
	var corners [][]byte
	corners = append(corners, nil, []byte{0xff}, vlibc11.Marshal(&pb.C2SWrapper{RegistrationPayload: &pb.ClientToStation{}}))
	for _, g := range []uint32{0, 956, 957, 958, 4294967295} {
		for _, src := range []pb.RegistrationSource{pb.RegistrationSource_Unspecified, pb.RegistrationSource_DNS, pb.RegistrationSource_BidirectionalDNS,
			pb.RegistrationSource_API, pb.RegistrationSource(77)} {
			src := src
			corners = append(corners, vlibc11.Marshal(&pb.C2SWrapper{SharedSecret: c.r.Bytes(32), RegistrationSource: &src,
				RegistrationPayload: &pb.ClientToStation{DecoyListGeneration: proto.Uint32(g)}}))
		}
	}
	for _, b := range corners {
		for _, latest := range []uint32{0, 957} {
			for kind := 0; kind < 3; kind++ {
				c.dnsHandlerCase(b, latest, kind, false)
				c.dnsHandlerCase(b, latest, kind, true)
			}
		}
	}
	for i := 0; i < vlib.Budget(1500, 25000); i++ {
		var b []byte
		switch c.r.Intn(4) {
		case 0:
			b = c.r.Bytes(c.r.Intn(40))
		case 1:
			b = c.g.Mutate(vlibc11.Marshal(c.g.Wrapper(c.r.Intn(4))))
		default:
			w := c.g.Wrapper(c.r.Intn(4))
			if w != nil && c.r.Bool() {
				src := []pb.RegistrationSource{pb.RegistrationSource_BidirectionalDNS, pb.RegistrationSource_DNS}[c.r.Intn(2)]
				w.RegistrationSource = &src
			}
			b = vlibc11.Marshal(w)
		}
		one(b)
	}
}
