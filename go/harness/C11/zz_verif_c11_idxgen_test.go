//go:build verif

package prefix

// Tie 1b for C11: regenerates lean/CJ/Gen/C11Index.lean from the tree under test — every index
// expression with a constant index (`x[0]`) in the packages a DNS datagram passes through (responder,
// requester, dns, msgformat, the packet queues, the registrar's DNS front end), and which length guard
// makes it safe. An index on a slice that an external party fills (the questions of a query, the
// additional records, the bytes of a frame) is a partial operation; the handler goroutines have no
// recover, so an unguarded one is a remote crash of the registrar.
//
// Syntactic and conservative (anything the analysis does not recognise counts as unguarded):
//   - enclosing-if:      the site is in the body of `if … && len(B) == n && …` (n > k; also `> m`, `>= n`,
//                        `!= 0`; no `||` above the conjunct)
//   - same-expression:   `len(B) > m && … B[k] …`
//   - dominating-return: an earlier statement of an enclosing block is
//                        `if … || len(B) != n || … { …; return / continue / break / panic }` (also `< n`,
//                        `<= m`, `== 0`; no `&&` above the disjunct), without an else
//   - constructed:       an earlier statement of an enclosing block is `B = append(B, e1 … en)` (n > k) or
//                        `B = []T{e1 … en}` / `B := …`
// and between the guard and the site nothing assigns to B; a guard outside a loop or a function literal
// does not count for a site inside it when the loop / literal assigns to B (a closure may run later).

import (
	"fmt"
	"go/ast"
	"go/parser"
	"go/token"
	"os"
	"path/filepath"
	"sort"
	"strconv"
	"strings"
	"testing"
)

var c11IndexDirs = []string{
	"pkg/registrars/dns-registrar/responder", "pkg/registrars/dns-registrar/requester", "pkg/registrars/dns-registrar/dns",
	"pkg/registrars/dns-registrar/msgformat", "pkg/registrars/dns-registrar/queuepacketconn", "pkg/registrars/dns-registrar/remotemap",
	"pkg/registrars/dns-registrar/encryption", "pkg/regserver/dnsregserver",
}

type c11IdxSite struct {
	file  string
	line  int
	fn    string
	expr  string
	guard string // "" = none found
}

func c11Unparen(e ast.Expr) ast.Expr {
	for {
		p, ok := e.(*ast.ParenExpr)
		if !ok {
			return e
		}
		e = p.X
	}
}

// lenCmp: e as `len(B) op n` (operands in either order)
func c11LenCmp(fset *token.FileSet, e ast.Expr, base string) (op token.Token, n int, ok bool) {
	b, isBin := c11Unparen(e).(*ast.BinaryExpr)
	if !isBin {
		return 0, 0, false
	}
	isLen := func(x ast.Expr) bool {
		c, ok := c11Unparen(x).(*ast.CallExpr)
		if !ok || len(c.Args) != 1 {
			return false
		}
		id, ok := c.Fun.(*ast.Ident)
		return ok && id.Name == "len" && c11Print(fset, c.Args[0]) == base
	}
	lit := func(x ast.Expr) (int, bool) {
		l, ok := c11Unparen(x).(*ast.BasicLit)
		if !ok || l.Kind != token.INT {
			return 0, false
		}
		v, err := strconv.ParseInt(l.Value, 0, 32)
		return int(v), err == nil
	}
	flip := map[token.Token]token.Token{token.LSS: token.GTR, token.GTR: token.LSS, token.LEQ: token.GEQ, token.GEQ: token.LEQ, token.EQL: token.EQL, token.NEQ: token.NEQ}
	if v, okv := lit(b.Y); isLen(b.X) && okv {
		return b.Op, v, true
	}
	if v, okv := lit(b.X); isLen(b.Y) && okv {
		if f, okf := flip[b.Op]; okf {
			return f, v, true
		}
	}
	return 0, 0, false
}

func c11Split(e ast.Expr, op token.Token) []ast.Expr {
	if b, ok := c11Unparen(e).(*ast.BinaryExpr); ok && b.Op == op {
		return append(c11Split(b.X, op), c11Split(b.Y, op)...)
	}
	return []ast.Expr{c11Unparen(e)}
}

// holds: cond true implies len(base) > k
func c11Implies(fset *token.FileSet, cond ast.Expr, base string, k int) bool {
	for _, c := range c11Split(cond, token.LAND) {
		op, n, ok := c11LenCmp(fset, c, base)
		if !ok {
			continue
		}
		switch {
		case op == token.EQL && n > k, op == token.GTR && n >= k, op == token.GEQ && n > k, op == token.NEQ && n == 0 && k == 0:
			return true
		}
	}
	return false
}

// cond false implies len(base) > k
func c11NegImplies(fset *token.FileSet, cond ast.Expr, base string, k int) bool {
	for _, c := range c11Split(cond, token.LOR) {
		op, n, ok := c11LenCmp(fset, c, base)
		if !ok {
			continue
		}
		switch {
		case op == token.NEQ && n > k, op == token.LSS && n > k, op == token.LEQ && n >= k, op == token.EQL && n == 0 && k == 0:
			return true
		}
	}
	return false
}

func c11Terminates(b *ast.BlockStmt) bool {
	if len(b.List) == 0 {
		return false
	}
	switch last := b.List[len(b.List)-1].(type) {
	case *ast.ReturnStmt:
		return true
	case *ast.BranchStmt:
		return last.Tok == token.CONTINUE || last.Tok == token.BREAK || last.Tok == token.GOTO
	case *ast.ExprStmt:
		if c, ok := last.X.(*ast.CallExpr); ok {
			if id, ok := c.Fun.(*ast.Ident); ok && id.Name == "panic" {
				return true
			}
		}
	}
	return false
}

// assignsTo: does n contain an assignment to base (or take its address, or pass it to append's result)?
func c11AssignsTo(fset *token.FileSet, n ast.Node, base string) bool {
	found := false
	ast.Inspect(n, func(x ast.Node) bool {
		switch s := x.(type) {
		case *ast.AssignStmt:
			for _, l := range s.Lhs {
				if c11Print(fset, l) == base {
					found = true
				}
			}
		case *ast.UnaryExpr:
			if s.Op == token.AND && c11Print(fset, s.X) == base {
				found = true
			}
		case *ast.IncDecStmt:
			if c11Print(fset, s.X) == base {
				found = true
			}
		}
		return !found
	})
	return found
}

// constructs: st is `base = append(base, e1 … en)` / `base = []T{e1 … en}` with n > k
func c11Constructs(fset *token.FileSet, st ast.Stmt, base string, k int) bool {
	as, ok := st.(*ast.AssignStmt)
	if !ok || len(as.Lhs) != 1 || len(as.Rhs) != 1 || c11Print(fset, as.Lhs[0]) != base {
		return false
	}
	switch r := c11Unparen(as.Rhs[0]).(type) {
	case *ast.CallExpr:
		id, ok := r.Fun.(*ast.Ident)
		return ok && id.Name == "append" && !r.Ellipsis.IsValid() && len(r.Args)-1 > k
	case *ast.CompositeLit:
		if _, isArr := r.Type.(*ast.ArrayType); !isArr {
			return false
		}
		for _, e := range r.Elts {
			if _, keyed := e.(*ast.KeyValueExpr); keyed {
				return false
			}
		}
		return len(r.Elts) > k
	}
	return false
}

func c11IdxScan(fset *token.FileSet, rel string, f *ast.File) []c11IdxSite {
	var sites []c11IdxSite
	for _, d := range f.Decls {
		fn, ok := d.(*ast.FuncDecl)
		if !ok || fn.Body == nil {
			continue
		}
		var stack []ast.Node
		ast.Inspect(fn.Body, func(n ast.Node) bool {
			if n == nil {
				stack = stack[:len(stack)-1]
				return true
			}
			stack = append(stack, n)
			ix, ok := n.(*ast.IndexExpr)
			if !ok {
				return true
			}
			lit, ok := c11Unparen(ix.Index).(*ast.BasicLit)
			if !ok || lit.Kind != token.INT {
				return true
			}
			k64, err := strconv.ParseInt(lit.Value, 0, 32)
			if err != nil {
				return true
			}
			k, base, pos := int(k64), c11Print(fset, ix.X), ix.Pos()
			guard := ""
			inside := func(x ast.Node) bool { return x != nil && x.Pos() <= pos && pos < x.End() }
			// from the site outwards
		outer:
			for i := len(stack) - 2; i >= 0 && guard == ""; i-- {
				var list []ast.Stmt
				switch a := stack[i].(type) {
				case *ast.BinaryExpr:
					if a.Op == token.LAND && inside(a.Y) && c11Implies(fset, a.X, base, k) {
						guard = "same-expression"
					}
				case *ast.IfStmt:
					if inside(a.Body) && c11Implies(fset, a.Cond, base, k) {
						// nothing between the condition and the site may assign to base
						clean := true
						for _, st := range a.Body.List {
							if st.End() <= pos && c11AssignsTo(fset, st, base) {
								clean = false
							}
						}
						if clean {
							guard = "enclosing-if"
						}
					}
				case *ast.BlockStmt:
					list = a.List
				case *ast.CaseClause:
					list = a.Body
				case *ast.CommClause:
					list = a.Body
				case *ast.ForStmt:
					if c11AssignsTo(fset, a, base) && !inside(a.Cond) {
						// a guard outside the loop says nothing about later iterations
						break outer
					}
				case *ast.RangeStmt:
					if c11AssignsTo(fset, a, base) {
						break outer
					}
				case *ast.FuncLit:
					break outer // the closure may run when the guard no longer holds
				}
				// statements of this block in front of the one the site is in, nearest first
				at := -1
				for j, st := range list {
					if inside(st) {
						at = j
					}
				}
				for j := at - 1; j >= 0; j-- {
					st := list[j]
					if c11Constructs(fset, st, base, k) {
						guard = "constructed"
						break
					}
					if ifs, ok := st.(*ast.IfStmt); ok && ifs.Else == nil && ifs.Init == nil && c11NegImplies(fset, ifs.Cond, base, k) &&
						c11Terminates(ifs.Body) && !c11AssignsTo(fset, ifs.Cond, base) {
						guard = "dominating-return"
						break
					}
					if c11AssignsTo(fset, st, base) {
						break outer
					}
				}
			}
			sites = append(sites, c11IdxSite{rel, fset.Position(pos).Line, fn.Name.Name, c11Print(fset, ix), guard})
			return true
		})
	}
	return sites
}

const c11IdxFixtureSrc = `package fixture

func enclosing(m *M) int {
	if m.Rcode() == 0 && len(m.Question) == 1 {
		return m.Question[0].Type // want enclosing-if
	}
	return 0
}

func enclosingLostItsLength(m *M) int {
	if m.Rcode() == 0 {
		return m.Question[0].Type // want none
	}
	return 0
}

func enclosingOr(m *M) int {
	if m.Rcode() == 0 || len(m.Question) == 1 {
		return m.Question[0].Type // want none
	}
	return 0
}

func enclosingTooShort(m *M) int {
	if len(m.Question) >= 1 {
		return m.Question[1].Type // want none
	}
	return 0
}

func dominated(m *M) int {
	if len(m.Question) != 1 {
		return 0
	}
	q := m.Question[0] // want dominating-return
	return q.Type
}

func dominatedOtherSlice(m *M) int {
	if len(m.Answer) != 1 {
		return 0
	}
	q := m.Question[0] // want none
	return q.Type
}

func dominatedButNoReturn(m *M) int {
	if len(m.Question) != 1 {
		log()
	}
	q := m.Question[0] // want none
	return q.Type
}

func dominatedAnd(m *M, c bool) int {
	if len(m.Question) != 1 && c {
		return 0
	}
	q := m.Question[0] // want none
	return q.Type
}

func dominatedThenReassigned(m *M) int {
	if len(m.Question) != 1 {
		return 0
	}
	m.Question = nil
	q := m.Question[0] // want none
	return q.Type
}

func loopHead(p []byte) int {
	s := 0
	for {
		if len(p) == 0 {
			return s
		}
		s += int(p[0]) // want dominating-return
		p = p[1:]
	}
}

func guardOutsideLoop(p []byte) int {
	s := 0
	if len(p) == 0 {
		return 0
	}
	for i := 0; i < 3; i++ {
		s += int(p[0]) // want none
		p = p[1:]
	}
	return s
}

func frame(p []byte) int {
	if len(p) < 1 {
		return -1
	}
	return int(p[0]) // want dominating-return
}

func frameOffByOne(p []byte) int {
	if len(p) < 1 {
		return -1
	}
	return int(p[1]) // want none
}

func appended(m *M) *RR {
	m.Additional = append(m.Additional, RR{})
	return &m.Additional[0] // want constructed
}

func literal(m *M) {
	m.Answer = []RR{{Name: 1}}
	m.Answer[0].Data = nil // want constructed
}

func literalEmpty(m *M) {
	m.Answer = []RR{}
	m.Answer[0].Data = nil // want none
}

func sameExpr(q *Q, now T) bool {
	return len(q.byAge) > 0 && now.Sub(q.byAge[0].LastSeen) >= 1 // want same-expression
}

func sameExprWrongSide(q *Q, now T) bool {
	return now.Sub(q.byAge[0].LastSeen) >= 1 && len(q.byAge) > 0 // want none
}

func closure(m *M) {
	if len(m.Question) != 1 {
		return
	}
	go func() {
		_ = m.Question[0] // want none
	}()
}

func closureOwnGuard(m *M) {
	go func() {
		if len(m.Question) == 1 {
			_ = m.Question[0] // want enclosing-if
		}
	}()
}
`

func c11IdxFixtures() error {
	fset := token.NewFileSet()
	f, err := parser.ParseFile(fset, "fixture.go", c11IdxFixtureSrc, parser.ParseComments)
	if err != nil {
		return err
	}
	want := map[int]string{}
	for _, cg := range f.Comments {
		for _, c := range cg.List {
			if i := strings.Index(c.Text, "want "); i >= 0 {
				w := strings.TrimSpace(c.Text[i+5:])
				if w == "none" {
					w = ""
				}
				want[fset.Position(c.Pos()).Line] = w
			}
		}
	}
	got := map[int]string{}
	for _, s := range c11IdxScan(fset, "fixture.go", f) {
		got[s.line] = s.guard
	}
	if len(want) < 20 {
		return fmt.Errorf("index fixture lost its expectations")
	}
	for line, w := range want {
		g, ok := got[line]
		if !ok || g != w {
			return fmt.Errorf("index guard analysis changed: fixture line %d (%s) wants %q, got %q (site found: %v)", line,
				strings.TrimSpace(strings.Split(c11IdxFixtureSrc, "\n")[line-1]), w, g, ok)
		}
	}
	for line := range got {
		if _, ok := want[line]; !ok {
			return fmt.Errorf("index guard analysis changed: fixture line %d is reported as a site but carries no expectation", line)
		}
	}
	return nil
}

func TestVerifC11IdxGen(t *testing.T) {
	root := os.Getenv("VERIF_SCRATCH_REPO")
	if root == "" {
		root = "../../../.."
	}
	if err := c11IdxFixtures(); err != nil {
		t.Fatal(err)
	}
	fset := token.NewFileSet()
	var sites []c11IdxSite
	files := 0
	for _, dir := range c11IndexDirs {
		ents, err := os.ReadDir(filepath.Join(root, dir))
		if err != nil {
			t.Fatal(err)
		}
		for _, ent := range ents {
			n := ent.Name()
			if ent.IsDir() || !strings.HasSuffix(n, ".go") || strings.HasSuffix(n, "_test.go") || strings.HasPrefix(n, "zz_verif") {
				continue
			}
			rel := filepath.Join(dir, n)
			f, err := parser.ParseFile(fset, filepath.Join(root, rel), nil, 0)
			if err != nil {
				t.Fatal(err)
			}
			files++
			sites = append(sites, c11IdxScan(fset, rel, f)...)
		}
	}
	sort.Slice(sites, func(i, j int) bool {
		if sites[i].file != sites[j].file {
			return sites[i].file < sites[j].file
		}
		if sites[i].line != sites[j].line {
			return sites[i].line < sites[j].line
		}
		return sites[i].expr < sites[j].expr
	})
	var b strings.Builder
	b.WriteString("/-! GENERATED by go/harness/C11/zz_verif_c11_idxgen_test.go from the tree under test; do not edit. -/\n")
	b.WriteString("namespace CJ.Gen.C11Index\n\n")
	b.WriteString("/-- an index expression with a constant index: where, in which function, what, and the length guard that\nmakes it safe (`\"\"` = none was recognised) -/\nstructure IndexSite where\n  file : String\n  line : Nat\n  fn : String\n  expr : String\n  guard : String\nderiving Repr, DecidableEq\n\n")
	fmt.Fprintf(&b, "/-- number of source files of the DNS registrar packages that were scanned -/\ndef scannedFiles : Nat := %d\n\n", files)
	b.WriteString("def indexSites : List IndexSite := [\n")
	for i, s := range sites {
		sep := ","
		if i == len(sites)-1 {
			sep = ""
		}
		fmt.Fprintf(&b, "  ⟨%q, %d, %q, %q, %q⟩%s\n", s.file, s.line, s.fn, s.expr, s.guard, sep)
	}
	b.WriteString("]\n\nend CJ.Gen.C11Index\n")
	out := os.Getenv("VERIF_OUT")
	if out == "" {
		out = os.TempDir()
	}
	if err := os.WriteFile(filepath.Join(out, "C11Index.lean"), []byte(b.String()), 0o644); err != nil {
		t.Fatal(err)
	}
}
