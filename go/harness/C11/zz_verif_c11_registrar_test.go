//go:build verif

package apiregserver

// C11, registrar side: the HTTP front end (/register, /register-bidirectional) over a real net/http
// server on loopback, the DNS front end (responder.RecvAndRespond in a child process, because a panic
// in one of its goroutines takes the whole process down; dnsregserver.processRequest directly), and
// the registration processor (RegisterBidirectional / RegisterUnidirectional / processBdReq /
// processC2SWrapper), all backed by the real RegProcessor with a recording sender in place of ZMQ.
// Oracle: no panic, an answer within 2 s, and every HTTP request gets a status line.

import (
	"bufio"
	"bytes"
	"encoding/base32"
	"encoding/hex"
	"errors"
	"fmt"
	"io"
	golog "log"
	"math"
	"net"
	"net/http"
	"net/http/httptest"
	"os"
	"os/exec"
	"path/filepath"
	"regexp"
	"runtime"
	"strconv"
	"strings"
	"sync"
	"testing"
	"time"

	"github.com/flynn/noise"
	"github.com/gorilla/mux"
	"github.com/refraction-networking/conjure/internal/vlib"
	"github.com/refraction-networking/conjure/internal/vlibc11"
	"github.com/refraction-networking/conjure/pkg/core"
	"github.com/refraction-networking/conjure/pkg/metrics"
	"github.com/refraction-networking/conjure/pkg/phantoms"
	"github.com/refraction-networking/conjure/pkg/registrars/dns-registrar/dns"
	"github.com/refraction-networking/conjure/pkg/registrars/dns-registrar/encryption"
	"github.com/refraction-networking/conjure/pkg/registrars/dns-registrar/msgformat"
	"github.com/refraction-networking/conjure/pkg/registrars/dns-registrar/responder"
	"github.com/refraction-networking/conjure/pkg/regserver/dnsregserver"
	"github.com/refraction-networking/conjure/pkg/regserver/regprocessor"
	pb "github.com/refraction-networking/conjure/proto"
	log "github.com/sirupsen/logrus"
	"google.golang.org/protobuf/proto"
	"google.golang.org/protobuf/types/known/anypb"
)

const c11Domain = "r.example.com"

type c11Reg struct {
	out    *vlib.Out
	r      *vlib.Rand
	g      *vlibc11.Gen
	sender *regprocessor.VerifSender
	proc   *regprocessor.RegProcessor
	m      *metrics.Metrics
	logger *log.Logger
	health *c11Health
	apis   []*APIRegServer // the front ends of the loopback servers (their locks count in the health check)
}

func c11Subnets(t *testing.T) (string, []uint32) {
	root := os.Getenv("VERIF_SCRATCH_REPO")
	if root == "" {
		root = "../../.."
	}
	subnets := filepath.Join(root, "internal", "test_assets", "phantom_subnets.toml")
	gens := []uint32{1, 2, 957}
	if os.Getenv("VERIF_C11_FOREIGN") != "0" { // generations that ran into the C14 findings (zero total weight, leading-zero networks) before their repair
		b, _ := os.ReadFile(subnets)
		extra := "\n    [Networks.1001]\n        Generation = 1001\n        [[Networks.1001.WeightedSubnets]]\n            Weight = 0\n            Subnets = [\"192.122.190.0/24\", \"2001:48a8:687f:1::/64\"]\n" +
			"\n    [Networks.1002]\n        Generation = 1002\n        [[Networks.1002.WeightedSubnets]]\n            Weight = 1\n            Subnets = [\"0.1.2.0/24\", \"64:ff9b::/96\"]\n"
		subnets = filepath.Join(t.TempDir(), "phantom_subnets.toml")
		_ = os.WriteFile(subnets, append(b, extra...), 0o644)
		gens = append(gens, 1001, 1002)
	}
	return subnets, gens
}

func newC11Reg(t *testing.T, out *vlib.Out, stream string) *c11Reg {
	subnets, gens := c11Subnets(t)
	os.Setenv("PHANTOM_SUBNET_LOCATION", subnets)
	lg := log.New()
	lg.SetOutput(io.Discard)
	c := &c11Reg{out: out, r: vlib.NewRand(stream), sender: &regprocessor.VerifSender{}, logger: lg}
	c.g = &vlibc11.Gen{R: c.r, Generations: gens}
	c.m = metrics.NewMetrics(log.NewEntry(lg), time.Hour)
	p, err := regprocessor.NewVerifProcessor(c.sender, c.m, bytes.Repeat([]byte{7}, 32), true)
	if err != nil {
		t.Fatal(err)
	}
	c.proc = p
	return c
}

func (c *c11Reg) fail(entry string, res vlibc11.Result, replay string) {
	c.out.OracleFail(res.Sig(entry), entry+": "+res.What(), replay)
}

// ---------------------------------------------------------------------------------------------
// message shapes

func (c *c11Reg) validWrapper(tr pb.TransportType, params proto.Message, gen uint32, v4, v6 bool) *pb.C2SWrapper {
	cs := &pb.ClientToStation{
		ClientLibVersion:    proto.Uint32(core.CurrentClientLibraryVersion()),
		DecoyListGeneration: proto.Uint32(gen),
		V4Support:           proto.Bool(v4),
		V6Support:           proto.Bool(v6),
		Transport:           &tr,
		CovertAddress:       proto.String("1.2.3.4:443"),
	}
	if params != nil {
		a, _ := anypb.New(params)
		a.TypeUrl = ""
		cs.TransportParams = a
	}
	return &pb.C2SWrapper{SharedSecret: c.r.Bytes(32), RegistrationPayload: cs}
}

// bodies: structured wrappers, the same mutated on the wire, well-formed ones, raw bytes
func (c *c11Reg) body(i int) ([]byte, string) {
	switch c.r.Intn(10) {
	case 0:
		return c.r.Bytes(c.r.Intn(120)), "random"
	case 1:
		trs := []pb.TransportType{pb.TransportType_Min, pb.TransportType_Prefix, pb.TransportType_Obfs4, pb.TransportType_DTLS}
		id := int32(c.r.Intn(10))
		ps := []proto.Message{&pb.GenericTransportParams{RandomizeDstPort: proto.Bool(c.r.Bool())}, &pb.PrefixTransportParams{PrefixId: &id, RandomizeDstPort: proto.Bool(c.r.Bool())},
			&pb.GenericTransportParams{}, &pb.DTLSTransportParams{RandomizeDstPort: proto.Bool(c.r.Bool())}}
		k := c.r.Intn(4)
		gen := c.g.Generations[c.r.Intn(len(c.g.Generations))]
		return vlibc11.Marshal(c.validWrapper(trs[k], ps[k], gen, c.r.Bool(), c.r.Bool())), "valid"
	case 2, 3:
		return c.g.Mutate(vlibc11.Marshal(c.g.Wrapper(i))), "mutated"
	}
	return vlibc11.Marshal(c.g.Wrapper(i)), "structured"
}

// ---------------------------------------------------------------------------------------------
// 1. HTTP front end

type panicLog struct {
	mu  sync.Mutex
	buf bytes.Buffer
}

func (p *panicLog) Write(b []byte) (int, error) {
	p.mu.Lock()
	defer p.mu.Unlock()
	if p.buf.Len() < 1<<20 {
		p.buf.Write(b)
	}
	return len(b), nil
}

func (p *panicLog) peek() string {
	p.mu.Lock()
	defer p.mu.Unlock()
	return p.buf.String()
}

func (p *panicLog) take() string {
	p.mu.Lock()
	defer p.mu.Unlock()
	s := p.buf.String()
	p.buf.Reset()
	return s
}

var c11FrameRe = regexp.MustCompile(`refraction-networking/conjure/(pkg/[^\s(]+(?:\([^)]*\))?[^\s(]*)\(`)

// crashSig extracts class and innermost repository function from a Go panic report
func crashSig(entry, report string) (string, string) {
	msg := "unknown"
	for _, l := range strings.Split(report, "\n") {
		if i := strings.Index(l, "panic serving"); i >= 0 {
			if j := strings.Index(l[i:], ": "); j >= 0 {
				msg = l[i+j+2:]
			}
			break
		}
		if strings.HasPrefix(l, "panic: ") {
			msg = strings.TrimPrefix(l, "panic: ")
			break
		}
	}
	frame := "unknown"
	for _, l := range strings.Split(report, "\n") {
		if strings.Contains(l, "zz_verif") || strings.Contains(l, "internal/vlib") {
			continue
		}
		if m := c11FrameRe.FindStringSubmatch(l); m != nil {
			frame = m[1]
			break
		}
	}
	return "C11:" + entry + ":" + vlibc11.Class(msg) + "@" + frame, "panic: " + msg + " in " + frame
}

func (c *c11Reg) newAPI(gen uint32, logIP bool) *APIRegServer {
	return &APIRegServer{processor: procRef{c}, latestClientConf: &pb.ClientConf{Generation: proto.Uint32(gen)}, logger: c.logger,
		logClientIP: logIP, metrics: c.m}
}

// c11DeclaredLengths: Content-Length values for a body of n bytes: around n and around the handler's
// lower bound, the powers of two at which an allocation sized by the header fails (makeslice: len out of
// range above 2^48 on 64-bit; MaxInt64) - those first, so that the verdict is the missing status line -,
// just beyond what net/http parses, and spellings it refuses. Lengths between 2^31 and 2^48 are left out on
// purpose: a handler that sized a buffer by them would take the harness process down ("fatal error: out of
// memory", which nothing recovers; the check reports that as a crash of the process) instead of failing
// the oracle with the request as replay.
func c11DeclaredLengths(n int) []string {
	l := []string{"9223372036854775807", "4611686018427387904", "281474976710657", "9223372036854775806",
		"0", "1", "32", "33", "34", strconv.Itoa(n), strconv.Itoa(n + 1), strconv.Itoa(n + 1000), "1048576", "1073741824",
		"9223372036854775808", "18446744073709551615", "18446744073709551616", "99999999999999999999999999",
		"-1", "+5", " 40", "40 ", "0x28", "4e1", "40, 40", "", "٤٠"}
	if n > 0 {
		l = append(l, strconv.Itoa(n-1))
	}
	return l
}

type noLenReader struct{ r io.Reader }

func (n noLenReader) Read(p []byte) (int, error) { return n.r.Read(p) }

func (c *c11Reg) httpFuzz() {
	plog := &panicLog{}
	servers := []*httptest.Server{}
	for _, gen := range []uint32{0, 1, 1000000} { // older than, equal to, newer than what clients name
		s := c.newAPI(gen, gen != 1)
		c.apis = append(c.apis, s)
		r := mux.NewRouter()
		r.HandleFunc("/register", s.register)
		r.HandleFunc("/register-bidirectional", s.registerBidirectional)
		srv := httptest.NewUnstartedServer(r)
		srv.Config.ErrorLog = golog.New(plog, "", 0)
		srv.Start()
		defer srv.Close()
		servers = append(servers, srv)
	}
	// after every request: the locks of the processor and of the three front ends are free again
	healthy := func(entry, replay string) {
		patience := 200 * time.Millisecond // the handler goroutine may still be on its way out
		if c.health != nil && c.health.reported[entry] >= 5 {
			patience = 0
		}
		c.after(entry, replay, patience, c.apis[0], c.apis[1], c.apis[2])
	}
	defer func() { c.probeLive("http", "http|section-end"); c.apis = nil }()
	client := &http.Client{Timeout: 2 * time.Second}
	patient := &http.Client{Timeout: 15 * time.Second}
	// X-Forwarded-For: nil = no header; otherwise the header instances in order (the handler takes the
	// last entry of the last instance, or the one before it when the peer is the local host, as here)
	xff := [][]string{nil, {""}, {" "}, {","}, {", ,"}, {",,"}, {"\t"}, {" , "}, {"1.2.3.4"}, {"1.2.3.4, 5.6.7.8"}, {"garbage"}, {"::1"},
		{"2001:db8::1, 127.0.0.1"}, {"1.2.3.4,"}, {",1.2.3.4"}, {"1.2.3.4", ""}, {"1.2.3.4", ","}, {"", "5.6.7.8"}, {"a,b,c,d,e"},
		{strings.Repeat("9", 300)}, {strings.Repeat(",", 300)}, {"1.2.3.4 , 5.6.7.8 ,"}, {"[::1]:80, 10.0.0.1:80"}}
	send := func(srv *httptest.Server, method, path string, body []byte, hdr []string, chunked bool, kind string) {
		mk := func() *http.Request {
			var rd io.Reader = bytes.NewReader(body)
			if chunked {
				rd = noLenReader{bytes.NewReader(body)}
			}
			req, err := http.NewRequest(method, srv.URL+path, rd)
			if err != nil {
				return nil
			}
			if hdr != nil {
				req.Header["X-Forwarded-For"] = hdr
			}
			return req
		}
		req := mk()
		if req == nil {
			return
		}
		resp, err := client.Do(req)
		c.out.Checked()
		replay := fmt.Sprintf("http|%s|%s|%s|%s|%s|%s", method, path, vlib.Hex(body), strconv.Quote(strings.Join(hdr, "\n")), vlib.B(chunked), vlib.B(hdr != nil))
		if err != nil && (errors.Is(err, os.ErrDeadlineExceeded) || strings.Contains(err.Error(), "Timeout")) && !strings.Contains(plog.peek(), "panic") {
			// no answer within 2 s: a hang or a stall of a loaded machine; the same request again, with patience
			c.out.Count("http:" + kind + ":slow")
			if req = mk(); req != nil {
				resp, err = patient.Do(req)
			}
		}
		if err != nil {
			report := plog.take()
			sig, what := "C11:http"+strings.ReplaceAll(path, "/", "-")+":no-status-line", "no HTTP status line: "+err.Error()
			if strings.Contains(report, "panic") {
				sig, what = crashSig("http"+strings.ReplaceAll(path, "/", "-"), report)
				what = "no HTTP status line; " + what
			} else if errors.Is(err, os.ErrDeadlineExceeded) || strings.Contains(err.Error(), "Timeout") {
				sig = "C11:http" + strings.ReplaceAll(path, "/", "-") + ":hang"
				what = "no HTTP status line within 2 s and, sent again, within 15 s"
			}
			c.out.OracleFail(sig, what, replay)
			c.out.Count("http:" + kind + ":no-status")
			return
		}
		_, _ = io.Copy(io.Discard, resp.Body)
		resp.Body.Close()
		c.out.Count(fmt.Sprintf("http:%s:%d", kind, resp.StatusCode))
		c.sender.Take()
		healthy("http"+strings.ReplaceAll(path, "/", "-"), replay)
	}
	// raw: a request written byte by byte onto a TCP connection, for what net/http's client will not send:
	// a body shorter than its Content-Length (then the sending side is shut), header lines of odd shapes
	raw := func(srv *httptest.Server, text []byte, kind string) {
		replay := "httpraw|" + vlib.Hex(text)
		attempt := func(limit time.Duration) (string, error) {
			conn, err := net.DialTimeout("tcp", srv.Listener.Addr().String(), limit)
			if err != nil {
				return "", nil // the harness could not connect: says nothing about the handler
			}
			defer conn.Close()
			_ = conn.SetDeadline(time.Now().Add(limit))
			if _, err := conn.Write(text); err != nil {
				return "", nil
			}
			if tc, ok := conn.(*net.TCPConn); ok {
				_ = tc.CloseWrite()
			}
			line, err := bufio.NewReader(conn).ReadString('\n')
			if err != nil && line == "" {
				return "", err
			}
			return line, nil
		}
		line, err := attempt(2 * time.Second)
		c.out.Checked()
		if err != nil && !strings.Contains(plog.peek(), "panic") {
			c.out.Count("http:" + kind + ":slow")
			line, err = attempt(15 * time.Second)
		}
		if err != nil || (line != "" && !strings.HasPrefix(line, "HTTP/1.")) {
			report := plog.take()
			sig, what := "C11:http-raw:no-status-line", fmt.Sprintf("no HTTP status line (got %.40q, err=%v)", line, err)
			if strings.Contains(report, "panic") {
				sig, what = crashSig("http-raw", report)
				what = "no HTTP status line; " + what
			}
			c.out.OracleFail(sig, what, replay)
			c.out.Count("http:" + kind + ":no-status")
			return
		}
		if len(line) >= 12 {
			c.out.Count("http:" + kind + ":" + line[9:12])
		}
		c.sender.Take()
		healthy("http-raw", replay)
	}
	// the request of DESIGN §7 first: a wrapper without registration payload
	noPayload := vlibc11.Marshal(&pb.C2SWrapper{SharedSecret: c.r.Bytes(32), RegistrationAddress: c.r.Bytes(16)})
	for _, srv := range servers {
		send(srv, "POST", "/register-bidirectional", noPayload, nil, false, "no-payload")
		send(srv, "POST", "/register", noPayload, nil, false, "no-payload")
	}
	// every header shape on both paths, with a well-formed body
	wellFormed := vlibc11.Marshal(c.validWrapper(pb.TransportType_Min, &pb.GenericTransportParams{}, 1, true, false))
	for _, srv := range servers[:2] {
		for _, hdr := range xff {
			send(srv, "POST", "/register-bidirectional", wellFormed, hdr, false, "xff")
			send(srv, "POST", "/register", wellFormed, hdr, false, "xff")
		}
	}
	// body sizes: far larger than any registration; a declared length that the body does not reach
	big := append(append([]byte(nil), wellFormed...), make([]byte, 1<<20)...)
	for _, path := range []string{"/register", "/register-bidirectional"} {
		send(servers[1], "POST", path, big, nil, false, "body-1MiB")
		send(servers[1], "POST", path, big, nil, true, "body-1MiB-chunked")
		for _, declared := range []int{len(wellFormed) + 1, len(wellFormed) + 1000, 1 << 30} {
			for _, sent := range [][]byte{wellFormed, wellFormed[:10], nil} {
				raw(servers[2], []byte(fmt.Sprintf("POST %s HTTP/1.1\r\nHost: x\r\nContent-Length: %d\r\n\r\n%s", path, declared, sent)), "body-short")
			}
		}
		// the declared length is a number the sender chooses, independent of the bytes that follow: every
		// spelling and every magnitude must end in a status line (the handler must not size anything by it)
		for _, declared := range c11DeclaredLengths(len(wellFormed)) {
			for _, sent := range [][]byte{wellFormed, wellFormed[:10], nil} {
				raw(servers[1], []byte(fmt.Sprintf("POST %s HTTP/1.1\r\nHost: x\r\nContent-Length: %s\r\n\r\n%s", path, declared, sent)), "declared-length")
			}
		}
		raw(servers[0], []byte(fmt.Sprintf("POST %s HTTP/1.1\r\nHost: x\r\nContent-Length: %d\r\nContent-Length: %d\r\n\r\n%s", path, len(wellFormed), len(wellFormed)+1, wellFormed)), "declared-length-twice")
		raw(servers[0], []byte(fmt.Sprintf("POST %s HTTP/1.1\r\nHost: x\r\nContent-Length: %d\r\nContent-Length: %d\r\n\r\n%s", path, len(wellFormed), len(wellFormed), wellFormed)), "declared-length-twice")
		raw(servers[0], []byte(fmt.Sprintf("POST %s HTTP/1.1\r\nHost: x\r\nContent-Length: %d\r\nTransfer-Encoding: chunked\r\n\r\n%x\r\n%s\r\n0\r\n\r\n", path, 1<<62, len(wellFormed), wellFormed)), "declared-length-and-chunked")
		raw(servers[0], []byte(fmt.Sprintf("POST %s HTTP/1.1\r\nHost: x\r\n\r\n%s", path, wellFormed)), "no-length")
		// the body cut at every byte, behind a truthful header (the sending side is shut after the cut)
		for k := 0; k <= len(wellFormed); k++ {
			raw(servers[1], []byte(fmt.Sprintf("POST %s HTTP/1.1\r\nHost: x\r\nContent-Length: %d\r\n\r\n%s", path, len(wellFormed), wellFormed[:k])), "body-cut")
		}
		// chunked bodies whose chunk sizes lie: larger and smaller than the data, no last chunk, no line ends
		for _, chunks := range []string{
			fmt.Sprintf("%x\r\n%s\r\n0\r\n\r\n", len(wellFormed), wellFormed),
			fmt.Sprintf("%x\r\n%s\r\n0\r\n\r\n", len(wellFormed)+1, wellFormed),
			fmt.Sprintf("%x\r\n%s\r\n0\r\n\r\n", len(wellFormed)-1, wellFormed),
			fmt.Sprintf("%x\r\n%s\r\n", len(wellFormed), wellFormed),
			fmt.Sprintf("%x\r\n%s", len(wellFormed), wellFormed),
			fmt.Sprintf("%x\r\n%s\r\n%x\r\n", len(wellFormed), wellFormed, 1<<40),
			fmt.Sprintf("%x;ext=1\r\n%s\r\n0\r\n\r\n", len(wellFormed), wellFormed),
			"zz\r\nabc\r\n0\r\n\r\n", "-5\r\nabc\r\n0\r\n\r\n", "0\r\n\r\n", "",
		} {
			raw(servers[1], []byte(fmt.Sprintf("POST %s HTTP/1.1\r\nHost: x\r\nTransfer-Encoding: chunked\r\n\r\n%s", path, chunks)), "chunk-sizes")
		}
		raw(servers[0], []byte(fmt.Sprintf("POST %s HTTP/1.1\r\nHost: x\r\nTransfer-Encoding: chunked\r\n\r\nffffffffffffffff\r\n%s", path, wellFormed)), "chunk-size-huge")
		raw(servers[0], []byte(fmt.Sprintf("POST %s HTTP/1.1\r\nHost: x\r\nTransfer-Encoding: chunked\r\n\r\n7fffffffffffffff\r\n%s", path, wellFormed)), "chunk-size-huge")
		raw(servers[0], []byte(fmt.Sprintf("POST %s HTTP/1.1\r\nHost: x\r\nContent-Length: %d\r\nX-Forwarded-For:\r\nX-Forwarded-For: ,\r\n\r\n%s", path, len(wellFormed), wellFormed)), "raw-xff")
		raw(servers[0], []byte(fmt.Sprintf("POST %s HTTP/1.1\r\nHost: x\r\nContent-Length: %d\r\nX-Forwarded-For: 1.2.3.4,\x00\r\n\r\n%s", path, len(wellFormed), wellFormed)), "raw-xff-nul")
		raw(servers[0], []byte(fmt.Sprintf("POST %s HTTP/1.1\r\nHost: x\r\nTransfer-Encoding: chunked\r\n\r\n5\r\nabc", path)), "chunk-short")
		raw(servers[0], []byte(fmt.Sprintf("POST %s HTTP/1.0\r\n\r\n", path)), "http10-no-length")
	}
	n := vlib.Budget(8000, 100000)
	for i := 0; i < n; i++ {
		b, kind := c.body(i)
		srv := servers[c.r.Intn(len(servers))]
		path := []string{"/register", "/register-bidirectional"}[c.r.Intn(2)]
		method := "POST"
		if c.r.Chance(1, 25) {
			method = []string{"GET", "PUT", "HEAD", "DELETE"}[c.r.Intn(4)]
		}
		var hdr []string
		if c.r.Chance(1, 4) {
			hdr = xff[c.r.Intn(len(xff))]
		}
		c.sender.Fail = c.r.Chance(1, 20)
		if c.r.Chance(1, 12) { // a declared length that has nothing to do with the body, in front of any kind of body
			dl := c11DeclaredLengths(len(b))
			sent := b
			if c.r.Chance(1, 3) {
				sent = b[:c.r.Intn(len(b)+1)]
			}
			raw(srv, []byte(fmt.Sprintf("%s %s HTTP/1.1\r\nHost: x\r\nContent-Length: %s\r\n\r\n%s", method, path, dl[c.r.Intn(len(dl))], sent)), kind+"-declared-length")
			continue
		}
		send(srv, method, path, b, hdr, c.r.Chance(1, 15), kind)
	}
	c.sender.Fail = false
}

// remoteAddrs: getRemoteAddr on requests built by hand (any header bytes, any number of instances, peers
// that are and are not the local host), compared with the model; what net.ParseIP makes of a candidate is
// handed to the model as a table
func (c *c11Reg) remoteAddrs() {
	vals := []string{"", " ", ",", ", ,", ",,", "\t", " , ", "1.2.3.4", "1.2.3.4, 5.6.7.8", "garbage", "::1", "2001:db8::1, 127.0.0.1", "1.2.3.4,",
		",1.2.3.4", "a,b,c,d,e", "1.2.3.4 , 5.6.7.8 ,", "[::1]:80, 10.0.0.1:80", "\x00", "\xff\xfe,1.1.1.1", " 9.9.9.9 ", "9.9.9.9\n", "1.2.3.4,,", ",,1.2.3.4",
		strings.Repeat(",", 40), "::ffff:1.2.3.4,fe80::1%eth0", "\u00a01.2.3.4\u00a0, 5.5.5.5\u2003"}
	peers := []string{"10.1.2.3:999", "127.0.0.1:5", "[::1]:80", "nonsense", "", "127.0.0.1", "[::ffff:127.0.0.1]:1"}
	one := func(peer string, hdr []string) {
		req := httptest.NewRequest("POST", "/register", nil)
		req.RemoteAddr = peer
		if hdr != nil {
			req.Header["X-Forwarded-For"] = hdr
		}
		remote, lb := "nil", false
		if ip := parseIP(peer); ip != nil {
			remote = vlib.Hex([]byte(ip.String()))
			lb = ip.Equal(net.ParseIP("127.0.0.1")) || ip.Equal(net.ParseIP("::1"))
		}
		values := "N"
		tb := map[string]bool{}
		var table []string
		if hdr != nil {
			hv := make([]string, len(hdr))
			for i, v := range hdr {
				hv[i] = vlib.Hex([]byte(v))
				for _, piece := range strings.Split(v, ",") {
					k := "ip:" + vlib.Hex([]byte(piece))
					if tb[k] {
						continue
					}
					tb[k] = true
					if ip := net.ParseIP(strings.TrimSpace(piece)); ip != nil {
						table = append(table, k+"="+vlib.Hex([]byte(ip.String())))
					} else {
						table = append(table, k+"=FAIL")
					}
				}
			}
			values = strings.Join(hv, ",")
		}
		line := fmt.Sprintf("ingress|remoteaddr|%s|%s|%s|%s", remote, vlib.B(lb), values, vlib.SortedJoin(table, ";"))
		ans := "ip nil"
		res := vlibc11.Guard(func() {
			if ip := getRemoteAddr(req); ip != nil {
				ans = "ip " + vlib.Hex([]byte(ip.String()))
			} else {
				ans = "ip nil"
			}
		})
		c.out.Checked()
		if res.Panic != "" {
			ans = "panic " + res.Panic
			if vlibc11.Class(res.Panic) == "index-out-of-range" {
				ans = "panic index out of range"
			}
		} else if res.Hang {
			ans = "hang"
		}
		c.out.Case(line, ans, hdr != nil)
		c.out.Count("remoteaddr:" + strings.Fields(ans)[0])
		if res.Bad() {
			c.fail("http-remote-addr", res, line)
		}
	}
	for _, peer := range peers {
		one(peer, nil)
		for _, v := range vals {
			one(peer, []string{v})
			one(peer, []string{"8.8.8.8", v})
			one(peer, []string{v, ""})
		}
	}
	for i := 0; i < vlib.Budget(1500, 30000); i++ {
		var hdr []string
		for k := c.r.Intn(3); k >= 0; k-- {
			var sb strings.Builder
			for j := c.r.Intn(5); j > 0; j-- {
				sb.WriteString([]string{",", " ", "1.2.3.4", "::1", "x", "\t", ", ", "10.0.0.", "7", string(c.r.Bytes(1))}[c.r.Intn(10)])
			}
			hdr = append(hdr, sb.String())
		}
		one(peers[c.r.Intn(len(peers))], hdr)
	}
}

// scripted registrar for the decision table of the handlers
type c11Scripted struct{ proc string }

func (s c11Scripted) err() error {
	switch s.proc {
	case "nobody":
		return regprocessor.ErrNoC2SBody
	case "legacy":
		return phantoms.ErrLegacyAddrSelectBug
	case "other":
		return regprocessor.ErrRegProcessFailed
	}
	return nil
}

func (s c11Scripted) RegisterUnidirectional(*pb.C2SWrapper, pb.RegistrationSource, []byte) error { return s.err() }
func (s c11Scripted) RegisterBidirectional(*pb.C2SWrapper, pb.RegistrationSource, []byte) (*pb.RegistrationResponse, error) {
	if e := s.err(); e != nil {
		return nil, e
	}
	return &pb.RegistrationResponse{DstPort: proto.Uint32(443)}, nil
}

type errReader struct{}

func (errReader) Read(p []byte) (int, error) { return 0, errors.New("broken body") }

func (c *c11Reg) httpTable() {
	with := vlibc11.Marshal(c.validWrapper(pb.TransportType_Min, nil, 5, true, false))
	without := vlibc11.Marshal(&pb.C2SWrapper{SharedSecret: c.r.Bytes(40)})
	garbage := append(bytes.Repeat([]byte{0xff}, 40), 0x07)
	for _, remoteOk := range []bool{true, false} {
		for _, post := range []bool{true, false} {
			for _, cl := range []int{-1, 0, 32, 33, 40, 1<<48 + 1, 1 << 62, math.MaxInt64} {
				for _, readable := range []bool{true, false} {
					for _, wr := range []string{"N", "0", "1"} {
						for _, newer := range []bool{false, true} {
							for _, proc := range []string{"ok", "nobody", "legacy", "other"} {
								for _, bd := range []bool{false, true} {
									body := map[string][]byte{"N": garbage, "0": without, "1": with}[wr]
									gen := uint32(0) // the request names generation 5 (or none, read as 0)
									if newer {
										gen = 9
									}
									s := &APIRegServer{processor: c11Scripted{proc}, latestClientConf: &pb.ClientConf{Generation: proto.Uint32(gen)},
										logger: c.logger, logClientIP: true, metrics: c.m}
									method := "GET"
									if post {
										method = "POST"
									}
									var rd io.Reader = bytes.NewReader(body)
									if !readable {
										rd = errReader{}
									}
									req := httptest.NewRequest(method, "/x", rd)
									req.ContentLength = int64(cl)
									req.RemoteAddr = "10.1.2.3:999"
									if !remoteOk {
										req.RemoteAddr = "nonsense"
									}
									w := httptest.NewRecorder()
									var line string
									if bd {
										line = fmt.Sprintf("ingress|bd|%s|%s|%d|%s|%s|%s|%s", vlib.B(remoteOk), vlib.B(post), cl, vlib.B(readable), wr, vlib.B(newer), proc)
									} else {
										if newer {
											continue
										}
										line = fmt.Sprintf("ingress|register|%s|%s|%d|%s|%s|%s", vlib.B(remoteOk), vlib.B(post), cl, vlib.B(readable), wr, proc)
									}
									res := vlibc11.Guard(func() {
										if bd {
											s.registerBidirectional(w, req)
										} else {
											s.register(w, req)
										}
									})
									ans := fmt.Sprintf("status %d", w.Code)
									if res.Panic != "" {
										ans = "panic " + res.Panic
									} else if res.Hang {
										ans = "hang"
									}
									c.out.Case(line, ans, w.Code < 300)
									c.out.Checked()
									if res.Bad() {
										entry := "http-register"
										if bd {
											entry = "http-register-bidirectional"
										}
										c.fail(entry, res, line)
									}
								}
							}
						}
					}
				}
			}
		}
	}
}

// ---------------------------------------------------------------------------------------------
// 2. the processor directly, and what it forwards

func (c *c11Reg) processor() {
	n := vlib.Budget(10000, 120000)
	for i := 0; i < n; i++ {
		b, kind := c.body(i)
		w := &pb.C2SWrapper{}
		if err := proto.Unmarshal(b, w); err != nil {
			c.out.Count("proc:" + kind + ":not-a-wrapper")
			continue
		}
		addr := c.g.Bytes(-1, 0, 4, 16, 17)
		src := pb.RegistrationSource([]int32{0, 2, 4, 5, 6, 99}[c.r.Intn(6)])
		for k, f := range []func(w *pb.C2SWrapper){
			func(w *pb.C2SWrapper) {
				_, err := c.proc.RegisterBidirectional(w, src, addr)
				c.out.Count(fmt.Sprintf("proc:bd:%s:err=%v", kind, err != nil))
			},
			func(w *pb.C2SWrapper) { _ = c.proc.RegisterUnidirectional(w, src, addr) },
			func(w *pb.C2SWrapper) { _, _ = c.proc.VerifProcessBdReq(w) },
			func(w *pb.C2SWrapper) { _, _ = c.proc.VerifProcessC2SWrapper(w, addr, src) },
		} {
			wc := proto.Clone(w).(*pb.C2SWrapper)
			res := vlibc11.Guard(func() { f(wc) })
			c.out.Checked()
			entry := []string{"register-bidirectional", "register-unidirectional", "process-bd-req", "process-c2s-wrapper"}[k]
			if res.Bad() {
				c.fail(entry, res, "proc|"+vlib.Hex(b))
			}
			if !res.Hang {
				c.after(entry, "proc|"+vlib.Hex(b), 0)
			}
		}
		c.sender.Take()
	}
	c.probeLive("processor", "proc|section-end")
	res := vlibc11.Guard(func() { _, _ = c.proc.VerifProcessC2SWrapper(nil, nil, pb.RegistrationSource_API) })
	if res.Bad() {
		c.fail("process-c2s-wrapper", res, "proc|nil")
	}
}

// ---------------------------------------------------------------------------------------------
// 3. DNS front end

func (c *c11Reg) dnsDirect() {
	for _, gen := range []uint32{0, 1000000} {
		s := dnsregserver.NewVerifDNSRegServerOn(procRef{c}, gen, c.logger, c.m)
		n := vlib.Budget(5000, 80000)
		for i := 0; i < n; i++ {
			b, kind := c.body(i)
			if c.r.Chance(1, 3) { // mark as bidirectional DNS so that both branches run
				w := &pb.C2SWrapper{}
				if proto.Unmarshal(b, w) == nil {
					src := pb.RegistrationSource_BidirectionalDNS
					w.RegistrationSource = &src
					b = vlibc11.Marshal(w)
				}
			}
			res := vlibc11.Guard(func() {
				_, err := s.VerifProcessRequest(b)
				c.out.Count(fmt.Sprintf("dns-direct:%s:err=%v", kind, err != nil))
			})
			c.out.Checked()
			if res.Bad() {
				c.fail("dns-process-request", res, "dnsreq|"+vlib.Hex(b))
			}
			if !res.Hang {
				c.after("dns-process-request", "dnsreq|"+vlib.Hex(b), 0, s)
			}
			c.sender.Take()
		}
	}
	c.probeLive("dns-process-request", "dnsreq|section-end")
}

// ---------------------------------------------------------------------------------------------
// 3a. the byte-level parsers behind the DNS front end, on exact-capacity buffers: frame decoders, TXT
// decoder, name reader, message reader, and responseFor on whatever the message reader returns. The
// answers are compared with the Lean models (the theorems *_no_panic / *_terminates are about those).

func (c *c11Reg) parser(entry, line string, nontrivial bool, f func() string) {
	var ans string
	res := vlibc11.Guard(func() { ans = f() })
	c.out.Checked()
	if res.Hang {
		ans = "hang"
	} else if res.Panic != "" {
		switch vlibc11.Class(res.Panic) {
		case "slice-out-of-range":
			ans = "panic slice bounds out of range"
		case "index-out-of-range":
			ans = "panic index out of range"
		default:
			ans = "panic " + res.Panic
		}
	}
	c.out.Case(line, ans, nontrivial && strings.HasPrefix(ans, "ok"))
	c.out.Count("parser:" + entry + ":" + strings.Fields(ans + " x")[0])
	if res.Bad() {
		c.fail("parser-"+entry, res, line)
	}
}

func (c *c11Reg) frameDecoders(p []byte) {
	p = vlibc11.ExactCap(p)
	c.parser("rmreq", "codec|rmreq|"+vlib.Hex(p), true, func() string { return vlibc11.OkOrErr(msgformat.RemoveRequestFormat(p)) })
	c.parser("rmresp", "codec|rmresp|"+vlib.Hex(p), true, func() string { return vlibc11.OkOrErr(msgformat.RemoveResponseFormat(p)) })
}

func (c *c11Reg) parsers() {
	// every (buffer length, announced length) pair around the point where the announced length meets the
	// end of the buffer, for both frame formats
	for n := 0; n <= 24; n++ {
		for b := 0; b <= n+2; b++ {
			p := c.r.Bytes(n)
			if n > 0 {
				p[0] = byte(b)
			}
			c.frameDecoders(p)
			if n > 1 {
				for _, hi := range []byte{0, 1, 0xff} {
					q := c.r.Bytes(n)
					q[0], q[1] = hi, byte(b)
					c.frameDecoders(q)
				}
			}
		}
	}
	for _, n := range []int{254, 255, 256, 257, 258} {
		for _, b := range []int{n - 2, n - 1, n, n + 1} {
			p := c.r.Bytes(n)
			p[0] = byte(b)
			c.frameDecoders(p)
			q := c.r.Bytes(n)
			q[0], q[1] = byte(b>>8), byte(b)
			c.frameDecoders(q)
		}
	}
	for i := 0; i < vlib.Budget(400, 8000); i++ {
		c.frameDecoders(c.r.Bytes(c.r.Intn(40)))
	}
	// TXT character strings: lengths that point at, just before and just behind the end of the buffer
	for i := 0; i < vlib.Budget(1200, 25000); i++ {
		var p []byte
		switch c.r.Intn(3) {
		case 0:
			p = c.r.Bytes(c.r.Intn(30))
		case 1:
			p = append([]byte(nil), dns.EncodeRDataTXT(c.r.Bytes(c.r.Intn(600)))...)
			if c.r.Bool() && len(p) > 0 {
				p[c.r.Intn(len(p))] = byte(c.r.U64())
			} else {
				p = p[:c.r.Intn(len(p)+1)]
			}
		default:
			for k := c.r.Intn(5); k >= 0; k-- {
				n := c.r.Intn(6)
				p = append(p, byte(n+c.r.Intn(3)-1))
				p = append(p, c.r.Bytes(n)...)
			}
		}
		p = vlibc11.ExactCap(p)
		c.parser("dectxt", "codec|dectxt|"+vlib.Hex(p), true, func() string { return vlibc11.OkOrErr(dns.DecodeRDataTXT(p)) })
	}
	// the name reader at every kind of offset
	for i := 0; i < vlib.Budget(2500, 60000); i++ {
		buf := vlibc11.ExactCap(c.g.NameBytes())
		pos := c.r.Intn(len(buf) + 2)
		c.parser("readname", fmt.Sprintf("codec|readname|%s|%d", vlib.Hex(buf), pos), true, func() string {
			n, at, err := dns.VerifReadName(buf, pos)
			if err != nil {
				return "err " + vlibc11.CodecErr(err)
			}
			return fmt.Sprintf("ok %s %d", vlibc11.ShowName(n), at)
		})
	}
	// the message reader: noise, plausible headers in front of name-like bytes, real queries bent on the wire
	domain, _ := dns.ParseName(c11Domain)
	for i := 0; i < vlib.Budget(2500, 50000); i++ {
		var buf []byte
		switch c.r.Intn(4) {
		case 0:
			buf = c.r.Bytes(c.r.Intn(40))
		case 1:
			buf = []byte{0, 1, 1, 0, 0, byte(c.r.Intn(3)), 0, byte(c.r.Intn(3)), 0, 0, 0, byte(c.r.Intn(2))}
			buf = append(buf, c.g.NameBytes()...)
			buf = append(buf, c.r.Bytes(c.r.Intn(16))...)
		case 2: // counts that promise more than there is
			buf = queryFor(c.r.Bytes(c.r.Intn(60)), domain, uint16(i), nil)
			if len(buf) > 12 {
				buf[4+2*c.r.Intn(4)+1] = byte(c.r.Intn(4))
				if c.r.Chance(1, 4) {
					buf[4+2*c.r.Intn(4)] = 0xff
				}
			}
		default:
			buf = c.g.Mutate(queryFor(c.r.Bytes(c.r.Intn(100)), domain, uint16(i), nil))
		}
		buf = vlibc11.ExactCap(buf)
		c.parser("parse", "codec|parse|"+vlib.Hex(buf), true, func() string {
			m, err := dns.MessageFromWireFormat(buf)
			if err != nil {
				return "err " + vlibc11.CodecErr(err)
			}
			return "ok " + vlibc11.ShowMsg(&m)
		})
	}
}

var c11B32 = base32.StdEncoding.WithPadding(base32.NoPadding)

func queryFor(payload []byte, domain dns.Name, id uint16, mut func(m *dns.Message)) []byte {
	enc := bytes.ToLower([]byte(c11B32.EncodeToString(payload)))
	var labels [][]byte
	for len(enc) > 0 {
		n := len(enc)
		if n > 63 {
			n = 63
		}
		labels = append(labels, enc[:n])
		enc = enc[n:]
	}
	name, err := dns.NewName(append(labels, domain...))
	if err != nil {
		name = domain
	}
	m := &dns.Message{ID: id, Flags: 0x0100, Question: []dns.Question{{Name: name, Type: dns.RRTypeTXT, Class: dns.ClassIN}},
		Additional: []dns.RR{{Name: dns.Name{}, Type: dns.RRTypeOPT, Class: 4096, Data: []byte{}}}}
	if mut != nil {
		mut(m)
	}
	b, err := m.WireFormat()
	if err != nil {
		return nil
	}
	return b
}

// datagrams for the responder: from noise to a complete, correctly encrypted registration
func (c *c11Reg) datagrams(pub []byte, n int) [][]byte {
	domain, _ := dns.ParseName(c11Domain)
	var out [][]byte
	seal := func(payload []byte) []byte {
		cfg := encryption.NewConfig()
		cfg.Initiator = true
		cfg.PeerStatic = pub
		cfg.Random = c.r
		hs, err := noise.NewHandshakeState(cfg)
		if err != nil {
			return nil
		}
		msg, _, _, err := hs.WriteMessage(nil, payload)
		if err != nil {
			return nil
		}
		return msg
	}
	small := func() []byte { // registrations that fit a query: short secrets and few fields
		w := &pb.C2SWrapper{SharedSecret: c.r.Bytes([]int{0, 8, 16, 32}[c.r.Intn(4)])}
		if !c.r.Chance(1, 4) {
			tr := pb.TransportType([]int32{0, 1, 2, 3, 4, 99}[c.r.Intn(6)])
			w.RegistrationPayload = &pb.ClientToStation{Transport: &tr, V4Support: proto.Bool(c.r.Bool()), V6Support: proto.Bool(c.r.Bool()),
				DecoyListGeneration: proto.Uint32(c.g.Generations[c.r.Intn(len(c.g.Generations))]), ClientLibVersion: proto.Uint32(uint32(c.r.Intn(6)))}
			if c.r.Chance(1, 3) {
				w.RegistrationPayload.TransportParams = &anypb.Any{Value: c.r.Bytes(c.r.Intn(6))}
			}
		}
		if c.r.Bool() {
			src := pb.RegistrationSource([]int32{5, 6, 6, 2, 99}[c.r.Intn(5)])
			w.RegistrationSource = &src
		}
		b := vlibc11.Marshal(w)
		if c.r.Chance(1, 4) {
			b = c.g.Mutate(b)
		}
		if len(b) > 90 {
			b = b[:90]
		}
		return b
	}
	sealedFrame := func() []byte {
		p, _ := msgformat.AddRequestFormat(seal(small()))
		return p
	}
	pl := c11Payloads{sealed: sealedFrame}
	// hand-written datagrams, then the exhaustive product of the small dimensions, then random ones
	out = append(out, c11DNSCorpus(domain)...)
	out = append(out, c.enumQueries(domain, pl)...)
	c.out.Note(fmt.Sprintf("DNS responder: %d hand-written and exhaustively enumerated datagrams in front of %d random ones", len(out), n))
	for i := 0; i < n; i++ {
		var d []byte
		switch c.r.Intn(16) {
		case 10, 11, 12, 13, 14, 15: // every dimension of a query drawn independently
			d = c.structuredQuery(domain, pl, uint16(i))
		case 0:
			d = c.r.Bytes(c.r.Intn(64))
		case 1: // query with arbitrary label content
			d = queryFor(c.r.Bytes(c.r.Intn(100)), domain, uint16(i), nil)
		case 2: // framed garbage instead of a Noise message
			p, _ := msgformat.AddRequestFormat(c.r.Bytes(c.r.Intn(120)))
			if c.r.Chance(1, 2) && len(p) > 0 { // a length that lies: anything, or off by one or two around the end of the packet
				p[0] = byte(c.r.U64())
				if c.r.Chance(2, 3) {
					p[0] = byte(len(p) - 3 + c.r.Intn(5))
				}
			}
			d = queryFor(p, domain, uint16(i), nil)
		case 3, 4, 5, 6: // complete registration
			p, _ := msgformat.AddRequestFormat(seal(small()))
			d = queryFor(p, domain, uint16(i), nil)
		case 7: // complete registration inside an odd query
			p, _ := msgformat.AddRequestFormat(seal(small()))
			d = queryFor(p, domain, uint16(i), func(m *dns.Message) {
				switch c.r.Intn(8) {
				case 0:
					m.Flags |= 0x8000
				case 1:
					m.Flags |= 0x7800
				case 2:
					m.Question = append(m.Question, m.Question[0])
				case 3:
					m.Question = nil
				case 4:
					m.Additional = append(m.Additional, m.Additional[0])
				case 5:
					m.Additional[0].TTL = 0x00010000
				case 6:
					m.Additional[0].Class = uint16(c.r.Intn(600))
				default:
					m.Question[0].Type = uint16(c.r.Intn(20))
				}
			})
		default: // a complete query with bytes changed on the wire
			p, _ := msgformat.AddRequestFormat(seal(small()))
			d = c.g.Mutate(queryFor(p, domain, uint16(i), nil))
		}
		if d == nil {
			d = []byte{0}
		}
		out = append(out, d)
	}
	return out
}

// child: feeds the datagrams of a file to the real RecvAndRespond, one at a time
type feedConn struct {
	in       [][]byte
	next     int
	base     int
	progress *os.File
	answers  int
	mu       sync.Mutex // the progress file is written by the loop and by the handler goroutines
}

func (f *feedConn) log(format string, a ...any) {
	f.mu.Lock()
	fmt.Fprintf(f.progress, format, a...)
	f.mu.Unlock()
}

func (f *feedConn) ReadFrom(p []byte) (int, net.Addr, error) {
	if f.base == 0 {
		f.base = runtime.NumGoroutine()
	} else { // let the goroutine that handles the previous datagram finish
		// 2 s is slow (counted), 15 s is a hang: a stall of a loaded machine must not look like one
		start, slow := time.Now(), false
		for runtime.NumGoroutine() > f.base {
			if d := time.Since(start); d > 15*time.Second {
				// the goroutine may spin for ever: end this child, the parent goes on behind the datagram
				f.log("HANG %d\n", f.next-1)
				os.Exit(3)
			} else if d > 2*time.Second && !slow {
				slow = true
				f.log("SLOW %d\n", f.next-1)
			}
			time.Sleep(20 * time.Microsecond)
		}
	}
	if f.next >= len(f.in) {
		return 0, nil, io.EOF
	}
	// the datagram is named in the trail before the code under test sees it
	f.log("%d\n", f.next)
	n := copy(p, f.in[f.next])
	f.next++
	return n, &net.UDPAddr{IP: net.IPv4(127, 0, 0, 1), Port: 5353}, nil
}

func (f *feedConn) WriteTo(p []byte, addr net.Addr) (int, error) {
	f.mu.Lock()
	f.answers++
	fmt.Fprintf(f.progress, "W %d %s\n", f.next-1, hex.EncodeToString(p))
	f.mu.Unlock()
	return len(p), nil
}
func (f *feedConn) Close() error                                 { return nil }
func (f *feedConn) LocalAddr() net.Addr                          { return &net.UDPAddr{IP: net.IPv4(127, 0, 0, 1), Port: 53} }
func (f *feedConn) SetDeadline(t time.Time) error                { return nil }
func (f *feedConn) SetReadDeadline(t time.Time) error            { return nil }
func (f *feedConn) SetWriteDeadline(t time.Time) error           { return nil }

func TestVerifC11Child(t *testing.T) {
	inPath := os.Getenv("VERIF_C11_CHILD_IN")
	if inPath == "" {
		t.Skip("child of TestVerifC11Registrar only")
	}
	golog.SetOutput(io.Discard)
	start, _ := strconv.Atoi(os.Getenv("VERIF_C11_CHILD_START"))
	priv, _ := hex.DecodeString(os.Getenv("VERIF_C11_CHILD_KEY"))
	raw, err := os.ReadFile(inPath)
	if err != nil {
		t.Fatal(err)
	}
	var in [][]byte
	for _, l := range strings.Split(strings.TrimSpace(string(raw)), "\n") {
		b, _ := hex.DecodeString(strings.TrimPrefix(l, "-"))
		in = append(in, b)
	}
	progress, err := os.OpenFile(os.Getenv("VERIF_C11_CHILD_PROGRESS"), os.O_CREATE|os.O_WRONLY|os.O_TRUNC, 0o644)
	if err != nil {
		t.Fatal(err)
	}
	defer progress.Close()
	out := vlib.Open("C11child")
	c := newC11Reg(t, out, "C11-child")
	srv := dnsregserver.NewVerifDNSRegServer(c.proc, 5, c.logger, c.m)
	resp, err := responder.NewDnsResponder(c11Domain, "127.0.0.1:0", priv)
	if err != nil {
		t.Fatal(err)
	}
	feed := &feedConn{in: in, next: start, progress: progress}
	resp.VerifSetTransport(feed)
	callbacks := 0
	_ = resp.RecvAndRespond(func(b []byte) ([]byte, error) {
		callbacks++
		r, err := srv.VerifProcessRequest(b)
		if err != nil {
			feed.log("C %d %s ERR\n", feed.next-1, "x"+hex.EncodeToString(b))
		} else {
			feed.log("C %d %s %s\n", feed.next-1, "x"+hex.EncodeToString(b), "x"+hex.EncodeToString(r))
		}
		// one datagram at a time: nothing else is inside the processor now
		if held := append(vlibc11.LocksHeld(c.proc, 0), vlibc11.LocksHeld(srv, 0)...); len(held) > 0 {
			feed.log("L %d %s\n", feed.next-1, strings.Join(held, ","))
			c.renewProc()
			srv = dnsregserver.NewVerifDNSRegServer(c.proc, 5, c.logger, c.m)
		}
		return r, err
	})
	// the registrar behind the responder still reloads and answers
	probe := make(chan error, 1)
	go func() {
		if err := c.proc.ReloadSubnets(); err != nil {
			probe <- err
			return
		}
		_, err := c.proc.RegisterBidirectional(c.probeWrapper(), pb.RegistrationSource_BidirectionalDNS, []byte{10, 0, 0, 1})
		probe <- err
	}()
	select {
	case err := <-probe:
		if err != nil {
			feed.log("PROBE-ERROR %v\n", err)
		}
	case <-time.After(15 * time.Second):
		feed.log("WEDGED %s\n", vlibc11.Stacks(4))
	}
	feed.log("DONE %d %d\n", feed.answers, callbacks)
}

func (c *c11Reg) dnsChild(t *testing.T) {
	priv := c.r.Bytes(32)
	pub := encryption.PubkeyFromPrivkey(priv)
	c.feedChild(t, priv, c.datagrams(pub, vlib.Budget(10000, 120000)))
}

// feedChild runs the datagrams through the real RecvAndRespond in child processes; a child that dies
// names the datagram it was handling (the replay carries the responder's key)
func (c *c11Reg) feedChild(t *testing.T, priv []byte, in [][]byte) {
	dir := t.TempDir()
	inPath, progPath := filepath.Join(dir, "in.txt"), filepath.Join(dir, "progress.txt")
	var sb strings.Builder
	for _, d := range in {
		if len(d) == 0 {
			sb.WriteString("-") // an empty line would be lost at the start of the file
		}
		sb.WriteString(hex.EncodeToString(d))
		sb.WriteByte('\n')
	}
	if err := os.WriteFile(inPath, []byte(sb.String()), 0o644); err != nil {
		t.Fatal(err)
	}
	domain, _ := dns.ParseName(c11Domain)
	model, merr := responder.NewDnsResponder(c11Domain, "127.0.0.1:0", priv) // craftResponse for the model's table
	if merr == nil {
		_ = model.Close()
	}
	start, hangs := 0, 0
	for round := 0; round < 25 && start < len(in); round++ {
		cmd := exec.Command(os.Args[0], "-test.run=^TestVerifC11Child$", "-test.timeout=25m")
		cmd.Env = append(os.Environ(), "VERIF_C11_CHILD_IN="+inPath, "VERIF_C11_CHILD_PROGRESS="+progPath,
			"VERIF_C11_CHILD_START="+strconv.Itoa(start), "VERIF_C11_CHILD_KEY="+hex.EncodeToString(priv),
			"VERIF_OUT="+dir)
		var stderr bytes.Buffer
		cmd.Stderr = &stderr
		cmd.Stdout = &stderr
		err := cmd.Run()
		prog, _ := os.ReadFile(progPath)
		last, done, answers, callbacks, hung := -1, false, 0, 0, -1
		seen := map[int]*c11Seen{}
		at := func(k int) *c11Seen {
			if seen[k] == nil {
				seen[k] = &c11Seen{}
			}
			return seen[k]
		}
		sc := bufio.NewScanner(bytes.NewReader(prog))
		sc.Buffer(make([]byte, 1<<16), 1<<24)
		for sc.Scan() {
			l := sc.Text()
			switch {
			case strings.HasPrefix(l, "W "):
				var k int
				var x string
				if n, _ := fmt.Sscanf(l, "W %d %s", &k, &x); n >= 1 {
					b, _ := hex.DecodeString(x)
					at(k).written = append(at(k).written, b)
				}
			case strings.HasPrefix(l, "C "):
				var k int
				var x, y string
				if n, _ := fmt.Sscanf(l, "C %d %s %s", &k, &x, &y); n == 3 {
					s := at(k)
					s.called = true
					s.request, _ = hex.DecodeString(strings.TrimPrefix(x, "x"))
					if y == "ERR" {
						s.failed = true
					} else {
						s.response, _ = hex.DecodeString(strings.TrimPrefix(y, "x"))
					}
				}
			case strings.HasPrefix(l, "L "):
				var k int
				var x string
				if n, _ := fmt.Sscanf(l, "L %d %s", &k, &x); n == 2 && k < len(in) {
					c.out.OracleFail("C11:dns-responder:lock-held-after-return",
						"the registrar answered the registration a datagram carried and returned with "+x+" held: the next reload blocks for ever and every bidirectional registration behind it",
						"dns|"+hex.EncodeToString(in[k])+"|"+hex.EncodeToString(priv))
				}
			case strings.HasPrefix(l, "WEDGED "):
				c.out.OracleFail("C11:dns-responder:hang-after-rejected-input",
					"after the datagrams of this run (each dealt with) the registrar behind the responder did not reload its subnets and answer a well-formed registration within 15 s; stuck: "+strings.TrimPrefix(l, "WEDGED "),
					"dns|"+hex.EncodeToString(in[min(max(last, 0), len(in)-1)])+"|"+hex.EncodeToString(priv))
			case strings.HasPrefix(l, "PROBE-ERROR "):
				c.out.Note("responder child: health probe: " + l)
			case strings.HasPrefix(l, "HANG "):
				k, _ := strconv.Atoi(strings.TrimPrefix(l, "HANG "))
				hung = k
				c.out.OracleFail("C11:dns-responder:hang", "a datagram was not dealt with within 15 s", "dns|"+hex.EncodeToString(in[k])+"|"+hex.EncodeToString(priv))
			case strings.HasPrefix(l, "SLOW "):
				c.out.Count("dns-child:slow")
			case strings.HasPrefix(l, "DONE "):
				done = true
				_, _ = fmt.Sscanf(l, "DONE %d %d", &answers, &callbacks)
			default:
				last, _ = strconv.Atoi(l)
			}
		}
		for i := start; i <= last; i++ {
			c.out.Checked()
			// every datagram the child dealt with completely, against the model of the handler
			if merr == nil && i < len(in) && (i < last || (done && err == nil)) {
				s := c11Seen{}
				if seen[i] != nil {
					s = *seen[i]
				}
				c.dgramCase(model, domain, in[i], s)
			}
		}
		if done && err == nil {
			c.out.Note(fmt.Sprintf("responder child: %d datagrams from #%d, %d answered, %d decrypted and passed to the registrar", last-start+1, start, answers, callbacks))
			c.out.Count("dns-child:datagrams-fed")
			return
		}
		if last < start {
			c.out.Note("responder child did not start: " + stderr.String())
			c.out.OracleFail("C11:dns-responder:child-did-not-run", "the child process that drives RecvAndRespond failed before the first datagram", stderr.String())
			return
		}
		if hung >= 0 { // the child gave up on a datagram whose handler did not end; three of those are enough
			hangs++
			if hangs >= 3 {
				c.out.Note(fmt.Sprintf("responder child: stopped after %d datagrams whose handler did not end within 15 s", hangs))
				return
			}
			start = hung + 1
			continue
		}
		sig, what := crashSig("dns-responder", stderr.String())
		c.out.OracleFail(sig, "the process died while handling a datagram; "+what, "dns|"+hex.EncodeToString(in[last])+"|"+hex.EncodeToString(priv))
		start = last + 1
	}
}

// ---------------------------------------------------------------------------------------------

func (c *c11Reg) replay(t *testing.T, path string) {
	f, err := os.Open(path)
	if err != nil {
		panic(err)
	}
	defer f.Close()
	sc := bufio.NewScanner(f)
	sc.Buffer(make([]byte, 1<<20), 1<<26)
	unhex := func(x string) []byte {
		if x == "-" {
			return nil
		}
		b, _ := hex.DecodeString(x)
		return b
	}
	for sc.Scan() {
		line := sc.Text()
		p := strings.Split(line, "|")
		if strings.HasPrefix(line, "#") || len(p) < 2 {
			continue
		}
		switch p[0] {
		case "http":
			if len(p) < 6 {
				continue
			}
			for _, gen := range []uint32{0, 1, 1000000} {
				s := c.newAPI(gen, true)
				r := mux.NewRouter()
				r.HandleFunc("/register", s.register)
				r.HandleFunc("/register-bidirectional", s.registerBidirectional)
				plog := &panicLog{}
				srv := httptest.NewUnstartedServer(r)
				srv.Config.ErrorLog = golog.New(plog, "", 0)
				srv.Start()
				req, _ := http.NewRequest(p[1], srv.URL+p[2], bytes.NewReader(unhex(p[3])))
				if h, err := strconv.Unquote(p[4]); err == nil && (h != "" || (len(p) > 6 && p[6] == "1")) {
					req.Header["X-Forwarded-For"] = strings.Split(h, "\n")
				}
				resp, err := (&http.Client{Timeout: 15 * time.Second}).Do(req)
				c.out.Checked()
				if err != nil {
					sig, what := crashSig("http"+strings.ReplaceAll(p[2], "/", "-"), plog.take())
					c.out.OracleFail(sig, "no HTTP status line; "+what, line)
					fmt.Printf("replay: server ClientConf generation %d: NO STATUS LINE (%v)\n", gen, err)
				} else {
					fmt.Printf("replay: server ClientConf generation %d: status %d\n", gen, resp.StatusCode)
					resp.Body.Close()
					c.after("http"+strings.ReplaceAll(p[2], "/", "-"), line, 200*time.Millisecond, s)
				}
				srv.Close()
			}
			c.probeLive("http", line)
		case "httpraw":
			for _, gen := range []uint32{0, 1000000} {
				s := c.newAPI(gen, true)
				r := mux.NewRouter()
				r.HandleFunc("/register", s.register)
				r.HandleFunc("/register-bidirectional", s.registerBidirectional)
				plog := &panicLog{}
				srv := httptest.NewUnstartedServer(r)
				srv.Config.ErrorLog = golog.New(plog, "", 0)
				srv.Start()
				conn, err := net.DialTimeout("tcp", srv.Listener.Addr().String(), 15*time.Second)
				if err == nil {
					_ = conn.SetDeadline(time.Now().Add(15 * time.Second))
					_, _ = conn.Write(unhex(p[1]))
					if tc, ok := conn.(*net.TCPConn); ok {
						_ = tc.CloseWrite()
					}
					status, rerr := bufio.NewReader(conn).ReadString('\n')
					c.out.Checked()
					if rerr != nil && status == "" {
						sig, what := crashSig("http-raw", plog.take())
						c.out.OracleFail(sig, "no HTTP status line; "+what, line)
						fmt.Printf("replay: server ClientConf generation %d: NO STATUS LINE (%v)\n", gen, rerr)
					} else {
						fmt.Printf("replay: server ClientConf generation %d: %s", gen, status)
					}
					conn.Close()
				}
				srv.Close()
			}
		case "proc":
			w := &pb.C2SWrapper{}
			if proto.Unmarshal(unhex(p[1]), w) != nil {
				continue
			}
			for k, f := range []func(w *pb.C2SWrapper){
				func(w *pb.C2SWrapper) { _, _ = c.proc.RegisterBidirectional(w, pb.RegistrationSource_BidirectionalAPI, make([]byte, 16)) },
				func(w *pb.C2SWrapper) { _ = c.proc.RegisterUnidirectional(w, pb.RegistrationSource_API, make([]byte, 16)) },
				func(w *pb.C2SWrapper) { _, _ = c.proc.VerifProcessBdReq(w) },
				func(w *pb.C2SWrapper) { _, _ = c.proc.VerifProcessC2SWrapper(w, make([]byte, 16), pb.RegistrationSource_API) },
			} {
				entry := []string{"register-bidirectional", "register-unidirectional", "process-bd-req", "process-c2s-wrapper"}[k]
				wc := proto.Clone(w).(*pb.C2SWrapper)
				res := vlibc11.Guard(func() { f(wc) })
				c.out.Checked()
				if res.Bad() {
					c.fail(entry, res, line)
				} else {
					c.after(entry, line, 0)
				}
			}
			c.probeLive("processor", line)
		case "procmsg":
			plain, err := regprocessor.NewVerifProcessor(c.sender, c.m, bytes.Repeat([]byte{7}, 32), false)
			if err != nil {
				continue
			}
			if p[1] == "nil" {
				c.c2swCase(c.proc, nil, nil, pb.RegistrationSource_API, "replay", line, true)
				c.bdreqCase(plain, nil, "replay", line)
			} else if p[1] != "oddkey" && p[1] != "section-end" {
				for i := 0; i < 12; i++ { // the client address and the channel are drawn per run
					c.msgOne(plain, unhex(p[1]), "replay")
				}
			}
		case "dns":
			if len(p) >= 3 {
				c.feedChild(t, unhex(p[2]), [][]byte{unhex(p[1])})
			}
		case "dnsreq":
			s := dnsregserver.NewVerifDNSRegServer(c.proc, 1000000, c.logger, c.m)
			res := vlibc11.Guard(func() { _, _ = s.VerifProcessRequest(unhex(p[1])) })
			c.out.Checked()
			if res.Bad() {
				c.fail("dns-process-request", res, line)
			} else {
				c.after("dns-process-request", line, 0, s)
			}
			c.probeLive("dns-process-request", line)
		case "ingress":
			if p[1] == "bd" || p[1] == "register" {
				fmt.Println("replay: decision-table cases are re-run by the table itself")
				c.httpTable()
			}
			if p[1] == "dnsreq" {
				fmt.Println("replay: the DNS handler cases are re-run as a whole")
				c.dnsHandler()
			}
			if p[1] == "reghist" {
				fmt.Println("replay: the registrar histories are re-run as a whole")
				c.histories()
			}
		default:
			fmt.Println("replay (registrar side): not a registrar case:", p[0])
		}
	}
}

func TestVerifC11Registrar(t *testing.T) {
	if os.Getenv("VERIF_C11_CHILD_IN") != "" {
		t.Skip("child mode")
	}
	golog.SetOutput(io.Discard)
	out := vlib.Open("C11b")
	defer out.Close()
	c := newC11Reg(t, out, "C11-registrar")
	if rp := vlib.Replay(); rp != "" {
		// one fixed case so that the driver always has something to answer, then the file
		w := httptest.NewRecorder()
		c.newAPI(1, false).register(w, httptest.NewRequest("GET", "/register", nil))
		out.Case("ingress|register|1|0|0|1|N|ok", fmt.Sprintf("status %d", w.Code), false)
		c.replay(t, rp)
		return
	}
	c.httpFuzz()
	c.httpTable()
	c.remoteAddrs()
	c.processor()
	c.msgLines()
	c.histories()
	c.parsers()
	c.writers()
	c.dnsDirect()
	c.dnsHandler()
	c.dnsChild(t)
}
