//go:build verif

package regprocessor

// Exports for the C11 harness (exist only in the scratch copy): a processor with every transport,
// the production override, signing enabled and a recording sender instead of the ZMQ socket.

import (
	"crypto/ed25519"
	"net"
	"sync"

	zmq "github.com/pebbe/zmq4"
	"github.com/refraction-networking/conjure/pkg/core/interfaces"
	"github.com/refraction-networking/conjure/pkg/metrics"
	"github.com/refraction-networking/conjure/pkg/phantoms"
	"github.com/refraction-networking/conjure/pkg/regserver/overrides"
	"github.com/refraction-networking/conjure/pkg/station/lib"
	"github.com/refraction-networking/conjure/pkg/transports/connecting/dtls"
	"github.com/refraction-networking/conjure/pkg/transports/wrapping/min"
	"github.com/refraction-networking/conjure/pkg/transports/wrapping/obfs4"
	"github.com/refraction-networking/conjure/pkg/transports/wrapping/prefix"
	pb "github.com/refraction-networking/conjure/proto"
)

type VerifSender struct {
	mu   sync.Mutex
	Sent [][]byte
	Fail bool
}

func (s *VerifSender) SendBytes(b []byte, f zmq.Flag) (int, error) {
	s.mu.Lock()
	defer s.mu.Unlock()
	if s.Fail {
		return 0, ErrZmqFault
	}
	if len(s.Sent) < 4096 {
		s.Sent = append(s.Sent, append([]byte(nil), b...))
	}
	return len(b), nil
}

func (s *VerifSender) Close() error { return nil }

func (s *VerifSender) Take() [][]byte {
	s.mu.Lock()
	defer s.mu.Unlock()
	out := s.Sent
	s.Sent = nil
	return out
}

func verifNet(c string) Ipnet {
	_, n, err := net.ParseCIDR(c)
	if err != nil {
		panic(err)
	}
	return Ipnet{n}
}

// NewVerifProcessor: PHANTOM_SUBNET_LOCATION must point at the subnet file.
func NewVerifProcessor(sender *VerifSender, m *metrics.Metrics, seed []byte, enforceOverrides bool) (*RegProcessor, error) {
	sel, err := phantoms.GetPhantomSubnetSelector()
	if err != nil {
		return nil, err
	}
	overrideSubnets := []Subnet{
		{CIDR: verifNet("10.11.0.0/24"), Weight: 1, Transport: "Min_Transport"},
		{CIDR: verifNet("10.12.0.0/30"), Weight: 3, Transport: "Min_Transport"},
		{CIDR: verifNet("10.13.0.0/24"), Weight: 1, Port: 80, Transport: "Prefix_Transport", PrefixId: prefix.GetLong},
		{CIDR: verifNet("10.14.0.0/16"), Weight: 2, Port: 22, Transport: "Prefix_Transport", PrefixId: prefix.OpenSSH2},
	}
	minS, prefS := splitOverrideSubnets(overrideSubnets)
	pMin, pPref := validateOverridePercentages(60, 60)
	p := &RegProcessor{
		ipSelector:                             sel,
		sock:                                   sender,
		metrics:                                m,
		transports:                             map[pb.TransportType]lib.Transport{},
		authenticated:                          true,
		privkey:                                ed25519.NewKeyFromSeed(seed),
		regOverrides:                           interfaces.Overrides([]interfaces.RegOverride{overrides.NewRandPrefixOverride()}),
		enforceSubnetOverrides:                 enforceOverrides,
		minOverrideSubnets:                     minS,
		prefixOverrideSubnets:                  prefS,
		minOverrideSubnetsCumulativeWeights:    processOverrideSubnetsWeights(minS),
		prefixOverrideSubnetsCumulativeWeights: processOverrideSubnetsWeights(prefS),
		exclusionsFromOverride:                 []Subnet{{CIDR: verifNet("192.122.190.0/28")}},
		prcntMinRegsToOverride:                 pMin,
		prcntPrefixRegsToOverride:              pPref,
	}
	_ = p.AddTransport(pb.TransportType_Min, min.Transport{})
	_ = p.AddTransport(pb.TransportType_Obfs4, obfs4.Transport{})
	_ = p.AddTransport(pb.TransportType_DTLS, dtls.Transport{})
	_ = p.AddTransport(pb.TransportType_Prefix, prefix.DefaultSet())
	return p, nil
}

func (p *RegProcessor) VerifProcessBdReq(c *pb.C2SWrapper) (*pb.RegistrationResponse, error) {
	return p.processBdReq(c)
}

func (p *RegProcessor) VerifProcessC2SWrapper(c *pb.C2SWrapper, addr []byte, src pb.RegistrationSource) ([]byte, error) {
	return p.processC2SWrapper(c, addr, src)
}
