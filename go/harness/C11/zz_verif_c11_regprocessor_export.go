//go:build verif

package regprocessor

// Exports for the C11 harness (exist only in the scratch copy): a processor with every transport,
// the production override, signing enabled and a recording sender instead of the ZMQ socket.

import (
	"crypto/ed25519"
	"crypto/rand"
	"encoding/hex"
	"net"
	"strings"
	"sync"

	zmq "github.com/pebbe/zmq4"
	"github.com/refraction-networking/conjure/pkg/core"
	"github.com/refraction-networking/conjure/pkg/core/interfaces"
	"github.com/refraction-networking/conjure/pkg/metrics"
	"github.com/refraction-networking/conjure/pkg/phantoms"
	"github.com/refraction-networking/conjure/pkg/regserver/overrides"
	"github.com/refraction-networking/conjure/pkg/station/lib"
	"github.com/refraction-networking/conjure/pkg/transports/connecting/dtls"
	"github.com/refraction-networking/conjure/pkg/transports/wrapping/min"
	"github.com/refraction-networking/conjure/pkg/transports/wrapping/obfs4"
	"github.com/refraction-networking/conjure/pkg/transports/wrapping/prefix"
	pb "github.com/refraction-networking/conjure/proto"
	"google.golang.org/protobuf/proto"
)

type VerifSender struct {
	mu   sync.Mutex
	Sent [][]byte
	Fail bool
}

func (s *VerifSender) SendBytes(b []byte, f zmq.Flag) (int, error) {
	s.mu.Lock()
	defer s.mu.Unlock()
	if s.Fail {
		return 0, ErrZmqFault
	}
	if len(s.Sent) < 4096 {
		s.Sent = append(s.Sent, append([]byte(nil), b...))
	}
	return len(b), nil
}

func (s *VerifSender) Close() error { return nil }

func (s *VerifSender) Take() [][]byte {
	s.mu.Lock()
	defer s.mu.Unlock()
	out := s.Sent
	s.Sent = nil
	return out
}

func verifNet(c string) Ipnet {
	_, n, err := net.ParseCIDR(c)
	if err != nil {
		panic(err)
	}
	return Ipnet{n}
}

// NewVerifProcessor: PHANTOM_SUBNET_LOCATION must point at the subnet file.
func NewVerifProcessor(sender *VerifSender, m *metrics.Metrics, seed []byte, enforceOverrides bool) (*RegProcessor, error) {
	sel, err := phantoms.GetPhantomSubnetSelector()
	if err != nil {
		return nil, err
	}
	overrideSubnets := []Subnet{
		{CIDR: verifNet("10.11.0.0/24"), Weight: 1, Transport: "Min_Transport"},
		{CIDR: verifNet("10.12.0.0/30"), Weight: 3, Transport: "Min_Transport"},
		{CIDR: verifNet("10.13.0.0/24"), Weight: 1, Port: 80, Transport: "Prefix_Transport", PrefixId: prefix.GetLong},
		{CIDR: verifNet("10.14.0.0/16"), Weight: 2, Port: 22, Transport: "Prefix_Transport", PrefixId: prefix.OpenSSH2},
	}
	minS, prefS := splitOverrideSubnets(overrideSubnets)
	pMin, pPref := validateOverridePercentages(60, 60)
	p := &RegProcessor{
		ipSelector:                             sel,
		sock:                                   sender,
		metrics:                                m,
		transports:                             map[pb.TransportType]lib.Transport{},
		authenticated:                          true,
		privkey:                                ed25519.NewKeyFromSeed(seed),
		regOverrides:                           interfaces.Overrides([]interfaces.RegOverride{overrides.NewRandPrefixOverride()}),
		enforceSubnetOverrides:                 enforceOverrides,
		minOverrideSubnets:                     minS,
		prefixOverrideSubnets:                  prefS,
		minOverrideSubnetsCumulativeWeights:    processOverrideSubnetsWeights(minS),
		prefixOverrideSubnetsCumulativeWeights: processOverrideSubnetsWeights(prefS),
		exclusionsFromOverride:                 []Subnet{{CIDR: verifNet("192.122.190.0/28")}},
		prcntMinRegsToOverride:                 pMin,
		prcntPrefixRegsToOverride:              pPref,
	}
	_ = p.AddTransport(pb.TransportType_Min, min.Transport{})
	_ = p.AddTransport(pb.TransportType_Obfs4, obfs4.Transport{})
	_ = p.AddTransport(pb.TransportType_DTLS, dtls.Transport{})
	_ = p.AddTransport(pb.TransportType_Prefix, prefix.DefaultSet())
	return p, nil
}

func (p *RegProcessor) VerifProcessBdReq(c *pb.C2SWrapper) (*pb.RegistrationResponse, error) {
	return p.processBdReq(c)
}

func (p *RegProcessor) VerifProcessC2SWrapper(c *pb.C2SWrapper, addr []byte, src pb.RegistrationSource) ([]byte, error) {
	return p.processC2SWrapper(c, addr, src)
}

// VerifAuth: whether the processor signs registration responses, and the length of its private key.
func (p *RegProcessor) VerifAuth() (bool, int) { return p.authenticated, len(p.privkey) }

// VerifSetPrivkey replaces the signing key (a configuration value; ed25519.Sign panics on a key that is
// not 64 bytes long - the partial operation of the model of processC2SWrapper).
func (p *RegProcessor) VerifSetPrivkey(k []byte) { p.privkey = k }

// VerifBdLine: the parameters of the Lean model of processBdReq (`ingress|bdreq|…`) for this wrapper. Each
// is computed on its own by the component processBdReq calls (GenSharedKeys, the selector, the transport
// table, ParseParams, the overrides, GetDstPort) on a copy of the wrapper; WHICH of them are consulted, in
// which order, and what is done with the selected addresses is the model's business.
func (p *RegProcessor) VerifBdLine(w0 *pb.C2SWrapper) string {
	b := func(x bool) string {
		if x {
			return "1"
		}
		return "0"
	}
	hx := func(x []byte) string {
		if len(x) == 0 {
			return "-"
		}
		return hex.EncodeToString(x)
	}
	var w *pb.C2SWrapper
	if w0 != nil {
		w = proto.Clone(w0).(*pb.C2SWrapper)
	}
	c2s := w.GetRegistrationPayload()
	ver := uint(c2s.GetClientLibVersion())
	keys, kerr := core.GenSharedKeys(ver, w.GetSharedSecret(), c2s.GetTransport())
	sel4, sel6 := "E", "E"
	randPort := true
	if kerr == nil {
		p.selectorMutex.RLock()
		selector := p.ipSelector
		p.selectorMutex.RUnlock()
		if ph, err := selector.Select(keys.ConjureSeed, uint(c2s.GetDecoyListGeneration()), ver, false); err == nil {
			sel4 = hx(*ph.IP())
			if c2s.GetV4Support() {
				randPort = ph.SupportRandomPort()
			}
		}
		if ph, err := selector.Select(keys.ConjureSeed, uint(c2s.GetDecoyListGeneration()), ver, true); err == nil {
			sel6 = hx(*ph.IP())
			if c2s.GetV6Support() {
				randPort = randPort && ph.SupportRandomPort()
			}
		}
	}
	t, known := p.transports[c2s.GetTransport()]
	paramsOk, overrideOk, dstOk := false, true, false
	if known {
		params, err := t.ParseParams(ver, c2s.GetTransportParams())
		paramsOk = err == nil
		if paramsOk && kerr == nil {
			dstOk = true
			if randPort {
				_, err := t.GetDstPort(ver, keys.ConjureSeed, params)
				dstOk = err == nil
			}
		}
	}
	if w != nil && c2s != nil && p.regOverrides != nil && !c2s.GetDisableRegistrarOverrides() {
		w.RegistrationResponse = &pb.RegistrationResponse{}
		overrideOk = p.regOverrides.Override(w, rand.Reader) == nil
	}
	return strings.Join([]string{"ingress", "bdreq", b(c2s != nil), b(kerr == nil), b(c2s.GetV4Support()), b(c2s.GetV6Support()),
		sel4, sel6, b(known), b(paramsOk), b(overrideOk), b(dstOk)}, "|")
}
