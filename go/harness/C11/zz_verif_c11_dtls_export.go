//go:build verif

package dtls

// Export for the C11 harness (exists only in the scratch copy): a DTLS transport whose address
// translation and listener are supplied by the harness, so that Connect - which the station starts in a
// goroutine of its own for every ingested DTLS registration - runs on the real code without a tun device
// or a socket bound to the DTLS port.

import (
	"context"
	"net"

	"github.com/refraction-networking/conjure/pkg/core/interfaces"
	"github.com/refraction-networking/conjure/pkg/dtls"
)

type VerifAccept func(ctx context.Context, cfg *dtls.Config) (net.Conn, error)

func (f VerifAccept) AcceptWithContext(ctx context.Context, cfg *dtls.Config) (net.Conn, error) {
	return f(ctx, cfg)
}

func NewVerifTransport(dnat interfaces.DNAT, accept VerifAccept) *Transport {
	return &Transport{DNAT: dnat, dtlsListener: accept, logDialSuccess: func(*net.IP) {}, logListenSuccess: func(*net.IP) {}}
}
