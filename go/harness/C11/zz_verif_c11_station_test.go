//go:build verif

package lib

// C11, station side: registration messages as they arrive over ZMQ, first-flight bytes on phantom
// connections, transport parameters. Every call of the code under test runs under
// vlibc11.Guard (recover + 2 s watchdog); a panic or a hang is an oracle failure with the input as
// replay. The length guards of the wrapping transports are also compared with the Lean model.

import (
	"bufio"
	"bytes"
	"crypto/hmac"
	"crypto/sha256"
	"encoding/hex"
	"fmt"
	"io"
	golog "log"
	"net"
	"os"
	"path/filepath"
	"sort"
	"strings"
	"testing"
	"time"

	"github.com/refraction-networking/conjure/internal/vlib"
	"github.com/refraction-networking/conjure/internal/vlibc11"
	"github.com/refraction-networking/conjure/pkg/core"
	"github.com/refraction-networking/conjure/pkg/station/log"
	"github.com/refraction-networking/conjure/pkg/transports"
	"github.com/refraction-networking/conjure/pkg/transports/connecting/dtls"
	"github.com/refraction-networking/conjure/pkg/transports/wrapping/min"
	"github.com/refraction-networking/conjure/pkg/transports/wrapping/obfs4"
	"github.com/refraction-networking/conjure/pkg/transports/wrapping/prefix"
	pb "github.com/refraction-networking/conjure/proto"
	"golang.org/x/crypto/curve25519"
	"google.golang.org/protobuf/proto"
	"google.golang.org/protobuf/types/known/anypb"
)

type c11NotLive struct{}

func (c11NotLive) PhantomIsLive(addr string, port uint16) (bool, error) { return false, nil }
func (c11NotLive) PrintAndReset(logger *log.Logger)                      {}
func (c11NotLive) PrintStats(logger *log.Logger)                         {}
func (c11NotLive) Reset()                                                {}

// c11Conn: a connection whose peer has gone: reads end at once, writes vanish.
type c11Conn struct{}

func (c11Conn) Read(b []byte) (int, error)         { return 0, io.EOF }
func (c11Conn) Write(b []byte) (int, error)        { return len(b), nil }
func (c11Conn) Close() error                       { return nil }
func (c11Conn) LocalAddr() net.Addr                { return &net.TCPAddr{IP: net.IPv4(10, 0, 0, 1), Port: 443} }
func (c11Conn) RemoteAddr() net.Addr               { return &net.TCPAddr{IP: net.IPv4(10, 9, 8, 7), Port: 4000} }
func (c11Conn) SetDeadline(t time.Time) error      { return nil }
func (c11Conn) SetReadDeadline(t time.Time) error  { return nil }
func (c11Conn) SetWriteDeadline(t time.Time) error { return nil }

type c11Station struct {
	out     *vlib.Out
	r       *vlib.Rand
	g       *vlibc11.Gen
	rm      *RegistrationManager
	priv    [32]byte
	pub     []byte
	prefixT *prefix.Transport
	// registrations made on purpose, to build almost-valid flights
	known []*DecoyRegistration
}

func (s *c11Station) fail(entry string, res vlibc11.Result, replay string) {
	s.out.OracleFail(res.Sig(entry), entry+": "+res.What(), replay)
}

func newC11Station(t *testing.T, out *vlib.Out) *c11Station {
	root := os.Getenv("VERIF_SCRATCH_REPO")
	if root == "" {
		root = "../../.."
	}
	subnets := filepath.Join(root, "internal", "test_assets", "phantom_subnets.toml")
	gens := []uint32{1, 2, 957}
	if os.Getenv("VERIF_C11_FOREIGN") != "0" { // generations that ran into the C14 findings (zero total weight, leading-zero networks) before their repair
		b, _ := os.ReadFile(subnets)
		extra := "\n    [Networks.1001]\n        Generation = 1001\n        [[Networks.1001.WeightedSubnets]]\n            Weight = 0\n            Subnets = [\"192.122.190.0/24\", \"2001:48a8:687f:1::/64\"]\n" +
			"\n    [Networks.1002]\n        Generation = 1002\n        [[Networks.1002.WeightedSubnets]]\n            Weight = 1\n            Subnets = [\"0.1.2.0/24\", \"64:ff9b::/96\"]\n"
		subnets = filepath.Join(t.TempDir(), "phantom_subnets.toml")
		_ = os.WriteFile(subnets, append(b, extra...), 0o644)
		gens = append(gens, 1001, 1002)
	}
	os.Setenv("PHANTOM_SUBNET_LOCATION", subnets)
	devnull, _ := os.OpenFile(os.DevNull, os.O_WRONLY, 0)
	saved := os.Stdout
	os.Stdout = devnull // NewRegistrationManager logs to os.Stdout
	rm := NewRegistrationManager(&RegConfig{EnableIPv4: true, EnableIPv6: true})
	os.Stdout = saved
	if rm == nil {
		t.Fatal("no registration manager")
	}
	rm.Logger = log.New(io.Discard, "", golog.Ldate)
	rm.LivenessTester = c11NotLive{}
	rm.registeredDecoys.registerForDetector = func(d *DecoyRegistration) {}
	rm.registeredDecoys.updateInDetector = func(d *DecoyRegistration) {}
	s := &c11Station{out: out, r: vlib.NewRand("C11-station"), rm: rm}
	s.g = &vlibc11.Gen{R: s.r, Generations: gens}
	copy(s.priv[:], s.r.Bytes(32))
	s.pub, _ = curve25519.X25519(s.priv[:], curve25519.Basepoint)
	pt, err := prefix.Default([][32]byte{s.priv})
	if err != nil {
		t.Fatal(err)
	}
	s.prefixT = pt
	_ = rm.AddTransport(pb.TransportType_Min, min.Transport{})
	_ = rm.AddTransport(pb.TransportType_Obfs4, obfs4.Transport{})
	_ = rm.AddTransport(pb.TransportType_Prefix, pt)
	_ = rm.AddTransport(pb.TransportType_DTLS, dtls.Transport{}) // identification and parameters only; never connected
	return s
}

// ---------------------------------------------------------------------------------------------
// 1. ZMQ registration messages

func (s *c11Station) ingest(msg []byte, how string) []*DecoyRegistration {
	var regs []*DecoyRegistration
	res := vlibc11.Guard(func() {
		var err error
		regs, err = s.rm.parseRegMessage(msg)
		if err != nil {
			s.out.Count("zmq:" + how + ":error")
			regs = nil
			return
		}
		s.out.Count(fmt.Sprintf("zmq:%s:regs-%d", how, len(regs)))
		for _, reg := range regs {
			if reg == nil {
				continue
			}
			if _, ok := s.rm.GetConnectingTransports()[reg.Transport]; ok {
				continue // a connecting transport would dial the client: outside this harness
			}
			s.rm.ingestRegistration(reg)
			_ = reg.String()
			if w := reg.GenerateC2SWrapper(); w != nil {
				_, _ = proto.Marshal(w)
			}
		}
	})
	s.out.Checked()
	if res.Bad() {
		s.fail("zmq-ingest", res, "zmq|"+vlib.Hex(msg))
		return nil
	}
	return regs
}

func (s *c11Station) validWrapper(secret []byte, tr pb.TransportType, params proto.Message, gen uint32, v6 bool) *pb.C2SWrapper {
	c := &pb.ClientToStation{
		ClientLibVersion:    proto.Uint32(core.CurrentClientLibraryVersion()),
		DecoyListGeneration: proto.Uint32(gen),
		V4Support:           proto.Bool(true),
		V6Support:           proto.Bool(v6),
		Transport:           &tr,
		CovertAddress:       proto.String("1.2.3.4:443"),
	}
	if params != nil {
		a, _ := anypb.New(params)
		a.TypeUrl = ""
		c.TransportParams = a
	}
	src := pb.RegistrationSource_API
	return &pb.C2SWrapper{SharedSecret: secret, RegistrationPayload: c, RegistrationSource: &src,
		RegistrationAddress: []byte{10, 9, 8, 7}}
}

func (s *c11Station) zmq() {
	// registrations that really exist, for the flights below
	for i := 0; i < 12; i++ {
		secret := s.r.Bytes(32)
		var w *pb.C2SWrapper
		switch i % 4 {
		case 0:
			w = s.validWrapper(secret, pb.TransportType_Min, &pb.GenericTransportParams{RandomizeDstPort: proto.Bool(i%8 == 0)}, 1, false)
		case 1:
			id := int32(i % 10)
			w = s.validWrapper(secret, pb.TransportType_Prefix, &pb.PrefixTransportParams{PrefixId: &id}, 1, false)
		case 2:
			w = s.validWrapper(secret, pb.TransportType_Obfs4, &pb.GenericTransportParams{}, 1, false)
		default:
			w = s.validWrapper(secret, pb.TransportType_Prefix, nil, 1, false) // absent parameters
		}
		for _, reg := range s.ingest(vlibc11.Marshal(w), "valid") {
			if reg != nil && len(s.rm.GetRegistrations(reg.PhantomIp)) > 0 {
				s.known = append(s.known, reg)
			}
		}
	}
	if len(s.known) < 8 {
		s.out.Note(fmt.Sprintf("only %d of 12 well-formed registrations were admitted", len(s.known)))
	}
	n := vlib.Budget(12000, 250000)
	for i := 0; i < n; i++ {
		w := s.g.Wrapper(i)
		b := vlibc11.Marshal(w)
		s.ingest(b, "structured")
		if i%3 == 0 {
			s.ingest(s.g.Mutate(b), "mutated")
		}
	}
	for i := 0; i < vlib.Budget(3000, 50000); i++ {
		s.ingest(s.r.Bytes(s.r.Intn(80)), "random")
	}
	// a well-formed message with one field bent at a time
	base := vlibc11.Marshal(s.validWrapper(s.r.Bytes(32), pb.TransportType_Min, &pb.GenericTransportParams{}, 1, true))
	for i := 0; i < len(base); i++ {
		for _, v := range []byte{0, 0xff, base[i] ^ 0x80, base[i] + 1} {
			b := append([]byte(nil), base...)
			b[i] = v
			s.ingest(b, "bent")
		}
		s.ingest(base[:i], "cut")
	}
}

// ---------------------------------------------------------------------------------------------
// 2. first-flight bytes

func verdictOf(reg transports.Registration, err error, before, after int, obfs bool) string {
	switch {
	case err == nil || (obfs && reg != nil):
		if obfs {
			return "found 0"
		}
		return fmt.Sprintf("found %d", before-after)
	case reg != nil:
		return "found 0"
	case err == transports.ErrTryAgain:
		return "tryAgain"
	case err == transports.ErrNotTransport:
		return "notTransport"
	case err == prefix.ErrIncorrectTransport:
		return "incorrectTransport"
	case err == prefix.ErrIncorrectPrefix:
		return "incorrectPrefix"
	}
	return "error " + err.Error()
}

func (s *c11Station) wrap(name string, t WrappingTransport, data []byte, phantom net.IP, modelLine string) {
	var ans string
	var consumed int
	var accepted bool
	res := vlibc11.Guard(func() {
		// exact capacity: a slice beyond the data panics instead of reading what lies behind it
		exact := make([]byte, len(data))
		copy(exact, data)
		buf := bytes.NewBuffer(exact)
		reg, conn, err := t.WrapConnection(buf, c11Conn{}, phantom, s.rm)
		ans = verdictOf(reg, err, len(data), buf.Len(), name == "obfs4")
		consumed, accepted = len(data)-buf.Len(), reg != nil
		if conn != nil {
			_ = conn.Close()
		}
	})
	s.out.Checked()
	// bytes.Buffer hands out its spare capacity without complaint: a transport that consumed more than
	// was offered has read bytes the client never sent
	if accepted && (consumed < 0 || consumed > len(data)) {
		s.out.OracleFail("C11:wrap-"+name+":consumed-beyond-data", fmt.Sprintf("WrapConnection accepted a %d-byte flight and consumed %d bytes", len(data), consumed), modelLine)
	}
	if res.Hang {
		ans = "hang"
	} else if res.Panic != "" {
		switch vlibc11.Class(res.Panic) {
		case "slice-out-of-range":
			ans = "panic slice bounds out of range"
		case "index-out-of-range":
			ans = "panic index out of range"
		default:
			ans = "panic " + res.Panic
		}
	}
	s.out.Case(modelLine, ans, strings.HasPrefix(ans, "found"))
	s.out.Count("wrap:" + name + ":" + strings.Fields(ans)[0])
	if res.Bad() {
		s.fail("wrap-"+name, res, modelLine)
	}
}

func (s *c11Station) idsOn(phantom net.IP) []string {
	var ids []string
	for id := range s.rm.GetRegistrations(phantom) {
		ids = append(ids, vlib.Hex([]byte(id)))
	}
	sort.Strings(ids)
	return ids
}

func (s *c11Station) prefixViews(data []byte, phantom net.IP) string {
	seen := map[string]bool{}
	var views []string
	for _, p := range s.prefixT.SupportedPrefixes {
		if len(data) < p.Offset+64 {
			continue
		}
		w := data[p.Offset : p.Offset+64]
		if seen[string(w)] {
			continue
		}
		seen[string(w)] = true
		id, err := transports.CTRObfuscator{}.TryReveal(w, s.priv)
		if err != nil || id == nil {
			continue
		}
		reg, ok := s.rm.GetRegistrations(phantom)[string(id)]
		if !ok {
			continue
		}
		view := "noparams"
		if reg.TransportType() != pb.TransportType_Prefix {
			view = "other"
		} else if pp, ok := reg.TransportParams().(*pb.PrefixTransportParams); ok {
			if pp == nil {
				view = "nil"
			} else {
				view = fmt.Sprintf("id:%d", pp.GetPrefixId())
			}
		}
		views = append(views, vlib.Hex(w)+"="+view)
	}
	sort.Strings(views)
	return strings.Join(views, ";")
}

func (s *c11Station) obfs4Marks(data []byte, phantom net.IP) string {
	if len(data) < 32 {
		return ""
	}
	var marks []string
	for id, r := range s.rm.GetRegistrations(phantom) {
		if len(id) != 52 {
			continue
		}
		keys, ok := r.TransportKeys().(obfs4.Obfs4Keys)
		if !ok {
			marks = append(marks, "00") // never equal to a 16-byte mark
			continue
		}
		h := hmac.New(sha256.New, append(append([]byte(nil), keys.PublicKey.Bytes()[:]...), keys.NodeID.Bytes()[:]...))
		h.Write(data[:32])
		marks = append(marks, hex.EncodeToString(h.Sum(nil)[:16]))
	}
	sort.Strings(marks)
	return strings.Join(marks, ",")
}

func (s *c11Station) offer(data []byte, phantom net.IP) {
	s.wrap("min", min.Transport{}, data, phantom,
		fmt.Sprintf("ingress|min|%s|%s", vlib.Hex(data), strings.Join(s.idsOn(phantom), ",")))
	s.wrap("prefix", s.prefixT, data, phantom,
		fmt.Sprintf("ingress|prefix|%s|%s", vlib.Hex(data), s.prefixViews(data, phantom)))
	s.wrap("obfs4", obfs4.Transport{}, data, phantom,
		fmt.Sprintf("ingress|obfs4|%s|%s", vlib.Hex(data), s.obfs4Marks(data, phantom)))
}

func (s *c11Station) flights() {
	empty := net.ParseIP("192.122.190.250")
	var statics [][]byte
	for _, p := range s.prefixT.SupportedPrefixes {
		statics = append(statics, p.StaticMatch)
	}
	sort.Slice(statics, func(i, j int) bool { return bytes.Compare(statics[i], statics[j]) < 0 })
	// every length around every threshold, on a phantom without and with registrations
	phantoms := []net.IP{empty}
	for _, reg := range s.known {
		phantoms = append(phantoms, reg.PhantomIp)
	}
	for n := 0; n <= 130; n++ {
		for _, st := range statics {
			d := append(append([]byte(nil), st...), s.r.Bytes(130)...)
			s.offer(d[:n], phantoms[n%len(phantoms)])
		}
	}
	for _, n := range []int{8190, 8191, 8192, 8193, 9000} {
		s.offer(s.r.Bytes(n), phantoms[n%len(phantoms)])
	}
	// almost-valid flights for the registrations that exist
	for _, reg := range s.known {
		secret := reg.Keys.SharedSecret
		switch reg.Transport {
		case pb.TransportType_Min:
			tag := core.ConjureHMAC(secret, "MinTrasportHMACString")
			for _, extra := range []int{0, 1, 100} {
				d := append(append([]byte(nil), tag...), s.r.Bytes(extra)...)
				s.offer(d, reg.PhantomIp)
				s.offer(d[:len(d)-1], reg.PhantomIp)
				s.offer(d, empty)
			}
		case pb.TransportType_Prefix:
			id := core.ConjureHMAC(secret, "PrefixTransportHMACString")
			for _, st := range statics {
				tag, err := transports.CTRObfuscator{}.Obfuscate(id, s.pub)
				if err != nil {
					continue
				}
				d := append(append(append([]byte(nil), st...), tag...), s.r.Bytes(s.r.Intn(40))...)
				s.offer(d, reg.PhantomIp)
				for _, cut := range []int{len(st) + 63, len(st) + 64, len(st) + 32, 64, 63} {
					if cut <= len(d) {
						s.offer(d[:cut], reg.PhantomIp)
					}
				}
				d2 := append([]byte(nil), d...)
				d2[len(st)+31] ^= 0xc0 // the two free bits of the representative
				s.offer(d2, reg.PhantomIp)
				d2[len(st)+40] ^= 1
				s.offer(d2, reg.PhantomIp)
			}
		case pb.TransportType_Obfs4:
			keys, ok := reg.TransportKeys().(obfs4.Obfs4Keys)
			if !ok {
				continue
			}
			for _, total := range []int{64, 109, 140, 141, 142, 500, 8191, 8192, 8193, 8300} {
				if total < 64 {
					continue
				}
				d := s.r.Bytes(total)
				h := hmac.New(sha256.New, append(append([]byte(nil), keys.PublicKey.Bytes()[:]...), keys.NodeID.Bytes()[:]...))
				h.Write(d[:32])
				end := total
				if end > 8192 {
					end = 8192
				}
				copy(d[end-32:end-16], h.Sum(nil)[:16]) // the mark where the server looks for it; the MAC stays garbage
				s.offer(d, reg.PhantomIp)
				s.offer(d[:total-1], reg.PhantomIp)
			}
		}
	}
	for i := 0; i < vlib.Budget(4000, 80000); i++ {
		var d []byte
		switch s.r.Intn(3) {
		case 0:
			d = s.r.Bytes(s.r.Intn(200))
		case 1:
			d = append(append([]byte(nil), statics[s.r.Intn(len(statics))]...), s.r.Bytes(s.r.Intn(120))...)
			if s.r.Chance(1, 3) && len(d) > 0 {
				d = d[:s.r.Intn(len(d))]
			}
		default:
			d = s.g.Mutate(append(append([]byte(nil), statics[s.r.Intn(len(statics))]...), s.r.Bytes(70)...))
		}
		s.offer(d, phantoms[s.r.Intn(len(phantoms))])
	}
}

// ---------------------------------------------------------------------------------------------
// 3. transport parameters and the URL-less Any

func (s *c11Station) params() {
	ts := []struct {
		name string
		t    Transport
	}{{"min", min.Transport{}}, {"obfs4", obfs4.Transport{}}, {"prefix", s.prefixT}, {"dtls", dtls.Transport{}},
		{"prefix-empty", &prefix.Transport{}}}
	var parsed []any
	parsed = append(parsed, nil, &pb.GenericTransportParams{}, (*pb.GenericTransportParams)(nil), &pb.PrefixTransportParams{},
		(*pb.PrefixTransportParams)(nil), &pb.DTLSTransportParams{}, (*pb.DTLSTransportParams)(nil), 7, "x")
	n := vlib.Budget(8000, 120000)
	for i := 0; i < n; i++ {
		a := s.g.Any(i % 4)
		if s.r.Chance(1, 5) && a != nil {
			b := s.g.Mutate(vlibc11.Marshal(a))
			a2 := &anypb.Any{}
			if proto.Unmarshal(b, a2) == nil {
				a = a2
			}
		}
		libver := uint([]uint{0, 1, 2, 3, 4, 5, 1 << 31}[s.r.Intn(7)])
		for _, tt := range ts {
			var copyA *anypb.Any
			if a != nil {
				copyA = proto.Clone(a).(*anypb.Any)
			}
			res := vlibc11.Guard(func() {
				p, err := tt.t.ParseParams(libver, copyA)
				if err == nil {
					s.out.Count("params:" + tt.name + ":ok")
					if len(parsed) < 400 {
						parsed = append(parsed, p)
					}
				} else {
					s.out.Count("params:" + tt.name + ":error")
				}
				_ = tt.t.ParamStrings(p)
			})
			s.out.Checked()
			if res.Bad() {
				s.fail("parse-params-"+tt.name, res, fmt.Sprintf("params|%s|%d|%s", tt.name, libver, vlib.Hex(vlibc11.Marshal(a))))
			}
		}
		// mismatched parameter types into every GetDstPort
		p := parsed[s.r.Intn(len(parsed))]
		seed := s.r.Bytes([]int{0, 1, 16, 32}[s.r.Intn(4)])
		for _, tt := range ts {
			res := vlibc11.Guard(func() {
				_, _ = tt.t.GetDstPort(libver, seed, p)
				_ = tt.t.ParamStrings(p)
			})
			s.out.Checked()
			if res.Bad() {
				s.fail("dst-port-"+tt.name, res, fmt.Sprintf("dstport|%s|%d|%T|%s", tt.name, libver, p, vlib.Hex(seed)))
			}
		}
		// the URL-less Any itself, into every destination type
		for _, dst := range []proto.Message{&pb.GenericTransportParams{}, &pb.PrefixTransportParams{}, &pb.DTLSTransportParams{}, &pb.ClientToStation{}} {
			var copyA *anypb.Any
			if a != nil {
				copyA = proto.Clone(a).(*anypb.Any)
			}
			res := vlibc11.Guard(func() { _ = transports.UnmarshalAnypbTo(copyA, dst) })
			s.out.Checked()
			if res.Bad() {
				s.fail("anypb-nourl", res, fmt.Sprintf("any|%T|%s", dst, vlib.Hex(vlibc11.Marshal(a))))
			}
		}
	}
}

// ---------------------------------------------------------------------------------------------

func (s *c11Station) replay(path string) {
	f, err := os.Open(path)
	if err != nil {
		panic(err)
	}
	defer f.Close()
	sc := bufio.NewScanner(f)
	sc.Buffer(make([]byte, 1<<20), 1<<26)
	for sc.Scan() {
		line := sc.Text()
		p := strings.Split(line, "|")
		if strings.HasPrefix(line, "#") || len(p) < 2 {
			continue
		}
		unhex := func(x string) []byte {
			if x == "-" {
				return nil
			}
			b, _ := hex.DecodeString(x)
			return b
		}
		switch {
		case p[0] == "zmq":
			s.ingest(unhex(p[1]), "replay")
		case p[0] == "ingress" && len(p) >= 3 && (p[1] == "min" || p[1] == "prefix" || p[1] == "obfs4"):
			s.offer(unhex(p[2]), net.ParseIP("192.122.190.250"))
		default:
			fmt.Println("replay (station side): not a station case:", p[0])
		}
	}
}

func TestVerifC11Station(t *testing.T) {
	golog.SetOutput(io.Discard)
	out := vlib.Open("C11a")
	defer out.Close()
	s := newC11Station(t, out)
	if rp := vlib.Replay(); rp != "" {
		// one fixed case so that the driver always has something to answer, then the file
		s.wrap("min", min.Transport{}, nil, net.ParseIP("192.122.190.250"), "ingress|min|-|")
		s.replay(rp)
		return
	}
	s.zmq()
	s.flights()
	s.params()
}
