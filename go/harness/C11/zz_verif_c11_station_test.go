//go:build verif

package lib

// C11, station side: registration messages as they arrive over ZMQ, first-flight bytes on phantom
// connections, transport parameters. Every call of the code under test runs under
// vlibc11.Guard (recover + 2 s watchdog); a panic or a hang is an oracle failure with the input as
// replay. The length guards of the wrapping transports are also compared with the Lean model.

import (
	"bufio"
	"bytes"
	"context"
	"crypto/hmac"
	"crypto/sha256"
	"encoding/hex"
	"errors"
	"fmt"
	"io"
	golog "log"
	"net"
	"net/http"
	"net/http/httptest"
	"os"
	"os/exec"
	"path/filepath"
	"runtime"
	"sort"
	"strconv"
	"strings"
	"sync"
	"sync/atomic"
	"testing"
	"time"

	"github.com/refraction-networking/conjure/internal/vlib"
	"github.com/refraction-networking/conjure/internal/vlibc11"
	"github.com/refraction-networking/conjure/pkg/core"
	pdtls "github.com/refraction-networking/conjure/pkg/dtls"
	"github.com/refraction-networking/conjure/pkg/station/liveness"
	"github.com/refraction-networking/conjure/pkg/station/log"
	"github.com/refraction-networking/conjure/pkg/transports"
	"github.com/refraction-networking/conjure/pkg/transports/connecting/dtls"
	"github.com/refraction-networking/conjure/pkg/transports/wrapping/min"
	"github.com/refraction-networking/conjure/pkg/transports/wrapping/obfs4"
	"github.com/refraction-networking/conjure/pkg/transports/wrapping/prefix"
	pb "github.com/refraction-networking/conjure/proto"
	"golang.org/x/crypto/curve25519"
	"google.golang.org/protobuf/proto"
	"google.golang.org/protobuf/types/known/anypb"
)

type c11NotLive struct{}

var c11Entered, c11Left int64 // liveness checks of the real testers: entered / returned

// c11Returned counts the liveness checks that RETURNED: the sign that a registration got through
type c11Returned struct{ liveness.Tester }

func (c c11Returned) PhantomIsLive(addr string, port uint16) (bool, error) {
	if _, stub := c.Tester.(c11NotLive); stub {
		return c.Tester.PhantomIsLive(addr, port) // counts itself
	}
	atomic.AddInt64(&c11Entered, 1)
	live, err := c.Tester.PhantomIsLive(addr, port)
	atomic.AddInt64(&c11Probes, 1)
	atomic.AddInt64(&c11Left, 1)
	return live, err
}

var c11Probes int64 // liveness probes asked for: the sign that a registration got through the ingest path

func (c11NotLive) PhantomIsLive(addr string, port uint16) (bool, error) {
	atomic.AddInt64(&c11Probes, 1)
	return false, nil
}

// the surroundings of a connecting transport: no tun device, no listener, statistics that go nowhere
type c11DNAT struct{}

func (c11DNAT) AddEntry(*net.IP, uint16, *net.IP, uint16) error {
	return errors.New("no tun device in the harness")
}

type c11ConnStats struct{}

func (c11ConnStats) AddCreatedConnecting(uint, string, string)               {}
func (c11ConnStats) AddCreatedToSuccessfulConnecting(uint, string, string)   {}
func (c11ConnStats) AddCreatedToTimeoutConnecting(uint, string, string)      {}
func (c11ConnStats) AddSuccessfulToDiscardedConnecting(uint, string, string) {}
func (c11ConnStats) AddOtherFailConnecting(uint, string, string)             {}
func (c11NotLive) PrintAndReset(logger *log.Logger)                          {}
func (c11NotLive) PrintStats(logger *log.Logger)                             {}
func (c11NotLive) Reset()                                                    {}

// c11Conn: a connection whose peer has gone: reads end at once, writes vanish.
type c11Conn struct{}

func (c11Conn) Read(b []byte) (int, error)         { return 0, io.EOF }
func (c11Conn) Write(b []byte) (int, error)        { return len(b), nil }
func (c11Conn) Close() error                       { return nil }
func (c11Conn) LocalAddr() net.Addr                { return &net.TCPAddr{IP: net.IPv4(10, 0, 0, 1), Port: 443} }
func (c11Conn) RemoteAddr() net.Addr               { return &net.TCPAddr{IP: net.IPv4(10, 9, 8, 7), Port: 4000} }
func (c11Conn) SetDeadline(t time.Time) error      { return nil }
func (c11Conn) SetReadDeadline(t time.Time) error  { return nil }
func (c11Conn) SetWriteDeadline(t time.Time) error { return nil }

type c11Station struct {
	out     *vlib.Out
	r       *vlib.Rand
	g       *vlibc11.Gen
	rm      *RegistrationManager
	priv    [32]byte
	pub     []byte
	prefixT *prefix.Transport
	// registrations made on purpose, to build almost-valid flights
	known []*DecoyRegistration
}

func (s *c11Station) fail(entry string, res vlibc11.Result, replay string) {
	s.out.OracleFail(res.Sig(entry), entry+": "+res.What(), replay)
}

// connecting: the DTLS transport is the real connecting transport (Connect runs, in the goroutines the
// station starts for it); otherwise it is only there to be identified and to parse parameters
func newC11Station(t *testing.T, out *vlib.Out, connecting bool) *c11Station {
	root := os.Getenv("VERIF_SCRATCH_REPO")
	if root == "" {
		root = "../../.."
	}
	subnets := filepath.Join(root, "internal", "test_assets", "phantom_subnets.toml")
	gens := []uint32{1, 2, 957}
	if os.Getenv("VERIF_C11_FOREIGN") != "0" { // generations that ran into the C14 findings (zero total weight, leading-zero networks) before their repair
		b, _ := os.ReadFile(subnets)
		extra := "\n    [Networks.1001]\n        Generation = 1001\n        [[Networks.1001.WeightedSubnets]]\n            Weight = 0\n            Subnets = [\"192.122.190.0/24\", \"2001:48a8:687f:1::/64\"]\n" +
			"\n    [Networks.1002]\n        Generation = 1002\n        [[Networks.1002.WeightedSubnets]]\n            Weight = 1\n            Subnets = [\"0.1.2.0/24\", \"64:ff9b::/96\"]\n" +
			// four IPv4 phantoms in all: registrations of this generation keep selecting the same ones (cache hits, refreshes, evictions)
			"\n    [Networks.1003]\n        Generation = 1003\n        [[Networks.1003.WeightedSubnets]]\n            Weight = 1\n            Subnets = [\"10.77.0.0/30\", \"2001:db8:77::/64\"]\n"
		subnets = filepath.Join(t.TempDir(), "phantom_subnets.toml")
		_ = os.WriteFile(subnets, append(b, extra...), 0o644)
		gens = append(gens, 1001, 1002, 1003)
	}
	os.Setenv("PHANTOM_SUBNET_LOCATION", subnets)
	devnull, _ := os.OpenFile(os.DevNull, os.O_WRONLY, 0)
	saved := os.Stdout
	os.Stdout = devnull // NewRegistrationManager logs to os.Stdout
	rm := NewRegistrationManager(&RegConfig{EnableIPv4: true, EnableIPv6: true, ConnectingStats: c11ConnStats{}})
	os.Stdout = saved
	if rm == nil {
		t.Fatal("no registration manager")
	}
	rm.Logger = log.New(io.Discard, "", golog.Ldate)
	rm.LivenessTester = c11NotLive{}
	rm.registeredDecoys.registerForDetector = func(d *DecoyRegistration) {}
	rm.registeredDecoys.updateInDetector = func(d *DecoyRegistration) {}
	s := &c11Station{out: out, r: vlib.NewRand("C11-station"), rm: rm}
	s.g = &vlibc11.Gen{R: s.r, Generations: gens}
	copy(s.priv[:], s.r.Bytes(32))
	s.pub, _ = curve25519.X25519(s.priv[:], curve25519.Basepoint)
	pt, err := prefix.Default([][32]byte{s.priv})
	if err != nil {
		t.Fatal(err)
	}
	s.prefixT = pt
	_ = rm.AddTransport(pb.TransportType_Min, min.Transport{})
	_ = rm.AddTransport(pb.TransportType_Obfs4, obfs4.Transport{})
	_ = rm.AddTransport(pb.TransportType_Prefix, pt)
	if connecting {
		_ = rm.AddTransport(pb.TransportType_DTLS, dtls.NewVerifTransport(c11DNAT{}, func(context.Context, *pdtls.Config) (net.Conn, error) {
			return nil, errors.New("no listener in the harness")
		}))
	} else {
		_ = rm.AddTransport(pb.TransportType_DTLS, dtls.Transport{}) // identification and parameters only; never connected
	}
	return s
}

// ---------------------------------------------------------------------------------------------
// 1. ZMQ registration messages

func (s *c11Station) ingest(msg []byte, how string) []*DecoyRegistration {
	var regs []*DecoyRegistration
	res := vlibc11.Guard(func() {
		var err error
		regs, err = s.rm.parseRegMessage(msg)
		if err != nil {
			s.out.Count("zmq:" + how + ":error")
			regs = nil
			return
		}
		s.out.Count(fmt.Sprintf("zmq:%s:regs-%d", how, len(regs)))
		for _, reg := range regs {
			if reg == nil {
				continue
			}
			if _, ok := s.rm.GetConnectingTransports()[reg.Transport]; ok {
				continue // a connecting transport would dial the client: outside this harness
			}
			s.rm.ingestRegistration(reg)
			_ = reg.String()
			if w := reg.GenerateC2SWrapper(); w != nil {
				_, _ = proto.Marshal(w)
			}
		}
	})
	s.out.Checked()
	if res.Bad() {
		s.fail("zmq-ingest", res, "zmq|"+vlib.Hex(msg))
		return nil
	}
	return regs
}

func (s *c11Station) validWrapper(secret []byte, tr pb.TransportType, params proto.Message, gen uint32, v6 bool) *pb.C2SWrapper {
	c := &pb.ClientToStation{
		ClientLibVersion:    proto.Uint32(core.CurrentClientLibraryVersion()),
		DecoyListGeneration: proto.Uint32(gen),
		V4Support:           proto.Bool(true),
		V6Support:           proto.Bool(v6),
		Transport:           &tr,
		CovertAddress:       proto.String("1.2.3.4:443"),
	}
	if params != nil {
		a, _ := anypb.New(params)
		a.TypeUrl = ""
		c.TransportParams = a
	}
	src := pb.RegistrationSource_API
	return &pb.C2SWrapper{SharedSecret: secret, RegistrationPayload: c, RegistrationSource: &src,
		RegistrationAddress: []byte{10, 9, 8, 7}}
}

func (s *c11Station) zmq(t *testing.T) {
	// registrations that really exist, for the flights below
	for i := 0; i < 12; i++ {
		secret := s.r.Bytes(32)
		var w *pb.C2SWrapper
		switch i % 4 {
		case 0:
			w = s.validWrapper(secret, pb.TransportType_Min, &pb.GenericTransportParams{RandomizeDstPort: proto.Bool(i%8 == 0)}, 1, false)
		case 1:
			id := int32(i % 10)
			w = s.validWrapper(secret, pb.TransportType_Prefix, &pb.PrefixTransportParams{PrefixId: &id}, 1, false)
		case 2:
			w = s.validWrapper(secret, pb.TransportType_Obfs4, &pb.GenericTransportParams{}, 1, false)
		default:
			w = s.validWrapper(secret, pb.TransportType_Prefix, nil, 1, false) // absent parameters
		}
		for _, reg := range s.ingest(vlibc11.Marshal(w), "valid") {
			if reg != nil && len(s.rm.GetRegistrations(reg.PhantomIp)) > 0 {
				s.known = append(s.known, reg)
			}
		}
	}
	if len(s.known) < 8 {
		s.out.Note(fmt.Sprintf("only %d of 12 well-formed registrations were admitted", len(s.known)))
	}
	// everything else is ingested in a child process, one message at a time, with the DTLS transport
	// connected for real: the station starts goroutines of its own for connecting transports and for
	// sharing registrations, and a panic there cannot be recovered - it takes the process down, and the
	// parent names the message that did it
	var msgs [][]byte
	n := vlib.Budget(12000, 250000)
	for i := 0; i < n; i++ {
		w := s.g.Wrapper(i)
		b := vlibc11.Marshal(w)
		msgs = append(msgs, b)
		if i%3 == 0 {
			msgs = append(msgs, s.g.Mutate(b))
		}
	}
	// DTLS registrations that are admitted (known generation, both families), with every combination of
	// the optional client addresses present / absent / of odd length
	for i := 0; i < vlib.Budget(300, 4000); i++ {
		var p *pb.DTLSTransportParams
		if i%7 != 0 {
			p = &pb.DTLSTransportParams{}
			if i&1 != 0 {
				p.SrcAddr4 = &pb.Addr{IP: s.g.Bytes(-1, 0, 4, 4, 16), Port: proto.Uint32(uint32(s.r.Intn(70000)))}
			}
			if i&2 != 0 {
				p.SrcAddr6 = &pb.Addr{IP: s.g.Bytes(-1, 0, 16, 16, 4), Port: proto.Uint32(uint32(s.r.Intn(70000)))}
			}
			if i&4 != 0 {
				p.RandomizeDstPort = proto.Bool(s.r.Bool())
			}
		}
		var w *pb.C2SWrapper
		if p == nil {
			w = s.validWrapper(s.r.Bytes(32), pb.TransportType_DTLS, nil, 1, i%3 != 0)
		} else {
			w = s.validWrapper(s.r.Bytes(32), pb.TransportType_DTLS, p, 1, i%3 != 0)
		}
		if i%5 == 0 {
			w.RegistrationAddress = append(bytes.Repeat([]byte{0x20, 0x01}, 7), 0, 1) // an IPv6 client: v6 phantom only
		}
		if i%11 == 0 {
			src := pb.RegistrationSource_Detector // shared with the other stations by a goroutine of its own
			w.RegistrationSource = &src
		}
		msgs = append(msgs, vlibc11.Marshal(w))
	}
	for i := 0; i < vlib.Budget(3000, 50000); i++ {
		msgs = append(msgs, s.r.Bytes(s.r.Intn(80)))
	}
	// a well-formed message with one field bent at a time
	base := vlibc11.Marshal(s.validWrapper(s.r.Bytes(32), pb.TransportType_Min, &pb.GenericTransportParams{}, 1, true))
	for i := 0; i < len(base); i++ {
		for _, v := range []byte{0, 0xff, base[i] ^ 0x80, base[i] + 1} {
			b := append([]byte(nil), base...)
			b[i] = v
			msgs = append(msgs, b)
		}
		msgs = append(msgs, base[:i])
	}
	s.zmqMsgs(msgs)
	s.zmqChild(t, msgs, true)
}

// ---------------------------------------------------------------------------------------------
// 2. first-flight bytes

func verdictOf(reg transports.Registration, err error, before, after int, obfs bool) string {
	switch {
	case err == nil || (obfs && reg != nil):
		if obfs {
			return "found 0"
		}
		return fmt.Sprintf("found %d", before-after)
	case reg != nil:
		return "found 0"
	case err == transports.ErrTryAgain:
		return "tryAgain"
	case err == transports.ErrNotTransport:
		return "notTransport"
	case err == prefix.ErrIncorrectTransport:
		return "incorrectTransport"
	case err == prefix.ErrIncorrectPrefix:
		return "incorrectPrefix"
	}
	return "error " + err.Error()
}

func (s *c11Station) wrap(name string, t WrappingTransport, data []byte, phantom net.IP, modelLine string) {
	var ans string
	var consumed int
	var accepted bool
	res := vlibc11.Guard(func() {
		// exact capacity: a slice beyond the data panics instead of reading what lies behind it
		exact := make([]byte, len(data))
		copy(exact, data)
		buf := bytes.NewBuffer(exact)
		reg, conn, err := t.WrapConnection(buf, c11Conn{}, phantom, s.rm)
		ans = verdictOf(reg, err, len(data), buf.Len(), name == "obfs4")
		consumed, accepted = len(data)-buf.Len(), reg != nil
		if conn != nil {
			_ = conn.Close()
		}
	})
	s.out.Checked()
	// bytes.Buffer hands out its spare capacity without complaint: a transport that consumed more than
	// was offered has read bytes the client never sent
	if accepted && (consumed < 0 || consumed > len(data)) {
		s.out.OracleFail("C11:wrap-"+name+":consumed-beyond-data", fmt.Sprintf("WrapConnection accepted a %d-byte flight and consumed %d bytes", len(data), consumed), modelLine)
	}
	if res.Hang {
		ans = "hang"
	} else if res.Panic != "" {
		switch vlibc11.Class(res.Panic) {
		case "slice-out-of-range":
			ans = "panic slice bounds out of range"
		case "index-out-of-range":
			ans = "panic index out of range"
		default:
			ans = "panic " + res.Panic
		}
	}
	s.out.Case(modelLine, ans, strings.HasPrefix(ans, "found"))
	s.out.Count("wrap:" + name + ":" + strings.Fields(ans)[0])
	if res.Bad() {
		s.fail("wrap-"+name, res, modelLine)
	}
}

func (s *c11Station) idsOn(phantom net.IP) []string {
	var ids []string
	for id := range s.rm.GetRegistrations(phantom) {
		ids = append(ids, vlib.Hex([]byte(id)))
	}
	sort.Strings(ids)
	return ids
}

func (s *c11Station) prefixViews(data []byte, phantom net.IP) string {
	seen := map[string]bool{}
	var views []string
	for _, p := range s.prefixT.SupportedPrefixes {
		if len(data) < p.Offset+64 {
			continue
		}
		w := data[p.Offset : p.Offset+64]
		if seen[string(w)] {
			continue
		}
		seen[string(w)] = true
		id, err := transports.CTRObfuscator{}.TryReveal(w, s.priv)
		if err != nil || id == nil {
			continue
		}
		reg, ok := s.rm.GetRegistrations(phantom)[string(id)]
		if !ok {
			continue
		}
		view := "noparams"
		if reg.TransportType() != pb.TransportType_Prefix {
			view = "other"
		} else if pp, ok := reg.TransportParams().(*pb.PrefixTransportParams); ok {
			if pp == nil {
				view = "nil"
			} else {
				view = fmt.Sprintf("id:%d", pp.GetPrefixId())
			}
		}
		views = append(views, vlib.Hex(w)+"="+view)
	}
	sort.Strings(views)
	return strings.Join(views, ";")
}

func (s *c11Station) obfs4Marks(data []byte, phantom net.IP) string {
	if len(data) < 32 {
		return ""
	}
	var marks []string
	for id, r := range s.rm.GetRegistrations(phantom) {
		if len(id) != 52 {
			continue
		}
		keys, ok := r.TransportKeys().(obfs4.Obfs4Keys)
		if !ok {
			marks = append(marks, "00") // never equal to a 16-byte mark
			continue
		}
		h := hmac.New(sha256.New, append(append([]byte(nil), keys.PublicKey.Bytes()[:]...), keys.NodeID.Bytes()[:]...))
		h.Write(data[:32])
		marks = append(marks, hex.EncodeToString(h.Sum(nil)[:16]))
	}
	sort.Strings(marks)
	return strings.Join(marks, ",")
}

func (s *c11Station) offer(data []byte, phantom net.IP) {
	s.wrap("min", min.Transport{}, data, phantom,
		fmt.Sprintf("ingress|min|%s|%s", vlib.Hex(data), strings.Join(s.idsOn(phantom), ",")))
	s.wrap("prefix", s.prefixT, data, phantom,
		fmt.Sprintf("ingress|prefix|%s|%s", vlib.Hex(data), s.prefixViews(data, phantom)))
	s.wrap("obfs4", obfs4.Transport{}, data, phantom,
		fmt.Sprintf("ingress|obfs4|%s|%s", vlib.Hex(data), s.obfs4Marks(data, phantom)))
}

func (s *c11Station) flights() {
	empty := net.ParseIP("192.122.190.250")
	var statics [][]byte
	for _, p := range s.prefixT.SupportedPrefixes {
		statics = append(statics, p.StaticMatch)
	}
	sort.Slice(statics, func(i, j int) bool { return bytes.Compare(statics[i], statics[j]) < 0 })
	// every length around every threshold, on a phantom without and with registrations
	phantoms := []net.IP{empty}
	for _, reg := range s.known {
		phantoms = append(phantoms, reg.PhantomIp)
	}
	for n := 0; n <= 130; n++ {
		for _, st := range statics {
			d := append(append([]byte(nil), st...), s.r.Bytes(130)...)
			s.offer(d[:n], phantoms[n%len(phantoms)])
		}
	}
	for _, n := range []int{8190, 8191, 8192, 8193, 9000} {
		s.offer(s.r.Bytes(n), phantoms[n%len(phantoms)])
	}
	// almost-valid flights for the registrations that exist
	for _, reg := range s.known {
		secret := reg.Keys.SharedSecret
		switch reg.Transport {
		case pb.TransportType_Min:
			tag := core.ConjureHMAC(secret, "MinTrasportHMACString")
			for _, extra := range []int{0, 1, 100} {
				d := append(append([]byte(nil), tag...), s.r.Bytes(extra)...)
				s.offer(d, reg.PhantomIp)
				s.offer(d[:len(d)-1], reg.PhantomIp)
				s.offer(d, empty)
			}
		case pb.TransportType_Prefix:
			id := core.ConjureHMAC(secret, "PrefixTransportHMACString")
			for _, st := range statics {
				tag, err := transports.CTRObfuscator{}.Obfuscate(id, s.pub)
				if err != nil {
					continue
				}
				d := append(append(append([]byte(nil), st...), tag...), s.r.Bytes(s.r.Intn(40))...)
				s.offer(d, reg.PhantomIp)
				for _, cut := range []int{len(st) + 63, len(st) + 64, len(st) + 32, 64, 63} {
					if cut <= len(d) {
						s.offer(d[:cut], reg.PhantomIp)
					}
				}
				d2 := append([]byte(nil), d...)
				d2[len(st)+31] ^= 0xc0 // the two free bits of the representative
				s.offer(d2, reg.PhantomIp)
				d2[len(st)+40] ^= 1
				s.offer(d2, reg.PhantomIp)
			}
		case pb.TransportType_Obfs4:
			keys, ok := reg.TransportKeys().(obfs4.Obfs4Keys)
			if !ok {
				continue
			}
			for _, total := range []int{64, 109, 140, 141, 142, 500, 8191, 8192, 8193, 8300} {
				if total < 64 {
					continue
				}
				d := s.r.Bytes(total)
				h := hmac.New(sha256.New, append(append([]byte(nil), keys.PublicKey.Bytes()[:]...), keys.NodeID.Bytes()[:]...))
				h.Write(d[:32])
				end := total
				if end > 8192 {
					end = 8192
				}
				copy(d[end-32:end-16], h.Sum(nil)[:16]) // the mark where the server looks for it; the MAC stays garbage
				s.offer(d, reg.PhantomIp)
				s.offer(d[:total-1], reg.PhantomIp)
			}
		}
	}
	for i := 0; i < vlib.Budget(4000, 80000); i++ {
		var d []byte
		switch s.r.Intn(3) {
		case 0:
			d = s.r.Bytes(s.r.Intn(200))
		case 1:
			d = append(append([]byte(nil), statics[s.r.Intn(len(statics))]...), s.r.Bytes(s.r.Intn(120))...)
			if s.r.Chance(1, 3) && len(d) > 0 {
				d = d[:s.r.Intn(len(d))]
			}
		default:
			d = s.g.Mutate(append(append([]byte(nil), statics[s.r.Intn(len(statics))]...), s.r.Bytes(70)...))
		}
		s.offer(d, phantoms[s.r.Intn(len(phantoms))])
	}
}

// ---------------------------------------------------------------------------------------------
// 3. transport parameters and the URL-less Any

func (s *c11Station) params() {
	ts := []struct {
		name string
		t    Transport
	}{{"min", min.Transport{}}, {"obfs4", obfs4.Transport{}}, {"prefix", s.prefixT}, {"dtls", dtls.Transport{}},
		{"prefix-empty", &prefix.Transport{}}}
	var parsed []any
	parsed = append(parsed, nil, &pb.GenericTransportParams{}, (*pb.GenericTransportParams)(nil), &pb.PrefixTransportParams{},
		(*pb.PrefixTransportParams)(nil), &pb.DTLSTransportParams{}, (*pb.DTLSTransportParams)(nil), 7, "x")
	n := vlib.Budget(8000, 120000)
	for i := 0; i < n; i++ {
		a := s.g.Any(i % 4)
		if s.r.Chance(1, 5) && a != nil {
			b := s.g.Mutate(vlibc11.Marshal(a))
			a2 := &anypb.Any{}
			if proto.Unmarshal(b, a2) == nil {
				a = a2
			}
		}
		libver := uint([]uint{0, 1, 2, 3, 4, 5, 1 << 31}[s.r.Intn(7)])
		for _, tt := range ts {
			var copyA *anypb.Any
			if a != nil {
				copyA = proto.Clone(a).(*anypb.Any)
			}
			res := vlibc11.Guard(func() {
				p, err := tt.t.ParseParams(libver, copyA)
				if err == nil {
					s.out.Count("params:" + tt.name + ":ok")
					if len(parsed) < 400 {
						parsed = append(parsed, p)
					}
				} else {
					s.out.Count("params:" + tt.name + ":error")
				}
				_ = tt.t.ParamStrings(p)
			})
			s.out.Checked()
			if res.Bad() {
				s.fail("parse-params-"+tt.name, res, fmt.Sprintf("params|%s|%d|%s", tt.name, libver, vlib.Hex(vlibc11.Marshal(a))))
			}
		}
		// mismatched parameter types into every GetDstPort
		p := parsed[s.r.Intn(len(parsed))]
		seed := s.r.Bytes([]int{0, 1, 16, 32}[s.r.Intn(4)])
		for _, tt := range ts {
			res := vlibc11.Guard(func() {
				_, _ = tt.t.GetDstPort(libver, seed, p)
				_ = tt.t.ParamStrings(p)
			})
			s.out.Checked()
			if res.Bad() {
				s.fail("dst-port-"+tt.name, res, fmt.Sprintf("dstport|%s|%d|%T|%s", tt.name, libver, p, vlib.Hex(seed)))
			}
		}
		// the URL-less Any itself, into every destination type
		for _, dst := range []proto.Message{&pb.GenericTransportParams{}, &pb.PrefixTransportParams{}, &pb.DTLSTransportParams{}, &pb.ClientToStation{}} {
			var copyA *anypb.Any
			if a != nil {
				copyA = proto.Clone(a).(*anypb.Any)
			}
			var uerr error
			res := vlibc11.Guard(func() { uerr = transports.UnmarshalAnypbTo(copyA, dst) })
			s.out.Checked()
			if res.Bad() {
				s.fail("anypb-nourl", res, fmt.Sprintf("any|%T|%s", dst, vlib.Hex(vlibc11.Marshal(a))))
			} else if line, ok := c11AnyLine(a, dst); ok && i < vlib.Budget(8000, 30000) {
				// the same call against the Lean model of UnmarshalAnypbTo (codec|any): URL restored or rejected, value decodable or not
				ans := "ok set"
				switch {
				case a == nil:
					ans = "ok nil"
				case uerr != nil && (strings.Contains(uerr.Error(), "error reading src type") || strings.Contains(uerr.Error(), "incorrect non-empty TypeUrl")):
					ans = "err wrongType"
				case uerr != nil:
					ans = "err unmarshal"
				}
				s.out.Case(line, ans, ans == "ok set")
				s.out.Count("any:" + strings.ReplaceAll(ans, " ", "-"))
			}
		}
	}
}

// c11AnyLine: the `codec|any|src url|value|expected url|value decodable` line of one UnmarshalAnypbTo call; only for
// URLs that survive the line format (printable ASCII without the separators)
func c11AnyLine(a *anypb.Any, dst proto.Message) (string, bool) {
	e, err := anypb.New(dst)
	if err != nil {
		return "", false
	}
	if a == nil {
		return fmt.Sprintf("codec|any|NIL|-|%s|1", e.TypeUrl), true
	}
	u := a.TypeUrl
	for i := 0; i < len(u); i++ {
		if u[i] <= ' ' || u[i] >= 0x7f || u[i] == '|' {
			return "", false
		}
	}
	if u == "-" || u == "NIL" {
		return "", false
	}
	if u == "" {
		u = "-"
	}
	can := proto.Unmarshal(a.Value, dst.ProtoReflect().New().Interface()) == nil
	return fmt.Sprintf("codec|any|%s|%s|%s|%s", u, vlib.Hex(a.Value), e.TypeUrl, vlib.B(can)), true
}

// ---------------------------------------------------------------------------------------------
// 4. the ingest path in a child process: one message at a time, then the worker pipeline

// c11Busy: goroutines inside the code under test (not the harness's own) that were not there before;
// known holds the goroutines that belong to the process for good (statistics loops started on first use)
func c11Busy(known map[string]bool) (ids []string, sample string) {
	buf := make([]byte, 1<<21)
	buf = buf[:runtime.Stack(buf, true)]
	for _, g := range strings.Split(string(buf), "\n\n") {
		if !strings.HasPrefix(g, "goroutine ") {
			continue
		}
		id := strings.Fields(g)[1]
		if known[id] {
			continue
		}
		if strings.Contains(g, "refraction-networking/conjure/pkg/") && !strings.Contains(g, "zz_verif") && !strings.Contains(g, "TestVerifC11") {
			ids = append(ids, id)
			sample = g
		}
	}
	return ids, sample
}

// c11Settle waits until everything the last message set off has ended, so that a panic in a goroutine
// the station started is charged to the message that started it. 2 s is slow, 15 s is a hang.
func c11Settle(base *int, known map[string]bool, progress *os.File, i int) {
	start, slow := time.Now(), false
	for runtime.NumGoroutine() > *base {
		d := time.Since(start)
		if d > 50*time.Millisecond {
			ids, sample := c11Busy(known)
			if len(ids) == 0 {
				// what is left does not belong to the code under test (idle connections, timers): it is
				// part of the process from now on, and the next message is not made to wait for it
				*base = runtime.NumGoroutine()
				return
			} else if d > 15*time.Second {
				fmt.Fprintf(progress, "HANG %d %s\n", i, strings.ReplaceAll(sample, "\n", " ⏎ "))
				for _, id := range ids { // reported once
					known[id] = true
				}
				return
			}
			if d > 2*time.Second && !slow {
				slow = true
				fmt.Fprintf(progress, "SLOW %d\n", i)
			}
			time.Sleep(2 * time.Millisecond)
			continue
		}
		time.Sleep(20 * time.Microsecond)
	}
}

func TestVerifC11StationChild(t *testing.T) {
	inPath := os.Getenv("VERIF_C11S_IN")
	if inPath == "" {
		t.Skip("child of TestVerifC11Station only")
	}
	golog.SetOutput(io.Discard)
	start, _ := strconv.Atoi(os.Getenv("VERIF_C11S_START"))
	raw, err := os.ReadFile(inPath)
	if err != nil {
		t.Fatal(err)
	}
	var in [][]byte
	for _, l := range strings.Split(strings.TrimRight(string(raw), "\n"), "\n") {
		b, _ := hex.DecodeString(l)
		in = append(in, b)
	}
	progress, err := os.OpenFile(os.Getenv("VERIF_C11S_PROGRESS"), os.O_CREATE|os.O_WRONLY|os.O_TRUNC, 0o644)
	if err != nil {
		t.Fatal(err)
	}
	defer progress.Close()
	out := vlib.Open("C11schild")
	s := newC11Station(t, out, true)
	// registrations that arrive from the detector are shared with the other stations over HTTP, by a
	// goroutine the station starts; the endpoint is a local server that accepts everything
	share := httptest.NewServer(http.HandlerFunc(func(w http.ResponseWriter, r *http.Request) {
		_, _ = io.Copy(io.Discard, r.Body)
		w.WriteHeader(http.StatusNoContent)
	}))
	defer share.Close()
	if tr, ok := http.DefaultTransport.(*http.Transport); ok {
		tr.DisableKeepAlives = true
	}
	s.rm.EnableShareOverAPI = true
	s.rm.PreshareEndpoint = share.URL
	// the resolver: never the network. What is recorded is whether the station asked for a name at all
	// and how long the attempt was allowed to take (the deadline of the context the dial gets)
	var dials, worst, noSource int64
	vlibc11.NoNetworkResolver(func(rem int64) {
		atomic.AddInt64(&dials, 1)
		for { // the longest a single attempt may take; -1 (no deadline) beats everything
			w := atomic.LoadInt64(&worst)
			nw := w
			if rem == -1 || w == -1 {
				nw = -1
			} else if rem > w {
				nw = rem
			}
			if nw == w || atomic.CompareAndSwapInt64(&worst, w, nw) {
				break
			}
		}
	})
	hist := map[string]int{}
	var hmu sync.Mutex
	count := func(k string) { hmu.Lock(); hist[k]++; hmu.Unlock() }
	// warm-up: whatever the station starts once and keeps (statistics loops) is there before the count
	_ = Stat()
	for _, tr := range []pb.TransportType{pb.TransportType_Min, pb.TransportType_DTLS} {
		for _, reg := range s.ingest(vlibc11.Marshal(s.validWrapper(s.r.Bytes(32), tr, nil, 1, true)), "warm-up") {
			_ = reg
		}
	}
	s.ingest([]byte{0xff}, "warm-up")
	time.Sleep(300 * time.Millisecond)
	known := map[string]bool{}
	ids, _ := c11Busy(known)
	for _, id := range ids {
		known[id] = true
	}
	base := runtime.NumGoroutine() + 1 // + the goroutine Guard runs the call in, which may not have gone yet
	if os.Getenv("VERIF_C11S_DIRECT") != "0" {
		for i := start; i < len(in); i++ {
			fmt.Fprintf(progress, "%d\n", i)
			atomic.StoreInt64(&dials, 0)
			atomic.StoreInt64(&worst, 0)
			msg := in[i]
			res := vlibc11.Guard(func() {
				regs, err := s.rm.parseRegMessage(msg)
				if err != nil {
					count("zmq:error")
					return
				}
				count(fmt.Sprintf("zmq:regs-%d", len(regs)))
				for _, reg := range regs {
					if reg == nil {
						continue
					}
					if reg.RegistrationSource == nil {
						// ingestRegistration and the statistics dereference it without a check (extracted
						// table starSites): every registration the parser hands out must carry it
						atomic.StoreInt64(&noSource, 1)
						src := pb.RegistrationSource_Unspecified
						reg.RegistrationSource = &src
					}
					s.rm.ingestRegistration(reg)
					_ = reg.String()
					if w := reg.GenerateC2SWrapper(); w != nil {
						_, _ = proto.Marshal(w)
					}
					if _, ok := s.rm.GetConnectingTransports()[reg.Transport]; ok {
						count("zmq:connecting-transport")
					}
				}
			})
			if res.Bad() {
				fmt.Fprintf(progress, "BAD %d\t%s\t%s\n", i, res.Sig("zmq-ingest"), res.What())
			}
			if atomic.SwapInt64(&noSource, 0) != 0 {
				fmt.Fprintf(progress, "BAD %d\t%s\t%s\n", i, "C11:zmq-ingest:registration-without-source", "parseRegMessage returned a registration whose RegistrationSource pointer is nil; ingestRegistration and AddRegStats dereference it unchecked")
			}
			c11Settle(&base, known, progress, i)
			if d := atomic.LoadInt64(&dials); d > 0 {
				fmt.Fprintf(progress, "RESOLVE %d %d %d\n", i, d, atomic.LoadInt64(&worst))
			}
		}
		fmt.Fprintf(progress, "DIRECT-DONE\n")
	}
	if os.Getenv("VERIF_C11S_PIPELINE") == "0" {
		fmt.Fprintf(progress, "DONE\n")
		return
	}
	// the pipeline itself: malformed messages of every kind in bulk, and after each batch a well-formed
	// registration must still get through to the liveness probe (a worker that ends on a message it
	// cannot use leaves the station deaf once all workers have met one)
	const workers = 20
	s.rm.IngestWorkerCount = workers
	// the liveness tester the station is configured with is a dimension: the stub, and the real testers
	// (probe replaced, nothing is sent) without cache, with map caches, and with LRU caches of capacity 1..4,
	// where every other registration evicts an entry while 20 workers look the same four phantoms up
	probe := func(a string) (bool, error) {
		h, _, _ := net.SplitHostPort(a)
		return strings.HasSuffix(h, ".1"), nil
	}
	type testerKind struct {
		name string
		mk   func() liveness.Tester
	}
	cached := func(conf *liveness.Config) func() liveness.Tester {
		return func() liveness.Tester {
			t, err := liveness.NewVerifC11Cached(conf, probe)
			if err != nil {
				return c11NotLive{}
			}
			return t
		}
	}
	testers := []testerKind{{"stub", func() liveness.Tester { return c11NotLive{} }},
		{"uncached", func() liveness.Tester { return liveness.NewVerifC11Uncached(probe) }},
		{"map-cache", cached(&liveness.Config{CacheDuration: "1h", CacheDurationNonLive: "1h"})},
		{"lru-1", cached(&liveness.Config{CacheDuration: "1h", CacheCapacity: 1, CacheDurationNonLive: "1h", CacheCapacityNonLive: 1})},
		{"lru-2", cached(&liveness.Config{CacheDuration: "1h", CacheCapacity: 2, CacheDurationNonLive: "1h", CacheCapacityNonLive: 2})},
		{"lru-4", cached(&liveness.Config{CacheDuration: "1h", CacheCapacity: 4, CacheDurationNonLive: "1h", CacheCapacityNonLive: 4})}}
	dead := 0
	for _, tk := range testers {
		if dead >= 2 {
			break
		}
		s.rm.LivenessTester = c11Returned{tk.mk()}
		ctx, cancel := context.WithCancel(context.Background())
		regChan := make(chan interface{})
		wg := new(sync.WaitGroup)
		wg.Add(1)
		go s.rm.HandleRegUpdates(ctx, regChan, wg)
		noPayload := vlibc11.Marshal(&pb.C2SWrapper{SharedSecret: s.r.Bytes(32)})
		unknownGen := vlibc11.Marshal(s.validWrapper(s.r.Bytes(32), pb.TransportType_Min, &pb.GenericTransportParams{}, 4000000, false))
		unknownTr := vlibc11.Marshal(s.validWrapper(s.r.Bytes(32), pb.TransportType(77), nil, 1, false))
		shortSecret := vlibc11.Marshal(s.validWrapper(s.r.Bytes(3), pb.TransportType_Min, nil, 1, false))
		badCovert := s.validWrapper(s.r.Bytes(32), pb.TransportType_Min, nil, 1, false)
		badCovert.RegistrationPayload.CovertAddress = proto.String("1.2.3.4")
		kinds := []struct {
			name string
			msg  func() []byte
		}{
			{"random-bytes", func() []byte { return s.r.Bytes(1 + s.r.Intn(60)) }},
			{"empty", func() []byte { return nil }},
			{"no-payload", func() []byte { return noPayload }},
			{"unknown-generation", func() []byte { return unknownGen }},
			{"unknown-transport", func() []byte { return unknownTr }},
			{"short-secret", func() []byte { return shortSecret }},
			{"malformed-covert", func() []byte { return vlibc11.Marshal(badCovert) }},
			{"truncated", func() []byte { return unknownGen[:len(unknownGen)/2] }},
			{"structured", func() []byte { return vlibc11.Marshal(s.g.Wrapper(s.r.Intn(1000))) }},
			{"mutated", func() []byte { return s.g.Mutate(vlibc11.Marshal(s.g.Wrapper(s.r.Intn(1000)))) }},
		}
		for _, k := range kinds {
			var sample []byte
			for i := 0; i < 3*workers; i++ {
				sample = k.msg()
				regChan <- sample
				if i%workers == workers-1 {
					time.Sleep(time.Millisecond) // let the workers take what the distributor holds
				}
			}
			// a burst of well-formed registrations that keep selecting the same four phantoms
			if tk.name != "stub" {
				burst := 10 * workers
				if strings.HasPrefix(tk.name, "lru") {
					burst = 60 * workers // evictions need company
				}
				for i := 0; i < burst; i++ {
					select {
					case regChan <- vlibc11.Marshal(s.validWrapper(s.r.Bytes(32), pb.TransportType_Min, &pb.GenericTransportParams{}, 1003, false)):
					case <-time.After(15 * time.Second): // nobody takes messages any more: the probe below says so
						i = burst
					}
				}
			}
			before := atomic.LoadInt64(&c11Probes)
			alive := false
			for deadline := time.Now().Add(15 * time.Second); time.Now().Before(deadline) && !alive; {
				select {
				case regChan <- vlibc11.Marshal(s.validWrapper(s.r.Bytes(32), pb.TransportType_Min, &pb.GenericTransportParams{}, 1, false)):
				case <-time.After(time.Second):
				}
				time.Sleep(time.Millisecond)
				alive = atomic.LoadInt64(&c11Probes) > before
			}
			// … and no worker may be left inside a liveness check: a worker that never comes back is one worker
			// less for good, long before the last one is gone
			for deadline := time.Now().Add(15 * time.Second); alive && time.Now().Before(deadline) && atomic.LoadInt64(&c11Entered) != atomic.LoadInt64(&c11Left); {
				time.Sleep(time.Millisecond)
			}
			if alive && atomic.LoadInt64(&c11Entered) != atomic.LoadInt64(&c11Left) {
				alive = false
				atomic.StoreInt64(&c11Left, atomic.LoadInt64(&c11Entered)) // reported once
			}
			if alive {
				count("pipeline:" + tk.name + ":alive-after-" + k.name)
			} else {
				dead++
				fmt.Fprintf(progress, "PIPELINE-DEAD %s %s %s %s\n", k.name, hex.EncodeToString(sample), tk.name, strings.ReplaceAll(vlibc11.Stacks(5), " ", "_"))
				break // the workers of this configuration are gone or stuck: nothing more to learn from it
			}
		}
		cancel()
		stopped := make(chan struct{})
		go func() { wg.Wait(); close(stopped) }()
		select {
		case <-stopped:
			count("pipeline:stopped")
		case <-time.After(15 * time.Second):
			fmt.Fprintf(progress, "PIPELINE-STUCK\n")
		}
	} // tester kinds
	hmu.Lock()
	for k, v := range hist {
		fmt.Fprintf(progress, "COUNT %s %d\n", k, v)
	}
	hmu.Unlock()
	fmt.Fprintf(progress, "DONE\n")
}

// zmqChild feeds msgs to children until all are dealt with; a child that dies names the message
func (s *c11Station) zmqChild(t *testing.T, msgs [][]byte, pipeline bool) {
	dir := t.TempDir()
	inPath, progPath := filepath.Join(dir, "in.txt"), filepath.Join(dir, "progress.txt")
	if o := os.Getenv("VERIF_OUT"); o != "" { // kept with the other outputs of the run (check --keep)
		inPath, progPath = filepath.Join(o, "C11a.child-in.txt"), filepath.Join(o, "C11a.child-progress.txt")
	}
	var sb strings.Builder
	for _, d := range msgs {
		sb.WriteString(hex.EncodeToString(d))
		sb.WriteByte('\n')
	}
	if err := os.WriteFile(inPath, []byte(sb.String()), 0o644); err != nil {
		t.Fatal(err)
	}
	resolverReported := false
	start := 0
	for round := 0; round < 25; round++ {
		cmd := exec.Command(os.Args[0], "-test.run=^TestVerifC11StationChild$", "-test.timeout=25m")
		cmd.Env = append(os.Environ(), "VERIF_C11S_IN="+inPath, "VERIF_C11S_PROGRESS="+progPath,
			"VERIF_C11S_START="+strconv.Itoa(start), "VERIF_OUT="+dir)
		if start >= len(msgs) {
			cmd.Env = append(cmd.Env, "VERIF_C11S_DIRECT=0")
		}
		if !pipeline {
			cmd.Env = append(cmd.Env, "VERIF_C11S_PIPELINE=0")
		}
		var stderr bytes.Buffer
		cmd.Stderr = &stderr
		cmd.Stdout = &stderr
		err := cmd.Run()
		prog, _ := os.ReadFile(progPath)
		last, done, directDone := start-1, false, false
		sc := bufio.NewScanner(bytes.NewReader(prog))
		sc.Buffer(make([]byte, 1<<20), 1<<24)
		for sc.Scan() {
			l := sc.Text()
			f := strings.Fields(l)
			switch {
			case strings.HasPrefix(l, "BAD "):
				p := strings.SplitN(strings.TrimPrefix(l, "BAD "), "\t", 3)
				if k, e := strconv.Atoi(p[0]); e == nil && len(p) == 3 && k < len(msgs) {
					s.out.OracleFail(p[1], "zmq-ingest: "+p[2], "zmq|"+vlib.Hex(msgs[k]))
				}
			case strings.HasPrefix(l, "HANG ") && len(f) >= 2:
				if k, e := strconv.Atoi(f[1]); e == nil && k < len(msgs) {
					s.out.OracleFail("C11:zmq-ingest:hang-in-goroutine", "a goroutine the station started for a registration was still running after 15 s: "+strings.Join(f[2:], " "), "zmq|"+vlib.Hex(msgs[k]))
				}
			case strings.HasPrefix(l, "SLOW "):
				s.out.Count("zmq:slow")
			case strings.HasPrefix(l, "RESOLVE ") && len(f) == 4:
				s.out.Count("zmq:resolver-asked")
				k, _ := strconv.Atoi(f[1])
				ms, _ := strconv.Atoi(f[3])
				if (ms == -1 || ms > 2000) && !resolverReported && k < len(msgs) {
					resolverReported = true
					lim := "no deadline at all"
					if ms >= 0 {
						lim = fmt.Sprintf("%d ms for a single attempt, the resolver's own limit", ms)
					}
					s.out.OracleFail("C11:zmq-ingest:resolver-without-deadline",
						"the ingest worker resolves the covert host name a client supplied ("+f[2]+" resolver dials) and sets no deadline of its own: "+lim+"; a name server that does not answer holds the worker for all attempts", "zmq|"+vlib.Hex(msgs[k]))
				}
			case strings.HasPrefix(l, "PIPELINE-DEAD ") && len(f) == 3:
				s.out.OracleFail("C11:zmq-pipeline:workers-lost-on-bad-input", "after a batch of "+f[1]+" messages no well-formed registration reached the liveness probe for 15 s: the ingest workers are gone or stuck", "zmqpipe|"+f[1]+"|"+f[2])
			case strings.HasPrefix(l, "PIPELINE-DEAD ") && len(f) == 5:
				if f[3] == "stub" {
					s.out.OracleFail("C11:zmq-pipeline:workers-lost-on-bad-input", "after a batch of "+f[1]+" messages no well-formed registration reached the liveness probe for 15 s: the ingest workers are gone or stuck", "zmqpipe|"+f[1]+"|"+f[2])
				} else {
					s.out.OracleFail("C11:zmq-ingest:hang-after-batch", "station with the liveness tester "+f[3]+": after a batch of "+f[1]+" messages and a burst of well-formed registrations that select the same four phantoms, no well-formed registration got through its liveness check for 15 s, or workers that entered a liveness check had not come back after 15 s - ingest workers are stuck: "+strings.ReplaceAll(f[4], "_", " "), "zmqpipe|"+f[1]+"|"+f[2]+"|"+f[3])
				}
			case l == "PIPELINE-STUCK":
				s.out.OracleFail("C11:zmq-pipeline:does-not-stop", "HandleRegUpdates had not returned 15 s after its context was cancelled", "zmqpipe|stop")
			case strings.HasPrefix(l, "COUNT ") && len(f) == 3:
				n, _ := strconv.Atoi(f[2])
				for ; n > 0; n-- {
					s.out.Count(f[1])
				}
			case l == "DIRECT-DONE":
				directDone = true
			case l == "DONE":
				done = true
			default:
				if k, e := strconv.Atoi(l); e == nil {
					last = k
				}
			}
		}
		for i := start; i <= last; i++ {
			s.out.Checked()
		}
		if done && err == nil {
			s.out.Count("zmq-child:completed")
			return
		}
		if last < start && !directDone && start < len(msgs) {
			s.out.OracleFail("C11:zmq-ingest:child-did-not-run", "the child process that drives the ingest path failed before the first message", stderr.String())
			return
		}
		sig, what := c11CrashSig(stderr.String())
		if directDone || start >= len(msgs) {
			s.out.OracleFail(strings.Replace(sig, "zmq-ingest", "zmq-pipeline", 1), "the process died while the worker pipeline was running; "+what, "zmqpipe|crash")
			return
		}
		s.out.OracleFail(sig, "the process died while (or in a goroutine started for) this message was handled; "+what, "zmq|"+vlib.Hex(msgs[last]))
		start = last + 1
	}
}

// c11CrashSig: class and innermost repository function of a Go panic report
func c11CrashSig(report string) (string, string) {
	msg := "unknown"
	for _, l := range strings.Split(report, "\n") {
		if strings.HasPrefix(l, "panic: ") || strings.HasPrefix(l, "fatal error: ") {
			msg = strings.TrimPrefix(strings.TrimPrefix(l, "panic: "), "fatal error: ")
			break
		}
	}
	frame := "unknown"
	for _, l := range strings.Split(report, "\n") {
		if strings.Contains(l, "zz_verif") || strings.Contains(l, "internal/vlib") || strings.HasPrefix(l, "created by") {
			continue
		}
		if i := strings.Index(l, "refraction-networking/conjure/pkg/"); i >= 0 && strings.Contains(l, "(") {
			frame = l[i+len("refraction-networking/conjure/"):]
			if j := strings.LastIndex(frame, "("); j > 0 {
				frame = frame[:j]
			}
			break
		}
	}
	return "C11:zmq-ingest:" + vlibc11.Class(msg) + "@" + frame, "panic: " + msg + " in " + frame
}

// ---------------------------------------------------------------------------------------------

func (s *c11Station) replay(t *testing.T, path string) {
	f, err := os.Open(path)
	if err != nil {
		panic(err)
	}
	defer f.Close()
	sc := bufio.NewScanner(f)
	sc.Buffer(make([]byte, 1<<20), 1<<26)
	for sc.Scan() {
		line := sc.Text()
		p := strings.Split(line, "|")
		if strings.HasPrefix(line, "#") || len(p) < 2 {
			continue
		}
		unhex := func(x string) []byte {
			if x == "-" {
				return nil
			}
			b, _ := hex.DecodeString(x)
			return b
		}
		switch {
		case p[0] == "zmq":
			s.ingest(unhex(p[1]), "replay")
			s.zmqChild(t, [][]byte{unhex(p[1])}, false)
		case p[0] == "zmqmsg":
			for k := 0; k < 4; k++ {
				s.rm.EnableIPv4, s.rm.EnableIPv6 = k&1 != 0, k&2 != 0
				s.zmqCase(unhex(p[1]), "replay")
			}
			s.rm.EnableIPv4, s.rm.EnableIPv6 = true, true
		case p[0] == "zmqpipe":
			s.zmqChild(t, nil, true)
		case p[0] == "ingress" && len(p) >= 3 && (p[1] == "min" || p[1] == "prefix" || p[1] == "obfs4"):
			s.offer(unhex(p[2]), net.ParseIP("192.122.190.250"))
		default:
			fmt.Println("replay (station side): not a station case:", p[0])
		}
	}
}

func TestVerifC11Station(t *testing.T) {
	golog.SetOutput(io.Discard)
	out := vlib.Open("C11a")
	defer out.Close()
	vlibc11.NoNetworkResolver(nil)
	s := newC11Station(t, out, false)
	if rp := vlib.Replay(); rp != "" {
		// one fixed case so that the driver always has something to answer, then the file
		s.wrap("min", min.Transport{}, nil, net.ParseIP("192.122.190.250"), "ingress|min|-|")
		s.replay(t, rp)
		return
	}
	s.zmq(t)
	s.flights()
	s.params()
}
