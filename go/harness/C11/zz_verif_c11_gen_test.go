//go:build verif

package prefix

// Tie 1 for C11: regenerates lean/CJ/Gen/C11Tables.lean from the tree under test —
// the prefix table (the quantifier domain of prefix_slices_in_bounds), the obfs4 length constants,
// and the dereferences of protobuf sub-message fields in the external entry points together with
// whether a nil check guards them (syntactic, conservative: unknown shapes count as unguarded).

import (
	"bytes"
	"encoding/hex"
	"fmt"
	"go/ast"
	"go/parser"
	"go/printer"
	"go/token"
	"os"
	"path/filepath"
	"sort"
	"strings"
	"testing"

	"github.com/refraction-networking/conjure/pkg/transports/wrapping/obfs4"
	"github.com/refraction-networking/obfs4/common/ntor"
)

var c11SubMessageFields = map[string]bool{
	"RegistrationPayload": true, "RegistrationResponse": true, "Flags": true, "TransportParams": true,
	"ClientConf": true, "DecoyList": true, "PhantomSubnetsList": true, "DnsRegConf": true, "Stats": true,
	"WebrtcSignal": true, "BidirectionalResponse": true, "ConfigInfo": true, "DefaultPubkey": true, "ConjurePubkey": true,
}

var c11EntryFiles = []string{
	"pkg/regserver/apiregserver/apiregserver.go",
	"pkg/regserver/dnsregserver/dnsregserver.go",
	"pkg/regserver/regprocessor/regprocessor.go",
	"pkg/regserver/overrides/prefix_transport.go",
	"pkg/station/lib/registration_ingest.go",
	"pkg/station/lib/registration.go",
}

func c11Print(fset *token.FileSet, n ast.Node) string {
	var b bytes.Buffer
	_ = printer.Fprint(&b, fset, n)
	return strings.Join(strings.Fields(b.String()), " ")
}

type c11Site struct {
	file    string
	line    int
	expr    string
	guarded bool
}

// c11Guarded: is the dereference of base.field at pos protected by a nil check in fn?
func c11Guarded(fset *token.FileSet, fn *ast.FuncDecl, base, field string, pos token.Pos) bool {
	isNil := []string{base + "." + field + " == nil", base + ".Get" + field + "() == nil"}
	notNil := []string{base + "." + field + " != nil", base + ".Get" + field + "() != nil"}
	has := func(cond string, pats []string) bool {
		for _, p := range pats {
			if strings.Contains(cond, p) {
				return true
			}
		}
		return false
	}
	guarded := false
	ast.Inspect(fn.Body, func(n ast.Node) bool {
		ifs, ok := n.(*ast.IfStmt)
		if !ok || guarded {
			return !guarded
		}
		cond := c11Print(fset, ifs.Cond)
		inBody := ifs.Body.Pos() <= pos && pos < ifs.Body.End()
		inElse := ifs.Else != nil && ifs.Else.Pos() <= pos && pos < ifs.Else.End()
		// positive guard: `if x.F != nil { … site … }` (only as a conjunct: `||` would not protect)
		if has(cond, notNil) && !strings.Contains(cond, "||") && inBody {
			guarded = true
		}
		// `if x.F == nil { … } else { … site … }`
		if has(cond, isNil) && !strings.Contains(cond, "&&") && inElse {
			guarded = true
		}
		// early exit or initialisation before the site: `if x.F == nil [|| …] { return … }` / `{ x.F = … }`
		if has(cond, isNil) && !strings.Contains(cond, "&&") && ifs.End() <= pos && len(ifs.Body.List) > 0 {
			last := ifs.Body.List[len(ifs.Body.List)-1]
			if _, ret := last.(*ast.ReturnStmt); ret {
				guarded = true
			}
			for _, st := range ifs.Body.List {
				if as, ok := st.(*ast.AssignStmt); ok && len(as.Lhs) == 1 && c11Print(fset, as.Lhs[0]) == base+"."+field {
					guarded = true
				}
			}
		}
		return !guarded
	})
	return guarded
}

func c11Derefs(root string) ([]c11Site, error) {
	var sites []c11Site
	fset := token.NewFileSet()
	for _, rel := range c11EntryFiles {
		f, err := parser.ParseFile(fset, filepath.Join(root, rel), nil, 0)
		if err != nil {
			return nil, err
		}
		for _, d := range f.Decls {
			fn, ok := d.(*ast.FuncDecl)
			if !ok || fn.Body == nil {
				continue
			}
			calls := map[ast.Expr]bool{}
			ast.Inspect(fn.Body, func(n ast.Node) bool {
				if c, ok := n.(*ast.CallExpr); ok {
					calls[c.Fun] = true
				}
				return true
			})
			ast.Inspect(fn.Body, func(n ast.Node) bool {
				outer, ok := n.(*ast.SelectorExpr)
				if !ok {
					return true
				}
				inner, ok := outer.X.(*ast.SelectorExpr)
				if !ok || !c11SubMessageFields[inner.Sel.Name] {
					return true
				}
				if calls[outer] { // a method call on the sub-message: generated getters are nil-safe
					return true
				}
				base := c11Print(fset, inner.X)
				sites = append(sites, c11Site{rel, fset.Position(outer.Pos()).Line, c11Print(fset, outer),
					c11Guarded(fset, fn, base, inner.Sel.Name, outer.Pos())})
				return true
			})
		}
	}
	sort.Slice(sites, func(i, j int) bool {
		if sites[i].file != sites[j].file {
			return sites[i].file < sites[j].file
		}
		return sites[i].line < sites[j].line
	})
	return sites, nil
}

func leanBytes(b []byte) string {
	if len(b) == 0 {
		return "[]"
	}
	l := make([]string, len(b))
	for i, x := range b {
		l[i] = fmt.Sprintf("0x%s", hex.EncodeToString([]byte{x}))
	}
	return "[" + strings.Join(l, ", ") + "]"
}

func TestVerifC11Gen(t *testing.T) {
	root := os.Getenv("VERIF_SCRATCH_REPO")
	if root == "" {
		root = "../../../.."
	}
	var b strings.Builder
	b.WriteString("import CJ.Model.Ingress\n/-! GENERATED by go/harness/C11/zz_verif_c11_gen_test.go from the tree under test; do not edit. -/\n")
	b.WriteString("namespace CJ.Gen.C11\nopen CJ.Ingress\n\n")
	b.WriteString("/-- `defaultPrefixes` of pkg/transports/wrapping/prefix/prefix.go, sorted by id -/\ndef prefixTable : List PrefixSpec := [\n")
	ids := make([]int, 0, len(defaultPrefixes))
	for id := range defaultPrefixes {
		ids = append(ids, int(id))
	}
	sort.Ints(ids)
	for i, id := range ids {
		p := defaultPrefixes[PrefixID(id)]
		sep := ","
		if i == len(ids)-1 {
			sep = ""
		}
		fmt.Fprintf(&b, "  ⟨%d, %s, %d, %d, %d⟩%s\n", id, leanBytes(p.StaticMatch), p.Offset, p.MinLen, p.MaxLen, sep)
	}
	b.WriteString("]\n\n/-- the tag length `minTagLength` of prefix.go and of min.go -/\n")
	fmt.Fprintf(&b, "def prefixMinTagLength : Nat := %d\n\n", minTagLength)
	b.WriteString("/-- length constants of pkg/transports/wrapping/obfs4/utils.go -/\ndef obfs4Consts : Obfs4Consts :=\n")
	fmt.Fprintf(&b, "  ⟨%d, %d, %d, %d, %d, %d⟩\n\n", ntor.RepresentativeLength, obfs4.MarkLength, obfs4.MacLength,
		obfs4.ClientMinHandshakeLength, obfs4.ClientMinPadLength, obfs4.MaxHandshakeLength)
	sites, err := c11Derefs(root)
	if err != nil {
		t.Fatal(err)
	}
	b.WriteString("/-- field accesses through a protobuf sub-message pointer in the external entry points, and whether a\nnil check guards them -/\ndef derefSites : List DerefSite := [\n")
	for i, s := range sites {
		sep := ","
		if i == len(sites)-1 {
			sep = ""
		}
		fmt.Fprintf(&b, "  ⟨%q, %d, %q, %v⟩%s\n", s.file, s.line, s.expr, s.guarded, sep)
	}
	b.WriteString("]\n\nend CJ.Gen.C11\n")
	out := os.Getenv("VERIF_OUT")
	if out == "" {
		out = os.TempDir()
	}
	if err := os.WriteFile(filepath.Join(out, "C11Tables.lean"), []byte(b.String()), 0o644); err != nil {
		t.Fatal(err)
	}
}
