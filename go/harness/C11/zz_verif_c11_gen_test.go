//go:build verif

package prefix

// Tie 1 for C11: regenerates lean/CJ/Gen/C11Tables.lean from the tree under test —
// the prefix table (the quantifier domain of prefix_slices_in_bounds), the obfs4 length constants,
// and the dereferences of protobuf sub-message fields in the external entry points together with
// whether a nil check guards them (syntactic, conservative: unknown shapes count as unguarded).

import (
	"bytes"
	"encoding/hex"
	"fmt"
	"go/ast"
	"go/parser"
	"go/printer"
	"go/token"
	"os"
	"path/filepath"
	"reflect"
	"sort"
	"strings"
	"testing"

	"github.com/refraction-networking/conjure/pkg/transports/wrapping/obfs4"
	_ "github.com/refraction-networking/conjure/proto"
	"github.com/refraction-networking/obfs4/common/ntor"
	"google.golang.org/protobuf/proto"
	"google.golang.org/protobuf/reflect/protoreflect"
	"google.golang.org/protobuf/reflect/protoregistry"
)

// c11Fields: the Go names of the fields of the repository's protobuf messages that hold a sub-message
// pointer (nil when the sender left the sub-message out) and of those that hold an optional scalar
// (pointer to a basic type), taken from the generated types themselves, not from a list
func c11Fields() (sub, scalar map[string]bool) {
	sub, scalar = map[string]bool{}, map[string]bool{}
	msgType := reflect.TypeOf((*proto.Message)(nil)).Elem()
	protoregistry.GlobalTypes.RangeMessages(func(mt protoreflect.MessageType) bool {
		if !strings.HasPrefix(string(mt.Descriptor().FullName()), "proto.") {
			return true
		}
		t := reflect.TypeOf(mt.New().Interface())
		if t.Kind() == reflect.Ptr {
			t = t.Elem()
		}
		if t.Kind() != reflect.Struct {
			return true
		}
		for i := 0; i < t.NumField(); i++ {
			f := t.Field(i)
			if !f.IsExported() || f.Type.Kind() != reflect.Ptr {
				continue
			}
			if f.Type.Implements(msgType) {
				sub[f.Name] = true
			} else if k := f.Type.Elem().Kind(); k != reflect.Struct {
				scalar[f.Name] = true
			}
		}
		return true
	})
	return sub, scalar
}

// the packages a registration message, a first flight or a registration request passes through
var c11EntryDirs = []string{
	"pkg/regserver/apiregserver", "pkg/regserver/dnsregserver", "pkg/regserver/regprocessor", "pkg/regserver/overrides",
	"pkg/station/lib", "pkg/phantoms", "pkg/transports", "pkg/transports/wrapping/min", "pkg/transports/wrapping/obfs4",
	"pkg/transports/wrapping/prefix", "pkg/transports/connecting/dtls", "pkg/core", "cmd/application",
}

func c11Print(fset *token.FileSet, n ast.Node) string {
	var b bytes.Buffer
	_ = printer.Fprint(&b, fset, n)
	return strings.Join(strings.Fields(b.String()), " ")
}

type c11Site struct {
	file    string
	line    int
	fn      string
	expr    string
	guarded bool
}

func c11Has(cond string, pats []string) bool {
	for _, p := range pats {
		// the pattern must not be the tail of a longer selector: "x.F == nil" inside "y.x.F == nil"
		for i := strings.Index(cond, p); i >= 0; {
			if i == 0 || !(cond[i-1] == '.' || cond[i-1] == '_' || ('a' <= cond[i-1] && cond[i-1] <= 'z') || ('A' <= cond[i-1] && cond[i-1] <= 'Z') || ('0' <= cond[i-1] && cond[i-1] <= '9')) {
				return true
			}
			j := strings.Index(cond[i+1:], p)
			if j < 0 {
				break
			}
			i += 1 + j
		}
	}
	return false
}

// c11Guarded: is a dereference at pos of the pointer that the expressions in exprs denote protected by a
// nil check in body? Syntactic and conservative (an unknown shape counts as unguarded):
//   - `if e != nil [&& …] { … site … }`                      (not under `||`)
//   - `if e == nil [|| …] { … } else { … site … }`            (not under `&&`)
//   - `if e == nil [|| …] { …; return/continue/break/panic }` or `{ e = … }` before the site
//   - `e != nil && … site …` and `e == nil || … site …` inside one expression
func c11Guarded(fset *token.FileSet, body *ast.BlockStmt, exprs []string, pos token.Pos) bool {
	var isNil, notNil []string
	for _, e := range exprs {
		isNil = append(isNil, e+" == nil")
		notNil = append(notNil, e+" != nil")
	}
	guarded := false
	ast.Inspect(body, func(n ast.Node) bool {
		if guarded || n == nil {
			return false
		}
		switch x := n.(type) {
		case *ast.BinaryExpr:
			inY := x.Y.Pos() <= pos && pos < x.Y.End()
			if x.Op == token.LAND && inY && c11Has(c11Print(fset, x.X), notNil) && !strings.Contains(c11Print(fset, x.X), "||") {
				guarded = true
			}
			if x.Op == token.LOR && inY && c11Has(c11Print(fset, x.X), isNil) && !strings.Contains(c11Print(fset, x.X), "&&") {
				guarded = true
			}
		case *ast.IfStmt:
			cond := c11Print(fset, x.Cond)
			inBody := x.Body.Pos() <= pos && pos < x.Body.End()
			inElse := x.Else != nil && x.Else.Pos() <= pos && pos < x.Else.End()
			if c11Has(cond, notNil) && !strings.Contains(cond, "||") && inBody {
				guarded = true
			}
			if c11Has(cond, isNil) && !strings.Contains(cond, "&&") && inElse {
				guarded = true
			}
			if c11Has(cond, isNil) && !strings.Contains(cond, "&&") && x.End() <= pos && len(x.Body.List) > 0 {
				switch last := x.Body.List[len(x.Body.List)-1].(type) {
				case *ast.ReturnStmt:
					guarded = true
				case *ast.BranchStmt:
					guarded = last.Tok == token.CONTINUE || last.Tok == token.BREAK
				case *ast.ExprStmt:
					if c, ok := last.X.(*ast.CallExpr); ok && c11Print(fset, c.Fun) == "panic" {
						guarded = true
					}
				}
				for _, st := range x.Body.List {
					if as, ok := st.(*ast.AssignStmt); ok && len(as.Lhs) == 1 {
						for _, e := range exprs {
							if c11Print(fset, as.Lhs[0]) == e {
								guarded = true
							}
						}
					}
				}
			}
		}
		return !guarded
	})
	return guarded
}

// c11Scan finds, in one file,
//   - derefs: field accesses through a sub-message pointer, written out (`x.Sub.Field`) or through a local
//     name that was assigned a sub-message (`p := x.Sub` / `p := x.GetSub()`, then `p.Field`);
//   - stars: explicit dereferences of an optional scalar (`*x.F`, or `*p` for a local `p := x.F`).
func c11Scan(fset *token.FileSet, rel string, f *ast.File, sub, scalar map[string]bool) (derefs, aliases, stars []c11Site) {
	imports := map[string]bool{}
	for _, im := range f.Imports {
		path := strings.Trim(im.Path.Value, "\"")
		name := path[strings.LastIndex(path, "/")+1:]
		if im.Name != nil {
			name = im.Name.Name
		}
		imports[name] = true
	}
	imports["pb"] = true
	for _, d := range f.Decls {
		fn, ok := d.(*ast.FuncDecl)
		if !ok || fn.Body == nil {
			continue
		}
		calls := map[ast.Expr]bool{}
		ast.Inspect(fn.Body, func(n ast.Node) bool {
			if c, ok := n.(*ast.CallExpr); ok {
				calls[c.Fun] = true
			}
			return true
		})
		// assignments to local names: does the name hold a sub-message / an optional scalar afterwards, and
		// where did it come from? A use is charged to the textually last assignment before it that can reach
		// it (an assignment in one branch of an if / switch does not reach the other branches).
		type binding struct {
			pos    token.Pos
			kind   int // 0 = something else, 1 = sub-message, 2 = optional scalar
			src    string
		}
		binds := map[string][]binding{}
		bind := func(lhs ast.Expr, rhs ast.Expr) {
			id, ok := lhs.(*ast.Ident)
			if !ok || id.Name == "_" {
				return
			}
			b := binding{pos: lhs.Pos(), src: c11Print(fset, rhs)}
			switch r := rhs.(type) {
			case *ast.SelectorExpr:
				if sub[r.Sel.Name] {
					b.kind = 1
				} else if scalar[r.Sel.Name] {
					b.kind = 2
				}
			case *ast.CallExpr:
				if se, ok := r.Fun.(*ast.SelectorExpr); ok && len(r.Args) == 0 && strings.HasPrefix(se.Sel.Name, "Get") && sub[strings.TrimPrefix(se.Sel.Name, "Get")] {
					b.kind = 1
				}
			}
			binds[id.Name] = append(binds[id.Name], b)
		}
		var branches [][2][2]token.Pos // pairs of sibling branches: {from, to} of each
		ast.Inspect(fn.Body, func(n ast.Node) bool {
			switch x := n.(type) {
			case *ast.AssignStmt:
				if len(x.Lhs) == len(x.Rhs) {
					for i := range x.Lhs {
						bind(x.Lhs[i], x.Rhs[i])
					}
				} else {
					for i := range x.Lhs { // a call with several results: whatever it is, it is not a sub-message field
						if id, ok := x.Lhs[i].(*ast.Ident); ok {
							binds[id.Name] = append(binds[id.Name], binding{pos: id.Pos()})
						}
					}
				}
			case *ast.ValueSpec:
				if len(x.Names) == len(x.Values) {
					for i := range x.Names {
						bind(x.Names[i], x.Values[i])
					}
				}
			case *ast.IfStmt:
				if x.Else != nil {
					branches = append(branches, [2][2]token.Pos{{x.Body.Pos(), x.Body.End()}, {x.Else.Pos(), x.Else.End()}})
				}
			case *ast.SwitchStmt, *ast.TypeSwitchStmt, *ast.SelectStmt:
				var body *ast.BlockStmt
				switch y := x.(type) {
				case *ast.SwitchStmt:
					body = y.Body
				case *ast.TypeSwitchStmt:
					body = y.Body
				case *ast.SelectStmt:
					body = y.Body
				}
				for i, a := range body.List {
					for j, b := range body.List {
						if i != j {
							branches = append(branches, [2][2]token.Pos{{a.Pos(), a.End()}, {b.Pos(), b.End()}})
						}
					}
				}
			}
			return true
		})
		reaches := func(def, use token.Pos) bool {
			if def >= use {
				return false
			}
			for _, br := range branches {
				in := func(p token.Pos, r [2]token.Pos) bool { return r[0] <= p && p < r[1] }
				if (in(def, br[0]) && in(use, br[1])) || (in(def, br[1]) && in(use, br[0])) {
					return false
				}
			}
			return true
		}
		aliasAt := func(name string, use token.Pos, kind int) (string, bool) {
			var last *binding
			for i := range binds[name] {
				b := &binds[name][i]
				if reaches(b.pos, use) && (last == nil || b.pos > last.pos) {
					last = b
				}
			}
			if last == nil || last.kind != kind {
				return "", false
			}
			return last.src, true
		}
		name := fn.Name.Name
		ast.Inspect(fn.Body, func(n ast.Node) bool {
			switch x := n.(type) {
			case *ast.SelectorExpr:
				if calls[x] { // a method call: generated getters are nil-safe
					return true
				}
				switch in := x.X.(type) {
				case *ast.SelectorExpr:
					if sub[in.Sel.Name] {
						base := c11Print(fset, in.X)
						derefs = append(derefs, c11Site{rel, fset.Position(x.Pos()).Line, name, c11Print(fset, x),
							c11Guarded(fset, fn.Body, []string{base + "." + in.Sel.Name, base + ".Get" + in.Sel.Name + "()"}, x.Pos())})
					}
				case *ast.Ident:
					if src, ok := aliasAt(in.Name, x.Pos(), 1); ok {
						aliases = append(aliases, c11Site{rel, fset.Position(x.Pos()).Line, name, c11Print(fset, x),
							c11Guarded(fset, fn.Body, []string{in.Name, src}, x.Pos())})
					}
				}
			case *ast.StarExpr:
				switch in := x.X.(type) {
				case *ast.SelectorExpr:
					if pkg, ok := in.X.(*ast.Ident); ok && imports[pkg.Name] {
						return true // `*pb.T` is a type, not a dereference
					}
					if scalar[in.Sel.Name] {
						e := c11Print(fset, in)
						stars = append(stars, c11Site{rel, fset.Position(x.Pos()).Line, name, "*" + e, c11Guarded(fset, fn.Body, []string{e}, x.Pos())})
					}
				case *ast.Ident:
					if src, ok := aliasAt(in.Name, x.Pos(), 2); ok {
						stars = append(stars, c11Site{rel, fset.Position(x.Pos()).Line, name, "*" + in.Name, c11Guarded(fset, fn.Body, []string{in.Name, src}, x.Pos())})
					}
				}
			}
			return true
		})
	}
	return derefs, aliases, stars
}

func c11Derefs(root string) (derefs, aliases, stars []c11Site, files int, err error) {
	sub, scalar := c11Fields()
	scalar["RegistrationSource"] = true // DecoyRegistration keeps the wrapper's optional enum as a pointer
	fset := token.NewFileSet()
	for _, dir := range c11EntryDirs {
		ents, e := os.ReadDir(filepath.Join(root, dir))
		if e != nil {
			return nil, nil, nil, 0, e
		}
		for _, ent := range ents {
			n := ent.Name()
			if ent.IsDir() || !strings.HasSuffix(n, ".go") || strings.HasSuffix(n, "_test.go") || strings.HasPrefix(n, "zz_verif") || strings.HasSuffix(n, ".pb.go") {
				continue
			}
			rel := filepath.Join(dir, n)
			f, e := parser.ParseFile(fset, filepath.Join(root, rel), nil, 0)
			if e != nil {
				return nil, nil, nil, 0, e
			}
			files++
			d, a, s := c11Scan(fset, rel, f, sub, scalar)
			derefs, aliases, stars = append(derefs, d...), append(aliases, a...), append(stars, s...)
		}
	}
	for _, l := range []*[]c11Site{&derefs, &aliases, &stars} {
		sites := *l
		sort.Slice(sites, func(i, j int) bool {
			if sites[i].file != sites[j].file {
				return sites[i].file < sites[j].file
			}
			if sites[i].line != sites[j].line {
				return sites[i].line < sites[j].line
			}
			return sites[i].expr < sites[j].expr
		})
	}
	return derefs, aliases, stars, files, nil
}

// fixtures: the verdicts of the guard analysis on shapes whose answer is known; a change of the analysis
// that flips one of them fails the generator (the Lean side only sees the booleans it prints)
const c11FixtureSrc = `package fixture

func guardedByReturn(w *W) {
	if w.RegistrationPayload == nil {
		return
	}
	w.RegistrationPayload.Field = 1 // want guarded
}

func unguarded(w *W) {
	w.RegistrationPayload.Field = 1 // want unguarded
}

func orDoesNotProtect(w *W, other bool) {
	if w.RegistrationPayload != nil || other {
		w.RegistrationPayload.Field = 1 // want unguarded
	}
}

func andOnNilDoesNotProtect(w *W, other bool) {
	if w.RegistrationPayload == nil && other {
		return
	}
	w.RegistrationPayload.Field = 1 // want unguarded
}

func elseBranch(w *W) {
	if w.GetRegistrationPayload() == nil {
		log()
	} else {
		w.RegistrationPayload.Field = 1 // want guarded
	}
}

func thenBranchOfNilTest(w *W) {
	if w.RegistrationPayload == nil {
		w.RegistrationPayload.Field = 1 // want unguarded
	}
}

func alias(w *W) {
	p := w.GetRegistrationPayload()
	p.Field = 1 // want unguarded
}

func aliasGuarded(w *W) {
	if p := w.RegistrationPayload; p != nil {
		p.Field = 1 // want guarded
	}
}

func aliasGuardedAtSource(w *W) {
	if w.GetRegistrationPayload() == nil {
		return
	}
	p := w.GetRegistrationPayload()
	p.Field = 1 // want guarded
}

func aliasOverwritten(w *W) {
	p := w.GetRegistrationPayload()
	p = &P{}
	p.Field = 1 // no site: p holds a fresh message here
}

func aliasInOtherBranch(w *W, c bool) {
	p := &P{}
	if c {
		p = w.RegistrationPayload
	} else {
		p.Field = 1 // no site: the assignment in the other branch does not reach this one
	}
	p.Field = 2 // want unguarded
}

func typeNotDeref(r *R) {
	var x *pb.DstPort // no site: a type
	_ = x
}

func sameExpression(w *W) bool {
	return w.RegistrationPayload != nil && w.RegistrationPayload.Field == 1 // want guarded
}

func sameExpressionWrongWay(w *W) bool {
	return w.RegistrationPayload == nil && w.RegistrationPayload.Field == 1 // want unguarded
}

func initialised(w *W) {
	if w.RegistrationPayload == nil {
		w.RegistrationPayload = &P{}
	}
	w.RegistrationPayload.Field = 1 // want guarded
}

func guardOnOtherBase(w, v *W) {
	if v.RegistrationPayload == nil {
		return
	}
	w.RegistrationPayload.Field = 1 // want unguarded
}

func methodCall(w *W) {
	_ = w.RegistrationPayload.GetField() // no site: getters are nil-safe
}

func star(r *R) bool {
	return *r.DstPort == 0 // want unguarded
}

func starGuarded(r *R) bool {
	return r.DstPort != nil && *r.DstPort == 0 // want guarded
}

func starAlias(r *R) uint32 {
	p := r.DstPort
	if p == nil {
		return 0
	}
	return *p // want guarded
}
`

func c11Fixtures() error {
	fset := token.NewFileSet()
	f, err := parser.ParseFile(fset, "fixture.go", c11FixtureSrc, parser.ParseComments)
	if err != nil {
		return err
	}
	want := map[int]string{}
	for _, cg := range f.Comments {
		for _, c := range cg.List {
			if i := strings.Index(c.Text, "want "); i >= 0 {
				want[fset.Position(c.Pos()).Line] = strings.TrimSpace(c.Text[i+5:])
			}
		}
	}
	d, a, s := c11Scan(fset, "fixture.go", f, map[string]bool{"RegistrationPayload": true}, map[string]bool{"DstPort": true})
	got := map[int]string{}
	for _, site := range append(append(d, a...), s...) {
		v := "unguarded"
		if site.guarded {
			v = "guarded"
		}
		if old, dup := got[site.line]; dup && old != v {
			return fmt.Errorf("fixture line %d: two verdicts", site.line)
		}
		got[site.line] = v
	}
	for line, w := range want {
		if got[line] != w {
			return fmt.Errorf("guard analysis changed: fixture line %d (%s) wants %s, got %q", line, strings.TrimSpace(strings.Split(c11FixtureSrc, "\n")[line-1]), w, got[line])
		}
	}
	for line, g := range got {
		if _, ok := want[line]; !ok {
			return fmt.Errorf("guard analysis changed: fixture line %d is reported as a site (%s) but is none", line, g)
		}
	}
	if len(want) < 17 {
		return fmt.Errorf("fixture lost its expectations")
	}
	return nil
}

func leanBytes(b []byte) string {
	if len(b) == 0 {
		return "[]"
	}
	l := make([]string, len(b))
	for i, x := range b {
		l[i] = fmt.Sprintf("0x%s", hex.EncodeToString([]byte{x}))
	}
	return "[" + strings.Join(l, ", ") + "]"
}

func TestVerifC11Gen(t *testing.T) {
	root := os.Getenv("VERIF_SCRATCH_REPO")
	if root == "" {
		root = "../../../.."
	}
	var b strings.Builder
	b.WriteString("import CJ.Model.Ingress\n/-! GENERATED by go/harness/C11/zz_verif_c11_gen_test.go from the tree under test; do not edit. -/\n")
	b.WriteString("namespace CJ.Gen.C11\nopen CJ.Ingress\n\n")
	b.WriteString("/-- `defaultPrefixes` of pkg/transports/wrapping/prefix/prefix.go, sorted by id -/\ndef prefixTable : List PrefixSpec := [\n")
	ids := make([]int, 0, len(defaultPrefixes))
	for id := range defaultPrefixes {
		ids = append(ids, int(id))
	}
	sort.Ints(ids)
	for i, id := range ids {
		p := defaultPrefixes[PrefixID(id)]
		sep := ","
		if i == len(ids)-1 {
			sep = ""
		}
		fmt.Fprintf(&b, "  ⟨%d, %s, %d, %d, %d⟩%s\n", id, leanBytes(p.StaticMatch), p.Offset, p.MinLen, p.MaxLen, sep)
	}
	b.WriteString("]\n\n/-- the tag length `minTagLength` of prefix.go and of min.go -/\n")
	fmt.Fprintf(&b, "def prefixMinTagLength : Nat := %d\n\n", minTagLength)
	b.WriteString("/-- length constants of pkg/transports/wrapping/obfs4/utils.go -/\ndef obfs4Consts : Obfs4Consts :=\n")
	fmt.Fprintf(&b, "  ⟨%d, %d, %d, %d, %d, %d⟩\n\n", ntor.RepresentativeLength, obfs4.MarkLength, obfs4.MacLength,
		obfs4.ClientMinHandshakeLength, obfs4.ClientMinPadLength, obfs4.MaxHandshakeLength)
	if err := c11Fixtures(); err != nil {
		t.Fatal(err)
	}
	sites, aliases, stars, files, err := c11Derefs(root)
	if err != nil {
		t.Fatal(err)
	}
	b.WriteString("/-- one dereference found by the extractor: where, in which function, what, and whether a nil check guards it -/\nstructure Site where\n  file : String\n  line : Nat\n  fn : String\n  expr : String\n  guarded : Bool\nderiving Repr, DecidableEq\n\n")
	fmt.Fprintf(&b, "/-- number of source files of the entry packages that were scanned -/\ndef scannedFiles : Nat := %d\n\n", files)
	b.WriteString("/-- field accesses written as `x.Sub.Field` through a protobuf sub-message pointer in the packages a\nregistration, a first flight or a registration request passes through, and whether a nil check guards them -/\ndef derefSites : List DerefSite := [\n")
	for i, s := range sites {
		sep := ","
		if i == len(sites)-1 {
			sep = ""
		}
		fmt.Fprintf(&b, "  ⟨%q, %d, %q, %v⟩%s\n", s.file, s.line, s.expr, s.guarded, sep)
	}
	b.WriteString("]\n\n")
	for _, tb := range []struct {
		name, doc string
		l         []c11Site
	}{{"aliasSites", "field accesses through a local name that was assigned a sub-message (`p := x.Sub` / `p := x.GetSub()`, then `p.Field`)", aliases},
		{"starSites", "explicit dereferences of optional scalars (`*x.F`, `*p` for a local `p := x.F`)", stars}} {
		fmt.Fprintf(&b, "/-- %s -/\ndef %s : List Site := [\n", tb.doc, tb.name)
		for i, s := range tb.l {
			sep := ","
			if i == len(tb.l)-1 {
				sep = ""
			}
			fmt.Fprintf(&b, "  ⟨%q, %d, %q, %q, %v⟩%s\n", s.file, s.line, s.fn, s.expr, s.guarded, sep)
		}
		b.WriteString("]\n\n")
	}
	b.WriteString("end CJ.Gen.C11\n")
	out := os.Getenv("VERIF_OUT")
	if out == "" {
		out = os.TempDir()
	}
	if err := os.WriteFile(filepath.Join(out, "C11Tables.lean"), []byte(b.String()), 0o644); err != nil {
		t.Fatal(err)
	}
}
