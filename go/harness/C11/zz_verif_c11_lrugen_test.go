//go:build verif

package prefix

// Tie 1d for C11: regenerates lean/CJ/Gen/C11LruCalls.lean from pkg/station/liveness — every call INTO the
// LRU list (`x.lru.Add`, `x.lru.Remove`, …) made by the cache, and whether the cache's own mutex (`x.m`) is
// held at the call. The list was built with an eviction callback that takes that mutex (write lock): a call
// into the list made while the mutex is held - for reading or writing - deadlocks the calling goroutine as
// soon as the call evicts or removes an entry (sync.RWMutex is not re-entrant), and every ingest worker that
// consults the cache afterwards queues behind it.
//
// Syntactic: per function the statements are walked in order; `x.m.Lock()` / `x.m.RLock()` as a statement set
// "held", `x.m.Unlock()` / `x.m.RUnlock()` as a statement clear it, a deferred unlock keeps it held to the end
// of the function; blocks are walked with the state they are entered with and the state after an if / for /
// switch is "held" if it is held after any of its branches or was held before. Pinned by fixtures.

import (
	"fmt"
	"go/ast"
	"go/parser"
	"go/token"
	"os"
	"path/filepath"
	"sort"
	"strings"
	"testing"
)

type c11LruCall struct {
	file   string
	line   int
	fn     string
	callee string
	held   bool
}

func c11LruScan(fset *token.FileSet, rel string, f *ast.File) (calls []c11LruCall, callbackLocks bool) {
	isMutexCall := func(st ast.Stmt, names ...string) (string, bool) {
		es, ok := st.(*ast.ExprStmt)
		if !ok {
			return "", false
		}
		c, ok := es.X.(*ast.CallExpr)
		if !ok {
			return "", false
		}
		se, ok := c.Fun.(*ast.SelectorExpr)
		if !ok {
			return "", false
		}
		for _, n := range names {
			if se.Sel.Name == n && strings.HasSuffix(c11Print(fset, se.X), ".m") {
				return n, true
			}
		}
		return "", false
	}
	var walk func(fn string, list []ast.Stmt, held bool) bool
	record := func(fn string, n ast.Node, held bool) {
		ast.Inspect(n, func(x ast.Node) bool {
			if _, lit := x.(*ast.FuncLit); lit {
				return false
			}
			if c, ok := x.(*ast.CallExpr); ok {
				if se, ok := c.Fun.(*ast.SelectorExpr); ok {
					if in, ok := se.X.(*ast.SelectorExpr); ok && in.Sel.Name == "lru" {
						calls = append(calls, c11LruCall{rel, fset.Position(c.Pos()).Line, fn, "lru." + se.Sel.Name, held})
					}
				}
			}
			return true
		})
	}
	walk = func(fn string, list []ast.Stmt, held bool) bool {
		for _, st := range list {
			if _, ok := isMutexCall(st, "Lock", "RLock"); ok {
				held = true
				continue
			}
			if _, ok := isMutexCall(st, "Unlock", "RUnlock"); ok {
				held = false
				continue
			}
			switch x := st.(type) {
			case *ast.DeferStmt:
				continue // a deferred unlock releases at the end: the lock stays held for the rest of the function
			case *ast.BlockStmt:
				held = walk(fn, x.List, held)
			case *ast.IfStmt:
				if x.Init != nil {
					record(fn, x.Init, held)
				}
				record(fn, x.Cond, held)
				after := walk(fn, x.Body.List, held)
				if x.Else != nil {
					switch e := x.Else.(type) {
					case *ast.BlockStmt:
						after = walk(fn, e.List, held) || after
					case *ast.IfStmt:
						after = walk(fn, []ast.Stmt{e}, held) || after
					}
				}
				held = held || after
			case *ast.ForStmt:
				held = walk(fn, x.Body.List, held) || held
			case *ast.RangeStmt:
				record(fn, x.X, held)
				held = walk(fn, x.Body.List, held) || held
			case *ast.SwitchStmt:
				for _, cc := range x.Body.List {
					if c, ok := cc.(*ast.CaseClause); ok {
						held = walk(fn, c.Body, held) || held
					}
				}
			default:
				record(fn, st, held)
			}
		}
		return held
	}
	for _, d := range f.Decls {
		fd, ok := d.(*ast.FuncDecl)
		if !ok || fd.Body == nil {
			continue
		}
		walk(fd.Name.Name, fd.Body.List, false)
		// function literals (the eviction callback): do they take the mutex?
		ast.Inspect(fd.Body, func(x ast.Node) bool {
			if lit, ok := x.(*ast.FuncLit); ok {
				for _, st := range lit.Body.List {
					if _, ok := isMutexCall(st, "Lock", "RLock"); ok {
						callbackLocks = true
					}
				}
				walk(fd.Name.Name+".func", lit.Body.List, false)
			}
			return true
		})
	}
	return calls, callbackLocks
}

const c11LruFixtureSrc = `package fixture

func (lc *C) released(key string) bool {
	lc.m.RLock()
	_, ok := lc.ipCache[key]
	lc.m.RUnlock()
	if ok {
		lc.lru.Add(key, 1) // want free
	}
	return ok
}

func (lc *C) deferred(key string) bool {
	lc.m.RLock()
	defer lc.m.RUnlock()
	_, ok := lc.ipCache[key]
	if ok {
		lc.lru.Add(key, 1) // want held
	}
	return ok
}

func (lc *C) writeHeld(key string) {
	lc.m.Lock()
	lc.ipCache[key] = 1
	lc.lru.Add(key, 1) // want held
	lc.m.Unlock()
	lc.lru.Remove(key) // want free
}

func (lc *C) loop(keys []string) {
	for _, k := range keys {
		lc.lru.Remove(k) // want free
	}
}

func (lc *C) branchKeepsLock(key string, c bool) {
	if c {
		lc.m.Lock()
	}
	lc.lru.Add(key, 1) // want held
}
`

func c11LruFixtures() error {
	fset := token.NewFileSet()
	f, err := parser.ParseFile(fset, "fixture.go", c11LruFixtureSrc, parser.ParseComments)
	if err != nil {
		return err
	}
	want := map[int]string{}
	for _, cg := range f.Comments {
		for _, c := range cg.List {
			if i := strings.Index(c.Text, "want "); i >= 0 {
				want[fset.Position(c.Pos()).Line] = strings.TrimSpace(c.Text[i+5:])
			}
		}
	}
	calls, _ := c11LruScan(fset, "fixture.go", f)
	got := map[int]string{}
	for _, c := range calls {
		got[c.line] = map[bool]string{true: "held", false: "free"}[c.held]
	}
	if len(want) < 6 {
		return fmt.Errorf("lru fixture lost its expectations")
	}
	for line, w := range want {
		if got[line] != w {
			return fmt.Errorf("lock-state analysis changed: fixture line %d wants %q, got %q", line, w, got[line])
		}
	}
	for line := range got {
		if _, ok := want[line]; !ok {
			return fmt.Errorf("lock-state analysis changed: fixture line %d is reported as a call but carries no expectation", line)
		}
	}
	return nil
}

func TestVerifC11LruGen(t *testing.T) {
	root := os.Getenv("VERIF_SCRATCH_REPO")
	if root == "" {
		root = "../../../.."
	}
	if err := c11LruFixtures(); err != nil {
		t.Fatal(err)
	}
	dir := "pkg/station/liveness"
	ents, err := os.ReadDir(filepath.Join(root, dir))
	if err != nil {
		t.Fatal(err)
	}
	fset := token.NewFileSet()
	var calls []c11LruCall
	cbLocks, files := false, 0
	for _, ent := range ents {
		n := ent.Name()
		if ent.IsDir() || !strings.HasSuffix(n, ".go") || strings.HasSuffix(n, "_test.go") || strings.HasPrefix(n, "zz_verif") {
			continue
		}
		f, err := parser.ParseFile(fset, filepath.Join(root, dir, n), nil, 0)
		if err != nil {
			t.Fatal(err)
		}
		files++
		c, l := c11LruScan(fset, filepath.Join(dir, n), f)
		calls = append(calls, c...)
		cbLocks = cbLocks || l
	}
	sort.Slice(calls, func(i, j int) bool {
		if calls[i].file != calls[j].file {
			return calls[i].file < calls[j].file
		}
		return calls[i].line < calls[j].line
	})
	var b strings.Builder
	b.WriteString("/-! GENERATED by go/harness/C11/zz_verif_c11_lrugen_test.go from the tree under test; do not edit. -/\n")
	b.WriteString("namespace CJ.Gen.C11LruCalls\n\n")
	b.WriteString("/-- a call into the LRU list made by the liveness cache: where, in which function, which method, and\nwhether the cache's own mutex is held at the call -/\nstructure LruCall where\n  file : String\n  line : Nat\n  fn : String\n  callee : String\n  mutexHeld : Bool\nderiving Repr, DecidableEq\n\n")
	fmt.Fprintf(&b, "def scannedFiles : Nat := %d\n\n/-- a function literal of the package (the eviction callback handed to the list) takes the cache's mutex -/\ndef evictionCallbackLocks : Bool := %v\n\n", files, cbLocks)
	b.WriteString("def lruCalls : List LruCall := [\n")
	for i, c := range calls {
		sep := ","
		if i == len(calls)-1 {
			sep = ""
		}
		fmt.Fprintf(&b, "  ⟨%q, %d, %q, %q, %v⟩%s\n", c.file, c.line, c.fn, c.callee, c.held, sep)
	}
	b.WriteString("]\n\nend CJ.Gen.C11LruCalls\n")
	out := os.Getenv("VERIF_OUT")
	if out == "" {
		out = os.TempDir()
	}
	if err := os.WriteFile(filepath.Join(out, "C11LruCalls.lean"), []byte(b.String()), 0o644); err != nil {
		t.Fatal(err)
	}
}
