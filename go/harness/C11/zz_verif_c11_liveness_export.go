//go:build verif

package liveness

// Exports for the C11 harnesses (exist only in the scratch copy): the real testers with the probe that
// sends packets replaced by a function of the harness.

func NewVerifC11Cached(conf *Config, probe func(string) (bool, error)) (*CachedLivenessTester, error) {
	t := &CachedLivenessTester{stats: &stats{}, phantomIsLive: probe}
	if err := t.Init(conf); err != nil {
		return nil, err
	}
	return t, nil
}

func NewVerifC11Uncached(probe func(string) (bool, error)) *UncachedLivenessTester {
	return &UncachedLivenessTester{stats: &stats{}, phantomIsLive: probe}
}
