//go:build verif

package lib

// White-box accessor for the C11 connection harness, which lives in package main of cmd/application.
// This file exists only in the scratch copy of the repository made by /verif/check.

// VerifC11StubDetector replaces the two detector announcements (Redis publish) of a registration manager
// by no-ops.
func VerifC11StubDetector(rm *RegistrationManager) {
	r := rm.registeredDecoys
	r.m.Lock()
	defer r.m.Unlock()
	r.registerForDetector = func(*DecoyRegistration) {}
	r.updateInDetector = func(*DecoyRegistration) {}
}
