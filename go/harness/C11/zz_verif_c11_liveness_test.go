//go:build verif

package liveness

// C11, the liveness caches under the ingest workers. Every new IPv4 registration an ingest worker takes off
// ZMQ goes through RegistrationManager.PhantomIsLive and so through the configured tester: uncached, cached
// in maps, or cached in LRU caches of a configured capacity - whose eviction callback takes the cache's own
// mutex. A cache operation that does not return holds that worker for ever and every other worker behind it:
// the station stops ingesting because of which phantoms the registrations it was sent select, and when.
//
// Two parts, both with a watchdog (a stuck call is reported after 5 s / 20 s and the run goes on, it never
// waits for the go-test timeout):
//   1. every operation of the cache interface (Lookup, Add, ClearExpired, Len, Cap), on the key and on another
//      key, from every state two workers can leave a key in between the statements of their own operations:
//      absent / in the map and in the LRU list / in the map only (the window of a concurrent Add, and of an
//      eviction whose callback has not run yet) / in the list only (a refresh behind an eviction), fresh or
//      expired, with the cache below or at capacity 1..4; afterwards the cache must still serve a new key;
//   2. workers: 4..16 goroutines through the real CachedLivenessTester.PhantomIsLive (probe stubbed: live by
//      address) over 3..6 phantoms with LRU capacities 1..4 for both caches, map caches and no cache.

import (
	"fmt"
	"strings"
	"sync"
	"testing"
	"time"

	"github.com/refraction-networking/conjure/internal/vlib"
	"github.com/refraction-networking/conjure/internal/vlibc11"
)

func c11lGuard(limit time.Duration, f func()) (ok bool, panicked string) {
	done := make(chan string, 1)
	go func() {
		defer func() {
			if p := recover(); p != nil {
				done <- fmt.Sprint(p)
			}
		}()
		f()
		done <- ""
	}()
	select {
	case p := <-done:
		return true, p
	case <-time.After(limit):
		return false, ""
	}
}

func TestVerifC11Liveness(t *testing.T) {
	out := vlib.Open("C11e")
	defer out.Close()
	r := vlib.NewRand("C11e")
	stuck := 0
	report := func(sig, what, replay string) {
		stuck++
		out.OracleFail(sig, what+"; goroutines: "+vlibc11.Stacks(4), replay)
	}

	// ---- 1. every operation from every intermediate state
	states := []string{"absent", "both", "map-only", "list-only"}
	ops := []string{"Lookup", "Add", "ClearExpired", "Len", "Cap", "LookupOther", "AddOther"}
	for _, kind := range []string{"map", "lru"} {
		for capacity := 1; capacity <= 4; capacity++ {
			if kind == "map" && capacity > 1 {
				continue
			}
			for fill := 0; fill <= capacity; fill++ {
				for _, st := range states {
					if kind == "map" && (st == "list-only" || st == "map-only") {
						continue
					}
					for _, expired := range []bool{false, true} {
						for _, op := range ops {
							if stuck >= 3 {
								continue
							}
							exp := time.Hour
							age := time.Duration(0)
							if expired {
								exp, age = time.Millisecond, time.Second
							}
							var c cache
							var lc *lruCache
							if kind == "lru" {
								lc = newLRUCache(exp, capacity)
								c = lc
							} else {
								c = newMapCache(exp)
							}
							for i := 0; i < fill; i++ {
								c.Add(fmt.Sprintf("198.51.100.%d", i+1), &cacheElement{cachedTime: time.Now().Add(-age)})
							}
							k := "203.0.113.7"
							elem := &cacheElement{cachedTime: time.Now().Add(-age)}
							switch st {
							case "both":
								c.Add(k, elem)
							case "map-only": // first statement of Add(k) done, second not yet
								lc.m.Lock()
								lc.ipCache[k] = elem
								lc.m.Unlock()
							case "list-only":
								lc.lru.Add(k, struct{}{})
							}
							replay := fmt.Sprintf("livecache|%s|cap=%d|fill=%d|%s|expired=%v|%s", kind, capacity, fill, st, expired, op)
							ok, p := c11lGuard(5*time.Second, func() {
								switch op {
								case "Lookup":
									c.Lookup(k)
								case "Add":
									c.Add(k, &cacheElement{cachedTime: time.Now()})
								case "ClearExpired":
									c.ClearExpired()
								case "Len":
									c.Len()
								case "Cap":
									c.Cap()
								case "LookupOther":
									c.Lookup("198.51.100.1")
								case "AddOther":
									c.Add("192.0.2.200", &cacheElement{cachedTime: time.Now()})
								}
							})
							out.Checked()
							out.Count("livecache:" + kind + ":" + st)
							what := fmt.Sprintf("%s cache (capacity %d, %d other entries), key %s%s: %s", kind, capacity, fill, st, map[bool]string{true: ", expired", false: ""}[expired], op)
							switch {
							case !ok:
								report("C11:zmq-ingest:hang-in-liveness-cache", what+" did not return within 5 s: the ingest worker that made the call is stuck and holds the cache lock", replay)
								continue
							case p != "":
								out.OracleFail("C11:zmq-ingest:panic-in-liveness-cache", what+" panicked: "+p, replay)
								continue
							}
							// the cache still serves everybody else
							ok, p = c11lGuard(5*time.Second, func() {
								c.Add("192.0.2.201", &cacheElement{cachedTime: time.Now()})
								c.Lookup("192.0.2.201")
								c.ClearExpired()
								c.Len()
							})
							if !ok || p != "" {
								report("C11:zmq-ingest:hang-after-liveness-cache-operation", fmt.Sprintf("%s returned, but the cache no longer serves another key (returned=%v, panic=%q)", what, ok, p), replay)
							}
						}
					}
				}
			}
		}
	}

	// ---- 2. workers through the real tester
	type cfg struct {
		name string
		conf *Config
	}
	var cfgs []cfg
	cfgs = append(cfgs, cfg{"no-cache", &Config{}}, cfg{"map", &Config{CacheDuration: "1h", CacheDurationNonLive: "1h"}},
		cfg{"map-short", &Config{CacheDuration: "1ms", CacheDurationNonLive: "1ms"}})
	for c := 1; c <= 4; c++ {
		cfgs = append(cfgs, cfg{fmt.Sprintf("lru-%d", c), &Config{CacheDuration: "1h", CacheCapacity: c, CacheDurationNonLive: "1h", CacheCapacityNonLive: c}})
	}
	cfgs = append(cfgs, cfg{"lru-2-short", &Config{CacheDuration: "2ms", CacheCapacity: 2, CacheDurationNonLive: "2ms", CacheCapacityNonLive: 2}})
	rounds := vlib.Budget(1500, 12000)
	for _, cf := range cfgs {
		for _, workers := range []int{4, 16} {
			for _, phantoms := range []int{3, 6} {
				if stuck >= 3 {
					continue
				}
				clt, err := NewVerifC11Cached(cf.conf, func(a string) (bool, error) {
					if strings.HasSuffix(strings.Split(a, ":")[0], "1") || strings.HasSuffix(strings.Split(a, ":")[0], "4") {
						return true, nil
					}
					return false, nil
				})
				if err != nil {
					t.Fatal(err)
				}
				seeds := make([]int, workers)
				for i := range seeds {
					seeds[i] = r.Intn(1000)
				}
				var wg sync.WaitGroup
				for w := 0; w < workers; w++ {
					wg.Add(1)
					go func(w int) {
						defer wg.Done()
						for i := 0; i < rounds; i++ {
							_, _ = clt.PhantomIsLive(fmt.Sprintf("192.0.2.%d", (seeds[w]+w+i*7+i/3)%phantoms+1), 443)
							if i%257 == 0 {
								clt.ClearExpiredCache()
							}
						}
					}(w)
				}
				ok, _ := c11lGuard(20*time.Second, wg.Wait)
				out.Checked()
				out.Count("liveworkers:" + cf.name)
				if !ok {
					report("C11:zmq-ingest:hang-after-liveness-lookups",
						fmt.Sprintf("%d workers x %d liveness checks over %d phantoms on a tester with %s: not all returned within 20 s - the workers are blocked on the cache, the station no longer ingests", workers, rounds, phantoms, cf.name),
						fmt.Sprintf("liveworkers|%s|%d|%d", cf.name, workers, phantoms))
				}
			}
		}
	}
}
