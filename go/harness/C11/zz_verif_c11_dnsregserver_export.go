//go:build verif

package dnsregserver

import (
	"github.com/refraction-networking/conjure/pkg/metrics"
	"github.com/refraction-networking/conjure/pkg/regserver/regprocessor"
	log "github.com/sirupsen/logrus"
)

// Exports for the C11 harness (exist only in the scratch copy).

func NewVerifDNSRegServer(p *regprocessor.RegProcessor, latestGen uint32, logger log.FieldLogger, m *metrics.Metrics) *DNSRegServer {
	return &DNSRegServer{processor: p, latestCCGen: latestGen, logger: logger, metrics: m}
}

func (s *DNSRegServer) VerifProcessRequest(b []byte) ([]byte, error) { return s.processRequest(b) }
