//go:build verif

package dnsregserver

import (
	"github.com/refraction-networking/conjure/pkg/metrics"
	"github.com/refraction-networking/conjure/pkg/regserver/regprocessor"
	pb "github.com/refraction-networking/conjure/proto"
	log "github.com/sirupsen/logrus"
)

// Exports for the C11 harness (exist only in the scratch copy).

func NewVerifDNSRegServer(p *regprocessor.RegProcessor, latestGen uint32, logger log.FieldLogger, m *metrics.Metrics) *DNSRegServer {
	return &DNSRegServer{processor: p, latestCCGen: latestGen, logger: logger, metrics: m}
}

// VerifRegistrar: what the front end needs of the processor (the package's own interface is unexported)
type VerifRegistrar interface {
	RegisterUnidirectional(*pb.C2SWrapper, pb.RegistrationSource, []byte) error
	RegisterBidirectional(*pb.C2SWrapper, pb.RegistrationSource, []byte) (*pb.RegistrationResponse, error)
}

// NewVerifDNSRegServerOn: the front end on a processor the harness can replace
func NewVerifDNSRegServerOn(p VerifRegistrar, latestGen uint32, logger log.FieldLogger, m *metrics.Metrics) *DNSRegServer {
	return &DNSRegServer{processor: p, latestCCGen: latestGen, logger: logger, metrics: m}
}

func (s *DNSRegServer) VerifProcessRequest(b []byte) ([]byte, error) { return s.processRequest(b) }
