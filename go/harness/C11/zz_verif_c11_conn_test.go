//go:build verif

package main

// C11, phantom connections against the statistics epochs of the connection manager.
//
// handleNewTCPConn runs in a goroutine of its own without recover (go cm.handleNewConn): a panic anywhere
// in it ends the station. Besides the bytes of the first flight, what a remote party controls about a
// connection is its TIMING: when it connects, when it sends, when it closes. The connection manager is a
// verbose statistics module: at every statistics epoch PrintAndReset / Reset replace its counters, among
// them the per-ASN records that exist only while a GeoIP database answers. So the epoch boundary is an event
// that can fall between any two steps of a connection's life.
//
// This harness makes it fall there, deterministically: the real handleNewTCPConn runs on a scripted
// connection and on the real min transport behind a thin wrapper; every call the handler makes on the
// connection (SetDeadline, Read, Write, Close, …) and every WrapConnection call is a hook point, and a run
// executes PrintAndReset (or Reset) at hook point p, in the handler's own goroutine - no sleeping, no
// racing. For every scenario the run without reset counts the hook points, then one run per (point, kind
// of reset), and one with a reset at every point. Scenarios: IPv4 / IPv6 phantom x with / without a
// registration x GeoIP answers (country and ASN; "unk"; empty; failing ASN lookup) x first flights (nothing,
// a few bytes, junk of tag length, the genuine tag in one read and split over two, junk in three reads) x
// endings (EOF, closed, reset, timeout, another error, data together with the error). A connection whose
// flight carries the tag goes on to cj.Proxy, whose covert dial is refused at once.
//
// Oracle: the handler does not panic and returns, and the statistics lock is free afterwards.

import (
	"bytes"
	"errors"
	"fmt"
	"io"
	golog "log"
	"net"
	"os"
	"reflect"
	"strings"
	"syscall"
	"testing"
	"time"

	"github.com/refraction-networking/conjure/internal/conjurepath"
	"github.com/refraction-networking/conjure/internal/vlib"
	"github.com/refraction-networking/conjure/internal/vlibc11"
	"github.com/refraction-networking/conjure/pkg/core"
	cj "github.com/refraction-networking/conjure/pkg/station/lib"
	"github.com/refraction-networking/conjure/pkg/station/log"
	"github.com/refraction-networking/conjure/pkg/transports"
	"github.com/refraction-networking/conjure/pkg/transports/wrapping/min"
	pb "github.com/refraction-networking/conjure/proto"
)

type c11cGeo struct {
	cc      string
	asn     uint
	failASN bool
}

func (g *c11cGeo) CC(net.IP) (string, error) { return g.cc, nil }
func (g *c11cGeo) ASN(net.IP) (uint, error) {
	if g.failASN {
		return 0, errors.New("verif: asn lookup failed")
	}
	return g.asn, nil
}

// hooks: the points of a connection's life at which something else can happen
type c11cHooks struct {
	n    int          // hook points passed so far
	at   map[int]bool // run the event at these points (nil: never)
	all  bool         // … or at every point
	run  func()       // the event
	seen []string     // what the points were (for the replay text)
}

func (h *c11cHooks) point(what string) {
	k := h.n
	h.n++
	h.seen = append(h.seen, what)
	if h.run != nil && (h.all || h.at[k]) {
		h.run()
	}
}

type c11cRead struct {
	data []byte
	err  error
}

type c11cConn struct {
	h      *c11cHooks
	remote net.Addr
	script []c11cRead
	i      int
}

func (c *c11cConn) Read(p []byte) (int, error) {
	c.h.point("Read")
	if c.i >= len(c.script) {
		return 0, io.EOF
	}
	r := c.script[c.i]
	c.i++
	return copy(p, r.data), r.err
}
func (c *c11cConn) Write(p []byte) (int, error)      { c.h.point("Write"); return len(p), nil }
func (c *c11cConn) Close() error                     { c.h.point("Close"); return nil }
func (c *c11cConn) LocalAddr() net.Addr              { return &net.TCPAddr{IP: net.IPv4(127, 0, 0, 1), Port: 41245} }
func (c *c11cConn) RemoteAddr() net.Addr             { return c.remote }
func (c *c11cConn) SetDeadline(time.Time) error      { c.h.point("SetDeadline"); return nil }
func (c *c11cConn) SetReadDeadline(time.Time) error  { c.h.point("SetReadDeadline"); return nil }
func (c *c11cConn) SetWriteDeadline(time.Time) error { c.h.point("SetWriteDeadline"); return nil }

// the real min transport with a hook point in front of every verdict
type c11cMin struct {
	min.Transport
	h **c11cHooks
}

func (t c11cMin) WrapConnection(data *bytes.Buffer, c net.Conn, phantom net.IP, rm transports.RegManager) (transports.Registration, net.Conn, error) {
	(*t.h).point("WrapConnection")
	return t.Transport.WrapConnection(data, c, phantom, rm)
}

type c11cTimeout struct{}

func (c11cTimeout) Error() string   { return "verif: i/o timeout" }
func (c11cTimeout) Timeout() bool   { return true }
func (c11cTimeout) Temporary() bool { return true }

type c11cScenario struct {
	v6      bool
	withReg bool
	geo     int
	flight  int
	ending  int
}

func (s c11cScenario) String() string {
	return fmt.Sprintf("v6=%v,reg=%v,geo=%d,flight=%d,ending=%d", s.v6, s.withReg, s.geo, s.flight, s.ending)
}

func TestVerifC11Conn(t *testing.T) {
	out := vlib.Open("C11d")
	defer out.Close()
	os.Setenv("PHANTOM_SUBNET_LOCATION", conjurepath.Root+"/pkg/station/lib/test/phantom_subnets.toml")
	logger := log.New(io.Discard, "", golog.Ldate)
	r := vlib.NewRand("C11d")
	// the handler logs to os.Stdout: keep the test output readable
	if devnull, err := os.OpenFile(os.DevNull, os.O_WRONLY, 0); err == nil {
		saved := os.Stdout
		os.Stdout = devnull
		defer func() { os.Stdout = saved }()
	}

	rm := cj.NewRegistrationManager(&cj.RegConfig{})
	if rm == nil {
		t.Fatal("NewRegistrationManager returned nil for the zero configuration")
	}
	rm.Logger = logger
	cj.VerifC11StubDetector(rm)
	var hooks *c11cHooks
	if err := rm.AddTransport(pb.TransportType_Min, c11cMin{h: &hooks}); err != nil {
		t.Fatal(err)
	}
	geo := &c11cGeo{}
	rm.GeoIP = geo

	phantoms := map[bool]map[bool]net.IP{ // [v6][withReg]
		false: {true: net.ParseIP("192.122.190.77"), false: net.ParseIP("192.122.190.78")},
		true:  {true: net.ParseIP("2001:48a8:687f:1::77"), false: net.ParseIP("2001:48a8:687f:1::78")},
	}
	tags := map[bool][]byte{}
	for _, v6 := range []bool{false, true} {
		secret := r.Bytes(32)
		tt := pb.TransportType_Min
		libver := uint(core.CurrentClientLibraryVersion())
		keys, err := core.GenSharedKeys(libver, secret, tt)
		if err != nil {
			t.Fatal(err)
		}
		v, covert, gen := uint32(libver), "127.0.0.1:9", uint32(1)
		src := pb.RegistrationSource_API
		reg, err := rm.NewRegistration(&pb.ClientToStation{ClientLibVersion: &v, Transport: &tt, CovertAddress: &covert, DecoyListGeneration: &gen}, &keys, v6, &src)
		if err != nil {
			t.Fatal(err)
		}
		reg.PhantomIp = phantoms[v6][true]
		rm.AddRegistration(reg)
		if rm.CountRegistrations(reg.PhantomIp) < 1 {
			t.Fatalf("registration on %v was not stored", reg.PhantomIp)
		}
		tags[v6] = []byte(min.Transport{}.GetIdentifier(reg))
	}

	geos := []c11cGeo{{cc: "US", asn: 64500}, {cc: "IR", asn: 197207}, {cc: "unk"}, {cc: ""}, {cc: "US", failASN: true}}
	endings := []struct {
		name string
		err  error
		data int // bytes delivered together with the error
	}{{"eof", io.EOF, 0}, {"closed", net.ErrClosed, 0}, {"reset", &net.OpError{Op: "read", Net: "tcp", Err: syscall.ECONNRESET}, 0},
		{"timeout", c11cTimeout{}, 0}, {"other", errors.New("verif: some other error"), 0}, {"eof-with-data", io.EOF, 7}}
	flights := []string{"nothing", "few-bytes", "junk-32", "tag", "tag-split", "junk-3-reads", "tag-then-data"}
	script := func(s c11cScenario) []c11cRead {
		tag := tags[s.v6]
		var rd []c11cRead
		switch flights[s.flight] {
		case "few-bytes":
			rd = append(rd, c11cRead{data: r.Bytes(5)})
		case "junk-32":
			rd = append(rd, c11cRead{data: r.Bytes(40)})
		case "tag":
			rd = append(rd, c11cRead{data: append([]byte(nil), tag...)})
		case "tag-split":
			rd = append(rd, c11cRead{data: append([]byte(nil), tag[:10]...)}, c11cRead{data: append([]byte(nil), tag[10:]...)})
		case "junk-3-reads":
			rd = append(rd, c11cRead{data: r.Bytes(3)}, c11cRead{data: nil}, c11cRead{data: r.Bytes(200)})
		case "tag-then-data":
			rd = append(rd, c11cRead{data: append(append([]byte(nil), tag...), r.Bytes(50)...)}, c11cRead{data: r.Bytes(20)})
		}
		e := endings[s.ending]
		return append(rd, c11cRead{data: r.Bytes(e.data), err: e.err})
	}
	peers := map[bool]net.Addr{false: &net.TCPAddr{IP: net.IPv4(203, 0, 113, 99).To4(), Port: 5555}, true: &net.TCPAddr{IP: net.ParseIP("2001:db8::99"), Port: 5555}}

	runs, failures := 0, 0
	// one handler run: scenario s, the event at the points in at (or at all of them), on a fresh connection manager
	one := func(s c11cScenario, at map[int]bool, all bool, kind string) int {
		cm := newConnManager(nil)
		h := &c11cHooks{at: at, all: all}
		switch kind {
		case "print":
			h.run = func() { cm.PrintAndReset(logger) }
		case "reset":
			h.run = func() { cm.Reset() }
		}
		hooks = h
		*geo = geos[s.geo]
		conn := &c11cConn{h: h, remote: peers[s.v6], script: script(s)}
		var pts []string
		for p := range at {
			pts = append(pts, fmt.Sprint(p))
		}
		if all {
			pts = []string{"all"}
		}
		replay := fmt.Sprintf("conn|%s|%s|%s", s, strings.Join(pts, ","), kind)
		res := vlibc11.Guard(func() { cm.handleNewTCPConn(rm, conn, phantoms[s.v6][s.withReg]) })
		out.Checked()
		runs++
		what := fmt.Sprintf("phantom %v (registration: %v), GeoIP %+v, first flight %s, ending %s", phantoms[s.v6][s.withReg], s.withReg, geos[s.geo], flights[s.flight], endings[s.ending].name)
		if kind != "" {
			what += fmt.Sprintf("; statistics epoch (%s) at hook point(s) %s of %v", kind, strings.Join(pts, ","), h.seen)
		}
		if res.Bad() {
			failures++
			out.OracleFail(res.Sig("first-flight-conn"), "handleNewTCPConn: "+res.What()+" - "+what, replay)
		} else if !cm.connStats.m.TryLock() {
			failures++
			out.OracleFail("C11:first-flight-conn:stats-lock-held-after-return", "handleNewTCPConn returned with the statistics lock held: the next statistics epoch blocks for ever - "+what, replay)
		} else {
			cm.connStats.m.Unlock()
			// the epoch after the connection
			res := vlibc11.Guard(func() { cm.PrintAndReset(logger) })
			if res.Bad() {
				failures++
				out.OracleFail(res.Sig("stats-epoch"), "PrintAndReset after the connection: "+res.What()+" - "+what, replay)
			}
		}
		out.Count("conn:flight:" + flights[s.flight])
		out.Count("conn:ending:" + endings[s.ending].name)
		if kind != "" {
			out.Count("conn:epoch:" + kind)
		}
		return h.n
	}

	if rp := vlib.Replay(); rp != "" {
		fmt.Fprintln(os.Stderr, "REPLAY: the scenarios are fixed and cheap: the run is repeated as a whole")
	}
	for _, v6 := range []bool{false, true} {
		for _, withReg := range []bool{true, false} {
			for gi := range geos {
				for fi := range flights {
					for ei := range endings {
						if failures >= 60 {
							continue
						}
						if !withReg && fi >= 3 && fi != 5 { // without a registration the handler never looks at the bytes
							continue
						}
						if gi >= 2 && vlib.Tier() != "thorough" && (fi+ei)%3 != 0 { // no per-ASN record without a country: a third of those in the quick tier
							continue
						}
						s := c11cScenario{v6, withReg, gi, fi, ei}
						k := one(s, nil, false, "")
						for p := 0; p < k; p++ {
							for _, kind := range []string{"print", "reset"} {
								one(s, map[int]bool{p: true}, false, kind)
							}
						}
						one(s, nil, true, "print")
						// two epochs: at the first point and at each later one
						for p := 1; p < k; p++ {
							one(s, map[int]bool{0: true, p: true}, false, "reset")
						}
					}
				}
			}
		}
	}
	// every exported statistics entry point with an (asn, cc, …) signature - the tunnel statistics of the
	// connecting transports - on an object that has never seen the ASN, which is what each of them finds
	// right after an epoch; called by name so that a new one is covered (the unexported transitions of the
	// connection handler are not visible to reflection: they are what the scenarios above drive)
	calls := 0
	tv := reflect.TypeOf(newConnManager(nil).connStats)
	for i := 0; i < tv.NumMethod(); i++ {
		m := tv.Method(i)
		if m.Type.NumIn() != 4 || m.Type.In(1).Kind() != reflect.Uint || m.Type.In(2).Kind() != reflect.String {
			continue
		}
		var lasts []reflect.Value
		switch m.Type.In(3).Kind() {
		case reflect.Bool:
			lasts = []reflect.Value{reflect.ValueOf(true), reflect.ValueOf(false)}
		case reflect.String:
			lasts = []reflect.Value{reflect.ValueOf("dtls"), reflect.ValueOf("")}
		default:
			continue
		}
		for _, last := range lasts {
			for _, g := range geos[:4] {
				for _, prior := range []string{"fresh", "after-reset", "after-print"} {
					cm := newConnManager(nil)
					switch prior {
					case "after-reset":
						cm.addCreated(g.asn, g.cc, true)
						cm.addCreated(g.asn, g.cc, false)
						cm.Reset()
					case "after-print":
						cm.addCreated(g.asn, g.cc, true)
						cm.addCreated(g.asn, g.cc, false)
						cm.PrintAndReset(logger)
					}
					replay := fmt.Sprintf("stat|%s|%d|%s|%v|%s", m.Name, g.asn, g.cc, last.Interface(), prior)
					res := vlibc11.Guard(func() {
						reflect.ValueOf(cm.connStats).MethodByName(m.Name).Call([]reflect.Value{reflect.ValueOf(g.asn), reflect.ValueOf(g.cc), last})
					})
					out.Checked()
					calls++
					if res.Bad() {
						out.OracleFail(res.Sig("conn-stats"), fmt.Sprintf("connStats.%s(%d, %q, %v) on an object that is %s: %s", m.Name, g.asn, g.cc, last.Interface(), prior, res.What()), replay)
					} else if !cm.connStats.m.TryLock() {
						out.OracleFail("C11:conn-stats:stats-lock-held-after-return", fmt.Sprintf("connStats.%s returned with the statistics lock held", m.Name), replay)
					} else {
						cm.connStats.m.Unlock()
					}
				}
			}
		}
	}
	out.Count("conn:stat-entry-points")
	out.Note(fmt.Sprintf("phantom connections against statistics epochs: %d handler runs; %d calls of statistics entry points on empty objects", runs, calls))
}
