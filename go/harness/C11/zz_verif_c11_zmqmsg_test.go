//go:build verif

package lib

// C11, station side: parseRegMessage / NewRegistrationC2SWrapper against the field-level Lean model
// (CJ/Model/IngressMsg.lean, `ingress|zmq|…`). The fields travel as the real getters answer them after
// proto.Unmarshal; what NewRegistration builds for each family (phantom address, port) and the GeoIP
// lookups are computed by the real code on copies and handed to the model; which registrations come out
// of the message - with the overrides of the registration response, the family checks on addresses of
// any length, the port narrowed to 16 bits - is compared: `error` / `regs <phantom>:<port>,…`.

import (
	"fmt"
	"net"
	"strings"

	"github.com/refraction-networking/conjure/internal/vlib"
	"github.com/refraction-networking/conjure/internal/vlibc11"
	"github.com/refraction-networking/conjure/pkg/core"
	pb "github.com/refraction-networking/conjure/proto"
	"google.golang.org/protobuf/proto"
)

func c11OptHex(b []byte) string {
	if b == nil {
		return "N"
	}
	return vlib.Hex(b)
}

func c11OptU32(p *uint32) string {
	if p == nil {
		return "N"
	}
	return fmt.Sprint(*p)
}

// zmqLine: the case line of one message under the station's current family switches
func (s *c11Station) zmqLine(msg []byte) string {
	parsed := &pb.C2SWrapper{}
	if proto.Unmarshal(msg, parsed) != nil {
		return fmt.Sprintf("ingress|zmq|0|0|0|0|0|N|0|N|%s|%s|E|E|0", vlib.B(s.rm.EnableIPv4), vlib.B(s.rm.EnableIPv6))
	}
	c2s := parsed.GetRegistrationPayload()
	rr := parsed.GetRegistrationResponse()
	_, kerr := core.GenSharedKeys(uint(c2s.GetClientLibVersion()), parsed.GetSharedSecret(), c2s.GetTransport())
	built := func(v6 bool) string {
		if kerr != nil || c2s == nil {
			return "E"
		}
		cw := proto.Clone(parsed).(*pb.C2SWrapper)
		c := cw.GetRegistrationPayload()
		if rr.GetTransportParams() != nil && !c.GetDisableRegistrarOverrides() {
			c.TransportParams = cw.GetRegistrationResponse().GetTransportParams()
		}
		keys, err := core.GenSharedKeys(uint(c.GetClientLibVersion()), cw.GetSharedSecret(), c.GetTransport())
		if err != nil {
			return "E"
		}
		src := cw.GetRegistrationSource()
		reg, err := s.rm.NewRegistration(c, &keys, v6, &src)
		if err != nil || reg == nil {
			return "E"
		}
		return fmt.Sprintf("%s:%d", vlib.Hex(reg.PhantomIp), reg.PhantomPort)
	}
	client := parsed.GetRegistrationAddress()
	if client == nil {
		client = make([]byte, 16)
	}
	_, e1 := s.rm.GeoIPDatabase().CC(net.IP(client))
	_, e2 := s.rm.GeoIPDatabase().ASN(net.IP(client))
	rrs := "N"
	if rr != nil {
		rrs = fmt.Sprintf("%s;%s;%s;%s", c11OptU32(rr.DstPort), vlib.B(rr.GetTransportParams() != nil), c11OptU32(rr.Ipv4Addr), c11OptHex(rr.Ipv6Addr))
	}
	return strings.Join([]string{"ingress", "zmq", "1", vlib.B(c2s != nil), vlib.B(c2s.GetV4Support()), vlib.B(c2s.GetV6Support()),
		vlib.B(c2s.GetDisableRegistrarOverrides()), c11OptHex(parsed.GetRegistrationAddress()), vlib.B(kerr == nil), rrs,
		vlib.B(s.rm.EnableIPv4), vlib.B(s.rm.EnableIPv6), built(false), built(true), vlib.B(e1 == nil && e2 == nil)}, "|")
}

func (s *c11Station) zmqCase(msg []byte, kind string) {
	replay := "zmqmsg|" + vlib.Hex(msg)
	var line string
	res := vlibc11.Guard(func() { line = s.zmqLine(msg) })
	if res.Bad() {
		s.fail("zmq-components", res, replay)
		return
	}
	var regs []*DecoyRegistration
	var err error
	res = vlibc11.Guard(func() { regs, err = s.rm.parseRegMessage(msg) })
	s.out.Checked()
	var ans string
	switch {
	case res.Hang:
		ans = "hang"
	case res.Panic != "":
		switch vlibc11.Class(res.Panic) {
		case "nil-deref":
			ans = "panic nil pointer dereference"
		case "index-out-of-range":
			ans = "panic index out of range"
		case "slice-out-of-range":
			ans = "panic slice bounds out of range"
		default:
			ans = "panic " + res.Panic
		}
	case err != nil:
		ans = "error"
	default:
		var l []string
		for _, r := range regs {
			if r == nil {
				l = append(l, "nil")
				continue
			}
			l = append(l, fmt.Sprintf("%s:%d", vlib.Hex(r.PhantomIp), r.PhantomPort))
		}
		ans = "regs " + strings.Join(l, ",")
	}
	s.out.Case(line, ans, len(regs) > 0)
	s.out.Count(fmt.Sprintf("msg:zmq:%s:%s", kind, strings.Fields(ans + " x")[0]))
	if len(regs) > 0 {
		s.out.Count(fmt.Sprintf("msg:zmq:regs-%d", len(regs)))
	}
	if res.Bad() {
		s.fail("zmq-parse", res, replay)
	}
}

// zmqMsgs: the generated messages of the ingest section (structured, mutated, well-formed DTLS, noise, bent
// bytes) in process, under the four settings of the family switches
func (s *c11Station) zmqMsgs(msgs [][]byte) {
	n := vlib.Budget(8000, 80000)
	if n > len(msgs) {
		n = len(msgs)
	}
	step := len(msgs) / n
	if step < 1 {
		step = 1
	}
	e4, e6 := s.rm.EnableIPv4, s.rm.EnableIPv6
	defer func() { s.rm.EnableIPv4, s.rm.EnableIPv6 = e4, e6 }()
	for i := 0; i < len(msgs); i += step {
		k := 3
		if s.r.Chance(1, 4) {
			k = s.r.Intn(3)
		}
		s.rm.EnableIPv4, s.rm.EnableIPv6 = k&1 != 0, k&2 != 0
		s.zmqCase(msgs[i], "gen")
	}
	// responses whose overrides meet every family: a well-formed registration with a response carrying
	// addresses of every length / value, ports around 16 bits, and client addresses of every length
	for i := 0; i < vlib.Budget(1500, 20000); i++ {
		tr := []pb.TransportType{pb.TransportType_Min, pb.TransportType_Prefix, pb.TransportType_Obfs4}[s.r.Intn(3)]
		gen := s.g.Generations[s.r.Intn(len(s.g.Generations))]
		w := s.validWrapper(s.r.Bytes(32), tr, nil, gen, s.r.Bool())
		w.RegistrationPayload.V4Support = proto.Bool(!s.r.Chance(1, 5))
		w.RegistrationAddress = s.g.Bytes(-1, 0, 3, 4, 4, 4, 5, 15, 16, 16, 17)
		if len(w.RegistrationAddress) == 16 && s.r.Bool() {
			copy(w.RegistrationAddress, []byte{0, 0, 0, 0, 0, 0, 0, 0, 0, 0, 0xff, 0xff})
		}
		if !s.r.Chance(1, 6) {
			w.RegistrationResponse = s.g.RegResponse()
			if s.r.Chance(1, 3) && len(w.RegistrationResponse.Ipv6Addr) == 16 {
				copy(w.RegistrationResponse.Ipv6Addr, []byte{0, 0, 0, 0, 0, 0, 0, 0, 0, 0, 0xff, 0xff}) // an IPv4-mapped "IPv6" override
			}
		}
		if s.r.Chance(1, 4) {
			w.RegistrationPayload.DisableRegistrarOverrides = proto.Bool(s.r.Bool())
		}
		k := 3
		if s.r.Chance(1, 4) {
			k = s.r.Intn(3)
		}
		s.rm.EnableIPv4, s.rm.EnableIPv6 = k&1 != 0, k&2 != 0
		s.zmqCase(vlibc11.Marshal(w), "override")
	}
}
