//go:build verif

package apiregserver

// C11, registrar side: processC2SWrapper and processBdReq against their field-level Lean models
// (CJ/Model/IngressMsg.lean). The real function and the model answer the same generated wrappers
// (structured, mutated on the wire, well-formed, nil): accept / reject and the decoded result - what is
// forwarded to the stations (ingress|c2sw) and the addresses of the response (ingress|bdreq). A panic is
// the model's `Outcome.panic`, which the theorems show unreachable; on the real code it is an oracle failure.

import (
	"errors"
	"fmt"
	"strings"

	"github.com/refraction-networking/conjure/internal/vlib"
	"github.com/refraction-networking/conjure/internal/vlibc11"
	"github.com/refraction-networking/conjure/pkg/regserver/regprocessor"
	pb "github.com/refraction-networking/conjure/proto"
	"google.golang.org/protobuf/encoding/protowire"
	"google.golang.org/protobuf/proto"
)

func c11OptHex(b []byte) string {
	if b == nil {
		return "N"
	}
	return vlib.Hex(b)
}

// the last varint of a top-level field, read from the wire (an enum value the generated type does not
// know is kept among the unknown fields by proto.Unmarshal; the stations' parser sees the number)
func c11RawVarint(b []byte, want protowire.Number) (uint64, bool) {
	var v uint64
	found := false
	for len(b) > 0 {
		num, typ, n := protowire.ConsumeTag(b)
		if n < 0 {
			return 0, false
		}
		b = b[n:]
		if num == want && typ == protowire.VarintType {
			x, m := protowire.ConsumeVarint(b)
			if m < 0 {
				return 0, false
			}
			v, found = x, true
			b = b[m:]
			continue
		}
		m := protowire.ConsumeFieldValue(num, typ, b)
		if m < 0 {
			return 0, false
		}
		b = b[m:]
	}
	return v, found
}

func c11PanicAnswer(res vlibc11.Result) string {
	if res.Hang {
		return "hang"
	}
	switch {
	case strings.Contains(res.Panic, "bad private key length"):
		return "panic ed25519: bad private key length"
	case vlibc11.Class(res.Panic) == "nil-deref":
		return "panic nil pointer dereference"
	case vlibc11.Class(res.Panic) == "index-out-of-range":
		return "panic index out of range"
	case vlibc11.Class(res.Panic) == "slice-out-of-range":
		return "panic slice bounds out of range"
	}
	return "panic " + res.Panic
}

// one case of processC2SWrapper; external = the inputs are what a client can supply (a panic is a finding)
func (c *c11Reg) c2swCase(p *regprocessor.RegProcessor, w *pb.C2SWrapper, addr []byte, src pb.RegistrationSource, kind, replay string, external bool) {
	auth, keyLen := p.VerifAuth()
	wl := "N"
	rrOk, mOk := true, true
	if w != nil {
		if int32(w.GetRegistrationSource()) < 0 || int32(src) < 0 {
			return
		}
		wl = fmt.Sprintf("%s;%d;%s;%s;%s", vlib.Hex(w.GetSharedSecret()), int32(w.GetRegistrationSource()), c11OptHex(w.GetRegistrationAddress()),
			vlib.B(w.RegistrationPayload != nil), vlib.B(w.RegistrationResponse != nil))
		// what the protobuf library says about the two messages the function marshals
		if w.RegistrationResponse != nil {
			_, err := proto.Marshal(w.RegistrationResponse)
			rrOk = err == nil
		}
		_, err := proto.Marshal(&pb.C2SWrapper{SharedSecret: w.GetSharedSecret(), RegistrationPayload: w.RegistrationPayload, RegistrationResponse: w.RegistrationResponse})
		mOk = err == nil
	}
	line := fmt.Sprintf("ingress|c2sw|%s|%s|%d|%s|%d|%s|%s", wl, c11OptHex(addr), int32(src), vlib.B(auth), keyLen, vlib.B(rrOk), vlib.B(mOk))
	var wc *pb.C2SWrapper
	if w != nil {
		wc = proto.Clone(w).(*pb.C2SWrapper)
	}
	var out []byte
	var err error
	res := vlibc11.Guard(func() { out, err = p.VerifProcessC2SWrapper(wc, addr, src) })
	c.out.Checked()
	var ans string
	switch {
	case res.Bad():
		ans = c11PanicAnswer(res)
	case errors.Is(err, regprocessor.ErrNoC2SBody):
		ans = "err nobody"
	case errors.Is(err, regprocessor.ErrSharedSecret):
		ans = "err secret"
	case err != nil:
		ans = "err marshal"
	default:
		fw := &pb.C2SWrapper{}
		if e := (proto.UnmarshalOptions{AllowPartial: true}).Unmarshal(out, fw); e != nil {
			ans = "fwd undecodable"
		} else {
			s, _ := c11RawVarint(out, 4)
			ans = fmt.Sprintf("fwd src=%d addr=%s secret=%s payload=%s rr=%s signed=%s", s, c11OptHex(fw.RegistrationAddress), vlib.Hex(fw.SharedSecret),
				vlib.B(fw.RegistrationPayload != nil), vlib.B(fw.RegistrationResponse != nil), vlib.B(fw.RegRespSignature != nil && fw.RegRespBytes != nil))
		}
	}
	c.out.Case(line, ans, strings.HasPrefix(ans, "fwd"))
	c.out.Count("msg:c2sw:" + kind + ":" + strings.Join(strings.Fields(ans + " x")[:2], "-"))
	if res.Bad() && external {
		c.fail("process-c2s-wrapper", res, replay)
	}
}

func (c *c11Reg) bdreqCase(p *regprocessor.RegProcessor, w *pb.C2SWrapper, kind, replay string) {
	var line string
	res := vlibc11.Guard(func() { line = p.VerifBdLine(w) })
	if res.Bad() {
		c.fail("process-bd-req-components", res, replay)
		return
	}
	var wc *pb.C2SWrapper
	if w != nil {
		wc = proto.Clone(w).(*pb.C2SWrapper)
	}
	var resp *pb.RegistrationResponse
	var err error
	res = vlibc11.Guard(func() { resp, err = p.VerifProcessBdReq(wc) })
	c.out.Checked()
	var ans string
	switch {
	case res.Bad():
		ans = c11PanicAnswer(res)
	case errors.Is(err, regprocessor.ErrNoC2SBody):
		ans = "nobody"
	case err != nil:
		ans = "error"
	default:
		v4 := "-"
		if resp.Ipv4Addr != nil {
			v4 = fmt.Sprint(resp.GetIpv4Addr())
		}
		ans = fmt.Sprintf("response v4=%s v6=%s", v4, c11OptHex(resp.Ipv6Addr))
	}
	c.out.Case(line, ans, strings.HasPrefix(ans, "response"))
	c.out.Count("msg:bdreq:" + kind + ":" + strings.Fields(ans + " x")[0])
	if res.Bad() {
		c.fail("process-bd-req", res, replay)
	}
}

// msgOne: one body through both lines (plain = a processor that does not enforce subnet overrides, so that
// the addresses of the response are a function of the request)
func (c *c11Reg) msgOne(plain *regprocessor.RegProcessor, b []byte, kind string) {
	w := &pb.C2SWrapper{}
	if err := (proto.UnmarshalOptions{AllowPartial: true}).Unmarshal(b, w); err != nil {
		c.out.Count("msg:" + kind + ":not-a-wrapper")
		return
	}
	replay := "procmsg|" + vlib.Hex(b)
	addr := c.g.Bytes(-1, -1, 0, 4, 16, 17)
	src := pb.RegistrationSource([]int32{0, 2, 4, 5, 6, 99}[c.r.Intn(6)])
	if c.r.Chance(1, 3) && w.RegistrationSource != nil { // the branch where the source of the wrapper IS the channel
		src = w.GetRegistrationSource()
	}
	c.c2swCase(c.proc, w, addr, src, kind, replay, true)
	c.bdreqCase(plain, w, kind, replay)
	c.sender.Take()
}

func (c *c11Reg) msgLines() {
	plain, err := regprocessor.NewVerifProcessor(c.sender, c.m, c.r.Bytes(32), false)
	if err != nil {
		c.out.Note("msgLines: no processor: " + err.Error())
		return
	}
	// corpus: nil, empty, secrets around the bound, every family combination of a well-formed request
	c.c2swCase(c.proc, nil, nil, pb.RegistrationSource_API, "corpus", "procmsg|nil", true)
	c.c2swCase(c.proc, nil, []byte{1, 2, 3, 4}, pb.RegistrationSource_API, "corpus", "procmsg|nil", true)
	c.bdreqCase(plain, nil, "corpus", "procmsg|nil")
	for _, n := range []int{0, 1, 7, 8, 9, 32} {
		w := &pb.C2SWrapper{SharedSecret: c.r.Bytes(n)}
		c.msgOne(plain, vlibc11.Marshal(w), "corpus")
		w.RegistrationResponse = &pb.RegistrationResponse{}
		c.msgOne(plain, vlibc11.Marshal(w), "corpus")
	}
	for _, gen := range c.g.Generations {
		for k := 0; k < 4; k++ {
			w := c.validWrapper(pb.TransportType_Min, &pb.GenericTransportParams{RandomizeDstPort: proto.Bool(k == 3)}, gen, k&1 != 0, k&2 != 0)
			c.msgOne(plain, vlibc11.Marshal(w), "corpus")
		}
	}
	n := vlib.Budget(6000, 75000)
	for i := 0; i < n; i++ {
		b, kind := c.body(i)
		c.msgOne(plain, b, kind)
	}
	// the partial operation of the model (ed25519.Sign on a key of the wrong length) on the real code: a
	// configuration value, not an input - compared with the model, not reported
	for _, kl := range []int{0, 32, 63, 65} {
		odd, _ := regprocessor.NewVerifProcessor(c.sender, c.m, c.r.Bytes(32), false)
		odd.VerifSetPrivkey(c.r.Bytes(kl))
		for _, rr := range []bool{false, true} {
			w := c.validWrapper(pb.TransportType_Min, &pb.GenericTransportParams{}, 1, true, false)
			if rr {
				w.RegistrationResponse = &pb.RegistrationResponse{DstPort: proto.Uint32(443)}
			}
			c.c2swCase(odd, w, []byte{10, 0, 0, 1}, pb.RegistrationSource_API, "oddkey", "procmsg|oddkey", false)
		}
	}
	c.sender.Take()
	c.probeLive("processor-msg", "procmsg|section-end")
}
