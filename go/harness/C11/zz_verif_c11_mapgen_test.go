//go:build verif

package prefix

// Tie 1c for C11: regenerates lean/CJ/Gen/C11MapDeref.lean from the tree under test — every dereference
// THROUGH an element of a map whose values are pointers (`m[k].field`, `*m[k]`, `&m[k].field`), in the
// packages a registration, a first flight or a phantom connection passes through, and the guard that makes
// sure the element exists. A missing key yields a nil pointer and the field access panics; the maps in
// question (per-ASN connection counters, statistics per generation / library version / transport, the
// liveness caches, the registry) are keyed by what remote parties choose or influence, and some of them are
// emptied periodically.
//
// Which maps: the struct fields whose declared type is `map[K]*T` (collected from the scanned files
// themselves). Guards recognised (syntactic, conservative - anything else is unguarded):
//   - ensured:     an earlier statement of an enclosing block is
//                  `if _, ok := M[K]; !ok { …; M[K] = &T{…} / new(T); … }` (or `if v, ok := M[K]; !ok || v == nil`)
//                  with the SAME map M and key K
//   - constructed: an earlier statement of an enclosing block is `M[K] = &T{…}` / `new(T)`
//   - checked:     the site is in the body of `if v, ok := M[K]; ok` / `if M[K] != nil`
// with no statement in between that assigns the map itself, deletes from it, or unlocks (`.Unlock()` /
// `.RUnlock()` as a statement: the element may be gone once the lock is released), and not across a loop
// that does any of these or a function literal. The guard's map is recorded: a guard on another map
// (`v6geoIPMap` ensured, `v4geoIPMap` dereferenced) does not count.

import (
	"fmt"
	"go/ast"
	"go/parser"
	"go/token"
	"os"
	"path/filepath"
	"sort"
	"strings"
	"testing"
)

type c11MapSite struct {
	file  string
	line  int
	fn    string
	mp    string // the map expression
	key   string
	guard string // "" = none
	lock  bool   // a Lock() / RLock() statement of an enclosing block precedes the site (and the guard)
}

func c11PtrMapFields(files []*ast.File) map[string]bool {
	out := map[string]bool{}
	for _, f := range files {
		ast.Inspect(f, func(n ast.Node) bool {
			st, ok := n.(*ast.StructType)
			if !ok {
				return true
			}
			for _, fd := range st.Fields.List {
				mt, ok := fd.Type.(*ast.MapType)
				if !ok {
					continue
				}
				if _, ptr := mt.Value.(*ast.StarExpr); ptr {
					for _, id := range fd.Names {
						out[id.Name] = true
					}
				}
			}
			return true
		})
	}
	return out
}

func c11LastName(e ast.Expr) string {
	switch x := c11Unparen(e).(type) {
	case *ast.Ident:
		return x.Name
	case *ast.SelectorExpr:
		return x.Sel.Name
	}
	return ""
}

// touches: does n change the map's membership or release a lock?
func c11MapTouched(fset *token.FileSet, n ast.Node, mp string) bool {
	found := false
	ast.Inspect(n, func(x ast.Node) bool {
		switch s := x.(type) {
		case *ast.AssignStmt:
			for _, l := range s.Lhs {
				if c11Print(fset, l) == mp {
					found = true
				}
			}
		case *ast.ExprStmt:
			if c, ok := s.X.(*ast.CallExpr); ok {
				if id, ok := c.Fun.(*ast.Ident); ok && id.Name == "delete" && len(c.Args) > 0 && c11Print(fset, c.Args[0]) == mp {
					found = true
				}
				if se, ok := c.Fun.(*ast.SelectorExpr); ok && (se.Sel.Name == "Unlock" || se.Sel.Name == "RUnlock") {
					found = true
				}
			}
		}
		return !found
	})
	return found
}

func c11IsNewPtr(e ast.Expr) bool {
	switch x := c11Unparen(e).(type) {
	case *ast.UnaryExpr:
		_, ok := x.X.(*ast.CompositeLit)
		return x.Op == token.AND && ok
	case *ast.CallExpr:
		id, ok := x.Fun.(*ast.Ident)
		return ok && id.Name == "new"
	}
	return false
}

func c11StoresNew(fset *token.FileSet, st ast.Stmt, elem string) bool {
	as, ok := st.(*ast.AssignStmt)
	return ok && len(as.Lhs) == 1 && len(as.Rhs) == 1 && c11Print(fset, as.Lhs[0]) == elem && c11IsNewPtr(as.Rhs[0])
}

func c11MapScan(fset *token.FileSet, rel string, f *ast.File, ptrMaps map[string]bool) []c11MapSite {
	var sites []c11MapSite
	for _, d := range f.Decls {
		fn, ok := d.(*ast.FuncDecl)
		if !ok || fn.Body == nil {
			continue
		}
		var stack []ast.Node
		ast.Inspect(fn.Body, func(n ast.Node) bool {
			if n == nil {
				stack = stack[:len(stack)-1]
				return true
			}
			stack = append(stack, n)
			var ix *ast.IndexExpr
			switch x := n.(type) {
			case *ast.SelectorExpr:
				ix, _ = c11Unparen(x.X).(*ast.IndexExpr)
			case *ast.StarExpr:
				ix, _ = c11Unparen(x.X).(*ast.IndexExpr)
			}
			if ix == nil || !ptrMaps[c11LastName(ix.X)] {
				return true
			}
			// a method call on the element is a dereference as well unless the method takes a nil receiver; count it
			mp, key, elem, pos := c11Print(fset, ix.X), c11Print(fset, ix.Index), c11Print(fset, ix), n.Pos()
			inside := func(x ast.Node) bool { return x != nil && x.Pos() <= pos && pos < x.End() }
			guard, lock := "", false
		outer:
			for i := len(stack) - 2; i >= 0; i-- {
				var list []ast.Stmt
				switch a := stack[i].(type) {
				case *ast.IfStmt:
					if guard == "" && inside(a.Body) {
						ok := false
						if as, isAs := a.Init.(*ast.AssignStmt); isAs && len(as.Lhs) == 2 && len(as.Rhs) == 1 && c11Print(fset, as.Rhs[0]) == elem {
							if id, isID := as.Lhs[1].(*ast.Ident); isID && c11Print(fset, a.Cond) == id.Name {
								ok = true
							}
						}
						if c := c11Print(fset, a.Cond); c == elem+" != nil" || strings.HasPrefix(c, elem+" != nil &&") {
							ok = true
						}
						if ok {
							clean := true
							for _, st := range a.Body.List {
								if st.End() <= pos && c11MapTouched(fset, st, mp) {
									clean = false
								}
							}
							if clean {
								guard = "checked"
							}
						}
					}
				case *ast.BlockStmt:
					list = a.List
				case *ast.CaseClause:
					list = a.Body
				case *ast.CommClause:
					list = a.Body
				case *ast.ForStmt, *ast.RangeStmt:
					if c11MapTouched(fset, a, mp) {
						break outer
					}
				case *ast.FuncLit:
					break outer
				}
				at := -1
				for j, st := range list {
					if inside(st) {
						at = j
					}
				}
				for j := at - 1; j >= 0; j-- {
					st := list[j]
					if guard == "" && c11StoresNew(fset, st, elem) {
						guard = "constructed"
						continue
					}
					if ifs, ok := st.(*ast.IfStmt); ok && guard == "" && ifs.Else == nil {
						if as, isAs := ifs.Init.(*ast.AssignStmt); isAs && len(as.Lhs) == 2 && len(as.Rhs) == 1 && c11Print(fset, as.Rhs[0]) == elem {
							cond, v := c11Print(fset, ifs.Cond), c11Print(fset, as.Lhs[0])
							if id, isID := as.Lhs[1].(*ast.Ident); isID && (cond == "!"+id.Name || (v != "_" && cond == "!"+id.Name+" || "+v+" == nil")) {
								stores := false
								for _, b := range ifs.Body.List {
									if c11StoresNew(fset, b, elem) {
										stores = true
									}
								}
								if stores {
									guard = "ensured"
									continue
								}
							}
						}
					}
					if es, ok := st.(*ast.ExprStmt); ok {
						if c, ok := es.X.(*ast.CallExpr); ok {
							if se, ok := c.Fun.(*ast.SelectorExpr); ok && (se.Sel.Name == "Lock" || se.Sel.Name == "RLock") {
								lock = true
								break outer // the nearest lock in front of guard and site: nothing further out matters
							}
						}
					}
					if c11MapTouched(fset, st, mp) {
						break outer // whatever lies further out is separated from the site by this statement
					}
				}
			}
			sites = append(sites, c11MapSite{rel, fset.Position(pos).Line, fn.Name.Name, mp, key, guard, lock})
			return true
		})
	}
	return sites
}

const c11MapFixtureSrc = `package fixture

type S struct {
	m  sync.RWMutex
	v4 map[uint]*C
	v6 map[uint]*C
	by map[string]int
}

func ensured(c *S, asn uint) {
	c.m.Lock()
	defer c.m.Unlock()
	if _, ok := c.v4[asn]; !ok {
		c.v4[asn] = &C{}
		c.v4[asn].cc = "x" // want constructed lock
	}
	atomic.AddInt64(&c.v4[asn].n, 1) // want ensured lock
}

func notEnsured(c *S, asn uint) {
	c.m.Lock()
	defer c.m.Unlock()
	atomic.AddInt64(&c.v4[asn].n, -1) // want none lock
}

func ensuredOnTheOtherMap(c *S, asn uint) {
	c.m.Lock()
	defer c.m.Unlock()
	if _, ok := c.v6[asn]; !ok {
		c.v6[asn] = &C{}
	}
	atomic.AddInt64(&c.v4[asn].n, 1) // want none lock
}

func ensuredForAnotherKey(c *S, asn, other uint) {
	c.m.Lock()
	defer c.m.Unlock()
	if _, ok := c.v4[other]; !ok {
		c.v4[other] = &C{}
	}
	c.v4[asn].n++ // want none lock
}

func ensuredThenUnlocked(c *S, asn uint) {
	c.m.Lock()
	if _, ok := c.v4[asn]; !ok {
		c.v4[asn] = &C{}
	}
	c.m.Unlock()
	c.v4[asn].n++ // want none nolock
}

func ensuredThenReplaced(c *S, asn uint) {
	if _, ok := c.v4[asn]; !ok {
		c.v4[asn] = &C{}
	}
	c.v4 = make(map[uint]*C)
	c.v4[asn].n++ // want none nolock
}

func ensuredOrNil(c *S, asn uint) {
	if st, ok := c.v4[asn]; !ok || st == nil {
		c.v4[asn] = &C{}
	}
	c.v4[asn].n++ // want ensured nolock
}

func ensuredAnd(c *S, asn uint) {
	if st, ok := c.v4[asn]; !ok && st == nil {
		c.v4[asn] = &C{}
	}
	c.v4[asn].n++ // want none nolock
}

func ensureDoesNotStore(c *S, asn uint) {
	if _, ok := c.v4[asn]; !ok {
		log()
	}
	c.v4[asn].n++ // want none nolock
}

func checked(c *S, asn uint) int {
	if v, ok := c.v4[asn]; ok {
		_ = v
		return c.v4[asn].n // want checked nolock
	}
	return 0
}

func checkedNil(c *S, asn uint) int {
	if c.v4[asn] != nil {
		return c.v4[asn].n // want checked nolock
	}
	return c.v4[asn].n // want none nolock
}

func notAPointerMap(c *S, k string) int {
	return c.by[k] // no site
}

func inClosure(c *S, asn uint) {
	if _, ok := c.v4[asn]; !ok {
		c.v4[asn] = &C{}
	}
	go func() {
		c.v4[asn].n++ // want none nolock
	}()
}

func star(c *S, asn uint) C {
	return *c.v4[asn] // want none nolock
}
`

func c11MapFixtures() error {
	fset := token.NewFileSet()
	f, err := parser.ParseFile(fset, "fixture.go", c11MapFixtureSrc, parser.ParseComments)
	if err != nil {
		return err
	}
	want := map[int]string{}
	for _, cg := range f.Comments {
		for _, c := range cg.List {
			if i := strings.Index(c.Text, "want "); i >= 0 {
				want[fset.Position(c.Pos()).Line] = strings.TrimSpace(c.Text[i+5:])
			}
		}
	}
	got := map[int]string{}
	for _, s := range c11MapScan(fset, "fixture.go", f, c11PtrMapFields([]*ast.File{f})) {
		g, l := s.guard, "nolock"
		if g == "" {
			g = "none"
		}
		if s.lock {
			l = "lock"
		}
		got[s.line] = g + " " + l
	}
	if len(want) < 15 {
		return fmt.Errorf("map fixture lost its expectations")
	}
	for line, w := range want {
		if got[line] != w {
			return fmt.Errorf("map guard analysis changed: fixture line %d (%s) wants %q, got %q", line,
				strings.TrimSpace(strings.Split(c11MapFixtureSrc, "\n")[line-1]), w, got[line])
		}
	}
	for line, g := range got {
		if _, ok := want[line]; !ok {
			return fmt.Errorf("map guard analysis changed: fixture line %d is reported as a site (%s) but carries no expectation", line, g)
		}
	}
	return nil
}

func TestVerifC11MapGen(t *testing.T) {
	root := os.Getenv("VERIF_SCRATCH_REPO")
	if root == "" {
		root = "../../../.."
	}
	if err := c11MapFixtures(); err != nil {
		t.Fatal(err)
	}
	fset := token.NewFileSet()
	dirs := append(append([]string{}, c11EntryDirs...), c11IndexDirs...)
	dirs = append(dirs, "pkg/station/liveness", "pkg/station/geoip", "pkg/dtls", "pkg/metrics")
	type pf struct {
		rel string
		f   *ast.File
	}
	var files []pf
	var asts []*ast.File
	seen := map[string]bool{}
	for _, dir := range dirs {
		if seen[dir] {
			continue
		}
		seen[dir] = true
		ents, err := os.ReadDir(filepath.Join(root, dir))
		if err != nil {
			t.Fatal(err)
		}
		for _, ent := range ents {
			n := ent.Name()
			if ent.IsDir() || !strings.HasSuffix(n, ".go") || strings.HasSuffix(n, "_test.go") || strings.HasPrefix(n, "zz_verif") || strings.HasSuffix(n, ".pb.go") {
				continue
			}
			rel := filepath.Join(dir, n)
			f, err := parser.ParseFile(fset, filepath.Join(root, rel), nil, 0)
			if err != nil {
				t.Fatal(err)
			}
			files = append(files, pf{rel, f})
			asts = append(asts, f)
		}
	}
	ptrMaps := c11PtrMapFields(asts)
	var sites []c11MapSite
	for _, x := range files {
		sites = append(sites, c11MapScan(fset, x.rel, x.f, ptrMaps)...)
	}
	sort.Slice(sites, func(i, j int) bool {
		if sites[i].file != sites[j].file {
			return sites[i].file < sites[j].file
		}
		if sites[i].line != sites[j].line {
			return sites[i].line < sites[j].line
		}
		return sites[i].mp < sites[j].mp
	})
	var names []string
	for n := range ptrMaps {
		names = append(names, n)
	}
	sort.Strings(names)
	var b strings.Builder
	b.WriteString("/-! GENERATED by go/harness/C11/zz_verif_c11_mapgen_test.go from the tree under test; do not edit. -/\n")
	b.WriteString("namespace CJ.Gen.C11MapDeref\n\n")
	b.WriteString("/-- a dereference through an element of a map of pointers: where, in which function, the map and the key\nexpression, the guard on THAT map and key that makes sure the element exists (`\"\"` = none recognised), and\nwhether a lock is taken in front of guard and site -/\nstructure MapSite where\n  file : String\n  line : Nat\n  fn : String\n  map : String\n  key : String\n  guard : String\n  locked : Bool\nderiving Repr, DecidableEq\n\n")
	fmt.Fprintf(&b, "def scannedFiles : Nat := %d\n\n/-- the struct fields of type `map[K]*T` found in the scanned files -/\ndef pointerMaps : List String := [", len(files))
	for i, n := range names {
		if i > 0 {
			b.WriteString(", ")
		}
		fmt.Fprintf(&b, "%q", n)
	}
	b.WriteString("]\n\ndef mapSites : List MapSite := [\n")
	for i, s := range sites {
		sep := ","
		if i == len(sites)-1 {
			sep = ""
		}
		fmt.Fprintf(&b, "  ⟨%q, %d, %q, %q, %q, %q, %v⟩%s\n", s.file, s.line, s.fn, s.mp, s.key, s.guard, s.lock, sep)
	}
	b.WriteString("]\n\nend CJ.Gen.C11MapDeref\n")
	out := os.Getenv("VERIF_OUT")
	if out == "" {
		out = os.TempDir()
	}
	if err := os.WriteFile(filepath.Join(out, "C11MapDeref.lean"), []byte(b.String()), 0o644); err != nil {
		t.Fatal(err)
	}
}
