//go:build verif

package apiregserver

// C11, the registrar AFTER an input: "no externally supplied bytes can hang a process" is not only about
// the call that carries the bytes. A request that is refused in the ordinary way can leave the component
// in a state in which its other operations never complete - a lock that an early return left held blocks
// the next configuration reload for ever, and behind the waiting writer every later request.
//
// Three observations, none of which depends on timing for its verdict on a healthy component:
//   1. after EVERY call through any entry point (HTTP handlers, DNS processRequest, the processor's four
//      entry points, the callback of the DNS responder's child) every mutex reachable from the processor and
//      the front end must be free again (vlibc11.LocksHeld: TryLock by reflection, so a mutex added later is
//      covered) - exact, and it names the input;
//   2. every 256 calls and at the end of every section the component's OTHER operations are run: the subnet
//      reload (ReloadSubnets, what SIGHUP does), the front end's own reload (NewClientConf), and a well-formed
//      bidirectional registration, which must be answered. They get 15 s; on a healthy component they take
//      milliseconds. Not finishing is C11:<entry>:hang-after-rejected-input, with the goroutines that are stuck;
//   3. histories: every sequence of up to 3 (quick) / 4 (thorough) operations over { six kinds of request
//      that leave processBdReq at a different exit each, reload } on a fresh processor, observed operation by
//      operation (answer class, "would block" = the selector lock is not free when the reload is due) and
//      compared with the Lean model of the registrar as a component with a lock (ingress|reghist).
//
// A processor that was found wedged is replaced by a fresh one (the front ends reach it through procRef), so
// one finding does not turn the rest of the run into watchdog timeouts.

import (
	"fmt"
	"os"
	"strings"
	"time"

	"github.com/refraction-networking/conjure/internal/vlib"
	"github.com/refraction-networking/conjure/internal/vlibc11"
	"github.com/refraction-networking/conjure/pkg/regserver/regprocessor"
	pb "github.com/refraction-networking/conjure/proto"
	"google.golang.org/protobuf/proto"
	"google.golang.org/protobuf/types/known/anypb"
)

// procRef: the processor behind the front ends; always the harness' current one
type procRef struct{ c *c11Reg }

func (p procRef) RegisterUnidirectional(w *pb.C2SWrapper, s pb.RegistrationSource, a []byte) error {
	return p.c.proc.RegisterUnidirectional(w, s, a)
}
func (p procRef) RegisterBidirectional(w *pb.C2SWrapper, s pb.RegistrationSource, a []byte) (*pb.RegistrationResponse, error) {
	return p.c.proc.RegisterBidirectional(w, s, a)
}

type c11Health struct {
	calls    int
	reported map[string]int
	wedged   int
}

func (c *c11Reg) renewProc() {
	p, err := regprocessor.NewVerifProcessor(c.sender, c.m, []byte(strings.Repeat("\x07", 32)), true)
	if err == nil {
		c.proc = p
	}
}

// after: to be called when a call through entry has returned. comps: front-end objects whose locks count too.
// patience: 0 for direct calls; a little for calls that went through a server goroutine.
func (c *c11Reg) after(entry, replay string, patience time.Duration, comps ...any) {
	if c.health == nil {
		c.health = &c11Health{reported: map[string]int{}}
	}
	h := c.health
	h.calls++
	var held []string
	for _, x := range append([]any{c.proc}, comps...) {
		held = append(held, vlibc11.LocksHeld(x, patience)...)
	}
	c.out.Checked()
	if len(held) > 0 {
		h.reported[entry]++
		c.out.Count("health:" + entry + ":lock-held")
		if h.reported[entry] <= 25 {
			c.out.OracleFail("C11:"+entry+":lock-held-after-return",
				fmt.Sprintf("%s returned, nothing else is running in the registrar, and %s cannot be acquired: a return path left it held; the next reload will block for ever and every request behind it", entry, strings.Join(held, ", ")), replay)
		}
		// the consequence, once per entry point: the other operations of the component
		if h.reported[entry] == 1 {
			c.probeLive(entry, replay)
		}
		c.renewProc()
		return
	}
	if h.calls%256 == 0 {
		c.probeLive(entry, replay)
	}
}

// probeLive: the component's other operations must still complete after what it has been sent
func (c *c11Reg) probeLive(entry, replay string) {
	if c.health == nil {
		c.health = &c11Health{reported: map[string]int{}}
	}
	if c.health.wedged >= 3 {
		return // said three times; every further probe would wait out the watchdog
	}
	proc := c.proc
	api := c.newAPI(1, false)
	step := make(chan string, 8)
	done := make(chan error, 1)
	go func() {
		step <- "ReloadSubnets"
		if err := proc.ReloadSubnets(); err != nil {
			done <- fmt.Errorf("ReloadSubnets: %v", err)
			return
		}
		step <- "NewClientConf"
		api.NewClientConf(&pb.ClientConf{Generation: proto.Uint32(7)})
		step <- "a well-formed bidirectional registration"
		w := c.probeWrapper()
		if _, err := proc.RegisterBidirectional(w, pb.RegistrationSource_BidirectionalAPI, []byte{10, 0, 0, 1}); err != nil {
			done <- fmt.Errorf("a well-formed bidirectional registration is refused: %v", err)
			return
		}
		step <- "ReloadSubnets again"
		done <- proc.ReloadSubnets()
	}()
	c.out.Checked()
	c.out.Count("health:probe")
	select {
	case err := <-done:
		c.sender.Take()
		if err != nil {
			c.out.Count("health:probe-error")
			c.out.Note("health probe after " + entry + ": " + err.Error())
		}
	case <-time.After(15 * time.Second):
		last := "nothing"
		for len(step) > 0 {
			last = <-step
		}
		c.health.wedged++
		c.out.Count("health:" + entry + ":wedged")
		c.out.OracleFail("C11:"+entry+":hang-after-rejected-input",
			fmt.Sprintf("after the inputs sent through %s (each of which was answered), %s did not complete within 15 s: the registrar no longer reloads its configuration and no longer answers; stuck: %s", entry, last, vlibc11.Stacks(4)), replay)
		c.renewProc()
	}
}

// probeWrapper: a registration every healthy processor answers
func (c *c11Reg) probeWrapper() *pb.C2SWrapper {
	return c.validWrapper(pb.TransportType_Min, &pb.GenericTransportParams{RandomizeDstPort: proto.Bool(true)}, 1, true, true)
}

// ---------------------------------------------------------------------------------------------
// histories against the model of the registrar as a component

// the request kinds: each leaves processBdReq at another exit
var c11HistKinds = []string{"nopayload", "sel4err", "sel6err", "unknowntransport", "badparams", "ok"}

func (c *c11Reg) histWrapper(kind string) *pb.C2SWrapper {
	unknownGen := uint32(4000000000)
	switch kind {
	case "nopayload":
		return &pb.C2SWrapper{SharedSecret: c.r.Bytes(32)}
	case "sel4err": // a generation nobody configured, IPv4 asked for: the first selection fails
		return c.validWrapper(pb.TransportType_Min, &pb.GenericTransportParams{}, unknownGen, true, c.r.Bool())
	case "sel6err": // only IPv6 asked for: the second selection is the one that fails
		return c.validWrapper(pb.TransportType_Min, &pb.GenericTransportParams{}, unknownGen, false, true)
	case "unknowntransport":
		return c.validWrapper(pb.TransportType(99), nil, 1, true, true)
	case "badparams":
		w := c.validWrapper(pb.TransportType_Prefix, nil, 1, true, false)
		w.RegistrationPayload.TransportParams = &anypb.Any{Value: []byte{0xff, 0xff, 0xff}}
		return w
	}
	return c.probeWrapper()
}

func (c *c11Reg) histories() {
	alphabet := append(append([]string{}, c11HistKinds...), "reload")
	// an enumeration DEPTH, not a case count: never through vlib.Budget (the targeted search multiplies
	// budgets by 4, and 7^12 histories do not end); the search gets the thorough depth
	maxLen := 3
	if vlib.Tier() == "thorough" || os.Getenv("VERIF_SEARCH") == "1" {
		maxLen = 4
	}
	var seqs [][]string
	var gen func(prefix []string)
	gen = func(prefix []string) {
		if len(prefix) > 0 {
			seqs = append(seqs, append([]string{}, prefix...))
		}
		if len(prefix) == maxLen {
			return
		}
		for _, a := range alphabet {
			gen(append(prefix, a))
		}
	}
	gen(nil)
	selectorFree := func(p *regprocessor.RegProcessor) bool {
		for _, h := range vlibc11.LocksHeld(p, 0) {
			if strings.HasSuffix(h, ".selectorMutex") {
				return false
			}
		}
		return true
	}
	for _, seq := range seqs {
		p, err := regprocessor.NewVerifProcessor(c.sender, c.m, []byte(strings.Repeat("\x07", 32)), false)
		if err != nil {
			c.out.OracleFail("C11:harness", "cannot make a processor: "+err.Error(), "reghist")
			return
		}
		var obs []string
		blocked := false // a writer waits for ever: every later operation that needs the lock waits behind it
		for _, op := range seq {
			switch {
			case blocked && op != "nopayload":
				obs = append(obs, "blocked")
			case op == "reload":
				if !selectorFree(p) {
					blocked = true // Lock() would never return; calling it would only cost a goroutine
					obs = append(obs, "blocked")
				} else if err := p.ReloadSubnets(); err != nil {
					obs = append(obs, "reload-error")
				} else {
					obs = append(obs, "reloaded")
				}
			default:
				w := c.histWrapper(op)
				var ans string
				res := vlibc11.Guard(func() {
					resp, err := p.VerifProcessBdReq(w)
					switch {
					case err == regprocessor.ErrNoC2SBody:
						ans = "nobody"
					case err != nil:
						ans = "error"
					case resp != nil:
						ans = "response"
					default:
						ans = "nil"
					}
				})
				if res.Bad() {
					ans = "panic-or-hang"
					c.fail("process-bd-req", res, "reghist|"+strings.Join(seq, ","))
				}
				obs = append(obs, ans)
			}
		}
		readers := 0
		if !selectorFree(p) {
			readers = 1
		}
		line := "ingress|reghist|" + strings.Join(seq, ",")
		ans := strings.Join(obs, ",") + fmt.Sprintf(" held=%d", readers)
		c.out.Case(line, ans, !strings.Contains(ans, "blocked"))
		c.out.Checked()
		c.out.Count("health:history")
		if strings.Contains(ans, "blocked") || readers != 0 {
			c.out.OracleFail("C11:process-bd-req:hang-after-rejected-input",
				fmt.Sprintf("history %s on a fresh processor: %s - a request that was answered left the selector lock held; the reload (and what comes after it) can never complete", strings.Join(seq, ","), ans), line)
		}
		c.sender.Take()
	}
	c.out.Note(fmt.Sprintf("registrar histories: %d sequences of up to %d operations over %v", len(seqs), maxLen, alphabet))
}
