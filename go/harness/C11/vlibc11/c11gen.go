// Package vlibc11 holds what the two C11 harnesses (station side, registrar side) share: the
// generator of structured, mostly-valid protobuf messages with arbitrary field values, the byte
// mutator, and the guard that turns a panic or a hang of the code under test into a finding.
// It exists only in the scratch copy of the repository.
package vlibc11

import (
	"context"
	"errors"
	"fmt"
	"io"
	"net"
	"regexp"
	"runtime"
	"strings"
	"sync/atomic"
	"time"

	"github.com/refraction-networking/conjure/internal/vlib"
	"github.com/refraction-networking/conjure/pkg/registrars/dns-registrar/dns"
	pb "github.com/refraction-networking/conjure/proto"
	"google.golang.org/protobuf/proto"
	"google.golang.org/protobuf/types/known/anypb"
)

// ---------------------------------------------------------------------------------------------
// guard

type Result struct {
	Panic string // panic value, "" if none
	Frame string // innermost function of the repository on the panicking stack
	Hang  bool
}

func (r Result) Bad() bool { return r.Panic != "" || r.Hang }

var hexAddr = regexp.MustCompile(`0x[0-9a-f]+|\[[0-9:]+\]|\d+`)

// Class reduces a panic value to a stable class.
func Class(p string) string {
	switch {
	case strings.Contains(p, "nil pointer dereference"):
		return "nil-deref"
	case strings.Contains(p, "index out of range"):
		return "index-out-of-range"
	case strings.Contains(p, "slice bounds out of range"):
		return "slice-out-of-range"
	case strings.Contains(p, "nil map"):
		return "nil-map"
	case strings.Contains(p, "argument to Int"):
		return "rand-int-nonpositive"
	case strings.Contains(p, "interface conversion"):
		return "interface-conversion"
	}
	s := hexAddr.ReplaceAllString(p, "N")
	s = regexp.MustCompile(`[^A-Za-z]+`).ReplaceAllString(s, "-")
	if len(s) > 40 {
		s = s[:40]
	}
	return "other-" + strings.Trim(s, "-")
}

// Sig is the signature of a finding: entry point, class, and the function that panicked.
func (r Result) Sig(entry string) string {
	if r.Hang {
		return "C11:" + entry + ":hang"
	}
	return "C11:" + entry + ":" + Class(r.Panic) + "@" + r.Frame
}

func (r Result) What() string {
	if r.Hang {
		return "no answer within 2 s and, run again, within 15 s"
	}
	return "panic: " + r.Panic + " in " + r.Frame
}

func topFrame() string {
	pcs := make([]uintptr, 64)
	n := runtime.Callers(3, pcs)
	frames := runtime.CallersFrames(pcs[:n])
	first := ""
	for {
		f, more := frames.Next()
		fn := f.Function
		if first == "" && !strings.HasPrefix(fn, "runtime.") {
			first = fn
		}
		if strings.Contains(fn, "refraction-networking/conjure/") && !strings.Contains(f.File, "zz_verif") &&
			!strings.Contains(fn, "/internal/vlib") {
			i := strings.Index(fn, "refraction-networking/conjure/")
			return fn[i+len("refraction-networking/conjure/"):]
		}
		if !more {
			break
		}
	}
	return first
}

// Guard runs f with recover and a watchdog. A call that has not returned after 2 s may be a hang or
// a scheduling stall on a loaded machine: it is given 15 s in all to finish (so that two runs never
// overlap), and then f is run a second time with a limit of 15 s. Only if the second run does not
// return either is it a hang (the goroutine leaks; the harness reports it and goes on). Slow is counted
// in Slow so that a harness can show it in its histogram.
var Slow int64

func run(f func(), limit time.Duration) (Result, <-chan Result) {
	done := make(chan Result, 1)
	go func() {
		defer func() {
			if p := recover(); p != nil {
				done <- Result{Panic: fmt.Sprint(p), Frame: topFrame()}
			}
		}()
		f()
		done <- Result{}
	}()
	select {
	case r := <-done:
		return r, nil
	case <-time.After(limit):
		return Result{Hang: true}, done
	}
}

func Guard(f func()) Result {
	r, pending := run(f, 2*time.Second)
	if !r.Hang {
		return r
	}
	atomic.AddInt64(&Slow, 1)
	select {
	case r = <-pending:
		if r.Panic != "" {
			return r
		}
	case <-time.After(13 * time.Second):
	}
	r, _ = run(f, 15*time.Second)
	return r
}

// NoNetworkResolver replaces net.DefaultResolver by one that never reaches the network: every dial of a
// name server fails at once. seen (may be nil) is told how long the attempt was allowed to take
// (milliseconds until the deadline of the dial's context, -1 = no deadline).
func NoNetworkResolver(seen func(remainingMs int64)) {
	net.DefaultResolver = &net.Resolver{PreferGo: true, Dial: func(ctx context.Context, network, address string) (net.Conn, error) {
		if seen != nil {
			rem := int64(-1)
			if d, ok := ctx.Deadline(); ok {
				rem = int64(time.Until(d) / time.Millisecond)
			}
			seen(rem)
		}
		return nil, errors.New("the harness has no network")
	}}
}

// ---------------------------------------------------------------------------------------------
// structured generator

type Gen struct {
	R           *vlib.Rand
	Generations []uint32 // generations the subnet configuration knows
}

func (g *Gen) pick(n int) int { return g.R.Intn(n) }

func (g *Gen) Bytes(lens ...int) []byte {
	n := lens[g.pick(len(lens))]
	if n < 0 {
		return nil
	}
	return g.R.Bytes(n)
}

func (g *Gen) optU32(vals ...uint32) *uint32 {
	i := g.pick(len(vals) + 1)
	if i == len(vals) {
		return nil
	}
	v := vals[i]
	return &v
}

func (g *Gen) optBool() *bool {
	switch g.pick(4) {
	case 0:
		return nil
	case 1:
		return proto.Bool(false)
	}
	return proto.Bool(true)
}

var anyMessages = []func(g *Gen) proto.Message{
	func(g *Gen) proto.Message { return &pb.GenericTransportParams{RandomizeDstPort: g.optBool()} },
	func(g *Gen) proto.Message {
		var id *int32
		if !g.R.Chance(1, 6) {
			v := []int32{-2147483648, -2, -1, 0, 1, 2, 3, 4, 5, 6, 7, 8, 9, 10, 11, 1000, 2147483647}[g.pick(17)]
			id = &v
		}
		var fp *int32
		if g.R.Chance(1, 2) {
			v := []int32{-1, 0, 1, 2, 3, 99, -2147483648}[g.pick(7)]
			fp = &v
		}
		return &pb.PrefixTransportParams{PrefixId: id, Prefix: g.Bytes(-1, 0, 5, 16, 300), CustomFlushPolicy: fp, RandomizeDstPort: g.optBool()}
	},
	func(g *Gen) proto.Message {
		p := &pb.DTLSTransportParams{RandomizeDstPort: g.optBool(), Unordered: g.optBool()}
		if g.R.Bool() {
			p.SrcAddr4 = &pb.Addr{IP: g.Bytes(-1, 0, 3, 4, 5, 16), Port: g.optU32(0, 1, 443, 65535, 65536, 4294967295)}
		}
		if g.R.Bool() {
			p.SrcAddr6 = &pb.Addr{IP: g.Bytes(-1, 0, 4, 15, 16, 17), Port: g.optU32(0, 443, 70000)}
		}
		return p
	},
	func(g *Gen) proto.Message { return &pb.ClientToStation{Padding: g.Bytes(0, 2, 40)} },
	func(g *Gen) proto.Message { return &pb.RegistrationFlags{Prescanned: g.optBool()} },
}

// Any: right type, wrong type, no URL, old URL, garbage URL, garbage value, absent.
func (g *Gen) Any(preferred int) *anypb.Any {
	if g.R.Chance(1, 8) {
		return nil
	}
	idx := preferred
	if idx < 0 || g.R.Chance(1, 4) {
		idx = g.pick(len(anyMessages))
	}
	a, err := anypb.New(anyMessages[idx](g))
	if err != nil {
		return &anypb.Any{}
	}
	switch g.pick(10) {
	case 0, 1, 2:
		a.TypeUrl = ""
	case 3:
		a.TypeUrl = strings.ReplaceAll(a.TypeUrl, "proto.", "tapdance.")
	case 4:
		a.TypeUrl = []string{"x", "type.googleapis.com/", "type.googleapis.com/proto.Nope", "tapdance.", string(g.R.Bytes(9))}[g.pick(5)]
	}
	switch g.pick(8) {
	case 0:
		a.Value = g.R.Bytes(g.R.Intn(24))
	case 1:
		a.Value = nil
	case 2:
		a.Value = g.Mutate(a.Value)
	}
	return a
}

var Coverts = []string{"", ":80", "1.2.3.4:1234", "1.2.3.4", "[::1]:443", "[]:80", "127.0.0.1:0", "10.0.0.1:65536", "host:99999",
	"1.2.3.4:http", "::ffff:1.2.3.4", "[::ffff:1.2.3.4]:80", "1.2.3.4:80:80", "\x00:x", "[fe80::1%eth0]:80", "256.1.1.1:x", ":",
	// host names: the harnesses replace net.DefaultResolver, nothing leaves the process
	"slow.example:443", "a.b.c.d.e.f.example:1", "localhost:80", "256.1.1.1:80", "xn--:80", ".:80", "..:80", "-:80", "1.2.3:80", "0x7f.1:80"}

func (g *Gen) C2S(transportBias int) *pb.ClientToStation {
	c := &pb.ClientToStation{
		ProtocolVersion:           g.optU32(0, 1, 4294967295),
		DecoyListGeneration:       g.optU32(append([]uint32{0, 3, 4294967295}, g.Generations...)...),
		ClientLibVersion:          g.optU32(0, 1, 2, 3, 4, 5, 4294967295),
		DisableRegistrarOverrides: g.optBool(),
		V4Support:                 g.optBool(),
		V6Support:                 g.optBool(),
	}
	if g.R.Chance(4, 5) && len(g.Generations) > 0 { // mostly a generation that exists
		c.DecoyListGeneration = proto.Uint32(g.Generations[g.pick(len(g.Generations))])
	}
	if !g.R.Chance(1, 8) {
		ts := []pb.TransportType{pb.TransportType_Null, pb.TransportType_Min, pb.TransportType_Obfs4, pb.TransportType_DTLS,
			pb.TransportType_Prefix, pb.TransportType_uTLS, pb.TransportType_Format, pb.TransportType_WASM, pb.TransportType(99), pb.TransportType(-1)}
		t := ts[g.pick(len(ts))]
		if transportBias >= 0 && g.R.Chance(2, 3) {
			t = []pb.TransportType{pb.TransportType_Min, pb.TransportType_Prefix, pb.TransportType_DTLS, pb.TransportType_Obfs4}[transportBias%4]
		}
		c.Transport = &t
	}
	pref := -1
	switch c.GetTransport() {
	case pb.TransportType_Min, pb.TransportType_Obfs4:
		pref = 0
	case pb.TransportType_Prefix:
		pref = 1
	case pb.TransportType_DTLS:
		pref = 2
	}
	c.TransportParams = g.Any(pref)
	if !g.R.Chance(1, 4) {
		s := Coverts[g.pick(len(Coverts))]
		c.CovertAddress = &s
	}
	if g.R.Chance(1, 3) {
		s := []string{"", "example.com", string(g.R.Bytes(5))}[g.pick(3)]
		c.MaskedDecoyServerName = &s
	}
	if g.R.Chance(1, 2) {
		c.Flags = &pb.RegistrationFlags{UploadOnly: g.optBool(), DarkDecoy: g.optBool(), ProxyHeader: g.optBool(), Use_TIL: g.optBool(), Prescanned: g.optBool()}
	}
	if g.R.Chance(1, 6) {
		tr := pb.C2S_Transition([]int32{0, 1, 2, 11, 255, -1}[g.pick(6)])
		c.StateTransition = &tr
	}
	if g.R.Chance(1, 8) {
		c.FailedDecoys = []string{"a", ""}
		c.Stats = &pb.SessionStats{FailedDecoysAmount: g.optU32(0, 7)}
	}
	if g.R.Chance(1, 10) { // sub-message with required fields left out
		c.WebrtcSignal = &pb.WebRTCSignal{}
	}
	if g.R.Chance(1, 5) {
		c.Padding = g.R.Bytes(g.R.Intn(64))
	}
	return c
}

func (g *Gen) RegResponse() *pb.RegistrationResponse {
	r := &pb.RegistrationResponse{
		Ipv4Addr:               g.optU32(0, 1, 0x0a000001, 0xc07abe07, 4294967295),
		Ipv6Addr:               g.Bytes(-1, -1, 0, 4, 15, 16, 16, 17),
		DstPort:                g.optU32(0, 22, 443, 65535, 65536, 70000, 4294967295),
		ServerRandom:           g.Bytes(-1, 0, 32),
		PhantomsSupportPortRand: g.optBool(),
	}
	if g.R.Chance(1, 2) {
		r.TransportParams = g.Any(-1)
	}
	if g.R.Chance(1, 5) {
		s := "err"
		r.Error = &s
	}
	if g.R.Chance(1, 4) {
		r.ClientConf = &pb.ClientConf{Generation: g.optU32(0, 5, 4294967295)}
		if g.R.Bool() {
			r.ClientConf.DecoyList = &pb.DecoyList{TlsDecoys: []*pb.TLSDecoySpec{{}, nil}[:1+g.pick(1)]}
		}
		if g.R.Chance(1, 3) { // required fields of DnsRegConf left out
			r.ClientConf.DnsRegConf = &pb.DnsRegConf{}
		}
	}
	return r
}

// Wrapper: a C2SWrapper with arbitrary field values (absent sub-messages, wrong-length addresses and
// secrets, out-of-range enums, mismatched parameter types).
func (g *Gen) Wrapper(transportBias int) *pb.C2SWrapper {
	w := &pb.C2SWrapper{
		SharedSecret:        g.Bytes(-1, 0, 1, 7, 8, 15, 16, 31, 32, 32, 32, 32, 33, 64),
		RegistrationAddress: g.Bytes(-1, -1, 0, 3, 4, 4, 5, 15, 16, 16, 17, 40),
		DecoyAddress:        g.Bytes(-1, -1, 0, 4, 16, 17),
		RegRespBytes:        g.Bytes(-1, -1, -1, 0, 10),
		RegRespSignature:    g.Bytes(-1, -1, -1, 0, 64),
	}
	if g.R.Chance(1, 6) && w.RegistrationAddress != nil && len(w.RegistrationAddress) == 16 { // v4-mapped
		copy(w.RegistrationAddress, []byte{0, 0, 0, 0, 0, 0, 0, 0, 0, 0, 0xff, 0xff})
	}
	if !g.R.Chance(1, 6) {
		w.RegistrationPayload = g.C2S(transportBias)
	}
	if g.R.Chance(2, 3) {
		s := pb.RegistrationSource([]int32{0, 1, 2, 3, 4, 5, 6, 7, 99, -1}[g.pick(10)])
		w.RegistrationSource = &s
	}
	if g.R.Chance(1, 3) {
		w.RegistrationResponse = g.RegResponse()
	}
	return w
}

// Marshal keeps going when required fields of a sub-message are missing (the wire does not care).
func Marshal(m proto.Message) []byte {
	b, err := proto.MarshalOptions{AllowPartial: true}.Marshal(m)
	if err != nil {
		return nil
	}
	return b
}

// Mutate: bit flips, truncation, insertion, duplication of a tail (protobuf merges repeated
// occurrences of a sub-message), length bytes pushed up or down.
func (g *Gen) Mutate(in []byte) []byte {
	b := append([]byte(nil), in...)
	for k := g.R.Intn(3); k >= 0; k-- {
		switch g.pick(7) {
		case 0:
			if len(b) > 0 {
				b[g.pick(len(b))] ^= 1 << uint(g.pick(8))
			}
		case 1:
			if len(b) > 0 {
				b[g.pick(len(b))] = byte(g.R.U64())
			}
		case 2:
			if len(b) > 0 {
				b = b[:g.pick(len(b))]
			}
		case 3:
			i := g.pick(len(b) + 1)
			b = append(b[:i:i], append(g.R.Bytes(1+g.pick(4)), b[i:]...)...)
		case 4:
			if len(b) > 1 {
				i := g.pick(len(b))
				b = append(b, b[i:]...)
			}
		case 5:
			if len(b) > 0 {
				i := g.pick(len(b))
				b[i] = []byte{0, 1, 0x7f, 0x80, 0xff, b[i] + 1, b[i] - 1}[g.pick(7)]
			}
		default:
			if len(b) > 2 {
				i, j := g.pick(len(b)), g.pick(len(b))
				b[i], b[j] = b[j], b[i]
			}
		}
	}
	return b
}

// ---------------------------------------------------------------------------------------------
// the byte-level parsers of the DNS channel: canonical forms shared with CJ/Drv/Codec.lean

// ExactCap copies b into a slice whose capacity equals its length: a parser that slices beyond the data
// then panics instead of silently reading what happens to lie behind it.
func ExactCap(b []byte) []byte {
	c := make([]byte, len(b))
	copy(c, b)
	return c
}

func CodecErr(err error) string {
	switch {
	case err == nil:
		return ""
	case errors.Is(err, io.EOF), errors.Is(err, io.ErrUnexpectedEOF):
		return "eof"
	case errors.Is(err, dns.ErrZeroLengthLabel):
		return "zeroLabel"
	case errors.Is(err, dns.ErrLabelTooLong):
		return "labelTooLong"
	case errors.Is(err, dns.ErrNameTooLong):
		return "nameTooLong"
	case errors.Is(err, dns.ErrReservedLabelType):
		return "reservedLabel"
	case errors.Is(err, dns.ErrTooManyPointers):
		return "tooManyPointers"
	case errors.Is(err, dns.ErrTrailingBytes):
		return "trailing"
	case errors.Is(err, dns.ErrIntegerOverflow):
		return "overflow"
	case strings.Contains(err.Error(), "invalid message length"):
		return "invalidLength"
	case strings.Contains(err.Error(), "too long for length prefix"):
		return "tooLong"
	}
	return "other:" + err.Error()
}

func OkOrErr(b []byte, err error) string {
	if err != nil {
		return "err " + CodecErr(err)
	}
	return "ok " + vlib.Hex(b)
}

func ShowName(n dns.Name) string {
	if len(n) == 0 {
		return "@"
	}
	l := make([]string, len(n))
	for i, lab := range n {
		l[i] = vlib.Hex(lab)
	}
	return strings.Join(l, ".")
}

func ShowMsg(m *dns.Message) string {
	rr := func(r dns.RR) string {
		return fmt.Sprintf("%s/%d/%d/%d/%s", ShowName(r.Name), r.Type, r.Class, r.TTL, vlib.Hex(r.Data))
	}
	sec := func(rrs []dns.RR) string {
		l := make([]string, len(rrs))
		for i := range rrs {
			l[i] = rr(rrs[i])
		}
		return strings.Join(l, ";")
	}
	q := make([]string, len(m.Question))
	for i := range m.Question {
		q[i] = fmt.Sprintf("%s/%d/%d", ShowName(m.Question[i].Name), m.Question[i].Type, m.Question[i].Class)
	}
	return fmt.Sprintf("%d,%d|%s|%s|%s|%s", m.ID, m.Flags, strings.Join(q, ";"), sec(m.Answer), sec(m.Authority), sec(m.Additional))
}

// NameBytes builds a buffer that looks like DNS name data: labels, pointers (forward, backward, to
// themselves, in cycles, in long chains), reserved label types, truncations.
func (g *Gen) NameBytes() []byte {
	var b []byte
	for k := g.R.Intn(12) + 1; k > 0; k-- {
		switch g.R.Intn(7) {
		case 0, 1:
			n := g.R.Range(1, 6)
			b = append(b, byte(n))
			b = append(b, g.R.Bytes(n)...)
		case 2:
			b = append(b, 0)
		case 3: // pointer to somewhere near
			off := g.R.Intn(len(b) + 4)
			b = append(b, 0xc0|byte(off>>8), byte(off))
		case 4: // pointer to itself or just before
			off := len(b) - g.R.Intn(3)
			if off < 0 {
				off = 0
			}
			b = append(b, 0xc0, byte(off))
		case 5:
			b = append(b, byte(g.R.U64()))
		default:
			b = append(b, 0x40|byte(g.R.Intn(64)), byte(g.R.U64()))
		}
	}
	if g.R.Chance(1, 4) && len(b) > 0 {
		b = b[:g.R.Intn(len(b))+1]
	}
	if g.R.Chance(1, 10) { // a chain of pointers each pointing to the next
		b = nil
		n := g.R.Range(8, 14)
		for i := 0; i < n; i++ {
			b = append(b, 0xc0, byte(2*(i+1)))
		}
		b = append(b, 1, 'x', 0)
	}
	return b
}
