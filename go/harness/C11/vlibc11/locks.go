package vlibc11

// Health of a component after a call has returned: every mutex it owns must be free again. A lock that
// an early return left held does not show in the call that leaked it (that call answers normally); it shows
// when the next writer - a configuration reload - blocks for ever and, behind it, every later request.
// LocksHeld finds it at once and without timing: when nothing else is running inside the component, a
// mutex that cannot be acquired with TryLock was leaked by a call that has already returned.

import (
	"reflect"
	"runtime"
	"strings"
	"sync"
	"time"
	"unsafe"
)

var (
	tMutex   = reflect.TypeOf(sync.Mutex{})
	tRWMutex = reflect.TypeOf(sync.RWMutex{})
)

// LocksHeld returns the paths of the sync.Mutex / sync.RWMutex fields reachable from *root (through struct,
// pointer and interface fields whose types are declared in this repository; depth <= 3) that are still held.
// patience: how long a lock may stay busy before it counts (0 when the caller knows nothing else runs;
// a little when a goroutine of the component may legitimately be finishing, e.g. an HTTP handler after
// its response was written).
func LocksHeld(root any, patience time.Duration) []string {
	var held []string
	seen := map[uintptr]bool{}
	var walk func(v reflect.Value, path string, depth int)
	walk = func(v reflect.Value, path string, depth int) {
		for v.Kind() == reflect.Ptr || v.Kind() == reflect.Interface {
			if v.IsNil() {
				return
			}
			if v.Kind() == reflect.Ptr {
				if seen[v.Pointer()] {
					return
				}
				seen[v.Pointer()] = true
			}
			v = v.Elem()
		}
		if v.Kind() != reflect.Struct || !v.CanAddr() {
			return
		}
		t := v.Type()
		try := func(tryLock func() bool, unlock func()) bool {
			deadline := time.Now().Add(patience)
			for {
				if tryLock() {
					unlock()
					return true
				}
				if !time.Now().Before(deadline) {
					return false
				}
				time.Sleep(200 * time.Microsecond)
			}
		}
		switch t {
		case tMutex:
			m := (*sync.Mutex)(unsafe.Pointer(v.UnsafeAddr()))
			if !try(m.TryLock, m.Unlock) {
				held = append(held, path)
			}
			return
		case tRWMutex:
			m := (*sync.RWMutex)(unsafe.Pointer(v.UnsafeAddr()))
			if !try(m.TryLock, m.Unlock) {
				held = append(held, path)
			}
			return
		}
		if depth >= 3 || !strings.Contains(t.PkgPath(), "refraction-networking/conjure") {
			return
		}
		for i := 0; i < t.NumField(); i++ {
			f := v.Field(i)
			// unexported fields: same memory, addressable view
			f = reflect.NewAt(f.Type(), unsafe.Pointer(f.UnsafeAddr())).Elem()
			walk(f, path+"."+t.Field(i).Name, depth+1)
		}
	}
	v := reflect.ValueOf(root)
	name := "?"
	if v.Kind() == reflect.Ptr && !v.IsNil() {
		name = v.Elem().Type().Name()
	}
	walk(v, name, 0)
	return held
}

// Stacks: the goroutines that are inside the repository's code (not the harness'), one line each
func Stacks(max int) string {
	buf := make([]byte, 1<<20)
	buf = buf[:runtime.Stack(buf, true)]
	var out []string
	for _, g := range strings.Split(string(buf), "\n\n") {
		if !strings.Contains(g, "refraction-networking/conjure/pkg/") && !strings.Contains(g, "refraction-networking/conjure/cmd/") {
			continue
		}
		var frames []string
		for _, l := range strings.Split(g, "\n") {
			l = strings.TrimSpace(l)
			if strings.HasPrefix(l, "goroutine ") || (strings.Contains(l, "(") && !strings.HasPrefix(l, "/") && !strings.Contains(l, "zz_verif")) {
				if i := strings.LastIndex(l, "/"); i >= 0 && !strings.HasPrefix(l, "goroutine ") {
					l = l[i+1:]
				}
				if i := strings.Index(l, "("); i > 0 && !strings.HasPrefix(l, "goroutine ") {
					l = l[:i]
				}
				frames = append(frames, l)
			}
			if len(frames) >= 7 {
				break
			}
		}
		out = append(out, strings.Join(frames, " < "))
		if len(out) >= max {
			break
		}
	}
	return strings.Join(out, " || ")
}
