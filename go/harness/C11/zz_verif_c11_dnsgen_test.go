//go:build verif

package apiregserver

// C11, the DNS responder: a structure-aware generator of query datagrams, written against RFC 1035 /
// RFC 6891 and not against the repository's writer (so that it can say things the writer cannot:
// counts that lie, records cut at any boundary, names that end in pointers, OPT records of any shape in
// any section).
//
// Dimensions (every one explored at random; the small product of the first six also exhaustively, see
// enumQueries):
//   header:      QR, OPCODE, AA/TC/RD/RA/Z bits, RCODE bits, the four counts (truthful or lying)
//   questions:   0, 1, 2, 3+; per question a name shape, a type (TXT, A, NS, OPT, ANY, random) and a class
//   name shapes: base32 labels of a payload under the domain (payload = complete sealed registration,
//                framed garbage, a frame whose length lies, noise, nothing), the domain alone, another
//                domain, the root, upper / mixed case, text that is not base32, 63-byte labels, a name at
//                the 255-octet limit, a label of 64 bytes, a name that ends in a pointer (to the domain
//                written earlier, forward, to itself), a name without its terminator
//   answer / authority records: none, or 1-2 records (an OPT among them: the responder must only look at
//                the additional section)
//   additional:  0-3 records, each an OPT (version 0 or not, payload size 0 / 511 / 512 / 1231 / 1232 /
//                1233 / 4096 / 65535 / random, extended RCODE and flag bits, owner name root or not,
//                RDATA empty / options / random, RDLENGTH truthful or lying) or an ordinary record
//   cut:         complete, cut at every section and record boundary, one byte either side of one, at a
//                random point, or followed by trailing bytes
//
// Every datagram goes through the real RecvAndRespond in the child process (a panic in its handler
// goroutine kills the child: that is the verdict), and what the responder wrote back for it - or that it
// wrote nothing - is compared with the Lean model of the handler (`codec|dgram|…`).

import (
	"bytes"
	"encoding/binary"
	"fmt"
	"strings"

	"github.com/refraction-networking/conjure/internal/vlib"
	"github.com/refraction-networking/conjure/internal/vlibc11"
	"github.com/refraction-networking/conjure/pkg/registrars/dns-registrar/dns"
	"github.com/refraction-networking/conjure/pkg/registrars/dns-registrar/responder"
)

type c11RR struct {
	name  []byte // wire bytes of the owner name
	typ   uint16
	class uint16
	ttl   uint32
	data  []byte
	rdlen int // -1: len(data)
}

type c11Q struct {
	name  []byte
	typ   uint16
	class uint16
}

type c11Query struct {
	id, flags  uint16
	qs         []c11Q
	an, ns, ar []c11RR
	counts     [4]int // -1: truthful
}

// wire: the datagram and the offsets of its boundaries (after the header, after every question and record)
func (q *c11Query) wire() ([]byte, []int) {
	var b []byte
	put16 := func(v uint16) { b = binary.BigEndian.AppendUint16(b, v) }
	put16(q.id)
	put16(q.flags)
	for i, n := range []int{len(q.qs), len(q.an), len(q.ns), len(q.ar)} {
		if q.counts[i] >= 0 {
			n = q.counts[i]
		}
		put16(uint16(n))
	}
	bounds := []int{len(b)}
	for _, x := range q.qs {
		b = append(b, x.name...)
		put16(x.typ)
		put16(x.class)
		bounds = append(bounds, len(b))
	}
	for _, sec := range [][]c11RR{q.an, q.ns, q.ar} {
		for _, r := range sec {
			b = append(b, r.name...)
			put16(r.typ)
			put16(r.class)
			b = binary.BigEndian.AppendUint32(b, r.ttl)
			n := len(r.data)
			if r.rdlen >= 0 {
				n = r.rdlen
			}
			put16(uint16(n))
			b = append(b, r.data...)
			bounds = append(bounds, len(b))
		}
	}
	return b, bounds
}

func c11WireName(labels ...[]byte) []byte {
	var b []byte
	for _, l := range labels {
		b = append(b, byte(len(l)))
		b = append(b, l...)
	}
	return append(b, 0)
}

func c11B32Labels(payload []byte) [][]byte {
	enc := bytes.ToLower([]byte(c11B32.EncodeToString(payload)))
	var labels [][]byte
	for len(enc) > 0 {
		n := len(enc)
		if n > 63 {
			n = 63
		}
		labels = append(labels, enc[:n])
		enc = enc[n:]
	}
	return labels
}

// payloads: what the labels in front of the domain decode to
type c11Payloads struct {
	sealed func() []byte // a framed, correctly sealed small registration
}

func (c *c11Reg) dnsPayload(p c11Payloads) []byte {
	switch c.r.Intn(8) {
	case 0:
		return nil
	case 1:
		return c.r.Bytes(c.r.Intn(100))
	case 2: // a frame around garbage
		n := c.r.Intn(100)
		return append([]byte{byte(n)}, c.r.Bytes(n)...)
	case 3: // a frame whose length lies by -2..+2
		n := c.r.Intn(60)
		return append([]byte{byte(n - 2 + c.r.Intn(5))}, c.r.Bytes(n)...)
	default:
		return p.sealed()
	}
}

// a name in wire form; at is the offset the name will be written at (for pointers to itself), first the
// offset of the first question's name (for pointers back)
func (c *c11Reg) dnsName(domain dns.Name, p c11Payloads, at, first int) []byte {
	dom := [][]byte(domain)
	under := func(labels ...[]byte) []byte { return c11WireName(append(labels, dom...)...) }
	switch c.r.Intn(20) {
	case 0:
		return c11WireName(dom...)
	case 1:
		return c11WireName([]byte("x"), []byte("example"), []byte("org"))
	case 2:
		return []byte{0}
	case 3: // upper / mixed case
		n := under(c11B32Labels(c.dnsPayload(p))...)
		for i := range n {
			if c.r.Bool() {
				n[i] = bytes.ToUpper(n[i : i+1])[0]
			}
		}
		return n
	case 4: // not base32
		return under([]byte([]string{"!", "1", "abc=", "8", "aa-", "\x00", "ab.cd"}[c.r.Intn(7)]))
	case 5: // one 63-byte label, and one of 64 (0x40: a reserved label type)
		n := 63 + c.r.Intn(2)
		return under(bytes.Repeat([]byte("a"), n))
	case 6: // around the 255-octet limit
		total := 1
		for _, l := range dom {
			total += 1 + len(l)
		}
		var labels [][]byte
		target := 253 + c.r.Intn(4)
		for total < target {
			n := target - total - 1
			if n > 63 {
				n = 63
			}
			if n < 1 {
				break
			}
			labels = append(labels, bytes.Repeat([]byte("b"), n))
			total += 1 + n
		}
		return under(labels...)
	case 7: // ends in a pointer: back to the first name, to itself, forward, far away
		var b []byte
		for _, l := range c11B32Labels(c.dnsPayload(p)) {
			b = append(b, byte(len(l)))
			b = append(b, l...)
		}
		off := []int{first, at, at + len(b), at + len(b) + 2, 12, 0, 0x3fff, c.r.Intn(300)}[c.r.Intn(8)]
		return append(b, 0xc0|byte(off>>8), byte(off))
	case 8: // no terminator
		n := under(c11B32Labels(c.dnsPayload(p))...)
		return n[:len(n)-1-c.r.Intn(3)]
	case 9: // the domain in another case, nothing or little in front of it
		n := c11WireName(append([][]byte{[]byte("ab")}, dom...)...)
		return bytes.ToUpper(n)
	default:
		return under(c11B32Labels(c.dnsPayload(p))...)
	}
}

var c11Sizes = []uint16{0, 511, 512, 1231, 1232, 1233, 4096, 65535}

func (c *c11Reg) dnsOPT(version int) c11RR {
	r := c11RR{name: []byte{0}, typ: dns.RRTypeOPT, class: 4096, rdlen: -1}
	if version < 0 {
		version = []int{0, 0, 0, 1, 2, 255, c.r.Intn(256)}[c.r.Intn(7)]
	}
	r.ttl = uint32(version) << 16
	if c.r.Chance(1, 3) {
		r.class = c11Sizes[c.r.Intn(len(c11Sizes))]
	} else if c.r.Chance(1, 6) {
		r.class = uint16(c.r.U64())
	}
	if c.r.Chance(1, 4) { // extended RCODE and flags (DO, Z)
		r.ttl |= uint32(c.r.U64()) & 0xff00ffff
	}
	if c.r.Chance(1, 8) {
		r.name = c11WireName([]byte("opt"))
	}
	if c.r.Chance(1, 5) { // options, or what passes for them
		r.data = c.r.Bytes(c.r.Intn(24))
	}
	if c.r.Chance(1, 10) {
		r.rdlen = len(r.data) - 1 + c.r.Intn(4)
		if r.rdlen < 0 {
			r.rdlen = 1
		}
	}
	return r
}

func (c *c11Reg) dnsPlainRR(domain dns.Name) c11RR {
	return c11RR{name: c11WireName(domain...), typ: []uint16{1, 2, 16, 28, 255}[c.r.Intn(5)], class: 1, ttl: uint32(c.r.Intn(4000)),
		data: c.r.Bytes([]int{0, 4, 16, 1 + c.r.Intn(40)}[c.r.Intn(4)]), rdlen: -1}
}

var c11QTypes = []uint16{dns.RRTypeTXT, 1, 2, dns.RRTypeOPT, 255}

// structuredQuery: one datagram, every dimension drawn independently
func (c *c11Reg) structuredQuery(domain dns.Name, p c11Payloads, id uint16) []byte {
	q := &c11Query{id: id, counts: [4]int{-1, -1, -1, -1}}
	// header
	if c.r.Chance(1, 10) {
		q.flags |= 0x8000
	}
	if c.r.Chance(1, 6) {
		q.flags |= uint16([]int{1, 2, 4, 5, 15, c.r.Intn(16)}[c.r.Intn(6)]) << 11
	}
	if c.r.Bool() {
		q.flags |= 0x0100 // RD, what the requester sets
	}
	if c.r.Chance(1, 5) {
		q.flags |= uint16(c.r.U64()) & 0x06f0 // AA TC RA Z AD CD
	}
	if c.r.Chance(1, 8) {
		q.flags |= uint16(c.r.Intn(16)) // RCODE bits in a query
	}
	// questions
	nq := []int{0, 1, 1, 1, 1, 1, 2, 2, 3, 2 + c.r.Intn(6)}[c.r.Intn(10)]
	at := 12
	for i := 0; i < nq; i++ {
		x := c11Q{name: c.dnsName(domain, p, at, 12), typ: dns.RRTypeTXT, class: dns.ClassIN}
		if c.r.Chance(1, 4) {
			x.typ = c11QTypes[c.r.Intn(len(c11QTypes))]
		} else if c.r.Chance(1, 10) {
			x.typ = uint16(c.r.U64())
		}
		if c.r.Chance(1, 6) {
			x.class = []uint16{0, 3, 255, uint16(c.r.U64())}[c.r.Intn(4)]
		}
		q.qs = append(q.qs, x)
		at += len(x.name) + 4
	}
	// answer / authority: mostly empty
	for _, sec := range []*[]c11RR{&q.an, &q.ns} {
		if c.r.Chance(1, 8) {
			for k := 1 + c.r.Intn(2); k > 0; k-- {
				if c.r.Bool() {
					*sec = append(*sec, c.dnsOPT(-1))
				} else {
					*sec = append(*sec, c.dnsPlainRR(domain))
				}
			}
		}
	}
	// additional
	nar := []int{0, 1, 1, 1, 1, 2, 2, 3}[c.r.Intn(8)]
	for i := 0; i < nar; i++ {
		if c.r.Chance(1, 5) {
			q.ar = append(q.ar, c.dnsPlainRR(domain))
		} else {
			q.ar = append(q.ar, c.dnsOPT(-1))
		}
	}
	// counts that lie
	if c.r.Chance(1, 8) {
		i := c.r.Intn(4)
		truth := []int{len(q.qs), len(q.an), len(q.ns), len(q.ar)}[i]
		q.counts[i] = []int{0, truth + 1, truth - 1, 0xffff, c.r.Intn(5)}[c.r.Intn(5)]
		if q.counts[i] < 0 {
			q.counts[i] = 0
		}
	}
	b, bounds := q.wire()
	// cut
	switch c.r.Intn(10) {
	case 0:
		b = b[:bounds[c.r.Intn(len(bounds))]]
	case 1:
		k := bounds[c.r.Intn(len(bounds))] - 1 + 2*c.r.Intn(2)
		if k >= 0 && k <= len(b) {
			b = b[:k]
		}
	case 2:
		b = b[:c.r.Intn(len(b)+1)]
	case 3:
		b = append(b, c.r.Bytes(1+c.r.Intn(12))...)
	}
	return b
}

// enumQueries: the whole product QR x OPCODE x number of questions x name x type x additional section,
// each complete and cut at every boundary
func (c *c11Reg) enumQueries(domain dns.Name, p c11Payloads) [][]byte {
	var out [][]byte
	opt := func(version int, size uint16) c11RR {
		return c11RR{name: []byte{0}, typ: dns.RRTypeOPT, class: size, ttl: uint32(version) << 16, rdlen: -1}
	}
	plain := c11RR{name: c11WireName(domain...), typ: 1, class: 1, ttl: 60, data: []byte{192, 0, 2, 1}, rdlen: -1}
	ars := [][]c11RR{
		nil,
		{opt(0, 4096)},
		{opt(0, 512)},
		{opt(1, 4096)},
		{opt(0, 4096), opt(0, 4096)},
		{opt(1, 4096), opt(0, 4096)},
		{opt(0, 4096), opt(1, 4096)},
		{plain, opt(1, 4096)},
		{plain},
	}
	id := uint16(0x4000)
	for _, qr := range []uint16{0, 0x8000} {
		for _, opcode := range []uint16{0, 2} {
			for nq := 0; nq <= 2; nq++ {
				for _, foreign := range []bool{false, true} {
					for _, typ := range []uint16{dns.RRTypeTXT, 1} {
						if nq == 0 && (foreign || typ != dns.RRTypeTXT) {
							continue // no question: name and type do not exist
						}
						for _, ar := range ars {
							q := &c11Query{id: id, flags: qr | opcode<<11 | 0x0100, ar: ar, counts: [4]int{-1, -1, -1, -1}}
							id++
							for i := 0; i < nq; i++ {
								name := c11WireName(append(c11B32Labels(p.sealed()), domain...)...)
								if foreign {
									name = c11WireName([]byte("www"), []byte("example"), []byte("org"))
								}
								q.qs = append(q.qs, c11Q{name: name, typ: typ, class: dns.ClassIN})
							}
							b, bounds := q.wire()
							out = append(out, b)
							for _, k := range bounds[:len(bounds)-1] {
								out = append(out, b[:k])
							}
						}
					}
				}
			}
		}
	}
	return out
}

// corpus: datagrams written by hand
func c11DNSCorpus(domain dns.Name) [][]byte {
	hdr := func(flags uint16, qd, an, ns, ar uint16) []byte {
		b := []byte{0xbe, 0xef}
		for _, v := range []uint16{flags, qd, an, ns, ar} {
			b = binary.BigEndian.AppendUint16(b, v)
		}
		return b
	}
	opt := func(version byte, size uint16) []byte {
		return []byte{0, 0, 41, byte(size >> 8), byte(size), 0, version, 0, 0, 0, 0}
	}
	qname := c11WireName(append([][]byte{[]byte("aa")}, domain...)...)
	question := append(append([]byte(nil), qname...), 0, 16, 0, 1)
	cat := func(parts ...[]byte) []byte { return bytes.Join(parts, nil) }
	return [][]byte{
		{},
		{0},
		hdr(0, 0, 0, 0, 0),
		hdr(0x0100, 0, 0, 0, 0),
		hdr(0x8000, 0, 0, 0, 0),
		hdr(0, 1, 0, 0, 0),         // a question is announced, none follows
		hdr(0, 0, 0, 0, 1),         // an additional record is announced, none follows
		hdr(0, 0xffff, 0xffff, 0xffff, 0xffff),
		cat(hdr(0, 0, 0, 0, 1), opt(0, 4096)),                           // EDNS, no question
		cat(hdr(0, 0, 0, 0, 1), opt(0, 0)),                              // EDNS, no question, payload size 0
		cat(hdr(0, 0, 0, 0, 2), opt(0, 4096), opt(0, 4096)),             // two OPT records, no question
		cat(hdr(0, 0, 0, 0, 2), opt(0, 4096), opt(0, 4096)[:5]),         // the second one cut
		cat(hdr(0x7800, 0, 0, 0, 1), opt(0, 4096)),                      // OPCODE 15, no question
		cat(hdr(0, 1, 0, 0, 0), question),                               // no EDNS
		cat(hdr(0, 1, 0, 0, 1), question, opt(0, 4096)),                 // plain
		cat(hdr(0, 2, 0, 0, 1), question, question, opt(0, 4096)),       // two questions
		cat(hdr(0, 2, 0, 0, 1), question, []byte{0xc0, 12, 0, 16, 0, 1}, opt(0, 4096)), // the second one a pointer to the first
		cat(hdr(0, 1, 0, 0, 1), []byte{0xc0, 12, 0, 16, 0, 1}, opt(0, 4096)),            // a name that is a pointer to itself
		cat(hdr(0, 1, 1, 0, 0), question, opt(0, 4096)),                 // the OPT record in the answer section
		cat(hdr(0, 1, 0, 1, 0), question, opt(0, 4096)),                 // … in the authority section
		cat(hdr(0, 1, 0, 0, 1), question, opt(0, 4096), []byte{0}),      // a trailing byte
		cat(hdr(0, 0, 0, 0, 1), []byte{3, 'o', 'p', 't', 0}, opt(0, 4096)[1:]), // OPT with an owner name
	}
}

// ---------------------------------------------------------------------------------------------
// what the child saw, per datagram

type c11Seen struct {
	written  [][]byte // every WriteTo
	called   bool     // the callback ran
	request  []byte   // what it was given
	response []byte   // what it returned
	failed   bool     // … or that it returned an error
}

// requestFrame: the one-byte length prefix, as the format says (not as the code does it)
func c11RequestFrame(p []byte) ([]byte, bool) {
	if len(p) < 1 || 1+int(p[0]) > len(p) {
		return nil, false
	}
	return p[1 : 1+int(p[0])], true
}

// dgramCase: the datagram as a case for the model of the handler. The two things the model does not
// contain are handed to it as a table: what the text in front of the domain decodes to (base32), and what
// craftResponse (Noise + the callback) makes of the framed request - computed here with the real
// craftResponse around the answer the callback gave in the child.
func (c *c11Reg) dgramCase(resp *responder.Responder, domain dns.Name, d []byte, seen c11Seen) {
	var tb []string
	if len(d) > 4096 { // the receive buffer of RecvAndRespond
		d = d[:4096]
	}
	m, _ := dns.MessageFromWireFormat(vlibc11.ExactCap(d))
	kind := "other"
	if len(m.Question) == 1 {
		if pre, ok := m.Question[0].Name.TrimSuffix(domain); ok {
			text := bytes.ToUpper(bytes.Join(pre, nil))
			dec := make([]byte, c11B32.DecodedLen(len(text)))
			n, err := c11B32.Decode(dec, text)
			if err != nil {
				tb = append(tb, "b32:"+vlib.Hex(text)+"=FAIL")
			} else {
				tb = append(tb, "b32:"+vlib.Hex(text)+"="+vlib.Hex(dec[:n]))
				if f, ok := c11RequestFrame(dec[:n]); ok {
					r, err := resp.VerifCraftResponse(f, func([]byte) ([]byte, error) {
						if !seen.called || seen.failed {
							return nil, fmt.Errorf("the callback failed in the child, or was not called there")
						}
						return seen.response, nil
					})
					if err != nil {
						tb = append(tb, "craft:"+vlib.Hex(f)+"=FAIL")
					} else {
						tb = append(tb, "craft:"+vlib.Hex(f)+"="+vlib.Hex(r))
					}
				}
			}
		}
	}
	ans := "none"
	if len(seen.written) > 0 {
		l := make([]string, len(seen.written))
		for i, w := range seen.written {
			l[i] = "sent " + vlib.Hex(w)
		}
		ans = strings.Join(l, " ")
		if w := seen.written[0]; len(w) >= 12 {
			kind = fmt.Sprintf("rcode=%d,qd=%d,an=%d,ar=%d", w[3]&0xf, min(int(binary.BigEndian.Uint16(w[4:])), 3), binary.BigEndian.Uint16(w[6:]), binary.BigEndian.Uint16(w[10:]))
		}
	} else {
		kind = "silent"
	}
	c.out.Count("dns-child:response:" + kind)
	if seen.called {
		c.out.Count("dns-child:callback")
	}
	line := fmt.Sprintf("codec|dgram|%s|%s|%d|%s", vlib.Hex(d), vlibc11.ShowName(domain), resp.VerifMaxUDPPayload(), strings.Join(tb, ";"))
	c.out.Case(line, ans, len(seen.written) > 0)
}
