//go:build verif

package phantoms

import (
	"net"

	pb "github.com/refraction-networking/conjure/proto"
)

// Read-only access for the C01 harness (exists only in the scratch copy made by /verif/check).

// VerifC01ParseSubnet runs parseSubnet on one configured string.
func VerifC01ParseSubnet(s string) (*net.IPNet, error) { return parseSubnet(s) }

// VerifC01ParseSubnets runs parseSubnets on a weighted set and returns the networks with their
// port-randomisation flags.
func VerifC01ParseSubnets(g *pb.PhantomSubnets) ([]*net.IPNet, []bool, error) {
	l, err := parseSubnets(g)
	if err != nil {
		return nil, nil, err
	}
	nets := make([]*net.IPNet, len(l))
	flags := make([]bool, len(l))
	for i, n := range l {
		nets[i], flags[i] = n.IPNet, n.supportRandomPort
	}
	return nets, flags, nil
}
