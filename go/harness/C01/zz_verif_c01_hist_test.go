//go:build verif

package lib

// C01, client-side API histories and registrar responses.
//
// One ClientTransport object (min, obfs4, prefix, dtls) is driven through one to three *sessions*.
// A session is a sequence over the client API
//
//	S:<arg>        SetParams(arg)                  (configuration "for future sessions")
//	P              Prepare                         (starts a session: session parameters := configuration)
//	X:<tp>:<u>     SetSessionParams(tp[, true])    (session parameters, directly)
//	G              GetParams                       (what goes into the registration)
//	R              the registrar's response applied by the real client code (gotapdance
//	               ConjureReg.UnpackRegResp with the session's DisableRegistrarOverrides; the model line
//	               spells it R:<disable>:<tp>)
//	D              GetDstPort(seed)                (connect-time port of the transport)
//	W              PrepareKeys + WrapConn          (what identifies the session on the wire)
//
// of the shape  pre* [D] G post* D W G : the first G is the registration, post holds re-configurations for
// later sessions (S) and at most one application of a registrar response (R, or X for a client that
// applies the response itself), the last G is what the client believes the session's parameters are.
//
// The station is fed exactly what the history registered: a C2SWrapper whose ClientToStation carries the
// parameters the first G returned and the client's DisableRegistrarOverrides flag, together with the
// RegistrationResponse the client was handed (transport parameters / dst_port / phantom address present
// or absent), through the real NewRegistrationC2SWrapper.
//
// Oracle (per session): the parameters, port, phantom, prefix and identifier the client uses for the
// session are the ones the station derived for that registration.  Correspondence: the whole history
// against the Lean client-transport state machine (`chist|…`), the station's registration against the
// Lean ingest model (`ingest|…`).

import (
	"bytes"
	"context"
	"encoding/binary"
	"fmt"
	"io"
	"net"
	"reflect"
	"strconv"
	"strings"
	"testing"
	"unsafe"

	"github.com/refraction-networking/conjure/internal/vlib"
	"github.com/refraction-networking/conjure/pkg/core/interfaces"
	"github.com/refraction-networking/conjure/pkg/phantoms"
	"github.com/refraction-networking/conjure/pkg/transports"
	"github.com/refraction-networking/conjure/pkg/transports/connecting/dtls"
	"github.com/refraction-networking/conjure/pkg/transports/wrapping/min"
	"github.com/refraction-networking/conjure/pkg/transports/wrapping/obfs4"
	"github.com/refraction-networking/conjure/pkg/transports/wrapping/prefix"
	pb "github.com/refraction-networking/conjure/proto"
	"github.com/refraction-networking/gotapdance/tapdance"
	"google.golang.org/protobuf/proto"
	"google.golang.org/protobuf/types/known/anypb"
)

// c01Resp is the RegistrationResponse that travels with the C2SWrapper and is handed to the client.
type c01Resp struct {
	tp   string // "-" no transport parameters, else g<r> | p<id>,<r> | d<r>
	port int    // -1: dst_port absent
	ip   bool   // a phantom address of the registration's family is present
}

func (r *c01Resp) text() string {
	if r == nil {
		return "-"
	}
	return fmt.Sprintf("%s:%d:%s", r.tp, r.port, vlib.B(r.ip))
}

func c01ParseResp(s string) (*c01Resp, error) {
	if s == "-" {
		return nil, nil
	}
	f := strings.Split(s, ":")
	if len(f) != 3 {
		return nil, fmt.Errorf("bad response %q", s)
	}
	p, err := strconv.Atoi(f[1])
	if err != nil {
		return nil, err
	}
	return &c01Resp{tp: f[0], port: p, ip: f[2] == "1"}, nil
}

var c01OverrideV4 = net.IPv4(203, 0, 113, 77).To4()
var c01OverrideV6 = net.ParseIP("2001:db8:77::77")

type c01Session struct {
	pre     []string // S:…, P, X:…
	earlyD  bool     // the dialer asks for the port before it builds the registration (unidirectional order)
	post    []string // S:…, at most one of R:… / X:…
	disable bool
	resp    *c01Resp
}

func (s *c01Session) ops() []string {
	ops := append([]string{}, s.pre...)
	if s.earlyD {
		ops = append(ops, "D")
	}
	ops = append(ops, "G")
	ops = append(ops, s.post...)
	return append(ops, "D", "W", "G")
}

func (s *c01Session) text() string {
	j := func(l []string) string {
		if len(l) == 0 {
			return "-"
		}
		return strings.Join(l, ";")
	}
	return fmt.Sprintf("%s!%s!%s!%s!%s", j(s.pre), vlib.B(s.earlyD), j(s.post), vlib.B(s.disable), s.resp.text())
}

func c01ParseSession(t string) (*c01Session, error) {
	f := strings.Split(t, "!")
	if len(f) != 5 {
		return nil, fmt.Errorf("bad session %q", t)
	}
	sp := func(s string) []string {
		if s == "-" {
			return nil
		}
		return strings.Split(s, ";")
	}
	r, err := c01ParseResp(f[4])
	if err != nil {
		return nil, err
	}
	return &c01Session{pre: sp(f[0]), earlyD: f[1] == "1", post: sp(f[2]), disable: f[3] == "1", resp: r}, nil
}

type c01Hist struct {
	c01Case  // params unused
	sessions []*c01Session
}

func (h *c01Hist) replay() string {
	var ss []string
	for _, s := range h.sessions {
		ss = append(ss, s.text())
	}
	return fmt.Sprintf("C01HIST|%s|%d|%d|%s|%s|%s|%s", vlib.Hex(h.secret), h.ver, h.gen, vlib.B(h.v6), h.transport, strings.Join(ss, "/"), h.cfg.text())
}

// the argument of SetParams in the notation of the history
func c01HistArg(a string) any {
	switch {
	case a == "n":
		return nil
	case a == "x":
		return struct{}{} // a type no transport accepts
	case a[0] == 'g':
		return &pb.GenericTransportParams{RandomizeDstPort: proto.Bool(a[1] == '1')}
	case a[0] == 'd':
		return &pb.DTLSTransportParams{RandomizeDstPort: proto.Bool(a[1] == '1')}
	case a[0] == 'p' || a[0] == 'c':
		f := strings.Split(a[1:], ",")
		id, _ := strconv.Atoi(f[0])
		if a[0] == 'c' {
			return &prefix.ClientParams{PrefixID: int32(id), RandomizeDstPort: f[1] == "1", FlushPolicy: prefix.DefaultFlush}
		}
		return &pb.PrefixTransportParams{PrefixId: proto.Int32(int32(id)), RandomizeDstPort: proto.Bool(f[1] == "1")}
	}
	panic("bad argument " + a)
}

// transport parameters as a registrar attaches them to its response (prefix: with the prefix bytes and
// flush policy of the prefix, as overrides.FixedPrefixOverride / regprocessor.overridePrefix fill them)
func c01HistAny(tp string, strip bool) *anypb.Any {
	if tp == "-" {
		return nil
	}
	var m proto.Message
	switch tp[0] {
	case 'g':
		m = &pb.GenericTransportParams{RandomizeDstPort: proto.Bool(tp[1] == '1')}
	case 'd':
		m = &pb.DTLSTransportParams{RandomizeDstPort: proto.Bool(tp[1] == '1')}
	case 'p':
		f := strings.Split(tp[1:], ",")
		id, _ := strconv.Atoi(f[0])
		pp := &pb.PrefixTransportParams{PrefixId: proto.Int32(int32(id)), RandomizeDstPort: proto.Bool(f[1] == "1")}
		if px, err := prefix.TryFromID(prefix.PrefixID(id)); err == nil && px != nil {
			pp.Prefix = px.Bytes()
			pp.CustomFlushPolicy = proto.Int32(px.FlushPolicy())
		} else {
			pp.Prefix = []byte("verif-unknown-prefix")
		}
		m = pp
	default:
		panic("bad parameters " + tp)
	}
	a, err := anypb.New(m)
	if err != nil {
		panic(err)
	}
	if strip {
		a.TypeUrl = ""
	}
	return a
}

// canonical text of a parameter message ("-": nil / typed nil)
func c01WireText(m proto.Message) (proto.Message, string) {
	switch p := m.(type) {
	case *pb.GenericTransportParams:
		if p != nil {
			return p, "g" + vlib.B(p.GetRandomizeDstPort())
		}
	case *pb.PrefixTransportParams:
		if p != nil {
			return p, fmt.Sprintf("p%d,%s", p.GetPrefixId(), vlib.B(p.GetRandomizeDstPort()))
		}
	case *pb.DTLSTransportParams:
		if p != nil {
			return p, "d" + vlib.B(p.GetRandomizeDstPort())
		}
	}
	return nil, "-"
}

func c01NewClientTransport(name string) interfaces.Transport {
	switch name {
	case "min":
		return &min.ClientTransport{}
	case "obfs4":
		return &obfs4.ClientTransport{}
	case "prefix":
		return &prefix.ClientTransport{}
	case "dtls":
		return &dtls.ClientTransport{}
	}
	panic("no client transport " + name)
}

// c01UnpackRegResp hands the response to the client as the registrars of this repository do
// (pkg/registrars/registration: reg.UnpackRegResp(regResp)) and reports what the registration object
// then holds: the phantom and the port the dialer will use.
func c01UnpackRegResp(ct interfaces.Transport, disable, v6 bool, rr *pb.RegistrationResponse) (err error, port uint16, phantom net.IP) {
	reg := &tapdance.ConjureReg{Transport: ct, ConjureSession: &tapdance.ConjureSession{DisableRegistrarOverrides: disable}}
	rv := reflect.ValueOf(reg).Elem()
	if v6 {
		f := rv.FieldByName("v6Support")
		reflect.NewAt(f.Type(), unsafe.Pointer(f.UnsafeAddr())).Elem().SetUint(1) // tapdance: v4 = 0, v6 = 1, both = 2
	}
	err = reg.UnpackRegResp(rr)
	port = uint16(rv.FieldByName("phantomDstPort").Uint())
	if v6 {
		phantom = reg.Phantom6()
	} else {
		phantom = reg.Phantom4()
	}
	return
}

type c01SessObs struct {
	answers    []string
	registered bool
	wire       proto.Message // what the first G returned (nil: the field stays absent)
	wireText   string
	early      string // answer of the early D
	final      string // answer of the connect-time D
	finalText  string // the client's view of the session parameters after everything
	wrap       string
	flight     []byte
	prefixID   int
	applied    string // "", "ok", "refused", "err", "panic"
	tdPort     uint16 // what gotapdance's registration object holds after UnpackRegResp
	tdPhantom  net.IP
	// prefix: at connect time the session's prefix object is not one of the client's own table but one built
	// from a response (SetSessionParams unchecked): it carries bytes and id, no port
	foreignPrefix bool
	earlyForeign  bool
	aborted       bool // the client gives up on this session (cannot register / response not applicable)
}

// c01HistClientOp applies one operation to the real client transport and answers in the model's notation.
func c01HistClientOp(w *c01World, h *c01Hist, s *c01Session, ct interfaces.Transport, op string, seed []byte, reader io.Reader, rr *pb.RegistrationResponse, o *c01SessObs) (ans string) {
	defer func() {
		if p := recover(); p != nil {
			ans = "panic"
		}
	}()
	f := strings.Split(op, ":")
	switch f[0] {
	case "S":
		if err := ct.SetParams(c01HistArg(f[1])); err != nil {
			return "err"
		}
		return "ok"
	case "P":
		var dialer func(ctx context.Context, network, laddr, raddr string) (net.Conn, error)
		if _, ok := ct.(*dtls.ClientTransport); ok {
			dialer = dtls.VerifC01StunDialer()
		}
		if err := ct.Prepare(context.Background(), dialer); err != nil {
			return "err"
		}
		return "ok"
	case "X":
		var err error
		if f[2] == "1" {
			err = ct.SetSessionParams(c01HistAny(f[1], len(h.secret)%2 == 0), true)
		} else {
			err = ct.SetSessionParams(c01HistAny(f[1], len(h.secret)%2 == 0))
		}
		if err != nil {
			return "err"
		}
		return "ok"
	case "R":
		err, port, ph := c01UnpackRegResp(ct, s.disable, h.v6, rr)
		o.tdPort, o.tdPhantom = port, ph
		switch {
		case err == nil:
			return "ok"
		case strings.Contains(err.Error(), "failed to respect disabled overrides"):
			return "refused"
		}
		return "err"
	case "G":
		m, err := ct.GetParams()
		if err != nil {
			return "err"
		}
		_, t := c01WireText(m)
		return "params " + t
	case "D":
		if pt, ok := ct.(*prefix.ClientTransport); ok {
			o.foreignPrefix = prefix.VerifC01ForeignPrefix(pt)
		}
		p, err := ct.GetDstPort(seed)
		if err != nil {
			return "err " + c01PortErr(err)
		}
		return fmt.Sprintf("port %d", p)
	case "W":
		switch wt := ct.(type) {
		case *min.ClientTransport:
			if err := wt.PrepareKeys(w.pubkey, h.secret, reader); err != nil {
				return "err"
			}
			cc := &c01CaptureConn{}
			if _, err := wt.WrapConn(cc); err != nil {
				return "err"
			}
			o.flight = append([]byte{}, cc.buf.Bytes()...)
			return "ok"
		case *prefix.ClientTransport:
			if err := wt.PrepareKeys(w.pubkey, h.secret, reader); err != nil {
				return "err"
			}
			cc := &c01CaptureConn{}
			if _, err := wt.WrapConn(cc); err != nil {
				return "err"
			}
			o.flight = append([]byte{}, cc.buf.Bytes()...)
			o.prefixID = int(wt.Prefix.ID())
			return fmt.Sprintf("prefix %d", wt.Prefix.ID())
		case *obfs4.ClientTransport:
			if err := wt.PrepareKeys(w.pubkey, h.secret, reader); err != nil {
				return "err"
			}
			k := obfs4.VerifC01ClientKeys(wt)
			o.flight = append(append([]byte{}, k.PublicKey.Bytes()[:]...), k.NodeID.Bytes()[:]...)
			return "ok"
		case *dtls.ClientTransport:
			if err := wt.PrepareKeys(w.pubkey, h.secret, reader); err != nil {
				return "err"
			}
			o.flight = append([]byte{}, dtls.VerifC01ClientPSK(wt)...)
			return "ok"
		}
	}
	panic("bad operation " + op)
}

// the response as a message; the same object content goes to the client and into the wrapper
func c01HistRespMsg(h *c01Hist, s *c01Session) *pb.RegistrationResponse {
	if s.resp == nil {
		return nil
	}
	rr := &pb.RegistrationResponse{}
	if s.resp.tp != "-" {
		rr.TransportParams = c01HistAny(s.resp.tp, len(h.secret)%3 == 0)
	}
	if s.resp.port >= 0 {
		rr.DstPort = proto.Uint32(uint32(s.resp.port))
	}
	if s.resp.ip {
		if h.v6 {
			rr.Ipv6Addr = append([]byte{}, c01OverrideV6...)
		} else {
			rr.Ipv4Addr = proto.Uint32(binary.BigEndian.Uint32(c01OverrideV4))
		}
	}
	return rr
}

// the response in the model's notation (the address spelled out)
func c01HistRespModel(h *c01Hist, s *c01Session) string {
	if s.resp == nil {
		return "-"
	}
	addr := "-"
	if s.resp.ip {
		addr = vlib.Hex(c01OverrideV4)
		if h.v6 {
			addr = vlib.Hex(c01OverrideV6)
		}
	}
	return fmt.Sprintf("%s:%d:%s", s.resp.tp, s.resp.port, addr)
}

// c01HistStation: the real ingest of the wrapper this session produced.
func c01HistStation(w *c01World, h *c01Hist, s *c01Session, wire proto.Message) (st c01Side, params string, modelIdent []byte) {
	defer func() {
		if p := recover(); p != nil {
			st = c01Side{kind: "panic", err: fmt.Sprint(p)}
		}
	}()
	w.rm.PhantomSelector = h.cfg.selector()
	tt := c01TransportType[h.transport]
	ver, gen := uint32(h.ver), uint32(h.gen)
	covert := "1.2.3.4:56789"
	c2s := &pb.ClientToStation{ClientLibVersion: &ver, Transport: &tt, CovertAddress: &covert, DecoyListGeneration: &gen,
		V4Support: proto.Bool(!h.v6), V6Support: proto.Bool(h.v6), DisableRegistrarOverrides: proto.Bool(s.disable)}
	if wire != nil {
		a, err := anypb.New(wire)
		if err != nil {
			panic(err)
		}
		a.TypeUrl = ""
		c2s.TransportParams = a
	}
	src := pb.RegistrationSource_BidirectionalAPI
	if s.resp == nil {
		src = pb.RegistrationSource_API
	}
	regAddr := net.ParseIP("192.0.2.7").To4()
	if h.v6 {
		regAddr = net.ParseIP("2001:db8:ffff::7")
	}
	c2sw := &pb.C2SWrapper{SharedSecret: h.secret, RegistrationPayload: c2s, RegistrationSource: &src, RegistrationAddress: regAddr,
		RegistrationResponse: c01HistRespMsg(h, s)}
	reg, err := w.rm.NewRegistrationC2SWrapper(c2sw, h.v6)
	if err != nil {
		msg := err.Error()
		switch {
		case strings.Contains(msg, "failed to generate keys"):
			return c01Side{kind: "errKeys", err: "entropy"}, "", nil
		case strings.Contains(msg, "failed phantom select"):
			return c01Side{kind: "errAddr", err: c01AddrErr(err)}, "", nil
		case strings.Contains(msg, "unknown transport"), strings.Contains(msg, "error handling transport params"),
			strings.Contains(msg, "error selecting phantom dst port"):
			return c01Side{kind: "errPort", err: c01PortErr(err)}, "", nil
		}
		return c01Side{kind: "errOther", err: msg}, "", nil
	}
	st = c01Side{kind: "ok", seed: reg.Keys.ConjureSeed, addr: reg.PhantomIp, port: reg.PhantomPort}
	st.psk = append([]byte{}, reg.SharedSecret()...)
	tr := w.rm.registeredDecoys.transports[tt]
	st.ident = []byte(tr.GetIdentifier(reg))
	modelIdent = st.ident
	if h.transport == "obfs4" {
		k, ok := reg.TransportKeys().(obfs4.Obfs4Keys)
		if !ok {
			return c01Side{kind: "errIdent", err: "entropy"}, "", nil
		}
		modelIdent = append(append([]byte{}, k.PrivateKey.Bytes()[:]...), k.NodeID.Bytes()[:]...)
	}
	params = "-"
	if m, ok := reg.TransportParams().(proto.Message); ok {
		_, params = c01WireText(m)
	}
	return st, params, modelIdent
}

// does a parameter text ask for a randomised port / which prefix
func c01ParamsView(transport, t string) string {
	if t == "-" {
		switch transport {
		case "prefix":
			return "none"
		}
		return "rand=0"
	}
	switch t[0] {
	case 'p':
		f := strings.Split(t[1:], ",")
		return "prefix=" + f[0] + " rand=" + f[1]
	}
	return "rand=" + t[1:]
}

func c01HistRun(t testing.TB, out *vlib.Out, w *c01World, h *c01Hist) {
	ct := c01NewClientTransport(h.transport)
	groups := h.cfg.gens[h.gen]
	known := false
	for _, g := range h.cfg.order {
		known = known || g == h.gen
	}
	var allOps, allAns []string
	for si, s := range h.sessions {
		// the keys of the session (published derivation of the registration's library version)
		seed, reader := c01SpecKeys(h.secret, h.ver)
		rr := c01HistRespMsg(h, s)
		o := &c01SessObs{wireText: "-"}
		ops := s.ops()
		gSeen, dSeen := 0, 0
		for _, op := range ops {
			mop := op
			ans := c01HistClientOp(w, h, s, ct, op, seed, reader, rr, o)
			switch op[0] {
			case 'G':
				gSeen++
				if gSeen == 1 {
					if strings.HasPrefix(ans, "params ") {
						o.registered = true
						m, _ := ct.GetParams()
						if wm, wt := c01WireText(m); wm != nil {
							o.wire, o.wireText = proto.Clone(wm), wt
						}
					} else {
						o.aborted = true
					}
				} else {
					o.finalText = strings.TrimPrefix(ans, "params ")
					if !strings.HasPrefix(ans, "params ") {
						o.finalText = "err"
					}
				}
			case 'D':
				dSeen++
				if s.earlyD && dSeen == 1 {
					o.early, o.earlyForeign = ans, o.foreignPrefix
				} else {
					o.final = ans
				}
			case 'W':
				o.wrap = ans
			case 'R':
				o.applied = ans
				tp := "-"
				if s.resp != nil {
					tp = s.resp.tp
				}
				mop = fmt.Sprintf("R:%s:%s", vlib.B(s.disable), tp)
				if ans == "err" || ans == "panic" {
					o.aborted = true
				}
			case 'X':
				if gSeen >= 1 {
					o.applied = ans
					if ans != "ok" {
						o.aborted = true
					}
				}
			}
			allOps = append(allOps, mop)
			allAns = append(allAns, ans)
			out.Count("hist-op:" + h.transport + ":" + op[:1] + ":" + strings.SplitN(ans, " ", 2)[0])
		}
		if !o.registered {
			out.Count("hist:not-registered:" + h.transport)
			continue
		}
		// --- the station, fed what this session registered
		st, stParams, stModelIdent := c01HistStation(w, h, s, o.wire)
		stSeed, _ := c01SpecKeys(h.secret, h.ver)
		draws := "-"
		if h.ver < 2 && known {
			draws = c01Draws(stSeed, groups)
		}
		line := fmt.Sprintf("ingest|%s|%d|%d|%s|%s|%s|%s|%s|%s|%s", vlib.Hex(h.secret), h.ver, h.gen, vlib.B(h.v6), h.transport, o.wireText,
			vlib.B(s.disable), c01HistRespModel(h, s), h.cfg.modelText(t, -1), draws)
		ans := st.String()
		if st.kind == "ok" {
			ans = fmt.Sprintf("ok %s %s %d %s %s", vlib.Hex(st.seed), vlib.Hex(st.addr), st.port, vlib.Hex(stModelIdent), stParams)
		}
		out.Case(line, ans, st.kind == "ok")
		out.Count(fmt.Sprintf("hist-station:%s:%s:%s", h.transport, st.kind, st.err))
		rtxt := "none"
		if s.resp != nil {
			rtxt = fmt.Sprintf("tp=%v,port=%v,ip=%v", s.resp.tp != "-", s.resp.port >= 0, s.resp.ip)
		}
		out.Count(fmt.Sprintf("hist-response:%s:disable=%v:%s:%s", h.transport, s.disable, rtxt, o.applied))

		if st.kind == "panic" {
			out.Checked()
			c01Fail(out, "C01:station-panics", "the station path panics: "+st.err, h.replay())
			continue
		}
		if o.aborted || h.ver < 3 && h.transport == "prefix" {
			out.Count("hist:client-gives-up:" + h.transport)
			continue
		}
		// --- the client's rendezvous for this session
		// phantom: the response's when it names one (bidirectional), else the client's own selection
		var clAddr net.IP
		var clRp bool
		if s.resp != nil && s.resp.ip {
			clAddr = c01OverrideV4
			if h.v6 {
				clAddr = c01OverrideV6
			}
			if o.applied != "" && s.post[c01ApplyIndex(s.post)] == "R" && !bytes.Equal(o.tdPhantom, clAddr) {
				out.Checked()
				c01Fail(out, "C01:client-ignores-response-phantom", fmt.Sprintf("the response names %v, the client's registration holds %v", clAddr, o.tdPhantom), h.replay())
			}
		}
		{
			// the client's own selection (also tells whether the subnet randomises)
			if h.ver < 2 {
				out.Count("hist:legacy-selection-skipped")
				continue // histories use SelectPhantom; the frozen clients are covered by the plain cases
			}
			f := phantoms.V4Only
			if h.v6 {
				f = phantoms.V6Only
			}
			ph, err := phantoms.SelectPhantom(seed, &pb.PhantomSubnetsList{WeightedSubnets: c01PbGroups(groups)}, f, true)
			if err != nil {
				out.Count("hist:client-no-phantom:" + c01AddrErr(err))
				continue
			}
			clRp = ph.SupportRandomPort()
			if clAddr == nil {
				clAddr = *ph.IP()
			}
		}
		if !c01WellFormed(clAddr, h.v6) {
			continue
		}
		// port: the response's when it carries one (what UnpackRegResp stores), else the transport's own
		// derivation under the dialer's rule
		portOf := func(ans string) (int, string) {
			if h.ver < 3 || !clRp {
				return 443, ""
			}
			if strings.HasPrefix(ans, "port ") {
				p, _ := strconv.Atoi(ans[5:])
				return p, ""
			}
			return -1, ans
		}
		clPort, clPortErr := portOf(o.final)
		viaResp := s.resp != nil && s.resp.port > 0
		if viaResp {
			clPort, clPortErr = s.resp.port, ""
		}
		if clPortErr != "" {
			out.Count("hist:client-no-port:" + h.transport + ":" + clPortErr)
			continue
		}
		// a prefix the registrar pushed into the session (unchecked) has no port of its own on the client:
		// the port of such a session travels in dst_port
		noOwnPort := h.transport == "prefix" && !viaResp && o.foreignPrefix && strings.HasSuffix(o.finalText, ",0")
		out.Checked()
		out.Count("hist:oracle:" + h.transport)
		what := fmt.Sprintf("%s session %d of %s", h.transport, si+1, s.text())
		switch {
		case st.kind != "ok":
			c01Fail(out, "C01:station-fails-client-ok", fmt.Sprintf("%s: client dials %v:%d, station answers %s", what, clAddr, clPort, st), h.replay())
		case !bytes.Equal(st.seed, seed):
			c01Fail(out, "C01:seed-differs", fmt.Sprintf("%s: station seed %x, client seed %x", what, st.seed, seed), h.replay())
		case h.ver >= 3 && c01ParamsView(h.transport, stParams) != c01ParamsView(h.transport, o.finalText):
			// (library versions before 3 know no parameters: the station ignores what such a message carries)
			c01Fail(out, "C01:session-params-differ", fmt.Sprintf("%s: the client's session runs with %s, the station built the registration from %s (registered %s, response %s, overrides disabled: %v, client applied: %q)",
				what, o.finalText, stParams, o.wireText, s.resp.text(), s.disable, o.applied), h.replay())
		case !bytes.Equal(st.addr, clAddr):
			c01Fail(out, "C01:addr-differs", fmt.Sprintf("%s: station phantom %v, client phantom %v", what, st.addr, clAddr), h.replay())
		case !noOwnPort && int(st.port) != clPort:
			c01Fail(out, "C01:port-differs", fmt.Sprintf("%s: station port %d, client port %d (registered %s, session %s, subnet randomises: %v, port from response: %v)",
				what, st.port, clPort, o.wireText, o.finalText, clRp, viaResp), h.replay())
		case s.earlyD && !viaResp && o.applied != "ok" && !(h.transport == "prefix" && o.earlyForeign && strings.HasSuffix(o.wireText, ",0")) && func() bool { p, e := portOf(o.early); return e == "" && p != int(st.port) }():
			c01Fail(out, "C01:port-differs", fmt.Sprintf("%s: station port %d, the port the client derived before registering %s", what, st.port, o.early), h.replay())
		}
		// what the client puts on the wire
		out.Checked()
		switch h.transport {
		case "min", "obfs4":
			if o.wrap != "ok" || !bytes.Equal(o.flight, st.ident) {
				c01Fail(out, "C01:ident-differs", fmt.Sprintf("%s: station identifier %x, client %s %x", what, st.ident, o.wrap, o.flight), h.replay())
			}
		case "dtls":
			if o.wrap != "ok" || !bytes.Equal(o.flight, st.psk) {
				c01Fail(out, "C01:dtls-psk-differs", fmt.Sprintf("%s: station keys the handshake with %x, client %s %x", what, st.psk, o.wrap, o.flight), h.replay())
			}
		case "prefix":
			// the flight must open with the bytes of the prefix the station registered, followed by the tag
			stID := -1
			if f := strings.Split(strings.TrimPrefix(stParams, "p"), ","); len(f) == 2 {
				stID, _ = strconv.Atoi(f[0])
			}
			var want []byte
			found := false
			for _, p := range prefix.VerifC01StationPrefixes() {
				if p.ID == stID {
					want, found = p.Static, true
				}
			}
			switch {
			case !strings.HasPrefix(o.wrap, "prefix "):
				c01Fail(out, "C01:ident-differs", fmt.Sprintf("%s: the client cannot build its first flight (%s)", what, o.wrap), h.replay())
			case !found || o.prefixID != stID || len(o.flight) != len(want)+64 || !bytes.Equal(o.flight[:len(want)], want):
				c01Fail(out, "C01:prefix-differs", fmt.Sprintf("%s: the station expects prefix %d (% x), the client sends prefix %d (% x)", what, stID, want, o.prefixID, o.flight[:max(0, len(o.flight)-64)]), h.replay())
			default:
				id, err := transports.CTRObfuscator{}.TryReveal(o.flight[len(want):], w.privkey)
				if err != nil || !bytes.Equal(id, st.ident) {
					c01Fail(out, "C01:ident-differs", fmt.Sprintf("%s: station identifier %x, client tag %x (%v)", what, st.ident, id, err), h.replay())
				}
			}
		}
		// what gotapdance's registration object holds after the response (observation of the dialer outside
		// this repository: it takes dst_port from the response and falls back to 443)
		if o.applied != "" && s.resp != nil && s.post[c01ApplyIndex(s.post)] == "R" {
			if int(o.tdPort) == int(st.port) {
				out.Count("hist:gotapdance-port:agrees")
			} else {
				out.Count(fmt.Sprintf("hist:gotapdance-port:differs:dst_port-present=%v", s.resp.port >= 0))
			}
		}
	}
	// --- correspondence: the whole history against the client state machine of the model
	cs, _ := c01SpecKeys(h.secret, h.ver)
	out.Case(fmt.Sprintf("chist|%s|%s|%s", h.transport, vlib.Hex(cs), strings.Join(allOps, ";")), strings.Join(allAns, ";"), true)
}

func c01ApplyIndex(post []string) int {
	for i, op := range post {
		if op[0] == 'R' || op[0] == 'X' {
			return i
		}
	}
	return 0
}

// ------------------------------------------------------------------------------------------------
// generators

func c01HistArgs(r *vlib.Rand, transport string) string {
	rnd := vlib.B(r.Bool())
	if r.Chance(1, 12) {
		return "n"
	}
	if r.Chance(1, 25) {
		return []string{"x", "g" + rnd, "d" + rnd, "p0," + rnd}[r.Intn(4)] // foreign to most transports
	}
	switch transport {
	case "prefix":
		id := c01PrefixIDs[r.Intn(len(c01PrefixIDs))]
		switch {
		case r.Chance(1, 5):
			return "g" + rnd
		case r.Chance(1, 25):
			id = 10 + r.Intn(5)
		}
		if r.Chance(1, 4) {
			return fmt.Sprintf("c%d,%s", id, rnd)
		}
		return fmt.Sprintf("p%d,%s", id, rnd)
	case "dtls":
		if r.Chance(1, 3) {
			return "g" + rnd
		}
		return "d" + rnd
	}
	return "g" + rnd
}

// parameters a registrar (or SetSessionParams) hands to the client: of the transport's own message type
func c01HistTP(r *vlib.Rand, transport string) string {
	rnd := vlib.B(r.Bool())
	switch transport {
	case "prefix":
		return fmt.Sprintf("p%d,%s", c01PrefixIDs[r.Intn(len(c01PrefixIDs))], rnd)
	case "dtls":
		return "d" + rnd
	}
	return "g" + rnd
}

func c01RandSession(r *vlib.Rand, transport string) *c01Session {
	s := &c01Session{}
	for i := r.Intn(3); i > 0; i-- {
		s.pre = append(s.pre, "S:"+c01HistArgs(r, transport))
	}
	if !r.Chance(1, 10) {
		s.pre = append(s.pre, "P")
	}
	if r.Chance(1, 7) {
		s.pre = append(s.pre, fmt.Sprintf("X:%s:%s", c01HistTP(r, transport), vlib.B(r.Chance(1, 3))))
	}
	if r.Chance(1, 12) {
		s.pre = append(s.pre, "S:"+c01HistArgs(r, transport))
	}
	s.earlyD = r.Chance(1, 3)
	s.disable = r.Chance(1, 3)
	var apply string
	if r.Chance(9, 20) {
		s.resp = &c01Resp{tp: "-", port: -1, ip: r.Chance(2, 5)}
		if r.Chance(3, 5) {
			s.resp.tp = c01HistTP(r, transport)
		}
		if r.Bool() {
			s.resp.port = []int{1, 22, 443, 1024 + r.Intn(64511)}[r.Intn(4)]
		}
		apply = "R"
		if s.resp.tp != "-" && !s.disable && r.Chance(1, 6) {
			apply = "X:" + s.resp.tp + ":0" // a client that applies the response through the checked API
		}
	}
	for i := 0; i < 2; i++ {
		if r.Chance(2, 5) {
			s.post = append(s.post, "S:"+c01HistArgs(r, transport))
		}
	}
	if apply != "" {
		at := r.Intn(len(s.post) + 1)
		s.post = append(s.post[:at], append([]string{apply}, s.post[at:]...)...)
	}
	return s
}

// hand-written shapes: every way the configuration and the session can part, per transport
func c01HistCorpus(transport string) [][]*c01Session {
	var out [][]*c01Session
	one := func(s *c01Session) { out = append(out, []*c01Session{s}) }
	var ps []string // parameter values of the transport
	switch transport {
	case "prefix":
		ps = []string{"p0,0", "p0,1", "p9,0", "p9,1", "p8,0", "p1,1"}
	case "dtls":
		ps = []string{"d0", "d1"}
	default:
		ps = []string{"g0", "g1"}
	}
	for _, a := range ps {
		for _, b := range ps {
			// re-configured for the next dial while the session is active
			one(&c01Session{pre: []string{"S:" + a, "P"}, post: []string{"S:" + b}})
			one(&c01Session{pre: []string{"S:" + a, "P"}, earlyD: true, post: []string{"S:" + b, "S:n"}})
			// session parameters set directly before registering
			one(&c01Session{pre: []string{"S:" + a, "P", "X:" + b + ":0"}})
			one(&c01Session{pre: []string{"S:" + a, "P", "X:" + b + ":1"}, resp: &c01Resp{tp: "-", port: 4321}, post: []string{"R"}})
			// the registrar answers with other parameters: allowed / disabled, dst_port present / absent, phantom present / absent
			for _, dis := range []bool{false, true} {
				for _, port := range []int{-1, 5555} {
					for _, ip := range []bool{false, true} {
						one(&c01Session{pre: []string{"S:" + a, "P"}, disable: dis, resp: &c01Resp{tp: b, port: port, ip: ip}, post: []string{"R"}})
					}
				}
				one(&c01Session{pre: []string{"S:" + a, "P"}, disable: dis, resp: &c01Resp{tp: b, port: -1}, post: []string{"R", "S:" + b}})
				one(&c01Session{pre: []string{"S:" + a, "P"}, disable: dis, resp: &c01Resp{tp: "-", port: -1}, post: []string{"S:" + b, "R"}})
			}
			one(&c01Session{pre: []string{"S:" + a, "P"}, resp: &c01Resp{tp: b, port: -1}, post: []string{"X:" + b + ":0"}})
			// the same object for the next dial: new configuration, then the old one again after an override
			out = append(out, []*c01Session{{pre: []string{"S:" + a, "P"}}, {pre: []string{"S:" + b, "P"}}})
			out = append(out, []*c01Session{{pre: []string{"S:" + a, "P"}, post: []string{"S:" + b}}, {pre: []string{"P"}}})
			out = append(out, []*c01Session{{pre: []string{"S:" + a, "P"}, resp: &c01Resp{tp: b, port: 2222}, post: []string{"R"}}, {pre: []string{"P"}}, {pre: []string{"S:n", "P"}}})
		}
		one(&c01Session{pre: []string{"S:" + a}})                                                  // never prepared
		one(&c01Session{pre: []string{"P", "S:" + a}})                                             // configured after Prepare
		one(&c01Session{pre: []string{"X:" + a + ":0"}})                                           // session parameters on a virgin object
		one(&c01Session{pre: []string{"S:" + a, "X:" + a + ":1"}})                                 //
		one(&c01Session{pre: []string{"P"}, resp: &c01Resp{tp: a, port: -1}, post: []string{"R"}}) // default configuration overridden
	}
	one(&c01Session{})
	one(&c01Session{pre: []string{"P"}})
	one(&c01Session{pre: []string{"S:n", "P"}, post: []string{"S:x"}})
	return out
}

func c01Histories(t *testing.T, out *vlib.Out, w *c01World, r *vlib.Rand) {
	transportsAll := []string{"min", "obfs4", "prefix", "dtls"}
	corpus := c01Corpus()
	// 1. the hand-written shapes on configurations whose subnets randomise the port (and one that does not)
	type place struct {
		cfg *c01Cfg
		gen uint
	}
	places := []place{{corpus[0], 2}, {corpus[1], 1}, {corpus[0], 1}}
	for _, tr := range transportsAll {
		for i, ss := range c01HistCorpus(tr) {
			pl := places[0]
			if i%5 == 3 {
				pl = places[1+r.Intn(2)]
			}
			ver := uint(4)
			if i%4 == 1 {
				ver = 3
			}
			h := &c01Hist{c01Case: c01Case{secret: r.Bytes(32), ver: ver, gen: pl.gen, v6: i%3 == 1, transport: tr, params: "-", cfg: pl.cfg}, sessions: ss}
			c01HistRun(t, out, w, h)
		}
	}
	// 2. random histories
	n := vlib.Budget(1500, 20000)
	for i := 0; i < n; i++ {
		tr := transportsAll[r.Intn(4)]
		var cfg *c01Cfg
		var gen uint
		if r.Chance(2, 3) {
			pl := places[r.Intn(len(places))]
			cfg, gen = pl.cfg, pl.gen
		} else {
			cfg = c01RandCfg(r)
			gen = 9
			if len(cfg.order) > 0 {
				gen = cfg.order[r.Intn(len(cfg.order))]
			}
		}
		ver := uint(3 + r.Intn(2))
		if r.Chance(1, 8) {
			ver = uint(r.Intn(3))
		}
		h := &c01Hist{c01Case: c01Case{secret: r.Bytes(32), ver: ver, gen: gen, v6: r.Bool(), transport: tr, params: "-", cfg: cfg}}
		k := 1
		if r.Chance(2, 5) {
			k = 2 + r.Intn(2)
		}
		for j := 0; j < k; j++ {
			h.sessions = append(h.sessions, c01RandSession(r, tr))
		}
		c01HistRun(t, out, w, h)
	}
}

func c01HistReplay(t *testing.T, out *vlib.Out, w *c01World, line string) {
	f := strings.Split(line, "|")
	if len(f) != 8 {
		t.Fatalf("bad replay line %q", line)
	}
	secret := []byte{}
	var err error
	if f[1] != "-" {
		if secret, err = hexDecode(f[1]); err != nil {
			t.Fatal(err)
		}
	}
	ver, _ := strconv.ParseUint(f[2], 10, 32)
	gen, _ := strconv.ParseUint(f[3], 10, 32)
	cfg, err := c01ParseCfg(f[7])
	if err != nil {
		t.Fatal(err)
	}
	h := &c01Hist{c01Case: c01Case{secret: secret, ver: uint(ver), gen: uint(gen), v6: f[4] == "1", transport: f[5], params: "-", cfg: cfg}}
	for _, st := range strings.Split(f[6], "/") {
		s, err := c01ParseSession(st)
		if err != nil {
			t.Fatal(err)
		}
		h.sessions = append(h.sessions, s)
	}
	fmt.Println("REPLAY history:", line)
	c01HistRun(t, out, w, h)
}

func hexDecode(s string) ([]byte, error) {
	b := make([]byte, len(s)/2)
	for i := range b {
		v, err := strconv.ParseUint(s[2*i:2*i+2], 16, 8)
		if err != nil {
			return nil, err
		}
		b[i] = byte(v)
	}
	return b, nil
}
