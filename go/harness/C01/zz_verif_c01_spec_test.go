//go:build verif

package lib

// The published derivation, written out once more in the harness with literal constants and nothing
// from the packages under test: key stream (salt, the 104 bytes drawn first by library versions before
// the key refactor), phantom selection of library versions >= 2 (HKDF info strings, ascending stable
// sort of the weighted sets, subtract-until-negative, address id over the subnets of the requested
// family in configuration order), destination port (ranges, default ports, first version with port
// randomisation, HKDF info string), connect tags (HMAC labels incl. their historical misspelling) and
// obfs4 node keys (32 + 20 bytes after the seed, clamping).
//
// Client and station of this repository share most of these declarations, so a change moves both ends
// together and strands every client already in the field; station == client cannot see that.  The
// oracle `…-not-published-derivation` compares the station with this text.  For library versions 0/1
// the frozen clients in internal/compatability are the reference for the address instead.

import (
	"bytes"
	"crypto/hmac"
	crand "crypto/rand"
	"crypto/sha256"
	"fmt"
	"io"
	"math/big"
	"net"
	"sort"
	"strconv"
	"strings"

	"github.com/refraction-networking/conjure/internal/vlib"
	"golang.org/x/crypto/curve25519"
	"golang.org/x/crypto/hkdf"
)

type c01SpecOut struct {
	seed    []byte
	addr    net.IP // nil: not specified here (versions 0/1, or the selection fails)
	rp      bool
	port    int // -1: not specified here
	ident   []byte
	hasID   bool
	whyNone string
}

// default ports of the published prefixes (prefix id -> port)
var c01SpecPrefixPorts = map[int]int{0: 443, 1: 80, 2: 80, 3: 80, 4: 443, 5: 443, 6: 443, 7: 443, 8: 53, 9: 22}

func c01SpecHMAC(key []byte, label string) []byte {
	h := hmac.New(sha256.New, key)
	h.Write([]byte(label))
	return h.Sum(nil)
}

// c01SpecRange: PortSelectorRange(min, max, seed); a failing rand.Int is answered with port 0 (sic)
func c01SpecRange(seed []byte, min, max int64) int {
	v, err := crand.Int(hkdf.New(sha256.New, seed, nil, []byte("phantom-select-dst-port")), big.NewInt(max-min))
	if err != nil {
		return 0
	}
	return int(uint16(v.Int64() + min))
}

// c01SpecPhantom: phantoms.SelectPhantom(seed, list, V4Only | V6Only, weighted) as published for library versions >= 2
func c01SpecPhantom(seed []byte, groups []c01Group, v6 bool) (ip net.IP, rp bool, why string) {
	var idx []int
	tot := int64(0)
	for i, g := range groups {
		if !g.nilSubs {
			idx = append(idx, i)
			tot += int64(g.weight)
		}
	}
	if tot <= 0 || len(groups) > 11 {
		return nil, false, "no weight"
	}
	sort.SliceStable(idx, func(a, b int) bool { return groups[idx[a]].weight < groups[idx[b]].weight })
	rnd, err := crand.Int(hkdf.New(sha256.New, seed, nil, []byte("phantom-select-subnet")), big.NewInt(tot))
	if err != nil {
		return nil, false, "entropy"
	}
	var pick *c01Group
	v := rnd.Int64()
	for _, i := range idx {
		v -= int64(groups[i].weight)
		if v < 0 {
			pick = &groups[i]
			break
		}
	}
	if pick == nil || len(pick.subnets) == 0 {
		return nil, false, "no subnets"
	}
	type idNet struct {
		min, size *big.Int
		base      *big.Int
		v4        bool
		hostBits  int
	}
	var nets []idNet
	total := big.NewInt(0)
	for _, s := range pick.subnets {
		_, n, err := net.ParseCIDR(s)
		if err != nil {
			return nil, false, "parse"
		}
		isV4 := n.IP.To4() != nil
		if isV4 == v6 {
			continue
		}
		ones, bits := n.Mask.Size()
		famBits := 128
		base := new(big.Int).SetBytes(n.IP.To16())
		if isV4 {
			famBits = 32
			base = new(big.Int).SetBytes(n.IP.To4())
		}
		size := big.NewInt(1) // 2^(negative) is 1 in the published code (IPv4 networks in IPv4-mapped notation)
		if famBits-ones >= 0 {
			size = new(big.Int).Lsh(big.NewInt(1), uint(famBits-ones))
		}
		nets = append(nets, idNet{min: new(big.Int).Set(total), size: size, base: base, v4: isV4, hostBits: bits - ones})
		total.Add(total, size)
	}
	if total.Sign() <= 0 {
		return nil, false, "no addresses"
	}
	id, err := crand.Int(hkdf.New(sha256.New, seed, nil, []byte("phantom-addr-id")), total)
	if err != nil {
		return nil, false, "entropy"
	}
	for _, n := range nets {
		end := new(big.Int).Add(n.min, n.size)
		if id.Cmp(n.min) >= 0 && id.Cmp(end) < 0 {
			off := new(big.Int).Sub(id, n.min)
			if off.Cmp(new(big.Int).Lsh(big.NewInt(1), uint(n.hostBits))) >= 0 {
				return nil, false, "offset"
			}
			a := new(big.Int).Add(n.base, off)
			l := 16
			if n.v4 {
				l = 4
			}
			if a.BitLen() > 8*l {
				return nil, false, "range"
			}
			return net.IP(a.FillBytes(make([]byte, l))), pick.rp, ""
		}
	}
	return nil, false, "no id net"
}

// c01Spec: what every released client of library version c.ver derives for this registration, given
// the transport parameters it sends (wireText as in the model lines: "-", g0/g1, p<id>,<0|1>, d0/d1).
func c01Spec(c *c01Case, wireText string) c01SpecOut {
	o := c01SpecOut{port: -1}
	seed, reader := c01SpecKeys(c.secret, c.ver)
	o.seed = seed
	if c.ver >= 2 {
		o.addr, o.rp, o.whyNone = c01SpecPhantom(seed, c.cfg.gens[c.gen], c.v6)
	}
	// port
	randomising := c.ver >= 3 && o.rp && c.ver >= 2 && o.addr != nil
	switch {
	case c.ver < 3:
		if c.transport != "prefix" {
			o.port = 443
		}
	case o.addr == nil:
	case !randomising:
		if c.transport != "prefix" || strings.HasPrefix(wireText, "p") {
			o.port = 443
		}
		if c.transport == "prefix" {
			if _, ok := c01SpecPrefixID(wireText); !ok {
				o.port = -1
			}
		}
	default:
		switch c.transport {
		case "min":
			o.port = 443
			if wireText == "g1" {
				o.port = c01SpecRange(seed, 1024, 65535)
			}
		case "obfs4":
			o.port = 443
			if wireText == "g1" {
				o.port = c01SpecRange(seed, 22, 65535)
			}
		case "dtls":
			o.port = 443
			if wireText == "d1" {
				o.port = c01SpecRange(seed, 1024, 65535)
			}
		case "prefix":
			if id, ok := c01SpecPrefixID(wireText); ok {
				o.port = c01SpecPrefixPorts[id]
				if strings.HasSuffix(wireText, ",1") {
					o.port = c01SpecRange(seed, 1024, 65535)
				}
			}
		}
	}
	// identifier
	switch c.transport {
	case "min":
		o.ident, o.hasID = c01SpecHMAC(c.secret, "MinTrasportHMACString"), true
	case "prefix":
		o.ident, o.hasID = c01SpecHMAC(c.secret, "PrefixTransportHMACString"), true
	case "obfs4":
		priv, node := make([]byte, 32), make([]byte, 20)
		if _, err := io.ReadFull(reader, priv); err != nil {
			break
		}
		priv[0] &= 248
		priv[31] &= 127
		priv[31] |= 64
		pub, err := curve25519.X25519(priv, curve25519.Basepoint)
		if err != nil {
			break
		}
		if _, err := io.ReadFull(reader, node); err != nil {
			break
		}
		o.ident, o.hasID = append(pub, node...), true
	}
	return o
}

// the prefix id of a `p<id>,<0|1>` parameter text, if it is a published prefix
func c01SpecPrefixID(wireText string) (int, bool) {
	if !strings.HasPrefix(wireText, "p") {
		return 0, false
	}
	f := strings.Split(wireText[1:], ",")
	id, err := strconv.Atoi(f[0])
	if err != nil {
		return 0, false
	}
	_, ok := c01SpecPrefixPorts[id]
	return id, ok
}

// c01CheckSpec compares the station's registration with the published derivation.
func c01CheckSpec(out *vlib.Out, c *c01Case, wireText string, st c01Side) {
	sp := c01Spec(c, wireText)
	out.Checked()
	out.Count("published-derivation:checked")
	switch {
	case !bytes.Equal(st.seed, sp.seed):
		c01Fail(out, "C01:seed-not-published-derivation", fmt.Sprintf("station seed %x, every released client of library version %d derives %x", st.seed, c.ver, sp.seed), c.replay())
	case sp.addr != nil && !bytes.Equal(st.addr, sp.addr):
		c01Fail(out, "C01:phantom-not-published-derivation", fmt.Sprintf("station phantom %v, every released client of library version %d derives %v", st.addr, c.ver, sp.addr), c.replay())
	case sp.port >= 0 && int(st.port) != sp.port:
		c01Fail(out, "C01:port-not-published-derivation", fmt.Sprintf("station port %d, every released client of library version %d dials %d (%s %s, subnet randomises: %v)", st.port, c.ver, sp.port, c.transport, wireText, sp.rp), c.replay())
	case sp.hasID && !bytes.Equal(st.ident, sp.ident):
		c01Fail(out, "C01:identifier-not-published-derivation", fmt.Sprintf("station identifier %x, every released client of library version %d presents %x (%s)", st.ident, c.ver, sp.ident, c.transport), c.replay())
	}
	if sp.addr == nil {
		out.Count("published-derivation:no-address:" + sp.whyNone)
	}
	if sp.port < 0 {
		out.Count("published-derivation:no-port")
	}
}
