//go:build verif

package lib

// Subnet strings (C01): every configured string reaches the selectors through net.ParseCIDR —
// phantoms.parseSubnet / parseSubnets on the station and in the current client, the frozen clients'
// parseSubnets for library versions 0/1.  The Lean model has the parser itself
// (CJ.Cidr.parseCIDRBytes: netip.ParseAddr, parseIPv4Fields, parseIPv6, dtoi, CIDRMask, IP.Mask) and
// proves the contract the selection theorems used to assume of it (CJ.Props.C01Cidr).  Here the real
// functions of the repository and the model run on the same strings:
//
//	cidr|<hex>                 one string through phantoms.parseSubnet, in the notation the derive|… lines use
//	cidrgroup|<rp>|<hex>,…     a weighted set through phantoms.parseSubnets
//
// Oracle (independent of the model): the published derivation reads a subnet with net.ParseCIDR, so the
// three parsers of the repository must accept exactly what it accepts and return its network
// (C01:subnet-not-published-parse:<who>), and what they return must satisfy the contract
// (C01:subnet-contract).  Replay lines: C01CIDR|<hex>, C01CIDRG|<rp>|<hex>,….

import (
	"encoding/hex"
	"fmt"
	"math/big"
	"net"
	"strings"
	"testing"

	v0 "github.com/refraction-networking/conjure/internal/compatability/v0"
	v1 "github.com/refraction-networking/conjure/internal/compatability/v1"
	"github.com/refraction-networking/conjure/internal/vlib"
	"github.com/refraction-networking/conjure/pkg/phantoms"
	pb "github.com/refraction-networking/conjure/proto"
)

// the model's notation of a parsed network ("x": refused); ok = the contract holds
func c01NetText(n *net.IPNet, err error) (string, bool) {
	if err != nil || n == nil {
		return "x", true
	}
	ones, bits := n.Mask.Size()
	if len(n.IP) != 4 && len(n.IP) != 16 || len(n.Mask) != len(n.IP) || (ones == 0 && bits == 0) {
		return fmt.Sprintf("malformed(%v)", n), false
	}
	isV4 := n.IP.To4() != nil
	var base big.Int
	if isV4 {
		base.SetBytes(n.IP.To4())
	} else {
		base.SetBytes(n.IP.To16())
	}
	var m big.Int
	m.Mod(&base, new(big.Int).Lsh(big.NewInt(1), uint(bits-ones)))
	ok := (bits == 32 || bits == 128) && ones <= bits && m.Sign() == 0 && (!isV4 || bits == 32 || ones >= 96) && (isV4 || bits == 128)
	f := "6"
	if isV4 {
		f = "4"
	}
	return fmt.Sprintf("%s.%s.%d.%d", f, base.String(), ones, bits), ok
}

func c01CidrOne(out *vlib.Out, s, class string) {
	replay := "C01CIDR|" + vlib.Hex([]byte(s))
	_, gtn, gte := net.ParseCIDR(s)
	want, _ := c01NetText(gtn, gte)

	n, err := phantoms.VerifC01ParseSubnet(s)
	got, ok := c01NetText(n, err)
	out.Checked()
	if !ok {
		c01Fail(out, "C01:subnet-contract", fmt.Sprintf("parseSubnet(%q) = %s: not a masked network of one family", s, got), replay)
	}
	if got != want {
		c01Fail(out, "C01:subnet-not-published-parse:station", fmt.Sprintf("parseSubnet(%q) = %s; the published derivation (net.ParseCIDR) reads %s", s, got, want), replay)
	}
	for _, fc := range []struct {
		who string
		f   func([]string) ([]*net.IPNet, error)
	}{{"v0", v0.VerifC01ParseSubnets}, {"v1", v1.VerifC01ParseSubnets}} {
		l, err := fc.f([]string{s})
		var one *net.IPNet
		if err == nil && len(l) == 1 {
			one = l[0]
		} else if err == nil {
			err = fmt.Errorf("%d networks", len(l))
		}
		g, _ := c01NetText(one, err)
		out.Checked()
		if g != want {
			c01Fail(out, "C01:subnet-not-published-parse:"+fc.who, fmt.Sprintf("the frozen client's parseSubnets([%q]) = %s; the published derivation (net.ParseCIDR) reads %s", s, g, want), replay)
		}
	}
	out.Case("cidr|"+vlib.Hex([]byte(s)), got, got != "x")
	out.Count("cidr:class:" + class)
	switch {
	case got == "x":
		out.Count("cidr:refused")
	case strings.HasPrefix(got, "4.") && strings.HasSuffix(got, ".128"):
		out.Count("cidr:accepted:mapped")
	case strings.HasPrefix(got, "4."):
		out.Count("cidr:accepted:v4")
	default:
		out.Count("cidr:accepted:v6")
	}
}

func c01CidrGroup(out *vlib.Out, rp bool, strs []string) {
	hx := make([]string, len(strs))
	for i, s := range strs {
		hx[i] = vlib.Hex([]byte(s))
	}
	arg := "none"
	if len(strs) > 0 {
		arg = strings.Join(hx, ",")
	}
	replay := fmt.Sprintf("C01CIDRG|%s|%s", vlib.B(rp), arg)
	// ground truth: entry by entry with net.ParseCIDR, the set's flag on every network
	want := ""
	if len(strs) == 0 {
		want = "err empty"
	} else {
		var parts []string
		for _, s := range strs {
			_, n, err := net.ParseCIDR(s)
			txt, _ := c01NetText(n, err)
			if txt == "x" {
				parts = nil
				want = "err parse"
				break
			}
			parts = append(parts, txt+":"+vlib.B(rp))
		}
		if parts != nil {
			want = strings.Join(parts, ";")
		}
	}
	g := &pb.PhantomSubnets{Subnets: strs, RandomizeDstPort: &rp}
	nets, flags, err := phantoms.VerifC01ParseSubnets(g)
	got := ""
	switch {
	case err != nil && len(strs) == 0:
		got = "err empty"
	case err != nil:
		got = "err parse"
	default:
		var parts []string
		for i, n := range nets {
			txt, ok := c01NetText(n, nil)
			if !ok {
				c01Fail(out, "C01:subnet-contract", fmt.Sprintf("parseSubnets(%q)[%d] = %s", strs, i, txt), replay)
			}
			parts = append(parts, txt+":"+vlib.B(flags[i]))
		}
		got = strings.Join(parts, ";")
	}
	out.Checked()
	if got != want {
		c01Fail(out, "C01:subnet-not-published-parse:set", fmt.Sprintf("parseSubnets(%q, randomize %v) = %s; entry by entry the published derivation reads %s", strs, rp, got, want), replay)
	}
	// the frozen clients read the same set (they know no flags)
	for _, fc := range []struct {
		who string
		f   func([]string) ([]*net.IPNet, error)
	}{{"v0", v0.VerifC01ParseSubnets}, {"v1", v1.VerifC01ParseSubnets}} {
		l, ferr := fc.f(strs)
		g := ""
		switch {
		case ferr != nil && len(strs) == 0:
			g = "err empty"
		case ferr != nil:
			g = "err parse"
		default:
			var parts []string
			for _, n := range l {
				txt, _ := c01NetText(n, nil)
				parts = append(parts, txt+":"+vlib.B(rp))
			}
			g = strings.Join(parts, ";")
		}
		out.Checked()
		if g != want {
			c01Fail(out, "C01:subnet-not-published-parse:set-"+fc.who, fmt.Sprintf("the frozen client's parseSubnets(%q) = %s; entry by entry the published derivation reads %s", strs, g, want), replay)
		}
	}
	out.Case(fmt.Sprintf("cidrgroup|%s|%s", vlib.B(rp), arg), got, err == nil)
	out.Count(fmt.Sprintf("cidrgroup:entries:%d", len(strs)))
}

var c01CidrCorpus = []string{
	// canonical
	"192.122.190.0/24", "10.0.0.7/32", "0.0.0.0/0", "255.255.255.255/32", "128.0.0.0/1", "0.1.2.0/24", "2001:48a8:687f:1::/64", "::/0",
	"::/128", "::1/128", "ffff:ffff:ffff:ffff:ffff:ffff:ffff:ffff/128", "8000::/1", "64:ff9b::/96", "fe80::/10",
	// host bits set: the network is the masked address
	"10.1.2.3/16", "255.255.255.255/0", "2001:db8::1/32", "ffff:ffff:ffff:ffff:ffff:ffff:ffff:ffff/1", "1.2.3.4/31", "1.2.3.4/1",
	// other notations of the same networks
	"2001:DB8::/32", "2001:0db8:0000:0000:0000:0000:0000:0000/32", "2001:db8:0:0:0:0:0:0/32", "2001:db8::0:0/32", "0:0:0:0:0:0:0:0/0",
	"0::0/0", "1::/16", "::1:0:0:0:0:0:0/32", "1:2:3:4:5:6:7::/112", "::2:3:4:5:6:7:8/112", "1:2:3:4:5:6:7:8/128", "10.0.0.0/08", "10.0.0.0/008",
	// embedded IPv4 and the IPv4-mapped prefix: To4() succeeds on an IPv6 literal
	"::ffff:10.0.0.0/104", "::ffff:a00:0/104", "::ffff:10.1.2.3/128", "::ffff:10.1.2.3/96", "::ffff:10.1.2.3/95", "::ffff:10.1.2.3/80", "::ffff:10.1.2.3/0",
	"0:0:0:0:0:ffff:192.0.2.0/120", "::fffe:10.0.0.0/104", "64:ff9b::192.0.2.0/120", "::10.0.0.0/104", "1:2:3:4:5:6:1.2.3.4/128", "::1.2.3.4/127",
	"0:0:0:0:0:FFFF:C000:0200/121", "::ffff:0.0.0.0/96", "::ffff:255.255.255.255/97",
	// refused
	"", "/", "/24", "10.0.0.0", "10.0.0.0/", "10.0.0.0/33", "10.0.0.0/-1", "10.0.0.0/+8", "10.0.0.0/ 8", " 10.0.0.0/8", "10.0.0.0/8 ", "10.0.0.0/8\n",
	"10.0.0.0/8/8", "10.0.0.0//8", "10.0.0/8", "10.0.0.0.0/8", "10..0.0/8", ".10.0.0.0/8", "10.0.0.0./8", "256.0.0.0/8", "010.0.0.0/8", "10.00.0.0/8", "10.0.0.0x/8",
	"1e1.0.0.0/8", "0x10.0.0.0/8", "10.0.0.0/1e1", "10.0.0.0/16777215", "10.0.0.0/99999999999999999999", "10,0,0,0/8", "bogus/24", "localhost/8", "1234/8", "::/129",
	":::/64", "::1::/64", "1:2:3:4:5:6:7/64", "1:2:3:4:5:6:7:8:9/64", "1:2:3:4:5:6:7:8::/64", "::1:2:3:4:5:6:7:8/64", "1:2:3:4:5:6:7::8/64", "12345::/16", "00001::/16", "g::/16",
	"1:/16", ":1/16", "1::2:/16", "::1%eth0/128", "::1%/128", "fe80::1%25eth0/64", "%/8", "10.0.0.0%1/8", "1:2:3:4:5:1.2.3.4/128", "1:2:3:4:5:6:7:1.2.3.4/128", "::1.2.3/120",
	"::1.2.3.4.5/120", "::01.2.3.4/120", "::1.2.3.256/120", "1.2.3.4::/120", "::ffff:10.0.0.0/129", "2001:db8::/٣٢", "２００１::/16", "2001:db8::/32\x00", "\xff\xfe/8", "1.2.3.4/3２",
}

const c01CidrAlphabet = "0123456789abcdefABCDEF.:/% -+xg"

func c01CidrV6Text(r *vlib.Rand, b []byte) string {
	g := make([]uint16, 8)
	for i := range g {
		g[i] = uint16(b[2*i])<<8 | uint16(b[2*i+1])
	}
	grp := func(x uint16) string {
		switch r.Intn(4) {
		case 0:
			return fmt.Sprintf("%04x", x)
		case 1:
			return fmt.Sprintf("%X", x)
		default:
			return fmt.Sprintf("%x", x)
		}
	}
	switch r.Intn(5) {
	case 0:
		return net.IP(b).String()
	case 1: // all eight groups
		p := make([]string, 8)
		for i := range p {
			p[i] = grp(g[i])
		}
		return strings.Join(p, ":")
	case 2: // trailing IPv4
		p := make([]string, 6)
		for i := range p {
			p[i] = grp(g[i])
		}
		return strings.Join(p, ":") + ":" + net.IP(b[12:]).String()
	default: // an ellipsis over a run of zero groups (of any length ≥ 1, anywhere), optionally an IPv4 tail
		lo := r.Intn(8)
		hi := lo
		for hi < 8 && g[hi] == 0 {
			hi++
		}
		if hi == lo {
			return net.IP(b).String()
		}
		hi = lo + 1 + r.Intn(hi-lo)
		var pre, post []string
		for i := 0; i < lo; i++ {
			pre = append(pre, grp(g[i]))
		}
		tail := hi <= 6 && r.Bool()
		end := 8
		if tail {
			end = 6
		}
		for i := hi; i < end; i++ {
			post = append(post, grp(g[i]))
		}
		if tail {
			post = append(post, net.IP(b[12:]).String())
		}
		return strings.Join(pre, ":") + "::" + strings.Join(post, ":")
	}
}

// a mostly valid subnet string
func c01CidrGen(r *vlib.Rand) (string, string) {
	switch r.Intn(10) {
	case 0, 1, 2:
		b := r.Bytes(4)
		if r.Chance(1, 4) {
			b[r.Intn(4)] = 0
		}
		n := r.Intn(33)
		if r.Chance(1, 2) {
			b = net.IP(b).Mask(net.CIDRMask(n, 32))
		}
		return fmt.Sprintf("%s/%d", net.IP(b).String(), n), "v4"
	case 3, 4, 5, 6:
		b := r.Bytes(16)
		for i := 0; i < 8; i++ {
			if r.Chance(1, 3) {
				b[2*i], b[2*i+1] = 0, 0
			}
			if r.Chance(1, 6) {
				b[2*i] = 0
			}
		}
		n := r.Intn(129)
		if r.Chance(1, 2) {
			b = net.IP(b).Mask(net.CIDRMask(n, 128))
		}
		return fmt.Sprintf("%s/%d", c01CidrV6Text(r, b), n), "v6"
	case 7: // IPv4-mapped and neighbours of the mapped prefix
		b := make([]byte, 16)
		copy(b[12:], r.Bytes(4))
		b[10], b[11] = 0xff, 0xff
		if r.Chance(1, 5) {
			b[10+r.Intn(2)] ^= 1 << uint(r.Intn(8))
		}
		if r.Chance(1, 8) {
			b[r.Intn(10)] = 1
		}
		n := 70 + r.Intn(59)
		txt := c01CidrV6Text(r, b)
		if r.Bool() {
			txt = "::ffff:" + net.IP(b[12:]).String()
		}
		return fmt.Sprintf("%s/%d", txt, n), "mapped"
	case 8: // prefix length written unusually / out of range
		s, _ := c01CidrGen(r)
		a := s
		if i := strings.LastIndexByte(s, '/'); i >= 0 {
			a = s[:i]
		}
		return a + "/" + []string{"0", "00", "032", "33", "128", "129", "16777214", "16777215", "", "-0", "1 ", "1/1"}[r.Intn(12)], "odd-length"
	default:
		s, _ := c01CidrGen(r)
		b := []byte(s)
		for k := 1 + r.Intn(2); k > 0 && len(b) > 0; k-- {
			i := r.Intn(len(b))
			c := c01CidrAlphabet[r.Intn(len(c01CidrAlphabet))]
			switch r.Intn(5) {
			case 0:
				b[i] = c
			case 1:
				b = append(b[:i], append([]byte{c}, b[i:]...)...)
			case 2:
				b = append(b[:i], b[i+1:]...)
			case 3:
				b = append(b[:i], append([]byte{b[i]}, b[i:]...)...)
			default:
				b = b[:i]
			}
		}
		return string(b), "mutated"
	}
}

func c01Cidr(t testing.TB, out *vlib.Out, r *vlib.Rand) {
	for _, s := range c01CidrCorpus {
		c01CidrOne(out, s, "corpus")
	}
	// every prefix length of both families, with all host bits set
	for n := 0; n <= 32; n++ {
		c01CidrOne(out, fmt.Sprintf("255.255.255.255/%d", n), "sweep")
		c01CidrOne(out, fmt.Sprintf("::ffff:255.255.255.255/%d", 96+n), "sweep")
	}
	for n := 0; n <= 128; n++ {
		c01CidrOne(out, fmt.Sprintf("ffff:ffff:ffff:ffff:ffff:ffff:ffff:ffff/%d", n), "sweep")
		c01CidrOne(out, fmt.Sprintf("::ffff:255.255.255.255/%d", n), "sweep")
	}
	n := vlib.Budget(12000, 120000)
	for i := 0; i < n; i++ {
		s, class := c01CidrGen(r)
		c01CidrOne(out, s, class)
	}
	// malformed stream: short strings over the alphabet of the notation, raw bytes
	for i := 0; i < n/6; i++ {
		b := make([]byte, r.Intn(20))
		for j := range b {
			b[j] = c01CidrAlphabet[r.Intn(len(c01CidrAlphabet))]
		}
		c01CidrOne(out, string(b), "alphabet")
		if i%8 == 0 {
			c01CidrOne(out, string(r.Bytes(r.Intn(12)))+"/8", "bytes")
		}
	}
	// weighted sets
	c01CidrGroup(out, false, nil)
	c01CidrGroup(out, true, []string{})
	c01CidrGroup(out, true, []string{"10.0.0.0/8", "::ffff:10.0.0.0/104", "2001:db8::/32"})
	c01CidrGroup(out, false, []string{"10.0.0.0/8", "10.0.0.0", "2001:db8::/32"})
	c01CidrGroup(out, false, []string{""})
	for i := 0; i < n/8; i++ {
		k := r.Intn(5)
		strs := make([]string, k)
		for j := range strs {
			strs[j], _ = c01CidrGen(r)
			if r.Chance(3, 4) {
				for strings.ContainsAny(strs[j], " %+xg-") || !strings.Contains(strs[j], "/") {
					strs[j], _ = c01CidrGen(r)
				}
			}
		}
		c01CidrGroup(out, r.Bool(), strs)
	}
}

func c01CidrReplay(t testing.TB, out *vlib.Out, line string) {
	f := strings.Split(line, "|")
	dec := func(h string) string {
		if h == "-" {
			return ""
		}
		b, err := hex.DecodeString(h)
		if err != nil {
			t.Fatalf("bad replay line %q: %v", line, err)
		}
		return string(b)
	}
	switch {
	case f[0] == "C01CIDR" && len(f) == 2:
		s := dec(f[1])
		c01CidrOne(out, s, "replay")
		_, gt, gte := net.ParseCIDR(s)
		n, err := phantoms.VerifC01ParseSubnet(s)
		fmt.Printf("REPLAY subnet %q: parseSubnet = %v, %v; net.ParseCIDR = %v, %v\n", s, n, err, gt, gte)
	case f[0] == "C01CIDRG" && len(f) == 3:
		var strs []string
		if f[2] != "none" {
			for _, h := range strings.Split(f[2], ",") {
				strs = append(strs, dec(h))
			}
		}
		c01CidrGroup(out, f[1] == "1", strs)
		fmt.Printf("REPLAY weighted set %q randomize=%s\n", strs, f[1])
	default:
		t.Fatalf("bad replay line %q", line)
	}
}
