//go:build verif

package lib

// Correspondence + property oracle for C01 (client and station derive the same phantom address, port
// and transport secrets).  White-box in package lib of the scratch copy.
//
// Station path: the real NewRegistrationC2SWrapper on a C2SWrapper (GenSharedKeys → Select →
// ParseParams → getPhantomDstPort → GetIdentifier).  Client path: core.GenerateClientSharedKeys (for
// freshly exchanged secrets), phantoms.SelectPhantom, the ClientTransports' SetParams / Prepare /
// GetParams / GetDstPort / PrepareKeys / WrapConn; for library versions 0/1 the frozen clients in
// internal/compatability.  Both sides are also compared with the Lean driver, which computes the
// published derivation with its own SHA-256 / HMAC / HKDF (`derive|…` lines).

import (
	"bytes"
	"context"
	"crypto/hmac"
	"crypto/rand"
	"crypto/sha256"
	"encoding/binary"
	"encoding/hex"
	"errors"
	"fmt"
	"io"
	golog "log"
	"math/big"
	mrand "math/rand"
	"net"
	"os"
	"sort"
	"strconv"
	"strings"
	"sync"
	"testing"
	"time"

	v0 "github.com/refraction-networking/conjure/internal/compatability/v0"
	v1 "github.com/refraction-networking/conjure/internal/compatability/v1"
	"github.com/refraction-networking/conjure/internal/vlib"
	"github.com/refraction-networking/conjure/pkg/core"
	"github.com/refraction-networking/conjure/pkg/core/interfaces"
	cjdtls "github.com/refraction-networking/conjure/pkg/dtls"
	"github.com/refraction-networking/conjure/pkg/phantoms"
	"github.com/refraction-networking/conjure/pkg/station/log"
	"github.com/refraction-networking/conjure/pkg/transports"
	"github.com/refraction-networking/conjure/pkg/transports/connecting/dtls"
	"github.com/refraction-networking/conjure/pkg/transports/wrapping/min"
	"github.com/refraction-networking/conjure/pkg/transports/wrapping/obfs4"
	"github.com/refraction-networking/conjure/pkg/transports/wrapping/prefix"
	pb "github.com/refraction-networking/conjure/proto"
	"golang.org/x/crypto/curve25519"
	"golang.org/x/crypto/hkdf"
	"google.golang.org/protobuf/proto"
	"google.golang.org/protobuf/types/known/anypb"
)

// ------------------------------------------------------------------------------------------------
// subnet configurations

type c01Group struct {
	weight  uint32
	rp      bool
	nilSubs bool
	subnets []string
}

type c01Cfg struct {
	order []uint
	gens  map[uint][]c01Group
}

func c01PbGroups(gs []c01Group) []*pb.PhantomSubnets {
	out := make([]*pb.PhantomSubnets, 0, len(gs))
	for _, gr := range gs {
		w, rp := gr.weight, gr.rp
		ps := &pb.PhantomSubnets{Weight: &w, RandomizeDstPort: &rp}
		if !gr.nilSubs {
			ps.Subnets = append([]string{}, gr.subnets...)
		}
		out = append(out, ps)
	}
	return out
}

func (c *c01Cfg) selector() *phantoms.PhantomIPSelector {
	sel := &phantoms.PhantomIPSelector{Networks: map[uint]*phantoms.SubnetConfig{}}
	for _, g := range c.order {
		sel.Networks[g] = &phantoms.SubnetConfig{WeightedSubnets: c01PbGroups(c.gens[g])}
	}
	return sel
}

func c01GroupsText(gs []c01Group, sep string, netf func(string) string) string {
	if len(gs) == 0 {
		return "E"
	}
	var grs []string
	for _, gr := range gs {
		subs := "-"
		if len(gr.subnets) > 0 {
			var ns []string
			for _, s := range gr.subnets {
				ns = append(ns, netf(s))
			}
			subs = strings.Join(ns, "+")
		}
		grs = append(grs, fmt.Sprintf("%d,%s,%s,%s", gr.weight, vlib.B(gr.rp), vlib.B(gr.nilSubs), subs))
	}
	return strings.Join(grs, sep)
}

func (c *c01Cfg) text() string {
	var gs []string
	for _, g := range c.order {
		gs = append(gs, fmt.Sprintf("%d=%s", g, c01GroupsText(c.gens[g], "!", func(s string) string { return s })))
	}
	if len(gs) == 0 {
		return "-"
	}
	return strings.Join(gs, ";")
}

func (c *c01Cfg) modelText(t testing.TB, only int) string {
	var gs []string
	for _, g := range c.order {
		if only >= 0 && uint(only) != g {
			continue
		}
		gs = append(gs, fmt.Sprintf("%d=%s", g, c01GroupsText(c.gens[g], "/", func(s string) string { return c01ModelNet(t, s) })))
	}
	if len(gs) == 0 {
		return "-"
	}
	return strings.Join(gs, ";")
}

func c01ParseCfg(s string) (*c01Cfg, error) {
	c := &c01Cfg{gens: map[uint][]c01Group{}}
	if s == "-" {
		return c, nil
	}
	for _, g := range strings.Split(s, ";") {
		kv := strings.SplitN(g, "=", 2)
		if len(kv) != 2 {
			return nil, fmt.Errorf("bad generation %q", g)
		}
		n, err := strconv.ParseUint(kv[0], 10, 32)
		if err != nil {
			return nil, err
		}
		var groups []c01Group
		if kv[1] != "E" {
			for _, grs := range strings.Split(kv[1], "!") {
				f := strings.SplitN(grs, ",", 4)
				if len(f) != 4 {
					return nil, fmt.Errorf("bad group %q", grs)
				}
				w, err := strconv.ParseUint(f[0], 10, 32)
				if err != nil {
					return nil, err
				}
				gr := c01Group{weight: uint32(w), rp: f[1] == "1", nilSubs: f[2] == "1"}
				if f[3] != "-" {
					gr.subnets = strings.Split(f[3], "+")
				}
				groups = append(groups, gr)
			}
		}
		c.order = append(c.order, uint(n))
		c.gens[uint(n)] = groups
	}
	return c, nil
}

// what net.ParseCIDR returns, in the model's notation; the contract assumed of it is checked
func c01ModelNet(t testing.TB, s string) string {
	_, n, err := net.ParseCIDR(s)
	if err != nil || n == nil {
		return "x"
	}
	isV4 := n.IP.To4() != nil
	var base big.Int
	if isV4 {
		base.SetBytes(n.IP.To4())
	} else {
		base.SetBytes(n.IP.To16())
	}
	ones, bits := n.Mask.Size()
	var m big.Int
	m.Mod(&base, new(big.Int).Lsh(big.NewInt(1), uint(bits-ones)))
	if !((bits == 32 || bits == 128) && ones <= bits && m.Sign() == 0 && (!isV4 || bits == 32 || ones >= 96) && (isV4 || bits == 128)) {
		t.Fatalf("net.ParseCIDR(%q) = %v violates the contract assumed by the model", s, n)
	}
	f := "6"
	if isV4 {
		f = "4"
	}
	return fmt.Sprintf("%s.%s.%d.%d", f, base.String(), ones, bits)
}

// first draws of the real math/rand generator after seeding with Varint(seed)
func c01Draws(seed []byte, gs []c01Group) string {
	seedInt, n := binary.Varint(seed)
	if n == 0 {
		return "-"
	}
	seen := map[int]bool{}
	all, nonNil := 0, 0
	for _, g := range gs {
		all += int(g.weight)
		if !g.nilSubs {
			nonNil += int(g.weight)
		}
	}
	var pairs []string
	for _, m := range []int{all, nonNil} {
		if m > 0 && !seen[m] {
			seen[m] = true
			pairs = append(pairs, fmt.Sprintf("%d:%d", m, mrand.New(mrand.NewSource(seedInt)).Intn(m)))
		}
	}
	r4, r16 := make([]byte, 4), make([]byte, 16)
	mrand.New(mrand.NewSource(seedInt)).Read(r4)
	mrand.New(mrand.NewSource(seedInt)).Read(r16)
	return fmt.Sprintf("%d;%s;%s;%s", seedInt, strings.Join(pairs, ","), hex.EncodeToString(r4), hex.EncodeToString(r16))
}

// ------------------------------------------------------------------------------------------------
// cases

type c01Case struct {
	secret    []byte
	ver       uint
	gen       uint
	v6        bool
	transport string // min | obfs4 | prefix | dtls | unknown
	params    string // "-" absent, "n" SetParams(nil), g0/g1, p<id>,<0|1>, d0/d1
	cfg       *c01Cfg
	// when the secret came out of the real client key exchange:
	clientKeys *core.SharedKeys
}

func (c *c01Case) replay() string {
	return fmt.Sprintf("C01CASE|%s|%d|%d|%s|%s|%s|%s", vlib.Hex(c.secret), c.ver, c.gen, vlib.B(c.v6), c.transport, c.params, c.cfg.text())
}

var c01TransportType = map[string]pb.TransportType{
	"min": pb.TransportType_Min, "obfs4": pb.TransportType_Obfs4, "prefix": pb.TransportType_Prefix,
	"dtls": pb.TransportType_DTLS, "unknown": pb.TransportType_Webrtc,
}

type c01World struct {
	rm      *RegistrationManager
	privkey [32]byte
	pubkey  [32]byte
}

func newC01World(t testing.TB) *c01World {
	os.Setenv("PHANTOM_SUBNET_LOCATION", "./test/phantom_subnets.toml")
	w := &c01World{}
	vlib.NewRand("C01-station-key").Read(w.privkey[:])
	pub, err := curve25519.X25519(w.privkey[:], curve25519.Basepoint)
	if err != nil {
		t.Fatal(err)
	}
	copy(w.pubkey[:], pub)
	rm := NewRegistrationManager(&RegConfig{})
	if rm == nil {
		t.Fatal("no registration manager")
	}
	rm.Logger = log.New(io.Discard, "", golog.Ldate)
	pt, err := prefix.Default([][32]byte{w.privkey})
	if err != nil {
		t.Fatal(err)
	}
	for tt, tr := range map[pb.TransportType]Transport{
		pb.TransportType_Min: min.Transport{}, pb.TransportType_Obfs4: obfs4.Transport{},
		pb.TransportType_Prefix: pt, pb.TransportType_DTLS: &dtls.Transport{},
	} {
		if err := rm.AddTransport(tt, tr); err != nil {
			t.Fatal(err)
		}
	}
	w.rm = rm
	return w
}

// the client's parameter object for SetParams, nil for "n" and "-"
func c01ClientParams(c *c01Case) any {
	switch {
	case c.params == "-" || c.params == "n":
		return nil
	case c.params[0] == 'g':
		return &pb.GenericTransportParams{RandomizeDstPort: proto.Bool(c.params[1] == '1')}
	case c.params[0] == 'd':
		return &pb.DTLSTransportParams{RandomizeDstPort: proto.Bool(c.params[1] == '1')}
	case c.params[0] == 'p':
		f := strings.Split(c.params[1:], ",")
		id, _ := strconv.Atoi(f[0])
		return &pb.PrefixTransportParams{PrefixId: proto.Int32(int32(id)), RandomizeDstPort: proto.Bool(f[1] == "1")}
	}
	panic("bad params " + c.params)
}

// c01ClientSide holds what the client derives (or why it cannot)
type c01Side struct {
	kind  string // ok | errKeys | errAddr | errPort | errIdent | panic
	err   string
	seed  []byte
	addr  net.IP
	port  uint16
	ident []byte
	rp    bool
	wire  proto.Message // what the client puts into transport_params (nil: field absent)
	// model notation of the parameters the client sends ("-" when it sends none)
	wireText string
	// obfs4: clamped private key ‖ node id (the model treats X25519 as a parameter)
	modelIdent []byte
	// dtls: the pre-shared key this side hands to the DTLS handshake
	psk []byte
}

func (s c01Side) String() string {
	if s.kind == "ok" {
		return fmt.Sprintf("ok %s %s %d %s", vlib.Hex(s.seed), vlib.Hex(s.addr), s.port, vlib.Hex(s.ident))
	}
	if s.kind == "panic" {
		return "panic"
	}
	return s.kind + " " + s.err
}

// the published key derivation of a client of library version ver (harness-side, x/crypto/hkdf):
// versions before the key refactor drew 104 bytes of registrar keys before the seed.
func c01SpecKeys(secret []byte, ver uint) ([]byte, io.Reader) {
	r := hkdf.New(sha256.New, secret, []byte("conjureconjureconjureconjure"), nil)
	if ver < 4 {
		io.ReadFull(r, make([]byte, 16+12+16+12+48))
	}
	seed := make([]byte, 16)
	io.ReadFull(r, seed)
	return seed, r
}

type c01CaptureConn struct {
	net.Conn
	buf bytes.Buffer
}

func (c *c01CaptureConn) Write(b []byte) (int, error) { return c.buf.Write(b) }
func (c *c01CaptureConn) Read(b []byte) (int, error)  { return 0, io.EOF }
func (c *c01CaptureConn) Close() error                { return nil }
func (c *c01CaptureConn) SetDeadline(time.Time) error { return nil }

func c01PortErr(err error) string {
	s := err.Error()
	switch {
	case strings.Contains(s, "unknown transport"):
		return "unknownTransport"
	case strings.Contains(s, "client couldn't support this transport"):
		return "notSupported"
	case errors.Is(err, prefix.ErrUnknownPrefix), strings.Contains(s, "unknown / unsupported prefix"):
		return "unknownPrefix"
	case errors.Is(err, prefix.ErrBadParams), strings.Contains(s, "bad parameters provided"):
		return "badParams"
	}
	return "other:" + s
}

func c01AddrErr(err error) string {
	s := err.Error()
	switch {
	case errors.Is(err, phantoms.ErrLegacyV0SelectionBug), errors.Is(err, v0.ErrorV0SelectionBug):
		return "v0Bug"
	case errors.Is(err, phantoms.ErrMissingAddrs):
		return "noAddrs"
	case errors.Is(err, phantoms.ErrLegacyMissingAddrs):
		return "v0NoAddrs"
	case errors.Is(err, phantoms.ErrLegacyAddrSelectBug):
		return "legacyNoAddrs"
	case strings.Contains(s, "generation number not recognized"):
		return "unknownGen"
	case strings.Contains(s, "failed to seed random for weighted rand"):
		return "varint"
	case strings.Contains(s, "zero Choices with Weight"):
		return "noChoices"
	case strings.Contains(s, "no subnets provided"):
		return "emptyGroup"
	case strings.Contains(s, "invalid CIDR address"):
		return "parse"
	case strings.Contains(s, "entropy limit"):
		return "entropy"
	case strings.Contains(s, "No valid addresses specified"):
		return "v0NoAddrs"
	case strings.Contains(s, "no valid addresses specified"):
		return "legacyNoAddrs"
	case strings.Contains(s, "nil result should not be possible"):
		return "nilResult"
	case strings.Contains(s, "failed to create seed"), strings.Contains(s, "hose IP address"):
		return "seedFail"
	case strings.Contains(s, "out of range for its IP version"):
		return "addrRange"
	case strings.Contains(s, "weight"):
		return "zeroWeight"
	}
	return "other:" + s
}

// c01Client runs the client side of a registration.
func c01Client(w *c01World, c *c01Case) (s c01Side) {
	defer func() {
		if p := recover(); p != nil {
			s = c01Side{kind: "panic", err: fmt.Sprint(p), wireText: s.wireText}
		}
	}()
	s.wireText = "-"
	var reader io.Reader
	if c.clientKeys != nil && c.ver >= 4 {
		s.seed, reader = c.clientKeys.ConjureSeed, c.clientKeys.Reader
	} else {
		s.seed, reader = c01SpecKeys(c.secret, c.ver)
	}
	groups := c.cfg.gens[c.gen]
	list := &pb.PhantomSubnetsList{WeightedSubnets: c01PbGroups(groups)}
	// transport parameters first: they go into the registration whatever the phantom is
	var ct interfaces.Transport
	switch c.transport {
	case "min":
		ct = &min.ClientTransport{}
	case "obfs4":
		ct = &obfs4.ClientTransport{}
	case "prefix":
		ct = &prefix.ClientTransport{}
	case "dtls":
		ct = &dtls.ClientTransport{}
	default:
		ct = &min.ClientTransport{} // a transport the station has not enabled; the client side is irrelevant
	}
	if pt, ok := ct.(*prefix.ClientTransport); ok && c.params == "-" {
		// a prefix client that was never given a prefix cannot build its registration (GetParams fails)
		if _, err := pt.GetParams(); err != nil {
			return c01Side{kind: "noclient", wireText: "-"}
		}
	}
	if c.params != "-" {
		// a client that cannot even configure its transport sends no registration; the station is still
		// shown the raw parameters (error paths of ParseParams)
		noClient := func() c01Side {
			ns := c01Side{kind: "noclient", wireText: "-"}
			if m, ok := c01ClientParams(c).(proto.Message); ok && c.params != "n" {
				ns.wire, ns.wireText = m, c.params
			}
			return ns
		}
		if err := ct.SetParams(c01ClientParams(c)); err != nil {
			return noClient()
		}
		// the real Prepare of every transport; the DTLS one does a STUN exchange, which is answered in-process
		var dialer func(ctx context.Context, network, laddr, raddr string) (net.Conn, error)
		if _, ok := ct.(*dtls.ClientTransport); ok {
			dialer = dtls.VerifC01StunDialer()
		}
		if err := ct.Prepare(context.Background(), dialer); err != nil {
			return noClient()
		}
		m, err := ct.GetParams()
		if err != nil {
			return noClient()
		}
		s.wire = m
		switch p := m.(type) {
		case *pb.GenericTransportParams:
			if p != nil {
				s.wireText = "g" + vlib.B(p.GetRandomizeDstPort())
			} else {
				s.wire = nil
			}
		case *pb.PrefixTransportParams:
			if p != nil {
				s.wireText = fmt.Sprintf("p%d,%s", p.GetPrefixId(), vlib.B(p.GetRandomizeDstPort()))
			} else {
				s.wire = nil
			}
		case *pb.DTLSTransportParams:
			if p != nil {
				s.wireText = "d" + vlib.B(p.GetRandomizeDstPort())
			} else {
				s.wire = nil
			}
		}
	}
	// phantom
	switch {
	case c.ver >= 2:
		f := phantoms.V4Only
		if c.v6 {
			f = phantoms.V6Only
		}
		ph, err := phantoms.SelectPhantom(s.seed, list, f, true)
		if err != nil {
			s.kind, s.err = "errAddr", c01AddrErr(err)
			return s
		}
		s.addr, s.rp = *ph.IP(), ph.SupportRandomPort()
	case c.ver == 1:
		f := v1.V4Only
		if c.v6 {
			f = v1.V6Only
		}
		ip, err := v1.SelectPhantom(s.seed, list, f, true)
		if err != nil {
			s.kind, s.err = "errAddr", c01AddrErr(err)
			return s
		}
		s.addr = *ip
	default:
		f := v0.V4Only
		if c.v6 {
			f = v0.V6Only
		}
		ip, err := v0.SelectPhantom(s.seed, list, f, true)
		if err != nil {
			s.kind, s.err = "errAddr", c01AddrErr(err)
			return s
		}
		s.addr = *ip
	}
	// port: 443 before port randomisation existed and whenever the phantom's subnet does not support it
	// (the dialer's rule), else the transport's choice
	s.port = 443
	if c.ver >= 3 && s.rp {
		if c.transport == "unknown" {
			s.kind, s.err = "errPort", "unknownTransport"
			return s
		}
		p, err := ct.GetDstPort(s.seed)
		if err != nil {
			s.kind, s.err = "errPort", c01PortErr(err)
			return s
		}
		s.port = p
	}
	// what identifies the session to the station
	switch c.transport {
	case "min":
		wt := ct.(*min.ClientTransport)
		if err := wt.PrepareKeys(w.pubkey, c.secret, reader); err != nil {
			s.kind, s.err = "errIdent", err.Error()
			return s
		}
		cc := &c01CaptureConn{}
		if _, err := wt.WrapConn(cc); err != nil {
			s.kind, s.err = "errIdent", err.Error()
			return s
		}
		s.ident = append([]byte{}, cc.buf.Bytes()...)
	case "prefix":
		wt := ct.(*prefix.ClientTransport)
		if err := wt.PrepareKeys(w.pubkey, c.secret, reader); err != nil {
			s.kind, s.err = "errIdent", err.Error()
			return s
		}
		if wt.Prefix == nil {
			s.kind, s.err = "errPort", "badParams"
			return s
		}
		cc := &c01CaptureConn{}
		if _, err := wt.WrapConn(cc); err != nil {
			s.kind, s.err = "errIdent", err.Error()
			return s
		}
		flight := cc.buf.Bytes()
		pl := len(wt.Prefix.Bytes())
		if len(flight) != pl+64 || !bytes.Equal(flight[:pl], wt.Prefix.Bytes()) {
			s.kind, s.err = "errIdent", fmt.Sprintf("flight of %d bytes does not start with the %d prefix bytes", len(flight), pl)
			return s
		}
		id, err := transports.CTRObfuscator{}.TryReveal(flight[pl:], w.privkey)
		if err != nil {
			s.kind, s.err = "errIdent", "reveal: "+err.Error()
			return s
		}
		s.ident = id
	case "obfs4":
		wt := ct.(*obfs4.ClientTransport)
		if err := wt.PrepareKeys(w.pubkey, c.secret, reader); err != nil {
			s.kind, s.err = "errIdent", "entropy"
			return s
		}
		k := obfs4.VerifC01ClientKeys(wt)
		s.ident = append(append([]byte{}, k.PublicKey.Bytes()[:]...), k.NodeID.Bytes()[:]...)
		s.modelIdent = append(append([]byte{}, k.PrivateKey.Bytes()[:]...), k.NodeID.Bytes()[:]...)
	case "dtls":
		// no tag on the wire: the session is identified by the DTLS handshake, keyed by what PrepareKeys keeps
		wt := ct.(*dtls.ClientTransport)
		if err := wt.PrepareKeys(w.pubkey, c.secret, reader); err != nil {
			s.kind, s.err = "errIdent", err.Error()
			return s
		}
		s.ident = nil
		s.psk = append([]byte{}, dtls.VerifC01ClientPSK(wt)...)
	}
	s.kind = "ok"
	return s
}

// c01Station runs the real station path for the registration the client would send.
func c01Station(w *c01World, c *c01Case, wire proto.Message) (s c01Side, modelIdent []byte) {
	return c01StationOn(w, c, wire, true)
}

// c01StationOn: with installSelector = false the manager's selector is left as it stands (concurrent phase:
// installed once, then only read, as in a running station)
func c01StationOn(w *c01World, c *c01Case, wire proto.Message, installSelector bool) (s c01Side, modelIdent []byte) {
	defer func() {
		if p := recover(); p != nil {
			s = c01Side{kind: "panic", err: fmt.Sprint(p)}
		}
	}()
	if installSelector {
		w.rm.PhantomSelector = c.cfg.selector()
	}
	tt := c01TransportType[c.transport]
	ver, gen := uint32(c.ver), uint32(c.gen)
	covert := "1.2.3.4:56789"
	c2s := &pb.ClientToStation{ClientLibVersion: &ver, Transport: &tt, CovertAddress: &covert, DecoyListGeneration: &gen,
		V4Support: proto.Bool(!c.v6), V6Support: proto.Bool(c.v6)}
	if wire != nil {
		a, err := anypb.New(wire)
		if err != nil {
			panic(err)
		}
		a.TypeUrl = "" // the client strips the type url to keep the registration small
		c2s.TransportParams = a
	}
	src := pb.RegistrationSource_API
	regAddr := net.ParseIP("192.0.2.7").To4()
	if c.v6 {
		regAddr = net.ParseIP("2001:db8:ffff::7")
	}
	c2sw := &pb.C2SWrapper{SharedSecret: c.secret, RegistrationPayload: c2s, RegistrationSource: &src, RegistrationAddress: regAddr}
	reg, err := w.rm.NewRegistrationC2SWrapper(c2sw, c.v6)
	if err != nil {
		msg := err.Error()
		switch {
		case strings.Contains(msg, "failed to generate keys"):
			return c01Side{kind: "errKeys", err: "entropy"}, nil
		case strings.Contains(msg, "failed phantom select"):
			return c01Side{kind: "errAddr", err: c01AddrErr(err)}, nil
		case strings.Contains(msg, "unknown transport"), strings.Contains(msg, "error handling transport params"),
			strings.Contains(msg, "error selecting phantom dst port"):
			return c01Side{kind: "errPort", err: c01PortErr(err)}, nil
		}
		return c01Side{kind: "errOther", err: msg}, nil
	}
	s = c01Side{kind: "ok", seed: reg.Keys.ConjureSeed, addr: reg.PhantomIp, port: reg.PhantomPort}
	// what (dtls.Transport).Connect hands to the handshake: dtls.Config{PSK: reg.SharedSecret()}
	s.psk = append([]byte{}, reg.SharedSecret()...)
	tr := w.rm.registeredDecoys.transports[tt]
	id := []byte(tr.GetIdentifier(reg))
	s.ident = id
	modelIdent = id
	if c.transport == "obfs4" {
		// the model treats X25519 as a parameter: it is shown the clamped private key instead
		k, ok := reg.TransportKeys().(obfs4.Obfs4Keys)
		if !ok {
			return c01Side{kind: "errIdent", err: "entropy"}, nil
		}
		modelIdent = append(append([]byte{}, k.PrivateKey.Bytes()[:]...), k.NodeID.Bytes()[:]...)
	}
	return s, modelIdent
}

var c01FailMu sync.Mutex
var c01FailN = map[string]int{}

func c01Fail(out *vlib.Out, sig, what, replay string) {
	c01FailMu.Lock()
	c01FailN[sig]++
	n := c01FailN[sig]
	c01FailMu.Unlock()
	out.Count("oracle-fail:" + sig)
	if n <= 6 {
		out.OracleFail(sig, what, replay)
	}
}

func c01WellFormed(ip net.IP, v6 bool) bool {
	if v6 {
		return len(ip) == 16
	}
	return len(ip) == 4
}

// c01Run: one registration through both sides, the model lines, the oracle.
func c01Run(t testing.TB, out *vlib.Out, w *c01World, c c01Case) {
	cl := c01Client(w, &c)
	st, stModelIdent := c01Station(w, &c, cl.wire)
	groups := c.cfg.gens[c.gen]
	known := false
	for _, g := range c.cfg.order {
		known = known || g == c.gen
	}
	// --- correspondence: station
	stSeed, _ := c01SpecKeys(c.secret, c.ver)
	draws := "-"
	if c.ver < 2 && known {
		draws = c01Draws(stSeed, groups)
	}
	line := fmt.Sprintf("derive|station|%s|%d|%d|%s|%s|%s|%s|%s", vlib.Hex(c.secret), c.ver, c.gen, vlib.B(c.v6), c.transport, cl.wireText,
		c.cfg.modelText(t, -1), draws)
	ans := st.String()
	if st.kind == "ok" {
		ans = fmt.Sprintf("ok %s %s %d %s", vlib.Hex(st.seed), vlib.Hex(st.addr), st.port, vlib.Hex(stModelIdent))
	}
	out.Case(line, ans, st.kind == "ok")
	out.Count(fmt.Sprintf("station:v%d:%s:%s:%s", c.ver, c.transport, st.kind, st.err))
	// --- correspondence: client (the model's client is the published derivation of that version)
	if known {
		cdraws := "-"
		if c.ver < 2 {
			cdraws = c01Draws(cl.seed, groups)
		}
		cline := fmt.Sprintf("derive|client|%s|%d|%d|%s|%s|%s|%s|%s", vlib.Hex(c.secret), c.ver, c.gen, vlib.B(c.v6), c.transport, cl.wireText,
			c.cfg.modelText(t, int(c.gen)), cdraws)
		cans := cl.String()
		if cl.kind == "ok" && c.transport == "obfs4" {
			cans = fmt.Sprintf("ok %s %s %d %s", vlib.Hex(cl.seed), vlib.Hex(cl.addr), cl.port, vlib.Hex(cl.modelIdent))
		}
		if c.transport != "unknown" && !(c.transport == "prefix" && c.ver < 3) && cl.kind != "noclient" {
			out.Case(cline, cans, cl.kind == "ok")
		}
		out.Count(fmt.Sprintf("client:v%d:%s:%s:%s", c.ver, c.transport, cl.kind, cl.err))
	}
	// --- oracle: a client that derives a well-formed rendezvous must find the station exactly there
	if st.kind == "panic" {
		out.Checked()
		c01Fail(out, "C01:station-panics", "the station path panics: "+st.err, c.replay())
		return
	}
	if st.kind == "ok" {
		out.Checked()
		if !c01WellFormed(st.addr, c.v6) {
			c01Fail(out, "C01:malformed-rendezvous-address", fmt.Sprintf("the station registers a phantom of %d bytes (%x): no client can dial it", len(st.addr), []byte(st.addr)), c.replay())
		}
	}
	if c.clientKeys != nil {
		out.Checked()
		if spec, _ := c01SpecKeys(c.secret, 4); !bytes.Equal(spec, c.clientKeys.ConjureSeed) {
			c01Fail(out, "C01:client-seed-not-published-derivation", fmt.Sprintf("GenerateClientSharedKeys seed %x, published derivation %x", c.clientKeys.ConjureSeed, spec), c.replay())
		}
	}
	if cl.kind != "ok" || !c01WellFormed(cl.addr, c.v6) || c.transport == "unknown" {
		return
	}
	if c.ver < 2 {
		for _, g := range groups {
			if g.nilSubs {
				return // the frozen clients skip groups without subnets, the station does not: outside C01's domain
			}
		}
	}
	if c.transport == "prefix" && c.ver < 3 {
		return // no such client: the prefix transport appeared with library version 3
	}
	out.Checked()
	switch {
	case st.kind != "ok":
		c01Fail(out, "C01:station-fails-client-ok", fmt.Sprintf("client derives %v:%d, station answers %s", cl.addr, cl.port, st), c.replay())
	case !bytes.Equal(st.seed, cl.seed):
		c01Fail(out, "C01:seed-differs", fmt.Sprintf("station seed %x, client seed %x", st.seed, cl.seed), c.replay())
	case !bytes.Equal(st.addr, cl.addr):
		c01Fail(out, "C01:addr-differs", fmt.Sprintf("station phantom %v (%x), client phantom %v (%x)", st.addr, []byte(st.addr), cl.addr, []byte(cl.addr)), c.replay())
	case st.port != cl.port:
		c01Fail(out, "C01:port-differs", fmt.Sprintf("station port %d, client port %d (%s %s, subnet randomises: %v)", st.port, cl.port, c.transport, cl.wireText, cl.rp), c.replay())
	case c.transport != "dtls" && !bytes.Equal(st.ident, cl.ident):
		c01Fail(out, "C01:ident-differs", fmt.Sprintf("station identifier %x, client tag %x", st.ident, cl.ident), c.replay())
	}
	// the rendezvous must also be the one every client already in the field derives
	if st.kind == "ok" {
		c01CheckSpec(out, &c, cl.wireText, st)
	}
	// DTLS credentials: both ends must key the handshake with the same bytes, and those bytes must give
	// both ends the same ClientHello random and certificates
	if c.transport == "dtls" && st.kind == "ok" {
		c01DtlsCred(out, &c, cl, st)
	}
	// determinism: the same registration again gives the same registration
	out.Checked()
	if st2, _ := c01Station(w, &c, cl.wire); st2.String() != st.String() {
		c01Fail(out, "C01:station-not-deterministic", fmt.Sprintf("%s then %s", st, st2), c.replay())
	}
}

// c01DtlsCred: the pre-shared keys of both ends against each other, against the model (`dtlscred|…`:
// the key is the shared secret, the ClientHello random its HKDF) and, on a sample, the certificates.
func c01DtlsCred(out *vlib.Out, c *c01Case, cl, st c01Side) {
	hello := func(psk []byte) string {
		hr, err := cjdtls.VerifC01HelloRandom(psk)
		if err != nil {
			return "err"
		}
		return vlib.Hex(hr)
	}
	out.Case(fmt.Sprintf("dtlscred|client|%s|%d", vlib.Hex(c.secret), c.ver), vlib.Hex(cl.psk)+" "+hello(cl.psk), true)
	out.Case(fmt.Sprintf("dtlscred|station|%s|%d", vlib.Hex(c.secret), c.ver), vlib.Hex(st.psk)+" "+hello(st.psk), true)
	out.Checked()
	switch {
	case !bytes.Equal(cl.psk, st.psk):
		c01Fail(out, "C01:dtls-psk-differs", fmt.Sprintf("the client keys the DTLS handshake with %x, the station with %x", cl.psk, st.psk), c.replay())
	case hello(cl.psk) != hello(st.psk):
		c01Fail(out, "C01:dtls-credentials-differ", "the two ends derive different ClientHello randoms", c.replay())
	case len(c.secret) > 0 && c.secret[0]%8 == 0:
		a, err1 := cjdtls.VerifC01CertInfo(cl.psk)
		b, err2 := cjdtls.VerifC01CertInfo(st.psk)
		if err1 != nil || err2 != nil || a != b {
			c01Fail(out, "C01:dtls-credentials-differ", fmt.Sprintf("certificates derived by the client %s (%v), by the station %s (%v)", a, err1, b, err2), c.replay())
		}
	}
}

// c01CertGolden: certsFromSeed for three fixed keys, as every released client derives them (public key
// X, Y, common name and serial number of the client and of the server certificate).  Client and station
// share this function, so only a pinned value can see it move.
var c01CertGolden = []struct{ seed, want string }{
	{"0000000000000000000000000000000000000000000000000000000000000000",
		"[6e8a7bbf964efd55dd8dd2ed00b30e58568e947f24fd9bfc37495139c92f52bb a8098b6d6d3d4dd85a7cdc6c4903e6836a36da19d09b1a1a8d016eaf72a1288d cn=c96e6dc4f4037deb serial=425583131578452403008953331005422757663]" +
			"[9f11adeaef4fe4ee2f0932283e52bfc2c57caf9bb7ec2ab805de12fdc82570d0 ac2aa2de00fdb0555da26f22f4ff204e4fd6ebc014159a2e1b14e4e98f961bea cn=586c0fb79df443c8 serial=146885224703077245528252848792851389812]"},
	{"5a5a5a5a5a5a5a5a5a5a5a5a5a5a5a5a5a5a5a5a5a5a5a5a5a5a5a5a5a5a5a5a",
		"[4e1ca5e06d4eb9341a6c538221ae298a180c4faeb2dbc08975cce104e96f74e8 bb05c399efe20d89bd5f17f616b7b6ccdbaa8e90a3eb9f6b09f512771e7d0ff8 cn=ad301587318eedfc serial=139289663158415748246895554610961876866]" +
			"[20eda72b28f5ff525e75b068b8c23885a8395b1d557e6d22d8b6c836241854d6 86a0ca877d0647c071400e08fff3a14c19422ea5fa622fd6d15723ab9fc86203 cn=04de6adcf6f9d392 serial=461955735106497046713099472569556016322]"},
	{"636f6e6a7572652043303120676f6c64656e20766563746f722073656564202333",
		"[a3ebae8f6375bafc6e2b44f4886a522d845b1283d56dffbc11e40a73c4a6b2d1 60d8ab1ead1c1b67693fccf64c4fdd60b9206d9815b256682b9aa81b3c34b2d0 cn=acf7c6813b87e186 serial=729949576671344888850486817908685379708]" +
			"[27b8a35fafdeffad26a595fb34f642c89a6b0d881573b727a68e768371638988 99926195236d27aa35a8900c61f0dbbae696fcea3c96cd1590eae61ca8889d9e cn=2c0a7bffd3f15ae8 serial=1240862342366935332298174490208515139681]"},
}

// ------------------------------------------------------------------------------------------------
// generators

var c01V4 = []string{"192.122.190.0/24", "141.219.0.0/16", "35.8.0.0/16", "10.0.0.0/31", "10.0.0.7/32", "10.1.0.0/30", "10.1.0.0/29",
	"0.1.2.0/24", "0.0.0.0/8", "203.0.113.64/26", "192.122.190.0/25", "192.122.190.128/25", "1.2.3.4/32", "128.0.0.0/1", "255.255.255.252/30",
	"10.77.1.2/16", "::ffff:10.9.0.0/112", "::ffff:a0a:0/120"} // host bits set; the IPv4-mapped notation (an IPv6 literal the selectors treat as IPv4)
var c01V6 = []string{"2001:48a8:687f:1::/64", "2002::/16", "64:ff9b::/96", "::/127", "::1/128", "0:1::/32", "2001:db8::/126",
	"2001:db8::8/125", "2001:db8::1/128", "fe80::/10", "8000::/1", "2001:db8:0:1::/64",
	"2001:DB8:0:2::/64", "64:ff9b::192.0.2.0/120", "2001:0db8:0000:0003:0000:0000:0000:0001/64", "::fffe:10.9.0.0/112"} // other notations: upper case, IPv4 tail, full form with host bits, next to the mapped prefix
var c01Weights = []uint32{0, 1, 1, 1, 2, 3, 9, 10, 100, 4294967295}

func c01RandNet(r *vlib.Rand) string {
	switch {
	case r.Chance(1, 60):
		return "bogus/24"
	case r.Chance(2, 5):
		return c01V4[r.Intn(len(c01V4))]
	case r.Chance(2, 3):
		return c01V6[r.Intn(len(c01V6))]
	case r.Bool():
		b := r.Bytes(4)
		if r.Chance(1, 4) {
			b[0] = 0
		}
		return fmt.Sprintf("%s/%d", net.IP(b).String(), r.Intn(33))
	default:
		b := r.Bytes(16)
		if r.Chance(1, 4) {
			b[0], b[1] = 0, 0
		}
		return fmt.Sprintf("%s/%d", net.IP(b).String(), r.Intn(129))
	}
}

func c01RandCfg(r *vlib.Rand) *c01Cfg {
	c := &c01Cfg{gens: map[uint][]c01Group{}}
	n := 1 + r.Intn(3)
	for i := 0; i < n; i++ {
		g := uint(1 + r.Intn(5))
		if _, dup := c.gens[g]; dup {
			continue
		}
		k := 1 + r.Intn(5)
		equal := r.Chance(1, 5)
		ew := c01Weights[1+r.Intn(len(c01Weights)-1)]
		var groups []c01Group
		for j := 0; j < k; j++ {
			gr := c01Group{weight: c01Weights[r.Intn(len(c01Weights))], rp: r.Bool()}
			if equal {
				gr.weight = ew
			}
			if r.Chance(1, 80) {
				gr.nilSubs = true
			} else {
				m := 1 + r.Intn(4)
				for x := 0; x < m; x++ {
					gr.subnets = append(gr.subnets, c01RandNet(r))
				}
			}
			groups = append(groups, gr)
		}
		c.order = append(c.order, g)
		c.gens[g] = groups
	}
	return c
}

var c01PrefixIDs = []int{0, 1, 2, 3, 4, 5, 6, 7, 8, 9}

func c01RandParams(r *vlib.Rand, transport string) string {
	if r.Chance(1, 8) {
		return "-"
	}
	if r.Chance(1, 8) {
		return "n"
	}
	rnd := vlib.B(r.Bool())
	switch transport {
	case "prefix":
		id := c01PrefixIDs[r.Intn(len(c01PrefixIDs))]
		if r.Chance(1, 25) {
			id = 10 + r.Intn(5) // unknown to both sides
		}
		return fmt.Sprintf("p%d,%s", id, rnd)
	case "dtls":
		return "d" + rnd
	}
	return "g" + rnd
}

func c01Corpus() []*c01Cfg {
	mk := func(s string) *c01Cfg {
		c, err := c01ParseCfg(s)
		if err != nil {
			panic(err)
		}
		return c
	}
	return []*c01Cfg{
		mk("1=9,0,0,192.122.190.0/24+2001:48a8:687f:1::/64!1,0,0,141.219.0.0/16+35.8.0.0/16;2=9,1,0,192.122.190.0/24+2001:48a8:687f:1::/64!1,1,0,141.219.0.0/16+35.8.0.0/16"),
		mk("1=1,1,0,0.1.2.0/24+64:ff9b::/96"),
		mk("1=1,1,0,10.0.0.7/32+2001:db8::1/128!1,0,0,10.0.0.8/32+2001:db8::2/128"),
		mk("1=5,1,0,10.1.0.0/30+2001:db8::/126!5,0,0,10.2.0.0/30+2001:db8:1::/126!5,1,0,10.3.0.0/30+2001:db8:2::/126"),
		mk("1=0,1,0,10.1.0.0/30+2001:db8::/126"),
		mk("1=1,1,0,10.1.0.0/24;3=1,0,0,2001:db8::/64"),
		mk("1=1,0,1,-!3,1,0,10.1.0.0/30+2001:db8::/126"),
	}
}

// ------------------------------------------------------------------------------------------------

func TestVerifC01(t *testing.T) {
	out := vlib.Open("C01")
	defer out.Close()
	w := newC01World(t)
	if rp := vlib.Replay(); rp != "" {
		c01Replay(t, out, w, rp)
		return
	}
	r := vlib.NewRand("C01")
	c01Crypto(t, out, r)

	transportsAll := []string{"min", "obfs4", "prefix", "dtls"}
	// 1. corpus: every configuration × version × family × transport × parameter variant
	for ci, cfg := range c01Corpus() {
		for ver := uint(0); ver <= 4; ver++ {
			for _, v6 := range []bool{false, true} {
				for _, tr := range transportsAll {
					variants := []string{"-", "n", "g0", "g1"}
					if tr == "dtls" {
						variants = []string{"-", "n", "d0", "d1"}
					}
					if tr == "prefix" {
						variants = []string{"-", "n", "p10,1"}
						for _, id := range c01PrefixIDs {
							variants = append(variants, fmt.Sprintf("p%d,0", id), fmt.Sprintf("p%d,1", id))
						}
					}
					for _, pv := range variants {
						for _, g := range cfg.order {
							cs := c01Case{secret: r.Bytes(32), ver: ver, gen: g, v6: v6, transport: tr, params: pv, cfg: cfg}
							if ci == 0 && ver == 4 {
								c01Fresh(t, w, &cs)
							}
							c01Run(t, out, w, cs)
						}
					}
				}
			}
		}
	}
	// 2. random registrations over random configurations
	n := vlib.Budget(6000, 120000)
	for i := 0; i < n; i++ {
		cfg := c01RandCfg(r)
		k := 1 + r.Intn(4)
		for j := 0; j < k; j++ {
			tr := transportsAll[r.Intn(4)]
			if r.Chance(1, 60) {
				tr = "unknown"
			}
			g := uint(9)
			if len(cfg.order) > 0 && !r.Chance(1, 40) {
				g = cfg.order[r.Intn(len(cfg.order))]
			}
			cs := c01Case{secret: r.Bytes(32), ver: uint(r.Intn(5)), gen: g, v6: r.Bool(), transport: tr, cfg: cfg}
			cs.params = c01RandParams(r, tr)
			if r.Chance(1, 30) {
				cs.secret = r.Bytes(r.Intn(70)) // the wrapper does not fix the length of the secret
			}
			if cs.ver == 4 && r.Chance(1, 3) {
				c01Fresh(t, w, &cs)
			}
			c01Run(t, out, w, cs)
		}
	}
	// 3. client-side API histories and registrar responses (zz_verif_c01_hist_test.go)
	c01Histories(t, out, w, vlib.NewRand("C01-histories"))
	// 4. secrets whose rejection-sampled draws start on a bound; 5. concurrent station-side derivation
	// (zz_verif_c01_r4_test.go)
	c01Boundaries(t, out, w)
	c01Concurrent(t, out, w, vlib.NewRand("C01-concurrent"))
	// 6. the subnet strings themselves: the repository's parsers, net.ParseCIDR and the Lean parser
	// (zz_verif_c01_cidr_test.go)
	c01Cidr(t, out, vlib.NewRand("C01-cidr"))
	// 7. the station's table of generations: histories of additions / removals / replacements and the
	// configuration file (zz_verif_c01_gens_test.go)
	c01Gens(t, out, vlib.NewRand("C01-generations"))
}

// c01Fresh replaces the secret by one that comes out of the real client key exchange (crypto/rand
// inside core.GenerateClientSharedKeys: the only randomness of the harness that VERIF_SEED does not
// fix; the replay line carries the secret).
func c01Fresh(t testing.TB, w *c01World, c *c01Case) {
	k, err := core.GenerateClientSharedKeys(w.pubkey)
	if err != nil {
		t.Fatal(err)
	}
	c.secret, c.clientKeys = k.SharedSecret, k
}

// c01Crypto: the Lean SHA-256 / HMAC / HKDF against crypto/sha256, crypto/hmac, x/crypto/hkdf; the
// DTLS ClientHello random against the Lean HKDF; the DTLS certificates derived twice.
func c01Crypto(t *testing.T, out *vlib.Out, r *vlib.Rand) {
	n := vlib.Budget(300, 5000)
	for i := 0; i < n; i++ {
		l := r.Intn(200)
		if i < 140 {
			l = i // every length around the padding boundaries
		}
		msg := r.Bytes(l)
		h := sha256.Sum256(msg)
		out.Case("sha256|"+vlib.Hex(msg), vlib.Hex(h[:]), true)
		key := r.Bytes(r.Intn(100))
		m := hmac.New(sha256.New, key)
		m.Write(msg)
		out.Case("hmac|"+vlib.Hex(key)+"|"+vlib.Hex(msg), vlib.Hex(m.Sum(nil)), true)
		secret, salt, info := r.Bytes(r.Intn(64)), r.Bytes(r.Intn(40)), r.Bytes(r.Intn(40))
		if r.Chance(1, 3) {
			salt = nil
		}
		if r.Chance(1, 3) {
			info = nil
		}
		k := 1 + r.Intn(200)
		if r.Chance(1, 20) {
			k = 8100 + r.Intn(60)
		}
		buf := make([]byte, k)
		if _, err := io.ReadFull(hkdf.New(sha256.New, secret, salt, info), buf); err != nil {
			t.Fatal(err)
		}
		out.Case(fmt.Sprintf("hkdf|%s|%s|%s|%d", vlib.Hex(secret), vlib.Hex(salt), vlib.Hex(info), k), vlib.Hex(buf), true)
	}
	for _, g := range c01CertGolden {
		seed, _ := hex.DecodeString(g.seed)
		got, err := cjdtls.VerifC01CertInfo(seed)
		out.Checked()
		if err != nil || got != g.want {
			c01Fail(out, "C01:dtls-certificates-not-published-derivation",
				fmt.Sprintf("certsFromSeed(%s) gives %s (%v); every released client derives %s", g.seed, got, err, g.want), "C01DTLS|"+g.seed)
		}
	}
	for i := 0; i < vlib.Budget(40, 400); i++ {
		seed := r.Bytes(32)
		hr, err := cjdtls.VerifC01HelloRandom(seed)
		if err != nil {
			t.Fatal(err)
		}
		out.Case("dtlshello|"+vlib.Hex(seed), vlib.Hex(hr), true)
		want := make([]byte, 28)
		io.ReadFull(hkdf.New(sha256.New, seed, []byte("clientHelloRandomFromSeed"), nil), want)
		out.Checked()
		if !bytes.Equal(hr, want) {
			c01Fail(out, "C01:dtls-hello-random-not-published-derivation", fmt.Sprintf("ClientHello random %x, every released client derives %x", hr, want), "C01DTLS|"+vlib.Hex(seed))
		}
		a, err1 := cjdtls.VerifC01CertInfo(seed)
		b, err2 := cjdtls.VerifC01CertInfo(seed)
		out.Checked()
		if err1 != nil || err2 != nil || a != b {
			c01Fail(out, "C01:dtls-credentials-not-deterministic", fmt.Sprintf("two derivations from one secret differ: %s / %s (%v %v)", a, b, err1, err2), "C01DTLS|"+vlib.Hex(seed))
		}
	}
}

func c01Replay(t *testing.T, out *vlib.Out, w *c01World, path string) {
	b, err := os.ReadFile(path)
	if err != nil {
		t.Fatal(err)
	}
	for _, line := range strings.Split(string(b), "\n") {
		f := strings.Split(line, "|")
		switch f[0] {
		case "C01HIST":
			c01HistReplay(t, out, w, line)
		case "C01CONC":
			c01ConcReplay(t, out, w, line)
		case "C01CIDR", "C01CIDRG":
			c01CidrReplay(t, out, line)
		case "C01GENS", "C01GENSLOAD":
			c01GensReplay(t, out, line)
		case "C01CASE":
			if len(f) != 8 {
				t.Fatalf("bad replay line %q", line)
			}
			secret := []byte{}
			if f[1] != "-" {
				if secret, err = hex.DecodeString(f[1]); err != nil {
					t.Fatal(err)
				}
			}
			ver, _ := strconv.ParseUint(f[2], 10, 32)
			gen, _ := strconv.ParseUint(f[3], 10, 32)
			cfg, err := c01ParseCfg(f[7])
			if err != nil {
				t.Fatal(err)
			}
			c := c01Case{secret: secret, ver: uint(ver), gen: uint(gen), v6: f[4] == "1", transport: f[5], params: f[6], cfg: cfg}
			c01Run(t, out, w, c)
			cl := c01Client(w, &c)
			st, _ := c01Station(w, &c, cl.wire)
			fmt.Println("REPLAY case   :", line)
			fmt.Println("REPLAY client :", cl.String())
			fmt.Println("REPLAY station:", st.String())
		case "C01DTLS":
			seed, _ := hex.DecodeString(f[1])
			a, _ := cjdtls.VerifC01CertInfo(seed)
			b, _ := cjdtls.VerifC01CertInfo(seed)
			fmt.Println("REPLAY dtls:", a == b, a)
			out.Checked()
			if a != b {
				c01Fail(out, "C01:dtls-credentials-not-deterministic", "two derivations from one secret differ", line)
			}
			for _, g := range c01CertGolden {
				if g.seed == f[1] && a != g.want {
					c01Fail(out, "C01:dtls-certificates-not-published-derivation", fmt.Sprintf("certsFromSeed(%s) gives %s; every released client derives %s", g.seed, a, g.want), line)
				}
			}
		}
	}
}

// ------------------------------------------------------------------------------------------------
// tie 1: tables and constants the theorems are stated about, dumped from the code

func TestVerifC01Gen(t *testing.T) {
	dir := os.Getenv("VERIF_OUT")
	if dir == "" {
		t.Skip("VERIF_OUT not set")
	}
	var sb strings.Builder
	sb.WriteString("/-! GENERATED by /verif/check (TestVerifC01Gen) from the code under test — do not edit.\n")
	sb.WriteString("Constants and tables of the derivation as the code has them now. -/\n")
	sb.WriteString("namespace CJ.Gen.C01\n\n")
	nat := func(name string, v any) { fmt.Fprintf(&sb, "def %s : Nat := %d\n", name, v) }
	nat("phantomSelectionMinGeneration", core.PhantomSelectionMinGeneration)
	nat("phantomHkdfMinVersion", core.PhantomHkdfMinVersion)
	nat("coreRandomizeDstPortMinVersion", core.RandomizeDstPortMinVersion)
	nat("sharedKeysRefactorMinVersion", core.SharedKeysRefactorMinVersion)
	nat("currentClientLibraryVersion", core.CurrentClientLibraryVersion())
	nat("ingestRandomizeMinVersion", randomizeDstPortMinVersion)
	mv, mlo, mhi := min.VerifC01Consts()
	nat("minRandomizeMinVersion", mv)
	fmt.Fprintf(&sb, "def minRange : Nat × Nat := (%d, %d)\n", mlo, mhi)
	ov, olo, ohi := obfs4.VerifC01Consts()
	nat("obfs4RandomizeMinVersion", ov)
	fmt.Fprintf(&sb, "def obfs4Range : Nat × Nat := (%d, %d)\n", olo, ohi)
	pv, plo, phi := prefix.VerifC01Consts()
	nat("prefixRandomizeMinVersion", pv)
	fmt.Fprintf(&sb, "def prefixRange : Nat × Nat := (%d, %d)\n", plo, phi)
	dlo, dhi, dd := dtls.VerifC01Consts()
	fmt.Fprintf(&sb, "def dtlsRange : Nat × Nat := (%d, %d)\n", dlo, dhi)
	nat("dtlsDefaultPort", dd)
	// where the seed sits in the HKDF stream of the secret, per library version (measured)
	secret := bytes.Repeat([]byte{0x5a}, 32)
	stream := make([]byte, 600)
	io.ReadFull(hkdf.New(sha256.New, secret, []byte("conjureconjureconjureconjure"), nil), stream)
	var offs []string
	for ver := uint(0); ver <= 8; ver++ {
		k, err := core.GenSharedKeys(ver, secret, pb.TransportType_Min)
		if err != nil {
			t.Fatal(err)
		}
		off := bytes.Index(stream, k.ConjureSeed)
		if off < 0 || len(k.ConjureSeed) != 16 {
			t.Fatalf("version %d: seed %x not found in the key stream", ver, k.ConjureSeed)
		}
		offs = append(offs, fmt.Sprintf("(%d, %d)", ver, off))
	}
	fmt.Fprintf(&sb, "/-- (library version, offset of ConjureSeed in the HKDF stream of the shared secret) as GenSharedKeys places it -/\n")
	fmt.Fprintf(&sb, "def stationSeedOffsets : List (Nat × Nat) := [%s]\n", strings.Join(offs, ", "))
	// the client of this repository
	var sk [32]byte
	rand.Read(sk[:])
	pk, _ := curve25519.X25519(sk[:], curve25519.Basepoint)
	var pk32 [32]byte
	copy(pk32[:], pk)
	ck, err := core.GenerateClientSharedKeys(pk32)
	if err != nil {
		t.Fatal(err)
	}
	cstream := make([]byte, 600)
	io.ReadFull(hkdf.New(sha256.New, ck.SharedSecret, []byte("conjureconjureconjureconjure"), nil), cstream)
	coff := bytes.Index(cstream, ck.ConjureSeed)
	if coff < 0 {
		t.Fatal("client seed not found in the key stream of its secret")
	}
	nat("clientSeedOffset", coff)
	tbl := func(name string, rows []prefix.VerifC01Prefix) {
		var rs []string
		for _, p := range rows {
			rs = append(rs, fmt.Sprintf("(%d, %d)", p.ID, p.Port))
		}
		fmt.Fprintf(&sb, "def %s : List (Int × Nat) := [%s]\n", name, strings.Join(rs, ", "))
	}
	sp, cp := prefix.VerifC01StationPrefixes(), prefix.VerifC01ClientPrefixes()
	sort.Slice(sp, func(i, j int) bool { return sp[i].ID < sp[j].ID })
	tbl("stationPrefixes", sp)
	tbl("clientPrefixes", cp)
	var mvs []string
	for _, p := range sp {
		mvs = append(mvs, fmt.Sprintf("(%d, %d)", p.ID, p.MinVer))
	}
	fmt.Fprintf(&sb, "def prefixMinVersions : List (Int × Nat) := [%s]\n", strings.Join(mvs, ", "))
	sb.WriteString("\nend CJ.Gen.C01\n")
	if err := os.WriteFile(dir+"/C01Tables.lean", []byte(sb.String()), 0o644); err != nil {
		t.Fatal(err)
	}
}
