//go:build verif

package dtls

import (
	"crypto/ecdsa"
	"crypto/x509"
	"fmt"
)

// Read-only access for the C01 harness (exists only in the scratch copy made by /verif/check).

// VerifC01HelloRandom is the ClientHello random both ends derive from the shared secret.
func VerifC01HelloRandom(seed []byte) ([]byte, error) {
	r, err := clientHelloRandomFromSeed(seed)
	return r[:], err
}

// VerifC01CertInfo summarises the two certificates derived from the shared secret: public keys,
// common names and serial numbers (the signature bytes are randomised by ECDSA and not compared).
func VerifC01CertInfo(seed []byte) (string, error) {
	c, s, err := certsFromSeed(seed)
	if err != nil {
		return "", err
	}
	out := ""
	for _, cert := range [][]byte{c.Certificate[0], s.Certificate[0]} {
		x, err := x509.ParseCertificate(cert)
		if err != nil {
			return "", err
		}
		pk, ok := x.PublicKey.(*ecdsa.PublicKey)
		if !ok {
			return "", fmt.Errorf("not an ECDSA key")
		}
		out += fmt.Sprintf("[%x %x cn=%s serial=%s]", pk.X.Bytes(), pk.Y.Bytes(), x.Subject.CommonName, x.SerialNumber.String())
	}
	return out, nil
}
