//go:build verif

package obfs4

// Read-only access for the C01 harness (exists only in the scratch copy made by /verif/check).

// VerifC01Consts returns randomizeDstPortMinVersion, portRangeMin, portRangeMax of the obfs4 transport.
func VerifC01Consts() (uint, int64, int64) {
	return randomizeDstPortMinVersion, portRangeMin, portRangeMax
}

// VerifC01ClientKeys returns the keys the client transport derived in PrepareKeys.
func VerifC01ClientKeys(t *ClientTransport) Obfs4Keys { return t.keys }
