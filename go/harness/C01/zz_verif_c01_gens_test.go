//go:build verif

package lib

// The station's table of generations (C01): PhantomIPSelector.AddGeneration / newGenerationIndex /
// IsTakenGeneration / RemoveGeneration / UpdateGeneration / GetSubnetsByGeneration and the loop of
// SubnetsFromTomlFile (pkg/phantoms/station_phantoms.go) against the Lean table (CJ.Generations):
//
//	gens|<op>;…            a history of operations on one real selector that starts empty
//	gensload|<gen>:<id>,…  a configuration file written to disk and read by the real SubnetsFromTomlFile
//
// Oracle (bookkeeping of what was published under which generation, independent of the model): an
// addition never uses an index that is in the table, uses the requested index when that is free and not
// negative, and every generation that was published and not removed or replaced since answers with its
// own configuration (C01:generation-table); at the end of a history a client that holds the
// configuration of a published generation (phantoms.SelectPhantom) and the station
// (PhantomIPSelector.Select on the table) pick the same phantom (C01:generation-rendezvous).
// Replay lines: C01GENS|<ops>, C01GENSLOAD|<entries>.

import (
	"fmt"
	"os"
	"path/filepath"
	"sort"
	"strconv"
	"strings"
	"testing"

	"github.com/refraction-networking/conjure/internal/vlib"
	"github.com/refraction-networking/conjure/pkg/phantoms"
	pb "github.com/refraction-networking/conjure/proto"
)

// configuration number id: one weighted set, networks that no other number has
func c01GenCfg(id int) *phantoms.SubnetConfig {
	w := uint32(1 + id%7)
	rp := id%2 == 1
	return &phantoms.SubnetConfig{WeightedSubnets: []*pb.PhantomSubnets{{Weight: &w, RandomizeDstPort: &rp,
		Subnets: []string{fmt.Sprintf("10.%d.%d.0/24", id/256%256, id%256), fmt.Sprintf("2001:db8:%x::/48", id%65536)}}}}
}

func c01GenID(sc *phantoms.SubnetConfig) string {
	if sc == nil || len(sc.WeightedSubnets) != 1 || len(sc.WeightedSubnets[0].Subnets) != 2 {
		return "-"
	}
	var a, b int
	if _, err := fmt.Sscanf(sc.WeightedSubnets[0].Subnets[0], "10.%d.%d.0/24", &a, &b); err != nil {
		return "?"
	}
	return strconv.Itoa(a*256 + b)
}

func c01GenDump(sel *phantoms.PhantomIPSelector) string {
	keys := make([]uint, 0, len(sel.Networks))
	for k := range sel.Networks {
		keys = append(keys, k)
	}
	sort.Slice(keys, func(i, j int) bool { return keys[i] < keys[j] })
	parts := make([]string, len(keys))
	for i, k := range keys {
		if sel.Networks[k] == nil {
			parts[i] = fmt.Sprintf("%d=nil", k)
		} else {
			parts[i] = fmt.Sprintf("%d=%s", k, c01GenID(sel.Networks[k]))
		}
	}
	return strings.Join(parts, ",")
}

// one history on a real selector; ops in the notation of the gens| line
func c01GensRun(out *vlib.Out, ops []string, seed []byte) {
	replay := "C01GENS|" + strings.Join(ops, ";") + "|" + vlib.Hex(seed)
	sel := &phantoms.PhantomIPSelector{Networks: map[uint]*phantoms.SubnetConfig{}}
	published := map[uint]*phantoms.SubnetConfig{} // ground truth: generation -> what clients hold for it
	known := map[uint]bool{}                        // indices that have been in the table
	var ans []string
	fail := func(what string) { c01Fail(out, "C01:generation-table", what, replay) }
	for i, op := range ops {
		arg := op[1:]
		switch op[0] {
		case 'A':
			f := strings.Split(arg, ":")
			gen, _ := strconv.Atoi(f[0])
			id, _ := strconv.Atoi(f[1])
			sc := c01GenCfg(id)
			idx := sel.AddGeneration(gen, sc)
			ans = append(ans, strconv.FormatUint(uint64(idx), 10))
			out.Checked()
			if known[idx] {
				fail(fmt.Sprintf("op %d AddGeneration(%d) used index %d, which was in the table", i, gen, idx))
			} else if gen >= 0 && !known[uint(gen)] && idx != uint(gen) {
				fail(fmt.Sprintf("op %d AddGeneration(%d) used index %d although %d was free", i, gen, idx, gen))
			}
			if !known[idx] {
				published[idx] = sc
			}
			known[idx] = true
			out.Count("gens:op:add")
		case 'R':
			g, _ := strconv.ParseUint(arg, 10, 64)
			sel.RemoveGeneration(uint(g))
			delete(published, uint(g))
			known[uint(g)] = true
			ans = append(ans, "ok")
			out.Count("gens:op:remove")
		case 'U':
			f := strings.Split(arg, ":")
			g, _ := strconv.ParseUint(f[0], 10, 64)
			id, _ := strconv.Atoi(f[1])
			sc := c01GenCfg(id)
			sel.UpdateGeneration(uint(g), sc)
			published[uint(g)] = sc
			known[uint(g)] = true
			ans = append(ans, "ok")
			out.Count("gens:op:update")
		case 'T':
			g, _ := strconv.ParseUint(arg, 10, 64)
			tk := sel.IsTakenGeneration(uint(g))
			ans = append(ans, vlib.B(tk))
			out.Count("gens:op:taken")
		case 'L':
			g, _ := strconv.ParseUint(arg, 10, 64)
			ans = append(ans, c01GenID(sel.GetSubnetsByGeneration(uint(g))))
			out.Count("gens:op:lookup")
		}
		// every published generation still answers with its own configuration
		out.Checked()
		for g, sc := range published {
			if got := sel.GetSubnetsByGeneration(g); got != sc {
				fail(fmt.Sprintf("after op %d (%s) generation %d answers configuration %s, published was %s", i, op, g, c01GenID(got), c01GenID(sc)))
				break
			}
		}
	}
	// the rendezvous of every published generation
	for g, sc := range published {
		for _, v6 := range []bool{false, true} {
			f := phantoms.V4Only
			if v6 {
				f = phantoms.V6Only
			}
			cl, cerr := phantoms.SelectPhantom(seed, &pb.PhantomSubnetsList{WeightedSubnets: sc.WeightedSubnets}, f, true)
			st, serr := sel.Select(seed, g, 4, v6)
			out.Checked()
			if cerr != nil {
				continue
			}
			if serr != nil || !st.IP().Equal(*cl.IP()) || st.SupportRandomPort() != cl.SupportRandomPort() {
				c01Fail(out, "C01:generation-rendezvous", fmt.Sprintf("generation %d (v6 %v): a client holding its configuration selects %v, the station after the history %v (%v)", g, v6, cl.IP(), st, serr), replay)
			}
		}
	}
	out.Case("gens|"+strings.Join(ops, ";"), strings.Join(ans, ";")+" # "+c01GenDump(sel), len(published) > 0)
}

func c01GensLoad(t testing.TB, out *vlib.Out, dir string, entries [][2]int, seed []byte) {
	parts := make([]string, len(entries))
	var b strings.Builder
	b.WriteString("[Networks]\n")
	for i, e := range entries {
		parts[i] = fmt.Sprintf("%d:%d", e[0], e[1])
		sc := c01GenCfg(e[1])
		ws := sc.WeightedSubnets[0]
		fmt.Fprintf(&b, "    [Networks.%d]\n        Generation = %d\n        [[Networks.%d.WeightedSubnets]]\n            Weight = %d\n            RandomizeDstPort = %v\n            Subnets = [%q, %q]\n\n",
			e[0], e[0], e[0], ws.GetWeight(), ws.GetRandomizeDstPort(), ws.Subnets[0], ws.Subnets[1])
	}
	arg := "none"
	if len(entries) > 0 {
		arg = strings.Join(parts, ",")
	}
	replay := "C01GENSLOAD|" + arg + "|" + vlib.Hex(seed)
	path := filepath.Join(dir, "phantom_subnets.toml")
	if err := os.WriteFile(path, []byte(b.String()), 0o600); err != nil {
		t.Fatal(err)
	}
	sel, err := phantoms.SubnetsFromTomlFile(path)
	if err != nil {
		c01Fail(out, "C01:generation-table", fmt.Sprintf("SubnetsFromTomlFile refuses a well-formed file with generations %s: %v", arg, err), replay)
		return
	}
	out.Checked()
	for _, e := range entries {
		sc := sel.GetSubnetsByGeneration(uint(e[0]))
		if c01GenID(sc) != strconv.Itoa(e[1]) {
			c01Fail(out, "C01:generation-table", fmt.Sprintf("file generations %s: generation %d answers configuration %s", arg, e[0], c01GenID(sc)), replay)
			continue
		}
		want := c01GenCfg(e[1])
		cl, cerr := phantoms.SelectPhantom(seed, &pb.PhantomSubnetsList{WeightedSubnets: want.WeightedSubnets}, phantoms.V4Only, true)
		st, serr := sel.Select(seed, uint(e[0]), 4, false)
		out.Checked()
		if cerr == nil && (serr != nil || !st.IP().Equal(*cl.IP()) || st.SupportRandomPort() != cl.SupportRandomPort()) {
			c01Fail(out, "C01:generation-rendezvous", fmt.Sprintf("file generations %s: generation %d: client %v, station %v (%v)", arg, e[0], cl.IP(), st, serr), replay)
		}
	}
	if len(sel.Networks) != len(entries) {
		c01Fail(out, "C01:generation-table", fmt.Sprintf("file generations %s: the table has %d entries: %s", arg, len(sel.Networks), c01GenDump(sel)), replay)
	}
	out.Case("gensload|"+arg, c01GenDump(sel), len(entries) > 0)
	out.Count(fmt.Sprintf("gensload:entries:%d", len(entries)))
}

func c01GensRandOps(r *vlib.Rand) []string {
	n := 1 + r.Intn(14)
	ops := make([]string, 0, n)
	id := 0
	key := func() int { // small keys collide often; a few large ones
		if r.Chance(1, 10) {
			return []int{957, 958, 4294967295, 4294967296, 1 << 40}[r.Intn(5)]
		}
		return r.Intn(8)
	}
	for i := 0; i < n; i++ {
		id++
		switch k := r.Intn(12); {
		case k < 5:
			g := key()
			if r.Chance(1, 4) {
				g = -1
			}
			ops = append(ops, fmt.Sprintf("A%d:%d", g, id))
		case k < 7:
			ops = append(ops, fmt.Sprintf("R%d", key()))
		case k < 9:
			ops = append(ops, fmt.Sprintf("U%d:%d", key(), id))
		case k < 10:
			ops = append(ops, fmt.Sprintf("T%d", key()))
		default:
			ops = append(ops, fmt.Sprintf("L%d", key()))
		}
	}
	return ops
}

func c01Gens(t testing.TB, out *vlib.Out, r *vlib.Rand) {
	corpus := []string{
		"A1:1;A1:2;L1;L2", "A-1:1;A-1:2;A-1:3", "A0:1;A-1:2;L0;L1", "A5:1;R5;T5;L5;A5:2;L5;L6", "A1:1;A2:2;R1;A-1:3;L1;L3",
		"A1:1;U1:2;L1;A1:3;L1;L2", "R3;T3;A3:1;L3;L4", "U7:1;A7:2;L7;L8", "A957:1;A1:2;A-1:3;L958", "A4294967296:1;A-1:2;L4294967297",
		"A1:1;A2:2;A3:3;A2:4;A3:5;A1:6;L1;L2;L3;L4;L5;L6", "L0;T0;A0:1;T0;L0", "A0:1;R0;A0:2;L0;L1",
	}
	for _, c := range corpus {
		c01GensRun(out, strings.Split(c, ";"), r.Bytes(16))
	}
	n := vlib.Budget(1500, 30000)
	for i := 0; i < n; i++ {
		c01GensRun(out, c01GensRandOps(r), r.Bytes(16))
	}
	dir := t.TempDir()
	c01GensLoad(t, out, dir, nil, r.Bytes(16))
	c01GensLoad(t, out, dir, [][2]int{{1, 1}, {2, 2}, {957, 3}}, r.Bytes(16))
	c01GensLoad(t, out, dir, [][2]int{{0, 5}}, r.Bytes(16))
	for i := 0; i < n/10; i++ {
		k := r.Intn(7)
		seen := map[int]bool{}
		var es [][2]int
		for len(es) < k {
			g := r.Intn(12)
			if r.Chance(1, 8) {
				g = []int{957, 65535, 4294967295, 1 << 40}[r.Intn(4)]
			}
			if seen[g] {
				continue // two keys of one number (or -1) are answered in map-iteration order by the code: not generated
			}
			seen[g] = true
			es = append(es, [2]int{g, 1 + r.Intn(60000)})
		}
		c01GensLoad(t, out, dir, es, r.Bytes(16))
	}
}

func c01GensReplay(t *testing.T, out *vlib.Out, line string) {
	f := strings.Split(line, "|")
	if len(f) != 3 {
		t.Fatalf("bad replay line %q", line)
	}
	seed, err := hexDecode(f[2])
	if err != nil {
		t.Fatal(err)
	}
	switch f[0] {
	case "C01GENS":
		c01GensRun(out, strings.Split(f[1], ";"), seed)
		fmt.Println("REPLAY generation history:", f[1])
	case "C01GENSLOAD":
		var es [][2]int
		if f[1] != "none" {
			for _, e := range strings.Split(f[1], ",") {
				p := strings.Split(e, ":")
				g, _ := strconv.Atoi(p[0])
				id, _ := strconv.Atoi(p[1])
				es = append(es, [2]int{g, id})
			}
		}
		c01GensLoad(t, out, t.TempDir(), es, seed)
		fmt.Println("REPLAY configuration file with generations:", f[1])
	}
}
