//go:build verif

package min

// Read-only access for the C01 harness (exists only in the scratch copy made by /verif/check).

// VerifC01Consts returns randomizeDstPortMinVersion, portRangeMin, portRangeMax of the min transport.
func VerifC01Consts() (uint, int64, int64) {
	return randomizeDstPortMinVersion, portRangeMin, portRangeMax
}
