//go:build verif

package dtls

import (
	pb "github.com/refraction-networking/conjure/proto"
	"google.golang.org/protobuf/proto"
)

// Read-only access for the C01 harness (exists only in the scratch copy made by /verif/check).

// VerifC01Consts returns portRangeMin, portRangeMax, defaultPort of the DTLS transport.
func VerifC01Consts() (int64, int64, uint16) { return portRangeMin, portRangeMax, defaultPort }

// VerifC01PrepareParams does the parameter part of (*ClientTransport).Prepare — the session
// parameters become a copy of the configured parameters — without the STUN exchange.
func VerifC01PrepareParams(t *ClientTransport) {
	if t.Parameters == nil {
		t.Parameters = &pb.DTLSTransportParams{}
	}
	t.sessionParams = proto.Clone(t.Parameters).(*pb.DTLSTransportParams)
}
