//go:build verif

package dtls

import (
	"context"
	"fmt"
	"net"
	"time"

	"github.com/pion/stun"
)

// Read-only access for the C01 harness (exists only in the scratch copy made by /verif/check).

// VerifC01Consts returns portRangeMin, portRangeMax, defaultPort of the DTLS transport.
func VerifC01Consts() (int64, int64, uint16) { return portRangeMin, portRangeMax, defaultPort }

// VerifC01ClientPSK returns the pre-shared key the client transport will hand to the DTLS handshake
// (set by PrepareKeys).
func VerifC01ClientPSK(t *ClientTransport) []byte { return t.psk }

// VerifC01StunDialer returns a dialer for the real (*ClientTransport).Prepare: every "connection" is
// an in-process pipe whose far end answers one STUN binding request with a fixed public address
// (192.0.2.33:4444 for udp4, [2001:db8::33]:4444 for udp6).  No socket, no clock.
func VerifC01StunDialer() func(ctx context.Context, network, laddr, raddr string) (net.Conn, error) {
	return func(ctx context.Context, network, laddr, raddr string) (net.Conn, error) {
		local := &net.UDPAddr{IP: net.IPv4(127, 0, 0, 1), Port: 40004}
		pub := &stun.XORMappedAddress{IP: net.IPv4(192, 0, 2, 33).To4(), Port: 4444}
		switch network {
		case "udp4":
		case "udp6":
			local = &net.UDPAddr{IP: net.ParseIP("::1"), Port: 40006}
			pub = &stun.XORMappedAddress{IP: net.ParseIP("2001:db8::33"), Port: 4444}
		default:
			return nil, fmt.Errorf("verif stun dialer: unexpected network %q", network)
		}
		near, far := net.Pipe()
		go func() {
			defer far.Close()
			buf := make([]byte, 1500)
			for {
				n, err := far.Read(buf)
				if err != nil {
					return
				}
				req := &stun.Message{Raw: append([]byte{}, buf[:n]...)}
				if err := req.Decode(); err != nil {
					continue
				}
				resp, err := stun.Build(stun.NewTransactionIDSetter(req.TransactionID), stun.BindingSuccess, pub, stun.Fingerprint)
				if err != nil {
					return
				}
				if _, err := far.Write(resp.Raw); err != nil {
					return
				}
			}
		}()
		return &verifC01StunConn{Conn: near, local: local, remote: &net.UDPAddr{IP: net.IPv4(192, 0, 2, 1), Port: 19302}}, nil
	}
}

type verifC01StunConn struct {
	net.Conn
	local, remote *net.UDPAddr
}

func (c *verifC01StunConn) LocalAddr() net.Addr              { return c.local }
func (c *verifC01StunConn) RemoteAddr() net.Addr             { return c.remote }
func (c *verifC01StunConn) SetDeadline(time.Time) error      { return nil }
func (c *verifC01StunConn) SetReadDeadline(time.Time) error  { return nil }
func (c *verifC01StunConn) SetWriteDeadline(time.Time) error { return nil }
