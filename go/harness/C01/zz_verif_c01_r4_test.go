//go:build verif

package lib

// C01, two further dimensions:
//
//  1. Boundary-directed secrets for every rejection-sampled draw of the derivation (crypto/rand.Int on an
//     HKDF reader: the destination port of every transport's range, the weighted-subnet draw, the address
//     index draw).  rand.Int reads ceil(bitlen(max-1)/8) bytes, masks the top byte to the bit length and
//     rejects candidates >= max.  A change of a bound by one moves client and station together and shows
//     only where the FIRST candidate lands exactly on the bound — about one registration in 2^bitlen.  The
//     harness searches shared secrets (deterministic in VERIF_SEED) whose first candidate, computed with an
//     independent transcription, is max-2, max-1 (the last accepted), max (the first rejected), max+1, 0 or
//     the all-ones word, and runs them through both real sides, the published transcription and the model.
//
//  2. Concurrent station-side derivation: the station derives in concurrent ingest workers.  The same jobs
//     (most of them library versions 0/1, whose selection runs on math/rand) are first derived one by one
//     (and checked against the client, the frozen clients and the published transcription as every other
//     case), then by 8-32 goroutines at once through NewRegistrationC2SWrapper on one RegistrationManager;
//     every concurrent answer must equal the sequential one.  No clock, no timing assertion.

import (
	"crypto/sha256"
	"encoding/binary"
	"fmt"
	"io"
	"math/big"
	"strconv"
	"strings"
	"sync"
	"testing"

	"github.com/refraction-networking/conjure/internal/vlib"
	"golang.org/x/crypto/hkdf"
	"google.golang.org/protobuf/proto"
)

// c01FirstCandidate: the first candidate crypto/rand.Int(hkdf(seed, nil, info), max) looks at (independent
// transcription: k = ceil(bitlen(max-1)/8) bytes, top byte masked to the bit length), and the all-ones word.
func c01FirstCandidate(seed []byte, info string, max int64) (cand, ones int64) {
	bl := new(big.Int).Sub(big.NewInt(max), big.NewInt(1)).BitLen()
	if bl == 0 {
		return 0, 0
	}
	k := (bl + 7) / 8
	buf := make([]byte, 8)
	io.ReadFull(hkdf.New(sha256.New, seed, nil, []byte(info)), buf[8-k:])
	b := uint(bl % 8)
	if b == 0 {
		b = 8
	}
	buf[8-k] &= byte(int(1<<b) - 1)
	return int64(binary.BigEndian.Uint64(buf)), int64(1)<<uint(bl) - 1
}

// a rejection-sampled draw of the derivation, with the literal published bound
type c01Draw struct {
	name      string
	info      string
	max       int64  // published bound of rand.Int
	transport string // the case that exercises it
	params    string
	cfg       int // index into c01BoundaryCfgs
	gen       uint
}

// configurations for the boundary cases: every group randomises the port; one generation whose IPv4
// address count (2^8 + 2^16 = 65792, 17 bits) and one whose total weight (5 + 6 = 11, 4 bits) is no power of two
func c01BoundaryCfgs() []*c01Cfg {
	mk := func(s string) *c01Cfg {
		c, err := c01ParseCfg(s)
		if err != nil {
			panic(err)
		}
		return c
	}
	return []*c01Cfg{
		mk("1=1,1,0,192.122.190.0/24+2001:48a8:687f:1::/64"),
		mk("1=1,1,0,10.9.0.0/24+10.8.0.0/16+2001:db8::/120+2001:db8:1::/112"),
		mk("1=5,1,0,10.1.0.0/24+2001:db8::/120!6,1,0,10.2.0.0/24+2001:db8:1::/120"),
	}
}

func c01Draws4() []c01Draw {
	return []c01Draw{
		{"port:min", "phantom-select-dst-port", 65535 - 1024, "min", "g1", 0, 1},
		{"port:obfs4", "phantom-select-dst-port", 65535 - 22, "obfs4", "g1", 0, 1},
		{"port:prefix", "phantom-select-dst-port", 65535 - 1024, "prefix", "p0,1", 0, 1},
		{"port:dtls", "phantom-select-dst-port", 65535 - 1024, "dtls", "d1", 0, 1},
		{"addr-id", "phantom-addr-id", 65792, "min", "g1", 1, 1},
		{"subnet", "phantom-select-subnet", 11, "min", "g0", 2, 1},
	}
}

type c01BoundaryHit struct {
	secret []byte
	ver    uint
	class  string
}

// c01BoundarySearch: shared secrets whose ConjureSeed (library version 4: the first 16 bytes of the key
// stream; version 3: bytes 104..120) makes the first candidate of one of the draws land on a boundary.
// Deterministic in VERIF_SEED; k hits per (draw bound, class).
func c01BoundarySearch(k int, limit int) map[string][]c01BoundaryHit {
	type target struct {
		info  string
		max   int64
		names []string
	}
	var targets []target
	seen := map[string]int{}
	for _, d := range c01Draws4() {
		key := fmt.Sprintf("%s/%d", d.info, d.max)
		if i, ok := seen[key]; ok {
			targets[i].names = append(targets[i].names, d.name)
			continue
		}
		seen[key] = len(targets)
		targets = append(targets, target{d.info, d.max, []string{d.name}})
	}
	hits := map[string][]c01BoundaryHit{}
	need := 0
	classes := func(c, ones, max int64) []string {
		var cl []string
		for _, x := range []struct {
			v int64
			n string
		}{{max - 2, "max-2"}, {max - 1, "max-1"}, {max, "max"}, {max + 1, "max+1"}, {0, "zero"}, {ones, "ones"}} {
			if c == x.v && x.v >= 0 && x.v <= ones {
				cl = append(cl, x.n)
			}
		}
		return cl
	}
	for _, t := range targets {
		_, ones := c01FirstCandidate(make([]byte, 16), t.info, t.max)
		for _, v := range []int64{t.max - 2, t.max - 1, t.max, t.max + 1, 0, ones} {
			if v >= 0 && v <= ones {
				need += k
			}
		}
	}
	base := sha256.Sum256([]byte(fmt.Sprintf("C01-boundary-%d", vlib.Seed())))
	got := 0
	for i := 0; i < limit && got < need; i++ {
		var ctr [8]byte
		binary.BigEndian.PutUint64(ctr[:], uint64(i))
		sec := sha256.Sum256(append(base[:], ctr[:]...))
		stream := make([]byte, 120)
		io.ReadFull(hkdf.New(sha256.New, sec[:], []byte("conjureconjureconjureconjure"), nil), stream)
		ver := uint(4 - i%2)
		seed := stream[:16]
		if ver < 4 {
			seed = stream[104:120]
		}
		for _, t := range targets {
			c, ones := c01FirstCandidate(seed, t.info, t.max)
			for _, cl := range classes(c, ones, t.max) {
				key := fmt.Sprintf("%s/%d:%s", t.info, t.max, cl)
				if len(hits[key]) < k {
					hits[key] = append(hits[key], c01BoundaryHit{secret: append([]byte{}, sec[:]...), ver: ver, class: cl})
					got++
				}
			}
		}
	}
	return hits
}

func c01Boundaries(t *testing.T, out *vlib.Out, w *c01World) {
	cfgs := c01BoundaryCfgs()
	hits := c01BoundarySearch(vlib.Budget(1, 3), vlib.Budget(900000, 6000000))
	for _, d := range c01Draws4() {
		for _, cl := range []string{"max-2", "max-1", "max", "max+1", "zero", "ones"} {
			hs := hits[fmt.Sprintf("%s/%d:%s", d.info, d.max, cl)]
			out.Count(fmt.Sprintf("boundary:%s:%s:%d", d.name, cl, len(hs)))
			for _, h := range hs {
				for _, v6 := range []bool{false, true} {
					if d.name == "addr-id" && v6 {
						continue // the bound is the IPv4 address count of that configuration
					}
					c01Run(t, out, w, c01Case{secret: h.secret, ver: h.ver, gen: d.gen, v6: v6, transport: d.transport, params: d.params, cfg: cfgs[d.cfg]})
				}
			}
		}
	}
}

// ------------------------------------------------------------------------------------------------
// concurrent station-side derivation

type c01Job struct {
	c    c01Case
	wire proto.Message
}

func (j *c01Job) text() string {
	return fmt.Sprintf("%s,%d,%d,%s,%s,%s", vlib.Hex(j.c.secret), j.c.ver, j.c.gen, vlib.B(j.c.v6), j.c.transport, strings.ReplaceAll(j.c.params, ",", "+"))
}

func c01ConcCfg() *c01Cfg {
	c, err := c01ParseCfg("1=9,0,0,192.122.190.0/24+2001:48a8:687f:1::/64!1,0,0,141.219.0.0/16+35.8.0.0/16+2002::/16;" +
		"2=9,1,0,192.122.190.0/24+2001:48a8:687f:1::/64!1,1,0,141.219.0.0/16+35.8.0.0/16+2002::/16!3,1,0,10.1.0.0/20+2001:db8::/100;" +
		"3=2,1,0,10.3.0.0/16+2001:db8:3::/64!2,0,0,10.4.0.0/24+2001:db8:4::/96!7,1,0,203.0.113.64/26+2001:db8:5::/126")
	if err != nil {
		panic(err)
	}
	return c
}

func c01ConcJobs(r *vlib.Rand, cfg *c01Cfg, n int) []*c01Job {
	var js []*c01Job
	trs := []string{"min", "obfs4", "prefix", "dtls"}
	for i := 0; i < n; i++ {
		ver := uint(r.Intn(2)) // the math/rand generations
		if r.Chance(1, 4) {
			ver = uint(2 + r.Intn(3))
		}
		tr := trs[r.Intn(4)]
		if tr == "prefix" && ver < 3 {
			tr = "min"
		}
		c := c01Case{secret: r.Bytes(32), ver: ver, gen: cfg.order[r.Intn(len(cfg.order))], v6: r.Bool(), transport: tr, cfg: cfg}
		c.params = c01RandParams(r, tr)
		if tr == "prefix" && (c.params == "-" || c.params == "n") {
			c.params = "p0,1"
		}
		js = append(js, &c01Job{c: c})
	}
	return js
}

// c01StationShared: the station path on the manager as it stands (the selector is installed once per phase)
func c01StationShared(w *c01World, j *c01Job) (s string) {
	defer func() {
		if p := recover(); p != nil {
			s = "panic " + fmt.Sprint(p)
		}
	}()
	st, _ := c01StationOn(w, &j.c, j.wire, false)
	return st.String()
}

func c01ConcurrentPhase(t testing.TB, out *vlib.Out, w *c01World, cfg *c01Cfg, js []*c01Job, workers, rounds int, sequentialChecks bool) {
	// sequentially: the whole case as everywhere else (client, frozen clients, published transcription, model),
	// then the expected answer of the station for the job
	want := make([]string, len(js))
	for _, j := range js {
		if sequentialChecks {
			c01Run(t, out, w, j.c)
		}
		cl := c01Client(w, &j.c)
		j.wire = cl.wire
	}
	w.rm.PhantomSelector = cfg.selector()
	for i, j := range js {
		want[i] = c01StationShared(w, j)
	}
	type bad struct {
		job      int
		got      string
		worker   int
		inflight int
	}
	var mu sync.Mutex
	var bads []bad
	var wg sync.WaitGroup
	for wk := 0; wk < workers; wk++ {
		wg.Add(1)
		go func(wk int) {
			defer wg.Done()
			for rd := 0; rd < rounds; rd++ {
				for x := range js {
					i := (x*7 + wk*13 + rd*29) % len(js) // every worker walks the jobs in its own order
					if got := c01StationShared(w, js[i]); got != want[i] {
						mu.Lock()
						if len(bads) < 8 {
							bads = append(bads, bad{job: i, got: got, worker: wk})
						}
						mu.Unlock()
					}
				}
			}
		}(wk)
	}
	wg.Wait()
	out.Checked()
	out.Count(fmt.Sprintf("concurrent:workers=%d:jobs=%d:rounds=%d", workers, len(js), rounds))
	if len(bads) > 0 {
		var jt []string
		for _, j := range js {
			jt = append(jt, j.text())
		}
		b := bads[0]
		c01Fail(out, "C01:phantom-not-published-derivation:concurrent",
			fmt.Sprintf("%d workers deriving %d registrations at the same time: library version %d, generation %d, %s: alone the station derives (as the client of that version does) %q, next to the others %q (%d deviating answers recorded)",
				workers, len(js), js[b.job].c.ver, js[b.job].c.gen, js[b.job].c.transport, want[b.job], b.got, len(bads)),
			fmt.Sprintf("C01CONC|%d|%d|%s|%s", workers, rounds, cfg.text(), strings.Join(jt, ";")))
	}
}

func c01Concurrent(t *testing.T, out *vlib.Out, w *c01World, r *vlib.Rand) {
	cfg := c01ConcCfg()
	for _, workers := range []int{8, 16, 32} {
		js := c01ConcJobs(r, cfg, vlib.Budget(160, 600))
		c01ConcurrentPhase(t, out, w, cfg, js, workers, vlib.Budget(12, 40), true)
	}
}

func c01ConcReplay(t *testing.T, out *vlib.Out, w *c01World, line string) {
	f := strings.Split(line, "|")
	if len(f) != 5 {
		t.Fatalf("bad replay line %q", line)
	}
	workers, _ := strconv.Atoi(f[1])
	rounds, _ := strconv.Atoi(f[2])
	cfg, err := c01ParseCfg(f[3])
	if err != nil {
		t.Fatal(err)
	}
	var js []*c01Job
	for _, jt := range strings.Split(f[4], ";") {
		p := strings.Split(jt, ",")
		if len(p) != 6 {
			t.Fatalf("bad job %q", jt)
		}
		secret, err := hexDecode(p[0])
		if err != nil {
			t.Fatal(err)
		}
		ver, _ := strconv.ParseUint(p[1], 10, 32)
		gen, _ := strconv.ParseUint(p[2], 10, 32)
		js = append(js, &c01Job{c: c01Case{secret: secret, ver: uint(ver), gen: uint(gen), v6: p[3] == "1", transport: p[4], params: strings.ReplaceAll(p[5], "+", ","), cfg: cfg}})
	}
	fmt.Println("REPLAY concurrent derivation:", workers, "workers,", len(js), "jobs,", rounds, "rounds (x4 for the replay)")
	c01ConcurrentPhase(t, out, w, cfg, js, workers, 4*rounds, false)
}
