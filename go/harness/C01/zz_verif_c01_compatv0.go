//go:build verif

package v0

import "net"

// Read-only access for the C01 harness (exists only in the scratch copy made by /verif/check).

// VerifC01ParseSubnets runs the frozen client's parseSubnets.
func VerifC01ParseSubnets(strs []string) ([]*net.IPNet, error) { return parseSubnets(strs) }
