//go:build verif

package prefix

import "sort"

// Read-only access for the C01 harness (exists only in the scratch copy made by /verif/check).

// VerifC01Consts returns randomizeDstPortMinVersion, portRangeMin, portRangeMax of the prefix transport.
func VerifC01Consts() (uint, int64, int64) {
	return randomizeDstPortMinVersion, portRangeMin, portRangeMax
}

// VerifC01Prefix is one row of a prefix table.
type VerifC01Prefix struct {
	ID     int
	Port   uint16
	MinVer uint
	Static []byte
}

// VerifC01StationPrefixes dumps defaultPrefixes (station side), sorted by id.
func VerifC01StationPrefixes() []VerifC01Prefix {
	var out []VerifC01Prefix
	for id, p := range defaultPrefixes {
		out = append(out, VerifC01Prefix{ID: int(id), Port: p.DefaultDstPort, MinVer: p.MinVer, Static: p.StaticMatch})
	}
	sort.Slice(out, func(i, j int) bool { return out[i].ID < out[j].ID })
	return out
}

// VerifC01ClientPrefixes dumps DefaultPrefixes (client side), sorted by id.
func VerifC01ClientPrefixes() []VerifC01Prefix {
	var out []VerifC01Prefix
	for id, p := range DefaultPrefixes {
		out = append(out, VerifC01Prefix{ID: int(id), Port: p.DstPort(nil), Static: p.Bytes()})
	}
	sort.Slice(out, func(i, j int) bool { return out[i].ID < out[j].ID })
	return out
}

// VerifC01ForeignPrefix tells whether the prefix object of the session is not an entry of the client's own
// table (DefaultPrefixes) but one built from a registration response (id and bytes, no port).
func VerifC01ForeignPrefix(t *ClientTransport) bool {
	if t.Prefix == nil {
		return false
	}
	p, ok := DefaultPrefixes[t.Prefix.ID()]
	return !ok || p != t.Prefix
}
