//go:build verif

package lib

// The phantom blocklist from its configured text (model CJ.IngestText, line `c07b`): RegConfig.ParseBlocklists on generated
// phantom_blocklist strings (white space around entries, every prefix length — mostly not a multiple of 8 —, all spellings of
// an IPv6 network, IPv4-mapped networks written as IPv6, and a malformed stream), then IsBlocklistedPhantom on addresses at
// the edges of every entry. The oracle is the generator's own knowledge of every entry (address bytes, prefix length) and a
// comparison of the leading bits as numbers (math/big): no mask, no net.ParseCIDR.

import (
	"encoding/hex"
	"fmt"
	"math/big"
	"net"
	"os"
	"strings"

	"github.com/refraction-networking/conjure/internal/vlib"
)

// one generated entry: the text, and — when the generator made it well-formed — what it denotes
type c07Entry struct {
	text  string
	valid bool
	addr  []byte // 4 or 16 bytes, as written (host bits may be set)
	ones  int
	// an IPv4-mapped network written as an IPv6 literal with at least 96 prefix bits denotes the IPv4 network addr[12:]/(ones-96)
}

var c07Spaces = []string{" ", "\t", "\n", "\r", "\v", "\f", "\u00a0", "\u0085", "\u2003", "\u3000", "  \t", "\u1680", "\u2028", "\u202f", "\u205f"}

// c07SpellV6 writes 16 bytes in one of several spellings net.ParseCIDR accepts
func c07SpellV6(r *vlib.Rand, a []byte) string {
	switch r.Intn(5) {
	case 0:
		return net.IP(a).String() // shortest form (dotted when IPv4-mapped)
	case 1: // all eight groups, no compression
		var g []string
		for i := 0; i < 16; i += 2 {
			g = append(g, fmt.Sprintf("%x", int(a[i])<<8|int(a[i+1])))
		}
		return strings.Join(g, ":")
	case 2: // upper case, leading zeros
		var g []string
		for i := 0; i < 16; i += 2 {
			g = append(g, fmt.Sprintf("%04X", int(a[i])<<8|int(a[i+1])))
		}
		return strings.Join(g, ":")
	case 3: // embedded IPv4 tail
		var g []string
		for i := 0; i < 12; i += 2 {
			g = append(g, fmt.Sprintf("%x", int(a[i])<<8|int(a[i+1])))
		}
		return strings.Join(g, ":") + ":" + net.IP(a[12:16]).String()
	}
	s := net.IP(a).String()
	if strings.Contains(s, ".") { // IPv4-mapped: keep it an IPv6 literal
		return "::ffff:" + s
	}
	return s
}

func (w *c07World) genEntry(r *vlib.Rand) c07Entry {
	pad := func(s string) string {
		if r.Chance(1, 3) {
			s = c07Spaces[r.Intn(len(c07Spaces))] + s
		}
		if r.Chance(1, 3) {
			s += c07Spaces[r.Intn(len(c07Spaces))]
		}
		return s
	}
	if r.Chance(1, 12) {
		bad := []string{"", "/", "10.0.0.0", "10.0.0.0/", "/8", "10.0.0.0/33", "2001:db8::/129", "010.0.0.0/8", "10.0.0/8", "10.0.0.0.0/8", "10.0.0.0/08x",
			"10.0.0.0 /8", "10.0.0.0/ 8", "10.0.0.0/8/9", "fe80::1%eth0/64", "10.0.0.0/-1", "10.0.0.0/+8", "2001:db8:::/32", "2001:db8::1::/32", "12345::/16",
			"\u200b10.0.0.0/8", "10.0.0.0/8\u200b", "\ufeff10.0.0.0/8", "1.2.3.4/99999999999", "::ffff:1.2.3.4.5/100", "1:2:3:4:5:6:7/64", "1:2:3:4:5:6:7:8:9/64", "10.0.0.256/8", ":/0", "::/",
			"192.122.190.0\\24", "a.b.c.d/8", "0x0a.0.0.0/8"}
		w.out.Count("blocklist-text:entry:malformed")
		return c07Entry{text: pad(bad[r.Intn(len(bad))])}
	}
	e := c07Entry{valid: true}
	switch k := r.Intn(10); {
	case k < 5: // IPv4
		e.addr = r.Bytes(4)
		if r.Chance(1, 2) {
			copy(e.addr, []byte{192, 122})
			e.addr[2] = byte(184 + r.Intn(16))
		}
		e.ones = r.Intn(33)
		e.text = net.IP(e.addr).String()
		w.out.Count("blocklist-text:entry:v4")
	case k < 9: // IPv6
		e.addr = r.Bytes(16)
		if r.Chance(1, 2) {
			copy(e.addr, []byte{0x20, 0x01, 0x48, 0xa8, 0x68, 0x7f, 0, byte(r.Intn(8))})
		}
		if r.Chance(1, 3) { // zero runs, so that the spellings differ
			for i := 8; i < 14; i++ {
				e.addr[i] = 0
			}
		}
		e.ones = r.Intn(129)
		e.text = c07SpellV6(r, e.addr)
		w.out.Count("blocklist-text:entry:v6")
	default: // IPv4-mapped, written as IPv6
		e.addr = append([]byte{0, 0, 0, 0, 0, 0, 0, 0, 0, 0, 0xff, 0xff}, r.Bytes(4)...)
		if r.Chance(1, 2) {
			copy(e.addr[12:], []byte{192, 122, 190})
		}
		e.ones = 96 + r.Intn(33)
		if r.Chance(1, 5) {
			e.ones = r.Intn(96)
		}
		e.text = "::ffff:" + net.IP(e.addr[12:]).String()
		if r.Chance(1, 3) {
			e.text = fmt.Sprintf("0:0:0:0:0:ffff:%x:%x", int(e.addr[12])<<8|int(e.addr[13]), int(e.addr[14])<<8|int(e.addr[15]))
		}
		w.out.Count("blocklist-text:entry:v4-mapped-as-v6")
	}
	if e.ones%8 != 0 {
		w.out.Count("blocklist-text:prefix:not-byte-aligned")
	} else {
		w.out.Count("blocklist-text:prefix:byte-aligned")
	}
	e.text = pad(fmt.Sprintf("%s/%d", e.text, e.ones))
	return e
}

// c07Canon4 is the address as Contains compares it: 4 bytes for IPv4 and IPv4-mapped addresses
func c07Canon4(a []byte) []byte {
	if len(a) == 16 {
		mapped := a[10] == 0xff && a[11] == 0xff
		for _, x := range a[:10] {
			mapped = mapped && x == 0
		}
		if mapped {
			return a[12:]
		}
	}
	return a
}

// c07Denotes: the (address, prefix length) the entry stands for, by the generator's knowledge: the leading `ones` bits of
// the address as written; when those (host bits cleared) are an IPv4-mapped address, the IPv4 network behind it
func (e c07Entry) denotes() ([]byte, int) {
	a := append([]byte(nil), e.addr...)
	if len(a) == 16 {
		x := new(big.Int).SetBytes(a)
		x.Rsh(x, uint(128-e.ones)).Lsh(x, uint(128-e.ones))
		m := x.FillBytes(make([]byte, 16))
		if c := c07Canon4(m); len(c) == 4 {
			n := e.ones - 96
			if n < 0 {
				n = 0
			}
			return c, n
		}
		return m, e.ones
	}
	return a, e.ones
}

func (e c07Entry) holds(ip []byte) bool {
	a, n := e.denotes()
	x := c07Canon4(ip)
	if len(x) != len(a) {
		return false
	}
	sh := uint(8*len(a) - n)
	return new(big.Int).Rsh(new(big.Int).SetBytes(a), sh).Cmp(new(big.Int).Rsh(new(big.Int).SetBytes(x), sh)) == 0
}

// addresses at the edges of an entry: the network itself, the last prefix bit flipped (just outside), the first host bit
// flipped (just inside), the last address, and the IPv4 ones also in their 16-byte form
func c07EdgeAddrs(r *vlib.Rand, e c07Entry) [][]byte {
	a, n := e.denotes()
	flip := func(bit int) []byte {
		b := append([]byte(nil), a...)
		if bit >= 0 && bit < 8*len(b) {
			b[bit/8] ^= 0x80 >> uint(bit%8)
		}
		return b
	}
	last := append([]byte(nil), a...)
	for bit := n; bit < 8*len(last); bit++ {
		last[bit/8] |= 0x80 >> uint(bit%8)
	}
	out := [][]byte{append([]byte(nil), a...), flip(n - 1), flip(n), last, flip(r.Intn(8 * len(a)))}
	if len(a) == 4 && r.Chance(1, 2) {
		for i, x := range out {
			if r.Chance(1, 2) {
				out[i] = append([]byte{0, 0, 0, 0, 0, 0, 0, 0, 0, 0, 0xff, 0xff}, x...)
			}
		}
	}
	return out
}

// runBlocklist: one configuration (a list of entry texts) and a list of addresses, on the real code; model line `c07b`
func (w *c07World) runBlocklist(entries []c07Entry, ips [][]byte) (string, string) {
	var texts, tx, ipx []string
	for _, e := range entries {
		texts = append(texts, e.text)
		tx = append(tx, "t"+hex.EncodeToString([]byte(e.text)))
	}
	for _, ip := range ips {
		ipx = append(ipx, hex.EncodeToString(ip))
	}
	replay := "c07bl|" + strings.Join(tx, " ") + "|" + strings.Join(ipx, "|")
	model := "c07b|" + strings.Join(tx, " ") + "|" + strings.Join(ipx, "|")
	conf := &RegConfig{PhantomBlocklist: texts}
	err := conf.ParseBlocklists()
	allValid := true
	for _, e := range entries {
		allValid = allValid && e.valid
	}
	if err != nil {
		w.out.Count("blocklist-text:config:refused")
		if allValid {
			// every entry is a well-formed CIDR: the station must start with it (otherwise no phantom is ever refused by it)
			w.out.Checked()
			w.out.OracleFail("C07:blocklist-text:well-formed-list-refused", fmt.Sprintf("phantom_blocklist %q was refused: %v", texts, err), replay)
		}
		return model, "err"
	}
	w.out.Count("blocklist-text:config:accepted")
	var nets []string
	for _, n := range conf.phantomBlocklist {
		ones, _ := n.Mask.Size()
		nets = append(nets, fmt.Sprintf("%s/%d", hex.EncodeToString(n.IP), ones))
	}
	var bits []byte
	for _, ip := range ips {
		got := conf.IsBlocklistedPhantom(net.IP(ip))
		bits = append(bits, "01"[map[bool]int{false: 0, true: 1}[got]])
		w.out.Count("blocklist-text:address:blocklisted=" + vlib.B(got))
		// the property clause "its phantom is not blocklisted", on the configured text: an address whose leading bits are
		// those of a configured entry is refused; when every entry is known, no other address is
		want, known := false, allValid
		for _, e := range entries {
			if e.valid && e.holds(ip) {
				want, known = true, true
			}
		}
		if !known {
			continue
		}
		w.out.Checked()
		if want && !got {
			w.out.OracleFail("C07:blocklist-text:inside-not-refused", fmt.Sprintf("phantom %s lies inside an entry of phantom_blocklist %q and is not blocklisted", net.IP(ip), texts), replay)
		} else if !want && got {
			w.out.OracleFail("C07:blocklist-text:outside-refused", fmt.Sprintf("phantom %s lies in no entry of phantom_blocklist %q and is blocklisted", net.IP(ip), texts), replay)
		}
	}
	return model, strings.Join(nets, " ") + ";" + string(bits)
}

func (w *c07World) runBlocklistTexts(r *vlib.Rand) {
	run := func(entries []c07Entry, ips [][]byte) {
		m, i := w.runBlocklist(entries, ips)
		w.out.Case(m, i, true)
	}
	v4 := func(text string, a, b, c, d byte, ones int) c07Entry {
		return c07Entry{text: text, valid: true, addr: []byte{a, b, c, d}, ones: ones}
	}
	// corpus: the partial-byte arm on both sides of the boundary, spaced entries, the mapped spellings, a bad entry behind a good one
	corpus := [][]c07Entry{
		{v4(" 192.122.192.0/22", 192, 122, 192, 0, 22)},
		{v4("192.122.190.77/23\t", 192, 122, 190, 77, 23)},
		{v4("192.122.190.0/31", 192, 122, 190, 0, 31), v4(" 10.0.0.0/9", 10, 0, 0, 0, 9)},
		{v4("0.0.0.0/0", 0, 0, 0, 0, 0)},
		{v4("128.0.0.0/1", 128, 0, 0, 0, 1)},
		{v4("192.122.190.1/32", 192, 122, 190, 1, 32)},
		{{text: "2001:48a8:687f:2::/63\n", valid: true, addr: net.ParseIP("2001:48a8:687f:2::"), ones: 63}},
		{{text: "2001:48A8:687F:0:0:0:0:0/50", valid: true, addr: net.ParseIP("2001:48a8:687f::"), ones: 50}},
		{{text: "::ffff:192.122.190.0/119", valid: true, addr: net.ParseIP("192.122.190.0").To16(), ones: 119}},
		{{text: "::ffff:192.122.190.0/64", valid: true, addr: net.ParseIP("192.122.190.0").To16(), ones: 64}},
		{{text: "::/0", valid: true, addr: make([]byte, 16), ones: 0}},
		{v4("192.122.0.0/16", 192, 122, 0, 0, 16), {text: "192.122.0.0/33"}},
		{{text: " "}},
		{},
	}
	for _, es := range corpus {
		var ips [][]byte
		for _, e := range es {
			if e.valid {
				ips = append(ips, c07EdgeAddrs(r, e)...)
			}
		}
		ips = append(ips, []byte{192, 122, 190, 33}, net.ParseIP("2001:48a8:687f:1::77"), net.ParseIP("::1"), net.ParseIP("192.122.190.33").To16())
		run(es, ips)
	}
	for k, nk := 0, vlib.Budget(1500, 20000); k < nk; k++ {
		n := 1 + r.Intn(3)
		var es []c07Entry
		var ips [][]byte
		for i := 0; i < n; i++ {
			e := w.genEntry(r)
			es = append(es, e)
			if e.valid {
				ips = append(ips, c07EdgeAddrs(r, e)...)
			}
		}
		ips = append(ips, r.Bytes(4), r.Bytes(16))
		run(es, ips)
	}
}

// replay of a `c07bl|` line
func (w *c07World) replayBlocklist(line string) {
	p := strings.Split(strings.TrimPrefix(line, "c07bl|"), "|")
	var texts []string
	for _, t := range strings.Fields(p[0]) {
		b, err := hex.DecodeString(strings.TrimPrefix(t, "t"))
		if err != nil {
			w.t.Fatal(err)
		}
		texts = append(texts, string(b))
	}
	conf := &RegConfig{PhantomBlocklist: texts}
	err := conf.ParseBlocklists()
	fmt.Fprintf(os.Stdout, "REPLAY phantom_blocklist = %q: ParseBlocklists -> %v\n", texts, err)
	if err != nil {
		return
	}
	for _, n := range conf.phantomBlocklist {
		fmt.Fprintf(os.Stdout, "REPLAY   parsed entry %s\n", n)
	}
	for _, x := range p[1:] {
		ip, _ := hex.DecodeString(x)
		fmt.Fprintf(os.Stdout, "REPLAY   IsBlocklistedPhantom(%s) = %v\n", net.IP(ip), conf.IsBlocklistedPhantom(net.IP(ip)))
	}
}
