//go:build verif

package lib

// Correspondence + property oracle for C07: a registration becomes usable only when every admission
// condition holds.
//
// The decision table is ENUMERATED: every combination of message fields (address-family support,
// registrant encoding, source, transport, generation, pre-scanned flag, covert address, registrar
// overrides) × station configuration (v4/v6 enabled, phantom blocklist, share-over-API) × liveness
// verdict goes through the real parseRegMessage + ingestRegistration, followed by a SECOND message of
// the same session: the identical message, or one with the pre-scanned flag flipped, the covert address
// swapped, the source swapped, or the copy a peer station would share.  On top of the table a
// one-factor slice flips ONE dimension at a time, through every value the harness knows (including the
// ones the table only reaches in the thorough tier), from admitted base cells on every station.
// Observed: GetRegistrations(phantom), the detector announce closures (stubbed), the calls on an
// injected liveness tester, the requests the peer-share client makes (recording http.RoundTripper).
// The oracle is the property's iff, computed from how the cell was constructed (never from the code's
// or the model's output).
//
// History dimension (runSeq, model `c07s`): sequences of 1–3 messages of one session (now and then a
// second session), each later message differing from the first in any subset of the fields admission
// looks at (registrant, source, flags, transport, generation, covert address, registrar overrides,
// family support, library version, payload), each with its own liveness verdict. After EVERY message,
// on every path (cells, sequences, concurrent copies), oracleStored examines every registration that
// GetRegistrations returns for any phantom of the registry and evaluates the admission conditions on
// the values STORED in the returned object (covert policy, phantom blocklist, families, registrant,
// generation, probe log, announcement log) — the connection handler dials and matches on those values,
// not on the message that was admitted first. The stored objects are also part of the correspondence.
//
// Delivery: messages reach the station through its REAL ingest worker (startIngestThread, fed through its
// channel: startWorker / deliver), so the iff is evaluated on what the pipeline does with a message; most
// cells of the big decision table call parseRegMessage + ingestRegistration directly (cheaper; `hand`).
// The liveness verdict is a pair (boolean, error kind): the full product is scripted, and histories of
// several clients on one loopback phantom run with the real caching tester of pkg/station/liveness
// (runSeq real=true). The peer API's behaviour is a dimension (status codes, lost reply, slow,
// unreachable); requests RECEIVED by the stand-in are counted per client registration. "One family
// cannot be built, the other is fine" is a corpus and a generated dimension (c07Gens bySecret, overrides).

import (
	"bytes"
	"context"
	"encoding/hex"
	"errors"
	"fmt"
	"io"
	golog "log"
	"net"
	"net/http"
	"os"
	"path/filepath"
	"runtime"
	"sort"
	"strconv"
	"strings"
	"sync"
	"syscall"
	"testing"
	"time"

	"github.com/refraction-networking/conjure/internal/verifhook"
	"github.com/refraction-networking/conjure/internal/vlib"
	"github.com/refraction-networking/conjure/pkg/core"
	"github.com/refraction-networking/conjure/pkg/station/liveness"
	"github.com/refraction-networking/conjure/pkg/station/log"
	"github.com/refraction-networking/conjure/pkg/transports/wrapping/min"
	"github.com/refraction-networking/conjure/pkg/transports/wrapping/prefix"
	pb "github.com/refraction-networking/conjure/proto"
	"google.golang.org/protobuf/proto"
	"google.golang.org/protobuf/types/known/anypb"
)

const c07Subnets = `
[Networks]
    [Networks.1]
        Generation = 1
        [[Networks.1.WeightedSubnets]]
            Weight = 1
            Subnets = ["192.122.190.0/24", "2001:48a8:687f:1::/64"]
    [Networks.2]
        Generation = 2
        [[Networks.2.WeightedSubnets]]
            Weight = 1
            Subnets = ["192.122.191.0/24"]
    [Networks.3]
        Generation = 3
        [[Networks.3.WeightedSubnets]]
            Weight = 1
            Subnets = ["2001:48a8:687f:2::/64"]
    [Networks.4]
        Generation = 4
        [[Networks.4.WeightedSubnets]]
            Weight = 1
            RandomizeDstPort = true
            Subnets = ["192.122.192.0/24", "2001:48a8:687f:3::/64"]
    [Networks.5]
        Generation = 5
        [[Networks.5.WeightedSubnets]]
            Weight = 3
            Subnets = ["192.122.193.0/24", "2001:48a8:687f:4::/64"]
        [[Networks.5.WeightedSubnets]]
            Weight = 1
            Subnets = ["192.122.194.0/24"]
        [[Networks.5.WeightedSubnets]]
            Weight = 1
            Subnets = ["2001:48a8:687f:5::/64"]
`

// generations of the table: number, known, has IPv4 subnets, has IPv6 subnets
// (new entries are appended: the index is part of the replay format). bySecret: generation 5 has three weighted subnet sets —
// dual-stack, IPv4 only, IPv6 only — and the client's secret draws one of them: whether a family can be built depends on the
// secret; the three entries stand for the three draws, and the shared secret of the cell is chosen to fit (c07World.secretFor)
var c07Gens = []struct {
	gen        uint32
	known      bool
	has4, has6 bool
	bySecret   bool
}{{1, true, true, true, false}, {2, true, true, false, false}, {3, true, false, true, false}, {999, false, false, false, false}, {4, true, true, true, false},
	{5, true, true, true, true}, {5, true, true, false, true}, {5, true, false, true, true}}

// phantom blocklists of the table: nothing, every IPv4 phantom subnet, every IPv6 phantom subnet
// (3 and 4: the same two sets of phantoms as 1 and 2, configured the way an operator may write them: several prefixes none of
// which ends on a byte boundary, white space around entries, an IPv4 network in its IPv4-mapped IPv6 spelling. They cover
// every phantom subnet of their family and the "inside" overrides, not the "outside" ones — exactly like 1 and 2.)
var c07Blocklists = [][]string{nil, {"192.122.0.0/16"}, {"2001:48a8:687f::/48"},
	{" 192.122.184.0/22", "192.122.192.0/22\t", "::ffff:192.122.188.0/118"}, {"2001:48A8:687f:0:0::/61\n", "\u00a02001:48a8:687f:8::/63"}}

// registrant encodings (new entries are appended: the index is part of the replay format)
var c07Registrants = []struct {
	name      string
	b         []byte // nil = absent
	valid, v4 bool
	geoErr    bool
}{
	{"absent", nil, true, false, false},
	{"v4mapped", net.ParseIP("203.0.113.9").To16(), true, true, false},
	{"v6", net.ParseIP("2001:db8:77::5"), true, false, false},
	{"len5", []byte{1, 2, 3, 4, 5}, false, false, false},
	{"v4-geoerr", []byte{203, 0, 113, 66}, true, true, true},
	{"v4", []byte{203, 0, 113, 9}, true, true, false},
	{"empty", []byte{}, false, false, false}, // present, zero bytes
	{"len17", []byte{1, 2, 3, 4, 5, 6, 7, 8, 9, 10, 11, 12, 13, 14, 15, 16, 17}, false, false, false},
	{"v4-zero", []byte{0, 0, 0, 0}, true, true, false},
}

var c07Sources = []pb.RegistrationSource{pb.RegistrationSource_API, pb.RegistrationSource_Detector, pb.RegistrationSource_DetectorPrescan, pb.RegistrationSource_Unspecified,
	pb.RegistrationSource_BidirectionalAPI, pb.RegistrationSource_DNS, pb.RegistrationSource_BidirectionalDNS}

// transports of the table: an enabled one with good parameters, a transport the station does not
// enable, the enabled one with parameters it cannot parse, a second enabled transport
var c07Transports = []struct {
	name      string
	tt        pb.TransportType
	enabled   bool
	paramsOK  bool
	badParams bool
}{
	{"min", pb.TransportType_Min, true, true, false},
	{"disabled", pb.TransportType_Webrtc, false, false, false},
	{"min-badparams", pb.TransportType_Min, true, false, true},
	{"prefix", pb.TransportType_Prefix, true, true, false},
}

// covert addresses (new entries are appended: the index is part of the replay format). The decision table uses the first
// three; the others are reached by the one-condition slice and by the message sequences (a second and a third permitted
// address, one of them in a spelling the policy rewrites; refused addresses of three more kinds).
var c07Coverts = []struct {
	addr string
	ok   bool
}{{"192.0.2.77:443", true}, {"10.1.2.3:443", false}, {"no port here", false},
	{"198.51.100.20:8443", true}, {"[2001:DB8:0:0::77]:443", true}, {"10.200.0.1:80", false}, {"[::ffff:10.9.9.9]:443", false}, {"0.0.0.0:443", false}}

// the covert blocklist of every station of the harness
const c07CovertBlocklist = "10.0.0.0/8"

// c07CovertPermitted is the covert policy of the harness's stations, evaluated by the harness itself on a stored covert
// address: a literal address with a port, not unspecified, outside the blocklisted range. (A connectable registration
// holds the policy's answer, which is always a literal.)
func c07CovertPermitted(s string) bool {
	host, port, err := net.SplitHostPort(s)
	if err != nil {
		return false
	}
	if _, err := strconv.ParseUint(port, 10, 16); err != nil {
		return false
	}
	ip := net.ParseIP(host)
	if ip == nil || ip.IsUnspecified() {
		return false
	}
	_, blocked, err := net.ParseCIDR(c07CovertBlocklist)
	if err != nil {
		panic(err)
	}
	return !blocked.Contains(ip)
}

// registrar overrides of the table; inside = the override address lies in the blocklisted range of
// its family; v6OK = the IPv6 override (if any) is an address of that family; tparams: the response
// carries transport parameters (1 = parameters the transport parses, without port randomisation;
// 2 = parameters of the wrong type)
type c07Override struct {
	name               string
	port               *uint32
	v4                 *uint32
	v6                 []byte
	v4Inside, v6Inside bool
	v6OK               bool
	tparams            int
}

func c07u32(v uint32) *uint32 { return &v }

var c07Overrides = []c07Override{
	{name: "none", v6OK: true},
	{name: "inside+port", port: c07u32(8443), v4: c07u32(0xC07ABE21), v6: net.ParseIP("2001:48a8:687f:1::77"), v4Inside: true, v6Inside: true, v6OK: true},
	{name: "v6-len3", v6: []byte{1, 2, 3}, v6OK: false},
	{name: "outside", v4: c07u32(0xC6336407), v6: net.ParseIP("2001:db8:9::1"), v6OK: true},
	{name: "v6=v4mapped", v6: net.ParseIP("198.51.100.9").To16(), v6OK: false},
	{name: "v4=0", v4: c07u32(0), v6OK: true}, // present and ignored
	{name: "port0", port: c07u32(0), v6OK: true},
	{name: "port65535", port: c07u32(65535), v6OK: true},
	{name: "port70000", port: c07u32(70000), v6OK: true}, // cast to uint16
	{name: "v6-empty", v6: []byte{}, v6OK: false},        // present, zero bytes
	{name: "tparams-good", v6OK: true, tparams: 1},
	{name: "tparams-bad", v6OK: true, tparams: 2},
	{name: "v6=v4mapped-inside", v6: net.ParseIP("192.122.190.77").To16(), v6OK: false},
	// phantoms on the loopback interface, for runs with the real (caching, dialing) liveness tester: a port with a listener
	// (the phantom answers), another loopback address without one. The ports are set by c07Setup.
	{name: "loopback-listener", port: &c07LoopbackPorts[0], v4: c07u32(0x7F000001), v6OK: true},
	{name: "loopback-other-address", port: &c07LoopbackPorts[1], v4: c07u32(0x7F000002), v6OK: true},
	// a SILENT loopback phantom: a listening socket whose accept queue is full — the kernel drops every further SYN, a dial
	// times out (the only way to a "did not answer" verdict of the real tester here: every other dial is refused at once)
	{name: "loopback-silent", port: &c07LoopbackPorts[2], v4: c07u32(0x7F000003), v6OK: true},
}

var c07LoopbackPorts [3]uint32

// ground truth for the loopback phantoms, independent of what any tester says: does the host answer a probe (a listener that
// accepts; a closed port that answers with a reset) or not (the silent one)
var c07LoopbackAnswers = map[string]bool{"127.0.0.1": true, "127.0.0.2": true, "127.0.0.3": false}

// liveness cache configurations of the runs with the real tester of pkg/station/liveness (index 0: scripted verdicts, no real
// tester). New entries are appended: the index is part of the replay format.
var c07CacheConfigs = []struct {
	name string
	cfg  liveness.Config
}{
	{"scripted", liveness.Config{}},
	{"uncached", liveness.Config{}},
	{"live cache only (map)", liveness.Config{CacheDuration: "1h"}},
	{"non-live cache only (map)", liveness.Config{CacheDurationNonLive: "1h"}},
	{"both caches (map)", liveness.Config{CacheDuration: "1h", CacheDurationNonLive: "1h"}},
	{"live cache only (LRU, capacity 1)", liveness.Config{CacheDuration: "1h", CacheCapacity: 1}},
	{"non-live cache only (LRU, capacity 1)", liveness.Config{CacheDurationNonLive: "1h", CacheCapacityNonLive: 1}},
	{"both caches (LRU, capacity 1)", liveness.Config{CacheDuration: "1h", CacheCapacity: 1, CacheDurationNonLive: "1h", CacheCapacityNonLive: 1}},
	// lifetime of one nanosecond: every entry has expired by the time of the next question (the model's clock gives the
	// messages of a history one second each), so every verdict is measured again; the map cache keeps the expired entry
	{"both caches (map), lifetime 1 ns", liveness.Config{CacheDuration: "1ns", CacheDurationNonLive: "1ns"}},
}

// c07DurField: a cache lifetime of the liveness configuration as the model line carries it
func c07DurField(s string) string {
	if s == "" {
		return "-"
	}
	d, err := time.ParseDuration(s)
	if err != nil {
		return "E"
	}
	return strconv.FormatInt(d.Nanoseconds(), 10)
}

func (ov c07Override) present() bool {
	return ov.port != nil || ov.v4 != nil || ov.v6 != nil || ov.tparams != 0
}

// the IPv4 override is applied only when it is present and not zero
func (ov c07Override) v4Applied() bool { return ov.v4 != nil && *ov.v4 != 0 }

type c07Station struct {
	e4, e6, share bool
	block         int
	live          bool // the boolean of the liveness verdict
	lerr          int  // its error component (c07VerdictErr); 0 = the usual companion of the boolean
	peer          int  // how the peer-station API answers a share request (c07PeerModes)
}

// the error component of a liveness verdict (live, err): the full product of the two booleans with these kinds is generated
const c07VerdictKinds = 6

var c07ErrOther = errors.New("connect: connection refused")

func c07VerdictErr(live bool, kind int) error {
	notLive := fmt.Errorf("%w %v", liveness.NotLive, 750*time.Millisecond)
	switch kind {
	case 1:
		return nil
	case 2:
		return liveness.ErrCachedPhantom // answered from the cache of live / of not-live phantoms
	case 3:
		return c07ErrOther
	case 4:
		return context.DeadlineExceeded
	case 5: // the companion of the OTHER boolean
		if live {
			return notLive
		}
		return liveness.ErrLiveHost
	}
	if live {
		return liveness.ErrLiveHost
	}
	return notLive
}

// c07VerdictKind classifies the error a tester answered (the real, caching tester: its verdict is recorded, not scripted)
func c07VerdictKind(live bool, err error) int {
	switch {
	case err == nil:
		return 1
	case errors.Is(err, liveness.ErrCachedPhantom):
		return 2
	case errors.Is(err, context.DeadlineExceeded) || errors.Is(err, context.Canceled):
		return 4
	case errors.Is(err, liveness.NotLive):
		if live {
			return 5
		}
		return 0
	case errors.Is(err, liveness.ErrLiveHost):
		if live {
			return 0
		}
		return 5
	}
	return 3
}

// peer-station API behaviours: what happens to a share request
var c07PeerModes = []string{"answers 200", "answers 404", "answers 503", "takes the request, closes without a reply", "slow, answers 200", "unreachable"}

func (st c07Station) verdictChar() byte {
	if st.lerr == 0 {
		return vlib.B(st.live)[0]
	}
	v := 2 + (st.lerr-1)*2
	if st.live {
		v++
	}
	return "0123456789ab"[v]
}

// second message of the session
const (
	c07DupSame       = 0 // the identical message
	c07DupPrescanned = 1 // pre-scanned flag flipped
	c07DupCovert     = 2 // covert address swapped between allowed and forbidden
	c07DupSource     = 3 // source swapped (Detector → API, anything else → Detector)
	c07DupPeerShare  = 4 // the copy a peer station shares: source DetectorPrescan, pre-scanned
	c07DupKinds      = 5
)

type c07Cell struct {
	garbage, payload bool
	v4s, v6s         bool
	registrant       int
	source           int
	transport        int
	gen              int
	libver           uint32
	prescanned       bool
	covert           int
	override         int
	disableOv        bool // disable_registrar_overrides
	dup              int  // what the second message of the session is
	hand             bool // delivery: false = through the station's ingest worker (startIngestThread), true = parseRegMessage + ingestRegistration called directly (most of the big decision table: it is cheaper)
}

// second returns the second message of the session
func (c c07Cell) second() c07Cell {
	d := c
	switch c.dup {
	case c07DupPrescanned:
		d.prescanned = !c.prescanned
	case c07DupCovert:
		if c.covert == 0 {
			d.covert = 1
		} else {
			d.covert = 0
		}
	case c07DupSource:
		if c.source == 1 {
			d.source = 0
		} else {
			d.source = 1
		}
	case c07DupPeerShare:
		d.source, d.prescanned = 2, true
	}
	return d
}

func (st c07Station) String() string {
	s := fmt.Sprintf("%s%s%s%d%c", vlib.B(st.e4), vlib.B(st.e6), vlib.B(st.share), st.block, st.verdictChar())
	if st.peer != 0 {
		s += strconv.Itoa(st.peer)
	}
	return s
}

// c07ParseVerdict reads the verdict character of a replay
func c07ParseVerdict(ch byte) (live bool, lerr int, ok bool) {
	v := strings.IndexByte("0123456789ab", ch)
	if v < 0 {
		return false, 0, false
	}
	if v < 2 {
		return v == 1, 0, true
	}
	return v%2 == 1, 1 + (v-2)/2, true
}

func (c c07Cell) String() string {
	s := fmt.Sprintf("%s%s%s%s.%d.%d.%d.%d.%d.%s.%d.%d.%s.%d", vlib.B(c.garbage), vlib.B(c.payload), vlib.B(c.v4s), vlib.B(c.v6s), c.registrant, c.source, c.transport, c.gen, c.libver,
		vlib.B(c.prescanned), c.covert, c.override, vlib.B(c.disableOv), c.dup)
	if c.hand {
		s += ".h"
	}
	return s
}

// c07ParseReplay reads `<station>/<cell>`; the cell has 9 (older replays) or 11 dot-separated fields, and `.h` for direct delivery.
func c07ParseReplay(s string) (c07Station, c07Cell, error) {
	var st c07Station
	var c c07Cell
	p := strings.Split(s, "/")
	if len(p) != 2 || (len(p[0]) != 5 && len(p[0]) != 6) {
		return st, c, fmt.Errorf("bad replay %q", s)
	}
	b := func(ch byte) bool { return ch == '1' }
	st = c07Station{e4: b(p[0][0]), e6: b(p[0][1]), share: b(p[0][2]), block: int(p[0][3] - '0')}
	var vok bool
	if st.live, st.lerr, vok = c07ParseVerdict(p[0][4]); !vok {
		return st, c, fmt.Errorf("bad replay %q: liveness verdict", s)
	}
	if len(p[0]) == 6 {
		st.peer = int(p[0][5] - '0')
		if st.peer < 0 || st.peer >= len(c07PeerModes) {
			return st, c, fmt.Errorf("bad replay %q: peer behaviour", s)
		}
	}
	f := strings.Split(p[1], ".")
	if len(f) == 12 && f[11] == "h" {
		c.hand, f = true, f[:11]
	}
	if (len(f) != 9 && len(f) != 11) || len(f[0]) != 4 {
		return st, c, fmt.Errorf("bad replay %q", s)
	}
	num := func(x string) int {
		n, err := strconv.Atoi(x)
		if err != nil {
			n = -1
		}
		return n
	}
	c.garbage, c.payload, c.v4s, c.v6s = b(f[0][0]), b(f[0][1]), b(f[0][2]), b(f[0][3])
	c.registrant, c.source, c.transport, c.gen, c.libver = num(f[1]), num(f[2]), num(f[3]), num(f[4]), uint32(num(f[5]))
	c.prescanned, c.covert, c.override = f[6] == "1", num(f[7]), num(f[8])
	if len(f) == 11 {
		c.disableOv, c.dup = f[9] == "1", num(f[10])
	}
	if c.registrant < 0 || c.registrant >= len(c07Registrants) || c.source < 0 || c.source >= len(c07Sources) || c.transport < 0 || c.transport >= len(c07Transports) ||
		c.gen < 0 || c.gen >= len(c07Gens) || c.covert < 0 || c.covert >= len(c07Coverts) || c.override < 0 || c.override >= len(c07Overrides) || c.dup < 0 || c.dup >= c07DupKinds || st.block < 0 || st.block >= len(c07Blocklists) {
		return st, c, fmt.Errorf("bad replay %q: index out of range", s)
	}
	return st, c, nil
}

// ---------------------------------------------------------------------------------------------
// recorders

type c07Event struct {
	seq     int
	kind    byte // 'P' probe, 'S' share request received by the peer, 'T' share request that did not reach it, 'A' announce, 'U' update, 'X' panic in the ingest worker
	phantom string
	port    int
	proto   int
	body    []byte
	live    bool // 'P': what the tester answered
	lerr    int  // 'P': the kind of error it answered with
}

type c07Recorder struct {
	mu  sync.Mutex
	seq int
	evs []c07Event
}

func (r *c07Recorder) add(e c07Event) {
	r.mu.Lock()
	r.seq++
	e.seq = r.seq
	r.evs = append(r.evs, e)
	r.mu.Unlock()
}

func (r *c07Recorder) take() []c07Event {
	r.mu.Lock()
	defer r.mu.Unlock()
	e := r.evs
	r.evs = nil
	return e
}

func (r *c07Recorder) has(kind byte) bool {
	r.mu.Lock()
	defer r.mu.Unlock()
	for _, e := range r.evs {
		if e.kind == kind {
			return true
		}
	}
	return false
}

// the liveness tester of the harness's stations: answers the scripted verdict (live, error kind) of the world — or hands the
// question to the real tester set in the world (the caching tester of pkg/station/liveness) — and records probe and verdict
type c07Live struct{ w *c07World }

func (l c07Live) PhantomIsLive(addr string, port uint16) (bool, error) {
	w := l.w
	if w.realTester != nil {
		live, err := w.realTester.PhantomIsLive(addr, port)
		w.rec.add(c07Event{kind: 'P', phantom: addr, port: int(port), live: live, lerr: c07VerdictKind(live, err)})
		return live, err
	}
	w.rec.add(c07Event{kind: 'P', phantom: addr, port: int(port), live: w.live, lerr: w.lerr})
	return w.live, c07VerdictErr(w.live, w.lerr)
}
func (c07Live) PrintAndReset(*log.Logger) {}
func (c07Live) PrintStats(*log.Logger)    {}
func (c07Live) Reset()                    {}

// peer-share stand-in: records every request it RECEIVES ('S') and behaves as the world's peer mode says; a request that does
// not reach it (unreachable peer) is recorded as an attempt ('T')
type c07Peer struct{ w *c07World }

func (p c07Peer) RoundTrip(req *http.Request) (*http.Response, error) {
	body, _ := io.ReadAll(req.Body)
	req.Body.Close()
	answer := func(code int) (*http.Response, error) {
		return &http.Response{StatusCode: code, Status: fmt.Sprintf("%d %s", code, http.StatusText(code)), Proto: "HTTP/1.1", ProtoMajor: 1, ProtoMinor: 1, Header: http.Header{}, Body: io.NopCloser(bytes.NewReader(nil)), Request: req}, nil
	}
	mode := p.w.peer
	if mode == 5 {
		p.w.rec.add(c07Event{kind: 'T', phantom: req.URL.String(), body: body})
		return nil, &net.OpError{Op: "dial", Net: "tcp", Err: errors.New("connect: no route to host")}
	}
	p.w.rec.add(c07Event{kind: 'S', phantom: req.URL.String(), body: body})
	switch mode {
	case 1:
		return answer(404)
	case 2:
		return answer(503)
	case 3:
		return nil, io.ErrUnexpectedEOF // the request was taken, the connection closed before any reply
	case 4:
		time.Sleep(2 * time.Millisecond)
	}
	return answer(200)
}

type c07Geo struct{}

func (c07Geo) isErr(ip net.IP) bool { return ip.Equal(net.IP{203, 0, 113, 66}) }
func (g c07Geo) ASN(ip net.IP) (uint, error) {
	if g.isErr(ip) {
		return 0, errors.New("lookup failed")
	}
	return 64500, nil
}
func (g c07Geo) CC(ip net.IP) (string, error) {
	if g.isErr(ip) {
		return "", errors.New("lookup failed")
	}
	return "ZZ", nil
}

const c07Endpoint = "http://peer.invalid/register-preshare"

// every signature keeps its own quota of recorded failures: a defect that fails thousands of cells must not
// push the failures of another defect out of the report (vlib stops recording after 600 failures in total)
type c07Out struct {
	*vlib.Out
	perSig map[string]int
}

func (o *c07Out) OracleFail(sig, what, replay string) {
	o.perSig[sig]++
	if o.perSig[sig] > 25 {
		o.Out.Count("oracle-failures-not-recorded:" + sig)
		return
	}
	o.Out.OracleFail(sig, what, replay)
}

// ---------------------------------------------------------------------------------------------

type c07World struct {
	t            *testing.T
	out          *c07Out
	rec          *c07Recorder
	live         bool            // the scripted liveness verdict …
	lerr         int             // … and its error component
	peer         int             // how the peer API behaves
	realTester   liveness.Tester // when set: the tester that answers instead of the script
	rms          map[string]*RegistrationManager
	workers      map[*RegistrationManager]chan interface{} // the ingest worker of each manager is fed through this channel
	base         int                                       // goroutines when idle
	selMemo      map[c07SelKey]c07SelAnswer                // answers of the phantom selector (all managers read the same subnet file)
	keep         []net.Conn                                // connections that fill the accept queue of the silent phantom
	sharesMissed int                                       // expected share requests that did not come
}

type c07SelKey struct {
	seed   string
	gen    uint32
	libver uint
	v6     bool
}

type c07SelAnswer struct {
	s  string
	ok bool
}

// setStation scripts what the libraries around the station answer while the next message is ingested
func (w *c07World) setStation(st c07Station) {
	w.live, w.lerr, w.peer = st.live, st.lerr, st.peer
}

func c07Canon(ip []byte) string {
	if p4 := net.IP(ip).To4(); p4 != nil {
		return "4." + hex.EncodeToString(p4)
	}
	if len(ip) == 16 {
		return "6." + hex.EncodeToString(ip)
	}
	return "?" + hex.EncodeToString(ip)
}

func (w *c07World) manager(st c07Station) *RegistrationManager {
	key := fmt.Sprintf("%v%v%v%d", st.e4, st.e6, st.share, st.block)
	if rm, ok := w.rms[key]; ok {
		return rm
	}
	conf := &RegConfig{EnableIPv4: st.e4, EnableIPv6: st.e6, EnableShareOverAPI: st.share, PreshareEndpoint: c07Endpoint,
		PhantomBlocklist: c07Blocklists[st.block], CovertBlocklistSubnets: []string{c07CovertBlocklist}}
	if err := conf.ParseBlocklists(); err != nil {
		// every station blocklist of this harness is a list of well-formed CIDRs (some with white space around them, one in
		// IPv4-mapped spelling): a station that refuses it does not start, and none of its phantoms is ever refused. That is
		// a failure of the property clause on the configured text (the same signature as on the generated lists of `c07b`),
		// not a reason to stop the run: report it with a `c07bl|` replay and go on with the entries the code does accept.
		var tx []string
		for _, e := range c07Blocklists[st.block] {
			tx = append(tx, "t"+hex.EncodeToString([]byte(e)))
		}
		w.out.Checked()
		w.out.OracleFail("C07:blocklist-text:well-formed-list-refused", fmt.Sprintf("phantom_blocklist %q of station %s was refused: %v", c07Blocklists[st.block], st.String(), err),
			"c07bl|"+strings.Join(tx, " ")+"|c07ab801|200148a8687f00000000000000000001")
		var accepted []string
		for _, e := range c07Blocklists[st.block] {
			one := &RegConfig{PhantomBlocklist: []string{e}}
			if one.ParseBlocklists() == nil {
				accepted = append(accepted, e)
			}
		}
		conf.PhantomBlocklist = accepted
		if err := conf.ParseBlocklists(); err != nil {
			conf.PhantomBlocklist = nil
			if err := conf.ParseBlocklists(); err != nil {
				w.t.Fatal(err)
			}
		}
	}
	rm := NewRegistrationManager(conf)
	if rm == nil {
		w.t.Fatal("NewRegistrationManager returned nil")
	}
	rm.Logger = log.New(io.Discard, "", golog.Ldate)
	rm.LivenessTester = c07Live{w: w}
	rm.GeoIP = c07Geo{}
	if err := rm.AddTransport(pb.TransportType_Min, min.Transport{}); err != nil {
		w.t.Fatal(err)
	}
	if err := rm.AddTransport(pb.TransportType_Prefix, prefix.DefaultSet()); err != nil {
		w.t.Fatal(err)
	}
	w.rms[key] = rm
	w.startWorker(rm)
	return rm
}

// startWorker runs the station's real ingest worker (startIngestThread) for the manager, fed through its channel: messages are
// delivered to the station the way the pipeline delivers them. A panic inside the worker is recorded ('X') and the worker
// is started again.
func (w *c07World) startWorker(rm *RegistrationManager) {
	ch := make(chan interface{})
	w.workers[rm] = ch
	go func() {
		for {
			func() {
				defer func() {
					if r := recover(); r != nil {
						w.rec.add(c07Event{kind: 'X', phantom: fmt.Sprint(r)})
					}
				}()
				var wg sync.WaitGroup
				wg.Add(1)
				rm.startIngestThread(context.Background(), ch, &wg)
			}()
		}
	}()
}

// deliver hands one wire message to the ingest worker and returns when the worker is done with it: the channel is unbuffered
// and the worker takes the next message only after it finished the previous one, so it is done once it took a second, empty
// message (an empty wrapper: no payload, nothing to ingest).
func (w *c07World) deliver(rm *RegistrationManager, raw []byte) {
	ch := w.workers[rm]
	ch <- raw
	ch <- []byte{}
}

// reset empties the registry (white-box) and re-installs the announce stubs.
func (w *c07World) reset(rm *RegistrationManager) {
	rd := rm.registeredDecoys
	rd.m.Lock()
	rd.decoys = make(map[string]map[string]*DecoyRegistration)
	rd.decoysTimeouts = make(map[string]*DecoyTimeout)
	rd.registerForDetector = func(d *DecoyRegistration) {
		w.rec.add(c07Event{kind: 'A', phantom: c07Canon(d.PhantomIp), port: int(d.PhantomPort), proto: int(d.PhantomProto)})
	}
	rd.updateInDetector = func(d *DecoyRegistration) {
		w.rec.add(c07Event{kind: 'U', phantom: c07Canon(d.PhantomIp)})
	}
	rd.m.Unlock()
	w.rec.take()
}

// quiesce waits until the goroutines started by ingest (the peer-share request) have finished. When
// the cell is expected to share, it first waits for the request to be recorded; then for the goroutine
// count to be back at the idle level. The idle level is the lowest count ever seen; a count that stays
// above it without moving for a long stretch (a goroutine some library started lazily) becomes the
// new idle level instead of an error.
func (w *c07World) quiesce(expectShare bool) {
	// The share request is a goroutine that ingestRegistration starts before it returns: while it is on its way the goroutine
	// count is above the idle level. So the wait for an expected request ends early once the count has been at the idle level
	// for a while (the request is not coming: a wrong expectation must not cost two seconds per cell — a change that drops
	// whole messages made a quick run take longer than its time limit that way), and a run in which many expected requests
	// did not come stops waiting for them at all.
	seen := func() bool { return w.rec.has('S') || w.rec.has('T') }
	if expectShare && !seen() && w.sharesMissed < 50 {
		deadline := time.Now().Add(2 * time.Second)
		idle := 0
		for !seen() && time.Now().Before(deadline) && idle < 300 {
			if runtime.NumGoroutine() <= w.base {
				idle++
			} else {
				idle = 0
			}
			runtime.Gosched()
			time.Sleep(10 * time.Microsecond)
		}
		if !seen() {
			w.sharesMissed++
			w.out.Count("quiesce:expected-share-not-seen")
		}
	}
	last, stable := -1, 0
	for i := 0; ; i++ {
		n := runtime.NumGoroutine()
		if n <= w.base {
			w.base = n
			return
		}
		if n == last {
			stable++
		} else {
			last, stable = n, 0
		}
		if stable >= 3000 { // ≥ 60 ms without any change
			w.out.Count("quiesce:idle-level-raised")
			w.base = n
			return
		}
		if i < 1000 {
			runtime.Gosched()
		} else {
			time.Sleep(20 * time.Microsecond)
		}
	}
}

func (c c07Cell) wrapper(secret []byte) *pb.C2SWrapper {
	tr := c07Transports[c.transport]
	c2s := &pb.ClientToStation{
		ClientLibVersion:    proto.Uint32(c.libver),
		Transport:           tr.tt.Enum(),
		CovertAddress:       proto.String(c07Coverts[c.covert].addr),
		DecoyListGeneration: proto.Uint32(c07Gens[c.gen].gen),
		V4Support:           proto.Bool(c.v4s),
		V6Support:           proto.Bool(c.v6s),
	}
	if c.prescanned {
		c2s.Flags = &pb.RegistrationFlags{Prescanned: proto.Bool(true)}
	}
	if c.disableOv {
		c2s.DisableRegistrarOverrides = proto.Bool(true)
	}
	var params proto.Message
	switch {
	case tr.badParams:
		params = &pb.DTLSTransportParams{RandomizeDstPort: proto.Bool(true)} // wrong type for this transport
	case tr.tt == pb.TransportType_Prefix:
		params = &pb.PrefixTransportParams{PrefixId: proto.Int32(0), RandomizeDstPort: proto.Bool(true)}
	case tr.tt == pb.TransportType_Min:
		params = &pb.GenericTransportParams{RandomizeDstPort: proto.Bool(true)}
	}
	if params != nil {
		a, err := anypb.New(params)
		if err != nil {
			panic(err)
		}
		c2s.TransportParams = a
	}
	src := c07Sources[c.source]
	wr := &pb.C2SWrapper{SharedSecret: secret}
	if src != pb.RegistrationSource_Unspecified {
		wr.RegistrationSource = &src
	}
	if c.payload {
		wr.RegistrationPayload = c2s
	}
	if b := c07Registrants[c.registrant].b; b != nil {
		wr.RegistrationAddress = b
	}
	ov := c07Overrides[c.override]
	if ov.present() {
		rr := &pb.RegistrationResponse{DstPort: ov.port, Ipv4Addr: ov.v4, Ipv6Addr: ov.v6}
		var rp proto.Message
		switch {
		case ov.tparams == 2:
			rp = &pb.DTLSTransportParams{RandomizeDstPort: proto.Bool(true)} // wrong type
		case ov.tparams == 1 && tr.tt == pb.TransportType_Prefix:
			rp = &pb.PrefixTransportParams{PrefixId: proto.Int32(0), RandomizeDstPort: proto.Bool(false)}
		case ov.tparams == 1:
			rp = &pb.GenericTransportParams{RandomizeDstPort: proto.Bool(false)}
		}
		if rp != nil {
			a, err := anypb.New(rp)
			if err != nil {
				panic(err)
			}
			rr.TransportParams = a
		}
		wr.RegistrationResponse = rr
	}
	return wr
}

func c07BuildKind(err error) string {
	if err == nil {
		return "ok"
	}
	s := err.Error()
	switch {
	case strings.Contains(s, "failed to build registration"):
		return "newreg"
	case strings.Contains(s, "phantom override"):
		return "override"
	case strings.Contains(s, "registration address is not"):
		return "registrant"
	case strings.Contains(s, "IPv6 client chose IPv4 phantom"):
		return "family"
	case strings.Contains(s, "geoip"):
		return "geo"
	}
	return "other:" + s
}

func c07OptHex(b []byte) string {
	if b == nil {
		return "-"
	}
	if len(b) == 0 {
		return "e"
	}
	return hex.EncodeToString(b)
}

// result of one pass (one wire message) on the implementation
type c07Pass struct {
	parse  string
	nregs  int
	evs    []c07Event
	evsStr string
	state  string
	fam    [2]c07FamState
}

type c07FamState struct {
	tracked, valid, connect bool
	count                   int
}

type c07Fam struct {
	reg  *DecoyRegistration // built directly by NewRegistrationC2SWrapper (same key as the ingested one)
	kind string
}

// wire builds the model's description of one message: its decision-relevant fields and what the
// libraries answer for it (real calls). ok = the selector kept its contract (SelectorFam).
func (w *c07World) wire(rm *RegistrationManager, st c07Station, c c07Cell, secret []byte) (wire string, selectorOK bool) {
	if c.garbage {
		return "G", true
	}
	selectorOK = true
	wr := c.wrapper(secret)
	var c2s *pb.ClientToStation
	if c.payload {
		c2s = wr.RegistrationPayload
	}
	libver := uint(c2s.GetClientLibVersion())
	keys, err := core.GenSharedKeys(libver, secret, c2s.GetTransport())
	if err != nil {
		w.t.Fatal(err)
	}
	sel := func(v6 bool) string {
		// (the answer of the real selector for one seed / generation / version / family is asked once and kept: the second
		// message of a cell mostly asks the same question, and selection is the most expensive call of the run)
		key := c07SelKey{string(keys.ConjureSeed), c2s.GetDecoyListGeneration(), libver, v6}
		if a, ok := w.selMemo[key]; ok {
			selectorOK = selectorOK && a.ok
			return a.s
		}
		if len(w.selMemo) > 64 {
			w.selMemo = map[c07SelKey]c07SelAnswer{}
		}
		a := c07SelAnswer{s: "-", ok: true}
		if p, err := rm.PhantomSelector.Select(keys.ConjureSeed, uint(c2s.GetDecoyListGeneration()), libver, v6); err == nil {
			// the selector hands out an address of the requested family (C14); the theorems and the
			// expectations of this harness rely on it (assumption SelectorFam)
			if (p.IP().To4() == nil) != v6 || p.IP().To16() == nil {
				a.ok = false
			}
			a.s = hex.EncodeToString(*p.IP()) + "/" + vlib.B(p.SupportRandomPort())
		}
		w.selMemo[key] = a
		selectorOK = selectorOK && a.ok
		return a.s
	}
	verdict := func(t Transport, a *anypb.Any) (ok, port string) {
		ok, port = "0", "-"
		params, err := t.ParseParams(libver, a)
		if err == nil {
			ok = "1"
			if p, err := t.GetDstPort(libver, keys.ConjureSeed, params); err == nil {
				port = fmt.Sprint(p)
			}
		}
		return
	}
	paramsOK, tpPort, protoN, ident := "0", "-", 0, "00"
	rrOK, rrPort := "0", "-"
	if t, ok := rm.registeredDecoys.transports[c2s.GetTransport()]; ok {
		paramsOK, tpPort = verdict(t, c2s.GetTransportParams())
		if rp := wr.GetRegistrationResponse().GetTransportParams(); rp != nil {
			rrOK, rrPort = verdict(t, rp)
		}
		protoN = int(t.GetProto())
		ident = hex.EncodeToString([]byte(t.GetIdentifier(&DecoyRegistration{Keys: &keys, Transport: c2s.GetTransport()})))
	}
	covertStr, _ := rm.ParseOrResolveBlocklisted(c2s.GetCovertAddress())
	rg := c07Registrants[c.registrant]
	geoOK := !(c07Geo{}).isErr(net.IP(rg.b))
	rr := "-"
	if ov := c07Overrides[c.override]; ov.present() {
		f := []string{"-", "-", c07OptHex(ov.v6), vlib.B(ov.tparams != 0)}
		if ov.port != nil {
			f[0] = fmt.Sprint(*ov.port)
		}
		if ov.v4 != nil {
			f[1] = fmt.Sprint(*ov.v4)
		}
		rr = strings.Join(f, ":")
	}
	src := 0
	if wr.RegistrationSource != nil {
		src = int(*wr.RegistrationSource)
	}
	wire = fmt.Sprintf("M,%s,%s,%s,%s,%d,%d,%d,%s,%s,%s:%s:%s:%s:%d:%s:%s:%s:%s,%s,%s:%s",
		vlib.B(c.payload), vlib.B(c2s.GetV4Support()), vlib.B(c2s.GetV6Support()), c07OptHex(rg.b), src, int(c2s.GetTransport()), libver,
		vlib.B(c2s.GetFlags().GetPrescanned()), rr,
		sel(false), sel(true), paramsOK, tpPort, protoN, vlib.B(geoOK), vlib.B(covertStr != ""), c07VerdictField(st), ident,
		vlib.B(c2s.GetDisableRegistrarOverrides()), rrOK, rrPort)
	return wire, selectorOK
}

// directBuild: what NewRegistrationC2SWrapper answers on its own for the two families of one (decodable) message
func (w *c07World) directBuild(rm *RegistrationManager, raw []byte) (fams [2]c07Fam) {
	for i, v6 := range []bool{false, true} {
		parsed := &pb.C2SWrapper{}
		if err := proto.Unmarshal(raw, parsed); err != nil {
			w.t.Fatal(err)
		}
		if parsed.GetRegistrationAddress() == nil {
			parsed.RegistrationAddress = make([]byte, 16)
		}
		func() {
			defer func() {
				if r := recover(); r != nil {
					fams[i].kind = "panic"
				}
			}()
			reg, err := rm.NewRegistrationC2SWrapper(parsed, v6)
			fams[i].kind = c07BuildKind(err)
			if err == nil {
				fams[i].reg = reg
			}
		}()
	}
	return fams
}

// ingestOne hands one wire message to the station's real ingest worker (startIngestThread, fed through its channel) and
// records what happened. What parseRegMessage answers for the message is observed by a separate call (the call has no effect
// on the registry); everything else is what the worker did with the message. fams: the registrations the message yields
// (direct construction), v4s: the client supports IPv4 (then the share request, if any, is the IPv4 registration's),
// expectShare: a share request is expected (it is then waited for).
func (w *c07World) ingestOne(rm *RegistrationManager, raw []byte, fams [2]c07Fam, v4s bool, expectShare bool, hand bool, p *c07Pass) {
	var regs []*DecoyRegistration
	var err error
	func() {
		defer func() {
			if r := recover(); r != nil {
				err = fmt.Errorf("panic: %v", r)
				p.parse = "panic"
			}
		}()
		regs, err = rm.parseRegMessage(raw)
	}()
	if p.parse == "" {
		if err != nil {
			p.parse = "err"
		} else {
			p.parse = fmt.Sprintf("n=%d", len(regs))
		}
	}
	p.nregs = len(regs)
	w.rec.take()
	switch {
	case p.parse == "panic":
	case hand:
		// direct delivery: what the worker's loop body does with the answer of parseRegMessage, written out
		if err == nil {
			for _, reg := range regs {
				if reg == nil {
					continue
				}
				func() {
					defer func() {
						if r := recover(); r != nil {
							w.rec.add(c07Event{kind: 'X', phantom: fmt.Sprint(r)})
						}
					}()
					rm.ingestRegistration(reg)
				}()
			}
		}
	default:
		w.deliver(rm, raw)
	}
	w.quiesce(expectShare)
	evs := w.rec.take()
	p.evs = evs
	// canonical order: per registration (IPv4 first) probes, share requests, announcements, updates (the share request runs
	// in its own goroutine, so its position relative to the announcement is not fixed; its position relative to the probe
	// is, and is checked by the oracle); then whatever concerns neither registration of the message
	var evStrs []string
	used := make([]bool, len(evs))
	shareOwner := 1
	if v4s {
		shareOwner = 0
	}
	for fi, f := range fams {
		if f.reg == nil {
			continue
		}
		for _, k := range []byte{'P', 'S', 'A', 'U'} {
			for i, e := range evs {
				if used[i] {
					continue
				}
				switch {
				case k == 'P' && e.kind == 'P' && e.phantom == f.reg.PhantomIp.String():
					evStrs = append(evStrs, fmt.Sprintf("P:%s:%d", c07Canon(net.ParseIP(e.phantom)), e.port))
				case k == 'S' && (e.kind == 'S' || e.kind == 'T') && fi == shareOwner:
					sh := &pb.C2SWrapper{}
					if err := proto.Unmarshal(e.body, sh); err != nil {
						evStrs = append(evStrs, "S:undecodable")
					} else {
						evStrs = append(evStrs, fmt.Sprintf("S:%s:%d:%s", c07Canon(f.reg.PhantomIp), int(sh.GetRegistrationSource()), vlib.B(sh.GetRegistrationPayload().GetFlags().GetPrescanned())))
					}
				case k == 'A' && e.kind == 'A' && e.phantom == c07Canon(f.reg.PhantomIp):
					evStrs = append(evStrs, fmt.Sprintf("A:%s:%d:%d", e.phantom, e.port, e.proto))
				case k == 'U' && e.kind == 'U' && e.phantom == c07Canon(f.reg.PhantomIp):
					evStrs = append(evStrs, "U:"+e.phantom)
				default:
					continue
				}
				used[i] = true
			}
		}
	}
	for i, e := range evs {
		if used[i] {
			continue
		}
		switch e.kind {
		case 'X':
			evStrs = append(evStrs, "panic:"+e.phantom)
		case 'S', 'T':
			evStrs = append(evStrs, "S:?")
		default:
			evStrs = append(evStrs, fmt.Sprintf("%c:?:%s:%d", e.kind, e.phantom, e.port))
		}
	}
	p.evsStr = strings.Join(evStrs, ",")
}

// famStates: observable state of each family's registration (looked up by the key of the directly built one)
func (w *c07World) famStates(rm *RegistrationManager, fams [2]c07Fam, p *c07Pass) {
	var ss []string
	for i := range fams {
		f := &fams[i]
		if f.reg == nil {
			ss = append(ss, "-")
			continue
		}
		fs := &p.fam[i]
		tr := rm.registeredDecoys.RegistrationExists(f.reg)
		fs.tracked, fs.valid = tr != nil, tr != nil && tr.Valid
		if tr != nil {
			fs.count = int(tr.regCount)
		}
		if t, ok := rm.registeredDecoys.transports[f.reg.Transport]; ok {
			_, fs.connect = rm.GetRegistrations(f.reg.PhantomIp)[t.GetIdentifier(f.reg)]
		}
		ss = append(ss, fmt.Sprintf("%s:%s:%s:%d:%s", c07Canon(f.reg.PhantomIp), vlib.B(fs.tracked), vlib.B(fs.valid), fs.count, vlib.B(fs.connect)))
	}
	p.state = strings.Join(ss, ",")
}

// the liveness verdict (and the peer's behaviour) as the model reads them: `<live>` or `<live>.<error kind>.<peer>`
func c07VerdictField(st c07Station) string {
	if st.lerr == 0 && st.peer == 0 {
		return vlib.B(st.live)
	}
	return fmt.Sprintf("%s.%d.%d", vlib.B(st.live), st.lerr, st.peer)
}

// runCell executes one cell on the implementation; returns the model line, the implementation's
// canonical answer, and evaluates the property oracle.
func (w *c07World) runCell(st c07Station, c c07Cell, secret []byte) (string, string) {
	rm := w.manager(st)
	w.reset(rm)
	w.setStation(st)
	replay := "c07cell|" + st.String() + "/" + c.String() + "/" + hex.EncodeToString(secret)
	cells := [2]c07Cell{c, c.second()}

	var raws [2][]byte
	for i, cc := range cells {
		if cc.garbage {
			raws[i] = []byte{0x0a, 0xff, 0xff, 0xff} // length prefix running past the end
		} else {
			var err error
			raws[i], err = proto.Marshal(cc.wrapper(secret))
			if err != nil {
				w.t.Fatal(err)
			}
		}
	}

	// ---- library verdicts for the model line (real calls)
	cfgLine := fmt.Sprintf("%s,%s,%s,%d %d,%s", vlib.B(st.e4), vlib.B(st.e6), vlib.B(st.share), int(pb.TransportType_Min), int(pb.TransportType_Prefix), c07BlocklistLine(st.block))
	wire1, selOK := w.wire(rm, st, cells[0], secret)
	fits := w.genFits(rm, c, secret)
	if !fits {
		w.out.Count("generation-by-secret:replayed-secret-does-not-fit")
	}
	wire2 := "D" // D = the same message again
	if c.dup != c07DupSame && !c.garbage {
		wire2, _ = w.wire(rm, st, cells[1], secret)
	}
	var fams [2]c07Fam
	if !c.garbage {
		fams = w.directBuild(rm, raws[0])
	}

	// ---- two passes through the real ingest path: the message, then the second message of the session
	var passes [2]c07Pass
	var hist []c07Event
	for pi := range passes {
		p := &passes[pi]
		w.rec.take()
		// which registration of this pass may be shared (its request is then waited for)
		var shareFam [2]bool
		for fi, v6 := range []bool{false, true} {
			fresh := pi == 0 || !passes[0].fam[fi].tracked
			shareFam[fi] = fresh && c07Expect(st, cells[pi], v6).mayShare
		}
		w.ingestOne(rm, raws[pi], fams, cells[pi].v4s && cells[pi].payload && !cells[pi].garbage, shareFam[0] || shareFam[1], c.hand, p)
		w.famStates(rm, fams, p)
		// every registration that lookups return now holds values that passed every admission condition
		hist = append(hist, p.evs...)
		if selOK && fits {
			w.oracleStored(st, rm, hist, replay, []string{"", "second message: "}[pi])
		}
	}

	var impl string
	if c.garbage {
		impl = "-,-;" + passes[0].parse + ";" + passes[0].evsStr + ";-,-|-,-;" + passes[1].parse + ";" + passes[1].evsStr + ";-,-"
	} else {
		k := fams[0].kind + "," + fams[1].kind
		impl = k + ";" + passes[0].parse + ";" + passes[0].evsStr + ";" + passes[0].state + "|" + k + ";" + passes[1].parse + ";" + passes[1].evsStr + ";" + passes[1].state
	}
	model := "c07|" + cfgLine + "|" + wire1 + "|" + wire2

	if !selOK {
		// the assumption SelectorFam does not hold for this cell: the expectations below are not
		// defined (the correspondence still is); the selector itself is C14's subject
		w.out.Count("assumption-broken:selector-wrong-family")
	} else if fits {
		w.oracle(st, cells, fams, passes, replay)
	}
	return model, impl
}

// the station's phantom_blocklist for the model line: the configured strings themselves (`t<hex of the text>`); the model parses
// them (CJ.IngestText.phantomBlocklist)
func c07BlocklistLine(block int) string {
	var s []string
	for _, cidr := range c07Blocklists[block] {
		s = append(s, "t"+hex.EncodeToString([]byte(cidr)))
	}
	return strings.Join(s, " ")
}

// the station's covert lists for the model line of the sequences: `<covert_blocklist_subnets>;<covert_allowlist_subnets>`
func c07CovertPolicyLine() string {
	return "t" + hex.EncodeToString([]byte(c07CovertBlocklist)) + ";"
}

// ---------------------------------------------------------------------------------------------
// the property oracle: expectations from how the cell was built

type c07Want struct {
	admit    bool
	why      string // first admission condition that does not hold
	probe    bool
	attempt  bool
	mayShare bool
}

func c07Expect(st c07Station, c c07Cell, v6 bool) c07Want {
	var w c07Want
	fail := func(cond bool, why string) {
		if !cond && w.why == "" {
			w.why = why
		}
	}
	rg := c07Registrants[c.registrant]
	g := c07Gens[c.gen]
	tr := c07Transports[c.transport]
	ov := c07Overrides[c.override]
	fail(!c.garbage, "message decodes")
	fail(c.payload, "payload present")
	if v6 {
		fail(c.v6s, "client supports the family")
		fail(st.e6, "family enabled on the station")
	} else {
		fail(c.v4s, "client supports the family")
		fail(st.e4, "family enabled on the station")
		fail(rg.v4, "IPv4 registration needs an IPv4 registrant")
	}
	w.attempt = w.why == ""
	fail(g.known, "known generation")
	if v6 {
		fail(g.has6, "generation has subnets of the family")
	} else {
		fail(g.has4, "generation has subnets of the family")
	}
	fail(tr.enabled, "enabled transport")
	// the parameters in force: the registrar's when the response carries some and the client did not
	// disable registrar overrides, else the client's
	paramsOK := tr.paramsOK
	if ov.tparams != 0 && !c.disableOv {
		paramsOK = ov.tparams == 1
	}
	if c.libver < 3 {
		// clients older than port randomisation: the min transport reads whatever parameters they send as "no
		// randomisation", the prefix transport did not exist for them and refuses
		paramsOK = tr.tt == pb.TransportType_Min
	}
	fail(paramsOK, "transport parameters parse")
	if v6 {
		fail(ov.v6OK, "phantom override is an address of the family")
	}
	fail(rg.valid, "registrant address well-formed")
	fail(!rg.geoErr, "geoip lookup succeeds")
	built := w.why == ""
	blocked := false
	if v6 {
		blocked = (st.block == 2 || st.block == 4) && (ov.v6 == nil || ov.v6Inside)
	} else {
		blocked = (st.block == 1 || st.block == 3) && (!ov.v4Applied() || ov.v4Inside)
	}
	detector := c07Sources[c.source] == pb.RegistrationSource_Detector
	fail(!blocked, "phantom not blocklisted")
	// up to here ValidateRegistration; for detector-sourced registrations the phantom blocklist is
	// applied after liveness and sharing
	validated := built && (detector || !blocked)
	fail(c07Coverts[c.covert].ok, "covert address passes the policy")
	needProbe := !v6 && !c.prescanned
	w.probe = validated && c07Coverts[c.covert].ok && needProbe
	fail(!(needProbe && st.live), "phantom did not answer the liveness probe")
	w.admit = w.why == ""
	w.mayShare = detector && st.share && validated && c07Coverts[c.covert].ok && !(needProbe && st.live) && !(v6 && c.v4s)
	return w
}

func (w *c07World) oracle(st c07Station, cells [2]c07Cell, fams [2]c07Fam, passes [2]c07Pass, replay string) {
	// pass 1: nothing is tracked; pass 2: a registration that pass 1 left tracked is a duplicate
	// (nothing may happen), one that pass 1 did not track is judged afresh on the second message
	w.oraclePass(st, cells[0], fams, &passes[0], nil, replay, "")
	w.oraclePass(st, cells[1], fams, &passes[1], &passes[0], replay, "second message: ")
	if passes[0].parse == "panic" || passes[1].parse == "panic" || strings.Contains(passes[0].evsStr, "panic") || strings.Contains(passes[1].evsStr, "panic") || fams[0].kind == "panic" || fams[1].kind == "panic" {
		w.out.OracleFail("C07:panic", "ingest panicked", replay)
	}
}

// oraclePass evaluates one message. prev = the pass before it (nil: empty registry).
func (w *c07World) oraclePass(st c07Station, c c07Cell, fams [2]c07Fam, pass, prev *c07Pass, replay, tag string) {
	out := w.out
	famName := []string{"IPv4", "IPv6"}
	count := func(evs []c07Event, kind byte, phantom string) (n int, first int) {
		for _, e := range evs {
			if e.kind == kind && (phantom == "" || e.phantom == phantom) {
				n++
				if first == 0 {
					first = e.seq
				}
			}
		}
		return
	}
	var wants [2]c07Want
	var fresh [2]bool
	for i, v6 := range []bool{false, true} {
		fresh[i] = prev == nil || !prev.fam[i].tracked
		if fresh[i] {
			wants[i] = c07Expect(st, c, v6)
		} else {
			wants[i] = c07Want{why: "the registration is already tracked (duplicate)"}
		}
	}
	probesWanted, probeSeq, admitsWanted := 0, 0, 0
	for i := range fams {
		want, f := wants[i], fams[i]
		// ---- admitted iff every condition holds
		announced := 0
		if f.reg != nil {
			announced, _ = count(pass.evs, 'A', c07Canon(f.reg.PhantomIp))
		}
		connect := f.reg != nil && pass.fam[i].connect
		wasConnect := prev != nil && prev.fam[i].connect
		out.Checked()
		dropped := want.admit && !(connect && announced == 1)
		switch {
		case dropped:
			sig := "C07:admissible-not-admitted"
			if pass.parse == "err" && fams[1-i].kind != "ok" && fams[i].kind == "ok" {
				sig = "C07:admissible-family-dropped-with-failing-twin"
			}
			out.OracleFail(sig, fmt.Sprintf("%sthe %s registration satisfies every admission condition but connectable=%v announced=%d (parseRegMessage: %s, construction v4/v6: %s/%s)",
				tag, famName[i], connect, announced, pass.parse, fams[0].kind, fams[1].kind), replay)
		case !want.admit && fresh[i] && (connect || announced > 0):
			out.OracleFail("C07:admitted-without:"+strings.ReplaceAll(want.why, " ", "-"),
				fmt.Sprintf("%sthe %s registration is connectable=%v announced=%d although this does not hold: %s", tag, famName[i], connect, announced, want.why), replay)
		case !fresh[i] && announced > 0:
			out.OracleFail("C07:duplicate-has-effects", fmt.Sprintf("%sthe %s registration was already tracked and is announced (%d)", tag, famName[i], announced), replay)
		case !fresh[i] && connect != wasConnect:
			out.OracleFail("C07:duplicate-changes-validity", fmt.Sprintf("%s%s registration (already tracked): connectable %v→%v", tag, famName[i], wasConnect, connect), replay)
		}
		if want.admit {
			admitsWanted++
		}
		// ---- announced with the port and protocol of the registration
		if f.reg != nil {
			for _, e := range pass.evs {
				if e.kind == 'A' && e.phantom == c07Canon(f.reg.PhantomIp) && (e.port != int(f.reg.PhantomPort) || e.proto != int(f.reg.PhantomProto)) {
					out.OracleFail("C07:announced-other-port", fmt.Sprintf("%sthe %s registration is for port %d proto %d, announced with port %d proto %d", tag, famName[i], f.reg.PhantomPort, f.reg.PhantomProto, e.port, e.proto), replay)
				}
			}
		}
		// ---- a probe exactly when one is required
		if want.probe {
			probesWanted++
		}
		if dropped && want.probe {
			probesWanted-- // the missing probe is part of the failure reported above
		}
		if f.reg != nil && !dropped {
			n, pseq := count(pass.evs, 'P', f.reg.PhantomIp.String())
			out.Checked()
			if want.probe && n != 1 {
				out.OracleFail("C07:probe-missing", fmt.Sprintf("%sthe %s registration requires a liveness probe, %d sent", tag, famName[i], n), replay)
			}
			if !want.probe && n != 0 {
				out.OracleFail("C07:probe-not-required", fmt.Sprintf("%sthe %s registration: %d liveness probe(s) although none is required", tag, famName[i], n), replay)
			}
			for _, e := range pass.evs {
				if e.kind == 'P' && e.phantom == f.reg.PhantomIp.String() && e.port != int(f.reg.PhantomPort) {
					out.OracleFail("C07:probe-other-port", fmt.Sprintf("%sthe %s registration is for port %d, probed on port %d", tag, famName[i], f.reg.PhantomPort, e.port), replay)
				}
			}
			if i == 0 {
				probeSeq = pseq
			}
		}
		// ---- a registration that was already tracked: nothing changes but the counter
		if f.reg != nil && prev != nil && !fresh[i] {
			a, b := prev.fam[i], pass.fam[i]
			out.Checked()
			if a.valid != b.valid || a.connect != b.connect || a.tracked != b.tracked {
				out.OracleFail("C07:duplicate-changes-validity", fmt.Sprintf("%s%s registration: valid %v→%v connectable %v→%v", tag, famName[i], a.valid, b.valid, a.connect, b.connect), replay)
			}
		}
	}
	out.Checked()
	if n, _ := count(pass.evs, 'P', ""); n != probesWanted {
		sig := "C07:probe-count"
		if prev != nil && !fresh[0] && !fresh[1] {
			sig = "C07:duplicate-has-effects"
		}
		out.OracleFail(sig, fmt.Sprintf("%s%d probe(s) sent, %d required", tag, n, probesWanted), replay)
	}
	// ---- whatever is announced is one of the admissible registrations of this message; nothing is updated
	out.Checked()
	if n, _ := count(pass.evs, 'A', ""); n > admitsWanted {
		sig := "C07:announced-more-than-admissible"
		if prev != nil && !fresh[0] && !fresh[1] {
			sig = "C07:duplicate-has-effects"
		}
		out.OracleFail(sig, fmt.Sprintf("%s%d announcement(s), %d registration(s) of the message satisfy every admission condition", tag, n, admitsWanted), replay)
	}
	if n, _ := count(pass.evs, 'U', ""); n != 0 {
		out.OracleFail("C07:update-announced-at-ingest", fmt.Sprintf("%s%d update announcement(s) during ingest", tag, n), replay)
	}
	// ---- sharing with peer stations
	nShare := 0
	for _, e := range pass.evs {
		if e.kind != 'S' {
			continue
		}
		nShare++
		out.Checked()
		sh := &pb.C2SWrapper{}
		if err := proto.Unmarshal(e.body, sh); err != nil {
			out.OracleFail("C07:share-undecodable", err.Error(), replay)
			continue
		}
		if !sh.GetRegistrationPayload().GetFlags().GetPrescanned() || sh.GetRegistrationSource() != pb.RegistrationSource_DetectorPrescan {
			out.OracleFail("C07:share-not-marked-prescanned", fmt.Sprintf("%sshared copy: prescanned=%v source=%s", tag, sh.GetRegistrationPayload().GetFlags().GetPrescanned(), sh.GetRegistrationSource()), replay)
		}
		if e.phantom != c07Endpoint {
			out.OracleFail("C07:share-wrong-endpoint", e.phantom, replay)
		}
		if c07Sources[c.source] != pb.RegistrationSource_Detector {
			out.OracleFail("C07:shared-non-detector-registration", fmt.Sprintf("%ssource %s", tag, c07Sources[c.source]), replay)
		}
		if !(wants[0].mayShare || wants[1].mayShare) {
			why := "no registration of the message passed validation, covert policy and liveness"
			if prev != nil && !fresh[0] && !fresh[1] {
				why = "the client registration is already tracked: it was shared, or dropped, when it was first ingested"
			} else if c.v4s && c.v6s {
				why = "only the IPv6 twin of a dual-stack registration was left to share (or the IPv4 twin failed)"
			}
			sig := "C07:share-not-allowed"
			if prev != nil && !fresh[0] && !fresh[1] {
				sig = "C07:duplicate-has-effects"
			}
			out.OracleFail(sig, tag+why, replay)
		}
		if wants[0].mayShare && !c.prescanned {
			// it is the IPv4 registration that is shared: its probe came first and said "not live"
			if probeSeq == 0 || probeSeq > e.seq || st.live {
				out.OracleFail("C07:share-before-liveness", fmt.Sprintf("%sshare request seq %d, probe seq %d, live=%v", tag, e.seq, probeSeq, st.live), replay)
			}
		}
	}
	out.Checked()
	if nShare > 1 {
		out.OracleFail("C07:shared-more-than-once", fmt.Sprintf("%s%d share requests for one client registration", tag, nShare), replay)
	}
}

// ---------------------------------------------------------------------------------------------
// the property on what a connectable registration HOLDS: every registration that GetRegistrations returns — after any
// message, in particular after further messages of the same session that differ from the first one — holds values that
// passed every admission condition. Ground truth: the conditions evaluated by the harness (its own tables, net.ParseCIDR,
// its own covert policy) on the values stored in the returned object — not on any message, and not on what the model says.
// hist: every probe and announcement since the registry was emptied.

func c07InCIDRs(cidrs []string, ip net.IP) bool {
	for _, c := range cidrs {
		_, n, err := net.ParseCIDR(strings.TrimSpace(c))
		if err != nil {
			panic(err)
		}
		if n.Contains(ip) {
			return true
		}
	}
	return false
}

func (w *c07World) oracleStored(st c07Station, rm *RegistrationManager, hist []c07Event, replay, tag string) {
	rd := rm.registeredDecoys
	rd.m.RLock()
	var phantoms []string
	for ph := range rd.decoys {
		phantoms = append(phantoms, ph)
	}
	rd.m.RUnlock()
	sort.Strings(phantoms)
	for _, ph := range phantoms {
		regs := rm.GetRegistrations(net.ParseIP(ph))
		var ids []string
		for id := range regs {
			ids = append(ids, id)
		}
		sort.Strings(ids)
		for _, id := range ids {
			w.out.Checked()
			w.out.Count("stored-oracle:connectable-registrations-examined")
			// what the connection handler receives is the stored object itself
			reg, ok := regs[id].(*DecoyRegistration)
			if !ok || reg == nil {
				w.out.OracleFail("C07:connectable-holds-unadmitted:not-a-registration", fmt.Sprintf("%sGetRegistrations(%s)[…] is %T", tag, ph, regs[id]), replay)
				continue
			}
			fam, v4 := "IPv6", reg.PhantomIp.To4() != nil
			if v4 {
				fam = "IPv4"
			}
			fail := func(cond, what string) {
				w.out.OracleFail("C07:connectable-holds-unadmitted:"+strings.ReplaceAll(cond, " ", "-"),
					fmt.Sprintf("%sthe %s registration returned for phantom %s holds values for which this does not hold: %s — %s", tag, fam, ph, cond, what), replay)
			}
			// stored under its own phantom and identifier (what connections are matched on)
			if t, ok := rd.transports[reg.Transport]; !ok {
				fail("enabled transport", fmt.Sprintf("stored transport %s", reg.Transport))
			} else if reg.PhantomIp.String() != ph || t.GetIdentifier(reg) != id {
				fail("stored under its own phantom and identifier", fmt.Sprintf("stored phantom %s", reg.PhantomIp))
			}
			if reg.Transport != pb.TransportType_Min && reg.Transport != pb.TransportType_Prefix {
				fail("enabled transport", fmt.Sprintf("stored transport %s", reg.Transport))
			}
			if reg.PhantomIp.To16() == nil || (v4 && !st.e4) || (!v4 && !st.e6) {
				fail("family enabled on the station", fmt.Sprintf("stored phantom %s, station v4=%v v6=%v", reg.PhantomIp, st.e4, st.e6))
			}
			if c2s := reg.originalC2S; c2s == nil || (v4 && !c2s.GetV4Support()) || (!v4 && !c2s.GetV6Support()) {
				fail("client supports the family", fmt.Sprintf("stored client message: v4support=%v v6support=%v", c2s.GetV4Support(), c2s.GetV6Support()))
			}
			if c07InCIDRs(c07Blocklists[st.block], reg.PhantomIp) {
				fail("phantom not blocklisted", fmt.Sprintf("stored phantom %s, blocklist %v", reg.PhantomIp, c07Blocklists[st.block]))
			}
			if ra := reg.registrationAddr; len(ra) != 4 && len(ra) != 16 {
				fail("registrant address well-formed", fmt.Sprintf("stored registrant of %d bytes", len(ra)))
			} else if v4 && ra.To4() == nil {
				fail("IPv4 registration needs an IPv4 registrant", fmt.Sprintf("stored phantom %s, stored registrant %s", reg.PhantomIp, ra))
			} else if (c07Geo{}).isErr(ra) {
				fail("geoip lookup succeeds", fmt.Sprintf("stored registrant %s", ra))
			}
			genOK := false
			for _, g := range c07Gens {
				if g.gen == reg.DecoyListVersion && g.known && ((v4 && g.has4) || (!v4 && g.has6)) {
					genOK = true
				}
			}
			if !genOK {
				fail("known generation with subnets of the family", fmt.Sprintf("stored generation %d", reg.DecoyListVersion))
			}
			// the covert address that would be dialed: the harness's own policy and the station's agree that it passes
			if got, _ := rm.ParseOrResolveBlocklisted(reg.Covert); !c07CovertPermitted(reg.Covert) || got == "" {
				fail("covert address passes the policy", fmt.Sprintf("stored covert address %q (station's policy answers %q)", reg.Covert, got))
			} else if got != reg.Covert {
				w.out.Count("stored-oracle:stored-covert-not-in-the-policy's-spelling")
			}
			// stored as needing a liveness probe: its phantom and port were probed and did not answer
			if answers, known := c07LoopbackAnswers[reg.PhantomIp.String()]; v4 && !reg.PreScanned() && w.realTester != nil && known && answers {
				fail("phantom did not answer the liveness probe", "stored as not pre-scanned; the host at this loopback address answers probes (ground truth of the harness, whatever the tester said)")
			}
			if v4 && !reg.PreScanned() {
				probed := false
				for _, e := range hist {
					if e.kind == 'P' && e.phantom == reg.PhantomIp.String() && e.port == int(reg.PhantomPort) && !e.live {
						probed = true
					}
				}
				if !probed {
					fail("phantom did not answer the liveness probe", fmt.Sprintf("stored as not pre-scanned, port %d: no unanswered probe of that phantom and port", reg.PhantomPort))
				}
			}
			// connectable as what was announced to the detector
			announced := false
			for _, e := range hist {
				if e.kind == 'A' && e.phantom == c07Canon(reg.PhantomIp) && e.port == int(reg.PhantomPort) && e.proto == int(reg.PhantomProto) {
					announced = true
				}
			}
			if !announced {
				fail("announced to the detector as stored", fmt.Sprintf("stored port %d proto %d: no such announcement", reg.PhantomPort, reg.PhantomProto))
			}
		}
	}
}

// objects lists every stored registration object (tracked, valid or not) with the fields admission looked at
func (w *c07World) objects(rm *RegistrationManager) string {
	rd := rm.registeredDecoys
	rd.m.RLock()
	defer rd.m.RUnlock()
	var ss []string
	for ph, m := range rd.decoys {
		for id, reg := range m {
			src := 0
			if reg.RegistrationSource != nil {
				src = int(*reg.RegistrationSource)
			}
			ss = append(ss, fmt.Sprintf("%s/%s=x%s:%d:%s:%s:%d:%d:%d:%s", c07Canon(net.ParseIP(ph)), hex.EncodeToString([]byte(id)), hex.EncodeToString([]byte(reg.Covert)), src,
				vlib.B(reg.PreScanned()), hex.EncodeToString(reg.registrationAddr), reg.PhantomPort, int(reg.PhantomProto), int(reg.Transport), vlib.B(reg.originalC2S.GetV4Support())))
		}
	}
	sort.Strings(ss)
	return strings.Join(ss, ",")
}

// ---------------------------------------------------------------------------------------------
// sequences of messages: 1–3 messages, of one session (same shared secret, hence the same phantom and identifier unless a
// message changes what they are derived from) or of two sessions, each with its own liveness verdict. After every message:
// the per-message oracle (a registration that is already tracked shows no effect, one that is not is judged afresh on this
// message), and the oracle on what every connectable registration holds.

type c07Msg struct {
	cell c07Cell
	live bool // what the liveness tester answers while this message is ingested (with the real tester: not scripted) …
	lerr int  // … and the error component of that verdict
	peer int  // how the peer API behaves while this message is ingested
	sess int  // which of the shared secrets (clients)
}

const c07MaxSessions = 6

func (m c07Msg) String() string {
	s := fmt.Sprintf("%s:%c%d", m.cell.String(), c07Station{live: m.live, lerr: m.lerr}.verdictChar(), m.sess)
	if m.peer != 0 {
		s += strconv.Itoa(m.peer)
	}
	return s
}

// real: the liveness verdicts are not scripted but answered by a fresh instance of the real caching tester of
// pkg/station/liveness (live and not-live verdicts cached for an hour), which dials the phantom: the verdict of each probe is
// recorded and handed to the model as that message's library verdict.
// cache: 0 = scripted verdicts; k > 0 = the real tester with the liveness cache configuration c07CacheConfigs[k]. In those runs
// the tester — cache included — is part of what is judged: the oracle's "the phantom did not answer the probe" is the GROUND
// TRUTH about the loopback phantom (c07LoopbackAnswers), not what the tester said; the model still receives what it said.
func (w *c07World) runSeq(st c07Station, msgs []c07Msg, secrets [][]byte, cache int) (string, string) {
	real := cache != 0
	rm := w.manager(st)
	w.reset(rm)
	var ms []string
	for i := range msgs {
		// a generation whose subnet set is drawn by the secret: the entry that fits this client's secret
		msgs[i].cell = w.fitGen(rm, msgs[i].cell, secrets[msgs[i].sess])
		ms = append(ms, msgs[i].String())
	}
	st.live, st.lerr, st.peer = false, 0, 0
	replay := "c07seq|"
	if real {
		replay = fmt.Sprintf("c07seqr%d|", cache)
		cfg := c07CacheConfigs[cache].cfg
		tester, err := liveness.New(&cfg)
		if err != nil {
			w.t.Fatal(err)
		}
		w.realTester = tester
		defer func() { w.realTester = nil }()
	}
	replay += st.String() + "/" + strings.Join(ms, "+")
	for _, sec := range secrets {
		replay += "/" + hex.EncodeToString(sec)
	}
	cfgLine := fmt.Sprintf("%s,%s,%s,%d %d,%s", vlib.B(st.e4), vlib.B(st.e6), vlib.B(st.share), int(pb.TransportType_Min), int(pb.TransportType_Prefix), c07BlocklistLine(st.block)) + "," + c07CovertPolicyLine()
	model := "c07s|" + cfgLine
	// `c07r`: the same history with the liveness tester INSIDE the model (CJ.IngestLive: C18's tester model in front of
	// ingestReg). The model is not told what the tester said: it gets the cache configuration, a clock (one second per
	// message - the histories take seconds, the lifetimes are an hour or a nanosecond) and the ground truth about each
	// message's loopback phantom, and answers whether the tester is asked, whether it answers from a cache, and everything
	// that follows from its verdict.
	modelR, rOK := "", real
	var implsR []string
	if real {
		lc := c07CacheConfigs[cache].cfg
		modelR = fmt.Sprintf("c07r|%s,%d,%s,%d|%s", c07DurField(lc.CacheDuration), lc.CacheCapacity, c07DurField(lc.CacheDurationNonLive), lc.CacheCapacityNonLive,
			fmt.Sprintf("%s,%s,%s,%d %d,%s", vlib.B(st.e4), vlib.B(st.e6), vlib.B(st.share), int(pb.TransportType_Min), int(pb.TransportType_Prefix), c07BlocklistLine(st.block)))
	}
	var impls []string
	var hist []c07Event
	allSelOK := true
	panicked := false
	for j, m := range msgs {
		c, secret := m.cell, secrets[m.sess]
		stj := st
		stj.live, stj.lerr, stj.peer = m.live, m.lerr, m.peer
		w.setStation(stj)
		tag := fmt.Sprintf("message %d of %d: ", j+1, len(msgs))
		var raw []byte
		if c.garbage {
			raw = []byte{0x0a, 0xff, 0xff, 0xff}
		} else {
			var err error
			if raw, err = proto.Marshal(c.wrapper(secret)); err != nil {
				w.t.Fatal(err)
			}
		}
		var fams [2]c07Fam
		if !c.garbage {
			fams = w.directBuild(rm, raw)
		}
		// the state of this message's registrations before it is ingested
		var before, pass c07Pass
		asked := false // (real tester) it was asked about a phantom while this message was ingested
		w.famStates(rm, fams, &before)
		var shareFam [2]bool
		for fi, v6 := range []bool{false, true} {
			shareFam[fi] = !before.fam[fi].tracked && c07Expect(stj, c, v6).mayShare
		}
		w.ingestOne(rm, raw, fams, c.v4s && c.payload && !c.garbage, !real && (shareFam[0] || shareFam[1]), c.hand, &pass)
		w.famStates(rm, fams, &pass)
		hist = append(hist, pass.evs...)
		if real {
			// the verdict the real tester answered while this message was ingested (none: the model does not ask either)
			stj.live, stj.lerr = false, 0
			asked = false
			for _, e := range pass.evs {
				if e.kind == 'P' {
					asked = true
					stj.live, stj.lerr = e.live, e.lerr
					w.out.Count(fmt.Sprintf("real-tester:verdict:%v:%d", e.live, e.lerr))
				}
			}
		}
		wire, selOK := w.wire(rm, stj, c, secret)
		allSelOK = allSelOK && selOK
		wireR, askedR, truthR := "", "-", true
		if real {
			stn := stj
			stn.live, stn.lerr = false, 0 // the verdict field of the c07r wire is read by nothing: the model asks its own tester
			wireR, _ = w.wire(rm, stn, c, secret)
			var qs []string
			for _, e := range pass.evs {
				if e.kind == 'P' {
					how := "p"
					if e.lerr == 2 {
						how = "c" // (v, ErrCachedPhantom): answered from a cache, no probe sent
					}
					qs = append(qs, how+vlib.B(e.live))
				}
			}
			if len(qs) > 0 {
				askedR = strings.Join(qs, ",")
			}
			if fams[0].reg != nil {
				answers, known := c07LoopbackAnswers[fams[0].reg.PhantomIp.String()]
				if known {
					truthR = answers
				} else if asked {
					rOK = false // no ground truth about this phantom: the history is not compared on the c07r line
				}
			}
		}
		if real && fams[0].reg != nil {
			// from here on stj is what the ORACLE judges by: whether the IPv4 phantom really answers a probe
			if answers, known := c07LoopbackAnswers[fams[0].reg.PhantomIp.String()]; known {
				if asked && answers != stj.live {
					w.out.Count(fmt.Sprintf("real-tester:verdict-differs-from-ground-truth:tester-says-live=%v", stj.live))
				}
				stj.live, stj.lerr = answers, 0
			}
		}
		if c.garbage {
			model += "|G"
		} else {
			cov := ""
			if c.payload {
				cov = c07Coverts[c.covert].addr
			}
			resolved := "-"
			if got, _ := rm.ParseOrResolveBlocklisted(cov); got != "" {
				resolved = "x" + hex.EncodeToString([]byte(got))
			}
			model += "|" + wire + ",x" + hex.EncodeToString([]byte(cov)) + "," + resolved
		}
		k := "-,-"
		if !c.garbage {
			k = fams[0].kind + "," + fams[1].kind
		} else {
			pass.state = "-,-"
		}
		impls = append(impls, k+";"+pass.parse+";"+pass.evsStr+";"+pass.state+";"+w.objects(rm))
		if real {
			modelR += fmt.Sprintf("|%d;%s;%s", int64(j+1)*1000000000, vlib.B(truthR), wireR)
			implsR = append(implsR, askedR+";"+k+";"+pass.parse+";"+pass.evsStr+";"+pass.state)
			w.out.Count("c07r:tester:" + strings.Map(func(r rune) rune {
				if r >= '0' && r <= '9' {
					return -1
				}
				return r
			}, askedR))
		}
		if pass.parse == "panic" || strings.Contains(pass.evsStr, "panic") || fams[0].kind == "panic" || fams[1].kind == "panic" {
			panicked = true
		}
		if allSelOK {
			w.oraclePass(stj, c, fams, &pass, &before, replay, tag)
			w.oracleStored(stj, rm, hist, replay, tag)
		}
		w.out.Count(fmt.Sprintf("sequence:message-%d:v4-%s:v6-%s", j+1, c07SeqKind(before.fam[0], pass.fam[0], fams[0]), c07SeqKind(before.fam[1], pass.fam[1], fams[1])))
	}
	if panicked {
		w.out.OracleFail("C07:panic", "ingest panicked", replay)
	}
	if !allSelOK {
		w.out.Count("assumption-broken:selector-wrong-family")
	}
	if real {
		if rOK {
			w.out.Case(modelR, strings.Join(implsR, "|"), true)
			w.out.Count("c07r:histories")
		} else {
			w.out.Count("c07r:history-without-ground-truth")
		}
	}
	return model, strings.Join(impls, "|")
}

// what a message of a sequence was for one family (generator histogram)
func c07SeqKind(before, after c07FamState, f c07Fam) string {
	switch {
	case f.reg == nil:
		return "none"
	case before.tracked && before.connect:
		return "dup-of-connectable"
	case before.tracked:
		return "dup-of-dropped"
	case after.connect:
		return "new-admitted"
	case after.tracked:
		return "new-dropped"
	}
	return "new-not-tracked" // not attempted (family not enabled / not supported), or refused by ValidateRegistration
}

// genFits: does the client's secret draw, in a generation whose subnet set depends on it, the set this table entry stands for
// (asked of the real selector: which families it can select from for this secret)
func (w *c07World) genFits(rm *RegistrationManager, c c07Cell, secret []byte) bool {
	g := c07Gens[c.gen]
	if !g.bySecret || c.garbage {
		return true
	}
	keys, err := core.GenSharedKeys(uint(c.libver), secret, c07Transports[c.transport].tt)
	if err != nil {
		w.t.Fatal(err)
	}
	_, err4 := rm.PhantomSelector.Select(keys.ConjureSeed, uint(g.gen), uint(c.libver), false)
	_, err6 := rm.PhantomSelector.Select(keys.ConjureSeed, uint(g.gen), uint(c.libver), true)
	return (err4 == nil) == g.has4 && (err6 == nil) == g.has6
}

// fitGen replaces a bySecret generation entry by the entry of the same generation that fits the secret
func (w *c07World) fitGen(rm *RegistrationManager, c c07Cell, secret []byte) c07Cell {
	if !c07Gens[c.gen].bySecret || w.genFits(rm, c, secret) {
		return c
	}
	for i, g := range c07Gens {
		d := c
		d.gen = i
		if g.bySecret && g.gen == c07Gens[c.gen].gen && w.genFits(rm, d, secret) {
			return d
		}
	}
	w.out.Count("generation-by-secret:no-entry-fits")
	return c
}

// secretFor draws the shared secret of a cell: any 32 bytes — for a bySecret generation entry, the first draw that fits it
func (w *c07World) secretFor(r *vlib.Rand, c c07Cell) []byte {
	rm := w.manager(c07Station{e4: true, e6: true})
	for i := 0; ; i++ {
		secret := r.Bytes(32)
		if w.genFits(rm, c, secret) {
			return secret
		}
		if i > 2000 {
			w.t.Fatalf("no secret draws the subnet set of generation entry %d", c.gen)
		}
	}
}

// c07Norm: NewRegistrationC2SWrapper writes the registrar's transport parameters into the payload; parseRegMessage never
// calls it for a message without payload, and neither does the harness (its direct per-family construction would panic in
// a call the station cannot make): such a cell loses its registrar response
func c07Norm(c c07Cell) c07Cell {
	if !c.payload && !c.garbage && c07Overrides[c.override].tparams != 0 {
		c.override = 0
	}
	return c
}

// c07Mutate re-draws dimension dim of the cell (value v of that dimension; v is reduced modulo the number of values)
const c07Dims = 13

func c07Mutate(c c07Cell, dim, v int) c07Cell {
	switch dim {
	case 0:
		c.registrant = v % len(c07Registrants)
	case 1:
		c.source = v % len(c07Sources)
	case 2:
		c.prescanned = !c.prescanned
	case 3:
		c.transport = v % len(c07Transports)
	case 4:
		c.gen = v % len(c07Gens)
	case 5:
		c.covert = v % len(c07Coverts)
	case 6:
		c.override = v % len(c07Overrides)
	case 7:
		c.disableOv = !c.disableOv
	case 8:
		c.v4s, c.v6s = v&1 == 1, v&2 == 2
	case 9:
		c.libver = uint32(1 + v%4)
	case 10:
		c.payload = !c.payload
	case 11:
		c.garbage = !c.garbage
	case 12:
		// a registrar response with transport parameters, on client parameters that do not parse
		c.transport, c.override = 2, 10+v%2
	}
	return c07Norm(c)
}

func c07DimValues(dim int) int {
	switch dim {
	case 0:
		return len(c07Registrants)
	case 1:
		return len(c07Sources)
	case 3:
		return len(c07Transports)
	case 4:
		return len(c07Gens)
	case 5:
		return len(c07Coverts)
	case 6:
		return len(c07Overrides)
	case 8, 9:
		return 4
	case 12:
		return 2
	}
	return 1
}

// ---------------------------------------------------------------------------------------------
// two ingest workers receive copies of ONE message (the decoy registrar delivers a registration through
// several decoys) and are interleaved at the scheduling points of ingestRegistration: whatever the
// interleaving, the client registration is probed, shared and announced as often as a single message is.

type c07Sched struct {
	cur    int
	parked chan int
	resume []chan struct{}
	fin    []bool
}

func (s *c07Sched) yield(string) {
	i := s.cur
	s.parked <- i
	<-s.resume[i]
}

func (w *c07World) runConcurrent(st c07Station, c c07Cell, secret []byte, schedule []int) {
	rm := w.manager(st)
	w.reset(rm)
	w.setStation(st)
	var ss []string
	for _, x := range schedule {
		ss = append(ss, strconv.Itoa(x))
	}
	replay := "c07conc|" + st.String() + "/" + c.String() + "/" + hex.EncodeToString(secret) + "/" + strings.Join(ss, "")
	raw, err := proto.Marshal(c.wrapper(secret))
	if err != nil {
		w.t.Fatal(err)
	}
	const n = 2
	s := &c07Sched{parked: make(chan int), resume: make([]chan struct{}, n), fin: make([]bool, n)}
	for i := range s.resume {
		s.resume[i] = make(chan struct{})
	}
	var fams [2]*DecoyRegistration // one registration object per family, for the state lookup
	var famMu sync.Mutex
	verifhook.SetScheduler(s.yield)
	defer verifhook.SetScheduler(nil)
	for i := 0; i < n; i++ {
		go func(i int) {
			<-s.resume[i]
			func() {
				defer func() { _ = recover() }()
				regs, err := rm.parseRegMessage(raw)
				if err != nil {
					return
				}
				for _, reg := range regs {
					if reg == nil {
						continue
					}
					fi := 0
					if reg.PhantomIp.To4() == nil {
						fi = 1
					}
					famMu.Lock()
					if fams[fi] == nil {
						fams[fi] = reg
					}
					famMu.Unlock()
					rm.ingestRegistration(reg)
				}
			}()
			s.fin[i] = true
			s.parked <- i
		}(i)
	}
	turn := func(i int) {
		if s.fin[i] {
			return
		}
		s.cur = i
		s.resume[i] <- struct{}{}
		<-s.parked
	}
	for _, i := range schedule {
		turn(i)
	}
	for i := 0; i < n; i++ {
		for !s.fin[i] {
			turn(i)
		}
	}
	verifhook.SetScheduler(nil)
	wants := [2]c07Want{c07Expect(st, c, false), c07Expect(st, c, true)}
	w.quiesce(wants[0].mayShare || wants[1].mayShare)
	evs := w.rec.take()
	w.oracleStored(st, rm, evs, replay, "two workers ingested copies of one message: ")
	w.out.Checked()
	w.out.Count("concurrent-copies:runs")
	cnt := map[byte]int{}
	for _, e := range evs {
		cnt[e.kind]++
	}
	probes, admits := 0, 0
	for i := range wants {
		if wants[i].probe {
			probes++
		}
		if wants[i].admit {
			admits++
		}
		connect := false
		if f := fams[i]; f != nil {
			if t, ok := rm.registeredDecoys.transports[f.Transport]; ok {
				_, connect = rm.GetRegistrations(f.PhantomIp)[t.GetIdentifier(f)]
			}
		}
		if connect != wants[i].admit {
			sig := "C07:concurrent-copies:admissible-not-admitted"
			if connect {
				sig = "C07:concurrent-copies:admitted-without:" + strings.ReplaceAll(wants[i].why, " ", "-")
			}
			w.out.OracleFail(sig, fmt.Sprintf("two workers ingested copies of one message; the %s registration is connectable=%v, expected %v", []string{"IPv4", "IPv6"}[i], connect, wants[i].admit), replay)
		}
	}
	if cnt['P'] != probes {
		w.out.OracleFail("C07:concurrent-copies:probe-count", fmt.Sprintf("two workers ingested copies of one message: %d liveness probe(s), %d required for the client registration", cnt['P'], probes), replay)
	}
	maxShare := 0
	if wants[0].mayShare || wants[1].mayShare {
		maxShare = 1
	}
	if cnt['S'] > maxShare {
		w.out.OracleFail("C07:concurrent-copies:shared-more-than-once", fmt.Sprintf("two workers ingested copies of one message: %d share request(s) for one client registration (at most %d)", cnt['S'], maxShare), replay)
	}
	if cnt['A'] != admits {
		w.out.OracleFail("C07:concurrent-copies:announce-count", fmt.Sprintf("two workers ingested copies of one message: %d announcement(s), %d admissible registration(s)", cnt['A'], admits), replay)
	}
}

// all interleavings of two workers with a and b segments
func c07Interleavings(a, b int) [][]int {
	var res [][]int
	var rec func(cur []int, x, y int)
	rec = func(cur []int, x, y int) {
		if x == 0 && y == 0 {
			res = append(res, append([]int(nil), cur...))
			return
		}
		if x > 0 {
			rec(append(cur, 0), x-1, y)
		}
		if y > 0 {
			rec(append(cur, 1), x, y-1)
		}
	}
	rec(nil, a, b)
	return res
}

// ---------------------------------------------------------------------------------------------

func c07Setup(t *testing.T, out *vlib.Out) *c07World {
	dir := os.Getenv("VERIF_OUT")
	if dir == "" {
		dir = os.TempDir()
	}
	path := filepath.Join(dir, "c07_phantom_subnets.toml")
	if err := os.WriteFile(path, []byte(c07Subnets), 0o644); err != nil {
		t.Fatal(err)
	}
	os.Setenv("PHANTOM_SUBNET_LOCATION", path)
	w := &c07World{t: t, out: &c07Out{Out: out, perSig: map[string]int{}}, rec: &c07Recorder{}, rms: map[string]*RegistrationManager{}, workers: map[*RegistrationManager]chan interface{}{}, selMemo: map[c07SelKey]c07SelAnswer{}}
	http.DefaultTransport = c07Peer{w: w}
	http.DefaultClient.Transport = c07Peer{w: w}
	// loopback phantoms for the runs with the real liveness tester: a listener that takes every connection and closes it, and
	// a port on another loopback address that nobody listens on
	ln, err := net.Listen("tcp4", "127.0.0.1:0")
	if err != nil {
		t.Fatal(err)
	}
	go func() {
		for {
			conn, err := ln.Accept()
			if err != nil {
				return
			}
			conn.Close()
		}
	}()
	c07LoopbackPorts[0] = uint32(ln.Addr().(*net.TCPAddr).Port)
	c07LoopbackPorts[2] = w.silentListener()
	if ln2, err := net.Listen("tcp4", "127.0.0.2:0"); err == nil {
		c07LoopbackPorts[1] = uint32(ln2.Addr().(*net.TCPAddr).Port)
		ln2.Close()
	} else {
		c07LoopbackPorts[1] = 9
	}
	// create every manager and touch the package-level helpers that start goroutines lazily before
	// the idle goroutine count is taken
	Stat()
	for _, e4 := range []bool{true, false} {
		for _, e6 := range []bool{true, false} {
			for _, share := range []bool{false, true} {
				for block := range c07Blocklists {
					w.manager(c07Station{e4: e4, e6: e6, share: share, block: block})
				}
			}
		}
	}
	// the idle level: the lowest of a series of samples (a goroutine that is just finishing must not
	// be counted into it)
	w.base = runtime.NumGoroutine()
	for i := 0; i < 30; i++ {
		time.Sleep(time.Millisecond)
		if n := runtime.NumGoroutine(); n < w.base {
			w.base = n
		}
	}
	return w
}

// silentListener opens a listening socket on 127.0.0.3 with an accept queue of one connection and fills the queue: from then
// on the kernel drops every SYN to that port, so the phantom 127.0.0.3:port does not answer probes. Returns the port (9, a
// port that is merely closed, if the socket cannot be set up: the histories then see a phantom that answers with a reset,
// and the ground truth table says so).
func (w *c07World) silentListener() uint32 {
	fd, err := syscall.Socket(syscall.AF_INET, syscall.SOCK_STREAM, 0)
	if err == nil {
		err = syscall.Bind(fd, &syscall.SockaddrInet4{Addr: [4]byte{127, 0, 0, 3}})
	}
	if err == nil {
		err = syscall.Listen(fd, 0)
	}
	var port int
	if err == nil {
		var sa syscall.Sockaddr
		if sa, err = syscall.Getsockname(fd); err == nil {
			port = sa.(*syscall.SockaddrInet4).Port
		}
	}
	if err == nil {
		addr := net.JoinHostPort("127.0.0.3", strconv.Itoa(port))
		for i := 0; i < 3; i++ {
			c, derr := net.DialTimeout("tcp4", addr, 150*time.Millisecond)
			if derr != nil {
				if ne, ok := derr.(net.Error); ok && ne.Timeout() {
					return uint32(port) // the queue is full: dials time out
				}
				break
			}
			w.keep = append(w.keep, c) // sits in the accept queue for the rest of the run
		}
	}
	w.out.Count("real-tester:no-silent-phantom-available")
	c07LoopbackAnswers["127.0.0.3"] = true
	return 9
}

func c07Secret(r *vlib.Rand) []byte { return r.Bytes(32) }

func TestVerifC07(t *testing.T) {
	out := vlib.Open("C07")
	defer out.Close()
	w := c07Setup(t, out)
	if rp := vlib.Replay(); rp != "" {
		c07Replay(w, rp)
		return
	}
	r := vlib.NewRand("C07")
	// the targeted search after a broken proof / correspondence (VERIF_SEARCH=1, further seeds) runs the quick tables — they
	// enumerate every value of every dimension — with four times the random budgets (vlib.Budget), not the thorough tables:
	// two thorough runs took a quarter of an hour and found nothing the quick tables do not reach
	thorough := vlib.Tier() == "thorough"

	var stations []c07Station
	for _, e4 := range []bool{true, false} {
		for _, e6 := range []bool{true, false} {
			for _, share := range []bool{false, true} {
				for block := 0; block < 3; block++ {
					for _, live := range []bool{false, true} {
						stations = append(stations, c07Station{e4: e4, e6: e6, share: share, block: block, live: live})
					}
				}
			}
		}
	}
	pick := func(quick, all int) []int {
		n := quick
		if thorough {
			n = all
		}
		s := make([]int, n)
		for i := range s {
			s[i] = i
		}
		return s
	}
	ncell := 0
	// the big decision table: every workerEvery-th cell goes through the ingest worker, the others are delivered directly
	workerEvery := 4
	if thorough {
		workerEvery = 16
	}
	run := func(st c07Station, c c07Cell) {
		ncell++
		m, i := w.runCell(st, c, w.secretFor(r, c))
		out.Case(m, i, true)
		out.Count("parse:" + strings.SplitN(strings.SplitN(i, ";", 3)[1], "=", 2)[0])
		out.Count(fmt.Sprintf("second-message:%d", c.dup))
	}

	// ---- the phantom blocklist from its configured text (zz_verif_c07_text_test.go): ParseBlocklists + IsBlocklistedPhantom
	w.runBlocklistTexts(r)
	// stations whose phantom blocklist is written with prefixes that end inside a byte, spaced entries and an IPv4-mapped
	// spelling (c07Blocklists 3, 4): they take part in the one-condition slice and in the sequences
	var textStations []c07Station
	for _, block := range []int{3, 4} {
		for _, live := range []bool{false, true} {
			textStations = append(textStations, c07Station{e4: true, e6: true, share: true, block: block, live: live})
		}
	}

	// corpus first: the dual-stack message for a generation without IPv6 subnets (and its mirror)
	base := c07Cell{payload: true, v4s: true, v6s: true, registrant: 1, source: 0, transport: 0, gen: 1, libver: 4, covert: 0}
	for _, g := range []int{1, 2} {
		c := base
		c.gen = g
		run(c07Station{e4: true, e6: true}, c)
	}
	for _, st := range stations {
		// undecodable bytes and a wrapper without payload
		run(st, c07Cell{garbage: true})
		for _, src := range []int{0, 1, 3} {
			run(st, c07Cell{payload: false, v4s: true, v6s: true, registrant: 1, source: src, libver: 4})
		}
	}

	// ---- one family cannot be built, the other is fine (dual-stack client, IPv4 registrant): the buildable family must be
	// admitted. Ways to get there: a generation with subnets of one family only; a generation whose weighted subnet set is
	// drawn by the client's secret (entries 5-7 of c07Gens: the secret is chosen so that the IPv4-only / IPv6-only set is
	// drawn); a registrar override that is not an address of one family; old library versions on these.
	for _, st := range []c07Station{{e4: true, e6: true}, {e4: true, e6: true, share: true}, {e4: true, e6: true, share: true, block: 1}, {e4: true, e6: true, block: 2}} {
		for _, src := range []int{0, 1} {
			b := c07Cell{payload: true, v4s: true, v6s: true, registrant: 1, source: src, transport: 0, gen: 0, libver: 4, covert: 0}
			for _, g := range []int{1, 2, 5, 6, 7} {
				for _, lv := range []uint32{4, 2} {
					for _, tr := range []int{0, 3} {
						c := b
						c.gen, c.libver, c.transport = g, lv, tr
						run(st, c)
						c.prescanned = true
						run(st, c)
					}
				}
			}
			for _, ov := range []int{2, 4, 9, 12} {
				c := b
				c.override = ov
				run(st, c)
				c.gen = 4
				run(st, c)
			}
			c := b
			c.registrant = 2 // IPv6 registrant: no IPv4 registration is attempted at all, the IPv6 one is admitted
			run(st, c)
		}
	}

	// ---- the liveness verdict is a pair: both booleans with every kind of error (none, ErrCachedPhantom — served from the
	// tester's cache —, another error, a context error, the other boolean's usual companion), on every station, from admitted
	// base cells; and the peer's behaviour on every sharing station
	for _, st := range stations {
		for lerr := 1; lerr < c07VerdictKinds; lerr++ {
			st.lerr = lerr
			for _, sup := range [][2]bool{{true, true}, {true, false}, {false, true}} {
				for _, src := range []int{0, 1} {
					for _, ps := range []bool{false, true} {
						run(st, c07Cell{payload: true, v4s: sup[0], v6s: sup[1], registrant: 1, source: src, transport: 0, gen: 0, libver: 4, covert: 0, prescanned: ps, dup: ncell % c07DupKinds})
					}
				}
			}
		}
		st.lerr = 0
		if !st.share {
			continue
		}
		for peer := 1; peer < len(c07PeerModes); peer++ {
			st.peer = peer
			for _, sup := range [][2]bool{{true, true}, {true, false}, {false, true}} {
				for _, srcps := range [][2]int{{1, 0}, {1, 1}, {0, 0}, {2, 1}} {
					run(st, c07Cell{payload: true, v4s: sup[0], v6s: sup[1], registrant: 1, source: srcps[0], transport: 0, gen: 0, libver: 4, covert: 0, prescanned: srcps[1] == 1, dup: ncell % c07DupKinds})
				}
			}
		}
	}

	// ---- two workers, copies of one message, every interleaving (IPv4-only client: 4 segments each) and
	// sampled interleavings (dual-stack client: 8 segments each)
	two := c07Interleavings(4, 4)
	for _, st := range []c07Station{{e4: true, e6: true, share: true}, {e4: true, e6: true, share: true, live: true}, {e4: true, e6: true, share: true, block: 1},
		{e4: true, e6: true, share: false}, {e4: true, e6: false, share: true}} {
		for _, src := range []int{1, 0} {
			for _, cv := range []int{0, 1} {
				for _, ps := range []bool{false, true} {
					c := c07Cell{payload: true, v4s: true, v6s: false, registrant: 1, source: src, transport: 0, gen: 0, libver: 4, covert: cv, prescanned: ps}
					for si, sch := range two {
						if !thorough && (cv == 1 || ps) && si%5 != 0 {
							continue
						}
						w.runConcurrent(st, c, c07Secret(r), sch)
					}
					c.v6s = true
					for k, nk := 0, vlib.Budget(20, 2000); k < nk; k++ {
						var sch []int
						for len(sch) < 16 {
							sch = append(sch, r.Intn(2))
						}
						w.runConcurrent(st, c, c07Secret(r), sch)
					}
				}
			}
		}
	}

	// ---- one condition at a time: from admitted base cells (API- and detector-sourced, every client
	// family support) ONE dimension is moved through ALL its values, on every station; then every kind
	// of second message on the base cells. This mirrors the flip_* lemmas one to one and reaches every
	// value of every dimension in the quick tier.
	for _, st := range append(append([]c07Station{}, stations...), textStations...) {
		for _, sup := range [][2]bool{{true, true}, {true, false}, {false, true}} {
			for _, baseSrc := range []int{0, 1} {
				b := c07Cell{payload: true, v4s: sup[0], v6s: sup[1], registrant: 1, source: baseSrc, transport: 0, gen: 0, libver: 4, covert: 0}
				for v := range c07Registrants {
					c := b
					c.registrant = v
					run(st, c)
				}
				if baseSrc == 0 {
					for v := range c07Sources {
						c := b
						c.source = v
						run(st, c)
						c.prescanned = true
						run(st, c)
					}
				}
				for v := range c07Transports {
					c := b
					c.transport = v
					run(st, c)
				}
				for v := range c07Gens {
					c := b
					c.gen = v
					run(st, c)
				}
				for v := range c07Coverts {
					c := b
					c.covert = v
					run(st, c)
				}
				for v := range c07Overrides {
					c := b
					c.override = v
					run(st, c)
					if c07Overrides[v].tparams != 0 {
						c.disableOv = true
						run(st, c)
						c.transport = 2 // client parameters that do not parse, replaced (or not) by the registrar's
						run(st, c)
						c.disableOv = false
						run(st, c)
					}
				}
				for _, ps := range []bool{false, true} {
					for d := 0; d < c07DupKinds; d++ {
						c := b
						c.prescanned, c.dup = ps, d
						run(st, c)
						c.covert = 1
						run(st, c)
					}
				}
			}
		}
	}

	// ---- sequences of messages of one session. Systematic part: from admitted base messages (every client family support,
	// API- and detector-sourced, pre-scanned or not) ONE dimension of the other message is moved through ALL its values, in
	// both orders (base first: the later message differs from the one that was admitted; base second: a message that was
	// dropped or rejected is followed by one that would pass), with the liveness verdict of the later message flipped as well.
	runSeq := func(st c07Station, msgs []c07Msg, secrets [2][]byte) {
		m, i := w.runSeq(st, msgs, secrets[:], 0)
		out.Case(m, i, true)
		out.Count(fmt.Sprintf("sequence:length-%d", len(msgs)))
	}
	var seqStations []c07Station
	seqCore := func(st c07Station) bool { return (st.e4 && st.e6) || (st.share && st.block == 0) }
	for _, st := range stations {
		if st.live {
			continue // the liveness verdict is per message here
		}
		if thorough || seqCore(st) {
			seqStations = append(seqStations, st)
		}
	}
	for _, st := range textStations {
		if !st.live {
			seqStations = append(seqStations, st)
		}
	}
	// corpus first: the session registers again with a covert address the policy refuses (and the other way round), with
	// another port / phantom override, another registrant, as the copy a peer shares, after a dropped first attempt
	for _, st := range []c07Station{{e4: true, e6: true}, {e4: true, e6: true, share: true}} {
		for _, src := range []int{0, 1} {
			b := c07Cell{payload: true, v4s: true, v6s: true, registrant: 1, source: src, transport: 0, gen: 0, libver: 4, covert: 0}
			for _, mut := range [][2]int{{5, 1}, {5, 3}, {5, 4}, {6, 1}, {6, 7}, {0, 2}, {1, 2}, {2, 0}} {
				m := c07Mutate(b, mut[0], mut[1])
				sec := [2][]byte{c07Secret(r), c07Secret(r)}
				runSeq(st, []c07Msg{{cell: b}, {cell: m}}, sec)
				runSeq(st, []c07Msg{{cell: m}, {cell: b}}, sec)
				runSeq(st, []c07Msg{{cell: b}, {cell: m}, {cell: b}}, sec)
				runSeq(st, []c07Msg{{cell: b, live: true}, {cell: m}}, sec)
			}
		}
	}
	for _, st := range seqStations {
		for _, sup := range [][2]bool{{true, true}, {true, false}, {false, true}} {
			for _, baseSrc := range []int{0, 1} {
				for _, ps := range []bool{false, true} {
					b := c07Cell{payload: true, v4s: sup[0], v6s: sup[1], registrant: 1, source: baseSrc, transport: 0, gen: 0, libver: 4, covert: 0, prescanned: ps}
					for dim := 0; dim < c07Dims; dim++ {
						for v := 0; v < c07DimValues(dim); v++ {
							m := c07Mutate(b, dim, v)
							if m == b {
								continue
							}
							sec := [2][]byte{c07Secret(r), c07Secret(r)}
							runSeq(st, []c07Msg{{cell: b}, {cell: m}}, sec)
							runSeq(st, []c07Msg{{cell: m}, {cell: b}}, sec)
							if (thorough && seqCore(st)) || dim == 2 || dim == 5 {
								runSeq(st, []c07Msg{{cell: b}, {cell: m, live: true}}, sec)
								runSeq(st, []c07Msg{{cell: b, live: true}, {cell: m}}, sec)
								runSeq(st, []c07Msg{{cell: b, live: true, lerr: 2}, {cell: m, lerr: 2}}, sec)
								runSeq(st, []c07Msg{{cell: b, peer: 2}, {cell: m, peer: 3}}, sec)
								runSeq(st, []c07Msg{{cell: b}, {cell: m}, {cell: b}}, sec)
								runSeq(st, []c07Msg{{cell: m}, {cell: b}, {cell: m}}, sec)
							}
						}
					}
				}
			}
		}
	}
	// random part: 1–3 messages; the first is mostly admissible; each later message is the first with a random subset of its
	// fields re-drawn (any value, valid or not), now and then a message of a second session; liveness verdict per message
	randCell := func() c07Cell {
		c := c07Cell{payload: true, libver: 4}
		sup := r.Intn(3)
		c.v4s, c.v6s = sup != 2, sup != 1
		c.registrant = []int{1, 1, 5, 2, 0}[r.Intn(5)]
		c.source = r.Intn(len(c07Sources))
		c.transport = []int{0, 0, 3}[r.Intn(3)]
		c.gen = []int{0, 0, 4, 1, 2}[r.Intn(5)]
		c.prescanned = r.Chance(1, 3)
		c.covert = []int{0, 0, 3, 4}[r.Intn(4)]
		if r.Chance(1, 4) {
			c.override = r.Intn(len(c07Overrides))
		}
		c.disableOv = r.Chance(1, 5)
		if r.Chance(1, 5) {
			c = c07Mutate(c, r.Intn(c07Dims), r.Intn(64))
		}
		return c
	}
	var allSeqStations, openSeqStations []c07Station // every station; those without a phantom blocklist
	for _, st := range stations {
		if !st.live {
			allSeqStations = append(allSeqStations, st)
			if st.block == 0 {
				openSeqStations = append(openSeqStations, st)
			}
		}
	}
	for k, nk := 0, vlib.Budget(6000, 40000); k < nk; k++ {
		st := allSeqStations[r.Intn(len(allSeqStations))]
		if r.Bool() {
			st = openSeqStations[r.Intn(len(openSeqStations))]
		}
		b := randCell()
		n := []int{1, 2, 2, 2, 2, 3, 3, 3, 3, 3}[r.Intn(10)]
		verdict := func(m *c07Msg, liveOneIn int) {
			m.live = r.Chance(1, liveOneIn)
			if r.Chance(1, 3) {
				m.lerr = r.Intn(c07VerdictKinds)
			}
			if r.Chance(1, 3) {
				m.peer = r.Intn(len(c07PeerModes))
			}
		}
		msgs := []c07Msg{{cell: b}}
		verdict(&msgs[0], 5)
		for len(msgs) < n {
			m := b
			changed := 0
			for dim := 0; dim < c07Dims; dim++ {
				p := 4
				if dim >= 10 {
					p = 24
				}
				if r.Chance(1, p) {
					m = c07Mutate(m, dim, r.Intn(64))
					changed++
				}
			}
			out.Count(fmt.Sprintf("sequence:later-message-differs-in-%d-dimensions", changed))
			sess := 0
			if r.Chance(1, 8) {
				sess = 1
			}
			msgs = append(msgs, c07Msg{cell: m, sess: sess})
			verdict(&msgs[len(msgs)-1], 4)
		}
		runSeq(st, msgs, [2][]byte{c07Secret(r), c07Secret(r)})
	}

	// ---- the real liveness tester of pkg/station/liveness, under every cache configuration (uncached / live cache only / non-live
	// cache only / both; map or LRU of capacity 1), over histories of several clients: A registers on a loopback phantom that
	// answers (dropped); B, another secret, on the same phantom (a cached or a fresh verdict: dropped); B again with another
	// covert address (duplicate); C on a SILENT loopback phantom (admitted); D, another secret, on the silent one (admitted); E
	// on the first phantom again (dropped — with an LRU of capacity 1 its entry was evicted by now); F arrives pre-scanned; G on
	// a loopback address whose port is closed (the reset is an answer: dropped). Judged by the ground truth about the phantoms.
	// Each probe that is really sent takes the tester 750 ms: quick runs the non-live-only configuration and one other (by
	// seed), thorough all seven.
	for k := 1; k < len(c07CacheConfigs); k++ {
		if !thorough && k != 3 && k != 1+int(vlib.Seed()%int64(len(c07CacheConfigs)-1)) {
			continue
		}
		st := []c07Station{{e4: true, e6: true, share: true}, {e4: true, e6: true}, {e4: true, e6: false, share: true}}[k%3]
		b := c07Cell{payload: true, v4s: true, v6s: k%2 == 0, registrant: 1, source: []int{1, 0, 2}[k%3], transport: 0, gen: 0, libver: 4, covert: 0, override: 13}
		ps, closed, silent, cov := b, b, b, b
		ps.prescanned = true
		closed.override = 14
		silent.override = 15
		cov.covert = 3
		msgs := []c07Msg{{cell: b, sess: 0}, {cell: b, sess: 1}, {cell: cov, sess: 1}, {cell: silent, sess: 2}, {cell: silent, sess: 3}, {cell: b, sess: 4}}
		if thorough || k == 3 {
			msgs = append(msgs, c07Msg{cell: ps, sess: 5}, c07Msg{cell: closed, sess: 5})
		}
		secrets := [][]byte{c07Secret(r), c07Secret(r), c07Secret(r), c07Secret(r), c07Secret(r), c07Secret(r)}
		m, i := w.runSeq(st, msgs, secrets, k)
		out.Case(m, i, true)
		out.Count("real-tester:histories:" + c07CacheConfigs[k].name)
	}

	// ---- the table; the second message of the session cycles through its kinds
	for _, st := range stations {
		for _, sup := range [][2]bool{{true, true}, {true, false}, {false, true}, {false, false}} {
			for _, rg := range pick(4, len(c07Registrants)) {
				for _, src := range pick(2, 3) {
					for _, tr := range pick(2, len(c07Transports)) {
						for _, g := range pick(4, 5) {
							for _, ps := range []bool{false, true} {
								for _, cv := range pick(2, 2) { // (allowed, refused; the other six covert addresses: one-condition slice on every station, sequences)
									for _, ov := range pick(3, 4) { // (the table uses the first three / four overrides; every override is moved through on every station by the one-condition slice and in the sequences)
										run(st, c07Cell{payload: true, v4s: sup[0], v6s: sup[1], registrant: rg, source: src, transport: tr, gen: g, libver: 4, prescanned: ps, covert: cv, override: ov,
											dup: ncell % c07DupKinds, hand: ncell%workerEvery != 0})
									}
								}
							}
						}
					}
				}
			}
		}
	}
	// thorough tier: the remaining sources (bidirectional API, DNS, bidirectional DNS, unspecified) on the quick-tier table
	if thorough {
		for _, st := range stations {
			for _, sup := range [][2]bool{{true, true}, {true, false}, {false, true}, {false, false}} {
				for rg := 0; rg < 4; rg++ {
					for src := 3; src < len(c07Sources); src++ {
						for tr := 0; tr < 2; tr++ {
							for g := 0; g < 4; g++ {
								for _, ps := range []bool{false, true} {
									for cv := 0; cv < 2; cv++ {
										for ov := 0; ov < 3; ov++ {
											run(st, c07Cell{payload: true, v4s: sup[0], v6s: sup[1], registrant: rg, source: src, transport: tr, gen: g, libver: 4, prescanned: ps, covert: cv, override: ov,
												dup: ncell % c07DupKinds, hand: ncell%workerEvery != 0})
										}
									}
								}
							}
						}
					}
				}
			}
		}
	}
	// library versions (old clients: fixed port 443, legacy selectors) on a slice of the table
	for _, st := range stations {
		for _, lv := range []uint32{1, 2, 3} {
			for _, g := range []int{0, 1, 2, 4} {
				for _, sup := range [][2]bool{{true, true}, {true, false}, {false, true}} {
					for _, src := range []int{0, 1} {
						run(st, c07Cell{payload: true, v4s: sup[0], v6s: sup[1], registrant: 1, source: src, transport: 0, gen: g, libver: lv, dup: ncell % c07DupKinds})
					}
				}
			}
		}
	}
	out.Note(fmt.Sprintf("stations=%d cells=%d thorough=%v", len(stations), ncell, thorough))
}

func c07Replay(w *c07World, path string) {
	b, err := os.ReadFile(path)
	if err != nil {
		w.t.Fatal(err)
	}
	for _, line := range strings.Split(string(b), "\n") {
		if strings.HasPrefix(line, "c07bl|") {
			w.replayBlocklist(line)
			continue
		}
		if strings.HasPrefix(line, "c07conc|") {
			p := strings.Split(strings.TrimPrefix(line, "c07conc|"), "/")
			if len(p) != 4 {
				w.t.Fatalf("bad replay line %q", line)
			}
			st, c, err := c07ParseReplay(p[0] + "/" + p[1])
			if err != nil {
				w.t.Fatal(err)
			}
			secret, _ := hex.DecodeString(p[2])
			var sch []int
			for _, ch := range p[3] {
				sch = append(sch, int(ch-'0'))
			}
			w.runConcurrent(st, c, secret, sch)
			fmt.Printf("REPLAY two workers ingest copies of one message, schedule %s; station: v4=%v v6=%v share=%v blocklist=%v live=%v; message: v4support=%v v6support=%v source=%s prescanned=%v covert=%q\n",
				p[3], st.e4, st.e6, st.share, c07Blocklists[st.block], st.live, c.v4s, c.v6s, c07Sources[c.source], c.prescanned, c07Coverts[c.covert].addr)
			continue
		}
		if strings.HasPrefix(line, "c07seq|") || strings.HasPrefix(line, "c07seqr") {
			cache := 0
			if strings.HasPrefix(line, "c07seqr") {
				cache = 4 // `c07seqr|`: both caches, map (older replays)
				if k := line[len("c07seqr"):strings.Index(line, "|")]; k != "" {
					var err error
					if cache, err = strconv.Atoi(k); err != nil || cache < 1 || cache >= len(c07CacheConfigs) {
						w.t.Fatalf("bad replay line %q: cache configuration", line)
					}
				}
			}
			real := cache != 0
			p := strings.Split(line[strings.Index(line, "|")+1:], "/")
			if len(p) < 4 || len(p) > 2+c07MaxSessions {
				w.t.Fatalf("bad replay line %q", line)
			}
			var st c07Station
			var msgs []c07Msg
			for _, ms := range strings.Split(p[1], "+") {
				f := strings.Split(ms, ":")
				if len(f) != 2 || len(f[1]) < 2 || len(f[1]) > 3 {
					w.t.Fatalf("bad replay line %q", line)
				}
				var c c07Cell
				var err error
				if st, c, err = c07ParseReplay(p[0] + "/" + f[0]); err != nil {
					w.t.Fatal(err)
				}
				m := c07Msg{cell: c, sess: int(f[1][1] - '0')}
				var ok bool
				if m.live, m.lerr, ok = c07ParseVerdict(f[1][0]); !ok || m.sess < 0 || m.sess >= len(p)-2 {
					w.t.Fatalf("bad replay line %q", line)
				}
				if len(f[1]) == 3 {
					if m.peer = int(f[1][2] - '0'); m.peer < 0 || m.peer >= len(c07PeerModes) {
						w.t.Fatalf("bad replay line %q", line)
					}
				}
				msgs = append(msgs, m)
			}
			var secrets [][]byte
			for _, h := range p[2:] {
				sec, err := hex.DecodeString(h)
				if err != nil {
					w.t.Fatal(err)
				}
				secrets = append(secrets, sec)
			}
			m, i := w.runSeq(st, msgs, secrets, cache)
			w.out.Case(m, i, true)
			if real {
				fmt.Printf("REPLAY liveness verdicts: answered by the real tester of pkg/station/liveness, cache configuration: %s; loopback phantoms: 127.0.0.1 answers (listener), 127.0.0.2 answers (reset), 127.0.0.3 answers=%v\n", c07CacheConfigs[cache].name, c07LoopbackAnswers["127.0.0.3"])
			}
			fmt.Printf("REPLAY sequence of %d message(s); station: v4=%v v6=%v share=%v blocklist=%v covert blocklist=%s\n", len(msgs), st.e4, st.e6, st.share, c07Blocklists[st.block], c07CovertBlocklist)
			for k, mm := range msgs {
				cc := mm.cell
				if cc.garbage {
					fmt.Printf("REPLAY message %d: undecodable bytes\n", k+1)
					continue
				}
				fmt.Printf("REPLAY message %d: session=%d liveness-verdict=(%v, %v) peer=%q payload=%v v4support=%v v6support=%v registrant=%s source=%s transport=%s generation=%d libver=%d prescanned=%v covert=%q override=%s disable_registrar_overrides=%v\n",
					k+1, mm.sess, map[bool]string{false: fmt.Sprint(mm.live), true: "whatever the real tester answers"}[real], map[bool]string{false: fmt.Sprint(c07VerdictErr(mm.live, mm.lerr)), true: "see the P event"}[real], c07PeerModes[mm.peer], cc.payload, cc.v4s, cc.v6s, c07Registrants[cc.registrant].name, c07Sources[cc.source], c07Transports[cc.transport].name, c07Gens[cc.gen].gen, cc.libver, cc.prescanned, c07Coverts[cc.covert].addr, c07Overrides[cc.override].name, cc.disableOv)
			}
			fmt.Println("REPLAY model-line:", m)
			for k, a := range strings.Split(i, "|") {
				fmt.Printf("REPLAY impl after message %d: %s\n", k+1, a)
			}
			continue
		}
		if !strings.HasPrefix(line, "c07cell|") {
			continue
		}
		p := strings.Split(strings.TrimPrefix(line, "c07cell|"), "/")
		if len(p) != 3 {
			w.t.Fatalf("bad replay line %q", line)
		}
		st, c, err := c07ParseReplay(p[0] + "/" + p[1])
		if err != nil {
			w.t.Fatal(err)
		}
		secret, _ := hex.DecodeString(p[2])
		m, i := w.runCell(st, c, secret)
		w.out.Case(m, i, true)
		fmt.Printf("REPLAY station: v4=%v v6=%v share=%v blocklist=%v liveness-verdict=(%v, %v) peer=%q; messages are delivered through the ingest worker (startIngestThread)\n", st.e4, st.e6, st.share, c07Blocklists[st.block], st.live, c07VerdictErr(st.live, st.lerr), c07PeerModes[st.peer])
		for k, cc := range []c07Cell{c, c.second()} {
			fmt.Printf("REPLAY message %d: v4support=%v v6support=%v registrant=%s source=%s transport=%s generation=%d libver=%d prescanned=%v covert=%q override=%s disable_registrar_overrides=%v\n",
				k+1, cc.v4s, cc.v6s, c07Registrants[cc.registrant].name, c07Sources[cc.source], c07Transports[cc.transport].name, c07Gens[cc.gen].gen, cc.libver, cc.prescanned, c07Coverts[cc.covert].addr, c07Overrides[cc.override].name, cc.disableOv)
		}
		fmt.Println("REPLAY model-line:", m)
		fmt.Println("REPLAY impl      :", i)
		for fi, v6 := range []bool{false, true} {
			want := c07Expect(st, c, v6)
			fmt.Printf("REPLAY expected %s (first message, empty registry): admit=%v (first failing condition: %q) probe=%v\n", []string{"IPv4", "IPv6"}[fi], want.admit, want.why, want.probe)
		}
	}
}
